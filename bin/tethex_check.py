#!/usr/bin/env python3
"""Checks of the specialised kernels: C15 (tetrahedral) and C16 (hexahedral).

Pipeline per check (every verdict is taken by TLC from /verif/spec):
  M/G  TLC explores spec/OVMTetHexMC.tla (operational model OVMTet / OVMHex on
       top of OVMKernel) from the seed meshes in all four deletion modes,
       checks the model against the declarative layer on every step and
       prints every explored transition;
  E    the emitted tree is replayed on the real library (harness/tethex_exec),
       which also logs the raw answers of the specialised queries;
  R    long random histories from `tlc -simulate` on larger generated blocks
       are replayed likewise;
  V    spec/OVMTetHexTrace.tla validates every recorded state, step and answer
       against the declarative predicates (TetShape, CellVertsContract,
       OppositeInverse, TetLabelsConsistent, CollapseRel / HexShape,
       HexConvention, HexVertsContract, SheetCells, SheetHalffaces,
       HexAddCellRel).  A difference to the operational model alone is DRIFT.
This file only moves data between the tools and counts.
"""
import hashlib, json, os, re, shutil, subprocess, sys, time
from concurrent.futures import ThreadPoolExecutor
import vlib
from vlib import log, MachineryError

MODULE_MC = 'OVMTetHexMC.tla'
MODULE_TRACE = 'OVMTetHexTrace.tla'
EXE = 'tethex_exec'
DEL = ['delete_vertex', 'delete_edge', 'delete_face', 'delete_cell']
# parallelism (TLC workers, executor / validator processes); default: all cores
NPAR = int(os.environ.get('VERIF_WORKERS', vlib.NCPU))

# ---------------------------------------------------------------------------
# per property: TLC configurations (explored exhaustively, every transition
# replayed) and simulation settings.  q = query level logged by the executor.
CHECKS = {
    'C15': dict(
        kind='tet', props=['C15'],
        quick=[
            # every collapsible halfedge of every seed in all four deletion modes
            dict(name='collapse-1', Depth=1, SeedIds=[1, 2, 3, 4, 5, 6, 7, 8, 9, 10], HistOps=[],
                 TargetOps=['collapse_edge', 'collect_garbage'], q=1),
            # ... and after every deletion / collapse history of length 1 (model: exhaustive; replay: sample)
            dict(name='collapse-2', Depth=2, SeedIds=[2, 3, 5, 6, 8, 9],
                 HistOps=['collapse_edge', 'delete_cell', 'delete_vertex'],
                 TargetOps=['collapse_edge', 'collect_garbage'], q=1, sample=2500),
            # additions, accepted and rejected (valence guards, open lists, reuse of halfedges / halffaces)
            dict(name='additions', Depth=1, SeedIds=[1, 2, 8, 11], Modes='ModesDefault', HistOps=[],
                 TargetOps=['add_face3', 'add_face_v3', 'add_cell4', 'tet_add_cell_4', 'tet_add_cell_v', 'tet_add_cell_v_taken', 'tet_add_cell_new'],
                 q=1, sample=2000),
            # every face / halfface entry point (add_face, add_face(vertices), add_halfface, add_halfface(v0,v1,v2)) with closed
            # loops of length 2..5 and open lists, with and without topology check, reusing an existing face or creating
            dict(name='face-entry', Depth=1, SeedIds=[2], Modes='ModesDefault', HistOps=[], TargetOps=['tet_face_entry'], q=1, sample=500),
            # every halfface list over a tetrahedron plus two dangling triangles (not sampled)
            dict(name='additions-dangling', Depth=1, SeedIds=[11], Modes='ModesDefault', HistOps=[], TargetOps=['add_cell4', 'tet_add_cell_v12'], q=1),
            # TetTopology / TriangleTopology for every constructor form and all labels
            dict(name='labels', Depth=1, SeedIds=[1, 2, 3, 5, 8, 9], Modes='ModesDefault', HistOps=[],
                 TargetOps=['delete_cell', 'collect_garbage'], q=3),
        ],
        thorough=[
            dict(name='collapse-2', Depth=2, SeedIds=[1, 2, 3, 4, 5, 6, 7, 8, 9, 10],
                 HistOps=['collapse_edge', 'delete_cell', 'delete_vertex', 'delete_face', 'collect_garbage'],
                 TargetOps=['collapse_edge', 'collect_garbage'], q=1),
            dict(name='collapse-3', Depth=3, SeedIds=[2, 3, 5, 6, 8, 9],
                 HistOps=['collapse_edge', 'delete_cell'],
                 TargetOps=['collapse_edge'], q=1, sample=15000),
            dict(name='additions', Depth=1, SeedIds=[1, 2, 5, 8, 11], Modes='ModesAll', HistOps=[],
                 TargetOps=['add_face3', 'add_face_v3', 'add_cell4', 'tet_add_cell_4', 'tet_add_cell_v', 'tet_add_cell_v_taken', 'tet_add_cell_new'],
                 q=1, sample=12000),
            dict(name='face-entry', Depth=2, SeedIds=[2, 8], Modes='ModesDefault', HistOps=['delete_cell'], TargetOps=['tet_face_entry'], q=1, sample=6000),
            dict(name='additions-2', Depth=2, SeedIds=[2, 5, 8], Modes='ModesDefault', HistOps=['delete_cell', 'collapse_edge'],
                 TargetOps=['add_cell4', 'tet_add_cell_4', 'tet_add_cell_v', 'tet_add_cell_v_taken', 'tet_add_cell_new', 'tet_add_cell_v12'],
                 q=1, sample=8000),
            dict(name='splits', Depth=3, SeedIds=[1, 2, 3, 5, 6], Modes='ModesAll', HistOps=['add_vertex', 'split_edge', 'split_face'],
                 TargetOps=['split_edge', 'split_face', 'collapse_edge', 'collect_garbage'], q=1, sample=8000),
            dict(name='labels', Depth=2, SeedIds=[1, 2, 3, 4, 5, 6, 7, 8, 9, 10], Modes='ModesAll', HistOps=['collapse_edge', 'delete_cell'],
                 TargetOps=['delete_cell', 'collect_garbage', 'collapse_edge'], q=3, sample=300),
        ],
        sim=dict(quick=dict(SeedIds=[21, 7, 9, 10], num=24, depth=14),
                 thorough=dict(SeedIds=[21, 22, 23, 7, 9, 10], num=320, depth=40),
                 ops=DEL + ['collect_garbage', 'collapse_edge', 'collapse_edge', 'collapse_edge', 'tet_add_cell_4', 'tet_add_cell_v',
                            'add_vertex', 'split_edge', 'split_face', 'enable_deferred', 'enable_fast'], q=1),
    ),
    # C03 stage: property values through collapse_edge (and split_*).  Not a registered check of its
    # own: run as `python3 bin/tethex_check.py C03 --tier ...`; prints a C03STATS line, writes no evidence.
    'C03': dict(
        kind='tet', props=['C03'], plevel=2, stamp_each=True, stats_only=True,
        quick=[
            dict(name='collapse-1', Depth=1, SeedIds=[1, 2, 3, 4, 5, 6, 7, 8, 9, 10], HistOps=[],
                 TargetOps=['collapse_edge'], q=0),
            dict(name='collapse-2', Depth=2, SeedIds=[2, 3, 5, 6, 8, 9],
                 HistOps=['collapse_edge', 'delete_cell', 'delete_vertex'],
                 TargetOps=['collapse_edge'], q=0, sample=600),
            # split_edge / split_face (the callers of copy_property_elements) with a fresh isolated vertex
            dict(name='splits', Depth=2, SeedIds=[2, 3, 5], HistOps=['add_vertex'],
                 TargetOps=['split_edge', 'split_face'], q=0),
        ],
        thorough=[
            dict(name='collapse-2', Depth=2, SeedIds=[1, 2, 3, 4, 5, 6, 7, 8, 9, 10],
                 HistOps=['collapse_edge', 'delete_cell', 'delete_vertex', 'delete_face', 'collect_garbage'],
                 TargetOps=['collapse_edge'], q=0, sample=12000),
            dict(name='collapse-3', Depth=3, SeedIds=[2, 3, 5, 6, 8, 9],
                 HistOps=['collapse_edge', 'delete_cell'], TargetOps=['collapse_edge'], q=0, sample=6000),
            dict(name='splits', Depth=3, SeedIds=[1, 2, 3, 5, 6], Modes='ModesAll', HistOps=['add_vertex', 'split_edge', 'split_face'],
                 TargetOps=['split_edge', 'split_face', 'collapse_edge'], q=0, sample=5000),
        ],
        sim=dict(quick=dict(SeedIds=[21, 7, 9, 10], num=8, depth=12),
                 thorough=dict(SeedIds=[21, 22, 7, 9, 10], num=120, depth=30),
                 ops=['delete_cell', 'delete_face', 'collect_garbage', 'collapse_edge', 'collapse_edge', 'collapse_edge', 'collapse_edge',
                      'tet_add_cell_4', 'add_vertex', 'split_edge', 'split_face', 'enable_deferred', 'enable_fast'], q=0),
    ),
    # C05 stage: protocol of the specialised circulators (tv_iter, hv_iter, csc_iter x 6 directions, hfshf_iter),
    # max_laps 1..3.  Run as `python3 bin/tethex_check.py C05 --tier ...`; prints C05STATS, writes no evidence.
    'C05': dict(
        kind='tet', props=['C05'], plevel=0, proto=1, stats_only=True,
        quick=[
            dict(name='tet', kind='tet', Depth=2, SeedIds=[2, 3, 5, 7, 9], HistOps=['delete_cell'],
                 TargetOps=['delete_cell', 'collect_garbage'], q=0, sample=150),
            dict(name='hex', kind='hex', Depth=2, SeedIds=[1, 2, 3, 4, 5, 6, 7], HistOps=['delete_cell'],
                 TargetOps=['delete_cell', 'collect_garbage'], q=0, sample=150),
            dict(name='hex-3x3x3', kind='hex', Depth=1, SeedIds=[9], Modes='ModesDefault', HistOps=[],
                 TargetOps=['collect_garbage', 'enable_fast'], q=0),
        ],
        thorough=[
            dict(name='tet', kind='tet', Depth=2, SeedIds=[1, 2, 3, 4, 5, 6, 7, 8, 9, 10], HistOps=['delete_cell', 'collapse_edge', 'delete_vertex'],
                 TargetOps=['delete_cell', 'delete_face', 'collect_garbage', 'collapse_edge'], q=0, sample=3000),
            dict(name='hex', kind='hex', Depth=2, SeedIds=[1, 2, 3, 4, 5, 6, 7], HistOps=['delete_cell', 'collect_garbage'],
                 TargetOps=['delete_cell', 'delete_face', 'delete_vertex', 'collect_garbage', 'hex_add_cell_v'], q=0, sample=3000),
            dict(name='hex-3x3x3', kind='hex', Depth=1, SeedIds=[9], Modes='ModesAll', HistOps=[],
                 TargetOps=['delete_cell', 'collect_garbage'], q=0, sample=60),
        ],
        sim=None,
    ),
    # C11 stage: construction validates on the tetrahedral / hexahedral kernels (handle-based add_face, add_halfface,
    # add_cell; closed and non-closed lists, wrong valences, with and without topology check).
    # `python3 bin/tethex_check.py C11 --tier ...`; prints C11STATS, writes no evidence.
    'C11': dict(
        kind='tet', props=['C11'], plevel=0, stats_only=True,
        quick=[
            dict(name='tet-faces', kind='tet', Depth=1, SeedIds=[2], Modes='ModesDefault', HistOps=[],
                 TargetOps=['tet_face_entry'], q=0, sample=400),
            dict(name='tet-cells', kind='tet', Depth=2, SeedIds=[2, 11], Modes='ModesDefault', HistOps=['delete_cell'],
                 TargetOps=['add_cell4', 'add_cell4_unchecked'], q=0, sample=500),
            # a cube (before / after delete_cell) with a flap quad on one of its edges: closed lists in two orders, one
            # side replaced by any other live halfface (flap, doubled side, opposite, foreign), 5 and 7 entries
            dict(name='hex-cells', kind='hex', Depth=2, SeedIds=[10], Modes='ModesDefault', HistOps=['delete_cell'],
                 TargetOps=['add_cell_bad', 'add_cell6_unchecked', 'hex_face_entry'], q=0),
        ],
        thorough=[
            dict(name='tet-faces', kind='tet', Depth=2, SeedIds=[2, 8], Modes='ModesDefault', HistOps=['delete_cell'],
                 TargetOps=['tet_face_entry'], q=0, sample=5000),
            dict(name='tet-cells', kind='tet', Depth=2, SeedIds=[1, 2, 5, 8, 11], Modes='ModesAll', HistOps=['delete_cell', 'delete_face'],
                 TargetOps=['add_cell4', 'add_cell4_unchecked'], q=0, sample=6000),
            dict(name='hex-cells', kind='hex', Depth=2, SeedIds=[1, 2, 10], Modes='ModesAll', HistOps=['delete_cell'],
                 TargetOps=['add_cell_bad', 'add_cell6_unchecked', 'hex_face_entry', 'add_cell6'], q=0, sample=8000),
            dict(name='hex-permutations', kind='hex', Depth=2, SeedIds=[2, 10], Modes='ModesDefault', HistOps=['delete_cell'],
                 TargetOps=['add_cell_perm'], q=0, sample=4000),
        ],
        sim=None,
    ),
    'C16': dict(
        kind='hex', props=['C16'],
        quick=[
            dict(name='states', Depth=2, SeedIds=[1, 2, 3, 4, 5, 6],
                 HistOps=['delete_cell', 'collect_garbage'],
                 TargetOps=['delete_cell', 'delete_face', 'delete_vertex', 'collect_garbage', 'hex_add_cell_v'], q=1, sample=3000),
            dict(name='adjacency', Depth=1, SeedIds=[2, 3, 4, 5], Modes='ModesDefault', HistOps=[],
                 TargetOps=['delete_cell'], q=2),
            # all 720 orderings of a valid list, and invalid lists, on a single cube and on a cube attached to another
            dict(name='permutations', Depth=2, SeedIds=[1, 2], Modes='ModesDefault', HistOps=['delete_cell'],
                 TargetOps=['add_cell_perm', 'add_cell_bad'], q=0),
            dict(name='valences', Depth=1, SeedIds=[1], Modes='ModesDefault', HistOps=[],
                 TargetOps=['add_face4', 'add_cell6', 'hex_face_entry'], q=0),
        ],
        thorough=[
            dict(name='states', Depth=2, SeedIds=[1, 2, 3, 4, 5, 6],
                 HistOps=['delete_cell', 'delete_vertex', 'delete_face', 'collect_garbage'],
                 TargetOps=['delete_cell', 'delete_face', 'delete_edge', 'delete_vertex', 'collect_garbage', 'hex_add_cell_v'],
                 q=1, sample=20000),
            dict(name='states-3', Depth=3, SeedIds=[2, 3, 4, 5],
                 HistOps=['delete_cell', 'collect_garbage'],
                 TargetOps=['delete_cell', 'collect_garbage', 'hex_add_cell_v'], q=1, sample=10000),
            dict(name='adjacency', Depth=2, SeedIds=[1, 2, 3, 4, 5, 6], Modes='ModesAll', HistOps=['delete_cell', 'collect_garbage'],
                 TargetOps=['delete_cell', 'hex_add_cell_v'], q=2, sample=3000),
            dict(name='permutations', Depth=2, SeedIds=[1, 2, 6], Modes='ModesAll', HistOps=['delete_cell'],
                 TargetOps=['add_cell_perm', 'add_cell_bad'], q=0, variant='san'),
            dict(name='permutations-L', Depth=2, SeedIds=[4, 5], Modes='ModesDefault', HistOps=['delete_cell'],
                 TargetOps=['add_cell_perm'], q=0),
            dict(name='valences', Depth=2, SeedIds=[1, 2], Modes='ModesAll', HistOps=['delete_cell'],
                 TargetOps=['add_face4', 'add_cell6', 'hex_face_entry'], q=0),
        ],
        sim=dict(quick=dict(SeedIds=[3, 5, 8], num=16, depth=12),
                 thorough=dict(SeedIds=[7, 8, 3, 5], num=240, depth=30),
                 ops=DEL + ['delete_cell', 'delete_cell', 'collect_garbage', 'hex_add_cell_v', 'hex_add_cell_v', 'hex_add_cell_v',
                            'enable_deferred', 'enable_fast'], q=1),
    ),
}

ASSUMPTIONS = [
    'TLC 2.x and the CommunityModules JSON bridge are trusted',
    'the executor\'s projection of the mesh state (harness/ovm_state.hh: dump_state) and its logging of raw query answers '
    '(harness/tethex_exec.cc) are trusted; a corruption self-test of the validator is part of the thorough tier',
    'bounded: seed meshes, alphabets and depths listed in coverage.configs; beyond them only random histories',
    'contract: all bottom-up incidences enabled (the specialised kernels require them); closed cells; '
    'collapse_edge asserted only on simplicial-complex states for halfedges satisfying the link condition; '
    'hexahedral cells created from 8 vertices or accepted with topology check',
]


# --------------------------------------------------------------------- TLC
def write_cfg(path, c, kind, sim=False):
    lines = ['SPECIFICATION %s' % ('XSimSpec' if sim else 'XSpec'), 'CONSTANTS',
             '  Kind = "%s"' % kind,
             '  Depth = %d' % c['Depth'],
             '  SeedIds = %s' % vlib.tla_set(c['SeedIds']),
             '  Modes <- %s' % c.get('Modes', 'ModesAll'),
             '  BUSets <- BUOn',
             '  HistOps %s' % (('= ' + vlib.tla_set(c['HistOps'])) if c['HistOps'] else '<- NoOps'),
             '  TargetOps %s' % (('= ' + vlib.tla_set(c['TargetOps'])) if c['TargetOps'] else '<- NoOps'),
             '  MaxList = 3',
             '  Emit = "%s"' % ('sim' if sim else 'tree'),
             'INVARIANT XReport', 'INVARIANT XSeedOK', 'INVARIANT XSeedInfo', 'INVARIANT XSimTrace',
             'VIEW View', 'ACTION_CONSTRAINT EmitStep', 'CHECK_DEADLOCK FALSE']
    open(path, 'w').write('\n'.join(lines) + '\n')


def run_tlc(cfgpath, workdir, workers=None, simulate=None, timeout=7200, heap='8g'):
    """TLC on OVMTetHexMC.  Parses ORG / EMIT / SIM / INFO / MBAD lines."""
    os.makedirs(workdir, exist_ok=True)
    meta = os.path.join(workdir, 'meta-' + os.path.basename(cfgpath))
    shutil.rmtree(meta, ignore_errors=True)
    cmd = ['java', '-XX:+UseSerialGC' if simulate else '-XX:+UseParallelGC', '-Xmx' + heap, '-Xss16m', '-cp', vlib.JAR, 'tlc2.TLC',
           '-workers', str(workers or NPAR), '-metadir', meta, '-noGenerateSpecTE', '-config', cfgpath]
    if simulate:
        cmd += ['-simulate', 'num=%d' % simulate['num'], '-depth', str(simulate['depth']), '-seed', str(simulate['seed'])]
    cmd += [MODULE_MC]
    t0 = time.time()
    p = subprocess.Popen(cmd, cwd=vlib.SPEC, stdout=subprocess.PIPE, stderr=subprocess.STDOUT, text=True)
    orgs, trans, sims, infos, mbads, tail = {}, [], [], [], [], []
    stats = {'generated': 0, 'distinct': 0}
    err = None
    try:
        for line in p.stdout:
            if line.startswith('<<"EMIT"'):
                d = json.loads(vlib._payload(line, 'EMIT')); trans.append((tuple(d['key']), d['path']))
            elif line.startswith('<<"ORG"'):
                d = json.loads(vlib._payload(line, 'ORG')); orgs[tuple(d['key'])] = d['script']
            elif line.startswith('<<"SIM"'):
                sims.append(json.loads(vlib._payload(line, 'SIM')))
            elif line.startswith('<<"INFO"'):
                infos.append(json.loads(vlib._payload(line, 'INFO')))
            elif line.startswith('<<"MBAD"'):
                mbads.append(json.loads(vlib._payload(line, 'MBAD')))
            else:
                tail.append(line)
                if len(tail) > 400:
                    tail = tail[-200:]
                m = re.search(r'(\d+) states generated, (\d+) distinct states found', line)
                if m:
                    stats['generated'], stats['distinct'] = int(m.group(1)), int(m.group(2))
                if line.startswith('Error:') and err is None:
                    err = line.strip()
            if time.time() - t0 > timeout:
                p.kill()
                raise MachineryError('TLC timeout on ' + cfgpath)
    finally:
        p.wait()
    shutil.rmtree(meta, ignore_errors=True)
    out = ''.join(tail)
    if p.returncode not in (0, 12):
        raise MachineryError('TLC failed (exit %d) on %s:\n%s' % (p.returncode, cfgpath, out[-3000:]))
    return dict(orgs=orgs, transitions=trans, sims=sims, infos=infos, mbads=mbads, stats=stats, rc=p.returncode,
                error=err if p.returncode == 12 else None, output=out, wall=time.time() - t0)


# --------------------------------------------------------------------- validator
def run_validate(trace_path, props, workdir, timeout=7200, heap='4g'):
    cfg = os.path.join(workdir, 'trace-%s.cfg' % hashlib.md5(trace_path.encode()).hexdigest()[:8])
    open(cfg, 'w').write('SPECIFICATION TSpec\nCONSTANT Props = %s\nINVARIANT Done\nCHECK_DEADLOCK FALSE\n' % vlib.tla_set(props))
    meta = cfg + '.meta'
    env = dict(os.environ, TRACE=trace_path)
    cmd = ['java', '-XX:+UseSerialGC', '-Xmx' + heap, '-Xss32m', '-cp', vlib.JAR, 'tlc2.TLC', '-workers', '1', '-metadir', meta,
           '-noGenerateSpecTE', '-config', cfg, MODULE_TRACE]
    t0 = time.time()
    try:
        r = subprocess.run(cmd, cwd=vlib.SPEC, env=env, stdout=subprocess.PIPE, stderr=subprocess.STDOUT, text=True, timeout=timeout)
    except subprocess.TimeoutExpired:
        raise MachineryError('validator timeout on ' + trace_path)
    finally:
        shutil.rmtree(meta, ignore_errors=True)
    bads, drifts, done, info = [], [], None, {}
    for line in r.stdout.splitlines():
        if line.startswith('<<"VXBAD"'):
            m = re.match(r'<<"VXBAD", (\d+), (-?\d+), (-?\d+), "(.*)">>', line)
            bads.append(dict(line=int(m.group(1)), x=int(m.group(2)), msg=m.group(4)))
        elif line.startswith('<<"VXDRIFT"'):
            m = re.match(r'<<"VXDRIFT", (\d+), (-?\d+), (-?\d+), "(.*)">>', line)
            drifts.append(dict(line=int(m.group(1)), op=m.group(4)))
        elif line.startswith('<<"VXINFO"'):
            info = json.loads(vlib._payload(line, 'VXINFO'))
        elif line.startswith('<<"VXDONE"'):
            m = re.match(r'<<"VXDONE", (\d+), (\d+), (\d+), (\d+)>>', line)
            done = dict(lines=int(m.group(1)), checked=int(m.group(2)), bad=int(m.group(3)), drift=int(m.group(4)))
    if r.returncode != 0 or done is None:
        raise MachineryError('validator failed (exit %d) on %s:\n%s' % (r.returncode, trace_path, r.stdout[-3000:]))
    return dict(bads=bads, drifts=drifts, done=done, info=info, wall=time.time() - t0)


def exec_and_validate(variant, scripts, props, workdir, tag):
    """Run every script shard on the implementation, validate its trace."""
    binary = vlib.exe(variant, EXE)
    os.makedirs(workdir, exist_ok=True)

    def one(i):
        sp = os.path.join(workdir, '%s-%03d.txt' % (tag, i))
        open(sp, 'w').write(scripts[i])
        raw = sp[:-4] + '.raw.ndjson'
        rc = vlib.run_exec(binary, sp, raw)
        mg = sp[:-4] + '.ndjson'
        info = vlib.munge(raw, mg)
        os.remove(raw)
        if rc != 0 or not info['ended']:
            info['crashes'].append(dict(e='toplevel', rc=rc, err=open(raw + '.err').read()[-2000:]))
        v = run_validate(mg, props, workdir)
        return dict(script=sp, trace=mg, info=info, val=v, err=raw + '.err')

    with ThreadPoolExecutor(max_workers=NPAR) as ex:
        res = list(ex.map(one, range(len(scripts))))
    agg = dict(lines=0, checked=0, bad=0, drift=0, failures=[], crashes=[], drifts=[], info={})
    for r in res:
        d = r['val']['done']
        agg['lines'] += d['lines']; agg['checked'] += d['checked']; agg['bad'] += d['bad']; agg['drift'] += d['drift']
        for k, v in r['val']['info'].items():
            agg['info'][k] = agg['info'].get(k, 0) + v
        lines = None
        for b in r['val']['bads']:
            if lines is None:
                lines = open(r['trace']).read().splitlines()
            path, root = vlib.path_of_line(lines, b['line'])
            agg['failures'].append(dict(msg=b['msg'], path=path, script=r['script'], x=b['x'], line=b['line'], trace=r['trace']))
        for dft in r['val']['drifts']:
            if lines is None:
                lines = open(r['trace']).read().splitlines()
            path, root = vlib.path_of_line(lines, dft['line'])
            agg['drifts'].append(dict(op=dft['op'], trace=r['trace'], line=dft['line'], path=path[-3:]))
        for c in r['info']['crashes']:
            c = dict(c); c['script'] = r['script']; c['errfile'] = r['err']; c['trace'] = r['trace']; c['msg'] = 'crash'
            if c.get('pl') and c.get('sid', -1) >= 0:
                if lines is None:
                    lines = open(r['trace']).read().splitlines()
                path, root = vlib.path_of_line(lines, c['pl'])
                sl = open(r['script']).read().splitlines()[c['sid']].split()
                if sl and sl[0] == 'C':
                    n = int(sl[6])
                    path.append(dict(op=sl[2], a=int(sl[3]), b=int(sl[4]), f=sl[5] == '1', l=[int(v) for v in sl[7:7 + n]]))
                c['path'] = path
            try:
                c['stderr'] = open(r['err']).read()[-1500:]
            except OSError:
                pass
            agg['crashes'].append(c)
    return agg


# --------------------------------------------------------------------- findings
def match_known(prop, sig, known):
    for k in known:
        if k.get('status') != 'open' or k.get('property') != prop:
            continue
        m = k.get('match', {})
        if m and all(sig.get(a) == b for a, b in m.items()):
            return k
    return None


def signature(f):
    path = f.get('path') or []
    last = path[-1] if path else {}
    return dict(kind='crash' if f.get('msg') == 'crash' else ('model' if f.get('model') else 'relation'),
                msg=f.get('msg', ''), op=last.get('op', ''), check=last.get('f', False))


def write_replay(prop, kind_mesh, failure, opts):
    """A linear, self-contained script reproducing one failing step."""
    os.makedirs(os.path.join(vlib.RUN, 'replay'), exist_ok=True)
    lines = vlib.script_prefix_for(failure['script'], failure.get('x', 0)) if failure.get('script') else []
    if not lines:
        lines = ['R %s %s' % (kind_mesh, opts)]
    body = list(lines)
    if not any(l.startswith('C 0 stamp') for l in body):
        body.append('C 0 stamp 0 0 0 0')
    body.append('P')
    calls = failure.get('path') or []
    for i, c in enumerate(calls):
        body.append(vlib.call_line(c, 1 if i == len(calls) - 1 else 2))
    txt = '\n'.join(body) + '\n'
    h = hashlib.sha1(txt.encode()).hexdigest()[:12]
    p = os.path.join(vlib.RUN, 'replay', '%s-%s.txt' % (prop, h))
    open(p, 'w').write('# %s %s\n' % (prop, failure.get('msg', '')) + txt)
    return p


# --------------------------------------------------------------------- selftest
def selftest(prop, kind, work, variant):
    """Binding demonstration: corrupt single recorded fields of a valid trace;
    the validator must reject every corrupted copy."""
    import copy
    if kind == 'tet':
        script = ('R tet props=1 q=3\nC 0 add_n_vertices 5 0 0 0\nC 0 tet_add_cell_4 0 0 0 4 0 1 2 3\n'
                  'C 0 tet_add_cell_v 0 0 1 4 1 2 3 4\nC 0 stamp 0 0 0 0\nP\nB\nC 1 collapse_edge 0 0 0 0\nE\n')
    else:
        script = ('R hex props=1 q=2\nC 0 add_n_vertices 12 0 0 0\nC 0 hex_add_cell_v 0 0 1 8 0 1 4 3 6 9 10 7\n'
                  'C 0 hex_add_cell_v 0 0 1 8 1 2 5 4 7 10 11 8\nC 0 stamp 0 0 0 0\nP\nB\nC 1 delete_cell 0 0 0 0\nE\n')
    sp = os.path.join(work, 'selftest.txt'); open(sp, 'w').write(script)
    raw = os.path.join(work, 'selftest.raw'); vlib.run_exec(vlib.exe(variant, EXE), sp, raw)
    base = os.path.join(work, 'selftest.ndjson'); vlib.munge(raw, base)
    L0 = [json.loads(x) for x in open(base)]

    def swap(a, i, j): a[i], a[j] = a[j], a[i]
    P = next(i for i, d in enumerate(L0) if d['e'] == 'pre' and 'q' in d)      # seed state with query answers
    C = next(i for i, d in enumerate(L0) if d['e'] == 'call')                  # the checked call
    if kind == 'tet':
        deep = lambda L: [x for x in L[P]['q']['topo'] if x['deep']][1]
        muts = [lambda L: swap(L[P]['q']['cells'][0]['gcv'], 0, 1),
                lambda L: L[P]['q']['cells'][0]['gcv_v'][3].__setitem__(1, [3, 0, 1, 2]),
                lambda L: swap(L[P]['q']['cells'][0]['gcv_hfhe'][4][2], 1, 2),
                lambda L: L[P]['q']['topo'][5]['hfh'].__setitem__('BDC', L[P]['q']['topo'][5]['hfh']['ABC']),
                lambda L: deep(L)['tri']['ACB']['h'].__setitem__(0, deep(L)['tri']['ACB']['h'][0] ^ 1),
                lambda L: deep(L)['glhe'][0].__setitem__(1, 'BC'),
                lambda L: L[C]['post']['cells'].__setitem__(1, [7, 8, 10, 13]),
                lambda L: L[C].__setitem__('ret', 2),
                lambda L: L[P]['q']['hov'][7].__setitem__(1, 1),
                lambda L: L[P]['q']['cells'][0].__setitem__('tv', [0, 1, 3, 2]),
                lambda L: L[C]['post']['faces'].__setitem__(3, [11, 7, 3, 5])]
    else:
        muts = [lambda L: swap(L[P]['q']['cells'][0]['hv'], 4, 5),
                lambda L: L[P]['q']['orth'][0].__setitem__(2, 5),
                lambda L: L[P]['q']['cells'][1]['csc'].__setitem__(0, []),
                lambda L: L[P]['q']['hfshf'][0].__setitem__(1, [14]),
                lambda L: swap(L[P]['post']['cells'][1], 2, 4),
                lambda L: L[P]['q']['cells'][0]['ori'][1].__setitem__(1, 3),
                lambda L: L[P]['q']['cells'][0]['opp'][0].__setitem__(1, 4),
                lambda L: L[P]['q']['cells'][0].__setitem__('yf', L[P]['q']['cells'][0]['yb']),
                lambda L: swap(L[C]['post']['cells'][1], 0, 1)]
    paths = []
    for i, mu in enumerate(muts):
        L = copy.deepcopy(L0); mu(L)
        p = os.path.join(work, 'selftest-m%d.ndjson' % i)
        open(p, 'w').write('\n'.join(json.dumps(x, separators=(',', ':')) for x in L) + '\n')
        paths.append(p)
    with ThreadPoolExecutor(max_workers=NPAR) as ex:
        base_res = run_validate(base, [prop], work)
        res = list(ex.map(lambda p: run_validate(p, [prop], work), paths))
    killed = sum(1 for r in res if r['done']['bad'] > 0)
    if base_res['done']['bad'] != 0:
        raise MachineryError('selftest: the uncorrupted trace is rejected: %r' % base_res['bads'])
    if killed != len(muts):
        raise MachineryError('selftest: the validator accepted %d of %d corrupted traces' % (len(muts) - killed, len(muts)))
    return dict(corruptions=len(muts), rejected=killed)


# --------------------------------------------------------------------- main
def run_check(prop, tier, seed, replay=None):
    t0 = time.time()
    cfg = CHECKS[prop]
    kind = cfg['kind']
    work = os.path.join(vlib.RUN, '%s-%s-%d' % (prop, tier, os.getpid()))
    shutil.rmtree(work, ignore_errors=True)
    os.makedirs(work)
    variants = {'plain'} | {mc.get('variant', 'plain') for mc in cfg[tier]}
    for v in sorted(variants):
        vlib.build(v, [EXE])
    known = vlib.load_known()
    failures, crashes, drifts = [], [], []
    cov = dict(states=0, transitions=0, traces_validated_against_impl=0, samples=[], configs=[],
               impl_steps_executed=0, drift_lines=0, model_findings=[], counters={}, seeds=[])

    def absorb(agg):
        for f_ in agg['failures'] + agg['crashes']:
            f_['kind'] = kind
        failures.extend(agg['failures']); crashes.extend(agg['crashes']); drifts.extend(agg['drifts'])
        cov['traces_validated_against_impl'] += agg['checked']
        cov['impl_steps_executed'] += agg['lines']
        cov['drift_lines'] += agg['drift']
        for k, v in agg['info'].items():
            cov['counters'][k] = cov['counters'].get(k, 0) + v

    if replay:
        txt = ''.join(l for l in open(replay) if not l.startswith('#'))
        agg = exec_and_validate('plain', [txt], cfg['props'], work, 'replay')
        absorb(agg)
        cov['states'] = cov['transitions'] = max(1, agg['checked'])
        cov['samples'].append(dict(replay=replay))
    else:
        import random
        rnd = random.Random(seed)
        only = [x for x in os.environ.get('VERIF_ONLY', '').split(',') if x]      # development: restrict to named configurations
        for n, mc in enumerate(cfg[tier]):
            c = dict(mc)
            if only and c['name'] not in only:
                continue
            kind = c.get('kind', cfg['kind'])
            cp = os.path.join(work, 'mc%d.cfg' % n)
            write_cfg(cp, c, kind)
            r = run_tlc(cp, work)
            trans = r['transitions']
            if c.get('sample') and len(trans) > c['sample']:
                # keep every prefix of a kept transition (tree_scripts rebuilds the tree from full paths)
                trans = rnd.sample(trans, c['sample'])
            log('%s %s: %d generated, %d distinct, %d transitions emitted (%d replayed), %d model findings, %.0fs' %
                (prop, c['name'], r['stats']['generated'], r['stats']['distinct'], len(r['transitions']), len(trans), len(r['mbads']), r['wall']))
            cov['states'] += r['stats']['distinct']; cov['transitions'] += len(r['transitions'])
            cov['configs'].append(dict(c, tlc_wall_s=round(r['wall'], 1), generated=r['stats']['generated'],
                                       distinct=r['stats']['distinct'], emitted=len(r['transitions']), replayed=len(trans)))
            if n == 0:
                cov['seeds'] = r['infos'][:40]
            if r['error']:
                failures.append(dict(msg='MODEL:' + r['error'], path=[], script='', x=0, model=True, detail=r['output'][-6000:]))
            for mb in r['mbads']:
                failures.append(dict(msg='MODEL:' + mb['bad'], path=mb['path'], script='', x=0, model=True,
                                     org=mb.get('script'), detail=json.dumps(mb)))
            if not trans:
                continue
            opts = 'props=%d q=%d' % (cfg.get('plevel', 1), c.get('q', 1)) + (' proto=1' if cfg.get('proto') else '')
            scripts = vlib.tree_scripts(r['orgs'], trans, opts, NPAR * 2, mesh=kind)
            if cfg.get('stamp_each'):
                # every new slot gets distinct values before the next call (logged, not checked)
                scripts = [re.sub(r'(?m)^(C 1 .*)$', r'\1\nC 2 stamp 0 0 0 0', sc) for sc in scripts]
            if len(cov['samples']) < 4:
                k, p = trans[len(trans) // 2]
                cov['samples'].append(dict(config=c['name'], seed_and_modes=list(k), calls=p))
            agg = exec_and_validate(c.get('variant', 'plain'), scripts, cfg['props'], work, 'e%d' % n)
            log('%s %s: %d lines, %d checked, %d bad, %d drift, %d crashes %s' %
                (prop, c['name'], agg['lines'], agg['checked'], agg['bad'], agg['drift'], len(agg['crashes']), json.dumps(agg['info'])))
            absorb(agg)
        sim = cfg.get('sim')
        if sim and not (only and 'random' not in only):
            num, depth = sim[tier]['num'], sim[tier]['depth']
            c = dict(name='random', Depth=depth + 1, SeedIds=sim[tier]['SeedIds'], HistOps=sorted(set(sim['ops'])), TargetOps=[], Modes='ModesAll')
            cp = os.path.join(work, 'sim.cfg')
            write_cfg(cp, c, kind, sim=True)
            # several independent simulation runs (TLC simulation is single-threaded)
            nproc = min(8, NPAR, max(1, num // 3))
            per = (num + nproc - 1) // nproc
            with ThreadPoolExecutor(max_workers=nproc) as ex:
                runs = list(ex.map(lambda i: run_tlc(cp, os.path.join(work, 'sim%d' % i), workers=1,
                                                     simulate=dict(num=per, depth=depth, seed=seed * 1000 + i), heap='2g'), range(nproc)))
            hist, simwall = [], 0.0
            for i, r in enumerate(runs):
                simwall = max(simwall, r['wall'])
                best = {}
                for d in r['sims']:          # one report per state; keep the longest per behaviour
                    if d['t'] not in best or len(d['path']) > len(best[d['t']]['path']):
                        best[d['t']] = d
                hist += [d for d in best.values() if len(d['path']) >= 2]
                for mb in r['mbads']:
                    failures.append(dict(msg='MODEL:' + mb['bad'], path=mb['path'], script='', x=0, model=True,
                                         org=mb.get('script'), detail=json.dumps(mb)))
            scripts = [vlib.linear_script(h['script'] + h['path'], 'props=%d q=%d' % (cfg.get('plevel', 1), sim['q']), mesh=kind,
                                          silent_prefix=len(h['script']))
                       for h in hist]
            nsh = NPAR
            shards = [''.join(scripts[i::nsh]) for i in range(nsh) if scripts[i::nsh]]
            if shards:
                agg = exec_and_validate('plain', shards, cfg['props'], work, 'r')
                log('%s random: %d histories, %d lines, %d checked, %d bad, %d drift, %d crashes %s' %
                    (prop, len(hist), agg['lines'], agg['checked'], agg['bad'], agg['drift'], len(agg['crashes']), json.dumps(agg['info'])))
                absorb(agg)
            cov['random_histories'] = len(hist)
            cov['configs'].append(dict(c, tlc_wall_s=round(simwall, 1), histories=len(hist), steps_total=sum(len(h['path']) for h in hist)))
            if hist:
                cov['samples'].append(dict(random_history=hist[0]['path'][:10]))
        if (tier == 'thorough' or os.environ.get('VERIF_SELFTEST')) and not cfg.get('stats_only'):
            cov['selftest'] = selftest(prop, kind, work, 'plain')

    # ---- classification: known findings vs. violations
    rc = 0
    seen = set()
    nknown = 0
    nrep = 0
    for f in failures + crashes:
        sig = signature(f)
        k = match_known(prop, sig, known)
        if k:
            nknown += 1
            if ('k', k.get('what')) not in seen:
                seen.add(('k', k.get('what')))
                print('KNOWN-FINDING: property=%s %s' % (prop, k.get('what', '')))
            continue
        if f.get('model'):
            os.makedirs(os.path.join(vlib.RUN, 'replay'), exist_ok=True)
            if f.get('org') is not None:
                p = write_replay(prop, kind, dict(path=f['path'], msg=f['msg'], script='', x=0,
                                                  ), 'props=1 q=0')
                # prepend the seed's construction script
                txt = open(p).read().splitlines()
                head = [txt[0], txt[1]] + [vlib.call_line(c, 0) for c in f['org']] + txt[2:]
                open(p, 'w').write('\n'.join(head) + '\n')
            else:
                p = os.path.join(vlib.RUN, 'replay', '%s-model-%s.txt' % (prop, hashlib.sha1(f.get('detail', '').encode()).hexdigest()[:10]))
                open(p, 'w').write('# ' + f.get('msg', '') + '\n# ' + f.get('detail', '').replace('\n', '\n# ') + '\n')
            cov['model_findings'].append(dict(msg=f['msg'], path=f.get('path', [])[-2:]))
        else:
            nrep += 1
            if nrep > 40:      # enough replay files for one run
                rc = 1
                continue
            p = write_replay(prop, f.get('kind', kind), f, 'props=%d q=1' % cfg.get('plevel', 1) + (' proto=1' if cfg.get('proto') else ''))
        key = (f.get('msg'), sig['op'], sig['check']) if len(seen) > 12 else (f.get('msg'), p)
        if key in seen:
            continue
        seen.add(key)
        rc = 1
        if sum(1 for s in seen if s[0] != 'k') <= 10:
            print('VIOLATION property=%s replay=%s' % (prop, p))
            log('  ', f.get('msg'), json.dumps(f.get('path', []))[:500], (f.get('stderr') or '')[-300:].replace('\n', ' | '))
    nviol = sum(1 for s in seen if s[0] != 'k')
    cov['drift_samples'] = drifts[:5]
    cov['known_findings_seen'] = nknown
    if cov['states'] == 0:
        cov['states'] = 1
    if cov['transitions'] == 0:
        cov['transitions'] = 1
    if cfg.get('stats_only'):
        print('%sSTATS %s' % (prop, json.dumps(dict(tier=tier, seed=seed, states=cov['states'], transitions=cov['transitions'],
              traces_validated_against_impl=cov['traces_validated_against_impl'], impl_steps_executed=cov['impl_steps_executed'],
              random_histories=cov.get('random_histories', 0), counters=cov['counters'], drift_lines=cov['drift_lines'],
              configs=cov['configs'], samples=cov['samples'], violations=nviol, wall_s=round(time.time() - t0, 1)))))
    else:
        vlib.write_evidence(prop, tier, seed, 'model_checking', cov, time.time() - t0, nviol, ASSUMPTIONS)
    if rc == 0 and not os.environ.get('VERIF_KEEP'):
        shutil.rmtree(work, ignore_errors=True)
    return rc


def main():
    import argparse
    ap = argparse.ArgumentParser()
    ap.add_argument('prop')
    ap.add_argument('--tier', default=os.environ.get('VERIF_TIER', 'quick'))
    ap.add_argument('--replay')
    a = ap.parse_args()
    seed = int(os.environ.get('VERIF_SEED', '1'))
    try:
        sys.exit(run_check(a.prop, a.tier, seed, a.replay))
    except MachineryError as e:
        print('MACHINERY-ERROR: %s' % e, file=sys.stderr)
        sys.exit(2)


if __name__ == '__main__':
    main()
