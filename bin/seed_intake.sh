#!/bin/bash
# usage: seed_intake.sh <worktree> <outdir/VARIANT> <seed id> <property> <checks...>
# confirms a seeded change independently, stores it under /verif/seeded/<seed id>, runs the quick checks against it
wt="$1"; src="$2"; sid="$3"; prop="$4"; shift 4
res=$(/verif/bin/confirm_seed.sh "$wt" "$src" 2>&1 | grep RESULT | tail -1)
echo "== $sid $res"
case "$res" in *"demo_with_change_exit=0"*|"") echo "NOT CONFIRMED $sid"; exit 1;; esac
case "$res" in *"demo_without_change_exit=0"*) ;; *) echo "NOT CONFIRMED $sid"; exit 1;; esac
d=/verif/seeded/$sid; mkdir -p $d
cp "$src/patch.diff" "$src/demo.cc" "$src/README.md" $d/
python3 - "$d" "$sid" "$prop" "$res" <<'PY'
import json, sys
d, sid, prop, res = sys.argv[1:5]
json.dump(dict(property=prop, id=sid, origin='independent sub-agent given only the property text and a scratch worktree',
               confirmed_by_coordinator=res,
               confirm_procedure='bin/confirm_seed.sh <scratch worktree> <dir>: apply patch, build, ctest -j1 (108 tests), demo fails; revert, rebuild, demo passes',
               checks_run={}), open(d + '/meta.json', 'w'), indent=1)
PY
echo "=== $sid : $*"
cd /verif && bin/seedtest.py seeded/$sid/patch.diff "$@"
