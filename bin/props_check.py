#!/usr/bin/env python3
"""Checks of the property-registry / mesh-copy properties C13 and C14.

Pipeline per check (all verdicts by TLC from /verif/spec/OVMProps*.tla):
  M/G  TLC explores OVMPropsMC (registry + handle lifetimes + mesh copies over a
       small universe) from a family of seed worlds, judges every step of the
       operational model with the declarative layer of OVMProps, and emits
       every explored transition;
  E    the emitted tree is replayed on the real library by harness/props_exec
       (sanitizer build, one fork per branch);
  R    long random histories from `tlc -simulate` (seeded by VERIF_SEED) are
       replayed likewise;
  V    OVMPropsTrace.tla validates every recorded step: state predicates and
       step relations of the property on the OBSERVED data, and compares with
       the model (DRIFT, informational).
Nothing in this file decides a property.
"""
import hashlib, json, os, re, shutil, subprocess, sys, time
import vlib
from vlib import log, MachineryError

REG = ['request', 'create_shared', 'create_persistent', 'create_private', 'get_property', 'property_exists',
       'set_shared', 'set_persistent', 'set_name']
HND = ['h_copy', 'h_move', 'h_drop']
CLR = ['clear_props', 'clear_all_props', 'clear']
MSH = ['mesh_new', 'mesh_copy', 'mesh_assign', 'mesh_destroy']
GROW = ['add_vertex', 'add_edge']
KDEL = ['delete_vertex', 'delete_edge', 'delete_face', 'delete_cell', 'collect_garbage']
ALL14 = REG + HND + CLR + MSH + GROW + ['write', 'pos_handle']
LIFE = HND + CLR + ['mesh_copy', 'mesh_assign', 'mesh_destroy', 'add_vertex', 'write', 'set_persistent', 'set_shared', 'pos_handle']
COPY = ['mesh_copy', 'mesh_assign']
MUT13 = GROW + KDEL + ['set_vertex', 'write', 'clear', 'clear_props', 'request', 'create_persistent', 'set_persistent',
                       'set_shared', 'set_name', 'h_drop', 'h_copy', 'mesh_destroy', 'enable_deferred', 'pos_handle']

MUT13B = ['add_vertex', 'delete_vertex', 'collect_garbage', 'set_vertex', 'write', 'clear', 'h_drop', 'mesh_destroy', 'set_persistent']

MUT13Q = [o for o in MUT13 if o not in ('set_name', 'h_copy', 'enable_deferred', 'pos_handle')]
ALLK2 = ['touch', 'write', 'mesh_assign', 'add_vertex', 'delete_vertex', 'h_drop', 'get_property', 'property_exists', 'clear', 'mesh_destroy']
MUT13C = ['add_vertex', 'delete_vertex', 'set_vertex', 'write', 'clear', 'mesh_destroy']

ALLKINDS = ['V', 'E', 'HE', 'F', 'HF', 'C', 'M']

BASE = dict(NM=2, NS=7, NH=3, Kinds=['V'], Types=['int', 'bool'], Names=['', 'a'], MTypes=['poly'],
            MaxV=2, MaxE=1, Overwrite=False, Flavours=[0])

def cfg(**kw):
    c = dict(BASE); c.update(kw); return c

CHECKS = {
    'C14': dict(
        props=['C14'],
        quick=[
            # the whole registry alphabet, two value types, colliding names
            cfg(name='registry', Depth=2, SeedIds=[0, 1, 2, 3, 6], Ops1=ALL14, Ops2=ALL14 + ['teardown'], OpsN=[]),
            # three entity kinds
            cfg(name='kinds', Depth=2, SeedIds=[0, 5, 7], Kinds=['V', 'HE', 'M'], Types=['int'], Names=['', 'a', 'b'],
                MaxV=2, MaxE=1, NM=3, NS=8, MTypes=['poly', 'tpoly'], Ops1=ALL14, Ops2=ALL14 + ['teardown'], OpsN=[]),
            # the per-kind convenience API of ResourceManager.hh (every wrapper of every kind in the modes
            # shared / private / persistent, the legacy request_* family, the PropertyPtr constructor, const overloads),
            # followed by handle drop, mesh copy (judged with the C13 copy relation too), clear_<kind>_props, lookups
            cfg(name='wrappers', props=['C14', 'C13'], Depth=3, SeedIds=[30], NM=2, NS=9, NH=2, Kinds=ALLKINDS, Types=['int'], Names=['a'],
                MaxV=5, MaxE=7, Flavours=[1, 2, 3], Ops1=['request', 'create_shared', 'create_persistent', 'create_private'],
                Ops2=['h_drop', 'mesh_copy', 'clear_props'], OpsN=['get_used', 'exists_used', 'h_drop', 'mesh_copy']),
            # destruction orders: handles / clear / mesh copies / mesh destruction, deeper
            cfg(name='lifetimes', Depth=3, SeedIds=[1, 2, 4], Kinds=['V'], Types=['int'], Names=['a'], Overwrite=True,
                Ops1=LIFE, Ops2=LIFE, OpsN=['h_drop', 'mesh_destroy', 'clear', 'h_copy', 'mesh_assign', 'teardown']),
        ],
        thorough=[
            cfg(name='registry', Depth=3, SeedIds=[0, 1, 2, 3, 6], Names=['', 'a', 'b'], Ops1=ALL14, Ops2=ALL14, OpsN=ALL14 + ['teardown']),
            cfg(name='kinds', Depth=3, SeedIds=[0, 5, 7], Kinds=['V', 'HE', 'M'], Types=['int', 'bool'], Names=['', 'a'], NM=3, NS=8, MTypes=['poly', 'tpoly'],
                Ops1=ALL14, Ops2=ALL14, OpsN=ALL14 + ['teardown']),
            cfg(name='wrappers', props=['C14', 'C13'], Depth=4, SeedIds=[30], NM=2, NS=10, NH=2, Kinds=ALLKINDS, Types=['int', 'bool'], Names=['a'],
                MaxV=5, MaxE=7, Flavours=[0, 1, 2, 3], Ops1=['request', 'create_shared', 'create_persistent', 'create_private'],
                Ops2=['h_drop', 'mesh_copy', 'clear_props', 'set_persistent', 'set_shared', 'request'],
                OpsN=['get_used', 'exists_used', 'h_drop', 'mesh_copy', 'clear_props']),
            cfg(name='lifetimes', Depth=5, SeedIds=[1, 2, 4], Kinds=['V'], Types=['int'], Names=['a'], Overwrite=True, NM=3, NS=9,
                Ops1=LIFE, Ops2=LIFE, OpsN=['h_drop', 'mesh_destroy', 'clear', 'mesh_assign', 'teardown']),
        ],
        sim=dict(ops=ALL14 + ['touch'], SeedIds=[0, 1, 2, 3, 4, 5, 6, 7], NM=3, NS=10, NH=4, Kinds=['V', 'HE', 'M', 'E', 'F', 'HF', 'C'], Types=['int', 'bool'],
                 Names=['', 'a', 'b'], MTypes=['poly', 'tet', 'hex', 'tpoly', 'ttet', 'thex'], MaxV=3, MaxE=2, Flavours=[0, 1, 2, 3]),
    ),
    'C13': dict(
        props=['C13'],
        quick=[
            # copy / assign (all pairs of up to three meshes incl. mixed kernel types and self assignment),
            # then every mutation of either side, then a second, narrower mutation
            cfg(name='copy-then-mutate', NM=3, NS=12, NH=4, Depth=3, SeedIds=[10, 11, 12, 13, 14, 15, 16], Kinds=['V'], Types=['int'], Names=['a'],
                MTypes=['poly', 'tet', 'hex'], MaxV=5, MaxE=7, Ops1=COPY, Ops2=MUT13Q, OpsN=MUT13C),
            # topology-only meshes (TopologyKernel, TetrahedralMeshTopologyKernel, HexahedralMeshTopologyKernel):
            # copy construction, assignment and SELF assignment through the defaulted operator=, chains, mutations
            cfg(name='topology-only', NM=3, NS=12, NH=4, Depth=3, SeedIds=[17, 18], Kinds=['V'], Types=['int'], Names=['a'],
                MTypes=['tpoly'], MaxV=5, MaxE=7, Ops1=COPY + ['mesh_new'], Ops2=COPY + MUT13Q, OpsN=MUT13C),
            # handles of every entity kind (V E HE F HF C Mesh; shared, private, persistent) held on the target and on the
            # source across copy construction / same-type, mixed-type and self assignment, observed right after it,
            # then every element touched through every handle
            cfg(name='all-kinds', NM=3, NS=14, NH=4, Depth=2, SeedIds=[20, 21, 22, 23, 24], Kinds=['HF', 'E'], Types=['int', 'bool'], Names=['a', 'b'],
                MTypes=['poly'], MaxV=5, MaxE=7, Ops1=COPY, Ops2=ALLK2, OpsN=[]),
            # chains of copies
            cfg(name='chains', NM=3, NS=12, NH=4, Depth=3, SeedIds=[10, 11, 13, 14], Kinds=['V'], Types=['int'], Names=['a'],
                MTypes=['poly'], MaxV=5, MaxE=7, Ops1=COPY + ['mesh_new'], Ops2=COPY, OpsN=MUT13B),
            # the position property made persistent before copying
            cfg(name='persistent-positions', NM=3, NS=12, NH=4, Depth=3, SeedIds=[10, 12], Kinds=['V'], Types=['int'], Names=['a'],
                MTypes=['poly'], MaxV=5, MaxE=7, Ops1=['persist_pos', 'pos_handle'], Ops2=COPY + ['persist_pos', 'set_shared', 'set_name'],
                OpsN=COPY + ['set_vertex', 'add_vertex', 'mesh_destroy', 'persist_pos', 'write']),
        ],
        thorough=[
            cfg(name='copy-then-mutate', NM=3, NS=12, NH=4, Depth=4, SeedIds=[10, 11, 12, 13, 14, 15, 16], Kinds=['V'], Types=['int'], Names=['a'],
                MTypes=['poly', 'tet', 'hex'], MaxV=5, MaxE=7, Ops1=COPY, Ops2=MUT13Q, OpsN=MUT13C),
            cfg(name='copy-then-mutate-wide', NM=3, NS=12, NH=4, Depth=3, SeedIds=[10, 11, 12, 13, 14, 16], Kinds=['V', 'HE', 'M'], Types=['int', 'bool'], Names=['a'],
                MTypes=['poly', 'tet', 'hex'], MaxV=5, MaxE=7, Ops1=COPY, Ops2=MUT13, OpsN=MUT13),
            cfg(name='topology-only', NM=3, NS=12, NH=4, Depth=4, SeedIds=[17, 18], Kinds=['V', 'HE'], Types=['int'], Names=['a'],
                MTypes=['tpoly', 'ttet', 'thex'], MaxV=5, MaxE=7, Ops1=COPY + ['mesh_new'], Ops2=COPY + MUT13, OpsN=['mesh_assign'] + MUT13C),
            cfg(name='all-kinds', NM=3, NS=14, NH=4, Depth=3, SeedIds=[20, 21, 22, 23, 24], Kinds=['HF', 'E', 'F', 'C'], Types=['int', 'bool'], Names=['a', 'b'],
                MTypes=['poly'], MaxV=5, MaxE=7, Ops1=COPY, Ops2=ALLK2 + ['request', 'clear_props', 'delete_face', 'delete_edge', 'collect_garbage'], OpsN=ALLK2),
            cfg(name='chains', NM=3, NS=12, NH=4, Depth=4, SeedIds=[10, 11, 12, 13, 14, 15], Kinds=['V'], Types=['int'], Names=['a'],
                MTypes=['poly', 'tet'], MaxV=5, MaxE=7, Ops1=COPY + ['mesh_new'], Ops2=COPY, OpsN=['mesh_assign'] + MUT13C),
            cfg(name='persistent-positions', NM=3, NS=12, NH=4, Depth=4, SeedIds=[10, 11, 12, 15], Kinds=['V'], Types=['int'], Names=['a'],
                MTypes=['poly'], MaxV=5, MaxE=7, Ops1=['persist_pos', 'clear', 'pos_handle'], Ops2=COPY + ['persist_pos', 'set_shared', 'set_name', 'pos_handle'],
                OpsN=['mesh_assign', 'set_vertex', 'add_vertex', 'mesh_destroy', 'persist_pos', 'write']),
        ],
        sim=dict(ops=COPY + COPY + MUT13 + ['mesh_new', 'h_move', 'clear_all_props', 'persist_pos', 'touch'], SeedIds=[10, 11, 12, 13, 14, 15, 16, 17, 18, 20, 21, 22, 23, 24], NM=3, NS=14, NH=4,
                 Kinds=['V', 'HE', 'M', 'E', 'F', 'HF', 'C'], Types=['int', 'bool'], Names=['', 'a'], MTypes=['poly', 'tet', 'hex', 'tpoly', 'ttet', 'thex'], MaxV=6, MaxE=8, Flavours=[0, 1, 2, 3]),
    ),
}

LEVEL_TEXT = {
    'C14': 'see bin/manifest.d/C14.json',
    'C13': 'see bin/manifest.d/C13.json',
}


# ------------------------------------------------------------------ TLC (roles M and G)
def write_cfg(path, c, check, emit):
    def sset(xs):
        return '{' + ', '.join('"%s"' % x for x in xs) + '}'
    lines = ['SPECIFICATION %s' % ('SimSpec' if emit == 'sim' else 'Spec'), 'CONSTANTS',
             '  NM = %d' % c['NM'], '  NS = %d' % c['NS'], '  NH = %d' % c['NH'],
             '  Kinds = %s' % sset(c['Kinds']), '  Types = %s' % sset(c['Types']), '  Names = %s' % sset(c['Names']),
             '  MTypes = %s' % sset(c['MTypes']),
             '  Depth = %d' % c['Depth'],
             '  SeedIds = {%s}' % ', '.join(str(s) for s in c['SeedIds']),
             '  Ops1 = %s' % sset(c['Ops1']), '  Ops2 = %s' % sset(c['Ops2']), '  OpsN = %s' % sset(c['OpsN']),
             '  MaxV = %d' % c['MaxV'], '  MaxE = %d' % c['MaxE'],
             '  Overwrite = %s' % ('TRUE' if c['Overwrite'] else 'FALSE'),
             '  Flavours = {%s}' % ', '.join(str(f) for f in c['Flavours']),
             '  Check = "%s"' % check, '  Emit = "%s"' % emit,
             'INVARIANT SeedOK', 'INVARIANT SimEmit', 'VIEW View', 'ACTION_CONSTRAINT EmitStep', 'CHECK_DEADLOCK FALSE']
    open(path, 'w').write('\n'.join(lines) + '\n')


_unesc = re.compile(r'\\(.)')


def _payload(line):
    i = line.index('"', line.index(',') + 1)
    body = line[i + 1: line.rindex('"')]
    return json.loads(_unesc.sub(lambda m: m.group(1), body))


def run_tlc(cfgpath, workdir, workers, simulate=None, timeout=3000, heap='8g'):
    meta = os.path.join(workdir, 'meta-' + os.path.basename(cfgpath))
    shutil.rmtree(meta, ignore_errors=True)
    cmd = ['java', '-XX:+UseParallelGC', '-Xmx' + heap, '-cp', vlib.JAR, 'tlc2.TLC', '-workers', str(workers),
           '-metadir', meta, '-noGenerateSpecTE', '-config', cfgpath]
    if simulate:
        cmd += ['-simulate', 'num=%d' % simulate['num'], '-depth', str(simulate['depth']), '-seed', str(simulate['seed'])]
    cmd += ['OVMPropsMC.tla']
    t0 = time.time()
    p = subprocess.Popen(cmd, cwd=vlib.SPEC, stdout=subprocess.PIPE, stderr=subprocess.STDOUT, text=True)
    orgs, trans, sims, mbad, tail = {}, [], [], [], []
    stats = dict(generated=0, distinct=0)
    try:
        for line in p.stdout:
            if line.startswith('<<"EMIT"'):
                d = _payload(line)
                trans.append((tuple(d['key']), d['path']))
                if d.get('bad'):
                    mbad.append(dict(key=tuple(d['key']), path=d['path'], msg=d['bad']))
            elif line.startswith('<<"ORG"'):
                d = _payload(line)
                orgs[tuple(d['key'])] = d['script']
            elif line.startswith('<<"SIM"'):
                d = _payload(line)
                sims.append(d)
                if d.get('bad'):
                    mbad.append(dict(key=tuple(d['key']), path=d['path'], msg=d['bad']))
            else:
                tail.append(line)
                if len(tail) > 400:
                    tail = tail[-200:]
                m = re.search(r'(\d+) states generated, (\d+) distinct states found', line)
                if m:
                    stats['generated'], stats['distinct'] = int(m.group(1)), int(m.group(2))
            if time.time() - t0 > timeout:
                p.kill()
                raise MachineryError('TLC timeout on ' + cfgpath)
    finally:
        p.wait()
    shutil.rmtree(meta, ignore_errors=True)
    out = ''.join(tail)
    if p.returncode != 0:
        # exit 12 here means a SEED broke a state predicate (SeedOK): the model itself is inconsistent
        raise MachineryError('TLC failed (exit %d) on %s:\n%s' % (p.returncode, cfgpath, out[-3000:]))
    return dict(orgs=orgs, transitions=trans, sims=sims, mbad=mbad, stats=stats, wall=time.time() - t0)


# ------------------------------------------------------------------ work distribution
def split_executions(orgs, transitions, cap=600):
    """One seed's explored tree can hold 10^5 transitions; cut it into sub-trees of
    at most ~cap transitions (grouped by a common call prefix), each replayed as
    its own execution from the same seed script, so that shards balance."""
    by_org = {}
    for key, path in transitions:
        by_org.setdefault(key, []).append(path)
    new_orgs, new_trans = {}, []
    for key, paths in by_org.items():
        groups = [paths]
        depth = 1
        while True:
            big = [g for g in groups if len(g) > cap]
            if not big or depth > 6:
                break
            nxt = []
            for g in groups:
                if len(g) <= cap:
                    nxt.append(g)
                    continue
                sub = {}
                for p in g:
                    sub.setdefault(json.dumps(p[:depth], sort_keys=True), []).append(p)
                nxt.extend(sub.values())
            groups = nxt
            depth += 1
        # pack small groups together
        groups.sort(key=len, reverse=True)
        packs = []
        for g in groups:
            for pk in packs:
                if len(pk) + len(g) <= cap:
                    pk.extend(g)
                    break
            else:
                packs.append(list(g))
        for n, pk in enumerate(packs):
            nk = tuple(key) + ('part', n)
            new_orgs[nk] = orgs[key]
            new_trans.extend((nk, p) for p in pk)
    return new_orgs, new_trans


def fix_crash_names(agg):
    """exec_and_validate rebuilds the crashing call from the script line without its
    string argument; put the property name back."""
    for c in agg['crashes']:
        if c.get('path') and c.get('sid', -1) >= 0 and c.get('script'):
            try:
                line = open(c['script']).read().splitlines()[c['sid']]
            except (OSError, IndexError):
                continue
            if ' | ' in line:
                c['path'][-1]['s'] = line.split(' | ', 1)[1]


# ------------------------------------------------------------------ known findings
def match_known(prop, sig, known):
    """sig: kind ('relation'|'crash'), msg, op (last call), ops (all ops of the history)."""
    for k in known:
        if k.get('status') != 'open' or k.get('property') != prop:
            continue
        m = k.get('match', {})
        ok = True
        for a, b in m.items():
            if a == 'op_in':
                ok = ok and sig.get('op') in b
            elif a == 'history_has_op':
                ok = ok and b in sig.get('ops', [])
            else:
                ok = ok and sig.get(a) == b
        if ok:
            return k
    return None


def sig_of(f, kind):
    path = f.get('path') or []
    return dict(kind=kind, msg=f.get('msg', ''), op=path[-1]['op'] if path else '', ops=[c['op'] for c in path])


# ------------------------------------------------------------------ the check
def replay_confirms(prop, props, variant, f, work, n):
    """Re-run the single failing history from scratch; True if it fails again."""
    p = vlib.write_replay(prop, f, kind='crash' if f.get('msg') == 'crash' else 'fail')
    txt = ''.join(l for l in open(p) if not l.startswith('#'))
    agg = vlib.exec_and_validate(variant, [txt], props, os.path.join(work, 'confirm%d' % n), 'c', exe_name='props_exec',
                                 module='OVMPropsTrace.tla')
    return p, bool(agg['failures'] or agg['crashes'])


def run_check(prop, tier, seed, replay=None):
    t0 = time.time()
    conf = CHECKS[prop]
    variant = os.environ.get('VERIF_VARIANT', 'san')   # 'san' is what the check claims; 'plain' only for the mutation self-test
    workers = int(os.environ.get('VERIF_TLC_WORKERS', str(min(vlib.NCPU, 16))))
    work = os.path.join(vlib.RUN, '%s-%s-%d' % (prop, tier, os.getpid()))
    shutil.rmtree(work, ignore_errors=True)
    os.makedirs(work)
    vlib.build(variant, ['props_exec'])
    known = vlib.load_known()
    failures, crashes, drifts, mfind = [], [], [], []
    cov = dict(states=0, transitions=0, traces_validated_against_impl=0, samples=[], impl_steps_executed=0,
               drift_lines=0, configs=[], model_findings=[], exhaustive=True)

    mach_errors = []

    cur = dict(props=conf['props'])     # oracles evaluated for the configuration being run

    def stage(scripts, tag):
        """Execute + validate one stage.  A failure of the tooling on one shard must not lose the
        verdicts of the other shards (or of earlier stages): fall back to shard-by-shard."""
        try:
            return [vlib.exec_and_validate(variant, scripts, cur['props'], work, tag, exe_name='props_exec', module='OVMPropsTrace.tla')]
        except MachineryError as e:
            mach_errors.append('%s: %s' % (tag, e))
            log('%s stage %s: tooling failure, retrying shard by shard: %s' % (prop, tag, str(e)[:300]))
        out = []
        for i, sc in enumerate(scripts):
            try:
                out.append(vlib.exec_and_validate(variant, [sc], cur['props'], work, '%s-s%d' % (tag, i), exe_name='props_exec',
                                                  module='OVMPropsTrace.tla'))
            except MachineryError as e:
                mach_errors.append('%s shard %d: %s' % (tag, i, e))
        return out

    def merged(aggs):
        m = dict(lines=0, checked=0, bad=0, drift=0, failures=[], crashes=[], drifts=[])
        for a in aggs:
            for k in ('lines', 'checked', 'bad', 'drift'):
                m[k] += a[k]
            for k in ('failures', 'crashes', 'drifts'):
                m[k] += a[k]
        return m

    def absorb(agg):
        fix_crash_names(agg)
        for f in agg['failures']:
            if f.get('x', 0) < 0 and f.get('trace'):
                # an EVAL finding of vlib.run_validate carries no execution number: take it from the recorded line
                try:
                    f['x'] = json.loads(open(f['trace']).read().splitlines()[f['line'] - 1])['x']
                except (OSError, IndexError, KeyError, ValueError):
                    pass
        failures.extend(agg['failures']); crashes.extend(agg['crashes']); drifts.extend(agg['drifts'])
        cov['traces_validated_against_impl'] += agg['checked']
        cov['impl_steps_executed'] += agg['lines']
        cov['drift_lines'] += agg['drift']

    if replay:
        txt = ''.join(l for l in open(replay) if not l.startswith('#'))
        agg = merged(stage([txt], 'replay'))
        absorb(agg)
        cov['states'] = cov['transitions'] = max(1, agg['checked'])
        cov['samples'].append(dict(replay=replay))
        cov['exhaustive'] = False
    else:
        only = os.environ.get('VERIF_ONLY')   # development aid: run a single configuration by name
        for n, mc in enumerate(conf[tier]):
            if only and mc['name'] != only:
                continue
            cp = os.path.join(work, 'mc%d.cfg' % n)
            write_cfg(cp, mc, prop, 'tree')
            try:
                r = run_tlc(cp, work, workers)
            except MachineryError as e:
                mach_errors.append('mc%d %s: %s' % (n, mc['name'], e))
                log('%s mc%d %s: tooling failure: %s' % (prop, n, mc['name'], str(e)[:300]))
                continue
            log('%s mc%d %s: %d generated, %d distinct, %d transitions emitted, %d judged bad by the model, %.0fs' %
                (prop, n, mc['name'], r['stats']['generated'], r['stats']['distinct'], len(r['transitions']), len(r['mbad']), r['wall']))
            cov['states'] += r['stats']['distinct']; cov['transitions'] += len(r['transitions'])
            cov['configs'].append(dict(mc, tlc_wall_s=round(r['wall'], 1), generated=r['stats']['generated'],
                                       distinct=r['stats']['distinct'], emitted=len(r['transitions']), model_bad=len(r['mbad'])))
            mfind += r['mbad']
            o2, t2 = split_executions(r['orgs'], r['transitions'])
            # one validator JVM per shard costs seconds of start-up: few shards for small trees
            nsh = max(1, min(vlib.NCPU, len(t2) // 400))
            scripts = vlib.tree_scripts(o2, t2, '', nsh, mesh='props', stamp=False)
            if r['transitions'] and len(cov['samples']) < 4:
                k, p = r['transitions'][len(r['transitions']) // 2]
                cov['samples'].append(dict(config=mc['name'], seed_script=r['orgs'][k], calls=p))
            cur['props'] = mc.get('props', conf['props'])
            agg = merged(stage(scripts, 'e%d' % n))
            cur['props'] = conf['props']
            for f in agg['failures'] + agg['crashes']:
                f['props'] = mc.get('props', conf['props'])
            log('%s e%d: %d lines, %d checked, %d bad, %d drift, %d crashes' %
                (prop, n, agg['lines'], agg['checked'], agg['bad'], agg['drift'], len(agg['crashes'])))
            absorb(agg)
        sim = conf.get('sim')
        if sim and not (only and only != 'random'):
            num, depth = (60, 25) if tier == 'quick' else (1500, 40)
            c = cfg(name='random', Depth=depth + 1, Ops1=sorted(set(sim['ops'])), Ops2=[], OpsN=[],
                    **{k: v for k, v in sim.items() if k != 'ops'})
            cp = os.path.join(work, 'sim.cfg')
            write_cfg(cp, c, prop, 'sim')
            try:
                r = run_tlc(cp, work, 1, simulate=dict(num=num, depth=depth, seed=seed))
            except MachineryError as e:
                mach_errors.append('sim: %s' % e)
                r = dict(sims=[], mbad=[])
            hist = r['sims']
            mfind += r['mbad']
            scripts = [vlib.linear_script(h['script'] + h['path'], '', mesh='props', stamp_every=True, silent_prefix=len(h['script']))
                       for h in hist]
            nsh = max(1, min(vlib.NCPU, sum(len(h['path']) for h in hist) // 600))
            shards = [''.join(scripts[i::nsh]) for i in range(nsh) if scripts[i::nsh]]
            agg = merged(stage(shards, 'r')) if shards else merged([])
            log('%s sim: %d histories, %d lines, %d checked, %d bad, %d drift, %d crashes' %
                (prop, len(hist), agg['lines'], agg['checked'], agg['bad'], agg['drift'], len(agg['crashes'])))
            absorb(agg)
            cov['random_histories'] = len(hist)
            cov['random_history_steps'] = sum(len(h['path']) for h in hist)
            if hist:
                cov['samples'].append(dict(random_history=hist[0]['path'][:10]))

    # ---- model-level findings (role M): reported; they become violations through the replayed implementation steps
    seen_m = {}
    for f in mfind:
        key = (f['msg'], f['path'][-1]['op'] if f['path'] else '')
        seen_m.setdefault(key, 0)
        seen_m[key] += 1
    cov['model_findings'] = [dict(relation=k[0], op=k[1], transitions=v) for k, v in sorted(seen_m.items())]
    for k, v in sorted(seen_m.items()):
        log('%s model-level: %s broken by %s on %d explored transitions' % (prop, k[0], k[1], v))

    # ---- classification of what was observed on the implementation
    rc = 0
    printed, known_seen, flaky = set(), {}, 0
    items = [(f, 'relation') for f in failures] + [(c, 'crash') for c in crashes]
    nconf = 0
    for f, kind in items:
        if 'path' not in f:
            f = dict(f, path=[])
        sig = sig_of(f, kind)
        k = match_known(prop, sig, known)
        if k:
            known_seen[k.get('what', '')] = known_seen.get(k.get('what', ''), 0) + 1
            continue
        dedup = (sig['msg'], sig['op'])
        if dedup in printed:
            continue
        if replay or not f.get('script') or 'x' not in f:
            p, again = (replay or f.get('script', '')), True
        else:
            nconf += 1
            try:
                p, again = replay_confirms(prop, f.get('props', conf['props']), variant, f, work, nconf)
            except MachineryError as e:
                mach_errors.append('confirm %s: %s' % (sig['msg'], e))
                p, again = f.get('script', ''), False
        if not again:
            flaky += 1
            log('  not reproduced on re-execution (ignored): %s %s' % (sig['msg'], json.dumps(f.get('path'))[:300]))
            continue
        printed.add(dedup)
        rc = 1
        if len(printed) <= 8:
            print('VIOLATION property=%s replay=%s' % (prop, p))
            log('  ', sig['msg'], json.dumps(f.get('path', []))[:700])
            if kind == 'crash' and f.get('errfile') and os.path.exists(f['errfile']):
                log('  sanitizer/abort output:', open(f['errfile']).read()[-1500:])
    for what, n in sorted(known_seen.items()):
        print('KNOWN-FINDING: property=%s %s' % (prop, what))
        log('  (seen on %d replayed steps)' % n)
    cov['tooling_failures'] = [m[:500] for m in mach_errors]
    cov['drift_samples'] = drifts[:5]
    cov['known_findings_seen'] = sum(known_seen.values())
    cov['not_reproduced'] = flaky
    cov['crashes_observed'] = len(crashes)
    cov['trusted_base'] = ['TLC 2.x + CommunityModules (Json, IOUtils)', 'harness/props_exec.cc projection (dump_world)',
                           'AddressSanitizer/UBSan + _GLIBCXX_ASSERTIONS for memory safety of the replayed interleavings']
    vlib.write_evidence(prop, tier, seed, 'model_checking', cov, time.time() - t0, len(printed),
                        ['TLC and the CommunityModules JSON bridge are trusted',
                         'the executor\'s projection of the world (harness/props_exec.cc: dump_world) is trusted; storage identity is a weak_ptr table kept by the executor',
                         'memory safety of the replayed interleavings is observed by ASan/UBSan/_GLIBCXX_ASSERTIONS, not derived',
                         'bounded: universe, seeds, alphabets and depths listed in coverage.configs; beyond them only random histories'])
    if rc == 0 and mach_errors:
        # nothing observed violates the property, but part of the exploration did not run: not a pass
        raise MachineryError('; '.join(mach_errors)[:3000])
    if rc == 0 and not os.environ.get('VERIF_KEEP'):
        shutil.rmtree(work, ignore_errors=True)
    return rc


def main():
    import argparse
    ap = argparse.ArgumentParser()
    ap.add_argument('prop')
    ap.add_argument('--tier', default=os.environ.get('VERIF_TIER', 'quick'))
    ap.add_argument('--replay')
    a = ap.parse_args()
    if a.prop not in CHECKS:
        print('props_check: unknown property %s' % a.prop, file=sys.stderr)
        sys.exit(2)
    seed = int(os.environ.get('VERIF_SEED', '1'))
    try:
        sys.exit(run_check(a.prop, a.tier, seed, a.replay))
    except MachineryError as e:
        print('MACHINERY-ERROR: %s' % e, file=sys.stderr)
        sys.exit(2)


if __name__ == '__main__':
    main()
