#!/usr/bin/env python3
"""Writes /verif/MANIFEST.json from the table below (single source of truth
for what is claimed)."""
import json, os

VERIF = os.path.dirname(os.path.dirname(os.path.abspath(__file__)))

KERNEL_NOTE = ('Trusted: TLC and the CommunityModules JSON bridge; the executor\'s projection of the mesh state '
               '(harness/ovm_exec.cc dump_state, which reads the protected caches through a derived accessor); '
               'bounds: the seed meshes, alphabets and depths recorded in the evidence file; beyond them only '
               'random histories from tlc -simulate.')

def kernel(pid, text, technique, design):
    return dict(property_id=pid,
                quick_cmd='bin/check %s --tier quick' % pid,
                thorough_cmd='bin/check %s --tier thorough' % pid,
                evidence_file='evidence/%s.json' % pid,
                replay_cmd_template='bin/check %s --replay {path}' % pid,
                engine='tla-kernel',
                level_claimed=dict(category='model_checking', text=text, design_ref=design),
                level_note=KERNEL_NOTE,
                technique=technique)

TECH = ('explicit TLA+ specification (OVMKernel / OVMKernelDefs / OVMQueries), TLC model checking of the operational model '
        'against the declarative relations, TLC-generated behaviours replayed on the C++ library, TLC trace validation (OVMTrace)')
COMMON = (' TLC explores every history over the property\'s alphabets from the seed meshes (tetrahedra glued along faces / edges, closed and '
          'open fans around an edge, pillow cell, prism, dangling parts, duplicate edges, loop edge, 2-gon) in the (deferred x fast) modes and '
          'incidence subsets of the configuration, checks the operational model against the relation on every step, and every explored '
          'transition plus random histories (tlc -simulate) are executed on the real library and validated line by line.')

CLAIMED = [
    kernel('C01', 'State predicate CacheIsInverse (the three stored incidence relations equal, as bags, their brute-force definition over the '
           'live edge/face/cell definitions) and the definitions of all 14 upward circulators, valences, is_boundary x 6, the 6 boundary '
           'iterators and incident_cell, compared with the raw answers of the implementation on every recorded state.' + COMMON, TECH, 'DESIGN.md section 6, C01'),
    kernel('C02', 'Step relation DeleteRel (exactly the upward closure disappears; survivors keep their definitions through a slot bijection; '
           'counters, genus and needs_garbage_collection describe the survivors; identical in all four modes) on every recorded deletion.' + COMMON, TECH, 'DESIGN.md section 6, C02'),
    kernel('C03', 'Step relation PropFollows for 19 tracked properties (int, bool, double, string, Vec3d; shared, private, persistent) on all seven '
           'entity kinds through the slot map of each call (deletion in every mode, garbage collection, swaps, clear, growth): one element per slot, '
           'survivors keep their value and side, new slots hold the default; vertex positions are one of the tracked properties; tetrahedral '
           'collapse_edge / split_* through the relation CollapsePropsFollow of OVMTet.tla (sizes, vertex, cell and unaffected edge/face values).' + COMMON, TECH, 'DESIGN.md section 6, C03; docs/tethex.md'),
    kernel('C04', 'Step relations GCRel and StatusGCRel (no pending deletions afterwards; live entities, definitions and property values preserved '
           'through a bijection; status-marked closure removed; with the manifoldness option exactly the faces/edges/vertices bounding no cell; every '
           'vertex/halfedge/halfface/cell handle handed in for tracking designates the same entity or is invalid); the collected mesh also satisfies '
           'CacheIsInverse (it equals the mesh obtained by immediate deletion including its incidences); history configurations are explored as call trees (no merging).' + COMMON, TECH, 'DESIGN.md section 6, C04'),
    kernel('C05', 'Circulator protocol (ProtoOK: max_laps 1..3 forward walk = expected list repeated, begin != end loop, k steps forward then k back '
           'restore handle and lap, begin advanced past the last lap == end, empty centre immediately invalid) for 26 circulators + boundary halfface '
           'circulator, and the 6 entity iterators (ascending live handles forward, range, backward from end, backward with valid()); the tetrahedral and '
           'hexahedral circulators (tet/hex vertices, cell sheets in 6 directions, halfface sheets) under the same protocol in a stage of the tet/hex module (OVMTet/OVMHex definitions).' + COMMON, TECH, 'DESIGN.md section 6, C05'),
    dict(kernel('C08', 'Handle algebra proved for all naturals with TLAPS (14 obligations); the C++ conversions evaluated on every index of [0, 2^30) '
           'and validated block-wise by TLC against the closed forms; Mirror predicate on every recorded state (opposite halfedge swaps endpoints, '
           'opposite halfface = reversed opposites, two sides of a face enumerate the same cycle in opposite directions, next/prev inverse); faces '
           'built from vertex lists or accepted with topology check are closed loops (every halfedge list up to length 3 offered to add_face).' + COMMON, TECH + '; TLAPS proof', 'DESIGN.md section 6, C08')),
    kernel('C09', 'State predicate FanOrder on every recorded state without set_face/set_cell in its history (for every single-fan edge: successor of a '
           'non-boundary halfface is the opposite of its in-cell neighbour, a boundary halfface only last, opposite halfedge mirrored) and '
           'adjacent_halfface_in_cell against its definition for every (halfface, halfedge).' + COMMON, TECH, 'DESIGN.md section 6, C09'),
    kernel('C10', 'Every lookup (find_halfedge, find_halfface by vertices / halfedges, find_halfface_extensive, find_halfedge_in_cell, '
           'find_halfface_in_cell, get_halfface_vertices x3, is_incident, n_vertices_in_cell) for EVERY argument tuple over the mesh, against its '
           'match set computed from the definitions (sound always; complete where the documented contract determines the answer).' + COMMON, TECH, 'DESIGN.md section 6, C10'),
    kernel('C11', 'Step relation AddRel: add_edge de-duplication, add_face/add_cell with topology check accept exactly closed loops / closed surfaces '
           '(all handle lists up to length 3 resp. 4 over the live halfedges / free halffaces, incl. empty, open, repeated, both orientations), '
           'rejected or de-duplicated calls leave every observable aspect unchanged, accepted calls append exactly the given definition.' + COMMON, TECH, 'DESIGN.md section 6, C11'),
    kernel('C12', 'Twin run: every history is executed a second time with all incidences enabled and the core projections (definitions, counts, flags, '
           'property values, results) are compared step by step; after every enable_* the caches must equal their definition and be in fan order; '
           'circulators needing a disabled kind must be empty; executed under ASan/UBSan so that an access to a disabled cache is observed.' + COMMON, TECH + '; sanitizer build for the replay', 'DESIGN.md section 6, C12'),
    kernel('C17', 'Step relation SwapRel (definitions, deletion flags, counters relabelled by the transposition; every property exchanged, halfedge/'
           'halfface values side by side; caches equal their definition afterwards), swap(a,a) is a no-op, the same swap twice restores the state; '
           'every ordered pair of every kind incl. deferred-deleted entities.' + COMMON, TECH, 'DESIGN.md section 6, C17'),
]

# fragments written by the module builders are merged once their checks have been accepted by the coordinator
READY_FRAGMENTS = {'C19', 'C20', 'C06', 'C07', 'C18', 'C13', 'C14', 'C15', 'C16'}

PENDING = {
}

ENGINES = [
    dict(name='tla-tethex', path='spec/OVMTet.tla spec/OVMHex.tla spec/OVMTetHexMC.tla spec/OVMTetHexTrace.tla harness/tethex_exec.cc bin/tethex_check.py',
         serves_properties=['C15', 'C16'],
         kind_free_text='TLA+ transcription of the tetrahedral / hexahedral kernels on top of OVMKernel plus declarative shape, ordering, labelling and collapse relations; TLC model checking, replay of explored transitions on the C++ library, TLC trace validation'),
    dict(name='tla-props', path='spec/OVMProps.tla spec/OVMPropsMC.tla spec/OVMPropsTrace.tla harness/props_exec.cc bin/props_check.py',
         serves_properties=['C13', 'C14'],
         kind_free_text='explicit TLA+ state machine of the property registry, handle lifetimes and mesh copy/assignment; exhaustively explored by TLC, every explored transition replayed on the C++ library under ASan/UBSan, recorded traces validated by TLC'),
    dict(name='tla-io', path='spec/OVMB.tla spec/OVMBMachine.tla spec/OVMBGen.tla spec/OVMAscii.tla spec/OVMIOTrace.tla harness/io_exec.cc bin/io_check.py',
         serves_properties=['C06', 'C07', 'C18'],
         kind_free_text='byte-level TLA+ formalisation of the OVMB format and token-level model of OVM-ASCII used as decoder, as generator of alternative encodings and of field-aware corruptions; files written / read by the C++ library are validated by TLC; fault enumeration replayed under ASan/UBSan'),
    dict(name='tla-vecread', path='spec/OVMVec.tla spec/OVMVecMC.tla spec/OVMVecTrace.tla spec/OVMReaders*.tla harness/vec_exec.cc harness/readers_exec.cc bin/vecread_check.py',
         serves_properties=['C19', 'C20'],
         kind_free_text='TLA+ definitions of the vector algebra / of const queries as atomic reads; TLC-generated operation scripts and reader programs executed on the C++ library (also under ThreadSanitizer); results validated by TLC'),
]


def load_fragments():
    d = os.path.join(VERIF, 'bin', 'manifest.d')
    out = []
    for f in sorted(os.listdir(d)):
        if f.endswith('.json'):
            out.append(json.load(open(os.path.join(d, f))))
    return out


def main():
    frags = load_fragments()
    have = {c['property_id'] for c in CLAIMED}
    for fr in frags:
        if fr['property_id'] not in have and fr['property_id'] in READY_FRAGMENTS:
            CLAIMED.append(fr)
    props = [json.loads(l) for l in open(os.path.join(VERIF, 'properties.jsonl'))]
    claimed = {c['property_id'] for c in CLAIMED}
    na = []
    for p in props:
        if p['id'] not in claimed:
            na.append(dict(property_id=p['id'],
                           reason=PENDING.get(p['id'], 'check not registered yet: the specification module for this property is still being built (see DESIGN.md section 6)')))
    m = dict(version=1,
             setup_cmd='bin/setup',
             hooks=dict(guard='OVM_VERIF_TRACE',
                        enable='cmake -S /verif/harness -B /verif/.build/<variant> adds -DOVM_VERIF_TRACE=1 to every translation unit (VERIF_HOOKS=ON); the hooks (Core/VerifTrace.hh, OVM_VERIF_SCOPE in the public mutators of TopologyKernel) stay inert unless a tracer installs a callback; harness/tracer.cc does so inside the re-built repository tests (target unittests_traced, trace source T)',
                        baseline_off_cmd='bin/baseline_off',
                        source_commits=['a138602'],
                        add_only=True),
             engines=ENGINES + [dict(name='tla-kernel', path='spec/OVMKernel.tla spec/OVMKernelDefs.tla spec/OVMKernelMC.tla spec/OVMTrace.tla harness/ovm_exec.cc bin/kernel_check.py',
                           serves_properties=sorted(c['property_id'] for c in CLAIMED if c.get('engine') == 'tla-kernel'),
                           kind_free_text='explicit TLA+ specification checked by TLC; TLC-generated behaviours replayed on the C++ library; recorded traces validated by TLC')],
             checks=CLAIMED,
             notes='See DESIGN.md. Genuine defects found by the checks and repaired in /repo are listed in known_findings.jsonl as fixed: entries.',
             not_applicable=na)
    json.dump(m, open(os.path.join(VERIF, 'MANIFEST.json'), 'w'), indent=1)

if __name__ == '__main__':
    main()
