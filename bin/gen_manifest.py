#!/usr/bin/env python3
"""Writes /verif/MANIFEST.json from the table below (single source of truth
for what is claimed)."""
import json, os

VERIF = os.path.dirname(os.path.dirname(os.path.abspath(__file__)))

KERNEL_NOTE = ('Trusted: TLC and the CommunityModules JSON bridge; the executor\'s projection of the mesh state '
               '(harness/ovm_exec.cc dump_state, which reads the protected caches through a derived accessor); '
               'bounds: the seed meshes, alphabets and depths recorded in the evidence file; beyond them only '
               'random histories from tlc -simulate.')

def kernel(pid, text, technique, design):
    return dict(property_id=pid,
                quick_cmd='bin/check %s --tier quick' % pid,
                thorough_cmd='bin/check %s --tier thorough' % pid,
                evidence_file='evidence/%s.json' % pid,
                replay_cmd_template='bin/check %s --replay {path}' % pid,
                engine='tla-kernel',
                level_claimed=dict(category='model_checking', text=text, design_ref=design),
                level_note=KERNEL_NOTE,
                technique=technique)

CLAIMED = [
    kernel('C02',
           'TLC explores every history of deletions / garbage collection / mode switches (depth 2 quick, 3 thorough) from 8 seed '
           'meshes in all 4 deletion modes x 8 incidence subsets on the operational TLA+ model and checks DeleteRel '
           '(exactly the upward closure disappears, survivors keep their definitions through a bijection, counters, '
           'genus and needs_garbage_collection describe the survivors); every explored transition plus random '
           'histories are executed on the real library and each recorded step is validated against the same relation.',
           'explicit TLA+ spec (OVMKernel/OVMKernelDefs), TLC model checking + generation, trace validation of the implementation (OVMTrace)',
           'DESIGN.md section 6, C02'),
]

PENDING = {
}

def load_fragments():
    d = os.path.join(VERIF, 'bin', 'manifest.d')
    out = []
    for f in sorted(os.listdir(d)):
        if f.endswith('.json'):
            out.append(json.load(open(os.path.join(d, f))))
    return out


def main():
    frags = load_fragments()
    have = {c['property_id'] for c in CLAIMED}
    for fr in frags:
        if fr['property_id'] not in have:
            CLAIMED.append(fr)
    props = [json.loads(l) for l in open(os.path.join(VERIF, 'properties.jsonl'))]
    claimed = {c['property_id'] for c in CLAIMED}
    na = []
    for p in props:
        if p['id'] not in claimed:
            na.append(dict(property_id=p['id'],
                           reason=PENDING.get(p['id'], 'check not registered yet: the specification module for this property is still being built (see DESIGN.md section 6)')))
    m = dict(version=1,
             setup_cmd='bin/setup',
             hooks=dict(guard='OVM_VERIF_TRACE',
                        enable='cmake -S /verif/harness -B /verif/.build/<variant> (adds -DOVM_VERIF_TRACE=1 to every translation unit of the library); no source hooks are needed so far: the executor reads the full state through the public API and a derived accessor class',
                        baseline_off_cmd='bin/baseline_off',
                        source_commits=[],
                        add_only=True),
             engines=[dict(name='tla-kernel', path='spec/OVMKernel.tla spec/OVMKernelDefs.tla spec/OVMKernelMC.tla spec/OVMTrace.tla harness/ovm_exec.cc bin/kernel_check.py',
                           serves_properties=sorted(claimed),
                           kind_free_text='explicit TLA+ specification checked by TLC; TLC-generated behaviours replayed on the C++ library; recorded traces validated by TLC')],
             checks=CLAIMED,
             notes='See DESIGN.md. Genuine defects found by the checks and repaired in /repo are listed in known_findings.jsonl as fixed: entries.',
             not_applicable=na)
    json.dump(m, open(os.path.join(VERIF, 'MANIFEST.json'), 'w'), indent=1)

if __name__ == '__main__':
    main()
