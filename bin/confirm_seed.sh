#!/bin/bash
# usage: confirm_seed.sh <worktree> <outdir(with patch.diff, demo.cc)> : confirms a seeded change independently
wt="$1"; out="$2"
cd "$wt" || exit 2
if [ ! -f _build/build.ninja ]; then
  cmake -G Ninja -S . -B _build -DFETCHCONTENT_SOURCE_DIR_GOOGLETEST=/usr/src/googletest -DCMAKE_BUILD_TYPE=RelWithDebInfo -DOVM_BUILD_DOCUMENTATION=OFF -DOVM_ENABLE_EXAMPLES=OFF -DOVM_ENABLE_APPLICATIONS=OFF -DCMAKE_CXX_FLAGS=-Wno-error > /dev/null 2>&1
fi
git checkout -q -- . ; git apply "$out/patch.diff" || { echo "RESULT apply-failed"; exit 1; }
cmake --build _build > "$out/confirm_build.log" 2>&1 || { echo "RESULT build-failed"; git checkout -q -- .; exit 1; }
( cd _build && ctest -j1 > "$out/confirm_ctest.log" 2>&1 ); tests=$(grep -E "tests passed" "$out/confirm_ctest.log")
g++ -std=c++17 -O1 -pthread -I src -I _build/src "$out/demo.cc" _build/Build/lib/libOpenVolumeMesh.a -o /tmp/demo_$$ 2>/dev/null && /tmp/demo_$$ > "$out/confirm_demo_with.log" 2>&1; with=$?
git checkout -q -- .
cmake --build _build >> "$out/confirm_build.log" 2>&1
g++ -std=c++17 -O1 -pthread -I src -I _build/src "$out/demo.cc" _build/Build/lib/libOpenVolumeMesh.a -o /tmp/demo_$$ 2>/dev/null && /tmp/demo_$$ > "$out/confirm_demo_without.log" 2>&1; without=$?
rm -f /tmp/demo_$$
echo "RESULT tests=[$tests] demo_with_change_exit=$with demo_without_change_exit=$without"
