#!/usr/bin/env python3
"""Collect CAUGHT/MISSED lines of bin/seedtest.py logs into seeded/<id>/meta.json
and print the kill matrix (markdown)."""
import glob, json, os, re, sys
logs = sorted(sys.argv[1:], key=os.path.getmtime)   # later runs override earlier ones
res = {}
for lg in logs:
    cur = None
    for l in open(lg):
        m = re.match(r'=== (\S+) :', l)
        if m:
            cur = m.group(1); continue
        m = re.match(r'(C\d+) (CAUGHT|MISSED|ERROR\S*)\s*(.*)', l)
        if m and cur:
            res.setdefault(cur, {})[m.group(1)] = (m.group(2), m.group(3).strip())
rows = []
for d in sorted(glob.glob('/verif/seeded/*/meta.json')):
    meta = json.load(open(d))
    sid = meta['id']
    if sid in res:
        meta['checks_run'] = {}      # rebuilt from the logs given (latest run of each check wins)
    for chk, (st, det) in res.get(sid, {}).items():
        meta.setdefault('checks_run', {})[chk] = dict(tier='quick', outcome=st, detail=det)
    json.dump(meta, open(d, 'w'), indent=1)
    cr = meta.get('checks_run', {})
    rows.append('| %s | %s | %s |' % (sid, meta['property'], ', '.join('%s: %s' % (k, v['outcome']) for k, v in sorted(cr.items())) or 'not run yet'))
print('| seeded change | property | quick checks run against it |\n|---|---|---|')
print('\n'.join(rows))
