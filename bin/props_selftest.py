#!/usr/bin/env python3
"""Self-test of the C13 / C14 checks ("demonstrating the binding", DESIGN.md section 4).

(a) corrupt single recorded fields of a recorded trace: the validator must reject;
(b) apply source mutations to a SCRATCH COPY of /repo (under /tmp, deleted afterwards;
    /repo itself is never touched), rebuild the harness against the copy and run one
    configuration of the owning check: it must print VIOLATION.
Results are printed as a kill matrix; docs/props.md records the last run.
usage: bin/props_selftest.py [a] [b] [mutant ids...]
"""
import contextlib, io, json, os, re, shutil, subprocess, sys, time
sys.path.insert(0, os.path.dirname(os.path.abspath(__file__)))
import vlib, props_check

SCR = '/tmp/props_selftest'
RM = 'src/OpenVolumeMesh/Core/ResourceManager.cc'
RMT = 'src/OpenVolumeMesh/Core/ResourceManagerT_impl.hh'
TRK = 'src/OpenVolumeMesh/Core/detail/Tracking.hh'
GK = 'src/OpenVolumeMesh/Core/GeometryKernel.hh'

# id, property, configuration, build variant, file, old text, new text, what the mutation does
MUTANTS = [
    ('M1', 'C13', 'chains', 'plain', RM,
     '        resize_props<decltype(entity_tag)>(other.n<decltype(entity_tag)>());',
     '        (void)entity_tag;',
     'operator= does not resize the properties that stay in use'),
    ('M2', 'C13', 'chains', 'plain', RM,
     '        auto copy = p->clone();\n        copy->set_tracker(&storage_tracker<ET>());\n        our_props.insert(copy->shared_from_this());',
     '        our_props.insert(p);',
     'mesh copy shares the persistent storages instead of cloning them'),
    ('M3', 'C13', 'chains', 'plain', RMT,
     '    for (auto prop: storage_tracker<EntityTag>()) {\n        prop->set_shared(false);\n    }',
     '',
     'clear_props leaves the properties findable by name (old handles of an assigned-to mesh stay shared)'),
    ('M4', 'C14', 'registry', 'plain', RMT,
     '        if (existing) {\n            throw std::runtime_error("A shared property with this name, type and entity type already exists.");\n        }',
     '        (void)existing;',
     'set_shared(true) does not check uniqueness'),
    ('M5', 'C14', 'registry', 'plain', RMT,
     '        if(prop->shared()\n                && prop->name() == _name',
     '        if(prop->name() == _name',
     'lookup by name also finds private properties'),
    ('M6', 'C14', 'lifetimes', 'san', TRK,
     '        for (const auto t: tracked_){\n            t->tracker_removed();\n        }\n    }\n    Tracker() = default;',
     '    }\n    Tracker() = default;',
     'a dying mesh does not detach its storages (dangling tracker pointer in surviving handles)'),
    ('M7', 'C13', 'chains', 'plain', GK,
     '        std::copy(other.position_.begin(), other.position_.end(),\n                  position_.begin());\n    }\n\n    GeometryKernel operator=',
     '    }\n\n    GeometryKernel operator=',
     'the copy constructor does not copy the vertex positions'),
    ('M8', 'C14', 'registry', 'plain', RMT,
     '        persistent_props_.get<EntityTag>().erase(sptr);',
     '        ;',
     'set_persistent(false) leaves the storage in the persistent set'),
    ('M9', 'C14', 'registry', 'plain', RMT,
     '    if (prop)\n        return *prop;\n    bool shared = !_name.empty();',
     '    bool shared = !_name.empty();',
     'request_property always creates a new property (never returns the existing one)'),
    ('M10', 'C13', 'topology-only', 'plain', RM,
     '    if (this == &other) return *this;\n',
     '\n',
     'ResourceManager::operator= without its self-assignment guard (shows only on topology-only meshes)'),
]


def part_a():
    """field corruption of a recorded trace"""
    work = os.path.join(vlib.RUN, 'props-selftest-a')
    shutil.rmtree(work, ignore_errors=True); os.makedirs(work)
    vlib.build('plain', ['props_exec'])
    script = '\n'.join([
        'R props', 'C 0 mesh_new 1 0 0 1 1', 'C 0 add_vertex 1 0 0 2 0 0', 'C 0 add_vertex 1 0 0 2 0 0',
        'C 0 set_vertex 1 0 0 2 1 12', 'C 0 create_persistent 1 1 0 3 1 1 8 | a', 'C 0 write 0 1 0 2 1 1',
        'C 0 create_shared 1 2 0 3 1 2 0 | b', 'C 0 mesh_new 2 0 0 1 2', 'C 0 stamp 0 0 0 0', 'P',
        'C 1 mesh_assign 2 0 0 1 1', 'C 1 request 2 3 0 3 1 1 8 | a', 'C 1 write 0 3 0 2 0 1', 'C 1 set_vertex 2 0 0 2 0 5',
        'C 1 mesh_destroy 1 0 0 0', 'C 1 h_drop 0 1 0 0']) + '\n'
    sp = os.path.join(work, 's.txt'); open(sp, 'w').write(script)
    raw = os.path.join(work, 's.raw')
    vlib.run_exec(vlib.exe('plain', 'props_exec'), sp, raw)
    good = os.path.join(work, 'good.ndjson')
    vlib.munge(raw, good)
    res = []
    for props in (['C14'], ['C13']):
        v = vlib.run_validate(good, props, work, module='OVMPropsTrace.tla')
        res.append(('unmodified trace %s' % props[0], v['done']['bad'] == 0 and v['done']['drift'] == 0))
    lines = open(good).read().splitlines()
    # (line index from the end, property, textual substitution in that line) - each must be rejected
    def last_call(op):
        return max(i for i, l in enumerate(lines) if '"op":"%s"' % op in l)
    corr = [
        ('C13', last_call('mesh_assign'), r'"posv":\[0,12\]', '"posv":[0,13]', 'copied position differs'),
        ('C13', last_call('mesh_assign'), r'"deferred":true', '"deferred":false', 'copied deletion mode differs (target only)'),
        ('C14', last_call('request'), r'"npp":\[1,0,0,', '"npp":[2,0,0,', 'n_persistent_props off by one'),
        ('C14', last_call('request'), r'"ret":"ptr"', '"ret":"nullopt"', 'wrong return'),
        ('C14', last_call('h_drop'), r'"lv":false', '"lv":true,"k":"V","t":"int","s":"a","sh":true,"pe":true,"d":8,"v":[8,1],"tr":0,"att":false', 'storage survives its last owner'),
        ('C13', last_call('set_vertex'), r'("t":"vec","s":"ovm:position","sh":true,"pe":false,"d":0,"v":\[)0,12(\],"tr":1)', r'\g<1>5,12\g<2>', 'write to mesh 2 shows in mesh 1'),
        ('C13', last_call('set_vertex'), r'"vdel":\[false,false\]', '"vdel":[false]', 'malformed line: deleted flags shorter than the vertex count (must be a verdict, not an evaluation error)'),
        ('C14', last_call('request'), r'"trk":\[', '"trk":[99,', 'malformed line: tracker lists an unknown storage'),
    ]
    for prop, idx, pat, rep, what in corr:
        mod = list(lines)
        new, n = re.subn(pat, rep, mod[idx], count=1)
        if n != 1:
            res.append(('corruption "%s": pattern not found (self-test out of date)' % what, False)); continue
        mod[idx] = new
        bad = os.path.join(work, 'bad.ndjson'); open(bad, 'w').write('\n'.join(mod) + '\n')
        try:
            v = vlib.run_validate(bad, [prop], work, module='OVMPropsTrace.tla')
            res.append(('corruption rejected: %s (%s)' % (what, ', '.join(b['msg'] for b in v['bads'][:2])), v['done']['bad'] > 0))
        except vlib.MachineryError as e:
            res.append(('corruption "%s": validator error %s' % (what, str(e)[-200:]), False))
    shutil.rmtree(work, ignore_errors=True)
    return res


def part_b(ids):
    res = []
    repo = os.path.join(SCR, 'repo')
    os.makedirs(SCR, exist_ok=True)
    subprocess.run(['rsync', '-a', '--delete', '--exclude', '_build', '--exclude', '.git', '/repo/', repo + '/'], check=True)
    vlib.REPO = repo
    vlib.BUILD = os.path.join(SCR, 'build')
    vlib.EVID = os.path.join(SCR, 'evidence')
    os.makedirs(vlib.BUILD, exist_ok=True)
    for mid, prop, only, variant, f, old, new, what in MUTANTS:
        if ids and mid not in ids:
            continue
        path = os.path.join(repo, f)
        shutil.copy(os.path.join('/repo', f), path)
        src = open(path).read()
        if src.count(old) != 1:
            res.append((mid, what, 'NOT APPLICABLE (source text changed)', False)); continue
        open(path, 'w').write(src.replace(old, new))
        os.environ['VERIF_ONLY'] = only
        os.environ['VERIF_VARIANT'] = variant
        buf = io.StringIO()
        t0 = time.time()
        try:
            with contextlib.redirect_stdout(buf):
                rc = props_check.run_check(prop, 'quick', 1)
        except vlib.MachineryError as e:
            rc = 'machinery: ' + str(e)[-300:]
        out = buf.getvalue()
        killed = rc == 1 and 'VIOLATION property=%s' % prop in out
        first = ''
        for l in out.splitlines():
            if l.startswith('VIOLATION'):
                rp = l.split('replay=')[1]
                try:
                    first = open(rp).readline().strip()
                except OSError:
                    pass
                break
        res.append((mid, what, 'KILLED by %s/%s: %s' % (prop, only, first) if killed else 'SURVIVED (rc=%s)' % rc, killed))
        print('%s %s -> %s  [%.0fs]' % (mid, what, res[-1][2], time.time() - t0), flush=True)
        shutil.copy(os.path.join('/repo', f), path)
    shutil.rmtree(SCR, ignore_errors=True)
    return res


def main():
    args = sys.argv[1:]
    do_a = not args or 'a' in args
    do_b = not args or 'b' in args or any(a.startswith('M') for a in args)
    ok = True
    if do_a:
        for what, good in part_a():
            print('%-4s %s' % ('ok' if good else 'FAIL', what)); ok = ok and good
    if do_b:
        for mid, what, verdict, good in part_b([a for a in args if a.startswith('M')]):
            print('%-4s %s %s: %s' % ('ok' if good else 'FAIL', mid, what, verdict)); ok = ok and good
    sys.exit(0 if ok else 1)


if __name__ == '__main__':
    main()
