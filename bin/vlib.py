#!/usr/bin/env python3
"""Orchestration library of the OpenVolumeMesh verification framework.

Nothing in here decides a property.  This module builds the harness from
/repo's working tree, runs TLC (model checking / generation / trace
validation), moves files between the tools, counts, and writes evidence.
All oracles live in /verif/spec/*.tla.
"""
import fcntl, hashlib, json, os, re, shutil, subprocess, sys, time
from concurrent.futures import ThreadPoolExecutor

VERIF = os.path.dirname(os.path.dirname(os.path.abspath(__file__)))
SPEC = os.path.join(VERIF, 'spec')
HARNESS = os.path.join(VERIF, 'harness')
BUILD = os.environ.get('VERIF_BUILD', os.path.join(VERIF, '.build'))
RUN = os.path.join(VERIF, 'run')
EVID = os.path.join(VERIF, 'evidence')
REPO = os.environ.get('VERIF_REPO', '/repo')
JAR = '/opt/veriftools/tla/tla2tools.jar:/opt/veriftools/tla/CommunityModules-deps.jar'
NCPU = os.cpu_count() or 4

SAN_FLAGS = '-fsanitize=address,undefined;-fno-sanitize=vptr;-fno-sanitize-recover=undefined'


def snapshot_spec(workdir):
    """Work on a private copy of the specification so that a run is not
    disturbed by edits (and parallel runs do not share TLC's scratch files)."""
    global SPEC
    dst = os.path.join(workdir, 'spec')
    shutil.copytree(os.path.join(VERIF, 'spec'), dst, ignore=shutil.ignore_patterns('states', '*.toolbox', '.tlacache'))
    SPEC = dst
    return dst


class MachineryError(Exception):
    """A failure of the tooling itself (never reported as a VIOLATION)."""


_T0 = time.time()


def log(*a):
    print('[vx %6.1fs]' % (time.time() - _T0), *a, file=sys.stderr, flush=True)


# ------------------------------------------------------------------ build
def build(variant='plain', targets=None):
    """(Re)build the library from /repo's current working tree + the harness."""
    bdir = os.path.join(BUILD, variant)
    os.makedirs(bdir, exist_ok=True)
    lock = open(os.path.join(BUILD, variant + '.lock'), 'w')
    fcntl.flock(lock, fcntl.LOCK_EX)
    try:
        t0 = time.time()
        bn = os.path.join(bdir, 'build.ninja')
        cm = [os.path.join(HARNESS, f) for f in os.listdir(HARNESS) if f.endswith('.cmake') or f == 'CMakeLists.txt']
        stale = (not os.path.exists(bn)) or any(os.path.getmtime(f) > os.path.getmtime(bn) for f in cm)
        if stale:
            args = ['cmake', '-G', 'Ninja', '-S', HARNESS, '-B', bdir, '-DOVM_REPO=' + REPO,
                    '-DCMAKE_BUILD_TYPE=RelWithDebInfo']
            if variant == 'san':
                args += ['-DVERIF_SAN=' + SAN_FLAGS, '-DCMAKE_CXX_FLAGS_RELWITHDEBINFO=-O1 -g -DNDEBUG']
            if variant == 'tsan':
                args += ['-DVERIF_SAN=-fsanitize=thread', '-DCMAKE_CXX_FLAGS_RELWITHDEBINFO=-O1 -g -DNDEBUG']
            r = subprocess.run(args, stdout=subprocess.PIPE, stderr=subprocess.STDOUT, text=True)
            if r.returncode != 0:
                raise MachineryError('cmake failed:\n' + r.stdout[-3000:])
        cmd = ['ninja', '-C', bdir] + (targets or [])
        r = subprocess.run(cmd, stdout=subprocess.PIPE, stderr=subprocess.STDOUT, text=True)
        if r.returncode != 0:
            raise MachineryError('build of /repo working tree failed:\n' + r.stdout[-4000:])
        log('build %s ok in %.1fs' % (variant, time.time() - t0))
    finally:
        fcntl.flock(lock, fcntl.LOCK_UN)
        lock.close()
    return bdir


def exe(variant, name):
    return os.path.join(BUILD, variant, name)


# ------------------------------------------------------------------ TLC
def tla_set(xs):
    return '{' + ', '.join('"%s"' % x if isinstance(x, str) else str(x) for x in xs) + '}'


def write_mc_cfg(path, c):
    lines = ['SPECIFICATION %s' % ('SimSpec' if c.get('Emit') == 'sim' else 'Spec'), 'CONSTANTS',
             '  Depth = %d' % c['Depth'],
             '  SeedIds = %s' % tla_set(c['SeedIds']),
             '  Modes <- %s' % c.get('Modes', 'ModesAll'),
             '  BUSets <- %s' % c.get('BUSets', 'BUAll'),
             '  HistOps %s' % (('= ' + tla_set(c['HistOps'])) if c['HistOps'] else '<- NoOps'),
             '  TargetOps %s' % (('= ' + tla_set(c['TargetOps'])) if c['TargetOps'] else '<- NoOps'),
             '  MaxList = %d' % c.get('MaxList', 3),
             '  Emit = "%s"' % c.get('Emit', 'tree'),
             'INVARIANT NoBad', 'INVARIANT SeedOK', 'INVARIANT SimEmit', 'VIEW %s' % ('ViewTree' if c.get('Tree') else 'View'), 'ACTION_CONSTRAINT EmitStep',
             'CHECK_DEADLOCK FALSE']
    open(path, 'w').write('\n'.join(lines) + '\n')


_unesc = re.compile(r'\\(.)')


def _payload(line, tag):
    # <<"TAG", "....">>
    i = line.index('"', len(tag) + 4)
    body = line[i + 1: line.rindex('"')]
    return _unesc.sub(lambda m: m.group(1), body)


def run_tlc_mc(module, cfgpath, workdir, workers=None, simulate=None, timeout=3600, heap='8g'):
    """Run TLC on a model-checking / generation config.  Returns a dict with
    orgs {key: script}, transitions [(key, path)], TLC statistics and, if an
    invariant was violated, the error text."""
    meta = os.path.join(workdir, 'meta-' + os.path.basename(cfgpath))
    shutil.rmtree(meta, ignore_errors=True)
    cmd = ['java', '-XX:+UseParallelGC', '-Xmx' + heap, '-cp', JAR, 'tlc2.TLC',
           '-workers', str(workers or NCPU), '-metadir', meta, '-noGenerateSpecTE',
           '-config', cfgpath]
    if simulate:
        cmd += ['-simulate', 'num=%d' % simulate['num'], '-depth', str(simulate['depth'])]
        if 'seed' in simulate:
            cmd += ['-seed', str(simulate['seed'])]
    cmd += [module]
    t0 = time.time()
    p = subprocess.Popen(cmd, cwd=SPEC, stdout=subprocess.PIPE, stderr=subprocess.STDOUT, text=True)
    orgs, trans, sims, tail = {}, [], [], []
    stats = {'generated': 0, 'distinct': 0}
    err = None
    try:
        for line in p.stdout:
            if line.startswith('<<"EMIT"'):
                d = json.loads(_payload(line, 'EMIT'))
                trans.append((tuple(d['key']), d['path']))
            elif line.startswith('<<"ORG"'):
                d = json.loads(_payload(line, 'ORG'))
                orgs[tuple(d['key'])] = d['script']
            elif line.startswith('<<"SIM"'):
                d = json.loads(_payload(line, 'SIM'))
                sims.append(d)
            else:
                tail.append(line)
                if len(tail) > 400:
                    tail = tail[-200:]
                m = re.search(r'(\d+) states generated, (\d+) distinct states found', line)
                if m:
                    stats['generated'], stats['distinct'] = int(m.group(1)), int(m.group(2))
                if line.startswith('Error:') and err is None:
                    err = line.strip()
            if time.time() - t0 > timeout:
                p.kill()
                raise MachineryError('TLC timeout on ' + cfgpath)
    finally:
        p.wait()
    shutil.rmtree(meta, ignore_errors=True)
    rc = p.returncode
    out = ''.join(tail)
    if rc not in (0, 12):
        raise MachineryError('TLC failed (exit %d) on %s:\n%s' % (rc, cfgpath, out[-3000:]))
    return dict(orgs=orgs, transitions=trans, sims=sims, stats=stats, rc=rc, error=err if rc == 12 else None,
                output=out, wall=time.time() - t0)


# ------------------------------------------------------------------ scripts
def call_line(c, chk):
    l = c.get('l', [])
    s = 'C %d %s %d %d %d %d' % (chk, c['op'], c.get('a', 0), c.get('b', 0), 1 if c.get('f') else 0, len(l))
    if l:
        s += ' ' + ' '.join(str(x) for x in l)
    if c.get('s'):
        s += ' | ' + c['s']
    return s


def tree_scripts(orgs, transitions, opts, nshards, mesh='poly', stamp=True):
    """One execution per org: silent seed script, then the explored tree with
    one fork per transition.  Returns a list of script texts (shards)."""
    by_org = {}
    for key, path in transitions:
        node = by_org.setdefault(key, {})
        for c in path:
            node = node.setdefault(json.dumps(c, sort_keys=True), {})
    def emit(node, out):
        for cj, sub in node.items():
            out.append('B')
            out.append(call_line(json.loads(cj), 1))
            emit(sub, out)
            out.append('E')
    def count(node):
        return sum(1 + count(s) for s in node.values())
    execs = []
    for key, tree in by_org.items():
        if key not in orgs:
            raise MachineryError('transition for unknown org %r' % (key,))
        out = ['R %s %s' % (mesh, opts)]
        out += [call_line(c, 0) for c in orgs[key]]
        if stamp:
            out.append('C 0 stamp 0 0 0 0')
        out.append('P')
        emit(tree, out)
        execs.append((count(tree), '\n'.join(out) + '\n'))
    execs.sort(key=lambda x: -x[0])
    shards = [[] for _ in range(max(1, min(nshards, len(execs))))]
    loads = [0] * len(shards)
    for n, txt in execs:
        i = loads.index(min(loads))
        shards[i].append(txt)
        loads[i] += n
    return [''.join(s) for s in shards if s]


def linear_script(calls, opts, mesh='poly', stamp_every=True, silent_prefix=0):
    out = ['R %s %s' % (mesh, opts)]
    for i, c in enumerate(calls):
        out.append(call_line(c, 0 if i < silent_prefix else 1))
        if stamp_every and i >= silent_prefix - 1:
            out.append('C 2 stamp 0 0 0 0')
    return '\n'.join(out) + '\n'


# ------------------------------------------------------------------ executor
def run_exec(binary, script_path, out_path, timeout=1800, env=None):
    e = dict(os.environ)
    e.setdefault('ASAN_OPTIONS', 'detect_leaks=0:abort_on_error=0:allocator_may_return_null=1')
    e.setdefault('UBSAN_OPTIONS', 'print_stacktrace=1:halt_on_error=1')
    if env:
        e.update(env)
    with open(out_path, 'w') as fo, open(out_path + '.err', 'w') as fe:
        try:
            r = subprocess.run([binary, script_path], stdout=fo, stderr=fe, timeout=timeout, env=e)
            return r.returncode
        except subprocess.TimeoutExpired:
            return 124


def munge(trace_path, munged_path):
    """Add "pl" (1-based line index of the line holding the pre state) to every
    call line; collect crash reports.  Pure bookkeeping on identifiers the
    executor wrote itself."""
    idx = {}
    ops = {}
    crashes, nlines, ended = [], 0, False
    with open(trace_path) as fi, open(munged_path, 'w') as fo:
        for line in fi:
            line = line.rstrip('\n')
            if not line:
                continue
            nlines += 1
            m = re.match(r'\{"e":"(\w+)","x":(-?\d+)(?:,"sid":(-?\d+))?(?:,"psid":(-?\d+))?', line)
            if not m:
                if line.startswith('{"e":"crash"'):
                    d = json.loads(line)
                    d['pl'] = idx.get((d['x'], d['psid']))
                    crashes.append(d)
                    fo.write(line + '\n')
                    continue
                raise MachineryError('unparseable trace line %d in %s: %s' % (nlines, trace_path, line[:200]))
            e, x, sid, psid = m.group(1), int(m.group(2)), m.group(3), m.group(4)
            if e == 'end':
                ended = True
            if e in ('reset', 'pre', 'call') and sid is not None:
                idx[(x, int(sid))] = nlines
            if e == 'call':
                mo = re.search(r'"chk":true,"c":\{"op":"(\w+)"', line)
                if mo:
                    ops[mo.group(1)] = ops.get(mo.group(1), 0) + 1
                pl = idx.get((x, int(psid)))
                if pl is None:
                    raise MachineryError('no pre line for %s' % line[:200])
                line = line[:-1] + ',"pl":%d}' % pl
            if e == 'branch_died':
                d = json.loads(line)
                # a branch that reported its own crash line is already recorded
                if not (crashes and crashes[-1].get('e') == 'crash' and crashes[-1]['x'] == d['x']):
                    d['pl'] = idx.get((d['x'], d['psid']))
                    crashes.append(d)
            fo.write(line + '\n')
    return dict(lines=nlines, crashes=crashes, ended=ended, ops=ops)


def path_of_line(lines, lineno):
    """calls from the last pre/reset line to this line (1-based lineno)."""
    calls = []
    n = lineno
    while True:
        d = json.loads(lines[n - 1])
        if d['e'] != 'call':
            break
        calls.append(d['c'])
        n = d['pl']
    return list(reversed(calls)), n


# ------------------------------------------------------------------ validator
def run_validate(trace_path, props, workdir, module='OVMTrace.tla', timeout=3600, heap='4g'):
    cfg = os.path.join(workdir, 'trace-%s.cfg' % hashlib.md5((trace_path + ','.join(props)).encode()).hexdigest()[:8])
    open(cfg, 'w').write('SPECIFICATION TSpec\nCONSTANT Props = %s\nINVARIANT Done\nCHECK_DEADLOCK FALSE\n' % tla_set(props))
    meta = cfg + '.meta'
    env = dict(os.environ, TRACE=trace_path)
    cmd = ['java', '-XX:+UseSerialGC', '-Xmx' + heap, '-Xss16m', '-cp', JAR, 'tlc2.TLC', '-workers', '1', '-metadir', meta,
           '-noGenerateSpecTE', '-config', cfg, module]
    t0 = time.time()
    try:
        r = subprocess.run(cmd, cwd=SPEC, env=env, stdout=subprocess.PIPE, stderr=subprocess.STDOUT, text=True, timeout=timeout)
    except subprocess.TimeoutExpired:
        raise MachineryError('validator timeout on ' + trace_path)
    finally:
        shutil.rmtree(meta, ignore_errors=True)
    bads, drifts, done = [], [], None
    for line in r.stdout.splitlines():
        if line.startswith('<<"VXBAD"'):
            m = re.match(r'<<"VXBAD", (\d+), (-?\d+), (-?\d+), "(.*)">>', line)
            bads.append(dict(line=int(m.group(1)), x=int(m.group(2)), msg=m.group(4)))
        elif line.startswith('<<"VXDRIFT"'):
            m = re.match(r'<<"VXDRIFT", (\d+), (-?\d+), (-?\d+), "(.*)">>', line)
            drifts.append(dict(line=int(m.group(1)), op=m.group(4)))
        elif line.startswith('<<"VXDONE"'):
            m = re.match(r'<<"VXDONE", (\d+), (\d+), (\d+), (\d+)>>', line)
            done = dict(lines=int(m.group(1)), checked=int(m.group(2)), bad=int(m.group(3)), drift=int(m.group(4)))
    if (r.returncode != 0 or done is None) and 'The error occurred when TLC was evaluating' in r.stdout:
        # TLC could not interpret a recorded line as a state/step of the specification (e.g. a stored
        # handle far out of range).  The spec and the executor are unchanged, so the data is what is
        # wrong: report the line (the orchestrator reproduces it before calling it a violation).
        ls = re.findall(r'/\\ l = (\d+)', r.stdout)
        ln = int(ls[-1]) if ls else 1
        nchk = re.findall(r'/\\ nchk = (\d+)', r.stdout)
        bads.append(dict(line=ln, x=-1, msg='EVAL:recorded line cannot be interpreted by the specification'))
        done = dict(lines=ln, checked=int(nchk[-1]) if nchk else 0, bad=len(bads), drift=len(drifts))
        return dict(bads=bads, drifts=drifts, done=done, wall=time.time() - t0, truncated=True)
    if r.returncode != 0 or done is None:
        raise MachineryError('validator failed (exit %d) on %s:\n%s' % (r.returncode, trace_path, r.stdout[-3000:]))
    if done['bad'] != len(bads) or len(drifts) > done['drift']:   # (only the first few drift lines are printed)
        # TLC wraps long tuples over several lines: never lose a verdict to the line parser
        raise MachineryError('validator output parsed incompletely on %s: %d/%d bad, %d/%d drift' %
                             (trace_path, len(bads), done['bad'], len(drifts), done['drift']))
    return dict(bads=bads, drifts=drifts, done=done, wall=time.time() - t0)


# ------------------------------------------------------------------ pipeline
def exec_and_validate(variant, scripts, props, workdir, tag, exe_name='ovm_exec', module='OVMTrace.tla'):
    """Run every script shard on the implementation and validate its trace.
    Returns aggregated results; failing cases carry a replayable script."""
    binary = exe(variant, exe_name)
    os.makedirs(workdir, exist_ok=True)
    def one(i):
        sp = os.path.join(workdir, '%s-%03d.txt' % (tag, i))
        open(sp, 'w').write(scripts[i])
        raw = sp[:-4] + '.raw.ndjson'
        rc = run_exec(binary, sp, raw)
        mg = sp[:-4] + '.ndjson'
        info = munge(raw, mg)
        os.remove(raw)
        if rc != 0 or not info['ended']:
            # the top-level process died (a crash outside any fork block)
            info['crashes'].append(dict(e='toplevel', rc=rc, err=open(raw + '.err').read()[-2000:]))
        v = run_validate(mg, props, workdir, module=module)
        return dict(script=sp, trace=mg, info=info, val=v, err=raw + '.err')
    with ThreadPoolExecutor(max_workers=NCPU) as ex:
        res = list(ex.map(one, range(len(scripts))))
    agg = dict(lines=0, checked=0, bad=0, drift=0, failures=[], crashes=[], drifts=[], shards=res, ops={})
    for r in res:
        d = r['val']['done']
        for k_, v_ in r['info'].get('ops', {}).items():
            agg['ops'][k_] = agg['ops'].get(k_, 0) + v_
        agg['lines'] += d['lines']; agg['checked'] += d['checked']; agg['bad'] += d['bad']; agg['drift'] += d['drift']
        lines = None
        for b in r['val']['bads']:
            if lines is None:
                lines = open(r['trace']).read().splitlines()
            try:
                path, root = path_of_line(lines, b['line'])
            except Exception:
                path = []
            agg['failures'].append(dict(msg=b['msg'], path=path, script=r['script'], x=b['x'], line=b['line'], trace=r['trace']))
        for dft in r['val']['drifts']:
            agg['drifts'].append(dict(op=dft['op'], trace=r['trace'], line=dft['line']))
        for c in r['info']['crashes']:
            c = dict(c); c['script'] = r['script']; c['errfile'] = r['err']; c['trace'] = r['trace']
            c['msg'] = 'crash'
            if c.get('pl') and c.get('sid', -1) >= 0:
                if lines is None:
                    lines = open(r['trace']).read().splitlines()
                path, root = path_of_line(lines, c['pl'])
                sl = open(r['script']).read().splitlines()[c['sid']].split()
                # C chk op a b f n l...
                if sl and sl[0] == 'C':
                    n = int(sl[6])
                    path.append(dict(op=sl[2], a=int(sl[3]), b=int(sl[4]), f=sl[5] == '1', l=[int(v) for v in sl[7:7 + n]]))
                c['path'] = path
            agg['crashes'].append(c)
    return agg


def script_prefix_for(script_path, x):
    """The R line and the silent calls of execution number x in a tree script."""
    out, cur = [], -1
    for line in open(script_path):
        line = line.rstrip('\n')
        if line.startswith('R '):
            cur += 1
            if cur == x:
                out = [line]
            continue
        if cur == x:
            if line.startswith('C 0 '):
                out.append(line)
            elif line.startswith('P') or line.startswith('B') or line.startswith('C'):
                if line.startswith('C'):
                    continue
                break
    return out


def write_replay(prop, failure, kind='fail'):
    """A linear, self-contained script reproducing one failing step."""
    os.makedirs(os.path.join(RUN, 'replay'), exist_ok=True)
    lines = script_prefix_for(failure['script'], failure['x'])
    if any(l.startswith('C 0 ') for l in lines) and not any(' stamp ' in l for l in lines):
        pass
    calls = failure['path']
    body = list(lines)
    if not any(l.startswith('C 0 stamp') for l in body):
        body.append('C 0 stamp 0 0 0 0')
    body.append('P')
    for i, c in enumerate(calls):
        body.append(call_line(c, 1 if i == len(calls) - 1 else 2))
    txt = '\n'.join(body) + '\n'
    h = hashlib.sha1(txt.encode()).hexdigest()[:12]
    p = os.path.join(RUN, 'replay', '%s-%s-%s.txt' % (prop, kind, h))
    open(p, 'w').write('# %s %s\n' % (prop, failure.get('msg', kind)) + txt)
    return p


# ------------------------------------------------------------------ known findings, evidence
def load_known():
    p = os.path.join(VERIF, 'known_findings.jsonl')
    out = []
    if os.path.exists(p):
        for line in open(p):
            line = line.strip()
            if line and not line.startswith('#'):
                out.append(json.loads(line))
    return out


def write_evidence(prop, tier, seed, level, coverage, wall, violations, assumptions):
    # evidence/ describes runs against /repo itself; a run against a scratch tree
    # (bin/seedtest.py sets VERIF_REPO) leaves it alone and writes next to its build
    global EVID
    if os.path.realpath(REPO) != '/repo':
        EVID = os.path.join(os.environ.get('VERIF_BUILD', '/tmp/vx-scratch'), 'evidence')
    os.makedirs(EVID, exist_ok=True)
    ev = dict(property_id=prop, tier=tier, seed=seed, level=level, coverage=coverage,
              assumptions=assumptions, wall_s=round(wall, 2), violations=violations)
    tmp = os.path.join(EVID, prop + '.json.tmp')
    json.dump(ev, open(tmp, 'w'), indent=1)
    os.replace(tmp, os.path.join(EVID, prop + '.json'))
