#!/usr/bin/env python3
"""Binding demonstration for C15 / C16 (not a check): a catalogue of source
mutations of the tetrahedral / hexahedral kernels is applied, one at a time, to
a scratch copy of /repo (outside /repo and /verif, deleted afterwards); the
owning check must report a VIOLATION for every mutant.  Prints a kill matrix.

usage: bin/tethex_mutants.py [name ...]      (default: all mutants)
"""
import os, re, shutil, subprocess, sys, time, io, contextlib
sys.path.insert(0, os.path.dirname(os.path.abspath(__file__)))
import vlib

TK = 'src/OpenVolumeMesh/Mesh/TetrahedralMeshTopologyKernel.cc'
TI = 'src/OpenVolumeMesh/Mesh/TetrahedralMeshIterators.cc'
TTH = 'src/OpenVolumeMesh/Unstable/Topology/TetTopology.hh'
TTC = 'src/OpenVolumeMesh/Unstable/Topology/TetTopology.cc'
TRC = 'src/OpenVolumeMesh/Unstable/Topology/TriangleTopology.cc'
HK = 'src/OpenVolumeMesh/Mesh/HexahedralMeshTopologyKernel.cc'
HH = 'src/OpenVolumeMesh/Mesh/HexahedralMeshTopologyKernel.hh'
HI = 'src/OpenVolumeMesh/Mesh/HexahedralMeshIterators.cc'

# name: (property, file, old text, new text, configurations to run)
MUTANTS = {
    'tet-gcv-cv-rotation': ('C15', TK, 'if (vhs[1]==vh) {return {vhs[1], vhs[2], vhs[0], vhs[3]};}', 'if (vhs[1]==vh) {return {vhs[1], vhs[0], vhs[2], vhs[3]};}', 'collapse-1'),
    'tet-gcv-hfhe-no-rotation': ('C15', TK, 'else if (vhs[2] == vh0) vhs = {vhs[2],vhs[0],vhs[1],vhs[3]};', 'else if (vhs[2] == vh0) vhs = {vhs[2],vhs[1],vhs[0],vhs[3]};', 'collapse-1'),
    'tet-gcv-apex-from-wrong-face': ('C15', TK, 'HalfFaceHandle other_hfh = (hfh!=hfhs[0])? hfhs[0] : hfhs[1];', 'HalfFaceHandle other_hfh = hfh;', 'collapse-1'),
    'tet-voh-incomplete-test': ('C15', TK, 'if (vhs[0] != vh && vhs[1] != vh && vhs[2] != vh)\n        {\n            return hfh;', 'if (vhs[0] != vh && vhs[1] != vh)\n        {\n            return hfh;', 'collapse-1'),
    'tet-tv-order': ('C15', TI, 'vertices_[2] = cell_vhs[2];\n    vertices_[3] = cell_vhs[3];', 'vertices_[2] = cell_vhs[3];\n    vertices_[3] = cell_vhs[2];', 'collapse-1'),
    'tet-collapse-surviving-handle': ('C15', TK, 'survivingVertex = VertexHandle(to_vh.idx() - 1);', 'survivingVertex = VertexHandle(to_vh.idx());', 'collapse-1'),
    'tet-collapse-surviving-handle-fast': ('C15', TK, 'if (to_vh.idx() == (int)n_vertices() - 1)', 'if (to_vh.idx() == (int)n_vertices())', 'collapse-1'),
    'tet-collapse-end-not-replaced': ('C15', TK, 'VertexHandle newEnd   = (e.to_vertex()   == from_vh) ? to_vh : e.to_vertex();', 'VertexHandle newEnd   = e.to_vertex();', 'collapse-1'),
    'tet-collapse-skips-collapsing-test': ('C15', TK, 'if (collapsingCells.find(ch) != collapsingCells.end())\n            continue;', 'if (false)\n            continue;', 'collapse-1'),
    'tet-add-face-valence-guard': ('C15', TK, 'FaceHandle TetrahedralMeshTopologyKernel::add_face(std::vector<HalfEdgeHandle> _halfedges, bool _topologyCheck) {\n\n    if(_halfedges.size() != 3) {', 'FaceHandle TetrahedralMeshTopologyKernel::add_face(std::vector<HalfEdgeHandle> _halfedges, bool _topologyCheck) {\n\n    if(_halfedges.size() < 3) {', 'additions'),
    # the labels BDC and BCD exchange their second and third vertex in the header's table (compiles: the table stays a bijection)
    'tet-label-table-entry': ('C15', TTH,
                              ('if constexpr (HFL == BDC || HFL == CDA || HFL == ADB) {return D;}', 'if constexpr (HFL == BCD || HFL == DCA || HFL == ACB) {return C;}',
                               'if constexpr (HFL == BDC || HFL == DAC || HFL == ABC) {return C;}', 'if constexpr (HFL == BCD || HFL == CAD || HFL == ABD) {return D;}'),
                              ('if constexpr (HFL == BCD || HFL == CDA || HFL == ADB) {return D;}', 'if constexpr (HFL == BDC || HFL == DCA || HFL == ACB) {return C;}',
                               'if constexpr (HFL == BCD || HFL == DAC || HFL == ABC) {return C;}', 'if constexpr (HFL == BDC || HFL == CAD || HFL == ABD) {return D;}'),
                              'labels'),
    'tet-add-cell-vertex-count-fix-reverted': ('C15', TK, 'if(vhs.size() != 4) {', 'if(false) {', 'additions-dangling'),
    # C03 stage (property values through collapse_edge): python3 bin/tethex_check.py C03
    'c03-collapse-cell-props-not-moved': ('C03', TK, '        swap_property_elements(n.first, newCell);\n', '', 'collapse-1'),
    # (swapping with the opposite halfedge instead is an equivalent mutant: every link halfedge is met twice per cell)
    'c03-collapse-halfedge-props-shifted': ('C03', TK, 'swap_property_elements(hf.halfedges()[j], heh);', 'swap_property_elements(hf.halfedges()[(j + 1) % 3], heh);', 'collapse-1'),
    'c03-collapse-halfface-props-shifted': ('C03', TK, 'swap_property_elements(c.halffaces()[hf_idx], hfh);', 'swap_property_elements(c.halffaces()[(hf_idx + 1) % 4], hfh);', 'collapse-1'),
    'c03-collapse-vertex-props-disturbed': ('C03', TK, '    delete_vertex(from_vh);\n\n    for (const auto &n: new_cells) {', '    swap_property_elements(from_vh, to_vh);\n    delete_vertex(from_vh);\n\n    for (const auto &n: new_cells) {', 'collapse-1'),
    # the seeded change seeded/C03c_property_copy_moves_source (verified with bin/seedtest.py: CAUGHT, C03:SplitPropsFollow:C)
    'c03-copy-moves-source': ('C03', 'src/OpenVolumeMesh/Core/Properties/PropertyStorageT.hh', 'data_[_dst_idx] = data_[_src_idx];', 'data_[_dst_idx] = std::move(data_[_src_idx]);', 'splits'),
    # C05 stage (protocol of the specialised circulators): python3 bin/tethex_check.py C05
    'c05-csc-orientation-guard': ('C05', HI, '_mesh->orientation(*hf_it, _ref_h) != _mesh->opposite_orientation(_orthDir)) {', '_mesh->orientation(*hf_it, _ref_h) != _mesh->opposite_orientation(_mesh->orientation(*hf_it, _ref_h))) {', 'hex'),
    'c05-tv-backward-keeps-lap': ('C05', TI, 'cur_index_ = vertices_.size() - 1;\n        --lap_;', 'cur_index_ = vertices_.size() - 1;', 'tet'),
    'c05-hv-forward-never-ends': ('C05', HI, 'HexVertexIter& HexVertexIter::operator++() {\n\n    ++cur_index_;\n    if(cur_index_ == vertices_.size()) {\n        cur_index_ = 0;\n        ++lap_;\n        if (lap_ >= max_laps_)', 'HexVertexIter& HexVertexIter::operator++() {\n\n    ++cur_index_;\n    if(cur_index_ == vertices_.size()) {\n        cur_index_ = 0;\n        ++lap_;\n        if (lap_ > max_laps_)', 'hex'),
    # seeded/C15e_tet_add_halfface_bypasses_valence_guard (bin/seedtest.py: CAUGHT, C15:TetShape)
    'tet-add-halfface-bypasses-guard': ('C15', TK, 'return halfface_handle(add_face(_halfedges, _topologyCheck), 0);', 'return halfface_handle(TopologyKernel::add_face(_halfedges, _topologyCheck), 0);', 'face-entry'),
    # C11 stage; seeded/C11e_hex_add_cell_reordered_skips_check (exit 1, C11:add_cell(hex))
    'c11-hex-reordered-skips-check': ('C11', HK, 'return TopologyKernel::add_cell(std::move(ordered_halffaces), _topologyCheck);', 'return TopologyKernel::add_cell(std::move(ordered_halffaces), false);', 'hex-cells'),
    'c11-tet-add-face-ignores-check': ('C11', TK, 'return TopologyKernel::add_face(std::move(_halfedges), _topologyCheck);', 'return TopologyKernel::add_face(std::move(_halfedges), false);', 'tet-faces'),
    # seeded/C15h_tet_add_cell_v_reuse_branch_halfface is a multi-line patch: verified with bin/seedtest.py (CAUGHT, C15:AddTetRel)
    'tet-label-getlabel-halfedge': ('C15', TTC, 'return opposite(hel);', 'return hel;', 'labels'),
    'tet-label-constructor-cd': ('C15', TTC, 'hfh<ACD>() = cur_hfh;\n                heh_[CD] = *heh_it;', 'hfh<ACD>() = cur_hfh;\n                heh_[CD] = heh;', 'labels'),
    'tet-triangle-start': ('C15', TRC, 'if (idx == 0 && _mesh.from_vertex_handle(heh) != _a) {', 'if (idx == 0 && _mesh.to_vertex_handle(heh) != _a) {', 'labels'),
    'hex-orth-table': ('C16', HH, 'if(_o1 == XF && _o2 == YF) return ZF;', 'if(_o1 == XF && _o2 == YF) return ZB;', 'adjacency'),
    'hex-opposite-in-cell': ('C16', HH, 'if(orientation(_hfh, _ch) == YF) return yback_halfface(_ch);', 'if(orientation(_hfh, _ch) == YF) return zback_halfface(_ch);', 'adjacency'),
    'hex-hv-walk': ('C16', HI, '    curHE = _mesh->opposite_halfedge_handle(curHE);\n\n    vertices_.push_back(_mesh->halfedge(curHE).to_vertex());', '    vertices_.push_back(_mesh->halfedge(curHE).to_vertex());', 'adjacency'),
    'hex-csc-axis-test': ('C16', HI, '_mesh->orientation(*hf_it, _ref_h) != _mesh->opposite_orientation(_orthDir)) {', 'true) {', 'adjacency'),
    'hex-hfshf-own-halfedges': ('C16', HI, 'std::vector<HalfEdgeHandle> hes_v = _mesh->opposite_halfface(_mesh->halfface(_ref_h)).halfedges();', 'std::vector<HalfEdgeHandle> hes_v = _mesh->halfface(_ref_h).halfedges();', 'adjacency'),
    'hex-reorder-positions': ('C16', HK, 'const int orderTop[] = {2, 4, 3, 5};\n    //const int orderBot[] = {3, 4, 2, 5};', 'const int orderTop[] = {2, 3, 4, 5};\n    //const int orderBot[] = {3, 4, 2, 5};', 'permutations'),
    'hex-ordering-check-disabled': ('C16', HK, 'if(check_halfface_ordering(_halffaces)) {', 'if(true) {', 'permutations'),
    'hex-add-cell-v-face-order': ('C16', HK, '    // Half-face YF\n    vs.push_back(_vertices[1]);\n    vs.push_back(_vertices[2]);\n    vs.push_back(_vertices[6]);\n    vs.push_back(_vertices[7]);\n    hf2 = TopologyKernel::find_halfface_extensive(vs); vs.clear();\n\n    // Half-face YB', '    // Half-face YF\n    vs.push_back(_vertices[4]);\n    vs.push_back(_vertices[5]);\n    vs.push_back(_vertices[3]);\n    vs.push_back(_vertices[0]);\n    hf2 = TopologyKernel::find_halfface_extensive(vs); vs.clear();\n\n    // Half-face YB-', 'states'),
    'hex-reorder-fix-reverted': ('C16', HK, '            return TopologyKernel::InvalidCellHandle;\n        }\n        ordered_halffaces[orderTop[idx]] = ahfh;', '            continue;\n        }\n        ordered_halffaces[orderTop[idx]] = ahfh;', 'permutations'),
    'hex-add-face-valence-guard': ('C16', HK, 'FaceHandle HexahedralMeshTopologyKernel::add_face(std::vector<HalfEdgeHandle> _halfedges, bool _topologyCheck) {\n\n    if(_halfedges.size() != 4) {', 'FaceHandle HexahedralMeshTopologyKernel::add_face(std::vector<HalfEdgeHandle> _halfedges, bool _topologyCheck) {\n\n    if(_halfedges.size() < 3) {', 'valences'),
}


def main():
    names = sys.argv[1:] or list(MUTANTS)
    scratch = '/tmp/ovm_mutants_%d' % os.getpid()
    src = os.path.join(scratch, 'repo')
    os.makedirs(scratch)
    shutil.copytree('/repo', src, ignore=shutil.ignore_patterns('_build', '.git'))
    vlib.REPO = src
    vlib.BUILD = os.path.join(scratch, 'build')
    vlib.EVID = os.path.join(scratch, 'evidence')
    vlib.RUN = os.path.join(scratch, 'run')
    os.makedirs(vlib.BUILD)
    import tethex_check
    rows = []
    try:
        t0 = time.time()
        vlib.build('plain', [tethex_check.EXE])
        print('scratch build %.0fs' % (time.time() - t0), flush=True)
        for name in names:
            prop, rel, old, new, confs = MUTANTS[name]
            path = os.path.join(src, rel)
            orig = open(path).read()
            olds, news = (old, new) if isinstance(old, tuple) else ((old,), (new,))
            if any(orig.count(o) != 1 for o in olds):
                rows.append((name, prop, 'PATTERN-NOT-FOUND')); print(rows[-1], flush=True); continue
            mutated = orig
            for o, n_ in zip(olds, news):
                mutated = mutated.replace(o, '@@%d@@' % olds.index(o))
            for i, n_ in enumerate(news):
                mutated = mutated.replace('@@%d@@' % i, n_)
            open(path, 'w').write(mutated)
            os.environ['VERIF_ONLY'] = confs
            buf = io.StringIO()
            t1 = time.time()
            try:
                with contextlib.redirect_stdout(buf):
                    rc = tethex_check.run_check(prop, 'quick', 1)
            except vlib.MachineryError as e:
                rc = 'machinery: ' + str(e)[-300:]
            finally:
                open(path, 'w').write(orig)
            out = buf.getvalue()
            first = next((l for l in out.splitlines() if l.startswith('VIOLATION')), '')
            msg = ''
            if first:
                rp = first.split('replay=')[1]
                try:
                    msg = open(rp).readline().strip()
                except OSError:
                    pass
            rows.append((name, prop, 'KILLED' if rc == 1 else 'SURVIVED(%s)' % rc, msg, '%.0fs' % (time.time() - t1)))
            print(rows[-1], flush=True)
    finally:
        shutil.rmtree(scratch, ignore_errors=True)
    print('\n| mutant | property | result | first failed check |')
    print('|---|---|---|---|')
    for r in rows:
        print('| %s | %s | %s | %s |' % (r[0], r[1], r[2], r[3] if len(r) > 3 else ''))
    sys.exit(0 if all(r[2] == 'KILLED' for r in rows) else 1)


if __name__ == '__main__':
    main()
