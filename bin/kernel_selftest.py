#!/usr/bin/env python3
"""Binding self-test of the kernel validator: record a short trace of the real
library, corrupt ONE recorded field at a time, and require OVMTrace.tla to
reject the corrupted trace (and to accept the untouched one).  Development aid,
not one of the registered checks."""
import copy, json, os, shutil, sys
import vlib

SCRIPT = '''R poly props=2 q=31
C 0 add_n_vertices 5 0 0 0
C 0 add_face_v 0 0 0 3 0 2 1
C 0 add_face_v 0 0 0 3 0 1 3
C 0 add_face_v 0 0 0 3 1 2 3
C 0 add_face_v 0 0 0 3 0 3 2
C 0 add_face_v 0 0 0 3 2 3 4
C 0 add_face_v 0 0 0 3 1 2 4
C 0 add_face_v 0 0 0 3 3 1 4
C 0 add_cell 0 0 1 4 0 2 4 6
C 0 add_cell 0 0 1 4 5 8 10 12
C 0 stamp 0 0 0 0
P
C 1 delete_face 1 0 0 0
C 1 swap_edges 0 3 0 0
C 1 collect_garbage 0 0 0 0
C 1 add_edge 0 4 0 0
'''
PROPS = ['C01', 'C02', 'C03', 'C04', 'C05', 'C08', 'C09', 'C10', 'C11', 'C17', 'STEP']

def corruptions(lines):
    """(name, line index, function mutating the decoded line)"""
    out = []
    def add(name, idx, f):
        out.append((name, idx, f))
    gc = next(i for i, l in enumerate(lines) if '"op":"collect_garbage"' in l)
    de = next(i for i, l in enumerate(lines) if '"op":"delete_face"' in l)
    sw = next(i for i, l in enumerate(lines) if '"op":"swap_edges"' in l)
    ae = next(i for i, l in enumerate(lines) if '"op":"add_edge"' in l)
    add('edge endpoint changed after gc', gc, lambda d: d['post']['edges'][0].__setitem__(0, (d['post']['edges'][0][0] + 1) % d['post']['nv']))
    add('face halfedge list rotated wrongly (one handle replaced)', gc, lambda d: d['post']['faces'][0].__setitem__(0, d['post']['faces'][0][0] ^ 1))
    add('deleted counter off by one', de, lambda d: d['post'].__setitem__('ndf', d['post']['ndf'] + 1))
    add('a surviving cell flagged deleted', de, lambda d: d['post']['cdel'].__setitem__(len(d['post']['cdel']) - 1, True))
    add('outgoing-halfedge cache entry dropped', sw, lambda d: d['post']['out'][0].pop())
    add('halfedge->halfface cache rows not swapped', sw, lambda d: d['post']['hehf'].__setitem__(0, list(reversed(d['post']['hehf'][6]))))
    add('incident cell of a halfface stale', de, lambda d: d['post']['inc'].__setitem__(d['post']['inc'].index(-1) if -1 in d['post']['inc'] else 0, 1))
    add('two values of an edge property exchanged after swap', sw, lambda d: [p for p in d['post']['props'] if p['k'] == 'E' and p['t'] == 'double'][0]['v'].reverse())
    add('bool halfedge property value flipped after gc', gc, lambda d: [p for p in d['post']['props'] if p['k'] == 'HE' and p['t'] == 'bool'][0]['v'].__setitem__(1, 1 - [p for p in d['post']['props'] if p['k'] == 'HE' and p['t'] == 'bool'][0]['v'][1]))
    add('property one element short', gc, lambda d: [p for p in d['post']['props'] if p['k'] == 'F'][0]['v'].pop())
    add('vertex position changed after gc', gc, lambda d: [p for p in d['post']['props'] if p['k'] == 'V' and p['t'] == 'vec3d' and p['d'] == '0 0 0'][0]['v'].__setitem__(0, '7 7 7'))
    add('add_edge result wrong', ae, lambda d: d.__setitem__('ret', d['ret'] - 1))
    add('genus wrong', gc, lambda d: d['post'].__setitem__('genus', d['post']['genus'] + 1))
    add('vertex->vertices circulator misses a neighbour', gc, lambda d: d['q']['vv'][0][0]['w'].pop())
    add('is_boundary(face) flipped', gc, lambda d: d['q']['bndf'].__setitem__(0, 1 - d['q']['bndf'][0]))
    add('find_halfedge result wrong', gc, lambda d: d['q']['fndhe'][1].__setitem__(2, -1 if d['q']['fndhe'][1][2] != -1 else 0))
    add('opposite halfface not mirrored', gc, lambda d: d['q']['hfopp'][0].reverse())
    add('entity iterator visits a handle twice', gc, lambda d: d['q']['ite']['w'].append(d['q']['ite']['w'][-1]))
    return out

def main():
    work = os.path.join(vlib.RUN, 'selftest-%d' % os.getpid())
    shutil.rmtree(work, ignore_errors=True); os.makedirs(work)
    vlib.snapshot_spec(work)
    vlib.build('plain', ['ovm_exec'])
    sp = os.path.join(work, 's.txt'); open(sp, 'w').write(SCRIPT)
    vlib.run_exec(vlib.exe('plain', 'ovm_exec'), sp, sp + '.raw')
    vlib.munge(sp + '.raw', sp + '.ndjson')
    lines = open(sp + '.ndjson').read().splitlines()
    base = vlib.run_validate(sp + '.ndjson', PROPS, work)
    print('untouched trace: checked %d, rejected %d' % (base['done']['checked'], base['done']['bad']))
    ok = base['done']['bad'] == 0
    for n, (name, idx, f) in enumerate(corruptions(lines)):
        ls = list(lines)
        d = json.loads(ls[idx]); f(d); ls[idx] = json.dumps(d, separators=(',', ':'))
        p = os.path.join(work, 'c%02d.ndjson' % n); open(p, 'w').write('\n'.join(ls) + '\n')
        try:
            v = vlib.run_validate(p, PROPS, work)
            rej = v['done']['bad'] > 0
            msg = v['bads'][0]['msg'] if v['bads'] else ''
        except vlib.MachineryError as e:
            rej, msg = False, 'machinery: ' + str(e)[:100]
        print('%-60s %s %s' % (name, 'REJECTED' if rej else 'ACCEPTED (!)', msg))
        ok = ok and rej
    shutil.rmtree(work, ignore_errors=True)
    sys.exit(0 if ok else 1)

main()
