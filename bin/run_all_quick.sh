#!/bin/bash
# Runs every registered quick check against /repo (refreshes evidence/), prints one line per check.
cd /verif
for id in C01 C02 C03 C04 C05 C06 C07 C08 C09 C10 C11 C12 C13 C14 C15 C16 C17 C18 C19 C20; do
  t0=$(date +%s)
  bin/check $id --tier quick > run/allquick-$id.log 2>&1; rc=$?
  echo "$id rc=$rc $(( $(date +%s) - t0 ))s $(grep -c '^VIOLATION' run/allquick-$id.log) violations $(grep -c '^KNOWN-FINDING' run/allquick-$id.log) known"
done
