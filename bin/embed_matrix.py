#!/usr/bin/env python3
"""Put the kill matrix printed by bin/seed_report.py between the markers of DESIGN.md section 12.
usage: bin/seed_report.py <logs...> | bin/embed_matrix.py"""
import sys, re
tab = sys.stdin.read().strip()
rows = [l for l in tab.splitlines() if l.startswith('| C')]
caught = sum(1 for l in rows if 'CAUGHT' in l)
only_other = sum(1 for l in rows if 'CAUGHT' in l and re.search(r'\| (C\d+) \|', l) and (re.search(r'\| (C\d+) \|', l).group(1) + ': CAUGHT') not in l)
missed = [l.split('|')[1].strip() for l in rows if 'CAUGHT' not in l]
head = ('%d seeded changes; %d caught by at least one registered quick check (%d of them only by the check of a '
        'neighbouring property); not caught: %s.\n\n' % (len(rows), caught, only_other, ', '.join(missed) or 'none'))
p = '/verif/DESIGN.md'; s = open(p).read()
a = s.index('<!-- KILL-MATRIX-BEGIN -->') + len('<!-- KILL-MATRIX-BEGIN -->'); b = s.index('<!-- KILL-MATRIX-END -->')
open(p, 'w').write(s[:a] + '\n' + head + tab + '\n' + s[b:])
print(head)
