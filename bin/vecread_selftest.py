#!/usr/bin/env python3
"""Mutation self-test of the C19 / C20 checks (demonstrates the binding of the
specification to the code; not part of any check).

Every mutant is applied to a COPY of /repo/src under a scratch directory
outside /repo and /verif (removed afterwards); /repo and the shared build
directories are never touched.  C19 mutants live in header-only code
(Vector11T.hh, GeometryKernel.hh, NormalAttrib*.hh): harness/vec_exec.cc is
compiled directly against the mutated headers and linked with the library of
the plain build.  C20 mutants change the library, which is configured and
built in the scratch directory with -fsanitize=thread.
The check under test is run with VERIF_EXE_<variant>_<exe> pointing at the
mutant executor and must print a VIOLATION line.

usage: bin/vecread_selftest.py [C19] [C20] [--only name,...]
"""
import os, shutil, subprocess, sys, tempfile, time
sys.path.insert(0, os.path.dirname(os.path.abspath(__file__)))
import vlib

V = 'src/OpenVolumeMesh/Geometry/Vector11T.hh'
G = 'src/OpenVolumeMesh/Core/GeometryKernel.hh'
N = 'src/OpenVolumeMesh/Attribs/NormalAttrib.hh'
T = 'src/OpenVolumeMesh/Core/TopologyKernel.cc'

C19_MUTANTS = [
    ('cross_sign', V, 'values_[2] * _rhs[0] - values_[0] * _rhs[2],', 'values_[0] * _rhs[2] - values_[2] * _rhs[0],'),
    ('sqrnorm_index_slip', V, 'return std::accumulate(values_.cbegin() + 1, values_.cend(),\n                    values_[0] * values_[0],',
     'return std::accumulate(values_.cbegin() + 2, values_.cend(),\n                    values_[0] * values_[0],'),
    ('dot_drops_first', V, '*data() * *_rhs.data());', 'decltype(*data() * *_rhs.data())(0));'),
    ('lex_less_reversed', V, 'return std::lexicographical_compare(\n                    values_.begin(), values_.end(),\n                    _rhs.values_.begin(), _rhs.values_.end());',
     'return std::lexicographical_compare(\n                    _rhs.values_.begin(), _rhs.values_.end(),\n                    values_.begin(), values_.end());'),
    ('minimize_is_max', V, 'return std::min(l, r);', 'return std::max(l, r);'),
    ('max_abs_signed', V, 'Scalar max_abs() const {\n            return std::abs(', 'Scalar max_abs() const {\n            return ('),
    ('mean_abs_divisor', V, 'return l + std::abs(r);\n                    }) / DIM;', 'return l + std::abs(r);\n                    }) / (DIM - 1);'),
    ('stream_in_skips_first', V, 'for (size_t i = 0; i < DIM; ++i)\n        is >> _vec[i];', 'for (size_t i = 1; i < DIM; ++i)\n        is >> _vec[i];'),
    ('stream_out_separator', V, 'os << " " << _vec[i];', 'os << "," << _vec[i];'),
    ('normalize_cond_inverted', V, "if (n != static_cast<decltype(norm())>(0)) {", "if (n == static_cast<decltype(norm())>(0)) {"),
    ('scalar_div_is_mul', V, 'for (auto& e : *this) {\n                e /= _s;', 'for (auto& e : *this) {\n                e *= _s;'),
    ('minimized_flag_always_false', V, 'result = true;\n                            return r;\n                        }\n                    });\n            return result;\n        }\n\n        /// maximize values: same',
     'return r;\n                        }\n                    });\n            return result;\n        }\n\n        /// maximize values: same'),
    ('homogenized_w', V, 'values_[2]/w,\n                    1);', 'values_[2]/w,\n                    w);'),
    ('edge_vector_reversed', G, 'const typename TopologyKernelT::Edge& e = TopologyKernelT::halfedge(_heh);\n        return (vertex(e.to_vertex()) - vertex(e.from_vertex()));',
     'const typename TopologyKernelT::Edge& e = TopologyKernelT::halfedge(_heh);\n        return (vertex(e.from_vertex()) - vertex(e.to_vertex()));'),
    ('face_barycenter_valence', G, 'typename PointT::value_type valence = 0;\n        HalfFaceVertexIter hfv_it', 'typename PointT::value_type valence = 1;\n        HalfFaceVertexIter hfv_it'),
    ('edge_barycenter_weights', G, '0.5 * vertex(TopologyKernelT::edge(_eh).to_vertex()));', '0.25 * vertex(TopologyKernelT::edge(_eh).to_vertex()));'),
    ('normal_flipped', G, 'const PointT n = (p2 - p1).cross(p3 - p2);', 'const PointT n = (p3 - p2).cross(p2 - p1);'),
    ('normal_not_normalized', G, 'return n.normalized();', 'return n;'),
    ('length_is_sqrnorm', G, 'typename PointT::value_type length(EdgeHandle _eh) const {\n        return vector(_eh).length();', 'typename PointT::value_type length(EdgeHandle _eh) const {\n        return vector(_eh).sqrnorm();'),
    ('attrib_halfface_no_flip', N, 'const typename GeomKernelT::PointT operator[](const HalfFaceHandle& _h) const {\n        assert((unsigned int)_h.idx() < kernel_->n_halffaces());\n        double mult = 1.0;\n        if(_h.idx() % 2 == 1) mult = -1.0;',
     'const typename GeomKernelT::PointT operator[](const HalfFaceHandle& _h) const {\n        assert((unsigned int)_h.idx() < kernel_->n_halffaces());\n        double mult = 1.0;\n        if(_h.idx() % 2 == 1) mult = 1.0;'),
]

C20_MUTANTS = [
    # a function-local static scratch buffer in a const query
    ('static_scratch_in_get_halfface_vertices', T,
     'std::vector<VertexHandle> TopologyKernel::get_halfface_vertices(HalfFaceHandle hfh, HalfEdgeHandle heh) const\n{',
     'std::vector<VertexHandle> TopologyKernel::get_halfface_vertices(HalfFaceHandle hfh, HalfEdgeHandle heh) const\n{\n    static std::vector<int> verif_scratch; verif_scratch.assign(4, hfh.idx()); verif_scratch.clear();'),
    # a lazily maintained statistic written from a const query
    ('lazy_counter_in_valence', 'src/OpenVolumeMesh/Core/TopologyKernel.hh',
     'inline size_t valence(FaceHandle _fh) const {',
     'inline size_t valence(FaceHandle _fh) const {\n        static size_t verif_calls = 0; ++verif_calls;'),
    # a const query that "normalises" a cache row in place: the frame condition breaks (and the answers of other readers)
    ('const_query_rotates_cache_row', 'src/OpenVolumeMesh/Core/TopologyKernel.hh',
     'return incident_hfs_per_he_[halfedge_handle(_eh, 0)].size();',
     'auto &verif_row = const_cast<TopologyKernel*>(this)->incident_hfs_per_he_[halfedge_handle(_eh, 0)];\n        if (verif_row.size() > 1) std::rotate(verif_row.begin(), verif_row.begin() + 1, verif_row.end());\n        return verif_row.size();'),
]


def apply(root, rel, old, new):
    p = os.path.join(root, rel)
    s = open(p).read()
    if s.count(old) != 1:
        raise SystemExit('mutant pattern occurs %d times in %s: %r' % (s.count(old), rel, old[:60]))
    open(p, 'w').write(s.replace(old, new))


def run_check(prop, env):
    e = dict(os.environ); e.update(env); e['VERIF_SELFTEST'] = '1'
    r = subprocess.run([os.path.join(vlib.VERIF, 'bin', 'check'), prop, '--tier', 'quick'], stdout=subprocess.PIPE, stderr=subprocess.PIPE, text=True, env=e)
    viol = [l for l in r.stdout.splitlines() if l.startswith('VIOLATION')]
    what = [l.split(']', 1)[1].strip()[:110] for l in r.stderr.splitlines() if '   ' in l and ('differs from its definition' in l or 'C20:' in l or 'ThreadSanitizer' in l)]
    return r.returncode, viol, what, r.stderr[-800:]


def main():
    args = [a for a in sys.argv[1:] if not a.startswith('--')]
    only = None
    for i, a in enumerate(sys.argv):
        if a == '--only':
            only = sys.argv[i + 1].split(',')
    props = [a for a in args if a in ('C19', 'C20')] or ['C19', 'C20']
    scratch = tempfile.mkdtemp(prefix='vecread-selftest-', dir='/tmp')
    rows = []
    try:
        if 'C19' in props:
            vlib.build('plain', ['vec_exec'])
            lib = os.path.join(vlib.BUILD, 'plain', 'ovm', 'src', 'libOpenVolumeMesh.a')
            cfgdir = os.path.join(vlib.BUILD, 'plain', 'ovm', 'src')
            for name, rel, old, new in C19_MUTANTS:
                if only and name not in only:
                    continue
                root = os.path.join(scratch, 'repo')
                shutil.rmtree(root, ignore_errors=True)
                os.makedirs(root)
                shutil.copytree(os.path.join(vlib.REPO, 'src'), os.path.join(root, 'src'))
                apply(root, rel, old, new)
                exe = os.path.join(scratch, 'vec_exec_' + name)
                r = subprocess.run(['c++', '-std=c++17', '-O1', '-DNDEBUG', '-D_GLIBCXX_ASSERTIONS', '-I' + os.path.join(root, 'src'), '-I' + cfgdir,
                                    '-I' + vlib.HARNESS, os.path.join(vlib.HARNESS, 'vec_exec.cc'), lib, '-o', exe], stdout=subprocess.PIPE, stderr=subprocess.STDOUT, text=True)
                if r.returncode != 0:
                    rows.append(('C19', name, 'DOES NOT COMPILE', r.stdout[-300:])); continue
                t0 = time.time()
                rc, viol, what, tail = run_check('C19', {'VERIF_EXE_plain_vec_exec': exe, 'VERIF_C19_CONFIGS': 'd2,d2p,d3su,d4su,geo'})
                rows.append(('C19', name, 'KILLED' if rc == 1 and viol else 'SURVIVED rc=%d' % rc, '; '.join(what[:3]) or tail[-200:]))
                print('%-5s %-34s %-10s %4.0fs  %s' % (rows[-1][:3] + (time.time() - t0, rows[-1][3])), flush=True)
                os.remove(exe)
        if 'C20' in props:
            for name, rel, old, new in C20_MUTANTS:
                if only and name not in only:
                    continue
                root = os.path.join(scratch, 'repo')
                shutil.rmtree(root, ignore_errors=True)
                subprocess.run(['git', 'clone', '-q', '--local', vlib.REPO, root], check=True)
                # the clone is HEAD; bring over uncommitted edits of tracked files, if any
                subprocess.run('git -C %s diff | git -C %s apply --allow-empty -' % (vlib.REPO, root), shell=True)
                apply(root, rel, old, new)
                bdir = os.path.join(scratch, 'build')
                shutil.rmtree(bdir, ignore_errors=True)
                r = subprocess.run(['cmake', '-G', 'Ninja', '-S', vlib.HARNESS, '-B', bdir, '-DOVM_REPO=' + root, '-DCMAKE_BUILD_TYPE=RelWithDebInfo',
                                    '-DVERIF_SAN=-fsanitize=thread', '-DCMAKE_CXX_FLAGS_RELWITHDEBINFO=-O1 -g -DNDEBUG'], stdout=subprocess.PIPE, stderr=subprocess.STDOUT, text=True)
                r = subprocess.run(['ninja', '-C', bdir, 'readers_exec'], stdout=subprocess.PIPE, stderr=subprocess.STDOUT, text=True)
                if r.returncode != 0:
                    rows.append(('C20', name, 'DOES NOT COMPILE', r.stdout[-300:])); print(rows[-1]); continue
                exe = os.path.join(bdir, 'readers_exec')
                t0 = time.time()
                rc, viol, what, tail = run_check('C20', {'VERIF_EXE_plain_readers_exec': exe, 'VERIF_EXE_tsan_readers_exec': exe})
                rows.append(('C20', name, 'KILLED' if rc == 1 and viol else 'SURVIVED rc=%d' % rc, '; '.join(what[:2]) or tail[-200:]))
                print('%-5s %-34s %-10s %4.0fs  %s' % (rows[-1][:3] + (time.time() - t0, rows[-1][3])), flush=True)
    finally:
        shutil.rmtree(scratch, ignore_errors=True)
    killed = sum(1 for r in rows if r[2] == 'KILLED')
    print('killed %d of %d mutants' % (killed, len(rows)))
    return 0 if killed == len(rows) else 1


if __name__ == '__main__':
    sys.exit(main())
