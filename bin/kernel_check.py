#!/usr/bin/env python3
"""Checks of the kernel properties (C01 C02 C03 C04 C09 C11 C12 C17).

Pipeline per check (all verdicts by TLC from /verif/spec):
  M/G  TLC explores OVMKernelMC with the property's alphabets in every
       (deferred x fast) mode and incidence subset, checks the operational
       model against the declarative layer on every step, and emits every
       explored transition;
  E    the emitted tree is replayed on the real library (harness/ovm_exec);
  R    long random histories from `tlc -simulate` are replayed likewise;
  V    OVMTrace.tla validates every recorded step against the declarative
       relations of the property.
"""
import json, os, random, shutil, sys, time
import vlib
from vlib import log, MachineryError

DEL = ['delete_vertex', 'delete_edge', 'delete_face', 'delete_cell']
SWAP = ['swap_vertices', 'swap_edges', 'swap_faces', 'swap_cells']
BUT = ['enable_vbu', 'enable_ebu', 'enable_fbu']
ADDS = ['add_vertex', 'add_n_vertices', 'add_edge', 'add_face_v', 'add_cell_closed']
ALLSEEDS = list(range(15))
EXTRA = [9, 10, 11, 12, 14]        # prism, edge-sharing tets, loop edge / valence-1 face / 2-gon, pyramid on pre-existing mixed-direction edges
MAINSEEDS = [1, 2, 3, 4, 5, 6, 7, 8, 14]   # 14: dangling face first + tetrahedron stored inward (odd halffaces)

# per property: which oracles the validator evaluates, executor options,
# and the TLC configurations of the two tiers
SMALL = [2, 4, 5, 6]          # two tets, tet+dangling parts, pillow, duplicate edges
FANS = [3, 7, 8]               # closed / open fans around an edge, different attachment orders
GC = ['collect_garbage']
MODE = ['enable_deferred', 'enable_fast']
SETS = ['set_edge_v', 'set_face_rot', 'set_cell_perm']

def mc(Depth, SeedIds, HistOps, TargetOps, **kw):
    d = dict(Depth=Depth, SeedIds=SeedIds, HistOps=HistOps, TargetOps=TargetOps)
    d.update(kw)
    return d

# per property: which oracles the validator evaluates, executor options,
# and the TLC configurations of the two tiers
CHECKS = {
    'C01': dict(
        props=['C01'], opts='props=0 q=1',
        quick=[mc(2, [2, 5, 6], DEL, DEL + GC + BUT + ['add_edge', 'add_cell_closed'], Modes='ModesTwo'),
               mc(2, [4], DEL, DEL + GC + BUT + ['add_edge', 'add_cell_closed'], Modes='ModesTwo', BUSets='BUTwo'),
               mc(1, MAINSEEDS + EXTRA, [], SWAP + ['add_face_v'] + SETS + DEL, Modes='ModesDefault'),
               mc(2, [5, 6], DEL, SWAP + SETS, Modes='ModesDeferred', BUSets='BUOn'),
               # delete, re-add on the freed halffaces, collect: the collection must not disturb the new cell
               mc(3, [1, 5], ['delete_cell', 'delete_face', 'add_cell_closed', 'add_face_v'], GC + ['enable_deferred', 'delete_cell'],
                  Modes='ModesDeferred', BUSets='BUTwo', Tree=True),
               # clear() and rebuild on the same object: nothing of the old mesh may survive in the caches
               mc(4, [1, 5], ['clear', 'add_n_vertices'], ['add_face_v', 'add_edge'],
                  Modes='ModesDefault', BUSets='BUOn')],
        thorough=[mc(3, [2, 5, 6], DEL + GC, DEL + GC + BUT + ['add_edge', 'add_face_v', 'add_cell_closed']),
                  mc(2, [4], DEL, DEL + GC + BUT + ['add_edge', 'add_cell_closed'], Modes='ModesTwo'),
                  mc(2, SMALL + EXTRA, DEL, SWAP + SETS, Modes='ModesTwo'),
                  mc(3, [2], ['delete_cell', 'delete_face', 'add_cell_closed', 'add_face_v'], GC + ['enable_deferred', 'delete_cell'],
                     Modes='ModesDeferred', BUSets='BUTwo'),
                  mc(4, [1, 5], ['delete_cell', 'delete_face', 'add_cell_closed'], GC + ['enable_deferred', 'delete_cell'], Modes='ModesDeferred')],
        sim=dict(ops=DEL + GC + ADDS + ADDS + BUT + SWAP + MODE + SETS + ['enable_bu', 'reorder', 'reserve', 'clear']),
    ),
    'C02': dict(
        props=['C02'], opts='props=1',
        quick=[mc(2, MAINSEEDS, DEL + GC + MODE, DEL),
               # a cell deleted, replaced on the same halffaces, collected: later deletions must still reach the new cell
               mc(4, [1, 5], ['delete_cell', 'add_cell_closed', 'collect_garbage'], ['delete_face', 'delete_edge', 'delete_vertex'], Modes='ModesDeferred', BUSets='BUTwo', Tree=True)],
        thorough=[mc(3, SMALL, DEL + GC + MODE, DEL),
                  mc(3, [3, 9, 10], DEL + ['add_cell_closed'], DEL, Modes='ModesTwo', BUSets='BUTwo')],
        sim=dict(ops=DEL + GC + ADDS + BUT + MODE + ['clear']),
    ),
    'C03': dict(
        props=['C03'], opts='props=2',
        quick=[mc(2, SMALL, DEL, DEL + GC + ['add_vertex', 'add_n_vertices', 'add_edge', 'add_face_v', 'add_cell_closed', 'clear', 'enable_deferred'], BUSets='BUTwo'),
               mc(1, MAINSEEDS + EXTRA, [], SWAP + DEL, Modes='ModesDefault', BUSets='BUTwo'),
               mc(2, [5, 6], DEL, SWAP, Modes='ModesDeferred', BUSets='BUTwo')],
        thorough=[mc(3, [2, 5, 6], DEL + GC, DEL + GC + ['add_vertex', 'add_edge', 'add_face_v', 'clear', 'enable_deferred'], BUSets='BUTwo'),
                  mc(2, SMALL + EXTRA, DEL, SWAP, BUSets='BUTwo')],
        sim=dict(ops=DEL + GC + ADDS + SWAP + MODE + ['clear', 'more_props']),
    ),
    'C04': dict(
        # C01's cache oracle as well: "equals the mesh obtained by performing the same deletions immediately" includes its incidences
        props=['C04', 'C03', 'C01'], opts='props=1',
        quick=[mc(3, [2, 5, 6, 3], DEL, GC + ['enable_deferred'], Modes='ModesDeferred'),
               mc(3, [1, 5, 2], ['delete_cell', 'add_cell_closed'], GC + ['enable_deferred'], Modes='ModesDeferred', BUSets='BUTwo', Tree=True),
               mc(2, [1, 5], DEL, ['status_gc'], BUSets='BUTwo'),
               mc(1, [2, 4, 3], [], ['status_gc'], Modes='ModesTwo', BUSets='BUTwo')],
        thorough=[mc(4, [2, 5, 6], DEL, GC + ['enable_deferred'], Modes='ModesDeferred'),
                  mc(2, [2, 4, 5, 3], DEL, ['status_gc'], BUSets='BUTwo'),
                  mc(3, [1, 5], DEL, ['status_gc'], Modes='ModesTwo', BUSets='BUTwo')],
        sim=dict(ops=DEL + DEL + GC + ADDS + MODE),
    ),
    'C05': dict(
        props=['C05'], opts='props=0 q=3',
        quick=[mc(2, [2, 4, 5, 6, 3], DEL, DEL + GC, Modes='ModesTwo', BUSets='BUTwo'),
               mc(1, MAINSEEDS + EXTRA, [], DEL + BUT, Modes='ModesDefault')],
        thorough=[mc(3, [2, 5, 6, 11], DEL, DEL + GC + ['add_cell_closed'], Modes='ModesTwo'),
                  mc(2, MAINSEEDS + EXTRA, DEL, BUT + DEL, Modes='ModesTwo', BUSets='BUTwo')],
        sim=dict(ops=DEL + GC + ADDS + BUT + MODE, num=(12, 100), depth=(20, 40)),
    ),
    'C08': dict(
        props=['C08'], opts='props=0 q=4',
        quick=[mc(2, [2, 4, 5, 6], DEL, DEL + GC + ['add_face_v', 'add_edge'], Modes='ModesTwo', BUSets='BUTwo'),
               mc(1, MAINSEEDS + EXTRA, [], SWAP + DEL, Modes='ModesDefault', BUSets='BUTwo'),   # renumbering with and without incidences (scanning variants)
               # "faces ... accepted with topology check are closed loops": every halfedge list up to length 3
               mc(1, [6], [], ['add_face'], Modes='ModesDefault', BUSets='BUOn', MaxList=3)],
        thorough=[mc(3, [2, 5, 6, 11], DEL, DEL + GC + ['add_face_v', 'add_edge'], Modes='ModesTwo', BUSets='BUTwo'),
                  mc(2, [1, 6], ['delete_face', 'delete_edge'], ['add_face'], Modes='ModesTwo', BUSets='BUTwo', MaxList=3),
                  mc(2, SMALL + EXTRA, DEL, SWAP, Modes='ModesTwo', BUSets='BUOn')],
        sim=dict(ops=DEL + GC + ADDS + SWAP + MODE, num=(12, 100), depth=(20, 40)),
    ),
    'C09': dict(
        props=['C09'], opts='props=0 q=8',
        quick=[mc(2, [2, 3, 5, 7, 8], DEL + ['add_cell_closed'], DEL + GC + ['add_cell_closed'] + BUT, BUSets='BUOn'),
               mc(1, [2, 3, 5, 7, 8], [], SWAP + ['reorder', 'enable_bu', 'reserve'], Modes='ModesDefault', BUSets='BUOn'),
               # fans built or modified while some incidence kind is off, then switched on (the reorder pass)
               mc(2, [3, 7, 8], BUT + ['delete_cell'], BUT, Modes='ModesTwo', BUSets='BUAll'),
               mc(3, [3, 7, 8], ['delete_cell', 'add_cell_closed'], ['delete_cell', 'delete_face', 'add_cell_closed'], Modes='ModesTwo', BUSets='BUOn', Tree=True)],
        thorough=[mc(3, [2, 3, 5, 7, 8], DEL + GC + ['add_cell_closed'], DEL + GC + ['add_cell_closed'] + BUT, Modes='ModesTwo', BUSets='BUOn'),
                  mc(2, [2, 3, 5, 7, 8, 9, 10], DEL, SWAP + BUT, BUSets='BUOn'),
                  mc(4, [3, 7, 8], ['delete_cell', 'add_cell_closed'], ['delete_cell', 'delete_face', 'add_cell_closed'] + GC, Modes='ModesTwo', BUSets='BUOn')],
        sim=dict(ops=DEL + GC + ADDS + BUT + SWAP + MODE + ['reorder', 'enable_bu'], BUSets='BUOn'),
    ),
    'C10': dict(
        props=['C10'], opts='props=0 q=16',
        quick=[mc(2, [2, 5, 6], DEL, DEL + GC, Modes='ModesTwo', BUSets='BUOn'),
               mc(1, [3, 4, 7], [], ['add_face_v', 'add_cell_closed'] + DEL, Modes='ModesDefault', BUSets='BUOn'),
               # faces of mixed valence (prism: quads + triangles; pyramid on odd halfedges): queries shorter /
               # longer than a face's valence must not match it (seeded change C10f was only met by the random stage)
               mc(1, [9, 12], [], DEL, Modes='ModesDefault', BUSets='BUOn')],
        thorough=[mc(3, [5, 6], DEL, DEL + GC + ['add_face_v', 'add_edge', 'add_cell_closed'], Modes='ModesTwo', BUSets='BUOn'),
                  mc(2, [2, 12], DEL, DEL + GC + ['add_cell_closed'], Modes='ModesTwo', BUSets='BUOn'),
                  mc(1, [3, 4, 7, 9, 10, 11, 14], [], ['add_face_v', 'add_cell_closed'] + DEL, Modes='ModesTwo', BUSets='BUOn')],
        sim=dict(ops=DEL + GC + ADDS + SWAP + MODE, BUSets='BUOn', num=(12, 100), depth=(20, 40)),
    ),
    'C11': dict(
        props=['C11', 'C08'], opts='props=0',
        quick=[mc(1, [1, 6], [], ['add_edge', 'add_face'], Modes='ModesDefault', BUSets='BUTwo', MaxList=3),
               mc(1, [1, 5], [], ['add_cell'], Modes='ModesDefault', BUSets='BUTwo', MaxList=4),
               mc(1, [3, 9, 10], [], ['add_cell'], Modes='ModesDefault', BUSets='BUOn', MaxList=3),
               mc(1, [13], [], ['add_cell'], Modes='ModesDefault', BUSets='BUOn', MaxList=4),
               # degenerate faces: a single halfface can be a closed surface (2-gon on both halfedges of one edge)
               mc(1, [11], [], ['add_cell', 'add_face'], Modes='ModesDefault', BUSets='BUTwo', MaxList=3),
               mc(2, [2, 6], DEL, ['add_edge', 'add_cell_closed', 'add_face_v'], Modes='ModesTwo', BUSets='BUTwo', MaxList=3)],
        thorough=[mc(2, [1, 6], DEL, ['add_edge', 'add_face'], Modes='ModesTwo', BUSets='BUTwo', MaxList=3),
                  mc(2, [1, 5, 2], ['delete_cell'], ['add_cell'], Modes='ModesDefault', BUSets='BUTwo', MaxList=4),
                  mc(3, [2, 6], DEL + GC, ['add_edge', 'add_cell_closed', 'add_face_v'], Modes='ModesTwo', BUSets='BUTwo', MaxList=3)],
        sim=None,
    ),
    'C12': dict(
        props=['C12', 'C01', 'C09'], opts='props=1 twin=1 q=1', variant='san',
        quick=[mc(2, [2, 5, 6], DEL + BUT, DEL + GC + BUT + ['add_edge', 'add_face_v', 'add_cell_closed', 'enable_deferred'], Modes='ModesTwo'),
               mc(1, MAINSEEDS, [], SWAP + ['enable_bu', 'reorder', 'reserve'], Modes='ModesDefault')],
        thorough=[mc(3, [5, 6], DEL + GC + BUT, DEL + BUT + GC + ['add_edge', 'add_face_v', 'add_cell_closed', 'enable_deferred']),
                  mc(3, [2], DEL + BUT, DEL + BUT + GC, Modes='ModesTwo'),
                  mc(2, [2, 5, 6, 11, 12], DEL + BUT, SWAP, Modes='ModesTwo')],
        sim=dict(ops=DEL + GC + ADDS + BUT + BUT + SWAP + MODE + ['enable_bu', 'reorder', 'reserve']),
    ),
    'C17': dict(
        props=['C17', 'C03', 'C01'], opts='props=2',
        quick=[mc(1, MAINSEEDS + EXTRA, [], SWAP, Modes='ModesDefault'),
               mc(2, [5, 6, 1], DEL, SWAP, Modes='ModesDeferred', BUSets='BUTwo'),
               # a deleted cell and the cell that replaced it list the same halffaces
               mc(3, [5, 1], ['delete_cell', 'add_cell_closed'], ['swap_cells', 'swap_faces'], Modes='ModesDeferred', BUSets='BUTwo')],
        thorough=[mc(2, MAINSEEDS + EXTRA, DEL, SWAP, Modes='ModesTwo'),
                  mc(3, [5, 6], DEL + ['add_cell_closed'], SWAP, Modes='ModesDeferred')],
        sim=dict(ops=SWAP + SWAP + DEL + GC + ADDS),
        swap_twice=True,
    ),
}

LEVEL_TEXT = ('TLC explores every history over the property\'s alphabet from a family of seed meshes in all '
              '(deferred x fast) modes and incidence subsets within the stated depth, checks the operational '
              'model against the declarative relations on every step, and every explored transition is '
              'executed on the real library and validated against the same relations.')


def classify(prop, failures, crashes, known):
    """Split findings into known ones and violations."""
    viol, kn = [], []
    for f in failures:
        sig = dict(kind='relation', msg=f['msg'], op=f['path'][-1]['op'] if f['path'] else '')
        k = match_known(prop, sig, known)
        (kn if k else viol).append((f, k))
    for c in crashes:
        sig = dict(kind='crash', msg='crash', op='')
        k = match_known(prop, sig, known)
        (kn if k else viol).append((c, k))
    return viol, kn


def match_known(prop, sig, known):
    for k in known:
        if k.get('status') != 'open' or k.get('property') != prop:
            continue
        m = k.get('match', {})
        if all(sig.get(a) == b for a, b in m.items()):
            return k
    return None


def extra_c08(work, variant, cov, failures):
    """C08, conversion part: TLAPS proof of the handle algebra for all naturals,
    and the exhaustive sweep of the C++ conversions over [0, 2^30) validated by TLC."""
    import subprocess, re
    vlib.build(variant, ['handles_exec'])
    r = subprocess.run(['tlapm', '--cleanfp', 'HandleAlg.tla'], cwd=os.path.join(vlib.SPEC, 'proofs'),
                       stdout=subprocess.PIPE, stderr=subprocess.STDOUT, text=True, timeout=900)
    m = re.search(r'All (\d+) obligations? proved', r.stdout)
    cov['tlaps_obligations_proved'] = int(m.group(1)) if m else 0
    shutil.rmtree(os.path.join(vlib.SPEC, 'proofs', '.tlacache'), ignore_errors=True)
    if not m:
        failures.append(dict(msg='MODEL:TLAPS proof of the handle algebra failed', path=[], script='', x=0, model=True,
                             detail=r.stdout[-3000:]))
    tr = os.path.join(work, 'handles.ndjson')
    with open(tr, 'w') as fo:
        rc = subprocess.run([vlib.exe(variant, 'handles_exec'), '1024', '0'], stdout=fo, timeout=1800).returncode
    if rc != 0:
        raise MachineryError('handles_exec failed')
    cfg = os.path.join(work, 'handles.cfg')
    open(cfg, 'w').write('SPECIFICATION Spec\nINVARIANT Done\nCHECK_DEADLOCK FALSE\n')
    env = dict(os.environ, TRACE=tr)
    r = subprocess.run(['java', '-XX:+UseSerialGC', '-cp', vlib.JAR, 'tlc2.TLC', '-workers', '1', '-metadir',
                        os.path.join(work, 'hmeta'), '-noGenerateSpecTE', '-config', cfg, 'OVMHandles.tla'],
                       cwd=vlib.SPEC, env=env, stdout=subprocess.PIPE, stderr=subprocess.STDOUT, text=True, timeout=900)
    m = re.search(r'<<"VXDONE", (\d+), (\d+), (\d+), (\d+)>>', r.stdout)
    if r.returncode != 0 or not m:
        raise MachineryError('OVMHandles validation failed:\n' + r.stdout[-2000:])
    cov['handle_blocks_validated'] = int(m.group(1))
    cov['handle_indices_swept'] = int(m.group(1)) * (1 << 20)
    if int(m.group(3)) > 0:
        for line in r.stdout.splitlines():
            if line.startswith('<<"VXBAD"'):
                failures.append(dict(msg='C08:handle conversions ' + line, path=[], script=tr, x=0, model=True, detail=line))
                break


def run_tests_traced(cfg, work, cov, failures, crashes, drifts):
    """Trace source T: the repository's own unit tests, built against the hooked
    library and linked with harness/tracer.cc; every outermost mutator call the
    suite makes on a small mesh is validated like any other recorded step."""
    import subprocess, glob
    vlib.build('plain', ['unittests_traced'])
    d = os.path.join(work, 'ut')
    os.makedirs(d)
    for f in glob.glob(os.path.join(vlib.REPO, 'src', 'Unittests', 'TestFiles', '*')):
        shutil.copy(f, d)
    raw = os.path.join(d, 'trace.raw')
    env = dict(os.environ, VERIF_TRACE_OUT=raw)
    r = subprocess.run([vlib.exe('plain', 'unittests_traced')], cwd=d, env=env, stdout=subprocess.PIPE,
                       stderr=subprocess.STDOUT, text=True, timeout=1800)
    cov['repo_tests_exit'] = r.returncode
    if not os.path.exists(raw):
        raise MachineryError('traced unit tests wrote no trace:\n' + r.stdout[-2000:])
    lines = [l for l in open(raw).read().splitlines() if l.startswith('{"e":"pre"') or l.startswith('{"e":"call"')]
    # split at pre lines into shards
    nsh = vlib.NCPU
    pairs = []
    for l in lines:
        if l.startswith('{"e":"pre"'):
            pairs.append([l])
        elif pairs:
            pairs[-1].append(l)
    shards = [pairs[i::nsh] for i in range(nsh)]
    props = [p for p in cfg['props']] + ['STEP']
    def one(i):
        if not shards[i]:
            return None
        rp = os.path.join(d, 't-%02d.raw' % i)
        with open(rp, 'w') as fo:
            for pr in shards[i]:
                fo.write('\n'.join(pr) + '\n')
            fo.write('{"e":"end","x":0}\n')
        mg = os.path.join(d, 't-%02d.ndjson' % i)
        vlib.munge(rp, mg)
        return (mg, vlib.run_validate(mg, props, work))
    from concurrent.futures import ThreadPoolExecutor
    with ThreadPoolExecutor(max_workers=vlib.NCPU) as ex:
        res = [x for x in ex.map(one, range(nsh)) if x]
    nchk = nbad = ndr = 0
    for mg, v in res:
        nchk += v['done']['checked']; nbad += v['done']['bad']; ndr += v['done']['drift']
        tl = None
        for b in v['bads']:
            if tl is None:
                tl = open(mg).read().splitlines()
            try:
                path, _ = vlib.path_of_line(tl, b['line'])
            except Exception:
                path = []
            failures.append(dict(msg='T:' + b['msg'], path=path, script='', x=0, model=True,
                                 detail='repository test-suite trace, line %d of %s\n%s' % (b['line'], mg, tl[b['line'] - 1][:3000])))
    log('%s T: %d mutator calls of the repository\'s tests validated, %d bad, %d drift' % (cfg.get('name', ''), nchk, nbad, ndr))
    cov['traces_validated_against_impl'] += nchk
    cov['repo_test_calls_validated'] = nchk
    cov['drift_lines'] += ndr


def TETHEX_STAGES():
    # the stages the tet/hex module offers (a stage that is not there yet is simply not run)
    try:
        src = open(os.path.join(vlib.VERIF, 'bin', 'tethex_check.py')).read()
    except OSError:
        return set()
    return {k for k in ('C03', 'C05', 'C11') if ("'%s': dict(" % k) in src}


def extra_c03_collapse(tier, cov, failures):
    """C03 through tetrahedral collapse_edge / split_*: the stage lives in the tet/hex module
    (spec/OVMTet.tla: CollapsePropsFollow); its counts are merged into C03's evidence."""
    import subprocess
    r = subprocess.run([sys.executable, os.path.join(vlib.VERIF, 'bin', 'tethex_check.py'), 'C03', '--tier', tier],
                       cwd=vlib.VERIF, stdout=subprocess.PIPE, stderr=subprocess.STDOUT, text=True, timeout=4 * 3600)
    stats = None
    for line in r.stdout.splitlines():
        if line.startswith('C03STATS '):
            stats = json.loads(line[len('C03STATS '):])
        if line.startswith('VIOLATION property=C03'):
            rp = line.split('replay=')[-1].strip()
            failures.append(dict(msg='C03:collapse ' + line, path=[], script=rp, x=0, model=True, detail=r.stdout[-4000:], replay_path=rp))
    if r.returncode not in (0, 1) or stats is None:
        raise MachineryError('tethex C03 stage failed (exit %d):\n%s' % (r.returncode, r.stdout[-3000:]))
    log('C03 collapse stage: %s' % json.dumps({k: stats.get(k) for k in ('states', 'transitions', 'traces_validated_against_impl', 'counters', 'violations', 'wall_s')}))
    cov['states'] += stats.get('states', 0); cov['transitions'] += stats.get('transitions', 0)
    cov['traces_validated_against_impl'] += stats.get('traces_validated_against_impl', 0)
    cov['collapse_stage'] = {k: stats.get(k) for k in ('states', 'transitions', 'traces_validated_against_impl', 'counters', 'random_histories', 'configs', 'wall_s')}
    if stats.get('samples'):
        cov['samples'].append(dict(collapse_stage=stats['samples'][:1]))


def extra_tethex_stage(prop, tier, cov, failures):
    """The part of C05 / C11 that concerns the tetrahedral and hexahedral kernels: the stage lives in
    the tet/hex module (spec/OVMTet.tla, OVMHex.tla define the specialised circulators and the
    acceptance conditions of the specialised add_face / add_cell)."""
    import subprocess
    r = subprocess.run([sys.executable, os.path.join(vlib.VERIF, 'bin', 'tethex_check.py'), prop, '--tier', tier],
                       cwd=vlib.VERIF, stdout=subprocess.PIPE, stderr=subprocess.STDOUT, text=True, timeout=4 * 3600)
    stats = None
    for line in r.stdout.splitlines():
        if line.startswith(prop + 'STATS '):
            stats = json.loads(line[len(prop + 'STATS '):])
        if line.startswith('VIOLATION property=' + prop):
            rp = line.split('replay=')[-1].strip()
            failures.append(dict(msg=prop + ':tethex ' + line, path=[], script=rp, x=0, model=True, detail=r.stdout[-4000:], replay_path=rp))
    if r.returncode not in (0, 1) or stats is None:
        raise MachineryError('tethex %s stage failed (exit %d):\n%s' % (prop, r.returncode, r.stdout[-3000:]))
    log('%s tet/hex stage: %s' % (prop, json.dumps({k: stats.get(k) for k in ('states', 'transitions', 'traces_validated_against_impl', 'counters', 'violations', 'wall_s')})))
    cov['states'] += stats.get('states', 0); cov['transitions'] += stats.get('transitions', 0)
    cov['traces_validated_against_impl'] += stats.get('traces_validated_against_impl', 0)
    cov['tethex_stage'] = {k: stats.get(k) for k in ('states', 'transitions', 'traces_validated_against_impl', 'counters', 'configs', 'wall_s')}


def run_check(prop, tier, seed, replay=None, sim_only=False, sim_num=None):
    t0 = time.time()
    cfg = CHECKS[prop]
    variant = cfg.get('variant', 'plain')
    work = os.path.join(vlib.RUN, '%s-%s-%d' % (prop, tier, os.getpid()))
    shutil.rmtree(work, ignore_errors=True)
    os.makedirs(work)
    vlib.snapshot_spec(work)
    vlib.build(variant, ['ovm_exec'])
    known = vlib.load_known()
    failures, crashes, drifts = [], [], []
    cov = dict(states=0, transitions=0, traces_validated_against_impl=0, samples=[], model_errors=[], validated_steps_by_call={},
               impl_steps_executed=0, drift_lines=0, configs=[])

    if replay:
        txt = ''.join(l for l in open(replay) if not l.startswith('#'))
        agg = vlib.exec_and_validate(variant, [txt], cfg['props'] + ['STEP'], work, 'replay')
        failures += agg['failures']; crashes += agg['crashes']
        cov['traces_validated_against_impl'] += agg['checked']
        cov['states'] = cov['transitions'] = max(1, agg['checked'])
        cov['samples'].append(dict(replay=replay))
    else:
        for n, mc in enumerate([] if sim_only else cfg['quick'] + (cfg['thorough'] if tier == 'thorough' else [])):
            c = dict(mc); c.setdefault('Modes', 'ModesAll'); c.setdefault('BUSets', 'BUAll'); c['Emit'] = 'tree'
            cp = os.path.join(work, 'mc%d.cfg' % n)
            vlib.write_mc_cfg(cp, c)
            r = vlib.run_tlc_mc('OVMKernelMC.tla', cp, work)
            log('%s mc%d: %d generated, %d distinct, %d transitions emitted, %.0fs' %
                (prop, n, r['stats']['generated'], r['stats']['distinct'], len(r['transitions']), r['wall']))
            cov['states'] += r['stats']['distinct']; cov['transitions'] += len(r['transitions'])
            cov['configs'].append(dict(c, tlc_wall_s=round(r['wall'], 1), generated=r['stats']['generated'],
                                       distinct=r['stats']['distinct'], emitted=len(r['transitions'])))
            if r['error']:
                # the operational model itself breaks a relation: a design-level finding
                cov['model_errors'].append(r['output'][-4000:])
                failures.append(dict(msg='MODEL:' + r['error'], path=[], script='', x=0, model=True,
                                     detail=r['output'][-6000:]))
            trans = r['transitions']
            if cfg.get('swap_twice'):
                trans = trans + [(k, p + [p[-1]]) for k, p in trans if p and p[-1]['op'].startswith('swap_') and p[-1]['a'] != p[-1]['b']]
            scripts = vlib.tree_scripts(r['orgs'], trans, cfg['opts'], vlib.NCPU * 2)
            if trans and len(cov['samples']) < 3:
                k, p = trans[len(trans) // 2]
                cov['samples'].append(dict(seed_and_modes=list(k), calls=p))
            agg = vlib.exec_and_validate(variant, scripts, cfg['props'], work, 'e%d' % n)
            log('%s e%d: %d lines, %d checked, %d bad, %d drift, %d crashes' %
                (prop, n, agg['lines'], agg['checked'], agg['bad'], agg['drift'], len(agg['crashes'])))
            failures += agg['failures']; crashes += agg['crashes']; drifts += agg['drifts']
            cov['traces_validated_against_impl'] += agg['checked']
            cov['impl_steps_executed'] += agg['lines']
            cov['drift_lines'] += agg['drift']
            for k_, v_ in agg['ops'].items():
                cov['validated_steps_by_call'][k_] = cov['validated_steps_by_call'].get(k_, 0) + v_
        if prop == 'C08' and not sim_only:
            extra_c08(work, variant, cov, failures)
        if prop == 'C03' and not sim_only:
            extra_c03_collapse(tier, cov, failures)
        if prop in ('C05', 'C11') and not sim_only and prop in TETHEX_STAGES():
            extra_tethex_stage(prop, tier, cov, failures)
        if not sim_only and (tier == 'thorough' or prop in ('C01', 'C02')):
            run_tests_traced(cfg, work, cov, failures, crashes, drifts)
        sim = cfg.get('sim')
        if sim:
            ti = 0 if tier == 'quick' else 1
            num = sim.get('num', (40, 400))[ti]
            depth = sim.get('depth', (30, 60))[ti]
            if sim_num:
                num = sim_num
            c = dict(Depth=depth + 1, SeedIds=ALLSEEDS, HistOps=sorted(set(sim['ops'])), TargetOps=[], Emit='sim',
                     Modes='ModesAll', BUSets=sim.get('BUSets', 'BUAll'))
            cp = os.path.join(work, 'sim.cfg')
            vlib.write_mc_cfg(cp, c)
            r = vlib.run_tlc_mc('OVMKernelMC.tla', cp, work, workers=1, simulate=dict(num=num, depth=depth, seed=seed))
            hist = [dict(key=tuple(d['key']), calls=d['path'], script=d['script']) for d in r['sims']]
            scripts = []
            for h in hist:
                scripts.append(vlib.linear_script(h['script'] + h['calls'], cfg['opts'], silent_prefix=len(h['script'])))
            if r['error']:
                cov['model_errors'].append(r['output'][-4000:])
                failures.append(dict(msg='MODEL:' + r['error'], path=[], script='', x=0, model=True, detail=r['output'][-6000:]))
            nsh = vlib.NCPU
            shards = [''.join(scripts[i::nsh]) for i in range(nsh) if scripts[i::nsh]]
            agg = vlib.exec_and_validate(variant, shards, cfg['props'], work, 'r')
            log('%s sim: %d histories, %d lines, %d checked, %d bad, %d drift, %d crashes' %
                (prop, len(hist), agg['lines'], agg['checked'], agg['bad'], agg['drift'], len(agg['crashes'])))
            failures += agg['failures']; crashes += agg['crashes']; drifts += agg['drifts']
            cov['traces_validated_against_impl'] += agg['checked']
            cov['impl_steps_executed'] += agg['lines']
            cov['drift_lines'] += agg['drift']
            cov['random_histories'] = len(hist)
            if hist:
                cov['samples'].append(dict(random_history=hist[0]['calls'][:12]))

    viol, kn = classify(prop, failures, crashes, known)
    for f, k in kn:
        print('KNOWN-FINDING: property=%s %s' % (prop, k.get('what', '')))
    rc = 0
    seen = set()
    for f, _ in viol:
        if f.get('replay_path'):
            p = f['replay_path']
        elif f.get('model'):
            p = os.path.join(vlib.RUN, 'replay', '%s-model-%d.txt' % (prop, len(seen)))
            os.makedirs(os.path.dirname(p), exist_ok=True)
            open(p, 'w').write(f.get('detail', ''))
        elif 'path' in f:
            p = vlib.write_replay(prop, f)
        else:
            p = f.get('script', '')
        key = (f.get('msg'), p)
        if key in seen:
            continue
        seen.add(key)
        if len(seen) <= 8:
            print('VIOLATION property=%s replay=%s' % (prop, p))
            log('  ', f.get('msg') or f.get('e'), json.dumps(f.get('path', f))[:600])
        rc = 1
    cov['drift_samples'] = drifts[:5]
    cov['known_findings_seen'] = len(kn)
    if not replay:
      vlib.write_evidence(prop, tier, seed, 'model_checking', cov, time.time() - t0, len(seen),
                        ['TLC 2.x and the CommunityModules JSON bridge are trusted',
                         'the executor\'s projection of the mesh state (harness/ovm_exec.cc: dump_state) is trusted',
                         'bounded: seed meshes and depths listed in coverage.configs; beyond them only random histories'])
    if rc == 0 and not os.environ.get('VERIF_KEEP'):
        shutil.rmtree(work, ignore_errors=True)
    return rc


def main():
    import argparse
    ap = argparse.ArgumentParser()
    ap.add_argument('prop')
    ap.add_argument('--tier', default=os.environ.get('VERIF_TIER', 'quick'))
    ap.add_argument('--replay')
    ap.add_argument('--sim-only', action='store_true')
    ap.add_argument('--sim-num', type=int)
    a = ap.parse_args()
    seed = int(os.environ.get('VERIF_SEED', '1'))
    try:
        sys.exit(run_check(a.prop, a.tier, seed, a.replay, a.sim_only, a.sim_num))
    except MachineryError as e:
        print('MACHINERY-ERROR: %s' % e, file=sys.stderr)
        sys.exit(2)


if __name__ == '__main__':
    main()
