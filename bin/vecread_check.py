#!/usr/bin/env python3
"""Checks C19 (vector algebra / geometric queries) and C20 (concurrent readers).

Nothing in here decides a property: this file runs TLC (generation, model
checking, trace validation), converts TLC's JSON cases into the text scripts
of the executors (pure reformatting), runs the executors built from /repo's
working tree, and counts.  All oracles are TLA+ definitions:
  C19  spec/OVMVec.tla (definitions), OVMVecMC.tla (lattice enumeration +
       algebraic laws of the definitions), OVMVecTrace.tla (comparison of
       every logged result with its definition)
  C20  spec/OVMReaders.tla (reader processes over a fixed mesh, queries are
       stuttering steps), OVMReadersMC.tla (all interleavings of the model,
       program generation), OVMReadersTrace.tla (determinism + frame
       condition on the recorded concurrent runs); the data-race part of the
       verdict comes from ThreadSanitizer (build variant 'tsan').
"""
import hashlib, json, os, re, shutil, subprocess, sys, time
from concurrent.futures import ThreadPoolExecutor
import vlib
from vlib import log, MachineryError

JOBS = int(os.environ.get('VERIF_JOBS', str(max(2, min(vlib.NCPU, 12)))))
_unesc = re.compile(r'\\(.)')


def payload(line, tag):
    i = line.index('"', len(tag) + 4)
    return _unesc.sub(lambda m: m.group(1), line[i + 1: line.rindex('"')])


def tlc(module, cfg_text, work, name, workers=2, env=None, timeout=3600, heap='6g', serial=False):
    """Run TLC; returns (rc, stdout lines).  rc 0 ok, 12 invariant violated; anything else is machinery."""
    cfg = os.path.join(work, name + '.cfg')
    open(cfg, 'w').write(cfg_text)
    meta = os.path.join(work, 'meta-' + name)
    shutil.rmtree(meta, ignore_errors=True)
    cmd = ['java', '-XX:+UseSerialGC' if serial else '-XX:+UseParallelGC', '-Xmx' + heap, '-Xss16m', '-cp', vlib.JAR, 'tlc2.TLC',
           '-workers', str(workers), '-metadir', meta, '-noGenerateSpecTE', '-config', cfg, module]
    e = dict(os.environ)
    if env:
        e.update(env)
    out = os.path.join(work, name + '.out')
    t0 = time.time()
    try:
        with open(out, 'w') as fo:
            r = subprocess.run(cmd, cwd=vlib.SPEC, env=e, stdout=fo, stderr=subprocess.STDOUT, timeout=timeout)
    except subprocess.TimeoutExpired:
        raise MachineryError('TLC timeout: %s %s' % (module, name))
    finally:
        shutil.rmtree(meta, ignore_errors=True)
    if r.returncode not in (0, 12):
        raise MachineryError('TLC failed (exit %d) on %s/%s:\n%s' % (r.returncode, module, name, open(out).read()[-3000:]))
    return r.returncode, out, time.time() - t0


def tlc_stats(out):
    st = dict(generated=0, distinct=0)
    for line in open(out):
        m = re.search(r'(\d+) states generated, (\d+) distinct states found', line)
        if m:
            st = dict(generated=int(m.group(1)), distinct=int(m.group(2)))
    return st


def validate(module, trace, work, name, prop, heap='3g', timeout=3600):
    """Validator protocol of OVMTrace: VXBAD / VXDONE (+ VXSTAT, VXDRIFT)."""
    cfg = 'SPECIFICATION TSpec\nCONSTANT Props = {"%s"}\nINVARIANT Done\nCHECK_DEADLOCK FALSE\n' % prop
    rc, out, wall = tlc(module, cfg, work, name, workers=1, env=dict(TRACE=trace), heap=heap, serial=True, timeout=timeout)
    bads, drifts, done, stat = [], [], None, None
    for line in open(out):
        if line.startswith('<<"VXBAD"'):
            m = re.match(r'<<"VXBAD", (\d+), (-?\d+), (-?\d+), "(.*)">>', line)
            bads.append(dict(line=int(m.group(1)), n=int(m.group(2)), msg=m.group(4)))
        elif line.startswith('<<"VXDRIFT"'):
            m = re.match(r'<<"VXDRIFT", (\d+), (-?\d+), (-?\d+), "(.*)">>', line)
            drifts.append(dict(line=int(m.group(1)), n=int(m.group(2)), msg=m.group(4)))
        elif line.startswith('<<"VXDONE"'):
            done = [int(x) for x in re.findall(r'-?\d+', line)]
        elif line.startswith('<<"VXSTAT"'):
            stat = [int(x) for x in re.findall(r'-?\d+', line)]
    if rc != 0 or done is None:
        raise MachineryError('validator failed (exit %d) on %s:\n%s' % (rc, trace, open(out).read()[-3000:]))
    os.remove(out)
    return dict(bads=bads, drifts=drifts, done=done, stat=stat or [0, 0], wall=wall)


def exe_path(variant, name):
    """Executable built from /repo's working tree; VERIF_EXE_<variant>_<name> substitutes another binary (used only by the
    mutation self-test described in docs/vecread.md, which builds mutated sources outside /repo and /verif)."""
    return os.environ.get('VERIF_EXE_%s_%s' % (variant, name)) or vlib.exe(variant, name)


def match_known(prop, sig, known):
    for k in known:
        if k.get('status') != 'open' or k.get('property') != prop:
            continue
        m = k.get('match', {})
        if m and all(sig.get(a) == b for a, b in m.items()):
            return k
    return None


# =====================================================================  C19
def esc(t):
    return t.replace('\\', '\\\\').replace('\t', '\\t').replace('\n', '\\n')


def ops_lines(d):
    out = []
    for k, gs in sorted(d['ops'].items()):
        for g, ts in sorted(gs.items()):
            for t, ops in sorted(ts.items()):
                out.append('O %s %s %s %d %s' % (k, g, t, len(ops), ' '.join(ops)))
    return out


def case_line(c):
    if c['k'] == 'X':
        return 'X %d %s %s %d %d %d %s %s %s' % (c['d'], c['tl'], c['tr'], c['dl'], c['dr'], len(c['g']), ' '.join(c['g']),
                                               ' '.join(map(str, c['a'])), ' '.join(map(str, c['b'])))
    if c['k'] == 'H':
        return 'H %s %s %s %s %s %d %s %d %s %d %s' % (c['shape'], c['mt'], c['vt'], c['first'], c['second'], len(c['pos']),
                                                     ' '.join(str(x) for p in c['pos'] for x in p), len(c['moves']),
                                                     ' '.join(str(x) for m in c['moves'] for x in m), len(c['addface']), ' '.join(map(str, c['addface'])))
    if c['k'] == 'G':
        return 'G %s %s %s %d %s' % (c['shape'], c['mt'], c['vt'], len(c['pos']), ' '.join(str(x) for p in c['pos'] for x in p))
    s = 'C %s %d %d %d %d %d %s %d %s %s %s' % (c['k'], c['d'], c['den'], c['s'], c['sep'], len(c['g']), ' '.join(c['g']),
                                              len(c['ty']), ' '.join(c['ty']), ' '.join(map(str, c['a'])), ' '.join(map(str, c['b'])))
    if c['k'] == 'I':
        s += ' | ' + esc(c['txt'])
    return s


def vec_cfg(D, A, B, S, dens, kinds, mat='Mat11', stride=1, seed=0, a1=None, divs='Div255', jitters=0, xc='XC3', xcu='XC3U', xdens=(2, 4), hist=0):
    return ('SPECIFICATION Spec\nCONSTANTS\n  D = %d\n  CompsA <- %s\n  CompsB <- %s\n  Scalars <- %s\n  Dens = %s\n  GenKinds = %s\n'
            '  MatEntries <- %s\n  Stride = %d\n  Seed = %d\n  FirstA <- %s\n  SweepDivisors <- %s\n  Jitters = %d\n  XComps <- %s\n  XCompsU <- %s\n  XDens = %s\n  Histories = %d\nINVARIANT LawsHold\nINVARIANT EmitCase\nCHECK_DEADLOCK FALSE\n'
            % (D, A, B, S, vlib.tla_set(dens), vlib.tla_set(kinds), mat, stride, seed, a1 or A, divs, jitters, xc, xcu, vlib.tla_set(list(xdens)), hist))


def c19_configs(tier, seed):
    cf = []
    def add(name, **kw):
        cf.append((name, kw))
    add('d2', D=2, A='Lat22', B='Lat22', S='Lat22', dens=[1, 2], kinds=['B', 'S', 'U', 'I'])
    add('d2p', D=2, A='Lat04', B='Lat04', S='Lat04', dens=[1], kinds=['B', 'S', 'U'])
    add('d3su', D=3, A='Lat22', B='Lat22', S='Lat22', dens=[1, 2], kinds=['S', 'U', 'I'])
    add('d4su', D=4, A='Lat22', B='Lat22', S='Lat22', dens=[1, 2], kinds=['S', 'U'])
    add('d4i', D=4, A='Lat22', B='Lat22', S='Lat22', dens=[1], kinds=['I'])
    if tier == 'quick':
        add('d3', D=3, A='Lat22', B='LatB3', S='Lat22', dens=[1], kinds=['B'])
        add('d3p', D=3, A='Lat04', B='Lat13', S='Lat04', dens=[1], kinds=['B', 'S', 'U'])
        add('d4', D=4, A='LatB4', B='LatB2', S='Lat22', dens=[1], kinds=['B'])
        add('geo', D=3, A='Lat22', B='Lat22', S='Lat22', dens=[1], kinds=['G'], mat='Mat11', stride=200, seed=seed, jitters=12)
        add('sweep', D=4, A='Lat22', B='Lat22', S='Lat22', dens=[1], kinds=['W'], divs='DivOdd')
        add('x2', D=2, A='Lat22', B='Lat22', S='Lat22', dens=[1], kinds=['X'], xc='XC3', xcu='XC3U', xdens=(1, 2, 4))
        add('x3', D=3, A='Lat22', B='Lat22', S='Lat22', dens=[1], kinds=['X'], xc='XC3', xcu='XC3U', xdens=(2, 4))
        add('x4', D=4, A='Lat22', B='Lat22', S='Lat22', dens=[1], kinds=['X'], xc='XC2', xcu='XC2U', xdens=(4,))
        add('hist', D=3, A='Lat22', B='Lat22', S='Lat22', dens=[1], kinds=['H'], hist=1, seed=seed)
    else:
        for x in ('m2', 'm1', 'z0', 'p1', 'p2'):
            add('d3' + x, D=3, A='Lat22', B='Lat22', S='Lat22', dens=[1, 2], kinds=['B'], a1='One_' + x)
        add('d3p', D=3, A='Lat04', B='Lat04', S='Lat04', dens=[1], kinds=['B', 'S', 'U'])
        for x in ('m2', 'm1', 'z0', 'p1', 'p2'):
            add('d4' + x, D=4, A='Lat22', B='LatB4', S='Lat22', dens=[1], kinds=['B'], a1='One_' + x)
        add('d4h', D=4, A='Lat22', B='LatB2', S='Lat22', dens=[2], kinds=['B'])
        add('geo', D=3, A='Lat22', B='Lat22', S='Lat22', dens=[1], kinds=['G'], mat='Mat11', stride=12, seed=seed, jitters=150)
        add('sweep', D=4, A='Lat22', B='Lat22', S='Lat22', dens=[1], kinds=['W'], divs='Div255')
        add('x2', D=2, A='Lat22', B='Lat22', S='Lat22', dens=[1], kinds=['X'], xc='Lat22', xcu='Lat04', xdens=(1, 2, 4))
        add('x3', D=3, A='Lat22', B='Lat22', S='Lat22', dens=[1], kinds=['X'], xc='XC4', xcu='XC4U', xdens=(2, 4))
        add('x4', D=4, A='Lat22', B='Lat22', S='Lat22', dens=[1], kinds=['X'], xc='XC3', xcu='XC3U', xdens=(4,))
        add('hist', D=3, A='Lat22', B='Lat22', S='Lat22', dens=[1], kinds=['H'], hist=8, seed=seed)
        add('geo2', D=3, A='Lat22', B='Lat22', S='Lat22', dens=[1], kinds=['G'], mat='Mat12', stride=400, seed=seed)
    return cf


SHARD = 1500


def c19_generate(name, kw, work):
    rc, out, wall = tlc('OVMVecMC.tla', vec_cfg(**kw), work, 'gen-' + name, workers=2, heap='4g')
    ops, cases = None, []
    for line in open(out):
        if line.startswith('<<"EMIT"'):
            cases.append(json.loads(payload(line, 'EMIT')))
        elif line.startswith('<<"OPS"'):
            ops = json.loads(payload(line, 'OPS'))
    st = tlc_stats(out)
    if rc != 0:
        raise MachineryError('a law of the definitions in OVMVec.tla fails (the specification is inconsistent):\n' + open(out).read()[-3000:])
    if ops is None or st['distinct'] != len(cases):
        raise MachineryError('generation %s: %d cases emitted, %d states' % (name, len(cases), st['distinct']))
    os.remove(out)
    cases.sort(key=lambda c: json.dumps(c, sort_keys=True))
    head = ops_lines(ops)
    shards = []
    for i in range(0, len(cases), SHARD):
        chunk = cases[i:i + SHARD]
        sp = os.path.join(work, '%s-%03d.txt' % (name, i // SHARD))
        open(sp, 'w').write('\n'.join(head + [case_line(c) for c in chunk]) + '\n')
        shards.append((sp, len(chunk)))
    return dict(name=name, cases=len(cases), shards=shards, wall=wall, states=st['distinct'], sample=cases[len(cases) // 2] if cases else None)


def bad_key(msg):
    """vector failures are "<type>/<op>", geometry failures "<query>/<handle>": one signature per operation / query"""
    a, b = msg.split('/', 1)
    if len(a) == 2 and set(a) <= set('iufd'):
        return ('mixed-scalar', b)                      # kind X: "<left><right>/<op>"
    return ('vector', b) if a in ('i', 'u', 'f', 'd', 'm') else ('geometry', a)


def c19_exec_validate(binary, sp, ncases, work):
    trace = sp[:-4] + '.ndjson'
    with open(trace, 'w') as fo, open(sp[:-4] + '.err', 'w') as fe:
        try:
            r = subprocess.run([binary, sp], stdout=fo, stderr=fe, timeout=1800)
        except subprocess.TimeoutExpired:
            raise MachineryError('vec_exec timeout on ' + sp)
    if r.returncode != 0:
        raise MachineryError('vec_exec failed (exit %d) on %s: %s' % (r.returncode, sp, open(sp[:-4] + '.err').read()[-1500:]))
    with open(trace, 'rb') as f:
        f.seek(max(0, os.path.getsize(trace) - 200))
        last = f.read().decode().strip().splitlines()[-1]
    if json.loads(last) != dict(e='end', n=ncases):
        raise MachineryError('vec_exec logged %s for %d cases (%s)' % (last, ncases, sp))
    v = validate('OVMVecTrace.tla', trace, work, 'val-' + os.path.basename(sp)[:-4], 'C19')
    v['script'], v['trace'] = sp, trace
    if v['stat'][0] != ncases:
        raise MachineryError('validator saw %d cases, expected %d (%s)' % (v['stat'][0], ncases, sp))
    # keep what the report needs, then drop the trace (disk): a sample and the first failing case per signature
    v['sample'] = sample_of(trace, ncases // 2)
    firsts = {}
    for b in v['bads']:
        firsts.setdefault(bad_key(b['msg']), b['n'])
    v['bad_samples'] = {n: sample_of(trace, n) for n in set(firsts.values())}
    os.remove(trace)
    for f in (sp[:-4] + '.err',):
        if os.path.exists(f) and os.path.getsize(f) == 0:
            os.remove(f)
    return v


def c19_replay_file(sp, n, msg):
    """O lines + the single failing case of script sp (case number n)."""
    head, k, body = [], -1, None
    for line in open(sp):
        if line.startswith('O '):
            head.append(line.rstrip('\n'))
        elif line[:2] in ('C ', 'G ', 'X ', 'H '):
            k += 1
            if k == n:
                body = line.rstrip('\n')
                break
    os.makedirs(os.path.join(vlib.RUN, 'replay'), exist_ok=True)
    txt = '\n'.join(head + [body]) + '\n'
    p = os.path.join(vlib.RUN, 'replay', 'C19-%s.txt' % hashlib.sha1((txt + msg).encode()).hexdigest()[:12])
    open(p, 'w').write('# C19 %s\n' % msg + txt)
    return p


def sample_of(trace, n):
    for line in open(trace):
        d = json.loads(line)
        if d.get('n') == n:
            s = json.dumps(d)
            return json.loads(s) if len(s) < 6000 else dict(k=d['k'], note='truncated', text=s[:3000])
    return None


def run_c19(tier, seed, replay=None):
    t0 = time.time()
    work = os.path.join(vlib.RUN, 'C19-%s-%d' % (tier, os.getpid()))
    shutil.rmtree(work, ignore_errors=True)
    os.makedirs(work)
    if not os.environ.get('VERIF_EXE_plain_vec_exec'):
        vlib.build('plain', ['vec_exec'])
    binary = exe_path('plain', 'vec_exec')
    known = vlib.load_known()
    gens, results = [], []
    if replay:
        sp = os.path.join(work, 'replay-000.txt')
        lines = [l for l in open(replay) if not l.startswith('#')]
        open(sp, 'w').write(''.join(lines))
        n = sum(1 for l in lines if l[:2] in ('C ', 'G ', 'X ', 'H '))
        gens.append(dict(name='replay', cases=n, shards=[(sp, n)], wall=0, states=n, sample=None))
    else:
        cfs = c19_configs(tier, seed)
        if os.environ.get('VERIF_C19_CONFIGS'):          # self-test knob: a subset of the generation configs
            cfs = [c for c in cfs if c[0] in os.environ['VERIF_C19_CONFIGS'].split(',')]
        with ThreadPoolExecutor(max_workers=max(1, JOBS // 2)) as ex:
            gens = list(ex.map(lambda x: c19_generate(x[0], x[1], work), cfs))
        for g in gens:
            log('C19 gen %-6s %7d cases, %2d shards, TLC %.0fs' % (g['name'], g['cases'], len(g['shards']), g['wall']))
    shards = [s for g in gens for s in g['shards']]
    with ThreadPoolExecutor(max_workers=JOBS) as ex:
        results = list(ex.map(lambda s: c19_exec_validate(binary, s[0], s[1], work), shards))
    ncases = sum(r['stat'][0] for r in results); nnt = sum(r['stat'][1] for r in results)
    nchk = sum(r['done'][1] for r in results); nskip = sum(r['done'][3] for r in results)
    bads = [(r, b) for r in results for b in r['bads']]
    log('C19: %d cases (%d non-trivial), %d results compared, %d skipped, %d failed comparisons, %.0fs' %
        (ncases, nnt, nchk, nskip, len(bads), time.time() - t0))
    mach = [b for _, b in bads if b['msg'].startswith('MACHINERY')]
    if mach:
        raise MachineryError('executor and specification disagree on the set of operations: %s' % mach[:3])
    # group failures by operation signature; one replay per signature
    groups = {}
    for r, b in bads:
        key = bad_key(b['msg'])
        sig = dict(kind=key[0], op=key[1])
        groups.setdefault(key, dict(sig=sig, n=0, first=(r, b)))['n'] += 1   # (r['bad_samples'] holds a logged case per signature)
    rc, nviol, nknown = 0, 0, 0
    for key, g in sorted(groups.items()):
        r, b = g['first']
        k = match_known('C19', g['sig'], known)
        if k:
            nknown += 1
            print('KNOWN-FINDING: property=C19 %s' % k.get('what', ''))
            continue
        p = c19_replay_file(r['script'], b['n'], '%s %s fails on %d cases; first: %s' % (key[0], key[1], g['n'], b['msg']))
        print('VIOLATION property=C19 replay=%s' % p)
        log('   %s/%s differs from its definition on %d logged results, e.g. case %s' % (key[0], key[1], g['n'], json.dumps(r['bad_samples'].get(b['n']))[:700]))
        nviol += 1
        rc = 1
    samples = [r['sample'] for r in results[:: max(1, len(results) // 4)][:4] if r.get('sample')]
    cov = dict(evaluations=nchk, distinct_nontrivial=nnt, cases=ncases, results_skipped_outside_claim=nskip,
               rule=('TLC enumerates every element of the stated integer lattices (pairs of vectors, vector x scalar, single vectors '
                     'with input denominators 1 and 2, stream texts with four separators), an integer division/multiplication sweep (numerators '
                     '0..255 and negatives x divisors 1..255, operands up to 2^30), integer affine images and jittered (non-affine) corner positions of '
                     'five solids / faces; '
                     'each element is one case and cases are distinct by construction (a TLC set). evaluations = number of logged '
                     'results compared with their TLA+ definition. A vector case is non-trivial when each input vector has two '
                     'different components (so that an index slip or a sign error changes the result) and, for pairs, the two '
                     'vectors differ; every geometry case is non-trivial (non-singular map). Counted by the validator (VXSTAT).'),
               samples=samples, exhaustive=replay is None,
               generation=[dict(config=g['name'], cases=g['cases'], tlc_states=g['states'], tlc_wall_s=round(g['wall'], 1)) for g in gens],
               laws_checked_on_cases=sum(g['states'] for g in gens),
               traces_validated_against_impl=ncases, known_findings_seen=nknown,
               tolerance='float 2^-21 absolute, double 2^-40 absolute on non-representable rationals; square roots and unit '
                         'vectors through squared identities at 2^-21 .. 2^-18 relative; everything representable exactly')
    (vlib.write_evidence if not (os.environ.get('VERIF_SELFTEST') or replay or vlib.REPO != '/repo') else (lambda *a: None))('C19', tier, seed, 'exploration', cov, time.time() - t0, nviol,
                        ['TLC and the CommunityModules JSON bridge are trusted',
                         'the executor\'s radix conversion of float/double results (harness/vec_exec.cc: put(double)) is trusted',
                         'NaN, infinities, subnormals, signed zeros and rounding accuracy on arbitrary reals are NOT covered: TLA+ has no floating point',
                         'unsigned: ring operations modulo 2^32 on wrapped negative inputs, all other operations on non-negative inputs only'])
    if rc == 0 and not os.environ.get('VERIF_KEEP'):
        shutil.rmtree(work, ignore_errors=True)
    return rc


# =====================================================================  C20
MESHES = dict(quick=['tet1', 'tetfan', 'polyfan', 'polydel', 'polymix', 'hex1', 'hexblock221',
                     # incidence configurations <vertex><edge><face>: 0 = that bottom-up incidence kind disabled
                     'polyfan#000', 'polyfan#011', 'polyfan#101', 'polyfan#110', 'polymix#000'],
              thorough=['tet1', 'tetfan', 'polyfan', 'polydel', 'polymix', 'hex1', 'hexblock221', 'hexblock222', 'hexblock321']
                       + ['%s#%s' % (m, c) for m in ('polyfan', 'polymix', 'polydel') for c in ('000', '001', '010', '011', '100', '101', '110')])
GEN = dict(quick=dict(ThreadCounts=[2, 3, 4, 8, 16], CfgCounts=[2, 8], SameCounts=[2, 4, 16], LockCounts=[2, 4], RndCases=2, RndLen=200, Reps=3, RepsBig=20),
           thorough=dict(ThreadCounts=[2, 3, 4, 5, 6, 8, 12, 16], CfgCounts=[2, 4, 16], SameCounts=[2, 3, 4, 8, 16], LockCounts=[2, 3, 4, 8], RndCases=6, RndLen=400, Reps=8, RepsBig=50))
# (name, readers, hazard, program length, query set); hazards are negative controls: TLC must reject them
MC = dict(quick=[('r2', 'R2', 'none', 2, 'MCQ6'), ('r3', 'R3', 'none', 2, 'MCQ3'), ('r4', 'R4', 'none', 1, 'MCQ4'),
                 ('hz-shared', 'R2', 'shared_scratch', 1, 'MCQ4'), ('hz-lazy', 'R2', 'lazy_cache', 1, 'MCQ4')],
          thorough=[('r2', 'R2', 'none', 3, 'MCQ6'), ('r3', 'R3', 'none', 2, 'MCQ6'), ('r4', 'R4', 'none', 2, 'MCQ3'),
                    ('hz-shared', 'R3', 'shared_scratch', 1, 'MCQ4'), ('hz-lazy', 'R3', 'lazy_cache', 1, 'MCQ4')])
TSAN_ENV = dict(TSAN_OPTIONS='halt_on_error=0 exitcode=0 report_thread_leaks=0 second_deadlock_stack=1', READERS_CASE_TIMEOUT='600')


def c20_mc(name, readers, hazard, plen, qset, work):
    cfg = ('SPECIFICATION Spec\nCONSTANTS\n  Readers <- %s\n  Mesh0 <- TetMesh\n  Hazard = "%s"\n  ProgLen = %d\n  MCQueries <- %s\n'
           'INVARIANT Frame\nINVARIANT Deterministic\nPROPERTY MeshNeverChanges\nCHECK_DEADLOCK FALSE\n' % (readers, hazard, plen, qset))
    rc, out, wall = tlc('OVMReadersMC.tla', cfg, work, 'mc-' + name, workers=max(2, min(6, JOBS // 2)), heap='8g')
    st = tlc_stats(out)
    txt = open(out).read()
    viol = re.findall(r'Error: (Invariant \w+ is violated|Action property \w+ is violated|Temporal properties were violated)', txt)
    os.remove(out)
    return dict(name=name, readers=readers, hazard=hazard, prog_len=plen, queries=qset, rc=rc, violated=viol,
                states=st['distinct'], transitions=st['generated'], wall=round(wall, 1))


def q_line(q):
    return 'Q %s %d %d %d %d %s' % (q['op'], q['a'], q['b'], q['c'], len(q['l']), ' '.join(map(str, q['l'])))


def c20_script(mesh, alpha, cases):
    out = ['M ' + mesh] + [q_line(q) for q in alpha]
    for c in cases:
        out.append('T %d %d %d %s' % (c['case'], c['threads'], c['reps'], c.get('mode', 'free')))
        out += ['P %d %s' % (len(p), ' '.join(map(str, p))) for p in c['progs']]
    return '\n'.join(out) + '\n'


def c20_exec(variant, sp, work):
    trace = sp[:-4] + '.' + variant + '.ndjson'
    err = sp[:-4] + '.' + variant + '.err'
    e = dict(os.environ); e.update(TSAN_ENV)
    t0 = time.time()
    with open(trace, 'w') as fo, open(err, 'w') as fe:
        try:
            r = subprocess.run([exe_path(variant, 'readers_exec'), sp], stdout=fo, stderr=fe, timeout=7200, env=e)
        except subprocess.TimeoutExpired:
            raise MachineryError('readers_exec (%s) timeout on %s' % (variant, sp))
    etxt = open(err).read()
    reports = etxt.count('WARNING: ThreadSanitizer')
    # every case runs in a forked child of the executor: a crash of the library under concurrent queries is recorded as a
    # {"e":"crash"} line and judged by the trace spec.  The top-level process itself (mesh construction, script parsing)
    # is single-threaded: if IT dies, the tooling is broken.
    with open(trace, 'rb') as f:
        f.seek(max(0, os.path.getsize(trace) - 200))
        tail = f.read().decode(errors='replace').strip().splitlines()
    if r.returncode != 0 or not tail or not tail[-1].startswith('{"e":"end"'):
        raise MachineryError('readers_exec (%s) top-level process failed (exit %d) on %s: %s' % (variant, r.returncode, sp, etxt[-1500:]))
    return dict(trace=trace, err=err, tsan_reports=reports, wall=time.time() - t0, rc=r.returncode)


def c20_replay_file(sp, case, msg):
    head, body, keep = [], [], False
    for line in open(sp):
        t = line[:2]
        if t in ('M ', 'Q '):
            head.append(line)
        elif t == 'T ':
            keep = case is None or int(line.split()[1]) == case
            if keep:
                body.append(line)
        elif t == 'P ' and keep:
            body.append(line)
    os.makedirs(os.path.join(vlib.RUN, 'replay'), exist_ok=True)
    txt = ''.join(head + body)
    p = os.path.join(vlib.RUN, 'replay', 'C20-%s.txt' % hashlib.sha1((txt + msg).encode()).hexdigest()[:12])
    open(p, 'w').write('# C20 %s\n' % msg + txt)
    return p


def c20_coverage_of(trace):
    """bookkeeping for the evidence: which (mesh, query) pairs ran on >= 2 threads of one case with a non-empty answer"""
    alpha, conc, runs, sample, mesh = None, set(), 0, None, None
    for line in open(trace):
        d = json.loads(line)
        if d['e'] == 'mesh':
            mesh = d['name']
        elif d['e'] == 'alpha':
            alpha = d['q']
        elif d['e'] == 'run':
            runs += 1
            seen = {}
            for t, p in enumerate(d['progs']):
                for i in set(p):
                    seen[i] = seen.get(i, 0) + 1
            for i, n in seen.items():
                if n >= 2 and d['seq'][i] not in (0, []):
                    conc.add(i)
            if sample is None and d['progs'] and d['progs'][0]:
                i = d['progs'][-1][0]
                sample = dict(mesh=d['mesh'], case=d['case'], threads=d['threads'], reps=d['reps'],
                              program_prefix_thread0=[alpha[k] for k in d['progs'][0][:5]],
                              a_query=alpha[i], its_single_threaded_answer=d['seq'][i], its_answer_on_the_last_thread=d['last'][-1][0])
    return dict(queries=len(alpha or []), conc=conc, mesh=mesh, runs=runs, sample=sample)


def run_c20(tier, seed, replay=None):
    t0 = time.time()
    work = os.path.join(vlib.RUN, 'C20-%s-%d' % (tier, os.getpid()))
    shutil.rmtree(work, ignore_errors=True)
    os.makedirs(work)
    with ThreadPoolExecutor(max_workers=2) as ex:
        list(ex.map(lambda v: vlib.build(v, ['readers_exec']), [v for v in ('plain', 'tsan') if not os.environ.get('VERIF_EXE_%s_readers_exec' % v)]))
    known = vlib.load_known()
    mc_results, scripts, gen_info = [], [], {}
    with ThreadPoolExecutor(max_workers=3) as mcpool:
        mc_futs = [] if replay else [mcpool.submit(c20_mc, *(m + (work,))) for m in MC[tier]]
        if replay:
            sp = os.path.join(work, 'replay.txt')
            open(sp, 'w').write(''.join(l for l in open(replay) if not l.startswith('#')))
            scripts.append(sp)
        else:
            # 1. the executor describes its catalogue
            mfile = os.path.join(work, 'meshes.ndjson')
            with open(mfile, 'w') as fo:
                for m in MESHES[tier]:
                    dp = os.path.join(work, 'describe.txt')
                    open(dp, 'w').write('M %s\n' % m)
                    r = subprocess.run([exe_path('plain', 'readers_exec'), dp], stdout=subprocess.PIPE, stderr=subprocess.PIPE, text=True, timeout=300)
                    if r.returncode != 0:
                        raise MachineryError('readers_exec cannot build mesh %s: %s' % (m, r.stderr[-1000:]))
                    fo.write(r.stdout.splitlines()[0] + '\n')
            # 2. TLC derives the alphabet of every mesh and the programs
            g = GEN[tier]
            cfg = ('SPECIFICATION Spec\nCONSTANTS\n  Seed = %d\n  ThreadCounts = %s\n  CfgCounts = %s\n  SameCounts = %s\n  LockCounts = %s\n  RndCases = %d\n  RndLen = %d\n  Reps = %d\n  RepsBig = %d\n'
                   'INVARIANT EmitCase\nCHECK_DEADLOCK FALSE\n' % (seed % 100000, vlib.tla_set(g['ThreadCounts']), vlib.tla_set(g['CfgCounts']), vlib.tla_set(g['SameCounts']), vlib.tla_set(g['LockCounts']),
                                                                     g['RndCases'], g['RndLen'], g['Reps'], g['RepsBig']))
            rc, out, wall = tlc('OVMReadersGen.tla', cfg, work, 'gen', workers=2, env=dict(MESHES=mfile), heap='6g')
            if rc != 0:
                raise MachineryError('program generation failed:\n' + open(out).read()[-2000:])
            alpha, cases = {}, {}
            for line in open(out):
                if line.startswith('<<"ALPHA"'):
                    d = json.loads(payload(line, 'ALPHA')); alpha[d['mesh']] = d['q']
                elif line.startswith('<<"EMIT"'):
                    d = json.loads(payload(line, 'EMIT')); cases.setdefault(d['mesh'], []).append(d)
            os.remove(out)
            if set(alpha) != set(MESHES[tier]) or set(cases) != set(MESHES[tier]):
                raise MachineryError('generation covered %s, expected %s' % (sorted(alpha), MESHES[tier]))
            for m in MESHES[tier]:
                cs = sorted(cases[m], key=lambda c: c['case'])
                # a few scripts per mesh (balanced by work) so that traces are validated in parallel
                nparts = max(1, min(4, len(cs), sum(len(p) for c in cs for p in c['progs']) // 40000))
                parts = [[] for _ in range(nparts)]
                loads = [0] * nparts
                for c in sorted(cs, key=lambda c: -sum(len(p) for p in c['progs'])):
                    i = loads.index(min(loads))
                    parts[i].append(c); loads[i] += sum(len(p) for p in c['progs'])
                for i, part in enumerate(parts):
                    sp = os.path.join(work, 'rd-%s-%d.txt' % (m.replace('#', '_'), i))
                    open(sp, 'w').write(c20_script(m, alpha[m], sorted(part, key=lambda c: c['case'])))
                    scripts.append(sp)
                gen_info[m] = dict(queries=len(alpha[m]), cases=len(cs), threads=sorted({c['threads'] for c in cs}),
                                   incidences_vef=m.split('#')[1] if '#' in m else '111')
            log('C20 gen: %d meshes, %d queries, %d cases, TLC %.0fs' % (len(alpha), sum(len(a) for a in alpha.values()),
                                                                          sum(len(c) for c in cases.values()), wall))
        # 3. run every script single-threaded + concurrently (plain and under ThreadSanitizer), validate the traces
        def one(sp_variant):
            sp, variant = sp_variant
            x = c20_exec(variant, sp, work)
            v = validate('OVMReadersTrace.tla', x['trace'], work, 'val-%s-%s' % (os.path.basename(sp)[:-4], variant), 'C20', heap='6g')
            x.update(val=v, script=sp, variant=variant, cov=c20_coverage_of(x['trace']))
            if not v['bads'] and not x['tsan_reports']:
                os.remove(x['trace'])
            return x
        with ThreadPoolExecutor(max_workers=max(2, JOBS - 2)) as ex:
            runs = list(ex.map(one, [(sp, v) for sp in scripts for v in ('plain', 'tsan')]))
        mc_results = [f.result() for f in mc_futs]
    # ---- verdict
    viol, rc, machinery = [], 0, []
    for x in runs:
        for b in x['val']['bads']:
            if b['msg'].startswith('MACHINERY'):
                # not a C20 matter (the case also fails on one thread / ran into the time limit): tooling failure unless a real violation is found
                machinery.append('trace %s case %d: %s' % (x['trace'], b['n'], b['msg']))
                continue
            viol.append(dict(kind='trace', msg=b['msg'].split(' thread')[0], case=b['n'], script=x['script'], variant=x['variant']))
        if x['tsan_reports']:
            viol.append(dict(kind='tsan', msg='ThreadSanitizer', case=None, script=x['script'], variant=x['variant'], report=x['err'],
                             head=re.sub(r'\s+', ' ', open(x['err']).read()[:1200])))
    for m in mc_results:
        if m['hazard'] == 'none' and m['rc'] != 0:
            raise MachineryError('the reader model violates its own property without any hazard: %s' % m)
        if m['hazard'] != 'none' and m['rc'] != 12:
            raise MachineryError('negative control: TLC did not reject hazard %s (the invariants would be vacuous)' % m['hazard'])
    if machinery and not viol:
        raise MachineryError('; '.join(machinery[:4]))
    for m in machinery[:4]:
        log('C20 note (not judged): ' + m)
    seen, nknown = set(), 0
    for v in viol:
        sig = dict(kind=v['kind'], msg=v['msg'])
        k = match_known('C20', sig, known)
        if k:
            nknown += 1
            print('KNOWN-FINDING: property=C20 %s' % k.get('what', ''))
            continue
        key = (v['kind'], v['msg'], os.path.basename(v['script']))
        if key in seen:
            continue
        seen.add(key)
        p = c20_replay_file(v['script'], v['case'], '%s (%s build)' % (v['msg'], v['variant']))
        if v['kind'] == 'tsan':
            shutil.copy(v['report'], p + '.tsan-report')
        print('VIOLATION property=C20 replay=%s' % p)
        log('   %s %s' % (v['msg'], v.get('head', 'case %s of %s' % (v['case'], v['script']))))
        rc = 1
    nchk = sum(x['val']['done'][1] for x in runs)
    ndrift = sum(x['val']['done'][3] for x in runs)
    drift_ops = sorted({d['msg'] for x in runs for d in x['val']['drifts']})
    if ndrift:
        log('C20 DRIFT: %d single-threaded answers differ from the model\'s sequential definition (ops %s) - not a C20 violation' % (ndrift, drift_ops))
    nruns = sum(x['cov']['runs'] for x in runs)
    log('C20: %d concurrent runs (%d under TSan), %d answers compared, %d TSan reports, %d trace failures, model checking %s, %.0fs' %
        (nruns, sum(x['cov']['runs'] for x in runs if x['variant'] == 'tsan'), nchk, sum(x['tsan_reports'] for x in runs),
         sum(len(x['val']['bads']) for x in runs), [(m['name'], m['states']) for m in mc_results], time.time() - t0))
    plain = [x for x in runs if x['variant'] == 'plain']
    conc_by_mesh = {}
    for x in plain:
        conc_by_mesh.setdefault(x['cov']['mesh'], set()).update(x['cov']['conc'])
    cov = dict(evaluations=nchk,
               distinct_nontrivial=sum(len(v) for v in conc_by_mesh.values()),
               rule=('TLC derives from the logged projection of every catalogue mesh the alphabet of const queries (every query with every '
                     'in-contract argument over the live entities) and per-thread programs: "rot" cases in which each of the T threads runs the '
                     'whole alphabet from a different offset, and seeded random programs. evaluations = answers compared by the trace spec '
                     '(every answer of every thread in the first and last repetition, and the single-threaded answers before/after). '
                     'distinct_nontrivial = distinct (mesh, query) pairs that at least two threads of one run executed and whose answer is a '
                     'non-empty list, counted from the recorded plain-build traces.'),
               samples=[x['cov']['sample'] for x in plain if x['cov']['sample']][:3],
               meshes=gen_info, concurrent_runs=nruns, thread_counts=sorted({t for g in gen_info.values() for t in g['threads']}),
               tsan=dict(runs=sum(x['cov']['runs'] for x in runs if x['variant'] == 'tsan'), reports=sum(x['tsan_reports'] for x in runs),
                         options=TSAN_ENV['TSAN_OPTIONS']),
               model_checking=mc_results, states=sum(m['states'] for m in mc_results if m['hazard'] == 'none'),
               transitions=sum(m['transitions'] for m in mc_results if m['hazard'] == 'none'),
               traces_validated_against_impl=nruns, drift_answers=ndrift, drift_ops=drift_ops, known_findings_seen=nknown)
    (vlib.write_evidence if not (os.environ.get('VERIF_SELFTEST') or replay or vlib.REPO != '/repo') else (lambda *a: None))('C20', tier, seed, 'exploration', cov, time.time() - t0, len(seen),
                        ['data-race freedom is OBSERVED by ThreadSanitizer (gcc libtsan) while the generated programs run; it is not derived from the specification',
                         'TLC and the CommunityModules JSON bridge are trusted; the executor\'s projection (harness/ovm_state.hh dump_state + positions + reader properties) is trusted',
                         'the interleavings that actually occur are chosen by the OS scheduler; TLC explores all interleavings of the MODEL only',
                         'property creation / destruction on a const mesh is excluded by the property statement and never executed concurrently'])
    if rc == 0 and not os.environ.get('VERIF_KEEP'):
        shutil.rmtree(work, ignore_errors=True)
    return rc


# =====================================================================  main
def main():
    import argparse
    ap = argparse.ArgumentParser()
    ap.add_argument('prop')
    ap.add_argument('--tier', default=os.environ.get('VERIF_TIER', 'quick'))
    ap.add_argument('--replay')
    a = ap.parse_args()
    seed = int(os.environ.get('VERIF_SEED', '1'))
    try:
        if a.prop == 'C19':
            sys.exit(run_c19(a.tier, seed, a.replay))
        if a.prop == 'C20':
            sys.exit(run_c20(a.tier, seed, a.replay))
        print('unknown property ' + a.prop, file=sys.stderr)
        sys.exit(2)
    except MachineryError as e:
        print('MACHINERY-ERROR: %s' % e, file=sys.stderr)
        sys.exit(2)


if __name__ == '__main__':
    main()
