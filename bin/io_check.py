#!/usr/bin/env python3
"""Checks of the file-format properties C06, C07, C18.

All verdicts are taken by TLC from spec/OVMB.tla, spec/OVMAscii.tla:
  G  spec/OVMBGen.tla generates, from the meshes / files the real writer
     produced, the alternative encodings the format description permits
     (C06) and the field-aware corruptions (C07, C18), and checks the codec
     theorems (Encode/Parse, every strict prefix invalid) while doing so;
  M  spec/OVMBMachine.tla model-checks the chunk-level reader machine with a
     StreamFail action;
  F  harness/io_exec performs the writes / reads on the real library
     (sanitizer build for C07), fork per input, timeout, allocation cap;
  V  spec/OVMIOTrace.tla validates every recorded write / read / round trip.
Python only moves files between the tools, applies the byte edits TLC
emitted, counts, and writes the evidence.
"""
import hashlib, json, os, random, re, shutil, struct, subprocess, sys, time
from concurrent.futures import ThreadPoolExecutor
import vlib
from vlib import log, MachineryError

JAVA = ['java', '-XX:+UseSerialGC', '-Xss64m', '-Xmx6g', '-cp', vlib.JAR, 'tlc2.TLC']
NPAR = max(2, min(vlib.NCPU, int(os.environ.get('VERIF_JOBS', '12'))))
TESTFILES = os.path.join(vlib.REPO, 'src', 'Unittests', 'TestFiles')


# ------------------------------------------------------------------ corpus (inputs only, no expectations)
def dbits(x):
    return '%016x' % struct.unpack('<Q', struct.pack('<d', x))[0]


def hx(b):
    return b.hex() if b else '-'


class Mesh:
    """A mesh description for io_exec: plain input data."""
    def __init__(self, name, mtype='poly', exact=True, tcok=False):
        self.name, self.mtype, self.lines, self.exact, self.tcok = name, mtype, [], exact, tcok
        self.nv = self.ne = self.nf = self.nc = 0
        self.pending = False

    def v(self, x, y, z):
        self.lines.append('v %s %s %s' % (dbits(x), dbits(y), dbits(z))); self.nv += 1; return self.nv - 1

    def e(self, a, b):
        self.lines.append('e %d %d' % (a, b)); self.ne += 1; return self.ne - 1

    def f(self, hes):
        self.lines.append('f %d %s' % (len(hes), ' '.join(map(str, hes)))); self.nf += 1; return self.nf - 1

    def c(self, hfs):
        self.lines.append('c %d %s' % (len(hfs), ' '.join(map(str, hfs)))); self.nc += 1; return self.nc - 1

    def tet(self, vs):
        self.lines.append('t %s' % ' '.join(map(str, vs)))

    def hexc(self, vs):
        self.lines.append('x %s' % ' '.join(map(str, vs)))

    def prop(self, kind, typ, name, default, vals):
        self.lines.append('p %s %s %s %s %d %s' % (kind, typ, hx(name), hx(default), len(vals), ' '.join(hx(v) for v in vals)))

    def delete(self, kind, idx):
        self.lines.append('D %s %d' % (kind, idx)); self.pending = True

    def text(self):
        return 'M %s %s\n%s\n.\n' % (self.name, self.mtype, '\n'.join(self.lines))

    def count(self, kind):
        return dict(V=self.nv, E=self.ne, F=self.nf, C=self.nc, HE=2 * self.ne, HF=2 * self.nf, M=1)[kind]


def add_tet(m, base=0, off=(0.0, 0.0, 0.0)):
    """one tetrahedron through halfedge lists (closed, passes the topology check)"""
    vs = [m.v(off[0] + p[0], off[1] + p[1], off[2] + p[2]) for p in [(0, 0, 0), (1, 0, 0), (0, 1, 0), (0, 0, 1)]]
    e0 = m.ne
    for a, b in [(0, 1), (1, 2), (2, 0), (0, 3), (1, 3), (2, 3)]:
        m.e(vs[a], vs[b])
    h = lambda e, s: 2 * (e0 + e) + s
    f0 = m.nf
    m.f([h(0, 0), h(1, 0), h(2, 0)]); m.f([h(0, 0), h(4, 0), h(3, 1)]); m.f([h(1, 0), h(5, 0), h(4, 1)]); m.f([h(2, 0), h(3, 0), h(5, 1)])
    m.c([2 * f0 + 1, 2 * (f0 + 1), 2 * (f0 + 2), 2 * (f0 + 3)])


def add_hex(m):
    """one hexahedron through halfedge lists"""
    P = [(0, 0, 0), (1, 0, 0), (1, 1, 0), (0, 1, 0), (0, 0, 1), (1, 0, 1), (1, 1, 1), (0, 1, 1)]
    vs = [m.v(*p) for p in P]
    E = {}
    def he(a, b):
        if (a, b) in E: return E[(a, b)]
        if (b, a) in E: return E[(b, a)] ^ 1
        E[(a, b)] = 2 * m.e(vs[a], vs[b]); return E[(a, b)]
    quads = [(0, 3, 2, 1), (4, 5, 6, 7), (0, 1, 5, 4), (1, 2, 6, 5), (2, 3, 7, 6), (3, 0, 4, 7)]
    fs = []
    for q in quads:
        fs.append(m.f([he(q[i], q[(i + 1) % 4]) for i in range(4)]))
    m.c([2 * f for f in fs])


def add_tet_chain(m, n):
    """n face-sharing tetrahedra (tet k on vertices k..k+3) through halfedge / halfface lists:
    3n+3 edges, 3n+1 faces, so that half-entity handles cross an integer width before the entity counts do"""
    for i in range(n + 3):
        m.v(i, 0.5 * (i % 3), 0.25 * (i % 5))
    E, F = {}, {}
    def he(a, b):
        if (a, b) in E: return E[(a, b)]
        if (b, a) in E: return E[(b, a)] ^ 1
        E[(a, b)] = 2 * m.e(a, b); return E[(a, b)]
    def hf(t):
        key = frozenset(t)
        if key in F:
            f, s = F[key]
            same = any(tuple(s[(i + r) % 3] for i in range(3)) == t for r in range(3))
            return 2 * f + (0 if same else 1)
        f = m.f([he(t[i], t[(i + 1) % 3]) for i in range(3)])
        F[key] = (f, t); return 2 * f
    for k in range(n):
        a, b, c, d = k, k + 1, k + 2, k + 3
        m.c([hf((a, b, c)), hf((a, c, d)), hf((a, d, b)), hf((b, d, c))])


def half_entity_props(m):
    m.prop('HE', 'bool', b'he_flag', b'\0', [bytes([(i // 5) % 2]) for i in range(2 * m.ne)])
    m.prop('HE', 'int32', b'he_id', I32(-1), [I32(i) for i in range(2 * m.ne)])
    m.prop('HF', 'int32', b'hf_id', I32(-1), [I32(3 * i) for i in range(2 * m.nf)])
    m.prop('HF', 'bool', b'hf_flag', b'\1', [bytes([i % 3 % 2]) for i in range(2 * m.nf)])
    m.prop('C', 'HFH', b'c_first_hf', I32(-1), [I32(2 * i + 1) for i in range(m.nc)])


I32 = lambda v: struct.pack('<i', v)
TYPE_SAMPLES = {
    # tag: (default, value(i)) as canonical bytes
    'bool': (b'\0', lambda i: bytes([(i * 7 + 1) % 3 % 2])),
    'int8': (struct.pack('<b', -3), lambda i: struct.pack('<b', [-128, 127, 0, -1, 5][i % 5])),
    'uint8': (b'\x07', lambda i: bytes([[0, 255, 128, 33, 65][i % 5]])),
    'int16': (struct.pack('<h', -300), lambda i: struct.pack('<h', [-32768, 32767, 0, -1, 1000][i % 5])),
    'uint16': (struct.pack('<H', 7), lambda i: struct.pack('<H', [0, 65535, 256, 255, 1][i % 5])),
    'int32': (I32(-7), lambda i: I32([-2 ** 31, 2 ** 31 - 1, 0, -1, 100000][i % 5])),
    'uint32': (struct.pack('<I', 9), lambda i: struct.pack('<I', [0, 2 ** 32 - 1, 2 ** 31, 65536, 3][i % 5])),
    'int64': (struct.pack('<q', -11), lambda i: struct.pack('<q', [-2 ** 63, 2 ** 63 - 1, 0, -1, 2 ** 32][i % 5])),
    'uint64': (struct.pack('<Q', 13), lambda i: struct.pack('<Q', [0, 2 ** 64 - 1, 2 ** 63, 2 ** 32, 5][i % 5])),
    'float': (struct.pack('<f', -0.5), lambda i: struct.pack('<f', [0.0, 1.5, -2.25, 1024.0, 0.125][i % 5])),
    'double': (struct.pack('<d', 0.25), lambda i: struct.pack('<d', [0.0, -1.5, 2.75, 65536.0, 0.0625][i % 5])),
    'string': (b'dflt', lambda i: [b'', b'a', b'hello world', b'x\ny', b'"q" #', b' lead'][i % 6]),
    'VH': (I32(-1), lambda i: I32(i % 3 - 1)), 'EH': (I32(-1), lambda i: I32(i)), 'HEH': (I32(-1), lambda i: I32(2 * i + 1)),
    'FH': (I32(-1), lambda i: I32(i % 2)), 'HFH': (I32(-1), lambda i: I32(i)), 'CH': (I32(-1), lambda i: I32(-1 if i % 2 else 0)),
    'char': (b'd', lambda i: bytes([[65, 122, 48, 35, 126][i % 5]])),
}
for n in (2, 3, 4):
    TYPE_SAMPLES['Vec%dd' % n] = (struct.pack('<%dd' % n, *([9.0] * n)), lambda i, n=n: struct.pack('<%dd' % n, *[i + 0.5 * k for k in range(n)]))
    TYPE_SAMPLES['Vec%df' % n] = (struct.pack('<%df' % n, *([1.0] * n)), lambda i, n=n: struct.pack('<%df' % n, *[-i + 0.25 * k for k in range(n)]))
    TYPE_SAMPLES['Vec%dui' % n] = (struct.pack('<%dI' % n, *([3] * n)), lambda i, n=n: struct.pack('<%dI' % n, *[(i * 1000003 + k) % 2 ** 32 for k in range(n)]))
    TYPE_SAMPLES['Vec%di' % n] = (struct.pack('<%di' % n, *([-3] * n)), lambda i, n=n: struct.pack('<%di' % n, *[(-1) ** k * (i + k) for k in range(n)]))
OVMB_TYPES = ['bool', 'uint8', 'uint16', 'uint32', 'uint64', 'int8', 'int16', 'int32', 'int64', 'float', 'double', 'string',
              'VH', 'EH', 'HEH', 'FH', 'HFH', 'CH'] + ['Vec%d%s' % (n, t) for n in (2, 3, 4) for t in ('d', 'f', 'ui', 'i')]
ASCII_TYPES = ['int32', 'uint32', 'int16', 'int64', 'uint64', 'char', 'uint8', 'bool', 'float', 'double', 'string'] + \
              ['Vec%d%s' % (n, t) for n in (2, 3, 4) for t in ('d', 'f', 'ui', 'i')]
KINDS = ['V', 'E', 'HE', 'F', 'HF', 'C', 'M']


def vecvals(cnt_bytes_list):
    return cnt_bytes_list


def add_props(m, types, kinds, tagname=''):
    k = 0
    for t in types:
        kind = kinds[k % len(kinds)]; k += 1
        d, f = TYPE_SAMPLES[t]
        n = m.count(kind)
        m.prop(kind, t, ('%s_%s%s' % (t, kind, tagname)).encode(), d, [f(i) for i in range(n)])


def composite_props(m):
    """ASCII-only container types"""
    n = m.nv
    u32 = lambda x: struct.pack('<I', x)
    m.prop('V', 'vector_double', b'vd', u32(0), [u32(i % 3) + b''.join(struct.pack('<d', 0.5 * j) for j in range(i % 3)) for i in range(n)])
    m.prop('V', 'vector_VH', b'vvh', u32(0), [u32(2) + I32(i) + I32(-1) for i in range(n)])
    m.prop('M', 'vector_HFH', b'mhf', u32(0), [u32(3) + I32(0) + I32(1) + I32(5)])
    m.prop('M', 'vector_vector_HFH', b'mvv', u32(0), [u32(2) + u32(1) + I32(4) + u32(2) + I32(0) + I32(1)])
    m.prop('M', 'map_HEH_int', b'mmap', u32(0), [u32(2) + I32(1) + I32(10) + I32(4) + I32(-3)])


def corpus(tier, seed):
    """The meshes every check starts from.  Small on purpose: the format
    specification decodes every byte of every file written for them."""
    rnd = random.Random(seed)
    ms = []
    m = Mesh('empty', tcok=True); ms.append(m)
    m = Mesh('verts', tcok=True); [m.v(i, -i, 0.5 * i) for i in range(3)]; ms.append(m)
    m = Mesh('edges', tcok=True); [m.v(i, 0, 0) for i in range(4)]; m.e(0, 1); m.e(2, 3); m.e(1, 2); ms.append(m)
    # valence-2 faces, mixed valences, a face without cell, an open face chain (fails the topology check)
    m = Mesh('mixed'); [m.v(i % 2, i // 2, 0.25 * i) for i in range(5)]
    m.e(0, 1); m.e(1, 2); m.e(2, 0); m.e(2, 3); m.e(3, 0); m.e(3, 4)
    m.f([0, 1]); m.f([0, 2, 4]); m.f([5, 6, 8, 3]); m.f([10, 0, 2]); m.c([0, 2]); m.c([1, 3, 4]); ms.append(m)
    m = Mesh('tet1', tcok=True); add_tet(m); ms.append(m)
    m = Mesh('tet1p', tcok=True); add_tet(m)
    add_props(m, ['int32', 'bool', 'string', 'Vec3d', 'double', 'uint8', 'HFH'], KINDS)
    ms.append(m)
    m = Mesh('hex1', tcok=True); add_hex(m); add_props(m, ['float', 'bool', 'int64', 'Vec2i'], ['C', 'HF', 'E', 'M']); ms.append(m)
    m = Mesh('tet2', tcok=True); add_tet(m); add_tet(m, off=(2.0, 0.0, 0.5)); m.prop('C', 'uint16', b'cid', b'\0\0', [b'\x01\x00', b'\xff\xff']); ms.append(m)
    # typed meshes
    m = Mesh('ttet', 'tet', tcok=True); [m.v(*p) for p in [(0, 0, 0), (1, 0, 0), (0, 1, 0), (0, 0, 1), (1, 1, 1)]]; m.tet([0, 1, 2, 3]); m.tet([1, 2, 3, 4])
    m.nf, m.ne, m.nc = 7, 9, 2
    add_props(m, ['int32', 'Vec3f'], ['V', 'C']); ms.append(m)
    m = Mesh('thex', 'hex', tcok=True)
    for z in range(3):
        for p in [(0, 0), (1, 0), (1, 1), (0, 1)]:
            m.v(p[0], p[1], z)
    m.hexc([0, 1, 2, 3, 4, 7, 6, 5]); m.hexc([4, 5, 6, 7, 8, 11, 10, 9])
    m.nf, m.ne, m.nc = 11, 20, 2
    add_props(m, ['bool', 'double'], ['F', 'C']); ms.append(m)
    # every OVMB codec on every entity kind (rotating), every ASCII type name
    m = Mesh('alltypes', tcok=True); add_tet(m); add_props(m, OVMB_TYPES, KINDS); ms.append(m)
    m = Mesh('alltypes2', tcok=True); add_tet(m); add_props(m, OVMB_TYPES, KINDS[3:] + KINDS[:3], 'b'); ms.append(m)
    m = Mesh('asciitypes', tcok=True); add_tet(m); add_props(m, ASCII_TYPES, KINDS); composite_props(m); ms.append(m)
    m = Mesh('asciichar_ws', tcok=True); [m.v(i, 0, 0) for i in range(3)]
    m.prop('V', 'char', b'cws', b'd', [b'A', b' ', b'B']); m.prop('V', 'int32', b'after', I32(0), [I32(5), I32(6), I32(7)]); ms.append(m)
    m = Mesh('names', tcok=True); [m.v(i, 1, 0) for i in range(2)]
    m.prop('V', 'int32', b'my prop', I32(0), [I32(1), I32(2)]); m.prop('M', 'double', b'Mesh Weight #1', struct.pack('<d', 0.0), [struct.pack('<d', 2.5)]); ms.append(m)
    # bool packing across byte boundaries: 8, 9, 16, 17 elements
    m = Mesh('bools', tcok=True); [m.v(i, 0, 0) for i in range(9)]
    for i in range(8): m.e(i, i + 1)
    m.prop('V', 'bool', b'b9', b'\1', [bytes([i % 2]) for i in range(9)]); m.prop('E', 'bool', b'b8', b'\0', [bytes([1 - i % 2]) for i in range(8)])
    m.prop('HE', 'bool', b'b16', b'\0', [bytes([(i // 3) % 2]) for i in range(16)]); ms.append(m)
    # seeded random soups (no topology check on construction)
    nrand = 3 if tier == 'quick' else 12
    for r in range(nrand):
        m = Mesh('rand%d' % r, exact=True)
        nv = rnd.randint(1, 6)
        for i in range(nv): m.v(rnd.randint(-4, 4) * 0.5, rnd.randint(-4, 4) * 0.25, rnd.randint(0, 3))
        for i in range(rnd.randint(0, 6)): m.e(rnd.randrange(nv), rnd.randrange(nv))
        if m.ne:
            for i in range(rnd.randint(0, 4)): m.f([rnd.randrange(2 * m.ne) for _ in range(rnd.randint(1, 5))])
        if m.nf:
            for i in range(rnd.randint(0, 3)): m.c([rnd.randrange(2 * m.nf) for _ in range(rnd.randint(1, 5))])
        add_props(m, rnd.sample(OVMB_TYPES, 3), rnd.sample(KINDS, 3))
        ms.append(m)
    return ms


def dangle(m, k):
    """a k-gon on fresh vertices that belongs to no cell"""
    vs = [m.v(5 + i, -2, 0.5 * i) for i in range(k)]
    es = [m.e(vs[i], vs[(i + 1) % k]) for i in range(k)]
    m.f([2 * e for e in es])


def typedetect_corpus():
    """meshes that separate the cases of the automatic topology type detection: the type depends on ALL
    faces and ALL cells of the mesh and needs at least one cell"""
    ms = []
    m = Mesh('td_hex_tri', tcok=True); add_hex(m); dangle(m, 3); ms.append(m)
    m = Mesh('td_hex_pent', tcok=True); add_hex(m); dangle(m, 5); ms.append(m)
    m = Mesh('td_hex_quad', tcok=True); add_hex(m); dangle(m, 4); ms.append(m)
    m = Mesh('td_tet_quad', tcok=True); add_tet(m); dangle(m, 4); ms.append(m)
    m = Mesh('td_tet_2gon', tcok=True); add_tet(m); dangle(m, 2); ms.append(m)
    m = Mesh('td_tet_tri', tcok=True); add_tet(m); dangle(m, 3); ms.append(m)
    m = Mesh('td_hex_tet', tcok=True); add_hex(m); add_tet(m, off=(3.0, 0.0, 0.0)); ms.append(m)
    m = Mesh('td_quads_nocell', tcok=True); dangle(m, 4); dangle(m, 4); ms.append(m)
    m = Mesh('td_tris_nocell', tcok=True); dangle(m, 3); ms.append(m)
    return ms


def valence_corpus(tier):
    """largest face / cell valence at an integer-width boundary: the valence width is chosen from the largest
    VALENCE VALUE of a chunk (255 fits one byte, 256 does not), unlike the handle widths, which follow counts"""
    ms = []
    def ring(m, n):
        vs = [m.v(i % 16, i // 16, 0.5 * (i % 3)) for i in range(n)]
        es = [m.e(vs[i], vs[(i + 1) % n]) for i in range(n)]
        return vs, es
    sizes = [255, 256, 257] + ([65535, 65536, 65537] if tier == 'thorough' else [])
    for n in sizes:
        m = Mesh('fval%d' % n, tcok=True)
        vs, es = ring(m, n)
        m.f([2 * e for e in es]); m.f([2 * es[0], 2 * es[1], 2 * m.e(vs[2], vs[0])])      # one n-gon, one triangle
        ms.append(m)
    m = Mesh('fval256u', tcok=True)                      # every face a 256-gon: uniform, but not expressible as a fixed valence
    vs, es = ring(m, 256); m.f([2 * e for e in es]); m.f([2 * e + 1 for e in reversed(es)]); ms.append(m)
    for n in [255, 256, 257]:
        m = Mesh('cval%d' % n)
        vs = [m.v(i, 0, 0) for i in range(131)]
        es = [m.e(vs[i], vs[i + 1]) for i in range(130)]
        for i in range(129): m.f([2 * es[i], 2 * es[i + 1]])
        m.c(list(range(n))); m.c([0, 3, 4])             # a cell of n halffaces and a small one (no topology check on construction)
        m.prop('C', 'int32', b'cv', I32(-1), [I32(n), I32(3)])
        ms.append(m)
    m = Mesh('cval256u'); vs = [m.v(i, 0, 0) for i in range(131)]; es = [m.e(vs[i], vs[i + 1]) for i in range(130)]
    for i in range(129): m.f([2 * es[i], 2 * es[i + 1]])
    m.c(list(range(256))); ms.append(m)
    return ms


def emptykind_corpus():
    """persistent properties on entity kinds that have no entities, followed in directory order by a non-empty
    property (kinds are nested, so the follower is a mesh property): empty mesh, vertices only, edges only, surface"""
    ms = []
    def props(m, empty_kinds, full_kinds):
        types = ['int32', 'bool', 'string', 'double', 'Vec3d', 'uint8']
        for i, k in enumerate(empty_kinds):
            d, f = TYPE_SAMPLES[types[i % len(types)]]
            m.prop(k, types[i % len(types)], ('zero_%s' % k).encode(), d, [])
        for i, k in enumerate(full_kinds):
            t = types[(i + 2) % len(types)]
            d, f = TYPE_SAMPLES[t]
            m.prop(k, t, ('full_%s' % k).encode(), d, [f(j + 1) for j in range(m.count(k))])
        d, f = TYPE_SAMPLES['int32']
        m.prop('M', 'int32', b'after_1', d, [I32(41)]); m.prop('M', 'string', b'after_2', b'dflt', [b'last'])
    m = Mesh('pz_empty', tcok=True); props(m, ['V', 'E', 'HE', 'F', 'HF', 'C'], []); ms.append(m)
    m = Mesh('pz_verts', tcok=True); [m.v(i, 1, 2) for i in range(3)]; props(m, ['E', 'HE', 'F', 'HF', 'C'], ['V']); ms.append(m)
    m = Mesh('pz_edges', tcok=True); [m.v(i, 1, 2) for i in range(3)]; m.e(0, 1); m.e(1, 2); props(m, ['F', 'HF', 'C'], ['V', 'E', 'HE']); ms.append(m)
    m = Mesh('pz_surface', tcok=True); [m.v(i, i * i, 2) for i in range(3)]; m.e(0, 1); m.e(1, 2); m.e(2, 0); m.f([0, 2, 4])
    props(m, ['C'], ['V', 'E', 'HE', 'F', 'HF']); ms.append(m)
    for k in ['V', 'E', 'HE', 'F', 'HF', 'C']:          # one empty kind at a time on the empty mesh
        m = Mesh('pz_only_%s' % k, tcok=True); props(m, [k], []); ms.append(m)
    return ms


def width_corpus(tier):
    """index-width boundaries per referencing relation: the entity count is still below a boundary while
    the half-entity handles stored one level up are beyond it, and both beyond it; polyhedral and
    tetrahedral mesh types; properties on the half-entities"""
    ms = []
    sizes = [50, 90] + ([11000, 22000] if tier == 'thorough' else [])       # faces 151 / 271 / 33001 / 66001
    for n in sizes:
        m = Mesh('chain%d' % n, tcok=True); add_tet_chain(m, n); half_entity_props(m); ms.append(m)
    for n in [50] + ([11000] if tier == 'thorough' else []):
        m = Mesh('tchain%d' % n, 'tet', tcok=True)
        for i in range(n + 3): m.v(i, 0.5 * (i % 3), 0.25 * (i % 5))
        for k in range(n): m.tet([k, k + 1, k + 2, k + 3])
        m.ne, m.nf, m.nc = 3 * n + 3, 3 * n + 1, n
        half_entity_props(m); ms.append(m)
    # faces over halfedge handles >= 256 with 128..255 edges and no cells; cells over few faces
    m = Mesh('fan140'); [m.v(i, i % 2, 0) for i in range(141)]
    for i in range(140): m.e(i, i + 1)
    for i in range(0, 138, 2): m.f([2 * i, 2 * (i + 1), 2 * (139 - i) + 1])
    m.c([2 * (m.nf - 1) + 1, 0, 2 * (m.nf - 2)]); half_entity_props(m); ms.append(m)
    return ms


def big_corpus(tier):
    """index-width boundaries: 255/256 (quick) and 65535/65536 (thorough) entities, as vertex/edge soups"""
    ms = []
    sizes = [255, 256, 257] + ([65535, 65536, 65537] if tier == 'thorough' else [])
    for n in sizes:
        m = Mesh('soup%d' % n)
        for i in range(n): m.v(i, 0.5 * (i % 7), -(i % 3))
        for i in range(n): m.e(i, (i * 7 + 1) % n)
        # faces over many edges so that halfedge handles cross the width boundary as well
        for i in range(0, n - 3, max(1, n // 64)): m.f([2 * i, 2 * (i + 1) + 1, 2 * (n - 1 - i)])
        for i in range(0, m.nf - 1, 2): m.c([2 * i, 2 * i + 3])
        m.prop('E', 'int32', b'eid', I32(-1), [I32(i) for i in range(n)])
        ms.append(m)
    return ms


def pending_corpus():
    ms = []
    m = Mesh('pend_v'); [m.v(i, 0, 0) for i in range(4)]; m.e(0, 1); m.e(2, 3); m.prop('V', 'int32', b'id', I32(-1), [I32(10 * i) for i in range(4)]); m.delete('V', 1); ms.append(m)
    m = Mesh('pend_c'); add_tet(m); add_tet(m, off=(3, 0, 0)); m.delete('C', 0); ms.append(m)
    m = Mesh('pend_f'); add_tet(m); m.delete('F', 1); ms.append(m)
    return ms


# ------------------------------------------------------------------ tools
def shard(items, n):
    n = max(1, min(n, len(items)))
    return [items[i::n] for i in range(n)]


def run_exec(variant, meshdefs, jobs, work, tag, timeout_ms=10000, par=None):
    """Run job lines on io_exec, sharded.  Returns the list of output records (dicts), in job order."""
    binary = vlib.exe(variant, 'io_exec')
    shards = shard(jobs, par or NPAR)
    def one(i):
        jp = os.path.join(work, '%s-%03d.jobs' % (tag, i))
        op = jp[:-5] + '.out'
        with open(jp, 'w') as f:
            f.write('O timeout_ms=%d\n' % timeout_ms)
            f.write(meshdefs)
            f.write('\n'.join(shards[i]) + '\n')
        with open(op, 'w') as fo, open(op + '.err', 'w') as fe:
            try:
                r = subprocess.run([binary, jp], stdout=fo, stderr=fe, timeout=3600)
                rc = r.returncode
            except subprocess.TimeoutExpired:
                rc = 124
        lines = open(op).read().splitlines()
        if rc != 0 or not lines or '"e":"end"' not in lines[-1]:
            raise MachineryError('io_exec failed (rc %s) on %s: %s' % (rc, jp, open(op + '.err').read()[-1500:]))
        return lines[:-1]
    with ThreadPoolExecutor(max_workers=len(shards)) as ex:
        outs = list(ex.map(one, range(len(shards))))
    recs = {}
    for lines in outs:
        for ln in lines:
            m = re.match(r'\{"e":"\w+","j":(-?\d+)', ln)
            if not m:
                raise MachineryError('unparseable io_exec line: ' + ln[:200])
            recs.setdefault(int(m.group(1)), []).append(ln)
    return recs


def run_gen(mode, corpus_path, work, pairs=False, max_prefix=0, timeout=3600):
    cfg = os.path.join(work, 'gen-%s-%s.cfg' % (mode, hashlib.md5(corpus_path.encode()).hexdigest()[:8]))
    open(cfg, 'w').write('SPECIFICATION Spec\nCONSTANTS\n Mode = "%s"\n MaxPrefixLen = %d\n Pairs = %s\nINVARIANT Done\nCHECK_DEADLOCK FALSE\n'
                         % (mode, max_prefix, 'TRUE' if pairs else 'FALSE'))
    meta = cfg + '.meta'
    env = dict(os.environ, CORPUS=corpus_path)
    t0 = time.time()
    try:
        r = subprocess.run(JAVA + ['-workers', '1', '-metadir', meta, '-noGenerateSpecTE', '-config', cfg, 'OVMBGen.tla'],
                           cwd=vlib.SPEC, env=env, stdout=subprocess.PIPE, stderr=subprocess.STDOUT, text=True, timeout=timeout)
    except subprocess.TimeoutExpired:
        raise MachineryError('generator timeout (%s) on %s' % (mode, corpus_path))
    finally:
        shutil.rmtree(meta, ignore_errors=True)
    out = dict(enc=[], mut=[], bad=[], stat=[], done=False, wall=time.time() - t0)
    for line in r.stdout.splitlines():
        if line.startswith('<<"ENC"'):
            out['enc'].append(json.loads(vlib._payload(line, 'ENC')))
        elif line.startswith('<<"MUT"'):
            out['mut'].append(json.loads(vlib._payload(line, 'MUT')))
        elif line.startswith('<<"GENBAD"'):
            out['bad'].append(line)
        elif line.startswith('<<"GENSTAT"'):
            m = re.match(r'<<"GENSTAT", (\d+), "(\w+)", (\d+)>>', line)
            out['stat'].append((int(m.group(1)), m.group(2), int(m.group(3))))
        elif line.startswith('<<"GENDONE"'):
            out['done'] = True
    if r.returncode != 0 or not out['done']:
        raise MachineryError('generator failed (exit %d, mode %s):\n%s' % (r.returncode, mode, r.stdout[-3000:]))
    # TLC wraps long tuples over several lines: failed theorems are collected from the whole output, and the
    # number of parsed files / edits is cross-checked with the cardinalities the generator printed
    out['bad'] = [re.sub(r'\s+', ' ', m.group(0)) for m in re.finditer(r'<<\s*"GENBAD".*?>>', r.stdout, re.S)]
    want = dict(enc=sum(n for _, w, n in out['stat'] if w == 'encodings'), mut=sum(n for _, w, n in out['stat'] if w == 'mutants'))
    if len(out['enc']) != want['enc'] or len(out['mut']) != want['mut']:
        raise MachineryError('generator output not understood (mode %s): parsed %d ENC / %d MUT, generator counted %d / %d'
                             % (mode, len(out['enc']), len(out['mut']), want['enc'], want['mut']))
    return out


def run_validate(trace_path, props, work, timeout=3600):
    cfg = trace_path + '.cfg'
    open(cfg, 'w').write('SPECIFICATION TSpec\nCONSTANT Props = %s\nINVARIANT Done\nCHECK_DEADLOCK FALSE\n' % vlib.tla_set(props))
    meta = trace_path + '.meta'
    env = dict(os.environ, TRACE=trace_path)
    t0 = time.time()
    try:
        r = subprocess.run(JAVA + ['-workers', '1', '-metadir', meta, '-noGenerateSpecTE', '-config', cfg, 'OVMIOTrace.tla'],
                           cwd=vlib.SPEC, env=env, stdout=subprocess.PIPE, stderr=subprocess.STDOUT, text=True, timeout=timeout)
    except subprocess.TimeoutExpired:
        raise MachineryError('validator timeout on ' + trace_path)
    finally:
        shutil.rmtree(meta, ignore_errors=True)
    bads, classes, done = [], {}, None
    # TLC wraps a tuple that does not fit into 80 columns over several lines: match on the whole output
    for m in re.finditer(r'<<\s*"VXBAD",\s*(\d+),\s*(-?\d+),\s*"(.*?)"\s*>>', r.stdout, re.S):
        bads.append(dict(line=int(m.group(1)), j=int(m.group(2)), msg=m.group(3)))
    for m in re.finditer(r'<<\s*"VXC",\s*(\d+),\s*(-?\d+),\s*"(.*?)"\s*>>', r.stdout, re.S):
        classes[int(m.group(1))] = m.group(3)
    m = re.search(r'<<\s*"VXDONE",\s*(\d+),\s*(\d+),\s*(\d+)\s*>>', r.stdout)
    if m:
        done = dict(lines=int(m.group(1)), checked=int(m.group(2)), bad=int(m.group(3)))
    if done is not None and (done['bad'] != len(bads) or done['checked'] != len(classes)):
        raise MachineryError('validator output not understood on %s: %d VXBAD / %d VXC lines parsed, VXDONE says %d / %d'
                             % (trace_path, len(bads), len(classes), done['bad'], done['checked']))
    if r.returncode != 0 or done is None:
        raise MachineryError('validator failed (exit %d) on %s:\n%s' % (r.returncode, trace_path, r.stdout[-3000:]))
    return dict(bads=bads, classes=classes, done=done, wall=time.time() - t0)


def validate_lines(groups, props, work, tag):
    """groups: list of lists of ndjson lines; a group is never split (its "ref" fields are
    group-relative, 1-based).  Returns per original (group, index) the verdicts."""
    # pack groups into shards of bounded size
    total = sum(sum(len(x) for x in g) for g in groups)
    target = max(400_000, min(8_000_000, total // (2 * NPAR) + 1))
    shards, cur, cursz = [], [], 0
    for g in groups:
        sz = sum(len(x) for x in g)
        if cur and cursz + sz > target:
            shards.append(cur); cur, cursz = [], 0
        cur.append(g); cursz += sz
    if cur:
        shards.append(cur)
    t0 = time.time()
    def one(i):
        p = os.path.join(work, '%s-%03d.ndjson' % (tag, i))
        index = []
        with open(p, 'w') as f:
            n = 0
            for gi, g in enumerate(shards[i]):
                base = n
                for k, ln in enumerate(g):
                    if '"ref":' in ln:
                        ln = re.sub(r'"ref":(\d+)', lambda mm: '"ref":%d' % (base + int(mm.group(1))), ln)
                    f.write(ln + '\n'); n += 1
                    index.append((gi, k))
        v = run_validate(p, props, work)
        return p, index, v
    with ThreadPoolExecutor(max_workers=NPAR) as ex:
        res = list(ex.map(one, range(len(shards))))
    log('validated %d lines (%.1f MB) in %d shards: %.0fs' % (sum(len(g) for g in groups), total / 1e6, len(shards), time.time() - t0))
    bads, classes, checked = [], {}, 0
    for p, index, v in res:
        checked += v['done']['checked']
        for b in v['bads']:
            bads.append(dict(b, trace=p))
        for ln, c in v['classes'].items():
            classes[c] = classes.get(c, 0) + 1
    return dict(bads=bads, classes=classes, checked=checked, shards=[r[0] for r in res])


def apply_edit(b, e):
    at = e['at'] - 1
    return b[:at] + bytes(e['ins']) + b[at + e['del']:]


def add_field(line, extra):
    return line[:-1] + ',' + json.dumps(extra, separators=(',', ':'))[1:]


# ------------------------------------------------------------------ findings
def line_of(trace, n):
    with open(trace) as f:
        for i, l in enumerate(f, 1):
            if i == n:
                return l.rstrip('\n')
    return ''


def signature(rec, msg):
    """What a known finding is matched on: the check message plus facts of the input that the
    executor recorded (never a verdict of its own)."""
    return dict(msg=msg.split(':')[0] + ':' + msg.split(':')[1] if ':' in msg else msg,
                fmt=rec.get('fmt', ''), e=rec.get('e', ''))


def match_known(prop, sig, full_msg, known):
    for k in known:
        if k.get('status') != 'open' or k.get('property') != prop:
            continue
        m = k.get('match', {})
        ok = True
        for a, b in m.items():
            if a == 'msg_prefix':
                ok = ok and full_msg.startswith(b)
            else:
                ok = ok and sig.get(a) == b
        if ok and m:
            return k
    return None


def write_replay(prop, rec_line, meshdefs, msg, jobline):
    os.makedirs(os.path.join(vlib.RUN, 'replay'), exist_ok=True)
    txt = '# %s %s\n' % (prop, msg)
    if jobline.split()[0] in ('W', 'T'):
        name = jobline.split()[2]
        m = re.search(r'^M %s .*?^\.$' % re.escape(name), meshdefs, re.S | re.M)
        txt += (m.group(0) if m else meshdefs) + '\n'
    if rec_line.get('must'):
        txt += '#MUST\n'
    if rec_line.get('exact'):
        txt += '#EXACT\n'
    txt += jobline + '\n'
    h = hashlib.sha1(txt.encode()).hexdigest()[:12]
    p = os.path.join(vlib.RUN, 'replay', '%s-%s.jobs' % (prop, h))
    open(p, 'w').write(txt)
    return p


class Ctx:
    def __init__(self, prop, tier, seed, work, variant):
        self.prop, self.tier, self.seed, self.work, self.variant = prop, tier, seed, work, variant
        self.known = vlib.load_known()
        self.violations, self.known_seen = [], []
        self.classes, self.checked = {}, 0
        self.samples = []

    def collect(self, res, recs_by_j, jobs_by_j, meshdefs):
        self.checked += res['checked']
        for c, n in res['classes'].items():
            self.classes[c] = self.classes.get(c, 0) + n
        for b in res['bads']:
            if not b['msg'].startswith(self.prop + ':'):
                # a check of a sibling property failed while this property was evaluated: only the
                # property under check decides the exit code, the rest is reported in the evidence
                self.classes['other-property:' + b['msg'][:60]] = self.classes.get('other-property:' + b['msg'][:60], 0) + 1
                continue
            rec = json.loads(line_of(b['trace'], b['line']))
            sig = signature(rec, b['msg'])
            k = match_known(self.prop, sig, b['msg'], self.known)
            job = jobs_by_j.get(b['j'], '')
            if k:
                self.known_seen.append((k, b))
            else:
                rp = write_replay(self.prop, rec, meshdefs, b['msg'], job) if job else b['trace']
                self.violations.append(dict(msg=b['msg'], replay=rp, j=b['j'], stderr=rec.get('stderr', '')[-600:]))


# ------------------------------------------------------------------ the checks
def meshdefs_of(ms):
    return ''.join(m.text() for m in ms)


def write_jobs(ms, fmts, start=1):
    jobs, j = [], start
    for m in ms:
        for fmt in fmts:
            jobs.append('W %d %s %s auto -1 0' % (j, m.name, fmt)); j += 1
    return jobs


def read_job(j, fmt, mt, tc, bu, data, failat=-1, failmode=0):
    return 'R %d %s %s %d %d %d %d %s' % (j, fmt, mt, tc, bu, failat, failmode, data.hex() if data else '-')


def load_shipped():
    out = []
    for n in sorted(os.listdir(TESTFILES)):
        p = os.path.join(TESTFILES, n)
        if n.endswith('.ovmb') or n.endswith('.ovm'):
            out.append((n, open(p, 'rb').read()))
    return out


def machine_mc(ctx, cov):
    """role M: the chunk-level reader machine with StreamFail"""
    cfg = os.path.join(ctx.work, 'machine.cfg')
    depth = 6 if ctx.tier == "quick" else 7
    open(cfg, 'w').write('SPECIFICATION Spec\nCONSTANTS\n MaxChunks = %d\nINVARIANT OkOnlyIf\nINVARIANT ErrorIsFinal\nINVARIANT AgreesWithFinish\nINVARIANT DependencyOrder\nCHECK_DEADLOCK FALSE\n' % depth)
    meta = cfg + '.meta'
    t0 = time.time()
    try:
        r = subprocess.run(['java', '-XX:+UseParallelGC', '-Xmx6g', '-cp', vlib.JAR, 'tlc2.TLC', '-workers', str(min(6, vlib.NCPU)), '-metadir', meta,
                            '-noGenerateSpecTE', '-config', cfg, 'OVMBMachine.tla'], cwd=vlib.SPEC, stdout=subprocess.PIPE,
                           stderr=subprocess.STDOUT, text=True, timeout=3000)
    except subprocess.TimeoutExpired:
        raise MachineryError('machine model checking timed out')
    finally:
        shutil.rmtree(meta, ignore_errors=True)
    m = re.search(r'(\d+) states generated, (\d+) distinct states found', r.stdout)
    if r.returncode not in (0, 12) or not m:
        raise MachineryError('TLC failed on OVMBMachine (exit %d):\n%s' % (r.returncode, r.stdout[-3000:]))
    cov['states'] = cov.get('states', 0) + int(m.group(2))
    cov['transitions'] = cov.get('transitions', 0) + int(m.group(1))
    cov['machine'] = dict(depth=depth, generated=int(m.group(1)), distinct=int(m.group(2)), wall_s=round(time.time() - t0, 1))
    if r.returncode == 12:
        p = os.path.join(vlib.RUN, 'replay', '%s-machine.txt' % ctx.prop)
        os.makedirs(os.path.dirname(p), exist_ok=True)
        open(p, 'w').write(r.stdout[-8000:])
        ctx.violations.append(dict(msg=ctx.prop + ':MODEL: reader machine invariant violated', replay=p, j=-1))


def gen_theorems(ctx, cov, corpus_path, max_prefix):
    g = run_gen('thm', corpus_path, ctx.work, max_prefix=max_prefix)
    npre = sum(n for _, what, n in g['stat'] if what == 'prefixes')
    cov['spec_prefix_theorem_files'] = sum(1 for _, what, n in g['stat'] if what == 'prefixes')
    cov['spec_prefixes_checked'] = npre
    cov['states'] = cov.get('states', 0) + npre
    cov['transitions'] = cov.get('transitions', 0) + npre
    for b in g['bad']:
        p = os.path.join(vlib.RUN, 'replay', '%s-theorem-%s.txt' % (ctx.prop, hashlib.sha1(b.encode()).hexdigest()[:8]))
        os.makedirs(os.path.dirname(p), exist_ok=True)
        open(p, 'w').write(b + '\ncorpus: ' + corpus_path + '\n')
        ctx.violations.append(dict(msg=ctx.prop + ':MODEL:' + b[:200], replay=p, j=-1))


def configs_for(tier):
    """(mesh type, topology check, bottom-up incidences) combinations of a read"""
    if tier == 'quick':
        return [('poly', 1, 1), ('poly', 0, 0), ('tet', 1, 0), ('hex', 0, 1)]
    return [(mt, tc, bu) for mt in ('poly', 'tet', 'hex') for tc in (0, 1) for bu in (0, 1)]


def check_c06(ctx, cov):
    ms = corpus(ctx.tier, ctx.seed) + big_corpus(ctx.tier) + width_corpus(ctx.tier) + typedetect_corpus() + valence_corpus(ctx.tier) + emptykind_corpus()
    small = [m for m in ms if not m.name.startswith('soup') and m.nf < 1000 and m.nv + m.ne < 2000 and (ctx.tier == 'thorough' or not m.name.startswith(('td_', 'pz_only', 'cval25', 'fval25')))]
    pend = pending_corpus()
    defs = meshdefs_of(ms + pend)
    # (a) writer -> description, for both formats; (d) pending deletions
    jobs = write_jobs(ms + pend, ['ovmb', 'ascii'])
    jmap = {int(x.split()[1]): x for x in jobs}
    recs = run_exec(ctx.variant, defs, jobs, ctx.work, 'w')
    big = {j for j, x in jmap.items() if x.split()[2].startswith('soup') and ctx.tier == 'thorough' and '6553' in x.split()[2]}
    lines = [recs[j][-1] for j in sorted(recs)]
    res = validate_lines([[l] for l in lines], ['C06'], ctx.work, 'vw')
    ctx.collect(res, recs, jmap, defs)
    cov['writes_validated'] = res['checked']
    selftest(ctx, cov, lines)
    log('C06 writes: %d validated, %d bad' % (res['checked'], len(res['bads'])))
    # (c) round trips in all configurations
    tj, j = [], 100000
    for m in ms + pend:
        if m.pending or m.nf > 60000:      # chain22000 (5 MB text, > 10^6 tokens) is only written and decoded
            continue
        for fmt in ('ovmb', 'ascii'):
            # the 65536-entity soups (records of ~60 MB) make one round trip per format
            for (mt, tc, bu) in (configs_for(ctx.tier) if m.nv < 10000 else [('poly', 0, 0)] + ([('tet', 1, 1)] if m.name.startswith('tchain') else [])):
                tj.append('T %d %s %s %s %d %d' % (j, m.name, fmt, mt, tc, bu)); j += 1
    tmap = {int(x.split()[1]): x for x in tj}
    trecs = run_exec(ctx.variant, defs, tj, ctx.work, 't')
    tl = []
    exact = {m.name: m.exact for m in ms}
    for jj in sorted(trecs):
        name = tmap[jj].split()[2]
        tl.append(trecs[jj][:-1] + [add_field(trecs[jj][-1], dict(exact=bool(exact.get(name, False))))])
    res = validate_lines(tl, ['C06'], ctx.work, 'vt')
    ctx.collect(res, trecs, tmap, defs)
    cov['round_trips_validated'] = res['checked']
    log('C06 trips: %d validated, %d bad' % (res['checked'], len(res['bads'])))
    # (b) description -> reader: every encoding the spec generates for the small corpus meshes
    src = [recs[jj][-1] for jj in sorted(recs) if jmap[jj].split()[3] == 'ovmb' and jmap[jj].split()[2] in {m.name for m in small}]
    cp = os.path.join(ctx.work, 'corpus-writes.ndjson')
    open(cp, 'w').write('\n'.join(src) + '\n')
    # the generator is single threaded: one TLC per slice of the corpus, in parallel
    # pairs of choices (thorough) only for the files of the tiny meshes; the larger ones get all single choices
    tiny = [i for i in range(len(src)) if len(src[i]) < 12_000]
    groups_idx = ([(tiny, True), ([i for i in range(len(src)) if i not in set(tiny)], False)] if ctx.tier == 'thorough'
                  else [(list(range(len(src))), False)])
    slices = []
    for idxs, pairs in groups_idx:
        nsl = max(1, min(6, NPAR, len(idxs)))
        slices += [(idxs[k::nsl], pairs) for k in range(nsl) if idxs[k::nsl]]
    def gen_slice(k):
        idx, pairs = slices[k]
        sp = os.path.join(ctx.work, 'corpus-writes-%d.ndjson' % k)
        open(sp, 'w').write('\n'.join(src[i] for i in idx) + '\n')
        gk = run_gen('enc', sp, ctx.work, pairs=pairs)
        for e in gk['enc']:
            e['src'] = idx[e['src'] - 1] + 1
        return gk
    t0g = time.time()
    with ThreadPoolExecutor(max_workers=min(NPAR, len(slices))) as ex:
        gs = list(ex.map(gen_slice, range(len(slices))))
    g = dict(enc=[e for gk in gs for e in gk['enc']], bad=[b for gk in gs for b in gk['bad']], wall=time.time() - t0g)
    cov['encodings_generated'] = len(g['enc'])
    cov['gen_enc_wall_s'] = round(g['wall'], 1)
    for b in g['bad']:
        p = os.path.join(vlib.RUN, 'replay', 'C06-theorem-%s.txt' % hashlib.sha1(b.encode()).hexdigest()[:8])
        os.makedirs(os.path.dirname(p), exist_ok=True); open(p, 'w').write(b + '\n')
        ctx.violations.append(dict(msg='C06:MODEL:' + b[:300], replay=p, j=-1))
    rj, j, groups, gmap = [], 200000, {}, {}
    for e in g['enc']:
        data = bytes(e['bytes'])
        for (mt, tc, bu) in configs_for(ctx.tier):
            rj.append(read_job(j, 'ovmb', mt, tc, bu, data)); gmap[j] = e['src']; j += 1
    rmap = {int(x.split()[1]): x for x in rj}
    rrecs = run_exec(ctx.variant, '', rj, ctx.work, 'r')
    for jj in sorted(rrecs):
        s = gmap[jj]
        groups.setdefault(s, [src[s - 1]]).append(add_field(rrecs[jj][-1], dict(must=True, ref=1)))
    res = validate_lines(list(groups.values()), ['C06'], ctx.work, 'vr')
    ctx.collect(res, rrecs, rmap, '')
    cov['encoding_reads_validated'] = res['checked'] - len(groups)
    if g['enc']:
        ctx.samples.append(dict(encoding_choice=g['enc'][len(g['enc']) // 2]['ch'], bytes=len(g['enc'][len(g['enc']) // 2]['bytes'])))
    log('C06 encodings: %d files, %d reads validated, %d bad' % (len(g['enc']), res['checked'], len(res['bads'])))
    # shipped files: read, compare with the description, round trip through the writer
    sj, j = [], 300000
    for n, data in load_shipped():
        fmt = 'ovmb' if n.endswith('.ovmb') else 'ascii'
        for (mt, tc, bu) in [('poly', 1, 1), ('poly', 0, 0)] + ([('hex', 1, 1)] if n.startswith('Cylinder') else []):
            sj.append(read_job(j, fmt, mt, tc, bu, data)); j += 1
    smap = {int(x.split()[1]): x for x in sj}
    srecs = run_exec(ctx.variant, '', sj, ctx.work, 's', timeout_ms=60000)
    res = validate_lines([[add_field(srecs[jj][-1], dict(must=True))] for jj in sorted(srecs)], ['C06'], ctx.work, 'vs')
    ctx.collect(res, srecs, smap, '')
    cov['shipped_file_reads_validated'] = res['checked']
    # spec-level theorems
    gen_theorems(ctx, cov, cp, 1200 if ctx.tier == 'quick' else 4000)
    machine_mc(ctx, cov)
    cov['traces_validated_against_impl'] = ctx.checked


def mutant_inputs(ctx, cov, fmts, defs, ms):
    """corpus files written by the implementation + spec-generated edits of them"""
    jobs = write_jobs(ms, fmts)
    jmap = {int(x.split()[1]): x for x in jobs}
    recs = run_exec('plain', defs, jobs, ctx.work, 'w')
    return jobs, jmap, recs


def check_faults(ctx, cov, prop):
    """C07 and C18 share the enumeration; they differ in the build, the formats and the checks evaluated"""
    if ctx.tier == 'quick':
        names = ('verts', 'mixed', 'tet1p', 'ttet') if prop == 'C07' else ('verts', 'edges', 'mixed', 'tet1', 'tet1p', 'hex1', 'ttet', 'bools', 'rand0')
    else:
        names = ('empty', 'verts', 'edges', 'mixed', 'tet1', 'tet1p', 'hex1', 'tet2', 'ttet', 'thex', 'alltypes', 'asciitypes', 'bools', 'names', 'rand0', 'rand1', 'rand2')
    ms = [m for m in corpus(ctx.tier, ctx.seed) if m.name in names]
    ascii_names = ('mixed', 'tet1p') if ctx.tier == 'quick' else names
    defs = meshdefs_of(ms)
    fmts = ['ovmb', 'ascii'] if prop == 'C07' else ['ovmb']
    jobs, jmap, recs = mutant_inputs(ctx, cov, fmts, defs, ms)
    src = [recs[jj][-1] for jj in sorted(recs)]
    cp = os.path.join(ctx.work, 'corpus-writes.ndjson')
    open(cp, 'w').write('\n'.join(src) + '\n')
    g = run_gen('mut', cp, ctx.work)
    cov['gen_mut_wall_s'] = round(g['wall'], 1)
    base = {i + 1: bytes(json.loads(l)['bytes']) for i, l in enumerate(src)}
    mtype = {i + 1: json.loads(l)['mt'] for i, l in enumerate(src)}
    rnd = random.Random(ctx.seed)
    rj, j, kinds = [], 1, {}
    nadd = [0]
    def add(fmt, data, mt_src, kind):
        nonlocal j
        nadd[0] += 1
        if ctx.tier == 'quick' and kind != 'identity':
            # one configuration per input, rotating; the thorough tier reads every input in every configuration
            rot = [('poly', 1, 1), ('poly', 0, 0)] if prop == 'C07' else [('poly', 1, 1)]
            if mt_src in ('tet', 'hex'):
                rot = rot + [(mt_src, 1, 1)]
            cfgs = [rot[nadd[0] % len(rot)]]
            if prop == 'C18' and (kind == 'num' or kind in CHUNK_KINDS or kind.startswith('ms-')):
                # numeric fields (counts, spans, handles, offsets) and chunk reorderings: without the topology check
                # nothing but the reader's own range checks stands between a wrong / premature handle and the mesh
                cfgs = [('poly', 1, 1), ('poly', 0, 0)]
        else:
            cfgs = [('poly', 1, 1), ('poly', 0, 0)]
            if mt_src in ('tet', 'hex'):
                cfgs = cfgs + [(mt_src, 1, 1), (mt_src, 0, 0)]
        for (mt, tc, bu) in cfgs:
            rj.append(read_job(j, fmt, mt, tc, bu, data)); kinds[j] = kind; j += 1
    for e in g['mut']:
        add('ovmb', apply_edit(base[e['src']], e), mtype[e['src']], e['k'])
    for s0, l in enumerate(src, 1):      # the unmodified files, in every configuration
        d0 = json.loads(l)
        add(d0['fmt'], base[s0], d0['mt'], 'identity')
    cov['spec_generated_mutants'] = len(g['mut'])
    if prop == 'C18':
        # multi-span files: encodings generated from the description with every VERT / TOPO / PROP chunk split into
        # spans; their chunk-level edits interleave spans out of dependency order (the spec's machine decides)
        names_ms = ('tet1p', 'mixed') if ctx.tier == 'quick' else ('tet1p', 'mixed', 'hex1', 'tet2', 'ttet')
        sel = [l for l in src if jmap[json.loads(l)['j']].split()[2] in names_ms]
        ep = os.path.join(ctx.work, 'corpus-ms.ndjson')
        open(ep, 'w').write('\n'.join(sel) + '\n')
        ge = run_gen('enc', ep, ctx.work)
        msl = []
        for e in ge['enc']:
            ch = e['ch']
            if (ch['vsp'] or ch['esp'] or ch['fsp'] or ch['csp'] or ch['psp'] or ch['propsearly'] or ch['dirlate']) and (ctx.tier == 'thorough' or 1 in (ch['esp'], ch['fsp'], ch['csp'], ch['vsp']) or ch['propsearly'] or ch['dirlate']):
                d0 = json.loads(sel[e['src'] - 1]); d0['bytes'] = e['bytes']
                msl.append(json.dumps(d0, separators=(',', ':')))
        mp = os.path.join(ctx.work, 'corpus-ms-files.ndjson')
        open(mp, 'w').write('\n'.join(msl) + '\n')
        gm = run_gen('chunks', mp, ctx.work)
        for e in gm['mut']:
            d0 = json.loads(msl[e['src'] - 1])
            add('ovmb', apply_edit(bytes(d0['bytes']), e), d0['mt'], 'ms-' + e['k'])
        cov['multi_span_base_files'] = len(msl)
        cov['multi_span_chunk_edits'] = len(gm['mut'])
    # stream failures: the input stream starts failing at byte k (every k), short reads and throwing buffer
    nsf = 0
    for s, data in base.items():
        if json.loads(src[s - 1])['fmt'] != 'ovmb':
            continue
        step = 1 if (ctx.tier == 'thorough' or len(data) <= 400) else 3
        for k in range(0, len(data), step):
            for mode in ((0, 1) if prop == 'C18' else (0,)):
                rj.append(read_job(j, 'ovmb', 'poly', 1, 1, data, failat=k, failmode=mode)); kinds[j] = 'streamfail'; j += 1; nsf += 1
    cov['stream_failure_reads'] = nsf
    if prop == 'C07':
        # ASCII: line / token edits (enumerated from the token table), seeded random bytes for both formats
        for s, l in enumerate(src, 1):
            d = json.loads(l)
            if d['fmt'] != 'ascii' or jmap[d['j']].split()[2] not in ascii_names:
                continue
            for data, kind in ascii_mutants(bytes(d['bytes']), rnd, ctx.tier):
                add('ascii', data, d['mt'], kind)
        nr = 200 if ctx.tier == 'quick' else 3000
        for i in range(nr):
            n = rnd.choice([0, 1, 7, 16, 47, 48, 49, 64, 100, 300])
            data = bytes(rnd.randrange(256) for _ in range(n))
            if i % 3 == 0:      # valid magic + header prefix followed by noise
                data = bytes([79, 86, 77, 66, 10, 13, 10, 255, 1, 1, 3, rnd.randrange(3), 0, 0, 0, 0]) + data
            add('ovmb', data, 'poly', 'random')
            add('ascii', b'OVM ASCII\n' + bytes(rnd.choice(b'0123456789 \n\n-.eVerticsEdgFaPolyh"#') for _ in range(n)) if i % 2 else data, 'poly', 'random')
        # random byte flips / inserts / deletes of the valid files
        for s, data in base.items():
            fmt = json.loads(src[s - 1])['fmt']
            for i in range(30 if ctx.tier == 'quick' else 400):
                b = bytearray(data)
                for _ in range(rnd.randint(1, 3)):
                    if not b: break
                    op = rnd.randrange(3); p = rnd.randrange(len(b))
                    if op == 0: b[p] = rnd.randrange(256)
                    elif op == 1: del b[p]
                    else: b.insert(p, rnd.randrange(256))
                add(fmt, bytes(b), mtype[s], 'randomedit')
    else:
        # shipped files: truncations at and around every chunk boundary plus a seeded sample
        for n, data in load_shipped():
            if not n.endswith('.ovmb'):
                continue
            cuts = set(rnd.sample(range(len(data)), 60 if ctx.tier == 'quick' else 600))
            o = 48
            while o + 16 <= len(data):
                flen = int.from_bytes(data[o + 8:o + 16], 'little')
                cuts.update(x for x in (o - 1, o, o + 1, o + 15, o + 16, o + 17) if 0 <= x < len(data))
                o += 16 + flen
            for k in sorted(cuts):
                rj.append(read_job(j, 'ovmb', 'poly', 0, 0, data[:k])); kinds[j] = 'trunc-shipped'; j += 1
    rmap = {int(x.split()[1]): x for x in rj}
    t0 = time.time()
    rrecs = run_exec(ctx.variant, '', rj, ctx.work, 'r', timeout_ms=20000 if ctx.variant == 'san' else 10000)
    cov['exec_wall_s'] = round(time.time() - t0, 1)
    log('%s: %d inputs executed in %.0fs' % (prop, len(rrecs), time.time() - t0))
    res = validate_lines([rrecs[jj] for jj in sorted(rrecs)], [prop], ctx.work, 'vr')
    ctx.collect(res, rrecs, rmap, '')
    selftest(ctx, cov, [rrecs[jj][-1] for jj in sorted(rrecs)])
    kc = {}
    for jj in rrecs:
        kc[kinds[jj]] = kc.get(kinds[jj], 0) + 1
    cov['inputs_by_kind'] = kc
    cov['evaluations'] = len(rrecs)
    # distinct inputs = distinct job lines without the job number; non-trivial = not an unmodified corpus file
    distinct = {' '.join(x.split()[2:]) for jj, x in rmap.items() if kinds[jj] != 'identity'}
    cov['distinct_inputs'] = len(distinct)
    if prop == 'C18':
        # output stream failing at every byte k while saving
        wj, j2 = [], 1
        for m in ms:
            n = len(base[[i for i, l in enumerate(src, 1) if json.loads(l)['j'] == [jj for jj, x in jmap.items() if x.split()[2] == m.name][0]][0]])
            # every byte in thorough; quick: every 4th byte (short write) and every 16th (throwing buffer)
            for mode in (0, 1):
                step = 1 if ctx.tier == 'thorough' else (4 if mode == 0 else 16)
                for k in sorted(set(list(range(0, n, step)) + [n - 1, n, n + 1])):
                    wj.append('W %d %s ovmb auto %d %d' % (j2, m.name, k, mode)); j2 += 1
        wmap = {int(x.split()[1]): x for x in wj}
        wrecs = run_exec(ctx.variant, defs, wj, ctx.work, 'wf')
        res = validate_lines([wrecs[jj] for jj in sorted(wrecs)], [prop], ctx.work, 'vwf')
        ctx.collect(res, wrecs, wmap, defs)
        cov['write_failure_injections'] = len(wrecs)
        cov['distinct_write_failures'] = len({' '.join(x.split()[2:]) for x in wj})
        cov['evaluations'] += len(wrecs)
        gen_theorems(ctx, cov, cp, 1200 if ctx.tier == 'quick' else 4000)
        machine_mc(ctx, cov)
    if g['mut']:
        ctx.samples.append(dict(mutant=g['mut'][len(g['mut']) // 3]))
        ctx.samples.append(dict(mutant=g['mut'][2 * len(g['mut']) // 3]))


def ascii_mutants(data, rnd, tier):
    """line and token edits of an ASCII file (positions from a plain whitespace tokenisation)"""
    out = []
    lines = data.split(b'\n')
    for n in range(len(data)):                      # every truncation
        out.append((data[:n], 'trunc'))
    for i in range(len(lines)):                     # line drop / repeat
        out.append((b'\n'.join(lines[:i] + lines[i + 1:]), 'linedrop'))
        out.append((b'\n'.join(lines[:i + 1] + lines[i:]), 'linerepeat'))
    # comment / blank / whitespace-only lines at every line position, also as the very last line, with and
    # without a final newline; files that end in the middle of a comment (at every line start)
    body = lines[:-1] if lines and lines[-1] == b'' else lines
    fillers = [b'# a comment', b'#', b'', b'  \t ', b' # indented comment']
    for i in range(len(body) + 1):
        for fl in fillers:
            new = body[:i] + [fl] + body[i:]
            out.append((b'\n'.join(new) + b'\n', 'fillerline'))
            if i == len(body):
                out.append((b'\n'.join(new), 'fillerlast'))                   # last line without newline
                out.append((b'\n'.join(new) + b'\n' + fl, 'fillerlast'))      # twice, second one unterminated
        out.append((b'\n'.join(body[:i] + [b'# cut in the mid']), 'commentcut'))
        out.append((b'\n'.join(body[:i] + [b'#']), 'commentcut'))
    toks = [(m.start(), m.end()) for m in re.finditer(rb'\S+', data)]
    repl = [b'abc', b'-1', b'0', b'1', b'2147483647', b'4294967295', b'4294967296', b'99999999999999999999', b'1e400', b'nan', b'', b'"']
    for (a, b) in toks:
        out.append((data[:a] + data[b:], 'tokdrop'))
        out.append((data[:b] + b' ' + data[a:b] + data[b:], 'tokrepeat'))
        cur = data[a:b]
        vals = list(repl)
        if cur.isdigit():
            vals += [str(int(cur) + 1).encode(), str(max(0, int(cur) - 1)).encode()]
        pick = vals if tier == 'thorough' else rnd.sample(vals, 4) + vals[-1:]
        for v in pick:
            if v != cur:
                out.append((data[:a] + v + data[b:], 'tokreplace'))
    return out


def selftest(ctx, cov, lines):
    """Binding demonstration: records of this run with one observed field corrupted must be rejected by
    the validator (guards against a vacuous oracle or a broken JSON bridge).  A failure is a failure of
    the machinery, not a verdict about the library."""
    muts = []
    for ln in lines:
        if len(ln) > 400_000:
            continue
        d = json.loads(ln)
        if d.get('died') or d.get('fmt') != 'ovmb':
            continue
        if ctx.prop == 'C06' and d['e'] == 'write' and d.get('res') == 'Ok' and not d['mesh']['needs_gc']:
            m = d['mesh']
            have = lambda k: sum(1 for kk, _ in muts if kk == k)
            if m['ne'] > 0 and have('edge handle') < 2:
                c = json.loads(ln); c['mesh']['edges'][0][0] += 1; muts.append(('edge handle', c))
            if m['nv'] > 0 and have('position bit') < 2:
                c = json.loads(ln); c['mesh']['pos'][0][0] ^= 1; muts.append(('position bit', c))
                c = json.loads(ln); c['bytes'][-1] ^= 1; muts.append(('file byte', c))
            if any(p['t'] == 'int32' and p['vals'] for p in m['props']) and have('property value') < 3:
                c = json.loads(ln)
                q = [p for p in c['mesh']['props'] if p['t'] == 'int32' and p['vals']][0]; q['vals'][0][0] ^= 1; muts.append(('property value', c))
        elif ctx.prop == 'C18' and d['e'] == 'read' and d.get('res') not in ('Ok', 'Crash', 'Timeout') and len(d['bytes']) < 48 and len(muts) < 3:
            c = json.loads(ln); c['res'] = 'Ok'; c['mesh'] = dict(nv=0, ne=0, nf=0, nc=0, pos=[], edges=[], faces=[], cells=[], props=[]); muts.append(('result of a truncated file', c))
        elif ctx.prop == 'C07' and d['e'] == 'read' and d.get('res') == 'Ok' and d['mesh']['ne'] > 0 and len(muts) < 3:
            c = json.loads(ln); c['mesh']['edges'][0][1] = c['mesh']['nv'] + 5; muts.append(('edge handle out of range', c))
        if len(muts) >= (9 if ctx.prop == 'C06' else 3):
            break
    if not muts:
        raise MachineryError('selftest: no record suitable for corruption')
    res = validate_lines([[json.dumps(c, separators=(',', ':'))] for _, c in muts], [ctx.prop], ctx.work, 'selftest')
    flagged = {b['line'] for b in res['bads'] if b['msg'].startswith(ctx.prop + ':')}
    if len(res['bads']) < len(muts):
        raise MachineryError('selftest: the validator accepted %d of %d corrupted records' % (len(muts) - len(res['bads']), len(muts)))
    cov['selftest'] = dict(corrupted_records=len(muts), rejected=len(res['bads']), kinds=sorted({k for k, _ in muts}))


CHUNK_KINDS = ('drop', 'dup', 'swap', 'move', 'eofmove')


LEVEL = {'C06': 'model_checking', 'C07': 'fault_enumeration', 'C18': 'fault_enumeration'}
RULE = {
    'C07': 'inputs = for every corpus file written by the library (OVMB and ASCII): every truncation; spec-generated edits from the OVMB field table '
           '(every header / chunk-header / sub-header byte x boundary values, every numeric field x {0,1,n-1,n+1,2^31-1,2^32-1,2^32,2^63-1,2^64-1}, '
           'chunk drop/dup/swap/EOF-move); ASCII line drop/repeat and token drop/repeat/replace; stream failing at byte k; seeded random bytes and '
           'random edits; each read in the listed (mesh type, topology check) configurations under ASan+UBSan with timeout and allocation cap. '
           'distinct_nontrivial = number of distinct (format, mesh type, topology check, bottom-up, stream-failure position and mode, byte string) inputs that are not an unmodified corpus file (measured as a set).',
    'C18': 'inputs = for every corpus OVMB file written by the library: every truncation length, every spec-generated header/chunk-header/sub-header byte '
           'substitution and numeric-field substitution, every chunk dropped / duplicated / swapped / moved to every other position / EOF chunk moved, the same chunk-level edits on spec-generated multi-span encodings (spans interleaved out of dependency order), input stream failing at every byte k (short read and throwing '
           'buffer), output stream failing at every byte k while saving; shipped files truncated around every chunk boundary. The spec (ParseFile) decides '
           'validity of each input. distinct_nontrivial = number of distinct (mesh type, topology check, stream-failure position and mode, byte string) read inputs that are not an unmodified corpus file plus distinct (mesh, failure position, mode) write-failure injections (measured as sets); coverage.spec_verdicts gives how the specification classified them.',
}


def run_check(prop, tier, seed, replay=None):
    t0 = time.time()
    variant = 'san' if prop == 'C07' else 'plain'
    work = os.path.join(vlib.RUN, '%s-%s-%d' % (prop, tier, os.getpid()))
    shutil.rmtree(work, ignore_errors=True)
    os.makedirs(work)
    vlib.build(variant, ['io_exec'])
    if variant != 'plain' and prop != 'C06':
        vlib.build('plain', ['io_exec'])
    ctx = Ctx(prop, tier, seed, work, variant)
    cov = dict(samples=[])
    if replay:
        txt = open(replay).read()
        defs = ''.join(re.findall(r'^M .*?^\.\n', txt, re.S | re.M))
        jobs = [l for l in txt.splitlines() if l and l[0] in 'WRT' and l[1] == ' ']
        jmap = {int(x.split()[1]): x for x in jobs}
        recs = run_exec(variant, defs, jobs, work, 'replay', par=1)
        extra = {}
        if '#MUST' in txt: extra['must'] = True
        if '#EXACT' in txt: extra['exact'] = True
        res = validate_lines([recs[jj][:-1] + [add_field(recs[jj][-1], extra) if extra else recs[jj][-1]] for jj in sorted(recs)], [prop], work, 'vreplay')
        ctx.collect(res, recs, jmap, defs)
        cov['evaluations'] = len(recs); cov['distinct_nontrivial'] = 0
        cov['states'] = cov['transitions'] = max(1, len(recs)); cov['traces_validated_against_impl'] = res['checked']
        cov['rule'] = 'replay of ' + replay
        ctx.samples.append(dict(replay=replay))
    elif prop == 'C06':
        check_c06(ctx, cov)
    else:
        check_faults(ctx, cov, prop)
        cov['rule'] = RULE[prop]
        cov['distinct_nontrivial'] = cov.get('distinct_inputs', 0) + cov.get('distinct_write_failures', 0)
        cov['spec_verdicts'] = dict(
            strictly_invalid=sum(n for c, n in ctx.classes.items() if c.startswith('strict:')),
            invalid_not_demanded=sum(n for c, n in ctx.classes.items() if c.startswith('lax:')),
            still_valid=sum(n for c, n in ctx.classes.items() if c.startswith('valid|')),
            stream_failures=sum(n for c, n in ctx.classes.items() if 'streamfail' in c),
            ascii=sum(n for c, n in ctx.classes.items() if c.startswith('ascii|')))
        cov['traces_validated_against_impl'] = ctx.checked
    cov['classes'] = dict(sorted(ctx.classes.items(), key=lambda kv: -kv[1])[:80])
    cov['samples'] = ctx.samples or [dict(note='no sample recorded')]
    seen = set()
    for k, b in ctx.known_seen:
        if k['what'] not in seen:
            print('KNOWN-FINDING: property=%s %s' % (prop, k['what']))
            seen.add(k['what'])
    cov['known_findings_seen'] = len(ctx.known_seen)
    rc, shown = 0, set()
    for v in ctx.violations:
        key = v['msg']
        rc = 1
        if key in shown or len(shown) >= 12:
            continue
        shown.add(key)
        print('VIOLATION property=%s replay=%s' % (prop, v['replay']))
        log('   ', v['msg'], (v.get('stderr') or '').replace('\n', ' | ')[-400:])
    cov['violation_messages'] = sorted({v['msg'] for v in ctx.violations})[:40]
    if not replay:      # a replay of one input is not a run of the check: the evidence of the last full run stays
      vlib.write_evidence(prop, tier, seed, LEVEL[prop], cov, time.time() - t0, len({v['msg'] for v in ctx.violations}),
                        ['TLC 2.x and the CommunityModules JSON bridge are trusted',
                         'harness/io_exec.cc is trusted to log the bytes it handed to / received from the library and the projection of the mesh',
                         'absence of undefined behaviour is observed (ASan, UBSan, _GLIBCXX_ASSERTIONS, timeout) on the executed inputs, not derived from the specification',
                         'bounded: corpus meshes and edits listed in coverage; beyond them only seeded random inputs'])
    if rc == 0 and not os.environ.get('VERIF_KEEP'):
        shutil.rmtree(work, ignore_errors=True)
    return rc


def main():
    import argparse
    ap = argparse.ArgumentParser()
    ap.add_argument('prop')
    ap.add_argument('--tier', default=os.environ.get('VERIF_TIER', 'quick'))
    ap.add_argument('--replay')
    a = ap.parse_args()
    seed = int(os.environ.get('VERIF_SEED', '1'))
    try:
        sys.exit(run_check(a.prop, a.tier, seed, a.replay))
    except MachineryError as e:
        print('MACHINERY-ERROR: %s' % e, file=sys.stderr)
        sys.exit(2)


if __name__ == '__main__':
    main()
