#!/usr/bin/env python3
"""Run checks against a seeded change WITHOUT touching /repo: the patch is
applied in a scratch worktree and the checks are pointed at it through
VERIF_REPO / VERIF_BUILD (own build directory).  Usage:
   bin/seedtest.py <patch.diff> <ID> [<ID> ...]      (quick tier)
Prints one line per check: CAUGHT / MISSED / ERROR."""
import os, subprocess, sys, tempfile, shutil, hashlib
patch = os.path.abspath(sys.argv[1]); ids = sys.argv[2:]
tag = hashlib.md5(patch.encode()).hexdigest()[:8]
wt = '/tmp/seedwt-' + tag
bd = '/tmp/seedbuild-' + tag
subprocess.run(['git', '-C', '/repo', 'worktree', 'remove', '--force', wt], stderr=subprocess.DEVNULL)
subprocess.check_call(['git', '-C', '/repo', 'worktree', 'add', '-q', wt, 'HEAD'])
print('=== %s : %s' % (os.path.basename(os.path.dirname(patch)), ' '.join(ids)), flush=True)
try:
    subprocess.check_call(['git', '-C', wt, 'apply', patch])
    env = dict(os.environ, VERIF_REPO=wt, VERIF_BUILD=bd)
    for i in ids:
        r = subprocess.run(['bin/check', i, '--tier', os.environ.get('VERIF_TIER', 'quick')], cwd='/verif', env=env,
                           stdout=subprocess.PIPE, stderr=subprocess.STDOUT, text=True)
        viol = [l for l in r.stdout.splitlines() if l.startswith('VIOLATION')]
        st = 'CAUGHT' if (r.returncode == 1 and viol) else ('MISSED' if r.returncode == 0 else 'ERROR(rc=%d)' % r.returncode)
        print('%s %s %s' % (i, st, viol[0] if viol else ''), flush=True)
        for l in r.stdout.splitlines():
            if l.startswith('[vx') and ('bad' in l or 'MODEL' in l or '   ' in l):
                print('    ' + l[:300])
        if st.startswith('ERROR'):
            print(r.stdout[-1500:])
finally:
    subprocess.run(['git', '-C', '/repo', 'worktree', 'remove', '--force', wt])
    shutil.rmtree(bd, ignore_errors=True)
