SPECIFICATION Spec
CONSTANTS
  Depth = 2
  SeedIds = {1,2,3,4,5,6,7,8}
  Modes <- ModesAll
  BUSets <- BUAll
  HistOps = {"delete_vertex","delete_edge","delete_face","delete_cell"}
  TargetOps = {"delete_vertex","delete_edge","delete_face","delete_cell","collect_garbage"}
  MaxList = 3
  Emit = "none"
INVARIANT NoBad
INVARIANT SeedOK
VIEW View
ACTION_CONSTRAINT EmitStep
CHECK_DEADLOCK FALSE
