---------------------------- MODULE OVMKernelDefs ----------------------------
(***************************************************************************)
(* Declarative layer: the listed properties as state predicates and step   *)
(* relations over OBSERVABLE state.  Everything here is a brute-force      *)
(* definition over the stored edge / face / cell definitions of the        *)
(* not-deleted entities; nothing reads the caches except to compare them   *)
(* with their definition.  These operators are the oracles, both for the   *)
(* operational model (checked by TLC on every explored step) and for the   *)
(* traces recorded from the C++ implementation.                            *)
(***************************************************************************)
EXTENDS OVMKernel

LiveV(s)  == {v \in 0 .. (s.nv - 1) : ~At(s.vdel, v)}
LiveE(s)  == {e \in Hs(s.edges) : ~At(s.edel, e)}
LiveF(s)  == {f \in Hs(s.faces) : ~At(s.fdel, f)}
LiveC(s)  == {c \in Hs(s.cells) : ~At(s.cdel, c)}
LiveHE(s) == {h \in 0 .. (NHE(s) - 1) : ~At(s.edel, Full(h))}
LiveHF(s) == {h \in 0 .. (NHF(s) - 1) : ~At(s.fdel, Full(h))}
NTrue(q)  == Cardinality({i \in DOMAIN q : q[i]})

(* ---------------- structural sanity of an observed state --------------- *)
(* every array has one entry per slot; every handle stored in a live       *)
(* entity designates an existing, live entity                              *)
WellFormed(s) ==
  /\ s.nv >= 0
  /\ Len(s.vdel) = s.nv /\ Len(s.edel) = Len(s.edges)
  /\ Len(s.fdel) = Len(s.faces) /\ Len(s.cdel) = Len(s.cells)
  /\ \A e \in LiveE(s) : /\ Len(At(s.edges, e)) = 2
                         /\ At(s.edges, e)[1] \in LiveV(s) /\ At(s.edges, e)[2] \in LiveV(s)
  /\ \A f \in LiveF(s) : \A he \in Rng(At(s.faces, f)) : he \in LiveHE(s)
  /\ \A c \in LiveC(s) : \A hf \in Rng(At(s.cells, c)) : hf \in LiveHF(s)

(* an observed state the operational model can be applied to: well formed,  *)
(* caches of the right shape with entries in range, and the (stale)        *)
(* definitions of deleted entities still within the handle ranges          *)
Sane(s) ==
  /\ WellFormed(s)
  /\ \A e \in Hs(s.edges) : Len(At(s.edges, e)) = 2 /\ At(s.edges, e)[1] \in 0 .. (s.nv - 1) /\ At(s.edges, e)[2] \in 0 .. (s.nv - 1)
  /\ \A f \in Hs(s.faces) : \A he \in Rng(At(s.faces, f)) : he \in 0 .. (NHE(s) - 1)
  /\ \A c \in Hs(s.cells) : \A hf \in Rng(At(s.cells, c)) : hf \in 0 .. (NHF(s) - 1)
  /\ s.vbu => Len(s.out) = s.nv /\ \A v \in 0 .. (s.nv - 1) : Rng(At(s.out, v)) \subseteq 0 .. (NHE(s) - 1)
  /\ s.ebu => Len(s.hehf) = NHE(s) /\ \A h \in 0 .. (NHE(s) - 1) : Rng(At(s.hehf, h)) \subseteq 0 .. (NHF(s) - 1)
  /\ s.fbu => Len(s.inc) = NHF(s) /\ Rng(s.inc) \subseteq -1 .. (Len(s.cells) - 1)

(* C02: counters describe the flags *)
CountersConsistent(s) ==
  /\ s.ndv = NTrue(s.vdel) /\ s.nde = NTrue(s.edel)
  /\ s.ndf = NTrue(s.fdel) /\ s.ndc = NTrue(s.cdel)

GenusDef(s) ==
  LET g == 1 - ((s.nv - s.ndv) - (Len(s.edges) - s.nde) + (Len(s.faces) - s.ndf) - (Len(s.cells) - s.ndc))
  IN IF g % 2 = 0 THEN g \div 2 ELSE -1

(* ------------------ C01: caches vs. their definition ------------------- *)
OutDef(s, v)        == {h \in LiveHE(s) : From(s, h) = v}
HFCountDef(s, he, hf) == IF At(s.fdel, Full(hf)) THEN 0 ELSE Count(HFHes(s, hf), he)
CellsOfHF(s, hf)    == {c \in LiveC(s) : hf \in Rng(At(s.cells, c))}

OutIsInverse(s) ==
  /\ Len(s.out) = s.nv
  /\ \A v \in 0 .. (s.nv - 1) :
        LET row == At(s.out, v) IN NoDup(row) /\ Rng(row) = OutDef(s, v)
HeHfIsInverse(s) ==
  /\ Len(s.hehf) = NHE(s)
  /\ \A he \in 0 .. (NHE(s) - 1) :
        LET row == At(s.hehf, he) IN
        /\ Rng(row) \subseteq 0 .. (NHF(s) - 1)
        /\ \A hf \in 0 .. (NHF(s) - 1) :
              Count(row, hf) = (IF At(s.edel, Full(he)) THEN 0 ELSE HFCountDef(s, he, hf))
IncIsInverse(s) ==
  /\ Len(s.inc) = NHF(s)
  /\ \A hf \in 0 .. (NHF(s) - 1) :
        LET cs == CellsOfHF(s, hf) IN
        IF cs = {} THEN At(s.inc, hf) = -1 ELSE At(s.inc, hf) \in cs

CacheIsInverse(s) ==
  /\ s.vbu => OutIsInverse(s)
  /\ s.ebu => HeHfIsInverse(s)
  /\ s.fbu => IncIsInverse(s)

(* in contract for the cache / fan statements: no halfface in two live cells *)
Manifoldish(s) == \A hf \in LiveHF(s) : Cardinality(CellsOfHF(s, hf)) <= 1

(* ---------------- C09: rotational order around an edge ----------------- *)
BndHF(s, hf) == CellsOfHF(s, hf) = {}
(* the other halffaces of hf's cell that carry the opposite of he          *)
AdjCands(s, hf, he) ==
  LET cs == CellsOfHF(s, hf) IN
  IF cs = {} THEN {}
  ELSE LET c == CHOOSE x \in cs : TRUE IN
       {g \in Rng(At(s.cells, c)) \ {hf, Opp(hf)} : Opp(he) \in Rng(HFHes(s, g))}
(* successor of hf in the fan of halfedge he (hf contains he)              *)
FanSucc(s, hf, he) ==
  LET cands == AdjCands(s, hf, he) IN
  IF Cardinality(cands) = 1 THEN Opp(CHOOSE g \in cands : TRUE) ELSE -1

(* the halffaces that contain halfedge he, one entry per live face         *)
FanSet(s, he) == {hf \in LiveHF(s) : he \in Rng(HFHes(s, hf))}

RECURSIVE FanWalk(_, _, _, _, _)
FanWalk(s, he, cur, acc, n) ==
  IF cur = -1 \/ cur \in Rng(acc) \/ Len(acc) >= n THEN acc
  ELSE FanWalk(s, he, IF BndHF(s, cur) THEN -1 ELSE FanSucc(s, cur, he), Append(acc, cur), n)

(* e is a single fan: every incident face meets e once, cells are closed   *)
(* at e, and the successor relation links all incident halffaces into one  *)
(* cycle or one chain                                                      *)
SingleFan(s, e) ==
  LET he == 2 * e
      S  == FanSet(s, he)
      n  == Cardinality(S)
  IN /\ n >= 1
     /\ \A hf \in S : Count(HFHes(s, hf), he) = 1 /\ Count(HFHes(s, hf), he + 1) = 0
     /\ \A f \in LiveF(s) : ~(2 * f \in S /\ 2 * f + 1 \in S)
     /\ \A hf \in S : Cardinality(CellsOfHF(s, hf)) <= 1
     /\ \A hf \in S : ~BndHF(s, hf) => FanSucc(s, hf, he) \in S
     /\ \A hf \in S : ~BndHF(s, Opp(hf)) =>   \* the cell behind hf is closed at e too
            Cardinality(AdjCands(s, Opp(hf), he + 1)) = 1
     /\ LET starts == {hf \in S : BndHF(s, Opp(hf))}
            st == IF starts = {} THEN CHOOSE hf \in S : TRUE ELSE CHOOSE hf \in starts : TRUE
        IN /\ Cardinality(starts) <= 1
           /\ Len(FanWalk(s, he, st, <<>>, n)) = n

FanOrderAt(s, e) ==
  LET he == 2 * e
      L  == At(s.hehf, he)
      n  == Len(L)
  IN /\ \A i \in 1 .. n :
          IF BndHF(s, L[i]) THEN i = n
          ELSE L[(i % n) + 1] = FanSucc(s, L[i], he)
     /\ At(s.hehf, he + 1) = Rev(MapSeq(Opp, L))

FanOrder(s) ==
  (s.ebu /\ s.fbu /\ HeHfIsInverse(s)) =>
     \A e \in LiveE(s) : SingleFan(s, e) => FanOrderAt(s, e)

(* ------------------------- upward closure (C02) ------------------------ *)
ClosureOf(s, V0, E0, F0, C0) ==
  LET E == E0 \cup {e \in LiveE(s) : At(s.edges, e)[1] \in V0 \/ At(s.edges, e)[2] \in V0}
      F == F0 \cup {f \in LiveF(s) : \E he \in Rng(At(s.faces, f)) : Full(he) \in E}
      C == C0 \cup {c \in LiveC(s) : \E hf \in Rng(At(s.cells, c)) : Full(hf) \in F}
  IN [V |-> V0, E |-> E, F |-> F, C |-> C]

(* ----------------- transport of definitions along a map ---------------- *)
(* g = [V, E, F, C]: for every slot of post the slot of pre it came from   *)
(* (a value >= the number of pre slots denotes a new entity).              *)
GHalf(gk, h) == Half(At(gk, Full(h)), Side(h))
MapOK(pre, post, g) ==
  /\ Len(g.V) = post.nv /\ Len(g.E) = Len(post.edges)
  /\ Len(g.F) = Len(post.faces) /\ Len(g.C) = Len(post.cells)

(* the live entities of post are exactly the images of keep.*, injectively, *)
(* with definitions transported                                            *)
IsoOn(pre, post, g, keep) ==
  /\ MapOK(pre, post, g)
  /\ WellFormed(post)
  /\ {At(g.V, j) : j \in LiveV(post)} = keep.V /\ Cardinality(LiveV(post)) = Cardinality(keep.V)
  /\ {At(g.E, j) : j \in LiveE(post)} = keep.E /\ Cardinality(LiveE(post)) = Cardinality(keep.E)
  /\ {At(g.F, j) : j \in LiveF(post)} = keep.F /\ Cardinality(LiveF(post)) = Cardinality(keep.F)
  /\ {At(g.C, j) : j \in LiveC(post)} = keep.C /\ Cardinality(LiveC(post)) = Cardinality(keep.C)
  /\ \A j \in LiveE(post) : At(g.E, j) \in Hs(pre.edges) =>
        <<At(g.V, At(post.edges, j)[1]), At(g.V, At(post.edges, j)[2])>> = At(pre.edges, At(g.E, j))
  /\ \A j \in LiveF(post) : At(g.F, j) \in Hs(pre.faces) =>
        MapSeq(LAMBDA h : GHalf(g.E, h), At(post.faces, j)) = At(pre.faces, At(g.F, j))
  /\ \A j \in LiveC(post) : At(g.C, j) \in Hs(pre.cells) =>
        MapSeq(LAMBDA h : GHalf(g.F, h), At(post.cells, j)) = At(pre.cells, At(g.C, j))

LiveSets(s) == [V |-> LiveV(s), E |-> LiveE(s), F |-> LiveF(s), C |-> LiveC(s)]
IdMap(s) == [V |-> Iota(s.nv), E |-> Iota(Len(s.edges)), F |-> Iota(Len(s.faces)), C |-> Iota(Len(s.cells))]
ModelMap(m) == [V |-> m.gV, E |-> m.gE, F |-> m.gF, C |-> m.gC]

SameModes(pre, post) ==
  /\ post.vbu = pre.vbu /\ post.ebu = pre.ebu /\ post.fbu = pre.fbu
  /\ post.deferred = pre.deferred /\ post.fast = pre.fast

SameCore(pre, post) ==   \* slots, flags, counters and live definitions identical
  /\ post.nv = pre.nv /\ post.vdel = pre.vdel /\ post.edel = pre.edel
  /\ post.fdel = pre.fdel /\ post.cdel = pre.cdel
  /\ Len(post.edges) = Len(pre.edges) /\ Len(post.faces) = Len(pre.faces) /\ Len(post.cells) = Len(pre.cells)
  /\ \A e \in LiveE(pre) : At(post.edges, e) = At(pre.edges, e)
  /\ \A f \in LiveF(pre) : At(post.faces, f) = At(pre.faces, f)
  /\ \A c \in LiveC(pre) : At(post.cells, c) = At(pre.cells, c)
  /\ post.ndv = pre.ndv /\ post.nde = pre.nde /\ post.ndf = pre.ndf /\ post.ndc = pre.ndc

(* ------------------------ C02: deletion relation ----------------------- *)
IsDelete(c) == c.op \in {"delete_vertex", "delete_edge", "delete_face", "delete_cell"}
Victims(pre, c) ==
  CASE c.op = "delete_vertex" -> ClosureOf(pre, {c.a}, {}, {}, {})
    [] c.op = "delete_edge"   -> ClosureOf(pre, {}, {c.a}, {}, {})
    [] c.op = "delete_face"   -> ClosureOf(pre, {}, {}, {c.a}, {})
    [] c.op = "delete_cell"   -> ClosureOf(pre, {}, {}, {}, {c.a})

DeleteRel(pre, c, post, g) ==
  LET d == Victims(pre, c)
      keep == [V |-> LiveV(pre) \ d.V, E |-> LiveE(pre) \ d.E,
               F |-> LiveF(pre) \ d.F, C |-> LiveC(pre) \ d.C]
  IN /\ IsoOn(pre, post, g, keep)
     /\ CountersConsistent(post)
     /\ SameModes(pre, post)
     /\ pre.deferred =>   \* deferred: nothing moves, victims are flagged
           /\ post.nv = pre.nv /\ Len(post.edges) = Len(pre.edges)
           /\ Len(post.faces) = Len(pre.faces) /\ Len(post.cells) = Len(pre.cells)
     /\ ~pre.deferred =>  \* immediate: no flagged slot remains
           post.ndv = 0 /\ post.nde = 0 /\ post.ndf = 0 /\ post.ndc = 0

(* ------------------ C04: garbage collection relation ------------------- *)
IsGC(pre, c) == c.op = "collect_garbage" \/ (c.op = "enable_deferred" /\ ~c.f)
GCRel(pre, c, post, g) ==
  /\ IsoOn(pre, post, g, LiveSets(pre))
  /\ (pre.deferred) =>
        /\ post.ndv = 0 /\ post.nde = 0 /\ post.ndf = 0 /\ post.ndc = 0
        /\ CountersConsistent(post)
  /\ post.vbu = pre.vbu /\ post.ebu = pre.ebu /\ post.fbu = pre.fbu /\ post.fast = pre.fast
  /\ post.deferred = (IF c.op = "enable_deferred" THEN c.f ELSE pre.deferred)

(* StatusAttrib::garbage_collection: the marked entities' closure is gone; *)
(* with the manifoldness option additionally exactly the faces, edges and  *)
(* vertices that then bound no cell; tracked handles designate the same    *)
(* entity afterwards or are invalid                                        *)
StatusKeep(pre, marks, manifold) ==
  LET d  == ClosureOf(pre, marks.V \cap LiveV(pre), marks.E \cap LiveE(pre), marks.F \cap LiveF(pre), marks.C \cap LiveC(pre))
      C1 == LiveC(pre) \ d.C
      F1 == LiveF(pre) \ d.F
      E1 == LiveE(pre) \ d.E
      V1 == LiveV(pre) \ d.V
      F2 == {f \in F1 : \E c \in C1 : \E hf \in Rng(At(pre.cells, c)) : Full(hf) = f}
      E2 == {e \in E1 : \E f \in F2 : \E he \in Rng(At(pre.faces, f)) : Full(he) = e}
      V2 == {v \in V1 : \E e \in E2 : At(pre.edges, e)[1] = v \/ At(pre.edges, e)[2] = v}
  IN IF manifold THEN [V |-> V2, E |-> E2, F |-> F2, C |-> C1] ELSE [V |-> V1, E |-> E1, F |-> F1, C |-> C1]

(* expected value of a tracked handle h of a full kind with map gk         *)
Tracked(gk, keepK, h) ==
  IF h \notin keepK THEN -1
  ELSE LET js == {j \in 1 .. Len(gk) : gk[j] = h} IN IF js = {} THEN -2 ELSE (CHOOSE j \in js : TRUE) - 1
TrackedHalf(gk, keepK, h) ==
  LET r == Tracked(gk, keepK, Full(h)) IN IF r < 0 THEN r ELSE Half(r, Side(h))

StatusGCRel(pre, c, post, g, rl) ==
  LET marks == MarksOf(c.l)
      keep == StatusKeep(pre, marks, c.f)
      nv == pre.nv  ne == Len(pre.edges)  nf == Len(pre.faces)  nc == Len(pre.cells)
  IN /\ IsoOn(pre, post, g, keep)
     /\ post.ndv = 0 /\ post.nde = 0 /\ post.ndf = 0 /\ post.ndc = 0 /\ CountersConsistent(post)
     /\ post.deferred = pre.deferred /\ post.fast = pre.fast
     (* which incidence kinds are enabled afterwards is not part of the statement (the       *)
     (* manifoldness pass switches all of them on and leaves them on): not asserted          *)
     /\ c.a = 1 =>    \* all handles were handed in for tracking
           /\ Len(rl) = nv + 2 * ne + 2 * nf + nc
           /\ \A h \in 0 .. (nv - 1) : rl[1 + h] = Tracked(g.V, keep.V, h)
           /\ \A h \in 0 .. (2 * ne - 1) : rl[1 + nv + h] = TrackedHalf(g.E, keep.E, h)
           /\ \A h \in 0 .. (2 * nf - 1) : rl[1 + nv + 2 * ne + h] = TrackedHalf(g.F, keep.F, h)
           /\ \A h \in 0 .. (nc - 1) : rl[1 + nv + 2 * ne + 2 * nf + h] = Tracked(g.C, keep.C, h)

(* ------------------- C17: index swaps are relabelings ------------------ *)
IsSwap(c) == c.op \in {"swap_vertices", "swap_edges", "swap_faces", "swap_cells"}
SwapMap(pre, c) ==
  LET id == IdMap(pre) IN
  CASE c.op = "swap_vertices" -> [id EXCEPT !.V = SwapAt(@, c.a, c.b)]
    [] c.op = "swap_edges"    -> [id EXCEPT !.E = SwapAt(@, c.a, c.b)]
    [] c.op = "swap_faces"    -> [id EXCEPT !.F = SwapAt(@, c.a, c.b)]
    [] c.op = "swap_cells"    -> [id EXCEPT !.C = SwapAt(@, c.a, c.b)]
SwapRel(pre, c, post) ==
  LET g == SwapMap(pre, c) IN
  /\ IsoOn(pre, post, g, LiveSets(pre))
  /\ post.nv = pre.nv /\ Len(post.edges) = Len(pre.edges)
  /\ Len(post.faces) = Len(pre.faces) /\ Len(post.cells) = Len(pre.cells)
  /\ post.vdel = [j \in 1 .. pre.nv |-> At(pre.vdel, At(g.V, j - 1))]
  /\ post.edel = [j \in 1 .. Len(pre.edel) |-> At(pre.edel, At(g.E, j - 1))]
  /\ post.fdel = [j \in 1 .. Len(pre.fdel) |-> At(pre.fdel, At(g.F, j - 1))]
  /\ post.cdel = [j \in 1 .. Len(pre.cdel) |-> At(pre.cdel, At(g.C, j - 1))]
  /\ post.ndv = pre.ndv /\ post.nde = pre.nde /\ post.ndf = pre.ndf /\ post.ndc = pre.ndc
  /\ SameModes(pre, post)

(* ------------------------ C11: construction ---------------------------- *)
ClosedLoop(s, hes) ==
  /\ hes # <<>>
  /\ \A i \in 1 .. Len(hes) : To(s, hes[i]) = From(s, hes[(i % Len(hes)) + 1])
ClosedSurface(s, hfs) ==
  /\ hfs # <<>>
  /\ LET all == FoldLeft(LAMBDA acc, hf : acc \o HFHes(s, hf), <<>>, hfs) IN
     \A h \in Rng(all) : Count(all, h) = 1 /\ Count(all, Opp(h)) = 1

(* exactly one entity of kind k appended with definition def, nothing else  *)
AppendRel(pre, post, k, def) ==
  /\ SameModes(pre, post)
  /\ post.nv = pre.nv + (IF k = "V" THEN 1 ELSE 0)
  /\ post.vdel = (IF k = "V" THEN Append(pre.vdel, FALSE) ELSE pre.vdel)
  /\ post.edel = (IF k = "E" THEN Append(pre.edel, FALSE) ELSE pre.edel)
  /\ post.fdel = (IF k = "F" THEN Append(pre.fdel, FALSE) ELSE pre.fdel)
  /\ post.cdel = (IF k = "C" THEN Append(pre.cdel, FALSE) ELSE pre.cdel)
  /\ Len(post.edges) = Len(pre.edges) + (IF k = "E" THEN 1 ELSE 0)
  /\ Len(post.faces) = Len(pre.faces) + (IF k = "F" THEN 1 ELSE 0)
  /\ Len(post.cells) = Len(pre.cells) + (IF k = "C" THEN 1 ELSE 0)
  /\ \A e \in LiveE(pre) : At(post.edges, e) = At(pre.edges, e)
  /\ \A f \in LiveF(pre) : At(post.faces, f) = At(pre.faces, f)
  /\ \A c \in LiveC(pre) : At(post.cells, c) = At(pre.cells, c)
  /\ k = "E" => post.edges[Len(post.edges)] = def
  /\ k = "F" => post.faces[Len(post.faces)] = def
  /\ k = "C" => post.cells[Len(post.cells)] = def
  /\ post.ndv = pre.ndv /\ post.nde = pre.nde /\ post.ndf = pre.ndf /\ post.ndc = pre.ndc

(* a rejected / de-duplicated call leaves every observable aspect unchanged *)
Unchanged(pre, post) ==
  /\ SameModes(pre, post) /\ SameCore(pre, post)
  /\ post.out = pre.out /\ post.hehf = pre.hehf /\ post.inc = pre.inc

LiveEdgesBetween(s, a, b) ==
  {e \in LiveE(s) : At(s.edges, e) = <<a, b>> \/ At(s.edges, e) = <<b, a>>}

(* traces recorded through the hooks do not carry the result (ret = Void)  *)
RetIs(ret, v) == ret = Void \/ ret = v
AddRel(pre, c, post, ret) ==
  CASE c.op = "add_vertex" -> RetIs(ret, pre.nv) /\ AppendRel(pre, post, "V", <<>>)
    [] c.op = "add_edge" ->
         LET ex == LiveEdgesBetween(pre, c.a, c.b) IN
         IF ~c.f /\ ex # {}
         THEN (ret = Void \/ ret \in ex) /\ Unchanged(pre, post)
         ELSE RetIs(ret, Len(pre.edges)) /\ AppendRel(pre, post, "E", <<c.a, c.b>>)
    [] c.op = "add_face" ->
         IF c.f /\ ~ClosedLoop(pre, c.l)
         THEN RetIs(ret, -1) /\ Unchanged(pre, post)
         ELSE RetIs(ret, Len(pre.faces)) /\ AppendRel(pre, post, "F", c.l)
    [] c.op = "add_cell" ->
         IF c.f /\ ~ClosedSurface(pre, c.l)
         THEN RetIs(ret, -1) /\ Unchanged(pre, post)
         ELSE RetIs(ret, Len(pre.cells)) /\ AppendRel(pre, post, "C", c.l)
    [] c.op = "add_face_v" ->
         (* C08/C11: a face built from a vertex list is a closed loop through exactly those   *)
         (* vertices; existing live edges are reused, missing ones created exactly once       *)
         LET n == Len(c.l)
             pairs == {<<c.l[i], c.l[(i % n) + 1]>> : i \in 1 .. n}
             missing == {{p[1], p[2]} : p \in {q \in pairs : LiveEdgesBetween(pre, q[1], q[2]) = {}}}
         IN /\ RetIs(ret, Len(pre.faces))
            /\ Len(post.faces) = Len(pre.faces) + 1 /\ post.fdel = Append(pre.fdel, FALSE)
            /\ Len(post.edges) = Len(pre.edges) + Cardinality(missing)
            /\ post.edel = pre.edel \o Rep(Cardinality(missing), FALSE)
            /\ \A e \in Hs(pre.edges) : At(post.edges, e) = At(pre.edges, e)
            /\ \A f \in LiveF(pre) : At(post.faces, f) = At(pre.faces, f)
            /\ post.cells = pre.cells /\ post.cdel = pre.cdel /\ post.nv = pre.nv /\ post.vdel = pre.vdel
            /\ SameModes(pre, post)
            /\ LET nf == post.faces[Len(post.faces)] IN
                  /\ Len(nf) = n
                  /\ \A h \in Rng(nf) : h \in LiveHE(post)
                  /\ ClosedLoop(post, nf)
                  /\ MapSeq(LAMBDA h : From(post, h), nf) = c.l
    [] OTHER -> TRUE

(* ------------------- C03: property values follow ----------------------- *)
(* one property: kind k in {"V","E","HE","F","HF","C","M"}, values before / *)
(* after, default                                                          *)
NSlots(s, k) ==
  CASE k = "V" -> s.nv [] k = "E" -> Len(s.edges) [] k = "HE" -> 2 * Len(s.edges)
    [] k = "F" -> Len(s.faces) [] k = "HF" -> 2 * Len(s.faces) [] k = "C" -> Len(s.cells)
    [] k = "M" -> 1
SlotLive(s, k, j) ==
  CASE k = "V" -> ~At(s.vdel, j) [] k = "E" -> ~At(s.edel, j) [] k = "HE" -> ~At(s.edel, Full(j))
    [] k = "F" -> ~At(s.fdel, j) [] k = "HF" -> ~At(s.fdel, Full(j)) [] k = "C" -> ~At(s.cdel, j)
    [] k = "M" -> TRUE
GSlot(g, k, j) ==
  CASE k = "V" -> At(g.V, j) [] k = "E" -> At(g.E, j) [] k = "HE" -> GHalf(g.E, j)
    [] k = "F" -> At(g.F, j) [] k = "HF" -> GHalf(g.F, j) [] k = "C" -> At(g.C, j)
    [] k = "M" -> 0

PropFollows(pre, post, g, k, before, after, def, allSlots) ==
  /\ Len(after) = NSlots(post, k)
  /\ \A j \in 0 .. (NSlots(post, k) - 1) :
        (allSlots \/ SlotLive(post, k, j)) =>
           LET i == GSlot(g, k, j) IN
           IF i < NSlots(pre, k) THEN At(after, j) = At(before, i) ELSE At(after, j) = def

(* model-side form of the same statement: the tracked vectors stay aligned *)
(* with the ghost identities                                               *)
AlignedFull(p, gk, n0)  == Len(p) = Len(gk) /\
   \A j \in 1 .. Len(p) : IF gk[j] < n0 THEN p[j] = gk[j] ELSE p[j] = DefaultTok
AlignedHalf(p, gk, n0)  == Len(p) = 2 * Len(gk) /\
   \A j \in 0 .. (Len(p) - 1) : IF At(gk, Full(j)) < n0 THEN At(p, j) = GHalf(gk, j) ELSE At(p, j) = DefaultTok
ModelPropsAligned(pre, m) ==
  /\ AlignedFull(m.pV, m.gV, pre.nv) /\ AlignedFull(m.pE, m.gE, Len(pre.edges))
  /\ AlignedHalf(m.pHE, m.gE, Len(pre.edges))
  /\ AlignedFull(m.pF, m.gF, Len(pre.faces)) /\ AlignedHalf(m.pHF, m.gF, Len(pre.faces))
  /\ AlignedFull(m.pC, m.gC, Len(pre.cells))

(* ------------------------------ other calls ---------------------------- *)
IsEnableBU(c) == c.op \in {"enable_vbu", "enable_ebu", "enable_fbu", "enable_bu"}
EnableRel(pre, c, post) ==
  /\ SameCore(pre, post)
  /\ post.vbu = (IF c.op \in {"enable_vbu", "enable_bu"} THEN c.f ELSE pre.vbu)
  /\ post.ebu = (IF c.op \in {"enable_ebu", "enable_bu"} THEN c.f ELSE pre.ebu)
  /\ post.fbu = (IF c.op \in {"enable_fbu", "enable_bu"} THEN c.f ELSE pre.fbu)
  /\ post.deferred = pre.deferred /\ post.fast = pre.fast

(* reorder_incident_halffaces(e), called by the user: nothing but the two   *)
(* rows of that edge may change, and those only by a permutation            *)
RowPerm(a, b) == Len(a) = Len(b) /\ \A x \in Rng(a) \cup Rng(b) : Count(a, x) = Count(b, x)
ReorderRel(pre, c, post) ==
  /\ SameCore(pre, post) /\ SameModes(pre, post)
  /\ post.out = pre.out /\ post.inc = pre.inc
  /\ Len(post.hehf) = Len(pre.hehf)
  /\ \A i \in 1 .. Len(pre.hehf) :
        IF i - 1 \in {2 * c.a, 2 * c.a + 1} THEN RowPerm(post.hehf[i], pre.hehf[i])
        ELSE post.hehf[i] = pre.hehf[i]

(* reserve_*: capacity only, nothing observable changes                     *)
ReserveRel(pre, post) ==
  /\ SameCore(pre, post) /\ SameModes(pre, post)
  /\ post.out = pre.out /\ post.inc = pre.inc /\ post.hehf = pre.hehf
  /\ \A e \in Hs(pre.edges) : At(post.edges, e) = At(pre.edges, e)

ClearRel(pre, post) ==
  /\ post.nv = 0 /\ post.edges = <<>> /\ post.faces = <<>> /\ post.cells = <<>>
  /\ post.vdel = <<>> /\ post.edel = <<>> /\ post.fdel = <<>> /\ post.cdel = <<>>
  /\ post.ndv = 0 /\ post.nde = 0 /\ post.ndf = 0 /\ post.ndc = 0

SetRel(pre, c, post) ==
  /\ SameModes(pre, post)
  /\ post.nv = pre.nv /\ post.vdel = pre.vdel /\ post.edel = pre.edel
  /\ post.fdel = pre.fdel /\ post.cdel = pre.cdel
  /\ post.edges = (IF c.op = "set_edge" THEN Put(pre.edges, c.a, c.l) ELSE pre.edges)
  /\ post.faces = (IF c.op = "set_face" THEN Put(pre.faces, c.a, c.l) ELSE pre.faces)
  /\ post.cells = (IF c.op = "set_cell" THEN Put(pre.cells, c.a, c.l) ELSE pre.cells)

(* the map a call induces on slots when nothing is renumbered              *)
GrowMap(pre, post) ==
  [V |-> Iota(post.nv), E |-> Iota(Len(post.edges)), F |-> Iota(Len(post.faces)), C |-> Iota(Len(post.cells))]

(* What delete_* returns: an entity iterator.  The code constructs it at   *)
(* the slot after the victim (deferred), at the victim's slot (immediate:  *)
(* the successor has moved there), or at the old last slot (fast: that is  *)
(* past the end now), and the constructor skips deleted slots.  Not part   *)
(* of any listed property: compared as conformance of the model (drift).   *)
DelFlagsOf(s, c) ==
  CASE c.op = "delete_vertex" -> s.vdel [] c.op = "delete_edge" -> s.edel
    [] c.op = "delete_face" -> s.fdel   [] c.op = "delete_cell" -> s.cdel
IterFrom(del, i) ==
  LET live == {j \in i .. Len(del) - 1 : ~At(del, j)} IN IF live = {} THEN -1 ELSE Min(live)
DeleteRetExpected(pre, c, post) ==
  IterFrom(DelFlagsOf(post, c),
           IF pre.deferred THEN c.a + 1 ELSE IF pre.fast THEN Len(DelFlagsOf(post, c)) ELSE c.a)

(* The step relation of the whole kernel, by call.  g is only consulted    *)
(* where the property says 'possibly under a new handle'.                  *)
StepRel(pre, c, post, ret, g) ==
  CASE IsDelete(c)    -> DeleteRel(pre, c, post, g)
    [] IsGC(pre, c)   -> GCRel(pre, c, post, g)
    [] IsSwap(c)      -> SwapRel(pre, c, post)
    [] c.op = "status_gc" -> StatusGCRel(pre, [c EXCEPT !.a = 0], post, g, <<>>)
    [] c.op \in {"add_vertex", "add_edge", "add_face", "add_cell", "add_face_v"} -> AddRel(pre, c, post, ret)
    [] c.op = "add_n_vertices" ->
         /\ post.nv = pre.nv + c.a /\ post.vdel = pre.vdel \o Rep(c.a, FALSE)
         /\ post.edges = pre.edges /\ post.faces = pre.faces /\ post.cells = pre.cells
         /\ SameModes(pre, post)
    [] IsEnableBU(c)  -> EnableRel(pre, c, post)
    [] c.op = "enable_deferred" -> SameCore(pre, post) /\ post.deferred = c.f /\ post.fast = pre.fast
    [] c.op = "enable_fast" -> SameCore(pre, post) /\ post.fast = c.f /\ post.deferred = pre.deferred
    [] c.op = "clear" -> ClearRel(pre, post)
    [] c.op = "reorder" -> ReorderRel(pre, c, post)
    [] c.op = "reserve" -> ReserveRel(pre, post)
    [] c.op \in {"set_edge", "set_face", "set_cell"} -> SetRel(pre, c, post)
    [] OTHER -> TRUE

=============================================================================
