---------------------------- MODULE OVMPropsTrace ----------------------------
(***************************************************************************)
(* Trace validation (role V) for properties C13 / C14: consumes an ndjson  *)
(* trace recorded from the C++ implementation by harness/props_exec and    *)
(* evaluates, at every call line, the declarative layer of OVMProps on the *)
(* OBSERVED worlds:                                                        *)
(*   - the state predicates on the observed post world,                    *)
(*   - the step relation on the observed (pre, call, post, returned),      *)
(*   - and compares the observed post world with the operational model     *)
(*     Apply(pre, call) up to storage identities (a difference is DRIFT,   *)
(*     reported but not a violation: the property decides, not the model). *)
(* The spec is total: it always consumes the next line; failed checks are  *)
(* printed as VXBAD lines and counted.  One file holds many executions,    *)
(* separated by {"e":"reset"} lines; "pl" (added by the orchestrator from  *)
(* the executor's own sid/psid) is the line holding the pre world.         *)
(***************************************************************************)
EXTENDS OVMProps, Json, IOUtils

CONSTANTS Props     \* {"C14"} or {"C13"} or both

Tr == ndJsonDeserialize(IOEnv.TRACE)

VARIABLES l, nbad, ndrift, nchk, tainted
tvars == <<l, nbad, ndrift, nchk, tainted>>

Want(id) == id \in Props

(* ------------- observed JSON -> completed world of OVMProps ------------ *)
ObsKern(k) ==
  Kn!Tag([Kn!Empty EXCEPT
     !.nv = k.nv, !.vdel = k.vdel, !.edel = k.edel, !.fdel = k.fdel, !.cdel = k.cdel,
     !.ndv = k.ndv, !.nde = k.nde, !.ndf = k.ndf, !.ndc = k.ndc,
     !.edges = k.edges, !.faces = k.faces, !.cells = k.cells,
     !.vbu = k.vbu, !.ebu = k.ebu, !.fbu = k.fbu, !.deferred = k.deferred, !.fast = k.fast,
     !.out = k.out, !.hehf = k.hehf, !.inc = k.inc])
ByKind(a) == [k \in Kinds3 |-> a[KindIdx(k)]]
ObsMesh(mj) ==
  IF ~mj.al THEN DeadMeshC
  ELSE [alive |-> TRUE, ty |-> mj.ty, n |-> ByKind(mj.n), np |-> ByKind(mj.np), npp |-> ByKind(mj.npp),
        fd |-> [y \in 1 .. NKeys |-> mj.fd[y]], ex |-> [y \in 1 .. NKeys |-> mj.ex[y] = 1],
        trk |-> Rng(mj.trk), pers |-> Rng(mj.per), posh |-> mj.posh, posv |-> mj.posv,
        kern |-> ObsKern(mj.kern)]
ObsSto(sj) ==
  IF ~sj.lv THEN DeadSto
  ELSE [live |-> TRUE, kind |-> sj.k, type |-> sj.t, name |-> sj.s, shared |-> sj.sh, pers |-> sj.pe,
        trk |-> sj.tr, def |-> sj.d, vals |-> sj.v]
ObsView(hj) ==
  IF hj.st = 0 THEN NoView
  ELSE [ok |-> hj.ok, name |-> hj.s, shared |-> hj.sh, pers |-> hj.pe, size |-> hj.sz, vals |-> hj.v, def |-> hj.d]
Obs(pj) ==
  [mesh |-> [m \in DOMAIN pj.M |-> ObsMesh(pj.M[m])],
   sto  |-> [i \in DOMAIN pj.S |-> ObsSto(pj.S[i])],
   slot |-> [h \in DOMAIN pj.H |-> pj.H[h].st],
   sl   |-> [h \in DOMAIN pj.H |-> ObsView(pj.H[h])]]

(* the recorded line has the shape the rest of this module indexes into: a  *)
(* malformed observation becomes a verdict (OBS:Malformed), never an        *)
(* evaluation error                                                         *)
InR(q, lo, hi) == \A i \in DOMAIN q : q[i] >= lo /\ q[i] < hi
WFKern(k) ==
  LET ne == Len(k.edges)  nf == Len(k.faces)  nc == Len(k.cells) IN
  /\ k.nv >= 0 /\ Len(k.vdel) = k.nv /\ Len(k.edel) = ne /\ Len(k.fdel) = nf /\ Len(k.cdel) = nc
  /\ \A i \in DOMAIN k.edges : Len(k.edges[i]) = 2 /\ InR(k.edges[i], 0, k.nv)
  /\ \A i \in DOMAIN k.faces : InR(k.faces[i], 0, 2 * ne)
  /\ \A i \in DOMAIN k.cells : InR(k.cells[i], 0, 2 * nf)
  /\ Len(k.out) = (IF k.vbu THEN k.nv ELSE 0) /\ \A i \in DOMAIN k.out : InR(k.out[i], 0, 2 * ne)
  /\ Len(k.hehf) = (IF k.ebu THEN 2 * ne ELSE 0) /\ \A i \in DOMAIN k.hehf : InR(k.hehf[i], 0, 2 * nf)
  /\ Len(k.inc) = (IF k.fbu THEN 2 * nf ELSE 0) /\ InR(k.inc, -1, nc)
WFObs(pj) ==
  LET ns == Len(pj.S) IN
  /\ Len(pj.M) = 3 /\ Len(pj.H) = 4
  /\ \A m \in DOMAIN pj.M : pj.M[m].al =>
        /\ Len(pj.M[m].n) = 7 /\ Len(pj.M[m].np) = 7 /\ Len(pj.M[m].npp) = 7 /\ Len(pj.M[m].npw) = 7
        /\ InR(pj.M[m].perw, 1, ns + 1)
        /\ Len(pj.M[m].fd) = NKeys /\ Len(pj.M[m].ex) = NKeys
        /\ InR(pj.M[m].fd, 0, ns + 1) /\ InR(pj.M[m].trk, 1, ns + 1) /\ InR(pj.M[m].per, 1, ns + 1)
        /\ pj.M[m].posh >= 0 /\ pj.M[m].posh <= ns
        /\ pj.M[m].ty \in Rng(MTypeSeq)
        /\ WFKern(pj.M[m].kern)
  /\ \A h \in DOMAIN pj.H : pj.H[h].st >= 0 /\ pj.H[h].st <= ns
  /\ \A i \in DOMAIN pj.S : pj.S[i].lv => pj.S[i].tr \in 0 .. 3

(* the per-kind convenience API reports what the generic templates report:   *)
(* n_<kind>_props() = n_props<Kind>(), <kind>_props_begin()/end() enumerate   *)
(* the persistent properties of the kind                                      *)
WrappersAgree(pj) ==
  \A m \in DOMAIN pj.M : pj.M[m].al =>
     /\ pj.M[m].npw = pj.M[m].np
     /\ Len(pj.M[m].perw) = Len(pj.M[m].per) /\ Rng(pj.M[m].perw) = Rng(pj.M[m].per)

(* what the storage says about itself agrees with the tracker that lists it *)
AttachedIffTracked(pj) == \A i \in DOMAIN pj.S : pj.S[i].lv => (pj.S[i].att = (pj.S[i].tr # 0))

(* -------------------- the model run on an observed world --------------- *)
Pad == 8
ToModel(x) ==
  [mesh |-> [m \in DOMAIN x.mesh |->
               IF ~x.mesh[m].alive THEN DeadMesh
               ELSE [alive |-> TRUE, ty |-> x.mesh[m].ty, kern |-> x.mesh[m].kern, trk |-> x.mesh[m].trk,
                     pers |-> x.mesh[m].pers, posh |-> x.mesh[m].posh]],
   sto  |-> [i \in 1 .. (Len(x.sto) + Pad) |-> IF i <= Len(x.sto) THEN x.sto[i] ELSE DeadSto],
   slot |-> x.slot, ret |-> "ok", err |-> "", busy |-> {}]

(* a completed world up to storage identities *)
StoOr(x, i) == IF i = 0 THEN DeadSto ELSE x.sto[i]
View(x) ==
  [slots  |-> [h \in DOMAIN x.slot |-> StoOr(x, x.slot[h])],
   alias  |-> {y \in (DOMAIN x.slot) \X (DOMAIN x.slot) : x.slot[y[1]] # 0 /\ x.slot[y[1]] = x.slot[y[2]]},
   meshes |-> [m \in DOMAIN x.mesh |->
                 [k |-> KPart(x, m), np |-> x.mesh[m].np, npp |-> x.mesh[m].npp, ex |-> x.mesh[m].ex,
                  t |-> {x.sto[i] : i \in x.mesh[m].trk}, p |-> {x.sto[i] : i \in x.mesh[m].pers},
                  pos |-> StoOr(x, x.mesh[m].posh),
                  f |-> [y \in 1 .. NKeys |-> StoOr(x, x.mesh[m].fd[y])]]],
   nlive  |-> Cardinality(LiveC(x))]

(* ----------------------------- contract -------------------------------- *)
SlotOps == {"set_shared", "set_persistent", "set_name", "h_copy", "h_move", "h_drop", "write", "touch"}
MeshOps == CreateOps \cup KernelOps \cup {"property_exists", "set_shared", "set_persistent", "clear_props",
             "clear_all_props", "clear", "set_vertex", "persist_pos", "pos_handle", "mesh_assign", "mesh_destroy"}
InContract(p, c) ==
  /\ (c.op \in SlotOps => c.b \in DOMAIN p.slot /\ p.slot[c.b] # 0)
  /\ (c.op \in MeshOps => c.a \in DOMAIN p.mesh /\ p.mesh[c.a].alive)
  /\ (c.op \in CreateOps \cup {"pos_handle"} => c.b \in DOMAIN p.slot)
  /\ (c.op \in {"set_shared", "set_persistent"} => p.sto[p.slot[c.b]].trk = c.a)
  /\ (c.op = "write" => c.l[1] < Len(p.sto[p.slot[c.b]].vals))
  /\ (c.op = "set_vertex" => c.l[1] < p.mesh[c.a].n["V"])
  /\ (c.op = "mesh_new" => ~p.mesh[c.a].alive)
  /\ (c.op = "mesh_copy" => ~p.mesh[c.a].alive /\ p.mesh[c.l[1]].alive)
  /\ (c.op = "mesh_assign" => p.mesh[c.l[1]].alive /\ Assignable(p.mesh[c.a].ty, p.mesh[c.l[1]].ty))
  /\ (c.op \in {"set_vertex", "persist_pos", "pos_handle"} => Geometric(p.mesh[c.a].ty))
  /\ (c.op \in {"h_copy", "h_move"} => c.l[1] \in DOMAIN p.slot /\ c.l[1] # c.b)

(* ----------------------------- one line -------------------------------- *)
LineCheck(i) ==
  LET ln  == Tr[i]
      p   == Obs(Tr[ln.pl].post)
      q   == Obs(ln.post)
      c   == ln.c
      ret == ln.ret
      inC == InContract(p, c)
      i14 == InvC14(q)
      i13 == InvC13(q)
      r13 == RelC13(p, q, c, ret)
      msg ==
        IF ~WFObs(ln.post) THEN "OBS:Malformed"
        ELSE IF ~inC THEN ""
        ELSE IF ~AttachedIffTracked(ln.post) THEN "OBS:AttachedIffTracked"
        ELSE IF Want("C14") /\ ~WrappersAgree(ln.post) THEN "C14:WrappersAgree"
        ELSE IF Want("C14") /\ i14 # "" THEN "C14:" \o i14
        ELSE IF Want("C14") /\ ~RelC14(p, q, c, ret) THEN "C14:Rel:" \o c.op
        ELSE IF Want("C13") /\ i13 # "" THEN "C13:" \o i13
        ELSE IF Want("C13") /\ r13 # "" THEN "C13:Copy:" \o r13
        ELSE IF Want("C13") /\ ~Independence(p, q, c) THEN "C13:Independence"
        ELSE ""
      mq    == Apply(ToModel(p), c)
      (* the model is only run from worlds on which it is defined *)
      drift == IF msg # "" \/ ~inC \/ InvC14(p) # "" \/ InvC13(p) # "" THEN 0
               ELSE IF mq.err # "" \/ mq.ret # ret THEN 1
               ELSE IF View(Complete(mq)) # View(q) THEN 1 ELSE 0
  IN [msg |-> msg, drift |-> drift, skipped |-> ~inC]

(* tainted: lines whose world descends from a rejected step; they are not   *)
(* judged again (one report per broken history, and no relation is ever    *)
(* evaluated from a pre world that is already known to be broken)          *)
TInit == l = 1 /\ nbad = 0 /\ ndrift = 0 /\ nchk = 0 /\ tainted = {}

TNext ==
  /\ l <= Len(Tr)
  /\ l' = l + 1
  /\ LET ln == Tr[l] IN
     IF ln.e = "call" /\ ln.pl \in tainted
     THEN tainted' = tainted \cup {l} /\ UNCHANGED <<nbad, ndrift, nchk>>
     ELSE IF ln.e = "call" /\ ln.chk
     THEN LET r == LineCheck(l) IN
          /\ nbad' = nbad + (IF r.msg = "" THEN 0
                             ELSE IF PrintT(<<"VXBAD", l, ln.x, ln.sid, r.msg>>) THEN 1 ELSE 1)
          /\ ndrift' = ndrift + (IF r.drift = 0 THEN 0
                             ELSE IF PrintT(<<"VXDRIFT", l, ln.x, ln.sid, ln.c.op>>) THEN 1 ELSE 1)
          /\ nchk' = nchk + (IF r.skipped THEN 0 ELSE 1)
          /\ tainted' = IF r.msg = "" THEN tainted ELSE tainted \cup {l}
     ELSE UNCHANGED <<nbad, ndrift, nchk, tainted>>

TSpec == TInit /\ [][TNext]_tvars

Done == (l = Len(Tr) + 1) => PrintT(<<"VXDONE", Len(Tr), nchk, nbad, ndrift>>)
=============================================================================
