------------------------------- MODULE OVMHex -------------------------------
(***************************************************************************)
(* Hexahedral kernel (property C16).                                       *)
(*                                                                         *)
(* Part 1, OPERATIONAL: transcription of HexahedralMeshTopologyKernel      *)
(* (src/OpenVolumeMesh/Mesh/HexahedralMeshTopologyKernel.{cc,hh},          *)
(* HexahedralMeshIterators.cc): valence guards, add_cell(halffaces, check) *)
(* with check_halfface_ordering and the automatic re-ordering,             *)
(* add_cell(8 vertices), orientation helpers, the HexVertexIter walk, the  *)
(* two sheet circulators, adjacent_halfface_on_sheet / on_surface.         *)
(*                                                                         *)
(* Part 2, DECLARATIVE: HexShape, HexConvention, agreement of the          *)
(* orientation accessors with the layout, HexVertsContract, SheetCells,    *)
(* SheetHalffaces, HexAddCellRel.  Part 2 does not refer to part 1.        *)
(***************************************************************************)
EXTENDS OVMTet

(***************************************************************************)
(*                        PART 1 - OPERATIONAL MODEL                       *)
(***************************************************************************)
HexAddFace(s, hes, check) == ValAddFace(s, 4, hes, check)
HexAddFaceV(s, vs)        == ValAddFaceV(s, 4, vs)

(* get_adjacent_halfface(hf, he, list): first member of the list other     *)
(* than hf that contains the opposite halfedge                             *)
GetAdjHF(s, hf, he, list) ==
  LET hits == SelectSeq(list, LAMBDA x : x # hf /\ x # -1 /\ Opp(he) \in Rng(HFHes(s, x))) IN
  IF hits = <<>> THEN -1 ELSE hits[1]

NextHE(s, he, hf) ==
  LET hes == HFHes(s, hf)
      pos == {i \in DOMAIN hes : hes[i] = he}
  IN IF pos = {} THEN -1 ELSE hes[(Min(pos) % Len(hes)) + 1]
PrevHE(s, he, hf) ==
  LET hes == HFHes(s, hf)
      pos == {i \in DOMAIN hes : hes[i] = he}
  IN IF pos = {} THEN -1 ELSE hes[((Min(pos) + Len(hes) - 2) % Len(hes)) + 1]

(* one half of check_halfface_ordering: around hf the neighbours must      *)
(* appear as hfs[ord[1]], hfs[ord[2]], ... cyclically (ord 0-based)        *)
OrderWalk(s, hfs, hf, ord) ==
  LET step(acc, he) ==
        IF ~acc.ok THEN acc ELSE
        LET a == GetAdjHF(s, hf, he, hfs) IN
        IF acc.off = -1
        THEN LET ks == {k \in 0 .. 3 : a = hfs[ord[k + 1] + 1]} IN
             [off |-> IF ks = {} THEN -1 ELSE Min(ks), ok |-> TRUE]
        ELSE LET o2 == (acc.off + 1) % 4 IN
             [off |-> o2, ok |-> a = hfs[ord[o2 + 1] + 1]]
      r == FoldLeft(step, [off |-> -1, ok |-> TRUE], HFHes(s, hf))
  IN r.ok /\ r.off # -1
CheckHalffaceOrdering(s, hfs) ==
  OrderWalk(s, hfs, hfs[1], <<2, 4, 3, 5>>) /\ OrderWalk(s, hfs, hfs[2], <<3, 4, 2, 5>>)

(* the automatic re-ordering of add_cell(halffaces, true): the first      *)
(* halfface stays, its neighbours across its halfedges go to positions    *)
(* 2, 4, 3, 5, the halfface opposite to it is found by walking over the    *)
(* first neighbour.  A missing neighbour rejects the list (repaired        *)
(* behaviour, /repo 739ef03; before, the slot kept InvalidHalfFaceHandle). *)
HexReorder(s, hfs) ==     \* returns [ok, l]
  LET top == hfs[1]
      hes == HFHes(s, top)
      ordTop == <<2, 4, 3, 5>>
      place(acc, he) ==
        LET a == GetAdjHF(s, top, he, hfs) IN
        IF ~acc.ok \/ a = -1 THEN [l |-> acc.l, idx |-> acc.idx, ok |-> FALSE]
        ELSE [l |-> [acc.l EXCEPT ![ordTop[acc.idx + 1] + 1] = a], idx |-> acc.idx + 1, ok |-> TRUE]
      r  == FoldLeft(place, [l |-> <<top, -1, -1, -1, -1, -1>>, idx |-> 0, ok |-> TRUE], hes)
  IN IF ~r.ok THEN [ok |-> FALSE, l |-> r.l]
     ELSE LET h1 == GetAdjHF(s, top, hes[1], hfs)
              e1 == NextHE(s, NextHE(s, Opp(hes[1]), h1), h1)
              h2 == IF e1 = -1 THEN -1 ELSE GetAdjHF(s, h1, e1, hfs)
          IN IF h2 = -1 THEN [ok |-> FALSE, l |-> r.l]
             ELSE [ok |-> TRUE, l |-> [r.l EXCEPT ![2] = h2]]

HexAddCell(s, hfs, check) ==
  IF Len(hfs) # 6 THEN [s EXCEPT !.ret = -1]
  ELSE IF \E i \in 1 .. 6 : Len(At(s.faces, Full(hfs[i]))) # 4 THEN [s EXCEPT !.ret = -1]
  ELSE IF ~check THEN AddCell(s, hfs, FALSE)
  ELSE IF CheckHalffaceOrdering(s, hfs) THEN AddCell(s, hfs, TRUE)
  ELSE LET r == HexReorder(s, hfs) IN
       IF ~r.ok THEN [s EXCEPT !.ret = -1]
       ELSE IF -1 \in Rng(r.l) THEN SetErr([s EXCEPT !.ret = -1], "hex_reorder_passes_invalid_halfface_to_add_cell")
       ELSE AddCell(s, r.l, TRUE)

(* find_halfface_extensive *)
FindHalffaceExt(s, vs) ==
  LET h0 == FindHalfedge(s, vs[1], vs[2]) IN
  IF h0 = -1 THEN -1 ELSE
  LET n == Len(vs)
      match(hf) ==
        LET hes == HFHes(s, hf) IN
        /\ Len(hes) = n
        /\ LET offs == {i \in 0 .. (n - 1) : hes[i + 1] = h0}
               off == IF offs = {} THEN 0 ELSE Max(offs)
           IN \A i \in 0 .. (n - 1) : From(s, hes[((i + off) % n) + 1]) = vs[i + 1]
      hits == SelectSeq(At(s.hehf, h0), match)
  IN IF hits = <<>> THEN -1 ELSE hits[1]

HexFaceLists(v) ==   \* XF XB YF YB ZF ZB as vertex lists (v is 1-based: v[i+1] = _vertices[i])
  << <<v[4], v[3], v[2], v[1]>>, <<v[8], v[7], v[6], v[5]>>,
     <<v[2], v[3], v[7], v[8]>>, <<v[5], v[6], v[4], v[1]>>,
     <<v[2], v[8], v[5], v[1]>>, <<v[3], v[4], v[6], v[7]>> >>

HexAddCellV(s, v, check) ==
  IF ~FullBU(s) \/ Len(v) # 8 THEN [s EXCEPT !.ret = -1] ELSE
  LET fl == HexFaceLists(v)
      found == [i \in 1 .. 6 |-> FindHalffaceExt(s, fl[i])]
      mk(acc, i) ==
        IF found[i] # -1 THEN [s |-> acc.s, hfs |-> Append(acc.hfs, found[i])]
        ELSE LET s2 == AddFaceV(acc.s, fl[i]) IN [s |-> s2, hfs |-> Append(acc.hfs, 2 * s2.ret)]
      r == FoldLeft(mk, [s |-> s, hfs |-> <<>>], <<1, 2, 3, 4, 5, 6>>)
  IN IF check /\ VCellCheckFails(r.s, r.hfs) THEN [r.s EXCEPT !.ret = -1]
     ELSE AddCell(r.s, r.hfs, FALSE)

(* ------------------------------ queries -------------------------------- *)
HexOrientation(s, hf, c) ==
  LET pos == {i \in DOMAIN At(s.cells, c) : At(s.cells, c)[i] = hf} IN
  IF pos = {} THEN 6 ELSE Min(pos) - 1
OppositeOrientation(d) == IF d % 2 = 0 THEN d + 1 ELSE d - 1
HexOppInCell(s, hf, c) ==
  LET o == HexOrientation(s, hf, c) IN
  IF o = 6 THEN -1 ELSE At(s.cells, c)[OppositeOrientation(o) + 1]

(* the HexVertexIter walk *)
HexVertices(s, c) ==
  LET hf0 == At(s.cells, c)[1]
      e0  == HFHes(s, hf0)[1]
      e1  == PrevHE(s, e0, hf0)
      e2  == PrevHE(s, e1, hf0)
      e3  == PrevHE(s, e2, hf0)
      e4  == PrevHE(s, e3, hf0)
      hfA == Adj(s, hf0, e4)
      e5  == NextHE(s, NextHE(s, Opp(e4), hfA), hfA)
      hfB == Adj(s, hfA, e5)
      e6  == Opp(e5)
      e7  == PrevHE(s, e6, hfB)
      e8  == PrevHE(s, e7, hfB)
  IN <<From(s, e0), From(s, e1), From(s, e2), From(s, e3),
       To(s, e6), To(s, e7), To(s, e8), From(s, e8)>>

SheetCellsOp(s, c, dir) ==
  LET hfs == At(s.cells, c)
      ns == {At(s.inc, Opp(hfs[i])) : i \in {i \in DOMAIN hfs : (i - 1) # dir /\ (i - 1) # OppositeOrientation(dir)}}
  IN SortedSeq(ns \ {-1})
SheetHalffacesOp(s, hf) ==
  IF ~s.fbu \/ At(s.inc, hf) = -1 THEN <<>> ELSE
  LET c == At(s.inc, hf)
      o == HexOrientation(s, hf, c)
      hes == Rng(HFHes(s, Opp(hf)))
      perCell(n) == SelectSeq(At(s.cells, n), LAMBDA g : Rng(HFHes(s, g)) \cap hes # {})
  IN FoldLeft(LAMBDA acc, n : acc \o perCell(n), <<>>, SheetCellsOp(s, c, o))

AdjOnSheet(s, hf, he) ==
  IF ~s.fbu THEN -1 ELSE
  LET a1 == Adj(s, hf, he)
      a2 == IF a1 = -1 THEN -1 ELSE Adj(s, Opp(a1), he)
  IN IF a2 # -1 THEN a2 ELSE
     LET b1 == Adj(s, Opp(hf), Opp(he))
         b2 == IF b1 = -1 THEN -1 ELSE Adj(s, Opp(b1), Opp(he))
     IN IF b2 = -1 THEN -1 ELSE Opp(b2)
AdjOnSurface(s, hf, he) ==
  LET pick(x) == IF At(s.inc, x) = -1 THEN x ELSE IF At(s.inc, Opp(x)) = -1 THEN Opp(x) ELSE -1
      cand == SelectSeq(At(s.hehf, he), LAMBDA x : x # hf /\ pick(x) # -1)
  IN IF cand = <<>> THEN -1 ELSE pick(cand[1])

(* ------------------------------ dispatcher ----------------------------- *)
HexOps == {"add_face", "add_face_v", "add_cell", "hex_add_cell_v"}
HexApply(s0, c) ==
  IF c.op \notin HexOps THEN Apply(s0, c) ELSE
  LET s == Tag(s0) IN
  CASE c.op = "add_face"       -> HexAddFace(s, c.l, c.f)
    [] c.op = "add_face_v"     -> HexAddFaceV(s, c.l)
    [] c.op = "add_cell"       -> HexAddCell(s, c.l, c.f)
    [] c.op = "hex_add_cell_v" -> HexAddCellV(s, c.l, c.f)

(***************************************************************************)
(*                        PART 2 - DECLARATIVE LAYER                       *)
(***************************************************************************)
HexFaceOK(s, f) == Len(At(s.faces, f)) = 4
HexCellOK(s, c) == LET hfs == At(s.cells, c) IN
                   /\ Len(hfs) = 6 /\ Cardinality({Full(h) : h \in Rng(hfs)}) = 6
                   /\ Cardinality(CellVertSet(s, c)) = 8
HexShape(s) == /\ \A f \in LiveF(s) : HexFaceOK(s, f)
               /\ \A c \in LiveC(s) : HexCellOK(s, c)

(* the halffaces of cell c, other than hf, across halfedge he of hf        *)
Across(s, c, hf, he) == {g \in Rng(At(s.cells, c)) \ {hf} : Opp(he) \in Rng(HFHes(s, g))}
(* the neighbours met when walking around hf's halfedges (a sequence of    *)
(* sets; singletons in a cube)                                             *)
AroundSeq(s, c, hf) == LET hes == HFHes(s, hf) IN [i \in 1 .. Len(hes) |-> Across(s, c, hf, hes[i])]
TheElem(S) == CHOOSE x \in S : TRUE

(* x-front, x-back, y-front, y-back, z-front, z-back                       *)
HexConvention(s, c) ==
  LET h == At(s.cells, c) IN
  /\ HexCellOK(s, c)
  /\ \A k \in 0 .. 2 : Rng(HFVerts(s, h[2 * k + 1])) \cap Rng(HFVerts(s, h[2 * k + 2])) = {}
  /\ LET ar == AroundSeq(s, c, h[1]) IN
     /\ Len(ar) = 4 /\ \A i \in 1 .. 4 : Cardinality(ar[i]) = 1
     /\ [i \in 1 .. 4 |-> TheElem(ar[i])] \in Rots(<<h[3], h[5], h[4], h[6]>>)
HexConventionAll(s) == \A c \in LiveC(s) : HexConvention(s, c)

(* the halfface met after g when walking around hf inside cell c           *)
NextAround(s, c, hf, g) ==
  LET ar == AroundSeq(s, c, hf)
      is == {i \in DOMAIN ar : ar[i] = {g}}
  IN IF Cardinality(is) # 1 THEN -1
     ELSE LET nx == ar[(TheElem(is) % Len(ar)) + 1] IN IF Cardinality(nx) = 1 THEN TheElem(nx) ELSE -1

(* r: the raw answers logged for cell c                                    *)
(*   r.ori  <<hf, orientation(hf, c)>> for the cell's halffaces and their opposites *)
(*   r.opp  <<hf, opposite_halfface_handle_in_cell(hf, c)>>   same arguments        *)
(*   r.xf r.xb r.yf r.yb r.zf r.zb, r.goh (get_oriented_halfface for 0..5)         *)
HexOrientationAgrees(s, c, r) ==
  LET h == At(s.cells, c) IN
  /\ \A k \in DOMAIN r.ori :
        LET hf == r.ori[k][1]  o == r.ori[k][2] IN
        IF hf \in Rng(h) THEN o \in 0 .. 5 /\ h[o + 1] = hf ELSE o = 6
  /\ \A k \in DOMAIN r.opp :
        LET hf == r.opp[k][1]  g == r.opp[k][2] IN
        hf \in Rng(h) =>
           /\ g \in Rng(h)
           /\ Rng(HFVerts(s, g)) \cap Rng(HFVerts(s, hf)) = {}
  /\ <<r.xf, r.xb, r.yf, r.yb, r.zf, r.zb>> = h
  /\ r.goh = h
(* orth: the 6 x 6 table of orthogonal_orientation (0-based values, 6 =     *)
(* INVALID); oppo: opposite_orientation for 0..5.  Against the layout of    *)
(* an actual cell: orth(o1, o2) is the direction whose halfface is met      *)
(* right after the o2-halfface when walking around the o1-halfface.         *)
HexOrthAgrees(s, c, orth, oppo) ==
  LET h  == At(s.cells, c)
      AR == [o \in 1 .. 6 |-> AroundSeq(s, c, h[o])]        \* computed once per direction
      nxt(o1, g) == LET ar == AR[o1]
                        is == {i \in DOMAIN ar : ar[i] = {g}}
                    IN IF Cardinality(is) # 1 THEN -1
                       ELSE LET nx == ar[(TheElem(is) % Len(ar)) + 1] IN IF Cardinality(nx) = 1 THEN TheElem(nx) ELSE -1
  IN
  /\ \A o \in 0 .. 5 : oppo[o + 1] \in 0 .. 5 /\
        Rng(HFVerts(s, h[oppo[o + 1] + 1])) \cap Rng(HFVerts(s, h[o + 1])) = {}
  /\ \A o1, o2 \in 0 .. 5 :
        LET o3 == orth[o1 + 1][o2 + 1] IN
        IF o1 \div 2 = o2 \div 2 THEN o3 = 6
        ELSE o3 \in 0 .. 5 /\ nxt(o1 + 1, h[o2 + 1]) = h[o3 + 1]

(* hex_vertices: the documented cube pattern up to a rotation about the     *)
(* first axis                                                              *)
CellEdgePairs(s, c) == {EdgeVertSet(s, Full(he)) : he \in UNION {Rng(HFHes(s, hf)) : hf \in Rng(At(s.cells, c))}}
HexVertsContract(s, c, L) ==
  LET h == At(s.cells, c)
      w == HFVerts(s, h[1])
      E == CellEdgePairs(s, c)
  IN /\ IsSeqOfLen(L, 8)
     /\ Cardinality(Rng(L)) = 8 /\ Rng(L) = CellVertSet(s, c)
     /\ <<L[1], L[2], L[3], L[4]>> = <<w[1], w[4], w[3], w[2]>>
     /\ {L[5], L[6], L[7], L[8]} = Rng(HFVerts(s, h[2]))
     /\ {L[1], L[5]} \in E /\ {L[2], L[8]} \in E /\ {L[3], L[7]} \in E /\ {L[4], L[6]} \in E

(* the sheet of cell c orthogonal to direction dir: the neighbours across   *)
(* the four halffaces not on dir's axis                                     *)
SheetCells(s, c, dir) ==
  LET h == At(s.cells, c) IN
  UNION {CellsOfHF(s, Opp(h[i])) : i \in {i \in 1 .. 6 : (i - 1) \div 2 # dir \div 2}}
(* the halffaces of those neighbours that continue hf across one of its     *)
(* edges (they carry a halfedge of hf's opposite halfface)                  *)
MatchHF(s, hf, n) == {g \in Rng(At(s.cells, n)) : Rng(HFHes(s, g)) \cap Rng(HFHes(s, Opp(hf))) # {}}
SheetHalffaces(s, hf) ==
  LET cs == CellsOfHF(s, hf) IN
  IF cs = {} THEN {}
  ELSE LET c == TheElem(cs)
           o == TheElem({i \in 1 .. 6 : At(s.cells, c)[i] = hf}) - 1
       IN UNION {MatchHF(s, hf, n) : n \in SheetCells(s, c, o)}

(* add_cell(halffaces, topology check): accepted => one cell appended whose *)
(* stored list is a re-ordering of the given one and obeys the convention;  *)
(* rejected => nothing observable changed                                   *)
SameBag(p, q) == Len(p) = Len(q) /\ \A x \in Rng(p) \cup Rng(q) : Count(p, x) = Count(q, x)
HexAddCellRel(pre, hfs, post, ret) ==
  IF ret = -1 THEN Unchanged(pre, post)
  ELSE /\ ret = Len(pre.cells)
       /\ Len(post.cells) = Len(pre.cells) + 1
       /\ AppendRel(pre, post, "C", post.cells[Len(post.cells)])
       /\ SameBag(At(post.cells, ret), hfs)
       /\ WellFormed(post)
       /\ ClosedSurface(post, At(post.cells, ret))
       /\ HexConvention(post, ret)
(* C11: add_cell(halffaces, check) of the hexahedral kernel is accepted iff   *)
(* six quads and (with topology check) a closed surface; accepted => exactly *)
(* one cell appended whose halffaces are the given ones (re-ordered only     *)
(* under topology check); rejected => invalid handle, nothing changed        *)
HexAddCellC11(pre, c, post, ret) ==
  LET l == c.l
      accept == /\ Len(l) = 6 /\ \A i \in 1 .. 6 : Len(At(pre.faces, Full(l[i]))) = 4
                /\ c.f => ClosedSurface(pre, l)
  IN IF accept
     THEN /\ ret = Len(pre.cells) /\ Len(post.cells) = Len(pre.cells) + 1
          /\ AppendRel(pre, post, "C", post.cells[Len(post.cells)])
          /\ IF c.f THEN SameBag(post.cells[Len(post.cells)], l) ELSE post.cells[Len(post.cells)] = l
     ELSE ret = -1 /\ Unchanged(pre, post)

(* add_cell(8 vertices): accepted => one more cell, closed, obeying the     *)
(* convention, on exactly the given vertices; nothing that lived is gone    *)
HexAddCellVRel(pre, vs, post, ret) ==
  /\ WellFormed(post) /\ HexShape(post)
  /\ post.nv = pre.nv
  /\ LiveE(pre) \subseteq LiveE(post) /\ LiveF(pre) \subseteq LiveF(post) /\ LiveC(pre) \subseteq LiveC(post)
  /\ \A c \in LiveC(pre) : At(post.cells, c) = At(pre.cells, c)
  /\ IF ret = -1 THEN LiveC(post) = LiveC(pre)
     ELSE /\ LiveC(post) = LiveC(pre) \cup {ret} /\ ret \notin LiveC(pre)
          /\ ClosedSurface(post, At(post.cells, ret))
          /\ HexConvention(post, ret)
          /\ CellVertSet(post, ret) = Rng(vs)

=============================================================================
