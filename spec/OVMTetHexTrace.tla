--------------------------- MODULE OVMTetHexTrace ---------------------------
(***************************************************************************)
(* Trace validation (role V) for the tetrahedral (C15) and hexahedral      *)
(* (C16) kernels.  Consumes an ndjson trace recorded by                    *)
(* harness/tethex_exec from the C++ implementation and evaluates, at every *)
(* line, the declarative layers of OVMTet / OVMHex on the OBSERVED data:   *)
(*   - state predicates (TetShape / HexShape, HexConvention) on every      *)
(*     observed state,                                                     *)
(*   - step relations (CollapseRel, HexAddCellRel) on observed             *)
(*     (pre, call, post, result),                                          *)
(*   - query contracts on the logged raw answers ("q"),                    *)
(*   - and compares post states / answers with the operational model       *)
(*     (TetApply / HexApply and the query transcriptions): a difference    *)
(*     there is DRIFT, never a violation.                                  *)
(* Same protocol as OVMTrace: total, VXBAD / VXDRIFT / VXDONE lines; plus  *)
(* one VXINFO line with coverage counters.                                 *)
(***************************************************************************)
EXTENDS OVMHex, Json, IOUtils

CONSTANTS Props     \* {"C15"}, {"C16"} or {"C03"} (property values through collapse_edge)

Tr == ndJsonDeserialize(IOEnv.TRACE)

VARIABLES l, nbad, ndrift, nchk, info
tvars == <<l, nbad, ndrift, nchk, info>>

Has(rec, f) == f \in DOMAIN rec
Want(id) == id \in Props

(* observed JSON state -> model record (as in OVMTrace)                    *)
Obs(p) ==
  Tag([Empty EXCEPT
     !.nv = p.nv, !.vdel = p.vdel, !.edel = p.edel, !.fdel = p.fdel, !.cdel = p.cdel,
     !.ndv = p.ndv, !.nde = p.nde, !.ndf = p.ndf, !.ndc = p.ndc,
     !.edges = p.edges, !.faces = p.faces, !.cells = p.cells,
     !.vbu = p.vbu, !.ebu = p.ebu, !.fbu = p.fbu, !.deferred = p.deferred, !.fast = p.fast,
     !.out = IF Has(p, "out") THEN p.out ELSE <<>>,
     !.hehf = IF Has(p, "hehf") THEN p.hehf ELSE <<>>,
     !.inc = IF Has(p, "inc") THEN p.inc ELSE <<>>])
Strip(s) == [s EXCEPT !.pV = <<>>, !.pE = <<>>, !.pHE = <<>>, !.pF = <<>>, !.pHF = <<>>, !.pC = <<>>,
                      !.gV = <<>>, !.gE = <<>>, !.gF = <<>>, !.gC = <<>>,
                      !.idV = 0, !.idE = 0, !.idF = 0, !.idC = 0, !.ret = Void, !.err = ""]

(* vertex map candidate from the executor's id property (checked, never   *)
(* trusted)                                                                *)
IdVals(p, k) ==
  IF ~Has(p, "props") THEN <<>> ELSE
  LET cands == {i \in DOMAIN p.props : p.props[i].k = k /\ p.props[i].t = "id"} IN
  IF cands = {} THEN <<>> ELSE p.props[CHOOSE i \in cands : TRUE].v
HintSeq(before, after) ==
  [j \in 1 .. Len(after) |->
     LET c == {i \in DOMAIN before : before[i] = after[j]} IN
     IF c = {} THEN Len(before) + j ELSE (CHOOSE i \in c : TRUE) - 1]

IsModelOp(c) == c.op \notin {"stamp", "more_props"}
Lookup(pairs, x) == LET hits == {i \in DOMAIN pairs : pairs[i][1] = x} IN
                    IF hits = {} THEN -99 ELSE pairs[CHOOSE i \in hits : TRUE][2]
FirstMsg(msgs) == LET bad == {i \in DOMAIN msgs : msgs[i] # ""} IN
                  IF bad = {} THEN "" ELSE msgs[CHOOSE i \in bad : \A k \in bad : i <= k]

(* counters of the VXINFO line *)
Zero == [col_in |-> 0, col_out |-> 0, col_cells_rebuilt |-> 0, cells_q |-> 0, labelings |-> 0, acc |-> 0, rej |-> 0, props_sized |-> 0, splits |-> 0, protocols |-> 0]
Nothing == [msg |-> "", drift |-> 0, d |-> Zero]
AddInfo(a, b) == [k \in DOMAIN a |-> a[k] + (IF k \in DOMAIN b THEN b[k] ELSE 0)]

(* =============================== C15 ==================================== *)
(* a cell is inside the contract of the vertex-order queries               *)
TetStateOK(s) == s.fbu /\ Manifoldish(s) /\ IncIsInverse(s)
TetQC(s) == IF TetStateOK(s) THEN {c \in LiveC(s) : ClosedTet(s, c)} ELSE {}

TetCellRecCheck(s, q, r, QC) ==
  LET c == r.c IN
  IF c \notin QC THEN "" ELSE
  IF ~CVC_C(s, c, r.gcv) THEN "C15:get_cell_vertices(cell)"
  ELSE IF ~(Has(r, "gcv_v") /\ Len(r.gcv_v) = 4 /\ Len(r.gcv_hf) = 4 /\ Len(r.gcv_hfhe) = 12 /\ Len(r.voh) = 4 /\ Has(r, "tv"))
       THEN "C15:query_answers_missing"
  ELSE IF \E k \in DOMAIN r.gcv_v : ~CVC_CV(s, c, r.gcv_v[k][1], r.gcv_v[k][2]) THEN "C15:get_cell_vertices(cell,vertex)"
  ELSE IF \E k \in DOMAIN r.gcv_hf : ~CVC_HF(s, c, r.gcv_hf[k][1], r.gcv_hf[k][2]) THEN "C15:get_cell_vertices(halfface)"
  ELSE IF \E k \in DOMAIN r.gcv_hfhe : ~CVC_HFHE(s, c, r.gcv_hfhe[k][1], r.gcv_hfhe[k][2], r.gcv_hfhe[k][3])
       THEN "C15:get_cell_vertices(halfface,halfedge)"
  ELSE IF \E k \in DOMAIN r.voh :
            LET v == r.voh[k][1]  g == r.voh[k][2] IN ~OppInv_V(s, c, v, g, Lookup(q.hov, g))
       THEN "C15:OppositeInverse(vertex)"
  ELSE IF \E hf \in Rng(At(s.cells, c)) :
            LET w == Lookup(q.hov, hf) IN ~OppInv_HF(s, c, hf, w, Lookup(r.voh, w))
       THEN "C15:OppositeInverse(halfface)"
  ELSE IF r.tv # r.gcv \/ r.tvr # r.gcv \/ r.tv2 # r.gcv \o r.gcv THEN "C15:tv_iter"
  ELSE ""

TetTopoCheck(s, T, QC) ==
  LET c == T.c IN
  IF c \notin QC THEN "" ELSE
  IF ~TetLabelVerts(s, c, T) THEN "C15:TetLabels:vertices:" \o T.form
  ELSE IF ~TetLabelHalfedges(s, c, T) THEN "C15:TetLabels:halfedges:" \o T.form
  ELSE IF ~TetLabelHalffaces(s, c, T) THEN "C15:TetLabels:halffaces:" \o T.form
  ELSE IF T.deep /\ ~TetLabelTriangles(s, c, T) THEN "C15:TetLabels:triangle_topology"
  ELSE IF T.deep /\ ~TetLabelInverse(s, c, T) THEN "C15:TetLabels:get_label"
  ELSE ""
(* the labelling honours the constructor's arguments (documented, but not  *)
(* part of the property text: reported as drift)                           *)
TetTopoArgsAgree(T) ==
  /\ T.hf # -1 => T.hfh["ABC"] = T.hf
  /\ T.a # -1 => T.vh["A"] = T.a
TriRecCheck(s, r) ==
  IF ~(r.hf \in LiveHF(s) /\ TetFaceOK(s, Full(r.hf)) /\ ClosedLoop(s, At(s.faces, Full(r.hf)))
       /\ Cardinality(Rng(HFVerts(s, r.hf))) = 3) THEN ""
  ELSE IF ~TriangleOK(s, r.hf, r.a, r.t) THEN "C15:TriangleTopology" ELSE ""

TetQueryCheck(s, q, QC) ==
  LET m1 == FirstMsg([i \in DOMAIN q.cells |-> TetCellRecCheck(s, q, q.cells[i], QC)]) IN
  IF m1 # "" THEN m1
  ELSE IF ~Has(q, "topo") THEN ""
  ELSE LET m2 == FirstMsg([i \in DOMAIN q.topo |-> TetTopoCheck(s, q.topo[i], QC)]) IN
       IF m2 # "" THEN m2 ELSE FirstMsg([i \in DOMAIN q.tris |-> TriRecCheck(s, q.tris[i])])

(* answers vs. the operational transcription: drift only                   *)
TetCellsQueried(s, q, QC) == Cardinality({i \in DOMAIN q.cells : q.cells[i].c \in QC})
TetQueryDrift(s, q, QC) ==
  \/ \E i \in DOMAIN q.cells : LET r == q.cells[i] IN r.c \in QC /\
        \/ r.gcv # GetCellVerticesC(s, r.c)
        \/ \E k \in DOMAIN r.gcv_v : r.gcv_v[k][2] # GetCellVerticesCV(s, r.c, r.gcv_v[k][1])
        \/ \E k \in DOMAIN r.voh : r.voh[k][2] # VertexOppositeHalfface(s, r.c, r.voh[k][1])
  \/ (QC # {} /\ TetShape(s)) /\
        \E k \in DOMAIN q.hov : q.hov[k][1] \in LiveHF(s) /\
           (At(s.inc, q.hov[k][1]) = -1 \/ At(s.inc, q.hov[k][1]) \in QC) /\
           q.hov[k][2] # HalffaceOppositeVertex(s, q.hov[k][1])
  \/ Has(q, "topo") /\ \E i \in DOMAIN q.topo : ~TetTopoArgsAgree(q.topo[i])

TetLine(ln, pp, qp) ==
  LET c    == ln.c
      pre  == Obs(pp)
      post == Obs(qp)
      mod  == IsModelOp(c)
      m    == IF mod THEN TetApply(pre, c) ELSE pre
      QC   == TetQC(post)
      isCol == mod /\ c.op = "collapse_edge"
      inC  == isCol /\ CollapseInContract(pre, c.a)
      cands == IF ~isCol THEN <<>> ELSE
               << m.gV, HintSeq(IdVals(pp, "V"), IdVals(qp, "V")), MonotoneVMap(pre, post, From(pre, c.a)) >>
      colOK == \E i \in DOMAIN cands : CollapseRel(pre, c.a, post, ln.ret, cands[i])
      qmsg == IF Has(ln, "q") THEN TetQueryCheck(post, ln.q, QC) ELSE ""
      msg  == IF ~WellFormed(post) THEN "C15:WellFormed"
              ELSE IF ~TetShape(post) THEN "C15:TetShape"
              ELSE IF inC /\ ~colOK THEN "C15:CollapseRel"
              ELSE IF mod /\ c.op \in {"tet_add_cell_4", "tet_add_cell_v"} /\ AddTetInContract(pre, c.l)
                      /\ ~AddTetRel(pre, c.l, post, ln.ret) THEN "C15:AddTetRel"
              ELSE qmsg
      drift == \/ mod /\ Strip(m) # Strip(post)
               \/ mod /\ ~IsDelete(c) /\ ln.ret # -2 /\ m.ret # ln.ret      \* (delete_* log the returned iterator, the kernel trace spec owns that)
               \/ Has(ln, "q") /\ TetQueryDrift(post, ln.q, QC)
  IN [msg |-> msg, drift |-> IF drift THEN 1 ELSE 0,
      d |-> [col_in |-> IF inC THEN 1 ELSE 0, col_out |-> IF isCol /\ ~inC THEN 1 ELSE 0,
             col_cells_rebuilt |-> IF inC /\ \E x \in LiveC(pre) : From(pre, c.a) \in CellVertSet(pre, x) /\ To(pre, c.a) \notin CellVertSet(pre, x)
                                   THEN 1 ELSE 0,
             cells_q |-> IF Has(ln, "q") THEN TetCellsQueried(post, ln.q, QC) ELSE 0,
             labelings |-> IF Has(ln, "q") /\ Has(ln.q, "topo") THEN Len(ln.q.topo) ELSE 0,
             acc |-> 0, rej |-> 0]]

TetState(ln) ==      \* a 'pre' line: state predicates and queries on the seed state
  LET post == Obs(ln.post)
      QC   == TetQC(post)
      qmsg == IF Has(ln, "q") THEN TetQueryCheck(post, ln.q, QC) ELSE ""
      msg  == IF ~WellFormed(post) THEN "C15:WellFormed" ELSE IF ~TetShape(post) THEN "C15:TetShape" ELSE qmsg
  IN [msg |-> msg, drift |-> IF Has(ln, "q") /\ TetQueryDrift(post, ln.q, QC) THEN 1 ELSE 0,
      d |-> [col_in |-> 0, col_out |-> 0, col_cells_rebuilt |-> 0,
             cells_q |-> IF Has(ln, "q") THEN TetCellsQueried(post, ln.q, QC) ELSE 0,
             labelings |-> IF Has(ln, "q") /\ Has(ln.q, "topo") THEN Len(ln.q.topo) ELSE 0, acc |-> 0, rej |-> 0]]

(* =============================== C03 (through collapse_edge) ============= *)
(* sizes of all tracked properties on every tetrahedral step; values through  *)
(* the bijections of CollapseRel on in-contract collapses; vertex values      *)
(* handle for handle through split_edge / split_face (no vertex is removed)   *)
PropsAllSized(post, pp, qp) ==
  /\ Len(qp.props) = Len(pp.props)
  /\ \A i \in DOMAIN qp.props : qp.props[i].k = pp.props[i].k /\ PropSized(post, qp.props[i])
C03Line(ln, pp, qp) ==
  LET c    == ln.c
      pre  == Obs(pp)
      post == Obs(qp)
      mod  == IsModelOp(c)
      hasP == Has(pp, "props") /\ Has(qp, "props")
      m    == IF mod THEN TetApply(pre, c) ELSE pre
      isCol == mod /\ c.op = "collapse_edge"
      inC  == isCol /\ CollapseInContract(pre, c.a)
      cands == IF ~inC THEN <<>> ELSE
               << m.gV, HintSeq(IdVals(pp, "V"), IdVals(qp, "V")), MonotoneVMap(pre, post, From(pre, c.a)) >>
      okc  == {i \in DOMAIN cands : CollapseRel(pre, c.a, post, ln.ret, cands[i])}
      isSplit == mod /\ c.op \in {"split_edge", "split_face"}
      sameV == post.nv = pre.nv /\ post.vdel = pre.vdel
      splitS == IF ~isSplit THEN {} ELSE IF c.op = "split_edge" THEN EdgeVertSet(pre, Full(c.a)) ELSE FaceVertSet(pre, c.a)
      inS  == isSplit /\ sameV /\ WellFormed(pre)
              /\ (IF c.op = "split_edge" THEN c.a \in LiveHE(pre) ELSE c.a \in LiveF(pre))
              /\ SplitInContract(pre, splitS, c.b) /\ TetShape(post)
      smsg == IF inS THEN SplitPropsFollowMsg(pre, splitS, c.b, post, pp.props, qp.props) ELSE ""
      cmsg == IF inC /\ okc # {}
              THEN CollapsePropsFollowMsg(pre, c.a, post, cands[CHOOSE i \in okc : \A k \in okc : i <= k], pp.props, qp.props)
              ELSE ""
      msg  == IF ~hasP \/ ~mod \/ ~WellFormed(post) THEN ""
              ELSE IF ~PropsAllSized(post, pp, qp) THEN "C03:PropSizes:" \o c.op
              ELSE IF cmsg # "" THEN "C03:CollapsePropsFollow:" \o cmsg
              ELSE IF smsg # "" THEN "C03:SplitPropsFollow:" \o smsg
              ELSE ""
  IN [msg |-> msg, drift |-> 0,
      d |-> [Zero EXCEPT !.col_in = IF inC /\ okc # {} THEN 1 ELSE 0,
                         !.col_out = IF isCol /\ ~(inC /\ okc # {}) THEN 1 ELSE 0,
                         !.col_cells_rebuilt = IF inC /\ \E x \in LiveC(pre) : From(pre, c.a) \in CellVertSet(pre, x) /\ To(pre, c.a) \notin CellVertSet(pre, x)
                                               THEN 1 ELSE 0,
                         !.splits = IF hasP /\ inS THEN 1 ELSE 0,
                         !.props_sized = IF hasP /\ mod THEN Len(qp.props) ELSE 0]]

(* =============================== C16 ==================================== *)
(* the state is inside the contract of the hexahedral queries: no halfface *)
(* in two cells, face incidences present and correct                       *)
HexStateOK(s) == s.fbu /\ Manifoldish(s) /\ IncIsInverse(s)
(* QC: the conforming cells of the state (computed once per state)         *)
HexQC(s) == IF HexStateOK(s) THEN {c \in LiveC(s) : HexConvention(s, c)} ELSE {}

HexCellRecCheck(s, q, r, QC) ==
  LET c == r.c IN
  IF c \notin QC THEN "" ELSE
  IF ~(Len(r.ori) = 12 /\ Len(r.opp) = 12 /\ Len(r.csc) = 6) THEN "C16:query_answers_missing"
  ELSE IF ~HexOrientationAgrees(s, c, r) THEN "C16:orientation_accessors"
  ELSE IF ~HexOrthAgrees(s, c, q.orth, q.oppo) THEN "C16:orthogonal_orientation"
  ELSE IF ~HexVertsContract(s, c, r.hv) \/ r.hvr # r.hv THEN "C16:hex_vertices"
  ELSE IF \E d \in 0 .. 5 : Rng(r.csc[d + 1]) # SheetCells(s, c, d) THEN "C16:cell_sheet_cells"
  ELSE ""
HexSheetHFCheck(s, pr, QC) ==
  LET hf == pr[1] IN
  IF ~(hf \in LiveHF(s)) THEN "" ELSE
  LET cs == CellsOfHF(s, hf) IN
  IF Cardinality(cs) # 1 THEN ""
  ELSE IF TheElem(cs) \notin QC THEN ""
  ELSE IF ~((SheetCells(s, TheElem(cs), 0) \cup SheetCells(s, TheElem(cs), 2)) \subseteq QC) THEN ""
  ELSE IF Rng(pr[2]) # SheetHalffaces(s, hf) THEN "C16:halfface_sheet_halffaces" ELSE ""

HexQueryCheck(s, q, QC) ==
  LET m1 == FirstMsg([i \in DOMAIN q.cells |-> HexCellRecCheck(s, q, q.cells[i], QC)]) IN
  IF m1 # "" THEN m1 ELSE FirstMsg([i \in DOMAIN q.hfshf |-> HexSheetHFCheck(s, q.hfshf[i], QC)])
HexCellsQueried(s, q, QC) == Cardinality({i \in DOMAIN q.cells : q.cells[i].c \in QC})

HexQueryDrift(s, q, QC) ==
  (QC # {} /\ s.ebu /\ HexShape(s)) /\
  \/ \E i \in DOMAIN q.cells : LET r == q.cells[i] IN r.c \in QC /\
        \/ r.hv # HexVertices(s, r.c)
        \/ \E d \in 0 .. 5 : r.csc[d + 1] # SheetCellsOp(s, r.c, d)
  \/ \E i \in DOMAIN q.hfshf : q.hfshf[i][1] \in LiveHF(s) /\ q.hfshf[i][2] # SheetHalffacesOp(s, q.hfshf[i][1])
  \/ Has(q, "adj") /\ \E i \in DOMAIN q.adj : LET a == q.adj[i] IN
        a[1] \in LiveHF(s) /\ (a[3] # AdjOnSheet(s, a[1], a[2]) \/ a[4] # AdjOnSurface(s, a[1], a[2]) \/ a[5] # a[4])

HexLine(ln, pp, qp) ==
  LET c    == ln.c
      pre  == Obs(pp)
      post == Obs(qp)
      mod  == IsModelOp(c)
      m    == IF mod THEN HexApply(pre, c) ELSE pre
      QC   == HexQC(post)
      isAdd == mod /\ c.op = "add_cell" /\ c.f
      listOK == isAdd /\ WellFormed(pre) /\ \A i \in DOMAIN c.l : c.l[i] \in LiveHF(pre)
      qmsg == IF Has(ln, "q") THEN HexQueryCheck(post, ln.q, QC) ELSE ""
      msg  == IF ~WellFormed(post) THEN "C16:WellFormed"
              ELSE IF ~HexShape(post) THEN "C16:HexShape"
              ELSE IF listOK /\ ~HexAddCellRel(pre, c.l, post, ln.ret) THEN "C16:AddCellRel"
              ELSE IF ~HexConventionAll(post) THEN "C16:HexConvention"
              ELSE qmsg
      drift == \/ mod /\ m.err = "" /\ Strip(m) # Strip(post)
               \/ mod /\ ~IsDelete(c) /\ ln.ret # -2 /\ m.ret # ln.ret      \* (delete_* log the returned iterator, the kernel trace spec owns that)
               \/ Has(ln, "q") /\ HexQueryDrift(post, ln.q, QC)
  IN [msg |-> msg, drift |-> IF drift THEN 1 ELSE 0,
      d |-> [col_in |-> 0, col_out |-> 0, col_cells_rebuilt |-> 0,
             cells_q |-> IF Has(ln, "q") THEN HexCellsQueried(post, ln.q, QC) ELSE 0,
             labelings |-> 0,
             acc |-> IF listOK /\ ln.ret # -1 THEN 1 ELSE 0, rej |-> IF listOK /\ ln.ret = -1 THEN 1 ELSE 0]]

HexState(ln) ==
  LET post == Obs(ln.post)
      QC   == HexQC(post)
      qmsg == IF Has(ln, "q") THEN HexQueryCheck(post, ln.q, QC) ELSE ""
      msg  == IF ~WellFormed(post) THEN "C16:WellFormed" ELSE IF ~HexShape(post) THEN "C16:HexShape"
              ELSE IF ~HexConventionAll(post) THEN "C16:HexConvention" ELSE qmsg
  IN [msg |-> msg, drift |-> IF Has(ln, "q") /\ HexQueryDrift(post, ln.q, QC) THEN 1 ELSE 0,
      d |-> [col_in |-> 0, col_out |-> 0, col_cells_rebuilt |-> 0,
             cells_q |-> IF Has(ln, "q") THEN HexCellsQueried(post, ln.q, QC) ELSE 0,
             labelings |-> 0, acc |-> 0, rej |-> 0]]

(* =============================== C05 (specialised circulators) =========== *)
(* ln.proto: protocol records (harness/queries.cc format: v0, w, rf, eq, bk  *)
(* for max_laps 1..3) of every circulator declared by the two specialised    *)
(* kernels, for every live centre.  The protocol oracle is OVMQueries'       *)
(* ProtoOK; WHAT each circulator enumerates comes from the definitions of    *)
(* OVMTet / OVMHex: the cell's four / eight vertices, SheetCells,            *)
(* SheetHalffaces (sets, mode "uset"; the order contracts belong to C15 /    *)
(* C16).  Centres outside the contract (non-closed / non-conforming cells,   *)
(* states with a halfface in two cells) are skipped.  An empty set (no sheet *)
(* neighbour, boundary halfface) must give an immediately invalid circulator. *)
QP == INSTANCE OVMQueries
C05TetState(s, P) ==
  LET QC == TetQC(s)
      bad == {i \in DOMAIN P.tv : P.tv[i][1] \in QC /\
                ~QP!EntryOK(TRUE, "uset", P.tv[i][2], SortedSeq(CellVertSet(s, P.tv[i][1])))}
  IN [msg |-> IF bad = {} THEN "" ELSE "C05:tv_iter",
      n |-> 3 * Cardinality({i \in DOMAIN P.tv : P.tv[i][1] \in QC})]
C05HexState(s, P) ==
  LET QC == HexQC(s)
      badHV  == {i \in DOMAIN P.hv : P.hv[i][1] \in QC /\
                   ~QP!EntryOK(TRUE, "uset", P.hv[i][2], SortedSeq(CellVertSet(s, P.hv[i][1])))}
      badCSC == {i \in DOMAIN P.csc : P.csc[i][1] \in QC /\
                   ~QP!EntryOK(TRUE, "uset", P.csc[i][3], SortedSeq(SheetCells(s, P.csc[i][1], P.csc[i][2])))}
      stOK == HexStateOK(s)
      inHF(hf) == LET cs == CellsOfHF(s, hf) IN
                  IF cs = {} THEN TRUE                            \* boundary halfface: nothing incident
                  ELSE /\ Cardinality(cs) = 1 /\ TheElem(cs) \in QC
                       /\ (SheetCells(s, TheElem(cs), 0) \cup SheetCells(s, TheElem(cs), 2)) \subseteq QC
      okHF   == {i \in DOMAIN P.hfshf : stOK /\ P.hfshf[i][1] \in LiveHF(s) /\ inHF(P.hfshf[i][1])}
      badHF  == {i \in okHF : ~QP!EntryOK(TRUE, "uset", P.hfshf[i][2], SortedSeq(SheetHalffaces(s, P.hfshf[i][1])))}
  IN [msg |-> IF badHV # {} THEN "C05:hv_iter" ELSE IF badCSC # {} THEN "C05:csc_iter"
              ELSE IF badHF # {} THEN "C05:hfshf_iter" ELSE "",
      n |-> 3 * (Cardinality({i \in DOMAIN P.hv : P.hv[i][1] \in QC}) + Cardinality({i \in DOMAIN P.csc : P.csc[i][1] \in QC})
                 + Cardinality(okHF))]
C05Line(ln) ==
  LET s == Obs(ln.post)
      r == IF ~Has(ln, "proto") \/ ~WellFormed(s) THEN [msg |-> "", n |-> 0]
           ELSE IF ln.mesh = "tet" THEN C05TetState(s, ln.proto) ELSE C05HexState(s, ln.proto)
  IN [msg |-> r.msg, drift |-> 0, d |-> [Zero EXCEPT !.protocols = r.n]]

(* =============================== C11 (tet / hex construction) =========== *)
(* handle-based additions on tetrahedral and hexahedral meshes: accepted iff *)
(* the valences fit and (with topology check) the list is closed; accepted   *)
(* => exactly one entity with the given definition (a hexahedral cell may be *)
(* re-ordered); rejected / reused => nothing observable changed.             *)
C11Line(ln, pp, qp) ==
  LET c    == ln.c
      pre  == Obs(pp)
      post == Obs(qp)
      tet  == ln.mesh = "tet"
      inF  == c.l # <<>> /\ WellFormed(pre) /\ \A i \in DOMAIN c.l : c.l[i] \in LiveHE(pre)
      inC  == c.l # <<>> /\ WellFormed(pre) /\ \A i \in DOMAIN c.l : c.l[i] \in LiveHF(pre)
      msg  == IF c.op = "add_face" /\ inF /\ ~ValAddFaceC11(pre, IF tet THEN 3 ELSE 4, c, post, ln.ret) THEN "C11:add_face"
              ELSE IF c.op = "add_halfface" /\ tet /\ inF /\ Len(c.l) >= 2 /\ ~AddHalffaceRel(pre, c, post, ln.ret) THEN "C11:add_halfface"
              ELSE IF c.op = "add_cell" /\ inC /\ tet /\ ~TetAddCellC11(pre, c, post, ln.ret) THEN "C11:add_cell(tet)"
              ELSE IF c.op = "add_cell" /\ inC /\ ~tet /\ ~HexAddCellC11(pre, c, post, ln.ret) THEN "C11:add_cell(hex)"
              ELSE ""
      m    == IF IsModelOp(c) THEN (IF tet THEN TetApply(pre, c) ELSE HexApply(pre, c)) ELSE pre
      drift == IsModelOp(c) /\ m.err = "" /\ (Strip(m) # Strip(post) \/ (~IsDelete(c) /\ ln.ret # -2 /\ m.ret # ln.ret))
      counted == c.op \in {"add_face", "add_halfface", "add_cell"}
  IN [msg |-> msg, drift |-> IF drift THEN 1 ELSE 0,
      d |-> [Zero EXCEPT !.acc = IF counted /\ ln.ret >= 0 THEN 1 ELSE 0, !.rej = IF counted /\ ln.ret < 0 THEN 1 ELSE 0]]

(* ----------------------------- one line -------------------------------- *)

LineCheck(i) ==
  LET ln == Tr[i] IN
  IF Want("C05") /\ ((ln.e = "call" /\ ln.chk) \/ ln.e = "pre") /\ ln.mesh \in {"tet", "hex"} THEN C05Line(ln)
  ELSE IF Want("C11") /\ ln.e = "call" /\ ln.chk /\ ln.mesh \in {"tet", "hex"} THEN C11Line(ln, Tr[ln.pl].post, ln.post)
  ELSE IF ln.e = "call" /\ ln.chk
  THEN (IF ln.mesh = "tet" /\ Want("C03") THEN C03Line(ln, Tr[ln.pl].post, ln.post)
        ELSE IF ln.mesh = "tet" /\ Want("C15") THEN TetLine(ln, Tr[ln.pl].post, ln.post)
        ELSE IF ln.mesh = "hex" /\ Want("C16") THEN HexLine(ln, Tr[ln.pl].post, ln.post)
        ELSE Nothing)
  ELSE IF ln.e = "pre"
  THEN (IF ln.mesh = "tet" /\ Want("C15") THEN TetState(ln)
        ELSE IF ln.mesh = "hex" /\ Want("C16") THEN HexState(ln)
        ELSE Nothing)
  ELSE Nothing

TInit == l = 1 /\ nbad = 0 /\ ndrift = 0 /\ nchk = 0 /\ info = Zero

TNext ==
  /\ l <= Len(Tr)
  /\ l' = l + 1
  /\ LET ln == Tr[l]
         r  == LineCheck(l)
         counted == (ln.e = "call" /\ ln.chk) \/ ln.e = "pre"
         x  == IF Has(ln, "x") THEN ln.x ELSE -1
         sid == IF Has(ln, "sid") THEN ln.sid ELSE -1
     IN /\ nbad' = nbad + (IF r.msg = "" THEN 0
                            ELSE IF PrintT(<<"VXBAD", l, x, sid, r.msg>>) THEN 1 ELSE 1)
        /\ ndrift' = ndrift + (IF r.drift = 0 THEN 0
                            ELSE IF ndrift < 5 /\ PrintT(<<"VXDRIFT", l, x, sid, IF ln.e = "call" THEN ln.c.op ELSE "state">>) THEN 1 ELSE 1)
        /\ nchk' = nchk + (IF counted THEN 1 ELSE 0)
        /\ info' = AddInfo(info, r.d)

TSpec == TInit /\ [][TNext]_tvars

Done == (l = Len(Tr) + 1) =>
          /\ PrintT(<<"VXINFO", ToJson(info)>>)
          /\ PrintT(<<"VXDONE", Len(Tr), nchk, nbad, ndrift>>)
=============================================================================
