----------------------------- MODULE OVMReadersGen ----------------------------
(***************************************************************************)
(* Generation (role G) for C20.  Reads the projections of the executor's   *)
(* mesh catalogue (env MESHES, ndjson, one {"e":"mesh"} line per mesh),    *)
(* emits for every mesh its alphabet of const queries (ALPHA) and the      *)
(* per-thread programs (EMIT):                                             *)
(*   "rot"  every thread runs the WHOLE alphabet, thread t starting at     *)
(*          offset t*K/T, so that every query runs concurrently with       *)
(*          every other one and on every thread;                           *)
(*   "same" every thread runs the whole alphabet in the SAME order from    *)
(*          the same start, so that several instances of the same query    *)
(*          kind execute simultaneously (thread counts SameCounts);        *)
(*   "lock" like "same", and the threads meet at a barrier before EVERY    *)
(*          query (mode "lock"), so that the first calls of a query on the *)
(*          freshly built shared object overlap (thread counts LockCounts);*)
(*   "rnd"  pseudo-random programs of RndLen queries (seeded).             *)
(* Every alphabet must contain RequiredOps (all lookups, every circulator  *)
(* kind, the circulator-based geometry queries).                           *)
(***************************************************************************)
EXTENDS OVMReadersDefs, Json, IOUtils

CONSTANTS Seed, ThreadCounts, CfgCounts, SameCounts, LockCounts, RndCases, RndLen, Reps, RepsBig

Ms == ndJsonDeserialize(IOEnv.MESHES)
AlphaOf == [i \in 1 .. Len(Ms) |-> Alphabet(Ms[i].proj, Ms[i].type)]

VARIABLE c

Rot(K, T, t) == [i \in 1 .. K |-> ((i - 1) + ((t - 1) * K) \div T) % K]
RECURSIVE Rnd(_, _, _)
Rnd(x, n, K) == IF n = 0 THEN <<>> ELSE <<x % K>> \o Rnd((x * 75 + 74) % 65537, n - 1, K)
Start(i, T, k, t) == ((Seed % 1000) * 7919 + i * 10007 + T * 1009 + k * 101 + t * 13) % 65521

(* meshes with an incidence kind disabled run with the thread counts CfgCounts *)
TCOf(i) == IF Ms[i].proj.st.vbu /\ Ms[i].proj.st.ebu /\ Ms[i].proj.st.fbu THEN ThreadCounts ELSE CfgCounts
Cases ==
  UNION { UNION { {[mesh |-> Ms[i].name, case |-> i * 1000 + T * 10, kind |-> "rot", mode |-> "free", threads |-> T,
                    reps |-> IF T <= 4 THEN RepsBig ELSE Reps,
                    progs |-> [t \in 1 .. T |-> Rot(Len(AlphaOf[i]), T, t)]]}
                  \cup (IF T \in SameCounts
                          THEN {[mesh |-> Ms[i].name, case |-> i * 1000 + T * 10 + 9, kind |-> "same", mode |-> "free", threads |-> T, reps |-> Reps,
                                 progs |-> [t \in 1 .. T |-> Rot(Len(AlphaOf[i]), 1, 1)]]}
                          ELSE {})
                  \cup (IF T \in LockCounts
                          THEN {[mesh |-> Ms[i].name, case |-> i * 1000 + T * 10 + 8, kind |-> "lock", mode |-> "lock", threads |-> T, reps |-> 2,
                                 progs |-> [t \in 1 .. T |-> Rot(Len(AlphaOf[i]), 1, 1)]]}
                          ELSE {})
                  \cup {[mesh |-> Ms[i].name, case |-> i * 1000 + T * 10 + k, kind |-> "rnd", mode |-> "free", threads |-> T, reps |-> RepsBig,
                         progs |-> [t \in 1 .. T |-> Rnd(Start(i, T, k, t), RndLen, Len(AlphaOf[i]))]] : k \in 1 .. RndCases}
                  : T \in TCOf(i) }
          : i \in 1 .. Len(Ms) }

Init == c \in Cases
Next == UNCHANGED c
Spec == Init /\ [][Next]_c
EmitCase == PrintT(<<"EMIT", ToJson(c)>>)

ASSUME \A i \in 1 .. Len(Ms) : Assert({o \in RequiredOps : Allowed(Ms[i].proj, Ms[i].type, o)} \subseteq {AlphaOf[i][k].op : k \in 1 .. Len(AlphaOf[i])},
                                       <<"alphabet lacks required query kinds", Ms[i].name,
                                         RequiredOps \ {AlphaOf[i][k].op : k \in 1 .. Len(AlphaOf[i])}>>)
ASSUME \A i \in 1 .. Len(Ms) : PrintT(<<"ALPHA", ToJson([mesh |-> Ms[i].name, type |-> Ms[i].type, q |-> AlphaOf[i]])>>)

(* the mesh the model checker uses (OVMReadersMC!TetMesh) is the mesh the   *)
(* implementation builds under the name "tet1"                             *)
TetIdx == CHOOSE i \in 1 .. Len(Ms) : Ms[i].name = "tet1"
ModelMeshIsReal ==
  (\E i \in 1 .. Len(Ms) : Ms[i].name = "tet1") =>
    LET P == Ms[TetIdx].proj IN
    /\ P.st.edges = << <<0, 1>>, <<1, 2>>, <<2, 0>>, <<2, 3>>, <<3, 0>>, <<3, 1>> >>
    /\ P.st.faces = << <<0, 2, 4>>, <<5, 6, 8>>, <<9, 10, 1>>, <<11, 7, 3>> >>
    /\ P.st.cells = << <<0, 2, 4, 6>> >>
    /\ P.st.nv = 4 /\ P.pos = << <<0, 0, 0>>, <<2, 0, 0>>, <<0, 2, 0>>, <<0, 0, 2>> >>
    /\ P.rp.vi = <<3, 10, 17, 24>> /\ P.rp.cb = <<1>> /\ P.rp.mi = <<4711>>
ASSUME ModelMeshIsReal
=============================================================================
