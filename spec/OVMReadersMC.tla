----------------------------- MODULE OVMReadersMC -----------------------------
(***************************************************************************)
(* Model checking (role M) of the reader processes of OVMReaders.tla on a  *)
(* single tetrahedron (the projection harness/readers_exec logs for its    *)
(* mesh "tet1"; OVMReadersGen.tla checks that the two are the same         *)
(* record).  Every reader gets every program of ProgLen queries over       *)
(* MCQueries; TLC explores all interleavings of the Begin / End steps.     *)
(*   Hazard = "none"            Frame, Deterministic, MeshNeverChanges hold *)
(*   Hazard = "shared_scratch"  Deterministic must FAIL  (negative control) *)
(*   Hazard = "lazy_cache"      Frame must FAIL          (negative control) *)
(***************************************************************************)
EXTENDS OVMReaders

CONSTANTS ProgLen,     \* length of every program
          MCQueries    \* the queries programs are made of (MCQ4 or MCQ6)

F4 == <<FALSE, FALSE, FALSE, FALSE>>
TetMesh ==
  [st |-> [nv |-> 4, vdel |-> F4, edel |-> <<FALSE, FALSE, FALSE, FALSE, FALSE, FALSE>>, fdel |-> F4, cdel |-> <<FALSE>>,
           ndv |-> 0, nde |-> 0, ndf |-> 0, ndc |-> 0,
           edges |-> << <<0, 1>>, <<1, 2>>, <<2, 0>>, <<2, 3>>, <<3, 0>>, <<3, 1>> >>,
           faces |-> << <<0, 2, 4>>, <<5, 6, 8>>, <<9, 10, 1>>, <<11, 7, 3>> >>,
           cells |-> << <<0, 2, 4, 6>> >>,
           genus |-> 0, needs_gc |-> FALSE, vbu |-> TRUE, ebu |-> TRUE, fbu |-> TRUE],
   pos |-> << <<0, 0, 0>>, <<2, 0, 0>>, <<0, 2, 0>>, <<0, 0, 2>> >>,
   rp |-> [vi |-> <<3, 10, 17, 24>>, cb |-> <<1>>, mi |-> <<4711>>],
   cache_valid |-> (Hazard # "lazy_cache")]

MCQ6 == { Q1("vv", 0), Q1("hfv", 1), Q1("cv", 0), Q2("find_he", 1, 0), Q1("bnd_hf", 3), Q1("p_vi", 2) }
MCQ4 == { Q1("vv", 0), Q1("hfv", 1), Q2("find_he", 1, 0), Q1("p_vi", 2) }
MCQ3 == { Q1("vv", 0), Q1("hfv", 1), Q1("p_vi", 2) }
Progs(n) == [1 .. n -> MCQueries]
ProgSet == { [i \in 1 .. ProgLen |-> p[i]] : p \in Progs(ProgLen) }

R2 == {1, 2}
R3 == {1, 2, 3}
R4 == {1, 2, 3, 4}

Init == RInit(ProgSet)
Spec == Init /\ [][RNext]_rvars

(* the answers are not vacuous: distinct queries have distinct answers      *)
ASSUME Cardinality({Eval(TetMesh, q) : q \in MCQueries}) = Cardinality(MCQueries)
ASSUME Eval(TetMesh, Q1("cv", 0)) = Sq(<<0, 1, 2, 3>>) /\ Eval(TetMesh, Q1("hfv", 1)) = Sq(<<0, 2, 1>>)
=============================================================================
