------------------------------ MODULE OVMKernel ------------------------------
(***************************************************************************)
(* Operational model of OpenVolumeMesh's TopologyKernel                    *)
(* (src/OpenVolumeMesh/Core/TopologyKernel.{cc,hh}, ResourceManager.cc).   *)
(*                                                                         *)
(* A mesh is ONE record s.  Every public mutator is a pure operator        *)
(* returning the new record, structured like the C++ code: one operator    *)
(* per critical section, same case analysis, same iteration order.         *)
(* Handles are 0-based integers exactly as in the C++ API, -1 is invalid.  *)
(* TLA+ sequences are 1-based, hence At / Put.                             *)
(*                                                                         *)
(* Fields of s                                                             *)
(*   nv                      number of vertex slots                        *)
(*   vdel edel fdel cdel     deleted flags, one per slot                   *)
(*   ndv nde ndf ndc         deleted counters (kept separately by code)    *)
(*   edges                   Seq(<<from,to>>)                              *)
(*   faces                   Seq(Seq(halfedge))                            *)
(*   cells                   Seq(Seq(halfface))                            *)
(*   vbu ebu fbu             bottom-up incidence kinds enabled             *)
(*   deferred fast           deletion modes                                *)
(*   out  hehf  inc          the three caches (<<>> while disabled)        *)
(*   pV pE pHE pF pHF pC     one tracked property vector per entity kind   *)
(*   gV gE gF gC             ghost identity per slot (moved with the slot) *)
(*   idV idE idF idC         next fresh ghost id per kind                  *)
(*   err                     "" or the name of an out-of-range access      *)
(*   ret                     result of the last call                       *)
(***************************************************************************)
EXTENDS Integers, Sequences, FiniteSets, TLC, SequencesExt, FiniteSetsExt

(* ------------------------------ basics --------------------------------- *)
At(q, h)      == q[h + 1]
Put(q, h, v)  == [q EXCEPT ![h + 1] = v]
Hs(q)         == 0 .. (Len(q) - 1)
Opp(h)        == IF h % 2 = 0 THEN h + 1 ELSE h - 1
Full(h)       == h \div 2
Side(h)       == h % 2
Half(x, sd)   == 2 * x + sd
Rng(q)        == {q[i] : i \in DOMAIN q}
MapSeq(F(_), q) == [i \in 1 .. Len(q) |-> F(q[i])]
Without(q, x) == SelectSeq(q, LAMBDA y : y # x)
Rev(q)        == [i \in 1 .. Len(q) |-> q[Len(q) + 1 - i]]
EraseAt(q, h) == [i \in 1 .. (Len(q) - 1) |-> IF i <= h THEN q[i] ELSE q[i + 1]]
SwapAt(q, a, b) == [q EXCEPT ![a + 1] = q[b + 1], ![b + 1] = q[a + 1]]
Rep(n, v)     == [i \in 1 .. n |-> v]
Resize(q, n, v) == IF n <= Len(q) THEN SubSeq(q, 1, n) ELSE q \o Rep(n - Len(q), v)
SortedSeq(S)  == SetToSortSeq(S, <)
DescSeq(S)    == Rev(SortedSeq(S))
Count(q, x)   == Len(SelectSeq(q, LAMBDA y : y = x))
NoDup(q)      == \A i, j \in DOMAIN q : i # j => q[i] # q[j]
Void          == -2

DefaultTok == -1   \* value of a property slot created by resize

(* ------------------------ reading the definitions ---------------------- *)
EdgeOf(s, he)  == At(s.edges, Full(he))
From(s, he)    == IF Side(he) = 0 THEN EdgeOf(s, he)[1] ELSE EdgeOf(s, he)[2]
To(s, he)      == IF Side(he) = 0 THEN EdgeOf(s, he)[2] ELSE EdgeOf(s, he)[1]
(* halfedges of a halfface: the stored list for side 0, the reversed      *)
(* opposites for side 1 (TopologyKernel::halfface / opposite_halfface)     *)
HFHes(s, hf)   == LET hes == At(s.faces, Full(hf)) IN
                  IF Side(hf) = 0 THEN hes ELSE Rev(MapSeq(Opp, hes))
NHE(s) == 2 * Len(s.edges)
NHF(s) == 2 * Len(s.faces)

Empty == [ nv |-> 0, vdel |-> <<>>, edel |-> <<>>, fdel |-> <<>>, cdel |-> <<>>,
           ndv |-> 0, nde |-> 0, ndf |-> 0, ndc |-> 0,
           edges |-> <<>>, faces |-> <<>>, cells |-> <<>>,
           vbu |-> TRUE, ebu |-> TRUE, fbu |-> TRUE,
           deferred |-> TRUE, fast |-> TRUE,
           out |-> <<>>, hehf |-> <<>>, inc |-> <<>>,
           pV |-> <<>>, pE |-> <<>>, pHE |-> <<>>, pF |-> <<>>, pHF |-> <<>>, pC |-> <<>>,
           gV |-> <<>>, gE |-> <<>>, gF |-> <<>>, gC |-> <<>>,
           idV |-> 0, idE |-> 0, idF |-> 0, idC |-> 0,
           err |-> "", ret |-> Void ]

SetErr(s, e) == IF s.err = "" THEN [s EXCEPT !.err = e] ELSE s

(* Tag: forget all history in the ghost / property fields: slot i holds    *)
(* identity i.  Used before every step, so that ghosts never enlarge the   *)
(* state space and a step's post.g* is directly the map post slot -> pre   *)
(* slot (fresh ids >= number of pre slots denote new entities).            *)
Iota(n) == [i \in 1 .. n |-> i - 1]
Tag(s) == [s EXCEPT
   !.pV = Iota(s.nv), !.pE = Iota(Len(s.edges)), !.pHE = Iota(2 * Len(s.edges)),
   !.pF = Iota(Len(s.faces)), !.pHF = Iota(2 * Len(s.faces)), !.pC = Iota(Len(s.cells)),
   !.gV = Iota(s.nv), !.gE = Iota(Len(s.edges)), !.gF = Iota(Len(s.faces)), !.gC = Iota(Len(s.cells)),
   !.idV = s.nv, !.idE = Len(s.edges), !.idF = Len(s.faces), !.idC = Len(s.cells),
   !.ret = Void ]

(* ------------------------------ additions ------------------------------ *)
AddVertex(s) ==
  [s EXCEPT !.nv = @ + 1, !.vdel = Append(@, FALSE),
            !.out = IF s.vbu THEN Resize(@, s.nv + 1, <<>>) ELSE @,
            !.pV = Resize(@, s.nv + 1, DefaultTok),
            !.gV = Append(@, s.idV), !.idV = @ + 1,
            !.ret = s.nv]

AddNVertices(s, n) ==
  [s EXCEPT !.nv = @ + n, !.vdel = Resize(@, s.nv + n, FALSE),
            !.out = IF s.vbu THEN Resize(@, s.nv + n, <<>>) ELSE @,
            !.pV = Resize(@, s.nv + n, DefaultTok),
            !.gV = @ \o [i \in 1 .. n |-> s.idV + i - 1], !.idV = @ + n,
            !.ret = Void]

(* duplicate search of add_edge (TopologyKernel.cc:123-143): through the   *)
(* vertex cache when it exists, otherwise a scan over edge slots that      *)
(* skips deleted edges                                                     *)
FindDupEdge(s, a, b) ==
  IF s.vbu
  THEN LET hits == SelectSeq(At(s.out, a), LAMBDA h : To(s, h) = b) IN
       IF hits = <<>> THEN -1 ELSE Full(hits[1])
  ELSE LET cands == {i \in Hs(s.edges) :
                        /\ ~At(s.edel, i)
                        /\ (At(s.edges, i) = <<a, b>> \/ At(s.edges, i) = <<b, a>>)} IN
       IF cands = {} THEN -1 ELSE Min(cands)

AddEdgeNew(s, a, b) ==
  LET e  == Len(s.edges)
      o1 == Put(s.out, a, Append(At(s.out, a), 2 * e))
      o2 == Put(o1, b, Append(At(o1, b), 2 * e + 1))
  IN [s EXCEPT !.edges = Append(@, <<a, b>>), !.edel = Append(@, FALSE),
               !.pE = Resize(@, e + 1, DefaultTok), !.pHE = Resize(@, 2 * (e + 1), DefaultTok),
               !.gE = Append(@, s.idE), !.idE = @ + 1,
               !.out = IF s.vbu THEN o2 ELSE @,
               !.hehf = IF s.ebu THEN Resize(@, 2 * (e + 1), <<>>) ELSE @,
               !.ret = e]

AddEdge(s, a, b, dup) ==
  IF dup THEN AddEdgeNew(s, a, b)
  ELSE LET d == FindDupEdge(s, a, b) IN
       IF d # -1 THEN [s EXCEPT !.ret = d] ELSE AddEdgeNew(s, a, b)

ClosedLoopCode(s, hes) ==   \* the test add_face performs (non-empty list)
  /\ \A i \in 1 .. (Len(hes) - 1) : To(s, hes[i]) = From(s, hes[i + 1])
  /\ To(s, hes[Len(hes)]) = From(s, hes[1])

AddFaceNew(s, hes) ==
  LET f == Len(s.faces)
      push(hh, he) == LET h1 == Put(hh, he, Append(At(hh, he), 2 * f))
                      IN  Put(h1, Opp(he), Append(At(h1, Opp(he)), 2 * f + 1))
  IN [s EXCEPT !.faces = Append(@, hes), !.fdel = Append(@, FALSE),
               !.pF = Resize(@, f + 1, DefaultTok), !.pHF = Resize(@, 2 * (f + 1), DefaultTok),
               !.gF = Append(@, s.idF), !.idF = @ + 1,
               !.hehf = IF s.ebu THEN FoldLeft(push, @, hes) ELSE @,
               !.inc = IF s.fbu THEN Resize(@, 2 * (f + 1), -1) ELSE @,
               !.ret = f]

AddFace(s, hes, check) ==
  IF check /\ hes = <<>> THEN [s EXCEPT !.ret = -1]   \* rejected (fix: empty list)
  ELSE IF check /\ ~ClosedLoopCode(s, hes) THEN [s EXCEPT !.ret = -1]
  ELSE AddFaceNew(s, hes)

(* add_face(vertices): one add_edge (with de-duplication) per consecutive  *)
(* pair, side 1 where the stored edge ends at the pair's first vertex;     *)
(* topology is checked only in debug builds                                *)
AddFaceV(s, vs) ==
  LET n == Len(vs)
      step(acc, i) ==
        LET a  == vs[i]
            b  == vs[IF i = n THEN 1 ELSE i + 1]
            s2 == AddEdge(acc.s, a, b, FALSE)
            e  == s2.ret
            sw == IF At(s2.edges, e)[2] = a THEN 1 ELSE 0
        IN [s |-> s2, hes |-> Append(acc.hes, Half(e, sw))]
      r == FoldLeft(step, [s |-> s, hes |-> <<>>], [i \in 1 .. n |-> i])
  IN AddFaceNew(r.s, r.hes)

(* ------------------- adjacency inside a cell, reordering --------------- *)
(* adjacent_halfface_in_cell (TopologyKernel.cc:2210-2277)                 *)
RECURSIVE AdjScan(_, _, _, _, _, _)
AdjScan(chfs, k, hf, m, skipped, idx) ==
  IF k > Len(chfs) THEN -1
  ELSE LET h == chfs[k] IN
       IF h = hf THEN (IF idx # -1 THEN idx ELSE AdjScan(chfs, k + 1, hf, m, TRUE, idx))
       ELSE IF m[k] = 0 THEN AdjScan(chfs, k + 1, hf, m, skipped, idx)
       ELSE IF idx # -1 THEN -1
       ELSE IF skipped THEN h
       ELSE IF m[k] >= 2 THEN -1
       ELSE AdjScan(chfs, k + 1, hf, m, skipped, h)

Adj(s, hf, he0) ==
  LET ch == At(s.inc, hf) IN
  IF ch = -1 THEN -1 ELSE
  LET hes    == HFHes(s, hf)
      hasHe  == he0 \in Rng(hes)
      hasOpp == Opp(he0) \in Rng(hes)
  IN IF ~hasHe /\ ~hasOpp THEN -1 ELSE
  LET he   == IF hasHe THEN he0 ELSE Opp(he0)
      chfs == At(s.cells, ch)
      m    == [k \in 1 .. Len(chfs) |->
                 IF chfs[k] = Opp(hf) THEN 0 ELSE Count(HFHes(s, chfs[k]), Opp(he))]
  IN AdjScan(chfs, 1, hf, m, FALSE, -1)

NoLiveCell(s, hf) == At(s.inc, hf) = -1 \/ At(s.cdel, At(s.inc, hf))

RECURSIVE FwdWalk(_, _, _, _, _, _)
FwdWalk(s, he, n, start, cur, acc) ==
  LET acc2 == Append(acc, cur) IN
  IF Len(acc2) > n THEN [ok |-> FALSE, l |-> acc2]
  ELSE IF NoLiveCell(s, cur) THEN [ok |-> TRUE, l |-> acc2]
  ELSE LET a == Adj(s, cur, he) IN
       IF a = -1 THEN [ok |-> FALSE, l |-> acc2]
       ELSE IF Opp(a) = start THEN [ok |-> TRUE, l |-> acc2]
       ELSE FwdWalk(s, he, n, start, Opp(a), acc2)

RECURSIVE BwdWalk(_, _, _, _, _)
BwdWalk(s, ohe, n, cur, acc) ==
  LET c == Opp(cur) IN
  IF NoLiveCell(s, c) THEN [ok |-> TRUE, l |-> acc]
  ELSE LET a == Adj(s, c, ohe) IN
       IF a = -1 THEN [ok |-> FALSE, l |-> acc]
       ELSE LET acc2 == <<a>> \o acc IN
            IF Len(acc2) > n THEN [ok |-> FALSE, l |-> acc2]
            ELSE BwdWalk(s, ohe, n, a, acc2)

(* reorder_incident_halffaces (TopologyKernel.cc:271-375); needs edge AND  *)
(* face incidences (callers guarantee it)                                  *)
Reorder(s, e) ==
  LET he == 2 * e
      L  == At(s.hehf, he)
      n  == Len(L)
  IN IF n < 2 THEN s ELSE
  LET fw == FwdWalk(s, he, n, L[1], L[1], <<>>) IN
  IF ~fw.ok THEN s ELSE
  LET res == IF Len(fw.l) = n THEN fw
             ELSE BwdWalk(s, he + 1, n, L[1], fw.l)
  IN IF ~res.ok \/ Len(res.l) # n THEN s
     ELSE LET ol  == At(s.hehf, he + 1)
              mir == Rev(MapSeq(Opp, res.l))
          IN IF Len(ol) < n THEN SetErr(s, "reorder_opposite_row_short")
             ELSE [s EXCEPT !.hehf =
                     Put(Put(@, he, res.l), he + 1,
                         [i \in 1 .. Len(ol) |-> IF i <= n THEN mir[i] ELSE ol[i]])]

ReorderAll(s, es) == FoldLeft(Reorder, s, es)   \* es: sequence of edges

EdgesOfHFs(s, hfs) == UNION {{Full(h) : h \in Rng(At(s.faces, Full(hf)))} : hf \in Rng(hfs)}

(* the closedness test of add_cell (TopologyKernel.cc:388-434): no         *)
(* halfedge twice, every edge with both of its halfedges                   *)
ClosedSurfaceCode(s, hfs) ==
  LET all == FoldLeft(LAMBDA acc, hf : acc \o HFHes(s, hf), <<>>, hfs) IN
  /\ NoDup(all)
  /\ \A h \in Rng(all) : Opp(h) \in Rng(all)

AddCellNew(s, hfs) ==
  LET c  == Len(s.cells)
      s1 == [s EXCEPT !.cells = Append(@, hfs), !.cdel = Append(@, FALSE),
                      !.pC = Resize(@, c + 1, DefaultTok),
                      !.gC = Append(@, s.idC), !.idC = @ + 1,
                      !.inc = IF s.fbu THEN FoldLeft(LAMBDA ic, hf : Put(ic, hf, c), @, hfs) ELSE @,
                      !.ret = c]
  IN IF s.fbu /\ s.ebu THEN ReorderAll(s1, SortedSeq(EdgesOfHFs(s, hfs))) ELSE s1

AddCell(s, hfs, check) ==
  IF check /\ hfs = <<>> THEN [s EXCEPT !.ret = -1]   \* rejected (fix: empty list)
  ELSE IF check /\ ~ClosedSurfaceCode(s, hfs) THEN [s EXCEPT !.ret = -1]
  ELSE AddCellNew(s, hfs)

(* ------------------------------- set_* --------------------------------- *)
SetEdge(s, e, a, b) ==
  LET fv == At(s.edges, e)[1]
      tv == At(s.edges, e)[2]
      o1 == Put(s.out, fv, Without(At(s.out, fv), 2 * e))
      o2 == Put(o1, tv, Without(At(o1, tv), 2 * e + 1))
      o3 == Put(o2, a, Append(At(o2, a), 2 * e))
      o4 == Put(o3, b, Append(At(o3, b), 2 * e + 1))
  IN [s EXCEPT !.out = IF s.vbu THEN o4 ELSE @, !.edges = Put(@, e, <<a, b>>), !.ret = Void]

SetFace(s, f, hes) ==
  LET old == At(s.faces, f)
      rem(hh, he) == LET h1 == Put(hh, he, Without(At(hh, he), 2 * f))
                     IN  Put(h1, Opp(he), Without(At(h1, Opp(he)), 2 * f + 1))
      add(hh, he) == LET h1 == Put(hh, he, Append(At(hh, he), 2 * f))
                     IN  Put(h1, Opp(he), Append(At(h1, Opp(he)), 2 * f + 1))
  IN [s EXCEPT !.hehf = IF s.ebu THEN FoldLeft(add, FoldLeft(rem, @, old), hes) ELSE @,
               !.faces = Put(@, f, hes), !.ret = Void]

SetCell(s, c, hfs) ==
  LET old == At(s.cells, c)
      i1 == FoldLeft(LAMBDA ic, hf : Put(ic, hf, -1), s.inc, old)
      i2 == FoldLeft(LAMBDA ic, hf : Put(ic, hf, c), i1, hfs)
  IN [s EXCEPT !.inc = IF s.fbu THEN i2 ELSE @, !.cells = Put(@, c, hfs), !.ret = Void]

(* ------------------------------- swaps --------------------------------- *)
RelabelH(h, a, b) ==   \* half-entity handle with full handles a and b exchanged
  IF Full(h) = a THEN Half(b, Side(h)) ELSE IF Full(h) = b THEN Half(a, Side(h)) ELSE h
RelabelX(x, a, b) == IF x = a THEN b ELSE IF x = b THEN a ELSE x

SwapCell(s, h1, h2) ==
  IF h1 = h2 THEN [s EXCEPT !.ret = Void] ELSE
  (* decide first, then write (fix 6f7fb77): a halfface listed by both cells is relabeled once *)
  LET toH2 == {hf \in Rng(At(s.cells, h1)) : At(s.inc, hf) = h1}
      toH1 == {hf \in Rng(At(s.cells, h2)) : At(s.inc, hf) = h2}
      i2 == [i \in 1 .. Len(s.inc) |-> IF (i - 1) \in toH1 THEN h1 ELSE IF (i - 1) \in toH2 THEN h2 ELSE s.inc[i]]
  IN [s EXCEPT !.inc = IF s.fbu THEN i2 ELSE @,
               !.cells = SwapAt(@, h1, h2), !.cdel = SwapAt(@, h1, h2),
               !.pC = SwapAt(@, h1, h2), !.gC = SwapAt(@, h1, h2), !.ret = Void]

SwapFace(s, h1, h2) ==
  IF h1 = h2 THEN [s EXCEPT !.ret = Void] ELSE
  LET relC(hfs) == MapSeq(LAMBDA h : RelabelH(h, h1, h2), hfs)
      (* cells to rewrite: through the cache (live users only), or every  *)
      (* slot that mentions one of the two faces                          *)
      users == IF s.fbu
               THEN {At(s.inc, hf) : hf \in {2 * h1, 2 * h1 + 1, 2 * h2, 2 * h2 + 1}} \ {-1}
               ELSE {c \in Hs(s.cells) : \E hf \in Rng(At(s.cells, c)) : Full(hf) \in {h1, h2}}
      cells2 == [i \in 1 .. Len(s.cells) |-> IF (i - 1) \in users THEN relC(s.cells[i]) ELSE s.cells[i]]
      hesTouched == UNION {Rng(HFHes(s, hf)) : hf \in {2 * h1, 2 * h1 + 1, 2 * h2, 2 * h2 + 1}}
      hehf2 == [i \in 1 .. Len(s.hehf) |->
                  IF (i - 1) \in hesTouched THEN relC(s.hehf[i]) ELSE s.hehf[i]]
      inc2 == SwapAt(SwapAt(s.inc, 2 * h1, 2 * h2), 2 * h1 + 1, 2 * h2 + 1)
  IN [s EXCEPT !.cells = cells2,
               !.hehf = IF s.ebu THEN hehf2 ELSE @,
               !.faces = SwapAt(@, h1, h2), !.fdel = SwapAt(@, h1, h2),
               !.inc = IF s.fbu THEN inc2 ELSE @,
               !.pF = SwapAt(@, h1, h2), !.gF = SwapAt(@, h1, h2),
               !.pHF = SwapAt(SwapAt(@, 2 * h1, 2 * h2), 2 * h1 + 1, 2 * h2 + 1),
               !.ret = Void]

SwapEdge(s, h1, h2) ==
  IF h1 = h2 THEN [s EXCEPT !.ret = Void] ELSE
  LET relF(hes) == MapSeq(LAMBDA h : RelabelH(h, h1, h2), hes)
      users == IF s.ebu
               THEN {Full(hf) : hf \in Rng(At(s.hehf, 2 * h1)) \cup Rng(At(s.hehf, 2 * h2))}
               ELSE {f \in Hs(s.faces) : \E he \in Rng(At(s.faces, f)) : Full(he) \in {h1, h2}}
      faces2 == [i \in 1 .. Len(s.faces) |-> IF (i - 1) \in users THEN relF(s.faces[i]) ELSE s.faces[i]]
      vsTouched == {At(s.edges, h1)[1], At(s.edges, h1)[2], At(s.edges, h2)[1], At(s.edges, h2)[2]}
      out2 == [i \in 1 .. Len(s.out) |->
                  IF (i - 1) \in vsTouched THEN relF(s.out[i]) ELSE s.out[i]]
      hehf2 == SwapAt(SwapAt(s.hehf, 2 * h1, 2 * h2), 2 * h1 + 1, 2 * h2 + 1)
  IN [s EXCEPT !.faces = faces2,
               !.out = IF s.vbu THEN out2 ELSE @,
               !.edges = SwapAt(@, h1, h2), !.edel = SwapAt(@, h1, h2),
               !.hehf = IF s.ebu THEN hehf2 ELSE @,
               !.pE = SwapAt(@, h1, h2), !.gE = SwapAt(@, h1, h2),
               !.pHE = SwapAt(SwapAt(@, 2 * h1, 2 * h2), 2 * h1 + 1, 2 * h2 + 1),
               !.ret = Void]

SwapVertex(s, h1, h2) ==
  IF h1 = h2 THEN [s EXCEPT !.ret = Void] ELSE
  LET relE(e) == <<RelabelX(e[1], h1, h2), RelabelX(e[2], h1, h2)>>
      users == IF s.vbu
               THEN {Full(he) : he \in Rng(At(s.out, h1)) \cup Rng(At(s.out, h2))}
               ELSE Hs(s.edges)
      edges2 == [i \in 1 .. Len(s.edges) |-> IF (i - 1) \in users THEN relE(s.edges[i]) ELSE s.edges[i]]
  IN [s EXCEPT !.edges = edges2, !.vdel = SwapAt(@, h1, h2),
               !.out = IF s.vbu THEN SwapAt(@, h1, h2) ELSE @,
               !.pV = SwapAt(@, h1, h2), !.gV = SwapAt(@, h1, h2), !.ret = Void]

(* ------------------------------ deletion ------------------------------- *)
Dec(h, thld, by) == IF h > thld THEN h - by ELSE h

(* delete_vertex_core (TopologyKernel.cc:936-1018) *)
DeleteVertexCore(s0, h0) ==
  LET swapFirst == s0.fast /\ ~s0.deferred
      s == IF swapFirst THEN SwapVertex(s0, h0, s0.nv - 1) ELSE s0
      h == IF swapFirst THEN s0.nv - 1 ELSE h0
  IN IF s.deferred
     THEN [s EXCEPT !.ndv = @ + 1, !.vdel = Put(@, h, TRUE), !.ret = h + 1]
     ELSE
       LET (* 1) with the cache: for i = h .. nv-1, every edge reachable   *)
           (* from out[i] gets endpoints equal to i lowered to i-1 (in     *)
           (* place, ascending i); without: all live edges, endpoints > h  *)
           fixI(es, i) ==
             FoldLeft(LAMBDA acc, he :
                        LET e == At(acc, Full(he))
                            f2 == IF e[1] = i THEN i - 1 ELSE e[1]
                            t2 == IF e[2] = i THEN i - 1 ELSE e[2]
                        IN Put(acc, Full(he), <<f2, t2>>),
                      es, At(s.out, i))
           edgesC == FoldLeft(fixI, s.edges, [k \in 1 .. (s.nv - h) |-> h + k - 1])
           edgesS == [i \in 1 .. Len(s.edges) |->
                        IF s.edel[i] THEN s.edges[i]
                        ELSE <<Dec(s.edges[i][1], h, 1), Dec(s.edges[i][2], h, 1)>>]
       IN [s EXCEPT !.edges = IF s.vbu THEN edgesC ELSE edgesS,
                    !.out = IF s.vbu THEN EraseAt(@, h) ELSE @,
                    !.nv = @ - 1, !.vdel = EraseAt(@, h),
                    !.pV = EraseAt(@, h), !.gV = EraseAt(@, h),
                    !.ret = h]

(* delete_edge_core (TopologyKernel.cc:1041-1183) *)
DeleteEdgeCore(s0, h0) ==
  LET swapFirst == s0.fast /\ ~s0.deferred
      last == Len(s0.edges) - 1
      sA == IF swapFirst THEN SwapEdge(s0, h0, last) ELSE s0
      h  == IF swapFirst THEN last ELSE h0
      (* 1) unlink from the endpoints' outgoing lists *)
      v0 == At(sA.edges, h)[1]
      v1 == At(sA.edges, h)[2]
      o1 == Put(sA.out, v0, Without(At(sA.out, v0), 2 * h))
      o2 == Put(o1, v1, Without(At(o1, v1), 2 * h + 1))
      s  == [sA EXCEPT !.out = IF sA.vbu THEN o2 ELSE @]
  IN IF s.deferred
     THEN [s EXCEPT !.nde = @ + 1, !.edel = Put(@, h, TRUE), !.ret = h + 1]
     ELSE
       LET fixF(hes) == MapSeq(LAMBDA x : Dec(x, 2 * h + 1, 2),
                               Without(Without(hes, 2 * h), 2 * h + 1))
           usersC == {Full(hf) : hf \in UNION {Rng(s.hehf[i]) : i \in (2 * h + 1) .. Len(s.hehf)}}
           users == IF s.ebu THEN usersC ELSE {f \in Hs(s.faces) : ~At(s.fdel, f)}
           faces2 == [i \in 1 .. Len(s.faces) |-> IF (i - 1) \in users THEN fixF(s.faces[i]) ELSE s.faces[i]]
           hehf2 == EraseAt(EraseAt(s.hehf, 2 * h + 1), 2 * h)
           out2 == [i \in 1 .. Len(s.out) |-> MapSeq(LAMBDA x : Dec(x, 2 * h + 1, 2), s.out[i])]
       IN [s EXCEPT !.faces = IF ~s.fast THEN faces2 ELSE @,
                    !.hehf = IF s.ebu THEN hehf2 ELSE @,
                    !.out = IF ~s.fast /\ s.vbu THEN out2 ELSE @,
                    !.edges = EraseAt(@, h), !.edel = EraseAt(@, h),
                    !.pE = EraseAt(@, h), !.gE = EraseAt(@, h),
                    !.pHE = EraseAt(EraseAt(@, 2 * h + 1), 2 * h),
                    !.ret = h]

(* delete_face_core (TopologyKernel.cc:1206-1340) *)
DeleteFaceCore(s0, h0) ==
  LET swapFirst == s0.fast /\ ~s0.deferred
      last == Len(s0.faces) - 1
      sA == IF swapFirst THEN SwapFace(s0, h0, last) ELSE s0
      h  == IF swapFirst THEN last ELSE h0
      (* 1) unlink from the halfedges' lists, reordering the edge after    *)
      (* each halfedge (only when face incidences exist as well)           *)
      unlink(st, he) ==
        LET hh1 == Put(st.hehf, he, Without(At(st.hehf, he), 2 * h))
            hh2 == Put(hh1, Opp(he), Without(At(hh1, Opp(he)), 2 * h + 1))
            st2 == [st EXCEPT !.hehf = hh2]
        IN IF st.fbu THEN Reorder(st2, Full(he)) ELSE st2
      s == IF sA.ebu THEN FoldLeft(unlink, sA, At(sA.faces, h)) ELSE sA
  IN IF s.deferred
     THEN [s EXCEPT !.ndf = @ + 1, !.fdel = Put(@, h, TRUE), !.ret = h + 1]
     ELSE
       LET fixC(hfs) == MapSeq(LAMBDA x : Dec(x, 2 * h + 1, 2),
                               Without(Without(hfs, 2 * h), 2 * h + 1))
           usersC == {s.inc[i] : i \in (2 * h + 1) .. Len(s.inc)} \ {-1}
           users == IF s.fbu THEN usersC ELSE {c \in Hs(s.cells) : ~At(s.cdel, c)}
           cells2 == [i \in 1 .. Len(s.cells) |-> IF (i - 1) \in users THEN fixC(s.cells[i]) ELSE s.cells[i]]
           inc2 == EraseAt(EraseAt(s.inc, 2 * h + 1), 2 * h)
           hehfE == IF ~s.fast
                    THEN [i \in 1 .. Len(s.hehf) |-> MapSeq(LAMBDA x : Dec(x, 2 * h + 1, 2), s.hehf[i])]
                    ELSE s.hehf
       IN [s EXCEPT !.cells = IF ~s.fast THEN cells2 ELSE @,
                    !.inc = IF s.fbu THEN inc2 ELSE @,
                    !.hehf = IF s.ebu THEN hehfE ELSE @,
                    !.faces = EraseAt(@, h), !.fdel = EraseAt(@, h),
                    !.pF = EraseAt(@, h), !.gF = EraseAt(@, h),
                    !.pHF = EraseAt(EraseAt(@, 2 * h + 1), 2 * h),
                    !.ret = h]

(* delete_cell_core (TopologyKernel.cc:1359-1429) *)
DeleteCellCore(s0, h0) ==
  LET swapFirst == s0.fast /\ ~s0.deferred
      last == Len(s0.cells) - 1
      sA == IF swapFirst THEN SwapCell(s0, h0, last) ELSE s0
      h  == IF swapFirst THEN last ELSE h0
      hfs == At(sA.cells, h)
      inc1 == FoldLeft(LAMBDA ic, hf : IF At(ic, hf) = h THEN Put(ic, hf, -1) ELSE ic, sA.inc, hfs)
      sB == [sA EXCEPT !.inc = IF sA.fbu THEN inc1 ELSE @]
      s == IF sB.fbu /\ sB.ebu THEN ReorderAll(sB, SortedSeq(EdgesOfHFs(sB, hfs))) ELSE sB
  IN IF s.deferred
     THEN [s EXCEPT !.ndc = @ + 1, !.cdel = Put(@, h, TRUE), !.ret = h + 1]
     ELSE [s EXCEPT !.inc = IF ~s.fast /\ s.fbu THEN MapSeq(LAMBDA x : Dec(x, h, 1), @) ELSE @,
                    !.cells = EraseAt(@, h), !.cdel = EraseAt(@, h),
                    !.pC = EraseAt(@, h), !.gC = EraseAt(@, h),
                    !.ret = h]

(* get_incident_* (TopologyKernel.cc:793-915): through the cache when the  *)
(* kind is on, otherwise a scan over the live entities                     *)
IncidentEdges(s, vs) ==
  IF s.vbu THEN {Full(he) : he \in UNION {Rng(At(s.out, v)) : v \in vs}}
  ELSE {e \in Hs(s.edges) : ~At(s.edel, e) /\ (At(s.edges, e)[1] \in vs \/ At(s.edges, e)[2] \in vs)}
IncidentFaces(s, es) ==
  IF s.ebu THEN {Full(hf) : hf \in UNION {Rng(At(s.hehf, 2 * e)) : e \in es}}
  ELSE {f \in Hs(s.faces) : ~At(s.fdel, f) /\ \E he \in Rng(At(s.faces, f)) : Full(he) \in es}
IncidentCells(s, fs) ==
  IF s.fbu THEN {At(s.inc, hf) : hf \in UNION {{2 * f, 2 * f + 1} : f \in fs}} \ {-1}
  ELSE {c \in Hs(s.cells) : ~At(s.cdel, c) /\ \E hf \in Rng(At(s.cells, c)) : Full(hf) \in fs}

DeleteCell(s, h) == DeleteCellCore(s, h)
DeleteFace(s, h) ==
  LET cs == IncidentCells(s, {h})
      s1 == FoldLeft(DeleteCellCore, s, DescSeq(cs))
  IN DeleteFaceCore(s1, h)
DeleteEdge(s, h) ==
  LET fs == IncidentFaces(s, {h})
      cs == IncidentCells(s, fs)
      s1 == FoldLeft(DeleteCellCore, s, DescSeq(cs))
      s2 == FoldLeft(DeleteFaceCore, s1, DescSeq(fs))
  IN DeleteEdgeCore(s2, h)
DeleteVertex(s, h) ==
  LET es == IncidentEdges(s, {h})
      fs == IncidentFaces(s, es)
      cs == IncidentCells(s, fs)
      s1 == FoldLeft(DeleteCellCore, s, DescSeq(cs))
      s2 == FoldLeft(DeleteFaceCore, s1, DescSeq(fs))
      s3 == FoldLeft(DeleteEdgeCore, s2, DescSeq(es))
  IN DeleteVertexCore(s3, h)

NeedsGC(s) == s.ndv > 0 \/ s.nde > 0 \/ s.ndf > 0 \/ s.ndc > 0

(* collect_garbage (TopologyKernel.cc:743-788): per kind, from the last    *)
(* slot down, clear the flag and run the core with deferred mode off       *)
RECURSIVE GCCells(_, _)
GCCells(s, i) ==
  IF i < 0 THEN s
  ELSE IF i < Len(s.cells) /\ At(s.cdel, i)
       THEN GCCells(DeleteCellCore([s EXCEPT !.cdel = Put(@, i, FALSE)], i), i - 1)
       ELSE GCCells(s, i - 1)
RECURSIVE GCFaces(_, _)
GCFaces(s, i) ==
  IF i < 0 THEN s
  ELSE IF i < Len(s.faces) /\ At(s.fdel, i)
       THEN GCFaces(DeleteFaceCore([s EXCEPT !.fdel = Put(@, i, FALSE)], i), i - 1)
       ELSE GCFaces(s, i - 1)
RECURSIVE GCEdges(_, _)
GCEdges(s, i) ==
  IF i < 0 THEN s
  ELSE IF i < Len(s.edges) /\ At(s.edel, i)
       THEN GCEdges(DeleteEdgeCore([s EXCEPT !.edel = Put(@, i, FALSE)], i), i - 1)
       ELSE GCEdges(s, i - 1)
RECURSIVE GCVerts(_, _)
GCVerts(s, i) ==
  IF i < 0 THEN s
  ELSE IF i < s.nv /\ At(s.vdel, i)
       THEN GCVerts(DeleteVertexCore([s EXCEPT !.vdel = Put(@, i, FALSE)], i), i - 1)
       ELSE GCVerts(s, i - 1)

CollectGarbage(s) ==
  IF ~s.deferred \/ ~NeedsGC(s) THEN [s EXCEPT !.ret = Void] ELSE
  LET s0 == [s EXCEPT !.deferred = FALSE]
      s1 == GCCells(s0, Len(s0.cells) - 1)
      s2 == GCFaces([s1 EXCEPT !.ndc = 0], Len(s1.faces) - 1)
      s3 == GCEdges([s2 EXCEPT !.ndf = 0], Len(s2.edges) - 1)
      s4 == GCVerts([s3 EXCEPT !.nde = 0], s3.nv - 1)
  IN [s4 EXCEPT !.ndv = 0, !.deferred = TRUE, !.ret = Void]

EnableDeferred(s, on) ==
  LET s1 == IF s.deferred /\ ~on THEN CollectGarbage(s) ELSE s
  IN [s1 EXCEPT !.deferred = on, !.ret = Void]
EnableFast(s, on) == [s EXCEPT !.fast = on, !.ret = Void]

(* StatusAttrib::garbage_collection (Attribs/StatusAttribT_impl.hh:49-144): *)
(* force deferred deletion, delete the status-marked live vertices, edges, *)
(* faces, cells (in that order, each kind in ascending handle order),      *)
(* optionally enable all incidences and delete faces without incident      *)
(* cell, then edges of valence 0, then vertices of valence 0; collect;      *)
(* restore the deferred flag.  marks = [V, E, F, C] (sets of handles).      *)
DelMarked(s, hs, isdel(_, _), del(_, _)) ==   \* hs: ascending sequence of handles
  FoldLeft(LAMBDA t, h : IF isdel(t, h) THEN t ELSE del(t, h), s, hs)

(* --------------------------- caches on / off --------------------------- *)
LiveSeq(del) == SelectSeq([i \in 1 .. Len(del) |-> i - 1], LAMBDA h : ~At(del, h))

ComputeOut(s) ==
  FoldLeft(LAMBDA o, e :
             LET o1 == Put(o, At(s.edges, e)[1], Append(At(o, At(s.edges, e)[1]), 2 * e))
             IN  Put(o1, At(s.edges, e)[2], Append(At(o1, At(s.edges, e)[2]), 2 * e + 1)),
           Rep(s.nv, <<>>), LiveSeq(s.edel))
ComputeHeHf(s) ==
  FoldLeft(LAMBDA hh, f :
             FoldLeft(LAMBDA h2, he :
                        LET h3 == Put(h2, he, Append(At(h2, he), 2 * f))
                        IN  Put(h3, Opp(he), Append(At(h3, Opp(he)), 2 * f + 1)),
                      hh, At(s.faces, f)),
           Rep(2 * Len(s.edges), <<>>), LiveSeq(s.fdel))
ComputeInc(s) ==
  FoldLeft(LAMBDA ic, c :
             FoldLeft(LAMBDA i2, hf : IF At(i2, hf) = -1 THEN Put(i2, hf, c) ELSE i2, ic, At(s.cells, c)),
           Rep(2 * Len(s.faces), -1), LiveSeq(s.cdel))

EnableVBU(s, on) ==
  [s EXCEPT !.out = IF ~on THEN <<>> ELSE IF ~s.vbu THEN ComputeOut(s) ELSE @,
            !.vbu = on, !.ret = Void]
EnableEBU(s, on) ==
  LET s1 == [s EXCEPT !.hehf = IF ~on THEN <<>> ELSE IF ~s.ebu THEN ComputeHeHf(s) ELSE @,
                      !.ebu = on, !.ret = Void]
  IN IF on /\ ~s.ebu /\ s.fbu THEN ReorderAll(s1, LiveSeq(s.edel)) ELSE s1
EnableFBU(s, on) ==
  LET s1 == [s EXCEPT !.inc = IF ~on THEN <<>> ELSE IF ~s.fbu THEN ComputeInc(s) ELSE @,
                      !.fbu = on, !.ret = Void]
  IN IF on /\ ~s.fbu /\ s.ebu THEN ReorderAll(s1, LiveSeq(s.edel)) ELSE s1

StatusGC(s0, marks, manifold) ==
  LET s1 == [s0 EXCEPT !.deferred = TRUE]   \* enable_deferred_deletion(true): nothing to collect when switching on
      s2 == DelMarked(s1, SortedSeq(marks.V), LAMBDA t, h : At(t.vdel, h), DeleteVertex)
      s3 == DelMarked(s2, SortedSeq(marks.E), LAMBDA t, h : At(t.edel, h), DeleteEdge)
      s4 == DelMarked(s3, SortedSeq(marks.F), LAMBDA t, h : At(t.fdel, h), DeleteFace)
      s5 == DelMarked(s4, SortedSeq(marks.C), LAMBDA t, h : At(t.cdel, h), DeleteCell)
      m1 == EnableFBU(EnableEBU(EnableVBU(s5, TRUE), TRUE), TRUE)
      m2 == DelMarked(m1, [i \in 1 .. Len(m1.faces) |-> i - 1],
                      LAMBDA t, h : At(t.fdel, h) \/ At(t.inc, 2 * h) # -1 \/ At(t.inc, 2 * h + 1) # -1, DeleteFace)
      m3 == DelMarked(m2, [i \in 1 .. Len(m2.edges) |-> i - 1],
                      LAMBDA t, h : At(t.edel, h) \/ At(t.hehf, 2 * h) # <<>>, DeleteEdge)
      m4 == DelMarked(m3, [i \in 1 .. m3.nv |-> i - 1],
                      LAMBDA t, h : At(t.vdel, h) \/ At(t.out, h) # <<>>, DeleteVertex)
      s6 == IF manifold THEN m4 ELSE s5
      s7 == CollectGarbage(s6)
  IN EnableDeferred(s7, s0.deferred)

(* clear(clearProps): everything emptied, modes and incidence flags kept;  *)
(* the model's tracked property vectors are emptied in both variants       *)
Clear(s, clearProps) ==
  [Empty EXCEPT !.vbu = s.vbu, !.ebu = s.ebu, !.fbu = s.fbu,
                !.deferred = s.deferred, !.fast = s.fast, !.err = s.err]

(* ------------------------------ dispatcher ----------------------------- *)
(* call record: [op, a, b, c, l, f]                                        *)
Call(op, a, b, l, f) == [op |-> op, a |-> a, b |-> b, l |-> l, f |-> f]

(* marks of a status_gc call are passed flat: <<nV, v.., nE, e.., nF, f.., nC, c..>> *)
MarksOf(l) ==
  LET nV == l[1]
      nE == l[2 + nV]
      nF == l[3 + nV + nE]
      nC == l[4 + nV + nE + nF]
  IN [V |-> {l[1 + i] : i \in 1 .. nV},
      E |-> {l[2 + nV + i] : i \in 1 .. nE},
      F |-> {l[3 + nV + nE + i] : i \in 1 .. nF},
      C |-> {l[4 + nV + nE + nF + i] : i \in 1 .. nC}]

Apply(s0, c) ==
  LET s == Tag(s0) IN
  CASE c.op = "add_vertex"     -> AddVertex(s)
    [] c.op = "add_n_vertices" -> AddNVertices(s, c.a)
    [] c.op = "add_edge"       -> AddEdge(s, c.a, c.b, c.f)
    [] c.op = "add_face"       -> AddFace(s, c.l, c.f)
    [] c.op = "add_face_v"     -> AddFaceV(s, c.l)
    [] c.op = "add_cell"       -> AddCell(s, c.l, c.f)
    [] c.op = "set_edge"       -> SetEdge(s, c.a, c.l[1], c.l[2])
    [] c.op = "set_face"       -> SetFace(s, c.a, c.l)
    [] c.op = "set_cell"       -> SetCell(s, c.a, c.l)
    [] c.op = "delete_vertex"  -> DeleteVertex(s, c.a)
    [] c.op = "delete_edge"    -> DeleteEdge(s, c.a)
    [] c.op = "delete_face"    -> DeleteFace(s, c.a)
    [] c.op = "delete_cell"    -> DeleteCell(s, c.a)
    [] c.op = "collect_garbage" -> CollectGarbage(s)
    [] c.op = "swap_vertices"  -> SwapVertex(s, c.a, c.b)
    [] c.op = "swap_edges"     -> SwapEdge(s, c.a, c.b)
    [] c.op = "swap_faces"     -> SwapFace(s, c.a, c.b)
    [] c.op = "swap_cells"     -> SwapCell(s, c.a, c.b)
    [] c.op = "enable_deferred" -> EnableDeferred(s, c.f)
    [] c.op = "enable_fast"    -> EnableFast(s, c.f)
    [] c.op = "enable_vbu"     -> EnableVBU(s, c.f)
    [] c.op = "enable_ebu"     -> EnableEBU(s, c.f)
    [] c.op = "enable_fbu"     -> EnableFBU(s, c.f)
    [] c.op = "enable_bu"      -> EnableFBU(EnableEBU(EnableVBU(s, c.f), c.f), c.f)   \* enable_bottom_up_incidences: the three in this order
    [] c.op = "reorder"        -> [(IF s.ebu /\ s.fbu THEN Reorder(s, c.a) ELSE s) EXCEPT !.ret = Void]  \* public reorder_incident_halffaces(e)
    [] c.op = "reserve"        -> [s EXCEPT !.ret = Void]   \* reserve_vertices/edges/faces/cells (a = kind, b = n): capacity only
    [] c.op = "clear"          -> Clear(s, c.f)
    [] c.op = "status_gc"      -> StatusGC(s, MarksOf(c.l), c.f)
    [] c.op \in {"stamp", "more_props"} -> [s EXCEPT !.ret = Void]   \* executor bookkeeping: the mesh is untouched

=============================================================================
