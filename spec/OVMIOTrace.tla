----------------------------- MODULE OVMIOTrace -----------------------------
(***************************************************************************)
(* Trace validation of the file-format properties C06, C07, C18.           *)
(* Consumes the ndjson records written by harness/io_exec (one record per  *)
(* write / read / round trip performed by the real library, raw bytes as   *)
(* int arrays, mesh projections as records) and decides every verdict from *)
(* the format specifications OVMB.tla / OVMAscii.tla:                      *)
(*   write : the bytes must decode (ParseFile) to the logged mesh          *)
(*   read  : the spec decides whether the bytes are a valid file; the      *)
(*           implementation's result must agree where C18 demands it, a    *)
(*           successful read must yield a WellFormed mesh equal to         *)
(*           ParseFile(bytes), a file generated from the description       *)
(*           (must = TRUE) must be read, to the mesh of its source line    *)
(*   trip  : write -> read -> write -> read -> write                       *)
(* The spec is total: every line is consumed, failed checks are printed as *)
(* VXBAD lines, the classification of every line as a VXC line (counted by *)
(* the harness for the evidence file).                                     *)
(***************************************************************************)
EXTENDS OVMAscii, Json, IOUtils

CONSTANTS Props     \* property ids whose checks are evaluated, e.g. {"C06"}

Tr == ndJsonDeserialize(IOEnv.TRACE)

VARIABLES l, nbad, nchk
tvars == <<l, nbad, nchk>>

Has(rec, f) == f \in DOMAIN rec
Want(id) == id \in Props

ErrorResults == {"OtherError", "InvalidFile", "CannotOpenFile", "BadStream", "IncompatibleMesh", "False",
                 "Exception:bad_alloc", "Exception:length_error"}
AllocResults == {"Exception:bad_alloc", "Exception:length_error"}

(* result: [msg |-> "" | first failed check, cls |-> classification] *)
R(msg, cls) == [msg |-> msg, cls |-> cls]

(* what the format specification says about an input on which the reader died: part of the message, *)
(* so that a known finding can be identified by the situation and not by a stack trace                 *)
CrashContext(P, tc, failed) ==
  IF failed THEN "stream-failure"
  ELSE IF P.ok THEN (IF tc /\ ~TopoCheckOK(P) THEN "valid-file-mesh-fails-topology-check" ELSE "valid-file")
  ELSE "invalid-file:" \o P.why

(* ------------------------------- OVMB ---------------------------------- *)
OvmbWrite(ln) ==
  LET m == ln.mesh
      P == ParseFile(ln.bytes)
      pending == m.needs_gc \/ HasDeleted(m)
  IN
  IF ln.res \in {"Crash", "Timeout"} THEN R("C06:writer " \o ln.res, "write-died")
  ELSE IF ~ln.good THEN
       (IF Want("C18") /\ ln.res = "Ok" THEN R("C18:WriteFailureReportedOk", "write-streamfail")
        ELSE R("", "write-streamfail"))
  ELSE IF pending THEN
       (IF ln.res # "Ok" THEN R("", "write-pending-refused")
        ELSE IF Want("C06") /\ ~(P.ok /\ SameMesh(P, Logical(m))) THEN R("C06:PendingDeletionsWrittenAsDifferentMesh", "write-pending")
        ELSE R("", "write-pending-logical"))
  ELSE IF ~Want("C06") THEN R("", "write")
  ELSE IF ln.res # "Ok" THEN R("C06:WriteFailed:" \o ln.res, "write")
  ELSE IF ~P.ok THEN R("C06:WriterOutputInvalid:" \o P.why, "write")
  ELSE IF ~SameTopology(P, m) THEN R("C06:WriterTopologyDiffers", "write")
  ELSE IF P.pos # m.pos THEN R("C06:WriterPositionsDiffer", "write")
  ELSE IF P.props # OvmbPropSet(m.props) THEN R("C06:WriterPropertiesDiffer", "write")
  ELSE IF P.topo # (IF ln.tt = "auto" THEN DetectTopo(m, ln.mt) ELSE TopoOf(ln.tt)) THEN R("C06:WriterTopoType", "write")
  ELSE IF Has(ln, "rtt") /\ ln.rtt # P.topo THEN R("C06:ReaderTopoTypeQuery", "write")
  ELSE R("", "write")

OvmbRead(ln) ==
  LET P == ParseFile(ln.bytes)
      ok == ln.res = "Ok"
      failed == ln.failat >= 0 /\ ln.failat < Len(ln.bytes)
      must == Has(ln, "must") /\ ln.must
      hexconv == ln.mt # "hex" \/ ~ln.tc \/ (Has(ln, "ref") /\ Tr[ln.ref].mt = "hex")
      cls == (IF P.ok THEN "valid" ELSE IF P.strict THEN "strict:" \o P.why ELSE "lax:" \o P.why)
             \o (IF ok THEN "|accepted" ELSE "|rejected")
  IN
  IF ln.res \in {"Crash", "Timeout"} THEN
       (IF Want("C07") THEN R("C07:" \o ln.res \o ":" \o CrashContext(P, ln.tc, failed), cls)
        ELSE IF Want("C18") /\ (failed \/ (~P.ok /\ P.strict))
             THEN R("C18:InvalidFileNotRejected:" \o ln.res \o ":" \o CrashContext(P, ln.tc, failed), cls)   \* dying is not a result other than Ok
        ELSE R("", cls))
  ELSE IF Want("C07") /\ ~ok /\ ln.res \notin ErrorResults THEN R("C07:UnexpectedResult:" \o ln.res, cls)
  ELSE IF Want("C07") /\ ln.res \in AllocResults /\ ~DeclaresLargeSize(ln.bytes) THEN R("C07:AllocationFailureWithoutLargeField", cls)
  ELSE IF Want("C07") /\ ok /\ ~WellFormedMesh(ln.mesh) THEN R("C07:NotWellFormed", cls)
  ELSE IF Want("C18") /\ failed /\ ok THEN R("C18:StreamFailureReportedOk", "streamfail|accepted")
  ELSE IF failed THEN R("", "streamfail|rejected")
  ELSE IF Want("C18") /\ ok /\ ~P.ok /\ P.strict THEN R("C18:AcceptedInvalid:" \o P.why, cls)
  ELSE IF (Want("C06") \/ Want("C07")) /\ ok /\ P.ok /\ ~(IF ln.mt = "hex" /\ ln.tc THEN SameMeshUpToCellOrder(P, ln.mesh) ELSE SameMesh(P, ln.mesh))
       THEN R((IF Want("C06") THEN "C06" ELSE "C07") \o ":ReadMeshDiffersFromFile", cls)
  ELSE IF Want("C06") /\ must /\ ~P.ok THEN R("C06:SPEC-ENCODING-NOT-VALID:" \o P.why, cls)
  ELSE IF Want("C06") /\ must /\ ~hexconv THEN R("", cls \o "|hex-convention")
  ELSE IF Want("C06") /\ must /\ Compatible(P.topo, ln.mt) /\ (~ln.tc \/ TopoCheckOK(P)) /\ ~ok THEN R("C06:ValidEncodingRejected:" \o ln.res, cls)
  ELSE IF Want("C06") /\ must /\ ~Compatible(P.topo, ln.mt) /\ ok THEN R("C06:IncompatibleTopologyAccepted", cls)
  ELSE IF Want("C06") /\ must /\ ok /\ Has(ln, "ref") /\ ~MeshEq(Tr[ln.ref].mesh, ln.mesh, FALSE) THEN R("C06:ReadMeshDiffersFromSource", cls)
  ELSE R("", cls)

(* the source mesh of a round trip is readable into mesh type mt with these options *)
TripReadable(m1, mt1, mt, tc, fmt) ==
  /\ IF fmt = "ovmb" THEN Compatible(DetectTopo(m1, mt1), mt) ELSE AsciiCompatible(m1, mt)
  /\ (~tc \/ TopoCheckOK(m1))
  /\ (mt # "hex" \/ mt1 = "hex" \/ ~tc)     \* the hexahedral kernel re-orders the halffaces of a cell that is not in its convention (C16)

OvmbTrip(ln, pre) ==
  IF ln.res # "" THEN
       (IF TripReadable(pre.m1, pre.mt1, ln.mt, ln.tc, "ovmb") THEN R("C06:RoundTrip " \o ln.res, "trip-died") ELSE R("", "trip-died-not-readable"))
  ELSE LET m1 == ln.m1
           readable == TripReadable(m1, ln.mt1, ln.mt, ln.tc, "ovmb") IN
  IF ln.w1 # "Ok" THEN R("C06:Trip:w1:" \o ln.w1, "trip")
  ELSE IF ~Has(ln, "r1") THEN R("C06:Trip:incomplete", "trip")
  ELSE IF ~readable THEN R("", "trip-not-readable")
  ELSE IF ln.r1 # "Ok" THEN R("C06:Trip:r1:" \o ln.r1, "trip")
  ELSE IF ~MeshEq(m1, ln.m2, FALSE) THEN R("C06:Trip:m2#m1", "trip")
  ELSE IF ln.w2 # "Ok" THEN R("C06:Trip:w2:" \o ln.w2, "trip")
  ELSE IF ~(LET P == ParseFile(ln.b2) IN P.ok /\ SameMesh(P, ln.m2)) THEN R("C06:Trip:b2 does not decode to m2", "trip")
  ELSE IF ~Has(ln, "r2") \/ ln.r2 # "Ok" THEN R("C06:Trip:r2", "trip")
  ELSE IF ~MeshEq(ln.m2, ln.m3, FALSE) THEN R("C06:Trip:m3#m2", "trip")
  ELSE IF ln.w3 # "Ok" THEN R("C06:Trip:w3", "trip")
  ELSE R("", "trip")

(* ------------------------------- ASCII --------------------------------- *)
AsciiWrite(ln) ==
  LET m == ln.mesh
      A == AsciiParse(ln.bytes)
      pending == m.needs_gc \/ HasDeleted(m)
  IN
  IF ln.res \in {"Crash", "Timeout"} THEN R("C06:writer " \o ln.res, "awrite-died")
  ELSE IF ~ln.good THEN R("", "awrite-streamfail")
  ELSE IF pending THEN
       (IF ln.res # "Ok" THEN R("", "awrite-pending-refused")
        ELSE IF Want("C06") /\ ~(A.ok /\ AsciiMatches(A, Logical(m))) THEN R("C06:PendingDeletionsWrittenAsDifferentMesh", "awrite-pending")
        ELSE R("", "awrite-pending-logical"))
  ELSE IF ~Want("C06") THEN R("", "awrite")
  ELSE IF ~A.ok THEN R("C06:AsciiWriterOutputInvalid:" \o A.why, "awrite")
  ELSE IF ~AsciiMatches(A, m) THEN R("C06:AsciiWriterOutputDiffers:" \o AsciiDiff(A, m), "awrite")
  ELSE IF Has(ln, "ishex") /\ (ln.ishex # (TopoTypeOf(m) = 2) \/ ln.istet # (TopoTypeOf(m) = 1)) THEN
       \* the file-level queries of the text format; the case "cell valences fit, a face valence does not" is told apart
       (IF m.nc > 0 /\ ((ln.ishex /\ AllCellVal(m, 6) /\ ~AllFaceVal(m, 4)) \/ (ln.istet /\ AllCellVal(m, 4) /\ ~AllFaceVal(m, 3)))
             /\ (ln.ishex => AllCellVal(m, 6)) /\ (ln.istet => AllCellVal(m, 4))
        THEN R("C06:AsciiTypeDetection:cell-valences-fit-but-a-face-valence-does-not", "awrite")
        ELSE R("C06:AsciiTypeDetection", "awrite"))
  ELSE R("", "awrite")

AsciiRead(ln) ==
  LET ok == ln.res = "Ok"
      cls == "ascii|" \o (IF ok THEN "accepted" ELSE "rejected")
  IN
  IF ln.res \in {"Crash", "Timeout"} THEN
       (IF Want("C07") THEN R("C07:" \o ln.res \o ":ascii:" \o (LET A == AsciiParse(ln.bytes) IN
                                IF A.ok THEN (IF ln.tc /\ ~TopoCheckOK(A) THEN "valid-file-mesh-fails-topology-check" ELSE "valid-file")
                                ELSE "invalid-file:" \o A.why), cls) ELSE R("", cls))
  ELSE IF Want("C07") /\ ~ok /\ ln.res \notin ErrorResults THEN R("C07:UnexpectedResult:" \o ln.res, cls)
  ELSE IF Want("C07") /\ ln.res \in AllocResults /\ ~AsciiDeclaresLargeSize(ln.bytes) THEN R("C07:AllocationFailureWithoutLargeField", cls)
  ELSE IF Want("C07") /\ ok /\ ~WellFormedMesh(ln.mesh) THEN R("C07:NotWellFormed", cls)
  ELSE IF Want("C06") /\ Has(ln, "must") /\ ln.must /\ ~ok THEN R("C06:ValidAsciiRejected", cls)
  ELSE IF Want("C06") /\ ok /\ Has(ln, "ref") /\ ~AsciiMeshEq(Tr[ln.ref].mesh, ln.mesh, Has(ln, "exact") /\ ln.exact) THEN R("C06:ReadMeshDiffersFromSource", cls)
  ELSE R("", cls)

AsciiTrip(ln, pre) ==
  IF ln.res # "" THEN
       (IF TripReadable(pre.m1, pre.mt1, ln.mt, ln.tc, "ascii") THEN R("C06:RoundTrip " \o ln.res, "atrip-died") ELSE R("", "atrip-died-not-readable"))
  ELSE LET m1 == ln.m1
           exact == Has(ln, "exact") /\ ln.exact
           readable == TripReadable(m1, ln.mt1, ln.mt, ln.tc, "ascii") IN
  IF ln.w1 # "Ok" THEN R("C06:Trip:w1:" \o ln.w1, "atrip")
  ELSE IF ~Has(ln, "r1") THEN R("C06:Trip:incomplete", "atrip")
  ELSE IF ~readable THEN R("", "atrip-not-readable")
  ELSE IF ln.r1 # "Ok" THEN R("C06:Trip:r1:" \o ln.r1, "atrip")
  ELSE IF ~AsciiMeshEq(m1, ln.m2, exact) THEN R("C06:Trip:m2#m1:" \o AsciiMeshDiff(m1, ln.m2, exact), "atrip")
  ELSE IF ln.w2 # "Ok" THEN R("C06:Trip:w2:" \o ln.w2, "atrip")
  ELSE IF ~Has(ln, "r2") \/ ln.r2 # "Ok" THEN R("C06:Trip:r2", "atrip")
  ELSE IF ~AsciiMeshEq(ln.m2, ln.m3, TRUE) THEN R("C06:Trip:m3#m2 (second round trip changes the mesh):" \o AsciiMeshDiff(ln.m2, ln.m3, TRUE), "atrip")
  ELSE IF ln.w3 # "Ok" \/ ~AsciiSameFile(ln.b2, ln.b3) THEN R("C06:Trip:b3#b2 (second round trip changes the file)", "atrip")
  ELSE R("", "atrip")

(* ------------------------------ dispatch -------------------------------- *)
LineCheck(i) ==
  LET ln == Tr[i]
      died == Has(ln, "died")
      pre == IF i > 1 /\ Tr[i - 1].e = "tripm" /\ Tr[i - 1].j = ln.j THEN Tr[i - 1] ELSE [m1 |-> <<>>, mt1 |-> ""]
  IN
  IF ln.e = "write" THEN
       (IF died THEN R("C06:writer " \o ln.res, "write-died")
        ELSE IF ln.fmt = "ovmb" THEN OvmbWrite(ln) ELSE AsciiWrite(ln))
  ELSE IF ln.e = "read" THEN (IF ln.fmt = "ovmb" THEN OvmbRead(ln) ELSE AsciiRead(ln))
  ELSE IF ln.e = "trip" THEN
       (IF died /\ pre.mt1 = "" THEN R("C06:RoundTrip " \o ln.res \o " (while building the mesh)", "trip-died")
        ELSE IF ln.fmt = "ovmb" THEN OvmbTrip(IF died THEN ln ELSE ln @@ [res |-> ""], pre)
        ELSE AsciiTrip(IF died THEN ln ELSE ln @@ [res |-> ""], pre))
  ELSE R("", "")

TInit == l = 1 /\ nbad = 0 /\ nchk = 0

TNext ==
  /\ l <= Len(Tr)
  /\ l' = l + 1
  /\ LET ln == Tr[l] IN
     IF ln.e \in {"write", "read", "trip"}
     THEN LET r == LineCheck(l) IN
          /\ PrintT(<<"VXC", l, ln.j, r.cls>>)
          /\ nbad' = nbad + (IF r.msg = "" THEN 0 ELSE IF PrintT(<<"VXBAD", l, ln.j, r.msg>>) THEN 1 ELSE 1)
          /\ nchk' = nchk + 1
     ELSE UNCHANGED <<nbad, nchk>>

TSpec == TInit /\ [][TNext]_tvars

Done == (l = Len(Tr) + 1) => PrintT(<<"VXDONE", Len(Tr), nchk, nbad>>)
=============================================================================
