SPECIFICATION TSpec
CONSTANT Props = {"C01","C02","C03","C04","C09","C11","C12","C17","STEP"}
INVARIANT Done
CHECK_DEADLOCK FALSE
