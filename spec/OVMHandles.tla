------------------------------ MODULE OVMHandles ------------------------------
(***************************************************************************)
(* C08, conversion part: every block record written by harness/            *)
(* handles_exec (residue sums of the C++ conversions over a block of 2^20  *)
(* consecutive indices, and counts of indices violating a round-trip       *)
(* identity) is compared with the closed forms that follow from the        *)
(* specification  Half(e,s) = 2e+s, Full(h) = h div 2, Side(h) = h mod 2,  *)
(* Opp(h) = h xor 1  (proved mutually inverse for all naturals in          *)
(* proofs/HandleAlg.tla).  All arithmetic is done modulo P < 2^15 so that  *)
(* TLC's 32-bit integers never overflow.                                   *)
(***************************************************************************)
EXTENDS Integers, Sequences, TLC, Json, IOUtils

P == 32749
Tr == ndJsonDeserialize(IOEnv.TRACE)

MulP(a, b) == ((a % P) * (b % P)) % P
N == 1048576
(* sum of x for lo <= x < hi with hi - lo = n (n even):  (n/2) * (lo + hi - 1) *)
SumR(lo, hi, n) == MulP(n \div 2, (lo + hi - 1) % P)
SumX(lo, hi) == SumR(lo, hi, N)

BlockOK(r) ==
  LET sx == SumX(r.lo, r.hi) IN
  /\ r.hi - r.lo = N /\ r.lo % 2 = 0
  /\ r.he0 = MulP(2, sx)                       \* sum of 2x
  /\ r.he1 = (MulP(2, sx) + N) % P             \* sum of 2x+1
  /\ r.hf0 = r.he0 /\ r.hf1 = r.he1
  /\ r.eh = MulP(2, SumR(r.lo \div 2, r.hi \div 2, N \div 2))   \* sum of x div 2: every value twice
  /\ r.fh = r.eh
  /\ r.sub = (N \div 2) % P                    \* sum of x mod 2
  /\ r.oh = sx /\ r.of = sx                    \* x xor 1 permutes an aligned block
  /\ r.f_static = 0 /\ r.f_rt = 0 /\ r.f_side = 0 /\ r.f_face = 0
  /\ r.f_re = 0 /\ r.f_opp2 = 0 /\ r.f_oppfull = 0 /\ r.f_oppside = 0

VARIABLES l, nbad
Init == l = 1 /\ nbad = 0
Next == /\ l <= Len(Tr) /\ l' = l + 1
        /\ nbad' = nbad + (IF BlockOK(Tr[l]) THEN 0 ELSE IF PrintT(<<"VXBAD", l, Tr[l].b, 0, "C08:handle conversions">>) THEN 1 ELSE 1)
Spec == Init /\ [][Next]_<<l, nbad>>
Done == (l = Len(Tr) + 1) => PrintT(<<"VXDONE", Len(Tr), Len(Tr), nbad, 0>>)
=============================================================================
