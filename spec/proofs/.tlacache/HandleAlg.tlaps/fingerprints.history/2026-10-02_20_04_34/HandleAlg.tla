------------------------------ MODULE HandleAlg ------------------------------
(***************************************************************************)
(* The handle algebra of OpenVolumeMesh (Handles.hh, TopologyKernel.hh):   *)
(* half-entity = 2 * full-entity + side.  Proved for ALL naturals with     *)
(* TLAPS (C08: the conversions are mutually inverse, opposite is an        *)
(* involution that keeps the full entity and flips the side).              *)
(* The same operators are used by OVMKernel.tla (Half, Full, Side, Opp).   *)
(***************************************************************************)
EXTENDS Integers, TLAPS

Half(e, s) == 2 * e + s
Full(h)    == h \div 2
Side(h)    == h % 2
Opp(h)     == IF h % 2 = 0 THEN h + 1 ELSE h - 1

THEOREM RoundTrip ==
  \A e \in Nat : \A s \in {0, 1} :
     /\ Half(e, s) \in Nat
     /\ Full(Half(e, s)) = e
     /\ Side(Half(e, s)) = s
  BY DEF Half, Full, Side

THEOREM Recompose ==
  \A h \in Nat : /\ Full(h) \in Nat /\ Side(h) \in {0, 1}
                 /\ Half(Full(h), Side(h)) = h
  BY DEF Half, Full, Side

THEOREM OppositeMirror ==
  \A h \in Nat :
     /\ Opp(h) \in Nat
     /\ Opp(Opp(h)) = h
     /\ Full(Opp(h)) = Full(h)
     /\ Side(Opp(h)) = 1 - Side(h)
     /\ Opp(h) # h
  BY DEF Opp, Full, Side

THEOREM OppositeOfHalf ==
  \A e \in Nat : Opp(Half(e, 0)) = Half(e, 1) /\ Opp(Half(e, 1)) = Half(e, 0)
  BY DEF Opp, Half
=============================================================================
