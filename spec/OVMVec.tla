------------------------------- MODULE OVMVec -------------------------------
(***************************************************************************)
(* Component-wise DEFINITIONS of the Geometry::VectorT<Scalar,DIM>         *)
(* interface (src/OpenVolumeMesh/Geometry/Vector11T.hh) and of the         *)
(* geometric queries of GeometryKernel / NormalAttrib (property C19).      *)
(*                                                                         *)
(* Everything is exact: a scalar is a rational <<num, den>> (den > 0,      *)
(* reduced), a vector is a tuple of rationals.  The scalar types of the    *)
(* implementation are a second layer on top of the exact one:              *)
(*   "i"  int       expected = the exact result truncated toward zero      *)
(*                  (C++ integer division; identity for ring operations)   *)
(*   "u"  unsigned  ring operations: the exact integer modulo 2^32 (given  *)
(*                  as two 16-bit halves <<hi, lo>>, TLC integers are 32   *)
(*                  bit); everything else only on non-negative inputs      *)
(*   "f" "d"  float / double: EXACT equality wherever the exact result is  *)
(*                  a dyadic rational (these are representable), a stated  *)
(*                  integer-scaled tolerance elsewhere (thirds, roots).    *)
(* TLA+ has no floating point: NaN / inf / subnormals / signed zeros and   *)
(* the rounding error on arbitrary reals are outside this module.          *)
(***************************************************************************)
EXTENDS Integers, Sequences, FiniteSets, TLC

Abs(x) == IF x < 0 THEN -x ELSE x
Sgn(x) == IF x < 0 THEN -1 ELSE IF x = 0 THEN 0 ELSE 1
RECURSIVE Gcd(_, _)
Gcd(a, b) == IF b = 0 THEN a ELSE Gcd(b, a % b)            \* a, b >= 0
(* C++ integer division (truncation toward zero), b # 0                    *)
TruncDiv(a, b) == Sgn(a) * Sgn(b) * (Abs(a) \div Abs(b))
P2Table == <<1, 2, 4, 8, 16, 32, 64, 128, 256, 512, 1024, 2048, 4096, 8192, 16384, 32768, 65536, 131072, 262144,
             524288, 1048576, 2097152, 4194304, 8388608, 16777216>>
Pow2(k) == P2Table[k + 1]                                  \* 0 <= k <= 24
Pow2Set == {P2Table[k] : k \in 1 .. 25}
IsPow2(n) == n \in Pow2Set
Two24 == 16777216
Two13 == 8192

(* ------------------------------ rationals ------------------------------ *)
Rat(n, d) == LET g == Gcd(Abs(n), Abs(d))
                 s == IF d < 0 THEN -1 ELSE 1
             IN  <<s * Sgn(n) * (Abs(n) \div g), Abs(d) \div g>>
RI(n)      == <<n, 1>>
RAdd(x, y) == IF x[2] = 1 /\ y[2] = 1 THEN <<x[1] + y[1], 1>> ELSE Rat(x[1] * y[2] + y[1] * x[2], x[2] * y[2])
RNeg(x)    == <<-x[1], x[2]>>
RSub(x, y) == RAdd(x, RNeg(y))
RMul(x, y) == IF x[2] = 1 /\ y[2] = 1 THEN <<x[1] * y[1], 1>> ELSE Rat(x[1] * y[1], x[2] * y[2])
RDiv(x, y) == Rat(x[1] * y[2], x[2] * y[1])                 \* y # 0
RLess(x, y) == x[1] * y[2] < y[1] * x[2]
RLeq(x, y)  == x[1] * y[2] <= y[1] * x[2]
RAbs(x)    == <<Abs(x[1]), x[2]>>
RMin(x, y) == IF RLess(y, x) THEN y ELSE x
RMax(x, y) == IF RLess(x, y) THEN y ELSE x
RTrunc(x)  == TruncDiv(x[1], x[2])
RIsInt(x)  == x[2] = 1
RSgn(x)    == Sgn(x[1])

(* ------------------------------- vectors ------------------------------- *)
Dim(a) == Len(a)
VInt(a)        == [i \in 1 .. Len(a) |-> RI(a[i])]                 \* integer tuple -> vector
VOver(a, den)  == [i \in 1 .. Len(a) |-> Rat(a[i], den)]            \* a / den
VAdd(a, b)  == [i \in 1 .. Len(a) |-> RAdd(a[i], b[i])]
VSub(a, b)  == [i \in 1 .. Len(a) |-> RSub(a[i], b[i])]
VMul(a, b)  == [i \in 1 .. Len(a) |-> RMul(a[i], b[i])]
VDiv(a, b)  == [i \in 1 .. Len(a) |-> RDiv(a[i], b[i])]
VNeg(a)     == [i \in 1 .. Len(a) |-> RNeg(a[i])]
VAbs(a)     == [i \in 1 .. Len(a) |-> RAbs(a[i])]
VScale(a, s) == [i \in 1 .. Len(a) |-> RMul(a[i], s)]
VSDiv(a, s)  == [i \in 1 .. Len(a) |-> RDiv(a[i], s)]
VConst(d, s) == [i \in 1 .. d |-> s]
CMin(a, b)  == [i \in 1 .. Len(a) |-> RMin(a[i], b[i])]
CMax(a, b)  == [i \in 1 .. Len(a) |-> RMax(a[i], b[i])]

RECURSIVE SumTo(_, _)
SumTo(a, n) == IF n = 0 THEN RI(0) ELSE RAdd(SumTo(a, n - 1), a[n])
Sum(a) == SumTo(a, Len(a))
RECURSIVE MaxTo(_, _)
MaxTo(a, n) == IF n = 1 THEN a[1] ELSE RMax(MaxTo(a, n - 1), a[n])
RECURSIVE MinTo(_, _)
MinTo(a, n) == IF n = 1 THEN a[1] ELSE RMin(MinTo(a, n - 1), a[n])

RECURSIVE SumIntsTo(_, _)
SumIntsTo(a, n) == IF n = 0 THEN 0 ELSE SumIntsTo(a, n - 1) + a[n]
SumInts(a) == SumIntsTo(a, Len(a))

Dot(a, b)   == Sum(VMul(a, b))
Cross(a, b) == << RSub(RMul(a[2], b[3]), RMul(a[3], b[2])),
                  RSub(RMul(a[3], b[1]), RMul(a[1], b[3])),
                  RSub(RMul(a[1], b[2]), RMul(a[2], b[1])) >>
SqrNorm(a)  == Dot(a, a)
L1Norm(a)   == Sum(VAbs(a))                                  \* Manhattan norm
MaxC(a)     == MaxTo(a, Len(a))
MinC(a)     == MinTo(a, Len(a))
MaxAbs(a)   == MaxC(VAbs(a))
MinAbs(a)   == MinC(VAbs(a))
L8Norm(a)   == MaxAbs(a)                                     \* maximum norm
Mean(a)     == RDiv(Sum(a), RI(Len(a)))
MeanAbs(a)  == RDiv(L1Norm(a), RI(Len(a)))
LexLess(a, b) == \E i \in 1 .. Len(a) : (\A j \in 1 .. (i - 1) : a[j] = b[j]) /\ RLess(a[i], b[i])
IsZeroVec(a) == \A i \in 1 .. Len(a) : a[i][1] = 0
Homogenized(a) == << RDiv(a[1], a[4]), RDiv(a[2], a[4]), RDiv(a[3], a[4]), RI(1) >>

(* minimized / maximized: the vector is the component-wise min / max.  The *)
(* flag "signalises coordinate minimisation": it must be TRUE when some    *)
(* coordinate really decreased and FALSE when every coordinate of the      *)
(* argument is strictly larger; for ties the documentation is silent, so   *)
(* nothing is asserted there (the implementation answers TRUE).            *)
FlagOK(flag, a, b, Less(_, _)) ==
  /\ (\E i \in 1 .. Len(a) : Less(b[i], a[i])) => flag
  /\ (\A i \in 1 .. Len(a) : Less(a[i], b[i])) => ~flag

(* --------------------- integer square roots (exact) -------------------- *)
ISqrt(n) == CHOOSE r \in 0 .. (IF n < 256 THEN 16 ELSE IF n < 65536 THEN 256 ELSE 46340) : r * r <= n /\ (r + 1) * (r + 1) > n
IsSquare(n) == n >= 0 /\ ISqrt(n) * ISqrt(n) = n
(* sqrt of a rational if it is rational: <<TRUE, root>> or <<FALSE, _>>    *)
RSqrt(x) == IF IsSquare(x[1]) /\ IsSquare(x[2]) THEN <<TRUE, <<ISqrt(x[1]), ISqrt(x[2])>> >> ELSE <<FALSE, RI(0)>>

(* ------------------- observations of the scalar types ------------------ *)
(* int: JSON integer.  unsigned: <<hi16, lo16>>.                           *)
U32(x) == IF x >= 0 THEN <<x \div 65536, x % 65536>>
          ELSE LET y == (-x) - 1 IN <<65535 - (y \div 65536), 65535 - (y % 65536)>>
(* float / double: <<text, n, k>> with k >= 0 : the value is exactly       *)
(* n / 2^k (n odd or k = 0, k <= 24);  <<text, hi, -1, lo>> : the value is *)
(* (hi + lo / 2^24) / 2^24 up to half a unit of 2^-48 (hi = floor(x*2^24), *)
(* |x| < 64);  <<text, 0, -2>> : not finite or |x| >= 64.                  *)
FIsExact(v) == v[3] >= 0
FOutOfRange(v) == v[3] = -2
FExactRat(v) == IF v[3] = 0 THEN <<v[2], 1>> ELSE Rat(v[2], Pow2(v[3]))
FHi(v) == IF v[3] >= 0 THEN v[2] * Pow2(24 - v[3]) ELSE v[2]
FLo(v) == IF v[3] >= 0 THEN 0 ELSE v[4]
FSgn(v) == IF v[3] >= 0 THEN Sgn(v[2]) ELSE IF v[2] >= 0 THEN 1 ELSE -1

(* tolerance for a result that is not representable (|r| < 128 / den):     *)
(*   float : 8 units of 2^-24 = 2^-21 absolute below 4, doubling with the  *)
(*           binade above (a few float roundings: 2^-21 .. 2^-22 relative) *)
(*   double: 256 units of 2^-48 = 2^-40 absolute (far above double         *)
(*           rounding, far below float rounding)                           *)
TolF24(r) == 8 * (1 + (Abs(r[1]) \div (4 * r[2])))
TolD48 == 256

(* observed value v of type ty (f or d) against the exact rational r       *)
FloatMatches(v, r, ty) ==
  IF FOutOfRange(v) THEN FALSE
  ELSE IF IsPow2(r[2])
       THEN FIsExact(v) /\ FExactRat(v) = r                      \* representable: exact
       ELSE /\ Assert(Abs(r[1]) < 128 /\ r[2] <= 64, <<"tolerance comparison out of range", r>>)
            /\ Abs(FHi(v)) <= 2147483647 \div r[2]
            /\ LET delta == FHi(v) * r[2] - r[1] * Two24 IN          \* (floor(x * 2^24) - r * 2^24) * den
               IF ty = "f" THEN Abs(delta) <= (TolF24(r) + 1) * r[2]
               ELSE /\ Abs(delta) <= r[2]
                    /\ (Abs(delta * Two24 + FLo(v) * r[2]) \div r[2]) <= TolD48

(* n * n / 2^24 for 0 <= n < 2^27, error below 3 units                     *)
SqUnits(n) == LET A == n \div Two13  B == n % Two13 IN A * A * 4 + ((A * B) \div 1024) + ((B * B) \div Two24)

(* observed v is the square root of the rational s (s >= 0):               *)
(*  - exactly, if the root is rational and dyadic (IEEE sqrt is correctly  *)
(*    rounded, an exact root is therefore returned exactly),               *)
(*  - else through the identity v*v*den = num on the squared quantity,     *)
(*    relative tolerance 2^-21.                                            *)
SqrtMatches(v, s, ty) ==
  LET rt == RSqrt(s)  p == s[1]  q == s[2] IN
  IF rt[1] THEN FloatMatches(v, rt[2], ty)
  ELSE IF FOutOfRange(v) \/ FHi(v) < 0 THEN FALSE
  ELSE LET m == FHi(v) \div Two24 IN                      \* integer part: must be floor(sqrt(s))
       IF ~(m * m * q <= p /\ p < (m + 1) * (m + 1) * q) THEN FALSE
       ELSE IF p <= 80 /\ q <= 4
            THEN Abs(SqUnits(FHi(v)) * q - p * Two24) <= (8 * p + 16 * q)
       ELSE IF p < 4096 /\ q <= 4
            THEN LET h == FHi(v) \div 8 IN                 \* scale 2^21: h*h/2^24 = x^2 * 2^18
                 Abs(SqUnits(h) * q - p * 262144) <= ((p \div 8) + 64 * q)
       ELSE Assert(FALSE, <<"square-root comparison out of range", s>>)

(* observed vector w (tuple of float observations) is n / |n| for the      *)
(* non-zero exact vector n with integer components below 64 in magnitude   *)
(* (n given as integers):  parallel, same direction, unit length -         *)
(* tolerance 2^-20 per component.                                          *)
Hs(w) == [i \in 1 .. Len(w) |-> FHi(w[i])]
UnitDirMatches(w, n) ==
  LET h == Hs(w)  d == Len(n) IN
  /\ \A i \in 1 .. d : ~FOutOfRange(w[i]) /\ Abs(h[i]) <= Two24 + 16
  /\ \A i \in 1 .. d : \A j \in (i + 1) .. d :
        Abs(h[i] * n[j] - h[j] * n[i]) <= 16 * (Abs(n[i]) + Abs(n[j]) + 1)          \* parallel
  /\ \A i \in 1 .. d : n[i] = 0 => (FIsExact(w[i]) /\ w[i][2] = 0)                   \* 0 / x = 0 exactly
  /\ \A i \in 1 .. d : n[i] # 0 => Sgn(h[i]) = Sgn(n[i])                            \* same direction
  /\ Abs(SumInts([i \in 1 .. d |-> SqUnits(Abs(h[i]))]) - Two24) <= 64             \* unit length

(* x * y / 2^24 for |x| <= 2^24 + 16, |y| < 2^26, error below 3 units      *)
Prod24(x, y) == LET xA == x \div 4096  xB == x % 4096  yA == y \div 4096  yB == y % 4096 IN
                xA * yA + ((xA * yB + xB * yA) \div 4096) + ((xB * yB) \div Two24)
(* observed unit vector w against a direction given in fixed point (units  *)
(* of 2^-24, components below 2^26 in magnitude, not all tiny):            *)
(* parallel, same direction, unit length; tolerance about 2^-18            *)
UnitDirMatchesFx(w, S) ==
  LET h == Hs(w)  d == Len(S) IN
  /\ \A i \in 1 .. d : ~FOutOfRange(w[i]) /\ Abs(h[i]) <= Two24 + 16
  /\ \A i \in 1 .. d : \A j \in (i + 1) .. d : Abs(Prod24(h[i], S[j]) - Prod24(h[j], S[i])) <= 64
  /\ SumInts([i \in 1 .. d |-> Prod24(h[i], S[i])]) > 0
  /\ Abs(SumInts([i \in 1 .. d |-> SqUnits(Abs(h[i]))]) - Two24) <= 64

(* normalisation of a rational vector a (common denominator): direction of *)
(* the integer vector a * den; exact where the norm is rational            *)
NormalizedMatches(w, a, ty) ==
  LET s  == SqrNorm(a)
      rt == RSqrt(s)
      Fits(q) == \A i \in 1 .. Len(a) : RIsInt(RMul(a[i], RI(q)))
      den == CHOOSE q \in {1, 2, 4, 8} : Fits(q) /\ \A q2 \in {1, 2, 4, 8} : Fits(q2) => q <= q2
      n  == [i \in 1 .. Len(a) |-> RMul(a[i], RI(den))[1]]
  IN IF rt[1] THEN \A i \in 1 .. Len(a) : FloatMatches(w[i], RDiv(a[i], rt[2]), ty)
     ELSE UnitDirMatches(w, n)

(* --------------------------- stream format ----------------------------- *)
(* operator<< prints the components separated by one blank; a dyadic value *)
(* with denominator 1, 2 or 4 prints as its shortest decimal.              *)
FracStr(n, d) == CASE d = 1 -> ""
                   [] d = 2 -> ".5"
                   [] d = 4 -> IF n % 4 = 1 THEN ".25" ELSE ".75"
RatStr(x) == (IF x[1] < 0 THEN "-" ELSE "") \o ToString(Abs(x[1]) \div x[2]) \o FracStr(Abs(x[1]) % x[2], x[2])
(* the decimal text of x modulo 2^32 for -4 <= x                           *)
U32Str(x) == IF x >= 0 THEN ToString(x)
             ELSE CASE x = -1 -> "4294967295" [] x = -2 -> "4294967294" [] x = -3 -> "4294967293" [] x = -4 -> "4294967292"
RECURSIVE JoinTo(_, _, _)
JoinTo(strs, n, sep) == IF n = 1 THEN strs[1] ELSE JoinTo(strs, n - 1, sep) \o sep \o strs[n]
Join(strs, sep) == JoinTo(strs, Len(strs), sep)
StreamText(a, sep) == Join([i \in 1 .. Len(a) |-> RatStr(a[i])], sep)
StreamTextU(a) == Join([i \in 1 .. Len(a) |-> U32Str(a[i][1])], " ")

(* ------------------------ the interface catalogue ---------------------- *)
(* One name per member / operator of VectorT that the executor evaluates.  *)
(* eqc / nec / ltc / gtc compare two COMPUTED vectors that are equal in     *)
(* exact arithmetic: X (a product or a negation, whose zero components are  *)
(* negative zeros for float/double when an operand is negative) and         *)
(* Y = X + 0 resp. 0 - a: X == Y, !(X != Y), !(X < Y), !(Y < X).            *)
(* Groups "sweep"/"sweepmul" (kind S, types int and unsigned only) are the  *)
(* integer scalar division / multiplication sweep over large operands.      *)
(* A case has a kind (B: two vectors, S: vector and scalar, U: one vector,  *)
(* I: stream input) and a list of groups that TLC found to be in contract  *)
(* for its inputs (no division by zero, no normalisation of the zero       *)
(* vector, no negative value converted to unsigned).  The executor runs    *)
(* exactly OpsFor(kind, group, type, dim) - the table is emitted by TLC.   *)
Types == {"i", "u", "f", "d"}
FloatTypes == {"f", "d"}
Kinds == {"B", "S", "U", "I", "X"}
GroupsOf(k) == CASE k = "B" -> {"ring", "div"} [] k = "S" -> {"ring", "sdiv", "sweep", "sweepmul"}
                 [] k = "U" -> {"ring", "nz", "hom", "cvu"} [] k = "I" -> {"ring"}
                 [] k = "X" -> {"ring", "sub", "div", "sdiv"}
OpsOf(k, g, d) ==
  CASE k = "B" /\ g = "ring" -> {"add", "sub", "mul", "addeq", "subeq", "muleq", "eq", "ne", "lt", "dot", "dotm", "dotf",
                                 "min", "max", "minimize", "maximize", "minimized", "maximized", "swap",
                                 "eqc", "nec", "ltc", "gtc"}
                                \cup (IF d = 3 THEN {"cross", "crossm", "crossf"} ELSE {})
    [] k = "B" /\ g = "div"  -> {"div", "diveq"}
    [] k = "S" /\ g = "ring" -> {"smul", "smull", "smuleq", "vectorize", "vectorized", "ctor1", "eqc", "nec", "ltc", "gtc"}
    [] k = "S" /\ g = "sweep" -> {"sdiv", "sdiveq"}
    [] k = "S" /\ g = "sweepmul" -> {"smul", "smull", "smuleq", "mean"}          \* small operands only (no overflow)
    [] k = "S" /\ g = "sdiv" -> {"sdiv", "sdiveq"}
    [] k = "U" /\ g = "ring" -> {"neg", "sqrnorm", "l1", "l8", "maxc", "minc", "maxabs", "minabs", "mean", "meanabs",
                                 "get", "data", "iter", "riter", "ctoriter", "ctorn", "copy", "size", "norm", "length",
                                 "normcond", "out", "inout", "apply", "cv_i", "cv_f", "cv_d", "eqc", "nec", "ltc", "gtc"}
    [] k = "U" /\ g = "nz"   -> {"normalize", "normalized"}
    [] k = "U" /\ g = "hom"  -> IF d = 4 THEN {"homogenized"} ELSE {}
    [] k = "U" /\ g = "cvu"  -> {"cv_u"}
    [] k = "I" /\ g = "ring" -> {"in"}
    [] k = "X" -> {}
MixedOpsOf(k, g, d) ==
  CASE k = "B" /\ g = "ring" -> {"add_di", "sub_id", "mul_fd", "dot_df"} \cup (IF d = 3 THEN {"cross_di"} ELSE {})
    [] k = "S" /\ g = "ring" -> {"smul_ih"}
    [] OTHER -> {}
NotForU   == {"maxabs", "minabs", "l8", "meanabs", "norm", "length", "normalize", "normalized", "normcond"}
OnlyFloat == {"normalize", "normalized", "normcond"}
Applies(op, t) == /\ (t = "u" => op \notin NotForU)
                  /\ (op \in OnlyFloat => t \in FloatTypes)
                  /\ op # "cv_" \o t
(* kind X: operands of two DIFFERENT scalar types, every ordered pair (left, right) of the four types.      *)
(* VectorT's binary operators are templated on the right scalar type; the C++ rules fix the result:         *)
(*   v OP w, v OP= w, v * s, s * v, v / s   computed per component in the common type of the two scalars     *)
(*                                          (usual arithmetic conversions), then converted to the LEFT type   *)
(*   v | w, v.dot(w), v % w, v.cross(w)     value / vector of the common type (decltype of the product)       *)
(*   VectorT<R>(v), w = v                   conversion of every component to the right type                   *)
(* (==, !=, <, min, max, minimize, maximize take a vector of the SAME type; they are not templated.)          *)
XOpsOf(g, d) ==
  CASE g = "ring" -> {"add", "addeq", "mul", "muleq", "dot", "dotm", "smul", "smull", "smuleq", "cvt", "asg"}
                     \cup (IF d = 3 THEN {"cross", "crossm"} ELSE {})
    [] g = "sub"  -> {"sub", "subeq"}
    [] g = "div"  -> {"div", "diveq"}
    [] g = "sdiv" -> {"sdiv", "sdiveq"}
CommonType(tl, tr) == IF "d" \in {tl, tr} THEN "d" ELSE IF "f" \in {tl, tr} THEN "f" ELSE IF "u" \in {tl, tr} THEN "u" ELSE "i"
OpsFor(k, g, t, d) == IF k = "X" THEN (IF t = "x" THEN XOpsOf(g, d) ELSE {})
                      ELSE IF t = "x" THEN {}
                      ELSE IF t = "m" THEN MixedOpsOf(k, g, d) ELSE {op \in OpsOf(k, g, d) : Applies(op, t)}
(* operations that commute with reduction modulo 2^32 (checked on wrapped  *)
(* negative inputs for unsigned); the others only on non-negative inputs   *)
RingOps == {"eqc", "nec", "add", "sub", "mul", "addeq", "subeq", "muleq", "eq", "ne", "dot", "dotm", "dotf", "cross", "crossm", "crossf",
            "swap", "smul", "smull", "smuleq", "vectorize", "vectorized", "ctor1", "neg", "sqrnorm", "get", "data",
            "iter", "riter", "ctoriter", "ctorn", "copy", "size", "apply"}
TypesOfDen(den) == IF den = 1 THEN Types \cup {"m"} ELSE FloatTypes
(* separators used for stream input                                        *)
Seps == <<" ", "   ", "\t", "\n">>

(* ------------------------- geometric definitions ----------------------- *)
(* mesh data as logged: edges = Seq(<<from,to>>), faces = Seq(Seq(HE)),    *)
(* cells = Seq(Seq(HF)), pos = Seq(integer triple); handles are 0-based    *)
HEFrom(edges, h) == edges[(h \div 2) + 1][(h % 2) + 1]
HETo(edges, h)   == edges[(h \div 2) + 1][2 - (h % 2)]
Rev(s) == [i \in 1 .. Len(s) |-> s[Len(s) + 1 - i]]
Opp(h) == IF h % 2 = 0 THEN h + 1 ELSE h - 1
HFHalfedges(faces, hf) == LET hes == faces[(hf \div 2) + 1] IN
                          IF hf % 2 = 0 THEN hes ELSE [i \in 1 .. Len(hes) |-> Opp(Rev(hes)[i])]
HFVerts(edges, faces, hf) == LET hes == HFHalfedges(faces, hf) IN [i \in 1 .. Len(hes) |-> HEFrom(edges, hes[i])]
P(pos, v) == VInt(pos[v + 1])
EdgeVector(edges, pos, h) == VSub(P(pos, HETo(edges, h)), P(pos, HEFrom(edges, h)))       \* h a halfedge
RECURSIVE Sum3To(_, _, _)
Sum3To(pos, vs, n) == IF n = 0 THEN VInt(<<0, 0, 0>>) ELSE VAdd(Sum3To(pos, vs, n - 1), P(pos, vs[n]))
Sum3(pos, vs) == Sum3To(pos, vs, Len(vs))
BaryOf(pos, vs) == VSDiv(Sum3(pos, vs), RI(Len(vs)))
CellVerts(edges, faces, cells, c) ==
  UNION { {HFVerts(edges, faces, hf)[i] : i \in 1 .. Len(HFVerts(edges, faces, hf))} : hf \in {cells[c + 1][k] : k \in 1 .. Len(cells[c + 1])} }
SetToSortedSeq(S) == LET RECURSIVE Srt(_)
                         Srt(T) == IF T = {} THEN <<>> ELSE LET m == CHOOSE x \in T : \A y \in T : x <= y IN <<m>> \o Srt(T \ {m})
                     IN Srt(S)
(* un-normalised halfface normal: cross product of the first two edges     *)
HFNormalInt(edges, faces, pos, hf) ==
  LET hes == HFHalfedges(faces, hf)
      p1 == P(pos, HEFrom(edges, hes[1]))  p2 == P(pos, HETo(edges, hes[1]))  p3 == P(pos, HETo(edges, hes[2]))
  IN Cross(VSub(p2, p1), VSub(p3, p2))
IntsOf(a) == [i \in 1 .. Len(a) |-> a[i][1]]
=============================================================================
