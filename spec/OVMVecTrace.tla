----------------------------- MODULE OVMVecTrace -----------------------------
(***************************************************************************)
(* Trace validation (role V) for C19: consumes the ndjson log of           *)
(* harness/vec_exec (raw results of VectorT<int|unsigned|float|double,d>   *)
(* operations and of the GeometryKernel / NormalAttrib queries on inputs   *)
(* that TLC generated from OVMVecMC) and compares EVERY logged result with *)
(* the definition in OVMVec.  The executor holds no expected values.       *)
(*                                                                         *)
(* Protocol (same as OVMTrace): a failed comparison prints                 *)
(*   <<"VXBAD", line, case number, 0, "type/op">>                          *)
(* and when every line has been consumed                                   *)
(*   <<"VXDONE", lines, results compared, bad, results skipped>>           *)
(*   <<"VXSTAT", cases, non-trivial cases>>.                               *)
(* "MACHINERY:..." messages name a disagreement between the set of         *)
(* operations the spec asked for and the set the executor logged (never a  *)
(* violation of the property).                                             *)
(***************************************************************************)
EXTENDS OVMVec, Json, IOUtils

CONSTANTS Props     \* {"C19"}; kept for the common validator protocol

Tr == ndJsonDeserialize(IOEnv.TRACE)

VARIABLES l, nbad, nchk, nskip, ncase, nnt
tvars == <<l, nbad, nchk, nskip, ncase, nnt>>

Range(s) == {s[i] : i \in 1 .. Len(s)}

(* ----------------------- typed comparison ------------------------------ *)
Sc(t, v, e) == CASE t = "i" -> v = RTrunc(e)
                 [] t = "u" -> v = U32(RTrunc(e))
                 [] t \in FloatTypes -> FloatMatches(v, e, t)
Vc(t, v, E) == Len(v) = Len(E) /\ \A i \in 1 .. Len(E) : Sc(t, v[i], E[i])

Greater(x, y) == RLess(y, x)

(* one logged result v of operation op for scalar type t                   *)
OpOK(op, t, ln, A, B, S, v) ==
  LET d == ln.d IN
  CASE op \in {"add", "addeq"} -> Vc(t, v, VAdd(A, B))
    [] op \in {"sub", "subeq"} -> Vc(t, v, VSub(A, B))
    [] op \in {"mul", "muleq"} -> Vc(t, v, VMul(A, B))
    [] op \in {"div", "diveq"} -> Vc(t, v, VDiv(A, B))
    [] op = "eqc" -> v = TRUE          \* computed X and Y are the same exact vector (see the catalogue)
    [] op = "nec" -> v = FALSE
    [] op \in {"ltc", "gtc"} -> v = FALSE
    [] op = "eq" -> v = (A = B)
    [] op = "ne" -> v = (A # B)
    [] op = "lt" -> v = LexLess(A, B)
    [] op \in {"dot", "dotm", "dotf"} -> Sc(t, v, Dot(A, B))
    [] op \in {"cross", "crossm", "crossf"} -> Vc(t, v, Cross(A, B))
    [] op \in {"min", "minimize"} -> Vc(t, v, CMin(A, B))
    [] op \in {"max", "maximize"} -> Vc(t, v, CMax(A, B))
    [] op = "minimized" -> Vc(t, v[1], CMin(A, B)) /\ FlagOK(v[2], A, B, RLess)
    [] op = "maximized" -> Vc(t, v[1], CMax(A, B)) /\ FlagOK(v[2], A, B, Greater)
    [] op = "swap" -> Vc(t, v[1], B) /\ Vc(t, v[2], A)
    [] op \in {"smul", "smull", "smuleq"} -> Vc(t, v, VScale(A, S))
    [] op \in {"sdiv", "sdiveq"} -> Vc(t, v, VSDiv(A, S))
    [] op \in {"vectorize", "vectorized", "ctor1"} -> Vc(t, v, VConst(d, S))
    [] op = "neg" -> Vc(t, v, VNeg(A))
    [] op = "sqrnorm" -> Sc(t, v, SqrNorm(A))
    [] op = "l1" -> Sc(t, v, L1Norm(A))
    [] op = "l8" -> Sc(t, v, L8Norm(A))
    [] op = "maxc" -> Sc(t, v, MaxC(A))
    [] op = "minc" -> Sc(t, v, MinC(A))
    [] op = "maxabs" -> Sc(t, v, MaxAbs(A))
    [] op = "minabs" -> Sc(t, v, MinAbs(A))
    [] op = "mean" -> Sc(t, v, Mean(A))
    [] op = "meanabs" -> Sc(t, v, MeanAbs(A))
    [] op \in {"get", "data", "iter", "ctoriter", "ctorn", "copy", "inout"} -> Vc(t, v, A)
    [] op = "riter" -> Vc(t, v, Rev(A))
    [] op = "size" -> v = <<d, d>>
    [] op \in {"norm", "length"} -> SqrtMatches(v, SqrNorm(A), IF t = "i" THEN "d" ELSE t)
    [] op = "normcond" -> IF IsZeroVec(A) THEN Vc(t, v, A) ELSE NormalizedMatches(v, A, t)
    [] op \in {"normalize", "normalized"} -> NormalizedMatches(v, A, t)
    [] op = "out" -> v = StreamText(A, " ")
    [] op = "in" -> Vc(t, v[1], A) /\ v[2] = TRUE
    [] op = "apply" -> Vc(t, v, VAdd(A, VConst(d, RI(1))))
    [] op = "cv_i" -> Vc("i", v, A)
    [] op = "cv_u" -> Vc("u", v, A)
    [] op = "cv_f" -> Vc("f", v, A)
    [] op = "cv_d" -> Vc("d", v, A)
    [] op = "homogenized" -> Vc(t, v, Homogenized(A))
    \* operands of different scalar types (den = 1)
    [] op = "add_di" -> Vc("d", v, VAdd(A, B))
    [] op = "sub_id" -> Vc("i", v, VSub(A, B))
    [] op = "mul_fd" -> Vc("f", v, VMul(A, B))
    [] op = "dot_df" -> Sc("d", v, Dot(A, B))
    [] op = "cross_di" -> Vc("d", v, Cross(A, B))
    [] op = "smul_ih" -> Vc("i", v, VScale(A, Rat(ln.s, 2)))

Distinct2(a) == \E i, j \in 1 .. Len(a) : a[i] # a[j]
NonTrivialVec(ln) == /\ Distinct2(ln.a) /\ (ln.k = "B" => Distinct2(ln.b) /\ ln.a # ln.b)

VecCheck(ln) ==
  LET A == VOver(ln.a, ln.den)
      B == VOver(ln.b, ln.den)
      S == Rat(ln.s, ln.den)
      NN == (\A i \in 1 .. ln.d : ln.a[i] >= 0 /\ ln.b[i] >= 0) /\ ln.s >= 0
      tys == DOMAIN ln.r
      Want(t) == UNION {OpsFor(ln.k, g, t, ln.d) : g \in Range(ln.g)}
      Checked(t, op) == t # "u" \/ op \in RingOps \/ NN
      all == UNION {{<<t, op>> : op \in DOMAIN ln.r[t]} : t \in tys}
      todo == {x \in all : Checked(x[1], x[2])}
      mach == (IF tys # Range(ln.ty) \/ ~(tys \subseteq TypesOfDen(ln.den)) THEN {<<"MACHINERY", "types">>} ELSE {})
              \cup {<<"MACHINERY", "ops-" \o t>> : t \in {t \in tys : DOMAIN ln.r[t] # Want(t)}}
  IN [bad  |-> mach \cup {x \in todo : ~OpOK(x[2], x[1], ln, A, B, S, ln.r[x[1]][x[2]])},
      chk  |-> Cardinality(todo), skip |-> Cardinality(all) - Cardinality(todo),
      nt   |-> NonTrivialVec(ln)]

(* ------------------- operands of two different scalar types ------------ *)
XOK(op, ln, A, B, S, v) ==
  LET tl == ln.tl  tr == ln.tr  ct == CommonType(ln.tl, ln.tr) IN
  CASE op \in {"add", "addeq"} -> Vc(tl, v, VAdd(A, B))
    [] op \in {"sub", "subeq"} -> Vc(tl, v, VSub(A, B))
    [] op \in {"mul", "muleq"} -> Vc(tl, v, VMul(A, B))
    [] op \in {"div", "diveq"} -> Vc(tl, v, VDiv(A, B))
    [] op \in {"smul", "smull", "smuleq"} -> Vc(tl, v, VScale(A, S))
    [] op \in {"sdiv", "sdiveq"} -> Vc(tl, v, VSDiv(A, S))
    [] op \in {"dot", "dotm"} -> Sc(ct, v, Dot(A, B))
    [] op \in {"cross", "crossm"} -> Vc(ct, v, Cross(A, B))
    [] op \in {"cvt", "asg"} -> Vc(tr, v, A)
XCheck(ln) ==
  LET A == VOver(ln.a, ln.dl)
      B == VOver(ln.b, ln.dr)
      S == B[1]
      want == UNION {XOpsOf(g, ln.d) : g \in Range(ln.g)}
      okdom == DOMAIN ln.r = {"x"} /\ DOMAIN ln.r.x = want /\ ln.tl # ln.tr /\ {ln.tl, ln.tr} \subseteq Types
  IN [bad  |-> IF ~okdom THEN {<<"MACHINERY", "ops-x">>}
               ELSE {<<ln.tl \o ln.tr, op>> : op \in {o \in want : ~XOK(o, ln, A, B, S, ln.r.x[o])}},
      chk  |-> Cardinality(want), skip |-> 0,
      nt   |-> Distinct2(ln.a) /\ Distinct2(ln.b)]

(* ------------------------------ geometry ------------------------------- *)
IncCell(cells, hf) == {c \in 1 .. Len(cells) : \E k \in 1 .. Len(cells[c]) : cells[c][k] = hf}
SmallDir(n) == \A i \in 1 .. Len(n) : Abs(n[i]) <= 40

GeomCheckQ(ln, q, nov, tag) ==
  LET ty == ln.vt  pos == ln.pos  edges == ln.edges  faces == ln.faces  cells == ln.cells
      nV == Len(pos)  nE == Len(edges)  nF == Len(faces)  nC == Len(cells)
      HFN(hf) == HFNormalInt(edges, faces, pos, hf)
      Verts(hf) == HFVerts(edges, faces, hf)
      lens == /\ Len(q.vpos) = nV /\ Len(q.hevec) = 2 * nE /\ Len(q.evec) = nE /\ Len(q.helen) = 2 * nE
              /\ Len(q.elen) = nE /\ Len(q.ebary) = nE /\ Len(q.fbary) = nF /\ Len(q.cbary) = nC
              /\ Len(q.hfn) = 2 * nF /\ Len(q.na_f) = nF /\ Len(q.na_hf) = 2 * nF /\ Len(q.na_v) = nV
      \* per entity: <<name, handle, checked?, ok?>>
      rV   == {<<"vertex", v, TRUE, Vc(ty, q.vpos[v + 1], P(pos, v))>> : v \in 0 .. (nV - 1)}
      rHEv == {<<"vector(he)", h, TRUE, Vc(ty, q.hevec[h + 1], EdgeVector(edges, pos, h))>> : h \in 0 .. (2 * nE - 1)}
      rEv  == {<<"vector(e)", e, TRUE, Vc(ty, q.evec[e + 1], EdgeVector(edges, pos, 2 * e))>> : e \in 0 .. (nE - 1)}
      rHEl == {<<"length(he)", h, TRUE, SqrtMatches(q.helen[h + 1], SqrNorm(EdgeVector(edges, pos, h)), ty)>> : h \in 0 .. (2 * nE - 1)}
      rEl  == {<<"length(e)", e, TRUE, SqrtMatches(q.elen[e + 1], SqrNorm(EdgeVector(edges, pos, 2 * e)), ty)>> : e \in 0 .. (nE - 1)}
      rEb  == {<<"barycenter(e)", e, TRUE, Vc(ty, q.ebary[e + 1], BaryOf(pos, edges[e + 1]))>> : e \in 0 .. (nE - 1)}
      rFb  == {<<"barycenter(f)", f, TRUE, Vc(ty, q.fbary[f + 1], BaryOf(pos, Verts(2 * f)))>> : f \in 0 .. (nF - 1)}
      rCb  == {<<"barycenter(c)", c, TRUE, Vc(ty, q.cbary[c + 1], BaryOf(pos, SetToSortedSeq(CellVerts(edges, faces, cells, c))))>> : c \in 0 .. (nC - 1)}
      rN   == {LET n == HFN(hf)  ok == ~IsZeroVec(n) /\ SmallDir(IntsOf(n)) IN
               <<"normal(hf)", hf, ok, ok => NormalizedMatches(q.hfn[hf + 1], n, ty)>> : hf \in 0 .. (2 * nF - 1)}
      \* the two sides of a face: opposite (precondition: the exact normals are anti-parallel, i.e. planar convex corner)
      rOpp == {LET n0 == HFN(2 * f)  n1 == HFN(2 * f + 1)
                   pre == ~IsZeroVec(n0) /\ IsZeroVec(Cross(n0, n1)) /\ RLess(Dot(n0, n1), RI(0))
                   w0 == q.hfn[2 * f + 1]  w1 == q.hfn[2 * f + 2]
               IN <<"normal opposite", f, pre,
                    pre => \A i \in 1 .. 3 : ~FOutOfRange(w0[i]) /\ ~FOutOfRange(w1[i]) /\ Abs(FHi(w0[i]) + FHi(w1[i])) <= 16>> : f \in 0 .. (nF - 1)}
      rAf  == {LET n == HFN(2 * f)  ok == ~IsZeroVec(n) /\ SmallDir(IntsOf(n)) IN
               <<"NormalAttrib[f]", f, ok, ok => NormalizedMatches(q.na_f[f + 1], n, ty)>> : f \in 0 .. (nF - 1)}
      rAhf == {LET n0 == HFN(2 * (hf \div 2))  n == IF hf % 2 = 0 THEN n0 ELSE VNeg(n0)  ok == ~IsZeroVec(n) /\ SmallDir(IntsOf(n)) IN
               <<"NormalAttrib[hf]", hf, ok, ok => NormalizedMatches(q.na_hf[hf + 1], n, ty)>> : hf \in 0 .. (2 * nF - 1)}
      \* vertex normal: normalised sum of the (logged) normals of the incident boundary halffaces
      rAv  == IF nov THEN {} ELSE
              {LET bhf == {hf \in 0 .. (2 * nF - 1) : v \in Range(Verts(hf)) /\ IncCell(cells, hf) = {}}
                   inr == \A hf \in bhf : \A i \in 1 .. 3 : ~FOutOfRange(q.na_hf[hf + 1][i])
                   bs  == SetToSortedSeq(bhf)
                   Sm  == [i \in 1 .. 3 |-> SumInts([k \in 1 .. Len(bs) |-> FHi(q.na_hf[bs[k] + 1][i])])]
                   ok  == inr /\ bhf # {} /\ (Abs(Sm[1]) + Abs(Sm[2]) + Abs(Sm[3]) >= 1048576)
               IN <<"NormalAttrib[v]", v, ok, ok => UnitDirMatchesFx(q.na_v[v + 1], Sm)>> : v \in 0 .. (nV - 1)}
      all == IF lens THEN rV \cup rHEv \cup rEv \cup rHEl \cup rEl \cup rEb \cup rFb \cup rCb \cup rN \cup rOpp \cup rAf \cup rAhf \cup rAv ELSE {}
      todo == {x \in all : x[3]}
  IN [bad  |-> (IF lens THEN {} ELSE {<<"MACHINERY", "geometry-lengths">>})
               \cup {<<tag \o x[1], ToString(x[2])>> : x \in {y \in todo : ~y[4]}},
      chk  |-> Cardinality(todo), skip |-> Cardinality(all) - Cardinality(todo),
      nt   |-> TRUE]

(* kind H: the mesh after [update; moves / added face; update] on one NormalAttrib object: the attribute   *)
(* (q) and a fresh attribute object updated on the same final mesh (q2) must both show the normals of the   *)
(* CURRENT positions.  nov: the last update was update_face_normals only - vertex normals are not judged.   *)
GeomCheck(ln) ==
  IF ln.k = "H"
  THEN LET r1 == GeomCheckQ(ln, ln.q, ln.nov, "history:")  r2 == GeomCheckQ(ln, ln.q2, FALSE, "fresh:") IN
       [bad |-> r1.bad \cup r2.bad, chk |-> r1.chk + r2.chk, skip |-> r1.skip + r2.skip, nt |-> TRUE]
  ELSE GeomCheckQ(ln, ln.q, FALSE, "")

(* ------------------------------ the trace ------------------------------ *)
TInit == l = 1 /\ nbad = 0 /\ nchk = 0 /\ nskip = 0 /\ ncase = 0 /\ nnt = 0

Report(i, n, bads) == \A b \in bads : PrintT(<<"VXBAD", i, n, 0, b[1] \o "/" \o b[2]>>)

TNext ==
  /\ l <= Len(Tr)
  /\ l' = l + 1
  /\ LET ln == Tr[l] IN
     IF ln.e = "case"
     THEN LET r == IF ln.k \in {"G", "H"} THEN GeomCheck(ln) ELSE IF ln.k = "X" THEN XCheck(ln) ELSE VecCheck(ln) IN
          /\ Report(l, ln.n, r.bad)
          /\ nbad' = nbad + Cardinality(r.bad)
          /\ nchk' = nchk + r.chk
          /\ nskip' = nskip + r.skip
          /\ ncase' = ncase + 1
          /\ nnt' = nnt + (IF r.nt THEN 1 ELSE 0)
     ELSE UNCHANGED <<nbad, nchk, nskip, ncase, nnt>>

TSpec == TInit /\ [][TNext]_tvars

Done == (l = Len(Tr) + 1) => /\ PrintT(<<"VXSTAT", ncase, nnt>>)
                             /\ PrintT(<<"VXDONE", Len(Tr), nchk, nbad, nskip>>)
=============================================================================
