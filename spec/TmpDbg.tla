---- MODULE TmpDbg ----
EXTENDS OVMTetHexMC
Dbg == (path = <<>>) => \A op \in HistOps : PrintT(<<"DBG", org.key, op, Cardinality(XCallsOf(s, op, org.key))>>)
====
