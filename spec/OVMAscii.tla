------------------------------- MODULE OVMAscii -------------------------------
(***************************************************************************)
(* Model of the OVM-ASCII (.ovm) file format, after                        *)
(* documentation/subpages/ascii_file_format.docu and the example file it   *)
(* includes (Cube_with_props.ovm), extended by what the description leaves *)
(* to the implementation for property sections:                            *)
(*                                                                         *)
(*   OVM ASCII / Vertices n / x y z .. / Edges n / a b .. /                *)
(*   Faces n / d he_1 .. he_d .. / Polyhedra n / d hf_1 .. hf_d ..         *)
(*   { <K>Prop <type> "<name>" / one value per element }                   *)
(*                                                                         *)
(* The model is a token model (tokens = maximal runs of non-whitespace     *)
(* bytes, keywords case-insensitive) with byte-level treatment of the two  *)
(* value syntaxes that are not token based: strings (<len>:<bytes>) and    *)
(* char / uchar (one raw byte per line).  Numbers are tokens; an integer   *)
(* token is decoded when it has at most 9 digits (Huge otherwise);         *)
(* floating point tokens are opaque.                                       *)
(*                                                                         *)
(*   AsciiParse(b)       decoded file or [ok |-> FALSE, why |-> ..]        *)
(*   AsciiMatches(A, m)  the decoded file describes the mesh projection m  *)
(*   AsciiMeshEq(a, b, exact)  two projections agree in everything the     *)
(*                       format carries (defaults are not stored; floating *)
(*                       point values only when the mesh is flagged as     *)
(*                       exactly printable)                                *)
(*   AsciiTokens(b)      the token sequence (second round trip: identical) *)
(***************************************************************************)
EXTENDS OVMB, SequencesExt

IsWS(c) == c \in {9, 10, 11, 12, 13, 32}
IsDigit(c) == c >= 48 /\ c <= 57
Upper(t) == [i \in DOMAIN t |-> IF t[i] >= 97 /\ t[i] <= 122 THEN t[i] - 32 ELSE t[i]]
Lower(t) == [i \in DOMAIN t |-> IF t[i] >= 65 /\ t[i] <= 90 THEN t[i] + 32 ELSE t[i]]

(* token boundaries as increasing sequences of byte offsets.  Computed block by block with SelectSeq  *)
(* over an index sequence: linear in the file and independent of TLC's bound on the size of a set     *)
(* (a file of more than 10^6 tokens has to be handled in the thorough tier)                           *)
TokBlock == 400000
IsTokStart(b, i) == ~IsWS(b[i]) /\ (i = 1 \/ IsWS(b[i - 1]))
IsTokEnd(b, i)   == ~IsWS(b[i]) /\ (i = Len(b) \/ IsWS(b[i + 1]))
RECURSIVE TokScan(_, _, _)
TokScan(b, lo, ends) ==
  IF lo > Len(b) THEN <<>>
  ELSE LET hi == Min2(Len(b), lo + TokBlock - 1) IN
       SelectSeq([i \in 1 .. hi - lo + 1 |-> lo + i - 1], LAMBDA i : IF ends THEN IsTokEnd(b, i) ELSE IsTokStart(b, i))
       \o TokScan(b, hi + 1, ends)
TokStarts(b) == TokScan(b, 1, FALSE)
TokEnds(b)   == TokScan(b, 1, TRUE)
(* smallest index in lo .. hi whose byte is c, 0 if none (short windows only) *)
FirstByte(b, lo, hi, c) ==
  LET w == {i \in lo .. Min2(hi, Len(b)) : b[i] = c} IN IF w = {} THEN 0 ELSE CHOOSE i \in w : \A x \in w : i <= x
AsciiTokens(b) == LET S == TokStarts(b)  E == TokEnds(b) IN [k \in DOMAIN S |-> SubSeq(b, S[k], E[k])]     \* (files of < 10^6 tokens)

(* numbers: [neg, mag]; mag = Huge: more than 9 digits; mag = -2: not an integer token *)
NotNum == [neg |-> FALSE, mag |-> -2]
RECURSIVE DecVal(_, _)
DecVal(t, k) == IF k = 0 THEN 0 ELSE 10 * DecVal(t, k - 1) + (t[k] - 48)
TokNum(t) ==
  LET neg == t # <<>> /\ t[1] = 45
      d   == IF neg THEN Tail(t) ELSE t
  IN IF d = <<>> \/ \E i \in DOMAIN d : ~IsDigit(d[i]) THEN NotNum
     ELSE IF Len(d) > 9 THEN [neg |-> neg, mag |-> Huge]
     ELSE LET v == DecVal(d, Len(d)) IN [neg |-> neg /\ v # 0, mag |-> v]
UMag(bs) ==    \* unsigned little-endian magnitude of 1, 2, 4, 8 bytes
  IF Len(bs) = 1 THEN bs[1] ELSE IF Len(bs) = 2 THEN U16(bs, 1) ELSE IF Len(bs) = 4 THEN U32(bs, 1) ELSE U64(bs, 1)
BytesNum(bs, signed) ==
  IF signed /\ bs[Len(bs)] >= 128
  THEN LET c == UMag([i \in DOMAIN bs |-> 255 - bs[i]]) IN
       IF c = Huge \/ c = 2147483647 THEN [neg |-> TRUE, mag |-> Huge] ELSE [neg |-> TRUE, mag |-> c + 1]
  ELSE [neg |-> FALSE, mag |-> UMag(bs)]
NumEq(a, c) == a.mag # -2 /\ c.mag # -2 /\ (a.mag = Huge \/ c.mag = Huge \/ a = c)

AsciiTypes == <<
  [n |-> <<105,110,116>>, tag |-> "int32", cls |-> "si", w |-> 1],
  [n |-> <<117,105,110,116>>, tag |-> "uint32", cls |-> "ui", w |-> 1],
  [n |-> <<115,104,111,114,116>>, tag |-> "int16", cls |-> "si", w |-> 1],
  [n |-> <<108,111,110,103>>, tag |-> "int64", cls |-> "si", w |-> 1],
  [n |-> <<117,108,111,110,103>>, tag |-> "uint64", cls |-> "ui", w |-> 1],
  [n |-> <<99,104,97,114>>, tag |-> "char", cls |-> "ch", w |-> 1],
  [n |-> <<117,99,104,97,114>>, tag |-> "uint8", cls |-> "ch", w |-> 1],
  [n |-> <<98,111,111,108>>, tag |-> "bool", cls |-> "ui", w |-> 1],
  [n |-> <<102,108,111,97,116>>, tag |-> "float", cls |-> "fl", w |-> 1],
  [n |-> <<100,111,117,98,108,101>>, tag |-> "double", cls |-> "fl", w |-> 1],
  [n |-> <<115,116,114,105,110,103>>, tag |-> "string", cls |-> "st", w |-> 1],
  [n |-> <<109,97,112,95,104,101,104,95,105,110,116>>, tag |-> "map_HEH_int", cls |-> "map", w |-> 1],
  [n |-> <<118,101,99,116,111,114,95,100,111,117,98,108,101>>, tag |-> "vector_double", cls |-> "vfl", w |-> 1],
  [n |-> <<118,101,99,116,111,114,95,118,104>>, tag |-> "vector_VH", cls |-> "vsi", w |-> 1],
  [n |-> <<118,101,99,116,111,114,95,104,102,104>>, tag |-> "vector_HFH", cls |-> "vsi", w |-> 1],
  [n |-> <<118,101,99,116,111,114,95,118,101,99,116,111,114,95,104,102,104>>, tag |-> "vector_vector_HFH", cls |-> "vvsi", w |-> 1],
  [n |-> <<118,101,99,50,102>>, tag |-> "Vec2f", cls |-> "fl", w |-> 2],
  [n |-> <<118,101,99,50,100>>, tag |-> "Vec2d", cls |-> "fl", w |-> 2],
  [n |-> <<118,101,99,50,105>>, tag |-> "Vec2i", cls |-> "si", w |-> 2],
  [n |-> <<118,101,99,50,117,105>>, tag |-> "Vec2ui", cls |-> "ui", w |-> 2],
  [n |-> <<118,101,99,51,102>>, tag |-> "Vec3f", cls |-> "fl", w |-> 3],
  [n |-> <<118,101,99,51,100>>, tag |-> "Vec3d", cls |-> "fl", w |-> 3],
  [n |-> <<118,101,99,51,105>>, tag |-> "Vec3i", cls |-> "si", w |-> 3],
  [n |-> <<118,101,99,51,117,105>>, tag |-> "Vec3ui", cls |-> "ui", w |-> 3],
  [n |-> <<118,101,99,52,102>>, tag |-> "Vec4f", cls |-> "fl", w |-> 4],
  [n |-> <<118,101,99,52,100>>, tag |-> "Vec4d", cls |-> "fl", w |-> 4],
  [n |-> <<118,101,99,52,105>>, tag |-> "Vec4i", cls |-> "si", w |-> 4],
  [n |-> <<118,101,99,52,117,105>>, tag |-> "Vec4ui", cls |-> "ui", w |-> 4]
>>
ATypeIndex(nameBytes) ==
  LET c == {i \in DOMAIN AsciiTypes : AsciiTypes[i].n = nameBytes} IN IF c = {} THEN 0 ELSE CHOOSE i \in c : TRUE
ATypeOfTag(tag) ==
  LET c == {i \in DOMAIN AsciiTypes : AsciiTypes[i].tag = tag} IN IF c = {} THEN 0 ELSE CHOOSE i \in c : TRUE
FloatTags == {"float", "double", "vector_double", "Vec2f", "Vec2d", "Vec3f", "Vec3d", "Vec4f", "Vec4d"}

KwOVM == <<79,86,77>>   KwASCII == <<65,83,67,73,73>>   KwVERT == <<86,69,82,84,73,67,69,83>>
KwEDGES == <<69,68,71,69,83>>   KwFACES == <<70,65,67,69,83>>   KwPOLY == <<80,79,76,89,72,69,68,82,65>>
PropKw(t) ==
  LET u == Upper(t) IN
  CASE u = <<86,80,82,79,80>> -> "V" [] u = <<69,80,82,79,80>> -> "E" [] u = <<72,69,80,82,79,80>> -> "HE"
    [] u = <<70,80,82,79,80>> -> "F" [] u = <<72,70,80,82,79,80>> -> "HF" [] u = <<67,80,82,79,80>> -> "C"
    [] u = <<77,80,82,79,80>> -> "M" [] OTHER -> ""

ABad(why) == [ok |-> FALSE, why |-> why]

(* ------------------------------- parser --------------------------------- *)
AsciiParse(b) ==
  LET S  == TokStarts(b)
      E  == TokEnds(b)
      NT == Len(S)
      T(k) == SubSeq(b, S[k], E[k])
      N(k) == TokNum(T(k))
      (* first token starting at or after byte offset o *)
      RECURSIVE TokSearch(_, _, _)      \* number of tokens that start before offset o, by bisection on lo .. hi
      TokSearch(o, lo, hi) ==
        IF lo > hi THEN lo - 1
        ELSE LET mid == (lo + hi) \div 2 IN IF S[mid] < o THEN TokSearch(o, mid + 1, hi) ELSE TokSearch(o, lo, mid - 1)
      TokFrom(o) == TokSearch(o, 1, NT) + 1
      (* n lists "d x_1 .. x_d" from token k: [ok, k, items] *)
      (* one list per step, in nested blocks (shallow recursion, see RunChunks in OVMB.tla) *)
      ListStep(r) ==
        IF r.k > NT THEN [r EXCEPT !.ok = FALSE]
        ELSE LET d == N(r.k) IN
             IF d.mag < 0 \/ d.neg \/ r.k + d.mag > NT THEN [r EXCEPT !.ok = FALSE]
             ELSE LET it == [i \in 1 .. d.mag |-> N(r.k + i)] IN
                  IF \E i \in 1 .. d.mag : it[i].mag < 0 \/ it[i].neg THEN [r EXCEPT !.ok = FALSE]
                  ELSE [ok |-> TRUE, k |-> r.k + 1 + d.mag, left |-> r.left - 1,
                        items |-> Append(r.items, [i \in 1 .. d.mag |-> it[i].mag])]
      ListsDone(r) == ~r.ok \/ r.left = 0
      RECURSIVE Lists1(_, _)
      Lists1(r, c) == IF c = 0 \/ ListsDone(r) THEN r ELSE Lists1(ListStep(r), c - 1)
      RECURSIVE Lists2(_, _)
      Lists2(r, c) == IF c = 0 \/ ListsDone(r) THEN r ELSE Lists2(Lists1(r, 64), c - 1)
      RECURSIVE Lists3(_)
      Lists3(r) == IF ListsDone(r) THEN r ELSE Lists3(Lists2(r, 64))
      Lists(k, n) == Lists3([ok |-> TRUE, k |-> k, left |-> n, items |-> <<>>])
      (* section "Keyword n" at token k: [ok, n] *)
      Sect(k, kw) ==
        IF k + 1 > NT \/ Upper(T(k)) # kw THEN [ok |-> FALSE, n |-> 0]
        ELSE LET c == N(k + 1) IN IF c.mag < 0 \/ c.neg THEN [ok |-> FALSE, n |-> 0] ELSE [ok |-> TRUE, n |-> c.mag]
      (* values of one property: n elements of ascii type index ty; tokens from k, raw bytes from o (line after the header) *)
      (* result [ok, k (next token), vals] *)
      RECURSIVE Strings(_, _)          \* n strings "<len>:<bytes>" starting at token k
      Strings(k, n) ==
        IF n = 0 THEN [ok |-> TRUE, k |-> k, vals |-> <<>>]
        ELSE IF k > NT THEN [ok |-> FALSE, k |-> k, vals |-> <<>>]
        ELSE LET s == S[k]
                 c0 == FirstByte(b, s, s + 12, 58)       \* "<len>:" with at most 9 digits
             IN IF c0 = 0 THEN [ok |-> FALSE, k |-> k, vals |-> <<>>]
                ELSE LET c == c0
                         ln == TokNum(SubSeq(b, s, c - 1))
                     IN IF ln.mag < 0 \/ ln.neg \/ c + ln.mag > Len(b) THEN [ok |-> FALSE, k |-> k, vals |-> <<>>]
                        ELSE LET r == Strings(TokFrom(c + 1 + ln.mag), n - 1) IN
                             [ok |-> r.ok, k |-> r.k, vals |-> <<SubSeq(b, c + 1, c + ln.mag)>> \o r.vals]
      RECURSIVE Nested(_, _, _)        \* n values of class vsi / vvsi / map / vfl: flattened token numbers
      Nested(k, n, cls) ==
        IF n = 0 THEN [ok |-> TRUE, k |-> k, vals |-> <<>>]
        ELSE IF k > NT THEN [ok |-> FALSE, k |-> k, vals |-> <<>>]
        ELSE LET c == N(k) IN
             IF c.mag < 0 \/ c.neg THEN [ok |-> FALSE, k |-> k, vals |-> <<>>]
             ELSE IF cls = "vvsi" THEN
                  LET inner == Lists(k + 1, c.mag)
                      r == Nested(inner.k, n - 1, cls)
                  IN [ok |-> inner.ok /\ r.ok, k |-> r.k,
                      vals |-> << <<c>> \o [i \in 1 .. (inner.k - k - 1) |-> N(k + i)] >> \o r.vals]
             ELSE LET cnt == IF cls = "map" THEN 2 * c.mag ELSE c.mag IN
                  IF k + cnt > NT THEN [ok |-> FALSE, k |-> k, vals |-> <<>>]
                  ELSE LET r == Nested(k + 1 + cnt, n - 1, cls) IN
                       [ok |-> r.ok, k |-> r.k,
                        vals |-> << IF cls = "vfl" THEN <<c>> ELSE <<c>> \o [i \in 1 .. cnt |-> N(k + i)] >> \o r.vals]
      Values(k, o, n, ty) ==
        LET t == AsciiTypes[ty] IN
        IF t.cls \in {"si", "ui"} THEN
             IF k + n * t.w - 1 > NT THEN [ok |-> FALSE, k |-> k, vals |-> <<>>]
             ELSE [ok |-> TRUE, k |-> k + n * t.w, vals |-> [i \in 1 .. n |-> [j \in 1 .. t.w |-> N(k + (i - 1) * t.w + j - 1)]]]
        ELSE IF t.cls = "fl" THEN
             IF k + n * t.w - 1 > NT THEN [ok |-> FALSE, k |-> k, vals |-> <<>>]
             ELSE [ok |-> TRUE, k |-> k + n * t.w, vals |-> [i \in 1 .. n |-> <<>>]]
        ELSE IF t.cls = "ch" THEN      \* one raw byte, then the line end
             IF o + 2 * n - 1 > Len(b) \/ \E i \in 1 .. n : b[o + 2 * i - 1] # 10 THEN [ok |-> FALSE, k |-> k, vals |-> <<>>]
             ELSE [ok |-> TRUE, k |-> TokFrom(o + 2 * n), vals |-> [i \in 1 .. n |-> <<b[o + 2 * (i - 1)]>>]]
        ELSE IF t.cls = "st" THEN Strings(k, n)
        ELSE Nested(k, n, t.cls)
      RECURSIVE Props(_, _)
      Props(k, cnt) ==
        IF k > NT THEN [ok |-> TRUE, why |-> "", props |-> <<>>]
        ELSE IF k + 2 > NT THEN [ok |-> FALSE, why |-> "TruncatedPropertyHeader", props |-> <<>>]
        ELSE LET kind == PropKw(T(k))
                 ty   == ATypeIndex(Lower(T(k + 1)))
                 eol  == LET near == FirstByte(b, E[k + 1], E[k + 1] + 1024, 10)      \* end of the header line
                             far  == IF near # 0 THEN near ELSE FirstByte(b, E[k + 1], Len(b), 10)
                         IN IF far = 0 THEN Len(b) + 1 ELSE far
                 qs   == {i \in E[k + 1] + 1 .. eol - 1 : b[i] = 34}
             IN IF kind = "" THEN [ok |-> FALSE, why |-> "PropertyKeyword", props |-> <<>>]
                ELSE IF ty = 0 THEN [ok |-> FALSE, why |-> "PropertyTypeName", props |-> <<>>]
                ELSE IF Cardinality(qs) < 2 THEN [ok |-> FALSE, why |-> "PropertyNameQuotes", props |-> <<>>]
                ELSE LET q1 == CHOOSE i \in qs : \A x \in qs : i <= x
                         q2 == CHOOSE i \in qs : \A x \in qs : i >= x
                         v  == Values(TokFrom(eol), eol + 1, cnt[kind], ty)
                     IN IF ~v.ok THEN [ok |-> FALSE, why |-> "PropertyValues", props |-> <<>>]
                        ELSE LET r == Props(v.k, cnt) IN
                             [ok |-> r.ok, why |-> r.why,
                              props |-> <<[k |-> kind, name |-> SubSeq(b, q1 + 1, q2 - 1), t |-> AsciiTypes[ty].tag, vals |-> v.vals]>> \o r.props]
  IN
  IF NT < 2 \/ Upper(T(1)) # KwOVM \/ Upper(T(2)) # KwASCII THEN ABad("Header")
  ELSE LET sv == Sect(3, KwVERT) IN
  IF ~sv.ok THEN ABad("VerticesSection")
  ELSE LET ke == 5 + 3 * sv.n IN
  IF ke - 1 > NT THEN ABad("VertexLines")
  ELSE LET se == Sect(ke, KwEDGES) IN
  IF ~se.ok THEN ABad("EdgesSection")
  ELSE LET kf == ke + 2 + 2 * se.n IN
  IF kf - 1 > NT THEN ABad("EdgeLines")
  ELSE LET edges == [i \in 1 .. se.n |-> <<N(ke + 2 * i), N(ke + 2 * i + 1)>>]
           sf == Sect(kf, KwFACES) IN
  IF \E i \in 1 .. se.n : \E j \in 1 .. 2 : edges[i][j].mag < 0 \/ edges[i][j].neg THEN ABad("EdgeLines")
  ELSE IF ~sf.ok THEN ABad("FacesSection")
  ELSE LET fl == Lists(kf + 2, sf.n) IN
  IF ~fl.ok THEN ABad("FaceLines")
  ELSE LET sc == Sect(fl.k, KwPOLY) IN
  IF ~sc.ok THEN ABad("PolyhedraSection")
  ELSE LET cl == Lists(fl.k + 2, sc.n) IN
  IF ~cl.ok THEN ABad("PolyhedraLines")
  ELSE LET cnt == [V |-> sv.n, E |-> se.n, F |-> sf.n, C |-> sc.n, HE |-> 2 * se.n, HF |-> 2 * sf.n, M |-> 1]
           pr == Props(cl.k, cnt) IN
  IF ~pr.ok THEN ABad(pr.why)
  ELSE [ok |-> TRUE, nv |-> sv.n, ne |-> se.n, nf |-> sf.n, nc |-> sc.n,
        pos |-> [i \in 1 .. sv.n |-> <<T(5 + 3 * (i - 1)), T(6 + 3 * (i - 1)), T(7 + 3 * (i - 1))>>],
        edges |-> [i \in 1 .. se.n |-> <<edges[i][1].mag, edges[i][2].mag>>],
        faces |-> fl.items, cells |-> cl.items, props |-> pr.props]

(* ----------------------- file against projection ----------------------- *)
AsciiProps(ps) == SelectSeq(ps, LAMBDA p : ATypeOfTag(p.t) # 0)
(* canonical value bytes -> what the file carries for them *)
SplitNum(bs, w, signed) == LET s == Len(bs) \div w IN [j \in 1 .. w |-> BytesNum(SubSeq(bs, (j - 1) * s + 1, j * s), signed)]
ValueMatches(t, fv, bs) ==
  CASE t.cls = "si" -> Len(bs) % t.w = 0 /\ \A j \in 1 .. t.w : NumEq(fv[j], SplitNum(bs, t.w, TRUE)[j])
    [] t.cls = "ui" -> Len(bs) % t.w = 0 /\ \A j \in 1 .. t.w : NumEq(fv[j], SplitNum(bs, t.w, FALSE)[j])
    [] t.cls = "fl" -> TRUE
    [] t.cls = "ch" -> fv = bs
    [] t.cls = "st" -> fv = bs
    [] t.cls = "vfl" -> Len(bs) >= 4 /\ NumEq(fv[1], BytesNum(SubSeq(bs, 1, 4), FALSE))
    [] OTHER -> Len(bs) % 4 = 0 /\ Len(fv) = Len(bs) \div 4
                /\ \A j \in 1 .. Len(fv) : NumEq(fv[j], BytesNum(SubSeq(bs, 4 * j - 3, 4 * j), TRUE))
PropMatches(fp, mp) ==
  /\ fp.k = mp.k /\ fp.name = mp.name /\ fp.t = mp.t /\ Len(fp.vals) = Len(mp.vals)
  /\ \A i \in DOMAIN fp.vals : ValueMatches(AsciiTypes[ATypeOfTag(fp.t)], fp.vals[i], mp.vals[i])

AsciiDiff(A, m) ==
  IF A.nv # m.nv \/ A.ne # m.ne \/ A.nf # m.nf \/ A.nc # m.nc THEN "counts"
  ELSE IF A.edges # m.edges THEN "edges"
  ELSE IF A.faces # m.faces THEN "faces"
  ELSE IF A.cells # m.cells THEN "cells"
  ELSE LET mp == AsciiProps(m.props) IN
       IF Len(A.props) # Len(mp) THEN "property count"
       ELSE IF \E i \in DOMAIN A.props : ~\E j \in DOMAIN mp : PropMatches(A.props[i], mp[j]) THEN "property values"
       ELSE IF \E j \in DOMAIN mp : ~\E i \in DOMAIN A.props : PropMatches(A.props[i], mp[j]) THEN "property values"
       ELSE ""
AsciiMatches(A, m) == AsciiDiff(A, m) = ""

(* --------------------- projection against projection -------------------- *)
AsciiPropSetOf(ps, exact) ==
  LET a == AsciiProps(ps) IN
  {[k |-> a[i].k, name |-> a[i].name, t |-> a[i].t, vals |-> IF exact \/ a[i].t \notin FloatTags THEN a[i].vals ELSE <<>>] : i \in DOMAIN a}
HasWhitespaceChar(ps) ==
  \E i \in DOMAIN ps : ps[i].t \in {"char", "uint8"} /\ \E j \in DOMAIN ps[i].vals : IsWS(ps[i].vals[j][1])
AsciiMeshDiff(m1, m2, exact) ==
  IF m1.nv # m2.nv \/ m1.ne # m2.ne \/ m1.nf # m2.nf \/ m1.nc # m2.nc THEN "counts"
  ELSE IF m1.edges # m2.edges THEN "edges"
  ELSE IF m1.faces # m2.faces THEN "faces"
  ELSE IF m1.cells # m2.cells THEN "cells"
  ELSE IF exact /\ m1.pos # m2.pos THEN "positions"
  ELSE IF AsciiPropSetOf(m1.props, exact) # AsciiPropSetOf(m2.props, exact) THEN
       (IF HasWhitespaceChar(m1.props) THEN "properties:whitespace-char-value"
        ELSE LET d == (AsciiPropSetOf(m1.props, exact) \ AsciiPropSetOf(m2.props, exact)) \cup (AsciiPropSetOf(m2.props, exact) \ AsciiPropSetOf(m1.props, exact))
             IN "properties:" \o (CHOOSE p \in d : TRUE).t)
  ELSE ""
AsciiMeshEq(m1, m2, exact) == AsciiMeshDiff(m1, m2, exact) = ""

(* two files carry the same content: token-identical up to the order of the property sections *)
(* (the writer enumerates properties in an unspecified order)                                     *)
AsciiSameFile(b1, b2) ==
  b1 = b2
  \/ LET A1 == AsciiParse(b1)  A2 == AsciiParse(b2) IN
     /\ A1.ok /\ A2.ok
     /\ [A1 EXCEPT !.props = <<>>] = [A2 EXCEPT !.props = <<>>]
     /\ {A1.props[i] : i \in DOMAIN A1.props} = {A2.props[i] : i \in DOMAIN A2.props}

(* the text format has no type field: a mesh can be read into a specialised mesh type iff its valences fit *)
AsciiCompatible(m, mt) ==
  mt = "poly" \/ (mt = "tet" /\ AllFaceVal(m, 3) /\ AllCellVal(m, 4)) \/ (mt = "hex" /\ AllFaceVal(m, 4) /\ AllCellVal(m, 6))

(* a reader may fail with an allocation error only if the text declares a large size *)
AsciiDeclaresLargeSize(b) ==
  \/ \E i \in 1 .. Len(b) - 7 : \A j \in 0 .. 7 : IsDigit(b[i + j])
  \/ \E i \in 1 .. Len(b) - 1 : b[i] = 45 /\ IsDigit(b[i + 1])       \* a negative count is read as a huge unsigned one
=============================================================================
