------------------------------- MODULE OVMAscii -------------------------------
EXTENDS OVMB
AsciiParse(b) == [ok |-> FALSE, why |-> "stub"]
AsciiMatches(A, m) == TRUE
AsciiDiff(A, m) == ""
AsciiDeclaresLargeSize(b) == TRUE
AsciiMeshEq(m1, m2) == TRUE
AsciiMeshDiff(m1, m2) == ""
AsciiTokens(b) == b
=============================================================================
