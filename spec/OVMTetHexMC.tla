---------------------------- MODULE OVMTetHexMC ----------------------------
(***************************************************************************)
(* Model checking (role M) and behaviour generation (role G) for the       *)
(* tetrahedral (C15) and hexahedral (C16) kernels.                         *)
(*                                                                         *)
(* Reuses the state variables, call constructors, generic argument         *)
(* enumeration and emission of OVMKernelMC; the seeds, the specialised     *)
(* call alphabets, the step function (TetApply / HexApply) and the checks  *)
(* against the declarative layers of OVMTet / OVMHex are defined here.     *)
(* All incidences are on (the specialised kernels require them); the four  *)
(* deletion modes are explored.                                            *)
(***************************************************************************)
EXTENDS OVMKernelMC, OVMHex

CONSTANTS Kind       \* "tet" | "hex"

XApply(st, c) == IF Kind = "tet" THEN TetApply(st, c) ELSE HexApply(st, c)
XRun(s0, script) == FoldLeft(LAMBDA st, c : Tag(XApply(st, c)), s0, script)

(* ------------------------------ tet seeds ------------------------------ *)
T4(l)  == KLF("tet_add_cell_4", l, FALSE)
TVc(l) == KLF("tet_add_cell_v", l, TRUE)
(* Kuhn subdivision of an nx x 1 x 1 block (6 tets per cube), for random    *)
(* histories: k = 20 + nx                                                   *)
KVid(nx, i, j, kk) == i + (nx + 1) * (j + 2 * kk)
KuhnTets(nx, i) ==
  LET P(a, b, c) == KVid(nx, i + a, b, c) IN
  << <<P(0,0,0), P(1,0,0), P(1,1,0), P(1,1,1)>>,      \* x y z   (even)
     <<P(0,0,0), P(1,0,0), P(1,1,1), P(1,0,1)>>,      \* x z y   (odd: last two swapped)
     <<P(0,0,0), P(0,1,0), P(1,1,1), P(1,1,0)>>,      \* y x z   (odd)
     <<P(0,0,0), P(0,1,0), P(0,1,1), P(1,1,1)>>,      \* y z x   (even)
     <<P(0,0,0), P(0,0,1), P(1,0,1), P(1,1,1)>>,      \* z x y   (even)
     <<P(0,0,0), P(0,0,1), P(1,1,1), P(0,1,1)>> >>    \* z y x   (odd)
KuhnSeed(k) ==
  LET nx == k - 20 IN
  NV(4 * (nx + 1)) \o
  FoldLeft(LAMBDA acc, i : acc \o MapSeq(LAMBDA t : TVc(t), KuhnTets(nx, i)), <<>>, [i \in 1 .. nx |-> i - 1])

TetFan3 == << T4(<<0, 1, 2, 3>>), T4(<<0, 1, 3, 4>>), TVc(<<0, 1, 4, 2>>) >>
TetSeed(k) ==
  CASE k = 1 -> NV(4) \o << T4(<<0, 1, 2, 3>>) >>
    [] k = 2 -> NV(5) \o << T4(<<0, 1, 2, 3>>), TVc(<<1, 2, 3, 4>>) >>                   \* glued along a face
    [] k = 3 -> NV(5) \o TetFan3                                                          \* closed fan of 3 (interior edge)
    [] k = 4 -> NV(6) \o << T4(<<0, 1, 2, 3>>), TVc(<<2, 3, 1, 4>>), T4(<<3, 4, 2, 5>>) >> \* strip of 3, rotated vertex orders
    [] k = 5 -> NV(6) \o << T4(<<0, 1, 2, 3>>), T4(<<1, 0, 4, 5>>) >>                     \* glued along an edge only
    [] k = 6 -> NV(7) \o << T4(<<0, 1, 2, 3>>), TVc(<<0, 4, 5, 6>>) >>                    \* glued at a vertex only
    [] k = 7 -> NV(6) \o TetFan3 \o << T4(<<1, 2, 3, 5>>) >>                              \* 4 tets: fan + one on its boundary
    [] k = 8 -> Tet2 \o << K0("add_vertex"), K0("add_vertex"), K0("add_vertex"),          \* faces given first, in other
                           K("add_edge", 4, 5, <<>>, FALSE), FV(<<5, 6, 7>>) >>           \* rotations; dangling edge and face
    [] k = 9 -> NV(6) \o << T4(<<0, 1, 2, 3>>), T4(<<0, 1, 3, 4>>), T4(<<0, 1, 4, 5>>), TVc(<<0, 1, 5, 2>>) >> \* ring of 4
    [] k = 10 -> NV(8) \o << T4(<<0, 1, 2, 3>>), TVc(<<1, 2, 3, 4>>), T4(<<0, 5, 6, 7>>) >>  \* face-glued pair + one at a vertex
    [] k = 11 -> NV(10) \o << T4(<<0, 1, 2, 3>>), FV(<<4, 5, 6>>), FV(<<7, 8, 9>>) >>      \* one tet and two dangling triangles
    [] k >= 20 -> KuhnSeed(k)

(* ------------------------------ hex seeds ------------------------------ *)
CubeRot == <<
  <<1, 2, 3, 4, 5, 6, 7, 8>>, <<1, 4, 6, 5, 2, 8, 7, 3>>, <<1, 5, 8, 2, 4, 3, 7, 6>>, <<2, 1, 5, 8, 3, 7, 6, 4>>,
  <<2, 3, 4, 1, 8, 5, 6, 7>>, <<2, 8, 7, 3, 1, 4, 6, 5>>, <<3, 2, 8, 7, 4, 6, 5, 1>>, <<3, 4, 1, 2, 7, 8, 5, 6>>,
  <<3, 7, 6, 4, 2, 1, 5, 8>>, <<4, 1, 2, 3, 6, 7, 8, 5>>, <<4, 3, 7, 6, 1, 5, 8, 2>>, <<4, 6, 5, 1, 3, 2, 8, 7>>,
  <<5, 1, 4, 6, 8, 7, 3, 2>>, <<5, 6, 7, 8, 1, 2, 3, 4>>, <<5, 8, 2, 1, 6, 4, 3, 7>>, <<6, 4, 3, 7, 5, 8, 2, 1>>,
  <<6, 5, 1, 4, 7, 3, 2, 8>>, <<6, 7, 8, 5, 4, 1, 2, 3>>, <<7, 3, 2, 8, 6, 5, 1, 4>>, <<7, 6, 4, 3, 8, 2, 1, 5>>,
  <<7, 8, 5, 6, 3, 4, 1, 2>>, <<8, 2, 1, 5, 7, 6, 4, 3>>, <<8, 5, 6, 7, 2, 3, 4, 1>>, <<8, 7, 3, 2, 5, 1, 4, 6>> >>
RotList(v, r) == [i \in 1 .. 8 |-> v[CubeRot[r][i]]]

(* vertex (i,j,k) of an nx x ny x nz grid; the documented vertex pattern    *)
(*      5-------6                                                           *)
(*     /|      /|      0 = (0,0,0) 1 = (1,0,0) 2 = (1,1,0) 3 = (0,1,0)      *)
(*    3-------2 |      4 = (0,0,1) 5 = (0,1,1) 6 = (1,1,1) 7 = (1,0,1)      *)
(*    | 4-----|-7                                                           *)
(*    0-------1                                                             *)
GVid(nx, ny, i, j, k) == i + (nx + 1) * (j + (ny + 1) * k)
GCube(nx, ny, i, j, k) ==
  LET P(a, b, c) == GVid(nx, ny, i + a, j + b, k + c) IN
  <<P(0,0,0), P(1,0,0), P(1,1,0), P(0,1,0), P(0,0,1), P(0,1,1), P(1,1,1), P(1,0,1)>>
RVid(i, j, k) == (i % 4) + 4 * (j + 2 * k)          \* ring of four, periodic in i
RCube(i) ==
  <<RVid(i,0,0), RVid(i+1,0,0), RVid(i+1,1,0), RVid(i,1,0), RVid(i,0,1), RVid(i,1,1), RVid(i+1,1,1), RVid(i+1,0,1)>>

(* per seed: number of vertices and the cubes (vertex list, rotation used)  *)
HexSeedDef(k) ==
  CASE k = 1 -> [nv |-> 8,  cubes |-> << <<GCube(1,1,0,0,0), 1>> >>]
    [] k = 2 -> [nv |-> 12, cubes |-> << <<GCube(2,1,0,0,0), 1>>, <<GCube(2,1,1,0,0), 6>> >>]
    [] k = 3 -> [nv |-> 18, cubes |-> << <<GCube(2,2,0,0,0), 1>>, <<GCube(2,2,1,0,0), 11>>,
                                         <<GCube(2,2,0,1,0), 17>>, <<GCube(2,2,1,1,0), 22>> >>]
    [] k = 4 -> [nv |-> 18, cubes |-> << <<GCube(2,2,0,0,0), 3>>, <<GCube(2,2,1,0,0), 1>>, <<GCube(2,2,0,1,0), 14>> >>]  \* L
    [] k = 5 -> [nv |-> 16, cubes |-> << <<RCube(0), 1>>, <<RCube(1), 8>>, <<RCube(2), 13>>, <<RCube(3), 20>> >>]          \* ring
    [] k = 6 -> [nv |-> 12, cubes |-> << <<GCube(1,1,0,0,0), 1>>, <<GCube(1,1,0,0,1), 9>> >>]   \* stacked in z (the suite's fixture shape)
    [] k = 7 -> [nv |-> 27, cubes |-> [n \in 1 .. 8 |-> <<GCube(2,2,(n-1) % 2, ((n-1) \div 2) % 2, (n-1) \div 4), ((n * 7) % 24) + 1>>]]
    [] k = 8 -> [nv |-> 24, cubes |-> [n \in 1 .. 6 |-> <<GCube(3,2,(n-1) % 3, (n-1) \div 3, 0), ((n * 5) % 24) + 1>>]]
    [] k = 9 -> [nv |-> 64, cubes |-> [n \in 1 .. 27 |-> <<GCube(3,3,(n-1) % 3, ((n-1) \div 3) % 3, (n-1) \div 9), ((n * 11) % 24) + 1>>]]  \* 3x3x3: an interior cell
HV(l) == KLF("hex_add_cell_v", l, TRUE)
HexSeed(k) == IF k = 10 THEN   \* one cube and a "flap": a quad that shares only the edge (0,1) with it
                  NV(10) \o << HV(GCube(1,1,0,0,0)), FV(<<1, 0, 8, 9>>) >> ELSE
              LET d == HexSeedDef(k) IN
  NV(d.nv) \o [n \in 1 .. Len(d.cubes) |-> HV(RotList(d.cubes[n][1], d.cubes[n][2]))]
HexCubesOf(k) == IF k = 10 THEN {GCube(1,1,0,0,0)} ELSE LET d == HexSeedDef(k) IN {d.cubes[n][1] : n \in 1 .. Len(d.cubes)}

XSeedScript(k) == IF Kind = "tet" THEN TetSeed(k) ELSE HexSeed(k)
XModeCalls(md) == << KF("enable_deferred", md[1]), KF("enable_fast", md[2]) >>

(* ------------------ in-contract argument enumeration ------------------- *)
IsolatedV(st) == {v \in LiveV(st) : \A e \in LiveE(st) : v \notin EdgeVertSet(st, e)}
(* closed sets of six free halffaces: searched among the free halffaces on  *)
(* the vertex set of one cube of the seed's shape                          *)
Free6(st, key) ==
  UNION {LET F == {hf \in FreeHF(st) : Rng(HFVerts(st, hf)) \subseteq Rng(w)} IN
         {S \in KSub(6, F) : ClosedSurface(st, SortedSeq(S))} : w \in HexCubesOf(key[2])}
FirstN(S, n) == LET q == SortedSeq(S) IN {q[i] : i \in 1 .. (IF Len(q) < n THEN Len(q) ELSE n)}

(* no halfface of the tetrahedron (v1 v2 v3 v4) that already exists belongs  *)
(* to a cell: adding it keeps every halfface in at most one cell            *)
TetFreeToAdd(st, v) ==
  /\ \A tri \in {<<v[1], v[2], v[3]>>, <<v[1], v[3], v[4]>>, <<v[1], v[4], v[2]>>, <<v[2], v[4], v[3]>>} :
        LET hf == FindHalffaceV(st, tri) IN hf = -1 \/ At(st.inc, hf) = -1
  /\ \A c \in LiveC(st) : CellVertSet(st, c) # Rng(v)      \* a simplicial complex has one cell per vertex set

(* vertex cycles of length k over a few live vertices whose consecutive      *)
(* vertices are joined by an edge, and the closed halfedge loop of a cycle   *)
VCycles(st, k) ==
  {l \in [1 .. k -> FirstN(LiveV(st), 6)] :
      Cardinality(Rng(l)) = k /\ \A i \in 1 .. k : FindHalfedge(st, l[i], l[(i % k) + 1]) # -1}
LoopOf(st, l) == [i \in 1 .. Len(l) |-> FindHalfedge(st, l[i], l[(i % Len(l)) + 1])]
(* halfedge lists for the face entry points: closed loops of the given       *)
(* lengths, and open lists (a loop without its last halfedge / with its last *)
(* halfedge reversed)                                                        *)
FaceLists(st, ks) ==
  LET loops == UNION {{LoopOf(st, l) : l \in VCycles(st, k)} : k \in ks}
  IN loops \cup {SubSeq(l, 1, Len(l) - 1) : l \in {x \in loops : Len(x) >= 3}}
           \cup {[l EXCEPT ![Len(l)] = Opp(l[Len(l)])] : l \in {x \in loops : Len(x) >= 3}}

XCallsOf(st, op, key) ==
  CASE op = "collapse_edge" ->
         IF ~(TetComplex(st) /\ CacheIsInverse(st)) THEN {}
         ELSE {KA(op, h) : h \in {h \in LiveHE(st) : LinkCondition(st, From(st, h), To(st, h))}}
    [] op = "collapse_edge_any" ->     \* also edges violating the link condition (nothing is asserted for them)
         IF ~(TetComplex(st) /\ CacheIsInverse(st)) THEN {} ELSE {KA("collapse_edge", h) : h \in LiveHE(st)}
    [] op \in {"tet_add_cell_4", "tet_add_cell_v"} ->
         {KLF(op, Append(RotL(HFVerts(st, x[1]), x[3]), x[2]), x[4]) : x \in
             {y \in FreeHF(st) \X LiveV(st) \X (0 .. 2) \X BOOLEAN :
                 /\ Len(At(st.faces, Full(y[1]))) = 3
                 /\ y[2] \notin Rng(HFVerts(st, y[1]))
                 /\ (y[3] = 0 \/ y[4])
                 /\ TetFreeToAdd(st, Append(HFVerts(st, y[1]), y[2]))}}
    (* a new tetrahedron on a free halfface and a vertex outside the complex, in all 12 orientation-preserving  *)
    (* vertex orders (the shared face is opposite list position 0, 1, 2, 3 in turn), both vertex forms          *)
    [] op = "tet_add_cell_v12" ->
         LET even == {p \in [1 .. 4 -> 1 .. 4] : Cardinality(Rng(p)) = 4 /\ Inversions(p) % 2 = 0}
             bases == {Append(HFVerts(st, y[1]), y[2]) : y \in
                         {z \in FreeHF(st) \X FirstN(IsolatedV(st) \cup {v \in LiveV(st) : \A c \in LiveC(st) : v \notin CellVertSet(st, c)}, 2) :
                             /\ Len(At(st.faces, Full(z[1]))) = 3 /\ ~BndHF(st, Opp(z[1]))
                             /\ z[2] \notin Rng(HFVerts(st, z[1]))
                             /\ TetFreeToAdd(st, Append(HFVerts(st, z[1]), z[2]))}}
         IN {KLF("tet_add_cell_v", [i \in 1 .. 4 |-> b[p[i]]], ck) : b \in bases, p \in even, ck \in BOOLEAN}
            \cup {KLF("tet_add_cell_4", [i \in 1 .. 4 |-> b[p[i]]], FALSE) : b \in bases, p \in even}
    [] op = "tet_add_cell_v_taken" ->   \* vertex form with topology check on a place that is already occupied: rejected
         {KLF("tet_add_cell_v", Append(HFVerts(st, x[1]), x[2]), TRUE) : x \in
             {y \in FreeHF(st) \X LiveV(st) :
                 /\ Len(At(st.faces, Full(y[1]))) = 3
                 /\ y[2] \notin Rng(HFVerts(st, y[1]))
                 /\ ~TetFreeToAdd(st, Append(HFVerts(st, y[1]), y[2]))}}
    [] op = "tet_add_cell_new" ->       \* a tetrahedron on four arbitrary distinct live vertices
         {KLF("tet_add_cell_4", SortedSeq(S), FALSE) : S \in {T \in KSub(4, FirstN(LiveV(st), 6)) : TetFreeToAdd(st, SortedSeq(T))}}
         \cup {KLF("tet_add_cell_v", Rev(SortedSeq(S)), TRUE) : S \in {T \in KSub(4, FirstN(LiveV(st), 6)) : TetFreeToAdd(st, Rev(SortedSeq(T)))}}
    [] op = "add_cell4" ->              \* halfface lists for the tetrahedral add_cell: all closed ones, and open / wrong-valence ones
         {KLF("add_cell", SortedSeq(S), TRUE) : S \in KSub(4, FreeHF(st)) \cup KSub(3, FirstN(FreeHF(st), 6)) \cup KSub(5, FirstN(FreeHF(st), 6))}
         (* without topology check only lists that do describe a tetrahedron (the caller's obligation) *)
         \cup {KLF("add_cell", Rev(SortedSeq(S)), FALSE) : S \in {T \in KSub(4, FreeHF(st)) :
                   /\ ClosedSurface(st, SortedSeq(T))
                   /\ \A h \in T : Len(At(st.faces, Full(h))) = 3
                   /\ Cardinality(UNION {Rng(HFVerts(st, h)) : h \in T}) = 4}}
    [] op = "add_face3" ->
         {KLF("add_face", l, TRUE) : l \in SeqsUpTo(FirstN(LiveHE(st), 12), 3) \ {<<>>}}
         \cup {KLF("add_face", l, FALSE) : l \in {l \in [1 .. 3 -> LiveHE(st)] : ClosedLoop(st, l)}}
         \cup {KLF("add_face", l \o <<l[1]>>, b) : l \in {l \in [1 .. 3 -> FirstN(LiveHE(st), 12)] : ClosedLoop(st, l)}, b \in BOOLEAN}
    [] op = "add_face_v3" ->
         {KL("add_face_v", l) : l \in {l \in [1 .. 3 -> FirstN(LiveV(st), 5)] : l[1] # l[2] /\ l[1] # l[3] /\ l[2] # l[3]}}
         \cup {KL("add_face_v", l) : l \in {l \in [1 .. 4 -> FirstN(LiveV(st), 4)] : Cardinality(Rng(l)) = 4}}
         \cup {KL("add_face_v", l) : l \in {l \in [1 .. 2 -> FirstN(LiveV(st), 3)] : l[1] # l[2]}}
    (* every face / halfface entry point of the tetrahedral kernel with closed loops of   *)
    (* length 2..5 and open lists, with and without topology check: where an existing     *)
    (* face contains the first two halfedges add_halfface reuses it, elsewhere it creates  *)
    [] op = "tet_face_entry" ->
         LET ls == FaceLists(st, {2, 3, 4, 5}) IN
         (* without topology check a list of three halfedges must be a closed loop (the caller's obligation) *)
         LET lb == {x \in ls \X BOOLEAN : x[2] \/ Len(x[1]) # 3 \/ ClosedLoop(st, x[1])} IN
         {KLF("add_face", x[1], x[2]) : x \in lb} \cup {KLF("add_halfface", x[1], x[2]) : x \in lb}
         \cup {KL("add_face_v", l) : l \in UNION {VCycles(st, k) : k \in {2, 4, 5}}}
         \cup {KLF("add_halfface_v", l, b) : l \in {l \in [1 .. 3 -> FirstN(LiveV(st), 5)] : Cardinality(Rng(l)) = 3}, b \in BOOLEAN}
    (* the hexahedral face entry points: closed loops of length 2, 4, 6, open lists of     *)
    (* length 3 and 5, vertex lists of length 3 and 5                                      *)
    [] op = "hex_face_entry" ->
         LET ls == FaceLists(st, {2, 4, 6}) IN
         {KLF("add_face", x[1], x[2]) : x \in {y \in ls \X BOOLEAN : y[2] \/ Len(y[1]) # 4 \/ ClosedLoop(st, y[1])}}
         \cup {KL("add_face_v", l) : l \in {l \in [1 .. 3 -> FirstN(LiveV(st), 5)] : Cardinality(Rng(l)) = 3}}
         \cup {KL("add_face_v", l) : l \in {l \in [1 .. 5 -> FirstN(LiveV(st), 5)] : Cardinality(Rng(l)) = 5 /\ l[1] < l[2]}}
    (* without topology check: the given list is stored as it is (C11 stage; the result is outside the  *)
    (* contracts of C15 / C16, so only as a last step)                                                  *)
    [] op = "add_cell4_unchecked" -> {KLF("add_cell", SortedSeq(S), FALSE) : S \in KSub(4, FirstN(FreeHF(st), 7))}
    [] op = "add_cell6_unchecked" ->
         {KLF("add_cell", l, FALSE) : l \in UNION {{SortedSeq(S), RotL(Rev(SortedSeq(S)), 2)} : S \in Free6(st, key)}}
         \cup {KLF("add_cell", SortedSeq(S), FALSE) : S \in KSub(6, FirstN(FreeHF(st), 7))}
    [] op = "split_edge" -> {K(op, h, v, <<>>, FALSE) : h \in LiveHE(st), v \in FirstN(IsolatedV(st), 1)}
    [] op = "split_face" -> {K(op, f, v, <<>>, FALSE) : f \in LiveF(st), v \in FirstN(IsolatedV(st), 1)}
    (* hexahedral: every ordering of every closed set of six free halffaces *)
    [] op = "add_cell_perm" ->
         {KLF("add_cell", l, TRUE) : l \in UNION {SetToSeqs(S) : S \in Free6(st, key)}}
    (* invalid lists: one entry of a valid ordering replaced (duplicate,    *)
    (* opposite halfface, foreign halfface); wrong lengths                  *)
    [] op = "add_cell_bad" ->
         LET bases == UNION {{SortedSeq(S), RotL(Rev(SortedSeq(S)), 2)} : S \in Free6(st, key)}
             repl  == LiveHF(st)
         IN {KLF("add_cell", [b EXCEPT ![i] = x], TRUE) : b \in bases, i \in 1 .. 6, x \in repl}
            \cup {KLF("add_cell", SubSeq(b, 1, 5), TRUE) : b \in bases}
            \cup {KLF("add_cell", Append(b, b[1]), TRUE) : b \in bases}
    [] op = "add_cell6" ->              \* every ordering of a few arbitrary sets of six free halffaces
         {KLF("add_cell", SortedSeq(S), TRUE) : S \in KSub(6, FirstN(FreeHF(st), 9))}
    [] op = "hex_add_cell_v" ->         \* a missing cube of the seed's shape, in all 24 vertex orders
         (* only while the seed's vertex numbering is intact (no vertex slot was removed) *)
         IF key[2] = 10 \/ st.nv # HexSeedDef(key[2]).nv THEN {} ELSE
         {KLF(op, RotList(x[1], x[2]), x[3]) : x \in
             {y \in HexCubesOf(key[2]) \X (1 .. 24) \X BOOLEAN :
                 /\ Rng(y[1]) \subseteq LiveV(st)
                 /\ \A c \in LiveC(st) : CellVertSet(st, c) # Rng(y[1])
                 /\ (y[3] \/ y[2] = 1)}}
    [] op = "add_face4" ->
         {KLF("add_face", l, TRUE) : l \in [1 .. 4 -> FirstN(LiveHE(st), 5)]}
         \cup {KLF("add_face", l, b) : l \in [1 .. 3 -> FirstN(LiveHE(st), 5)], b \in BOOLEAN}
         \cup {KLF("add_face", l, FALSE) : l \in {l \in [1 .. 4 -> FirstN(LiveHE(st), 8)] : ClosedLoop(st, l)}}
         \cup {KL("add_face_v", l) : l \in {l \in [1 .. 4 -> FirstN(LiveV(st), 5)] : Cardinality(Rng(l)) = 4}}
         \cup {KL("add_face_v", l) : l \in {l \in [1 .. 3 -> FirstN(LiveV(st), 4)] : Cardinality(Rng(l)) = 3}}
    [] OTHER -> CallsOf(st, op)

XCalls(st, ops, key) == UNION {XCallsOf(st, op, key) : op \in ops}

(* ----------------- checks of the model against the oracles ------------- *)
(* the operational queries, for every argument, against their contracts    *)
ModelQueriesTet(m) ==
  \A c \in LiveC(m) : ClosedTet(m, c) =>
     /\ CVC_C(m, c, GetCellVerticesC(m, c))
     /\ \A v \in CellVertSet(m, c) :
          /\ CVC_CV(m, c, v, GetCellVerticesCV(m, c, v))
          /\ LET g == VertexOppositeHalfface(m, c, v) IN
             g # -1 /\ OppInv_V(m, c, v, g, HalffaceOppositeVertex(m, g))
     /\ \A i \in 1 .. 4 : LET hf == At(m.cells, c)[i] IN
          /\ CVC_HF(m, c, hf, GetCellVerticesHF(m, hf))
          /\ \A he \in Rng(HFHes(m, hf)) : CVC_HFHE(m, c, hf, he, GetCellVerticesHFHE(m, hf, he))
          /\ LET w == HalffaceOppositeVertex(m, hf) IN
             w # -1 /\ OppInv_HF(m, c, hf, w, VertexOppositeHalfface(m, c, w))

OrthOp == << <<6, 6, 4, 5, 3, 2>>, <<6, 6, 5, 4, 2, 3>>, <<5, 4, 6, 6, 0, 1>>,
             <<4, 5, 6, 6, 1, 0>>, <<2, 3, 1, 0, 6, 6>>, <<3, 2, 0, 1, 6, 6>> >>
OppoOp == [o \in 1 .. 6 |-> OppositeOrientation(o - 1)]
ModelCellRec(m, c) ==
  LET h == At(m.cells, c)
      args == h \o MapSeq(Opp, h)
  IN [ori |-> [k \in 1 .. 12 |-> <<args[k], HexOrientation(m, args[k], c)>>],
      opp |-> [k \in 1 .. 12 |-> <<args[k], HexOppInCell(m, args[k], c)>>],
      xf |-> h[1], xb |-> h[2], yf |-> h[3], yb |-> h[4], zf |-> h[5], zb |-> h[6], goh |-> h]
ModelQueriesHex(m) ==
  \A c \in LiveC(m) :
     /\ HexOrientationAgrees(m, c, ModelCellRec(m, c))
     /\ HexOrthAgrees(m, c, OrthOp, OppoOp)
     /\ HexVertsContract(m, c, HexVertices(m, c))
     /\ \A d \in 0 .. 5 : Rng(SheetCellsOp(m, c, d)) = SheetCells(m, c, d)
     /\ \A hf \in Rng(At(m.cells, c)) : Rng(SheetHalffacesOp(m, hf)) = SheetHalffaces(m, hf)

(* C03 on the model: the tracked property vectors (tokens = pre slot, set by *)
(* Tag) after the collapse's notification / swap sequence, against          *)
(* CollapsePropsFollow's pairs                                              *)
ModelCollapseProps(pre, he, m) ==
  LET pairs == CollapsePropPairs(pre, he, m, m.gV)
      ok(p, ps) == \A x \in ps : At(p, x[1]) = x[2]
  IN /\ Len(m.pV) = m.nv /\ Len(m.pE) = Len(m.edges) /\ Len(m.pHE) = 2 * Len(m.edges)
     /\ Len(m.pF) = Len(m.faces) /\ Len(m.pHF) = 2 * Len(m.faces) /\ Len(m.pC) = Len(m.cells)
     /\ ok(m.pV, pairs.V) /\ ok(m.pC, pairs.C) /\ ok(m.pE, pairs.E) /\ ok(m.pHE, pairs.HE)
     /\ ok(m.pF, pairs.F) /\ ok(m.pHF, pairs.HF)

(* C03 on the model through split_edge / split_face (tokens = pre slot)      *)
ModelSplitProps(pre, c, m) ==
  LET S == IF c.op = "split_edge" THEN EdgeVertSet(pre, Full(c.a)) ELSE FaceVertSet(pre, c.a)
      n == c.b
  IN (SplitInContract(pre, S, n) /\ m.nv = pre.nv /\ TetShape(m)) =>
     LET pairs == SplitPropPairs(pre, m)
         ok(p, ps) == \A x \in ps : At(p, x[1]) = x[2]
         fresh(p, k) == \A j \in SplitNewSlots(m, n, k) : At(p, j) = DefaultTok
     IN /\ Len(m.pV) = m.nv /\ Len(m.pE) = Len(m.edges) /\ Len(m.pHE) = 2 * Len(m.edges)
        /\ Len(m.pF) = Len(m.faces) /\ Len(m.pHF) = 2 * Len(m.faces) /\ Len(m.pC) = Len(m.cells)
        /\ ok(m.pV, pairs.V) /\ ok(m.pC, pairs.C) /\ ok(m.pE, pairs.E) /\ ok(m.pHE, pairs.HE)
        /\ ok(m.pF, pairs.F) /\ ok(m.pHF, pairs.HF)
        /\ fresh(m.pE, "E") /\ fresh(m.pHE, "HE") /\ fresh(m.pF, "F") /\ fresh(m.pHF, "HF")
        /\ SplitChildrenOK(pre, S, n, m, [v |-> Iota(Len(pre.cells)), d |-> DefaultTok], [v |-> m.pC, d |-> DefaultTok])

XModelCheck(pre, c, m) ==
  LET Unchecked == c.op = "add_cell" /\ ~c.f IN     \* stored at the caller's risk: no shape / convention / query contract
  IF m.err # "" THEN "NoInternalError:" \o m.err
  ELSE IF ~WellFormed(m) THEN "WellFormed"
  ELSE IF ~CountersConsistent(m) THEN "CountersConsistent"
  ELSE IF Manifoldish(pre) /\ ~Manifoldish(m) THEN "HalffaceInTwoCells:" \o c.op
  ELSE IF Manifoldish(m) /\ ~CacheIsInverse(m) THEN "CacheIsInverse"
  ELSE IF Kind = "tet" THEN
       (IF ~Unchecked /\ ~TetShape(m) THEN "C15:TetShape"
        ELSE IF c.op = "add_face" /\ ~ValAddFaceC11(pre, 3, c, m, m.ret) THEN "C11:add_face"
        ELSE IF c.op = "add_cell" /\ ~TetAddCellC11(pre, c, m, m.ret) THEN "C11:add_cell"
        ELSE IF c.op = "collapse_edge" /\ CollapseInContract(pre, c.a) /\ ~CollapseRel(pre, c.a, m, m.ret, m.gV)
             THEN "C15:CollapseRel"
        ELSE IF c.op = "collapse_edge" /\ CollapseInContract(pre, c.a) /\ ~ModelCollapseProps(pre, c.a, m) THEN "C03:ModelCollapseProps"
        ELSE IF c.op \in {"split_edge", "split_face"} /\ ~ModelSplitProps(pre, c, m) THEN "C03:ModelSplitProps"
        ELSE IF c.op = "collapse_edge" /\ (m.deferred # pre.deferred \/ m.fast # pre.fast) THEN "collapse:modes"
        ELSE IF c.op \in {"tet_add_cell_4", "tet_add_cell_v"} /\ ~AddTetRel(pre, c.l, m, m.ret) THEN "AddTetRel"
        ELSE IF c.op \in {"add_face", "add_cell"} /\ m.ret = -1 /\ ~Unchanged(pre, m) THEN "RejectLeavesUnchanged"
        ELSE IF c.op = "add_halfface" /\ ~AddHalffaceRel(pre, c, m, m.ret) THEN "AddHalffaceRel"
        ELSE IF c.op \notin TetOps /\ ~StepRel(pre, c, m, m.ret, ModelMap(m)) THEN "StepRel"
        ELSE IF ~Unchecked /\ Manifoldish(m) /\ ~ModelQueriesTet(m) THEN "C15:QueryContracts"
        ELSE "")
  ELSE (IF c.op = "add_face" /\ ~ValAddFaceC11(pre, 4, c, m, m.ret) THEN "C11:add_face"
        ELSE IF c.op = "add_cell" /\ ~HexAddCellC11(pre, c, m, m.ret) THEN "C11:add_cell"
        ELSE IF Unchecked THEN ""
        ELSE IF ~HexShape(m) THEN "C16:HexShape"
        ELSE IF ~HexConventionAll(m) THEN "C16:HexConvention"
        ELSE IF c.op = "add_cell" /\ c.f /\ ~HexAddCellRel(pre, c.l, m, m.ret) THEN "C16:HexAddCellRel"
        ELSE IF c.op = "hex_add_cell_v" /\ ~HexAddCellVRel(pre, c.l, m, m.ret) THEN "HexAddCellVRel"
        ELSE IF c.op = "add_face" /\ m.ret = -1 /\ ~Unchanged(pre, m) THEN "RejectLeavesUnchanged"
        ELSE IF c.op \notin HexOps /\ ~StepRel(pre, c, m, m.ret, ModelMap(m)) THEN "StepRel"
        ELSE IF Manifoldish(m) /\ ~ModelQueriesHex(m) THEN "C16:QueryContracts"
        ELSE "")

(* ------------------------------ behaviour ------------------------------ *)
XInit ==
  \E k \in SeedIds, md \in Modes :
     /\ org = [key |-> <<Kind, k, md[1], md[2]>>, script |-> XModeCalls(md) \o XSeedScript(k)]
     /\ s = XRun(Empty, org.script)
     /\ path = <<>> /\ done = FALSE /\ bad = ""

XStep(c, last) ==
  LET m == XApply(s, c) IN
  /\ s' = Tag(m)
  /\ path' = Append(path, c)
  /\ done' = last
  /\ bad' = XModelCheck(s, c, m)
  /\ UNCHANGED org

XNext ==
  /\ ~done /\ bad = "" /\ Manifoldish(s)      \* a halfface in two cells: outside every contract, not extended
  /\ \/ Len(path) < Depth - 1 /\ \E c \in XCalls(s, HistOps, org.key) : XStep(c, FALSE)
     \/ Len(path) < Depth /\ \E c \in XCalls(s, TargetOps, org.key) : XStep(c, TRUE)
XSpec == XInit /\ [][XNext]_vars

(* simulation: pick an operation of the alphabet at random, then one of its *)
(* in-contract argument tuples (collect_garbage when it has none)           *)
XSimNext ==
  /\ bad = "" /\ Len(path) < Depth - 1 /\ Manifoldish(s)
  /\ \E op \in {RandomElement(HistOps)} :      \* bound once (a LET would be re-evaluated)
       LET cs == XCallsOf(s, op, org.key) IN
       \E c \in {RandomElement(IF Cardinality(cs) = 0 THEN {K0("collect_garbage")} ELSE cs)} : XStep(c, FALSE)
XSimView == <<s, done, bad, Len(path)>>
XSimSpec == XInit /\ [][XSimNext]_vars

(* simulation: every state of a random behaviour reports its history and   *)
(* the number of the behaviour; the longest report per behaviour is used   *)
XSimTrace == (Emit = "sim" /\ Len(path) >= 1 /\ (Len(path) % 1 = 0 \/ Len(path) >= Depth - 2 \/ bad # "")) =>
   PrintT(<<"SIM", ToJson([key |-> org.key, script |-> org.script, path |-> path, t |-> TLCGet("stats").traces])>>)

(* a failed check of the model against the oracles is reported, the      *)
(* exploration continues elsewhere (the state itself is not extended)     *)
XReport == bad # "" => PrintT(<<"MBAD", ToJson([key |-> org.key, script |-> org.script, path |-> path, bad |-> bad])>>)

(* seeds satisfy the state predicates and the query contracts              *)
XSeedOK == (path = <<>>) =>
   /\ WellFormed(s) /\ CacheIsInverse(s) /\ s.err = ""
   /\ IF Kind = "tet" THEN TetShape(s) /\ ModelQueriesTet(s) /\ (\A c \in LiveC(s) : ClosedTet(s, c))
      ELSE HexShape(s) /\ HexConventionAll(s) /\ ModelQueriesHex(s)

(* coverage counters printed once per seed: how many collapsible halfedges *)
XSeedInfo == (path = <<>> /\ Kind = "tet" /\ Emit = "tree") =>
   PrintT(<<"INFO", ToJson([key |-> org.key, live_cells |-> Cardinality(LiveC(s)),
            collapsible |-> Cardinality(XCallsOf(s, "collapse_edge", org.key)), halfedges |-> Cardinality(LiveHE(s))])>>)
=============================================================================
