------------------------------ MODULE OVMQueries ------------------------------
(***************************************************************************)
(* Definitions of every read-only query of TopologyKernel as a brute-force *)
(* function of the stored definitions of the not-deleted entities, the     *)
(* iterator / circulator protocol (C05), the orientation algebra (C08),    *)
(* in-cell adjacency (C09) and the lookups (C10); and the comparison of    *)
(* the RAW answers logged by the executor (field q of a trace line) with   *)
(* these definitions.  QCheck(s, q) returns "" or the first failed check.  *)
(***************************************************************************)
EXTENDS OVMKernelDefs

(* ------------------------------ helpers -------------------------------- *)
Bit(n, b) == (n \div b) % 2 = 1
SameBag(a, b) == Len(a) = Len(b) /\ \A x \in Rng(a) \cup Rng(b) : Count(a, x) = Count(b, x)
IsSetSeq(a, S) == NoDup(a) /\ Rng(a) = S
IsSortedSet(a, S) == a = SortedSeq(S)
Concat(ss) == FoldLeft(LAMBDA acc, x : acc \o x, <<>>, ss)
Repeat(L, k) == Concat([i \in 1 .. k |-> L])
IsRotation(a, b) == Len(a) = Len(b) /\ (a = <<>> \/ \E r \in 0 .. (Len(a) - 1) :
                        \A i \in 1 .. Len(a) : a[i] = b[((i - 1 + r) % Len(a)) + 1])
RotateTo(L, p) == [i \in 1 .. Len(L) |-> L[((i - 1 + p - 1) % Len(L)) + 1]]   \* start at position p
FirstPos(L, x) == Min({i \in 1 .. Len(L) : L[i] = x})

(* ------------------ definitions of the incidence relations ------------- *)
EdgesAtV(s, v)   == {e \in LiveE(s) : At(s.edges, e)[1] = v \/ At(s.edges, e)[2] = v}
FacesAtE(s, e)   == {f \in LiveF(s) : \E he \in Rng(At(s.faces, f)) : Full(he) = e}
HFBag(s, he)     ==   \* the halffaces containing he, one entry per occurrence, ascending
  Concat([k \in 1 .. NHF(s) |-> Rep(HFCountDef(s, he, k - 1), k - 1)])
VVBag(s, v)      == MapSeq(LAMBDA h : To(s, h), SortedSeq(OutDef(s, v)))
VEBag(s, v)      == MapSeq(Full, SortedSeq(OutDef(s, v)))
VHFSet(s, v)     == UNION {{2 * f, 2 * f + 1} : f \in UNION {FacesAtE(s, e) : e \in EdgesAtV(s, v)}}
FaceVerts(s, f)  == UNION {{From(s, he), To(s, he)} : he \in Rng(At(s.faces, f))}
VFSet(s, v)      == {f \in LiveF(s) : v \in FaceVerts(s, f)}
CellVerts(s, c)  == UNION {FaceVerts(s, Full(hf)) : hf \in Rng(At(s.cells, c))}
VCSet(s, v)      == {c \in LiveC(s) : v \in CellVerts(s, c)}
HEFSet(s, he)    == FacesAtE(s, Full(he))
HECSet(s, he)    == {c \in LiveC(s) : \E hf \in Rng(At(s.cells, c)) : HFCountDef(s, he, hf) > 0}
EHFBag(s, e)     == Concat(MapSeq(LAMBDA g : <<g, Opp(g)>>, HFBag(s, 2 * e)))
CCSet(s, c)      == {d \in LiveC(s) : \E hf \in Rng(At(s.cells, c)) : Opp(hf) \in Rng(At(s.cells, d))}
CHESeq(s, c)     == Concat(MapSeq(LAMBDA hf : HFHes(s, hf), At(s.cells, c)))
BndF(s, f)  == BndHF(s, 2 * f) \/ BndHF(s, 2 * f + 1)
BndHE(s, h) == \E hf \in LiveHF(s) : HFCountDef(s, h, hf) > 0 /\ BndF(s, Full(hf))
BndE(s, e)  == BndHE(s, 2 * e)
BndV(s, v)  == \E h \in OutDef(s, v) : BndHE(s, h)
BndC(s, c)  == \E hf \in Rng(At(s.cells, c)) : BndF(s, Full(hf))
ValV(s, v)  == Cardinality(OutDef(s, v))
ValE(s, e)  == Len(HFBag(s, 2 * e))
BHFHFBag(s, hf) == Concat(MapSeq(LAMBDA he : SelectSeq(HFBag(s, Opp(he)), LAMBDA g : BndHF(s, g)), HFHes(s, hf)))

(* ------------------------- circulator protocol ------------------------- *)
(* mode: "seq" the list is fixed by the definitions; "set" sorted unique;   *)
(* "uset" a set in unspecified order; "bag" a multiset in unspecified order *)
ListOK(mode, w, L) ==
  CASE mode = "seq"  -> w = L
    [] mode = "set"  -> w = L
    [] mode = "uset" -> IsSetSeq(w, Rng(L))
    [] mode = "bag"  -> SameBag(w, L)

(* one protocol record P for max_laps = P.laps against the expected list L *)
ProtoOK(mode, P, L) ==
  LET k == P.laps
      n == Len(L)
      w == P.w
  IN /\ P.v0 = (n > 0)
     /\ Len(w) = k * n
     /\ n > 0 => /\ ListOK(mode, SubSeq(w, 1, n), L)
                 /\ w = Repeat(SubSeq(w, 1, n), k)          \* every lap the same
                 /\ P.rf = w                                \* begin != end loop agrees
                 /\ "eq" \in DOMAIN P /\ P.eq = TRUE          \* begin advanced past the last lap == end
                 /\ "bk" \in DOMAIN P
                 /\ LET b  == P.bk
                        st == (Len(b) - 1) \div 2
                    IN /\ \A i \in 0 .. st : b[i + 1][1] = w[i + 1] /\ b[i + 1][2] = i \div n /\ b[i + 1][3]
                       /\ \A jj \in 1 .. st : b[st + 1 + jj][1] = b[st + 1 - jj][1] /\ b[st + 1 + jj][2] = b[st + 1 - jj][2]
     /\ n = 0 => w = <<>> /\ P.rf = <<>>

(* entry: either a plain laps=1 walk, or a triple of protocol records      *)
EntryOK(full, mode, entry, L) ==
  IF full THEN \A i \in 1 .. 3 : entry[i].laps = i /\ ProtoOK(mode, entry[i], L)
  ELSE ListOK(mode, entry, L)

(* all centres of one circulator kind: deleted centres are logged as <<-1>> *)
KindOK(full, mode, arr, n, live(_), L(_)) ==
  /\ Len(arr) = n
  /\ \A c \in 0 .. (n - 1) :
        IF live(c) THEN EntryOK(full, mode, At(arr, c), L(c)) ELSE At(arr, c) = <<-1>>

EntityIterOK(P, S) ==
  LET L == SortedSeq(S) IN
  /\ P.w = L /\ P.rf = L /\ P.bk = Rev(L) /\ P.v0 = (L # <<>>)
  /\ P.bk2 = (IF L = <<>> THEN <<>> ELSE Rev(SubSeq(L, 1, Len(L) - 1)))

(* --------------------------- the comparison ---------------------------- *)
Up(s, q, full) ==
  LET lv(v) == ~At(s.vdel, v)
      le(e) == ~At(s.edel, e)
      lhe(h) == ~At(s.edel, Full(h))
      lc(c) == ~At(s.cdel, c)
      all3 == s.vbu /\ s.ebu /\ s.fbu
      E(b, L) == IF b THEN L ELSE <<>>       \* a circulator that needs a disabled kind is empty
  IN
  IF ~KindOK(full, "uset", q.voh, s.nv, lv, LAMBDA v : E(s.vbu, SortedSeq(OutDef(s, v)))) THEN "voh"
  ELSE IF ~KindOK(full, "uset", q.vih, s.nv, lv, LAMBDA v : E(s.vbu, MapSeq(Opp, SortedSeq(OutDef(s, v))))) THEN "vih"
  ELSE IF ~KindOK(full, "bag", q.vv, s.nv, lv, LAMBDA v : E(s.vbu, VVBag(s, v))) THEN "vv"
  ELSE IF ~KindOK(full, "bag", q.ve, s.nv, lv, LAMBDA v : E(s.vbu, VEBag(s, v))) THEN "ve"
  ELSE IF ~KindOK(full, "uset", q.vhf, s.nv, lv, LAMBDA v : E(s.vbu /\ s.ebu, SortedSeq(VHFSet(s, v)))) THEN "vhf"
  ELSE IF ~KindOK(full, "uset", q.vf, s.nv, lv, LAMBDA v : E(all3, SortedSeq(VFSet(s, v)))) THEN "vf"
  ELSE IF ~KindOK(full, "uset", q.vc, s.nv, lv, LAMBDA v : E(all3, SortedSeq(VCSet(s, v)))) THEN "vc"
  ELSE IF ~KindOK(full, "bag", q.hehf, NHE(s), lhe, LAMBDA h : E(s.ebu, HFBag(s, h))) THEN "hehf"
  ELSE IF ~KindOK(full, "uset", q.hef, NHE(s), lhe, LAMBDA h : E(s.ebu, SortedSeq(HEFSet(s, h)))) THEN "hef"
  ELSE IF ~KindOK(full, "uset", q.hec, NHE(s), lhe, LAMBDA h : E(s.ebu /\ s.fbu, SortedSeq(HECSet(s, h)))) THEN "hec"
  ELSE IF ~KindOK(full, "bag", q.ehf, Len(s.edges), le, LAMBDA e : E(s.ebu, EHFBag(s, e))) THEN "ehf"
  ELSE IF ~KindOK(full, "uset", q.ef, Len(s.edges), le, LAMBDA e : E(s.ebu, SortedSeq(HEFSet(s, 2 * e)))) THEN "ef"
  ELSE IF ~KindOK(full, "uset", q.ec, Len(s.edges), le, LAMBDA e : E(s.ebu /\ s.fbu, SortedSeq(HECSet(s, 2 * e)))) THEN "ec"
  ELSE IF ~KindOK(full, "uset", q.cc, Len(s.cells), lc, LAMBDA c : E(s.fbu, SortedSeq(CCSet(s, c)))) THEN "cc"
  ELSE ""

Tri(b) == IF b THEN 1 ELSE 0
Scalars(s, q) ==
  LET all3 == s.vbu /\ s.ebu /\ s.fbu
      ef == s.ebu /\ s.fbu
      Arr(n, can, live(_), val(_)) == [i \in 1 .. n |-> IF can /\ live(i - 1) THEN val(i - 1) ELSE -1]
      lv(v) == ~At(s.vdel, v)
      le(e) == ~At(s.edel, e)
      lhe(h) == ~At(s.edel, Full(h))
      lf(f) == ~At(s.fdel, f)
      lhf(h) == ~At(s.fdel, Full(h))
      lc(c) == ~At(s.cdel, c)
      BL(can, S, P(_)) == IF can THEN {x \in S : P(x)} ELSE {}
      IsB(w, S) == NoDup(w) /\ Rng(w) = S
  IN
  IF q.valv # Arr(s.nv, s.vbu, lv, LAMBDA v : ValV(s, v)) THEN "valence(v)"
  ELSE IF q.vale # Arr(Len(s.edges), s.ebu, le, LAMBDA e : ValE(s, e)) THEN "valence(e)"
  ELSE IF q.bndhf # Arr(NHF(s), s.fbu, lhf, LAMBDA h : Tri(BndHF(s, h))) THEN "is_boundary(hf)"
  ELSE IF q.bndf # Arr(Len(s.faces), s.fbu, lf, LAMBDA f : Tri(BndF(s, f))) THEN "is_boundary(f)"
  ELSE IF q.bndhe # Arr(NHE(s), ef, lhe, LAMBDA h : Tri(BndHE(s, h))) THEN "is_boundary(he)"
  ELSE IF q.bnde # Arr(Len(s.edges), ef, le, LAMBDA e : Tri(BndE(s, e))) THEN "is_boundary(e)"
  ELSE IF q.bndv # Arr(s.nv, all3, lv, LAMBDA v : Tri(BndV(s, v))) THEN "is_boundary(v)"
  ELSE IF q.bndc # Arr(Len(s.cells), s.fbu, lc, LAMBDA c : Tri(BndC(s, c))) THEN "is_boundary(c)"
  ELSE IF ~IsB(q.bv, BL(all3, LiveV(s), LAMBDA v : BndV(s, v))) THEN "bv_iter"
  ELSE IF ~IsB(q.bhe, BL(ef, LiveHE(s), LAMBDA h : BndHE(s, h))) THEN "bhe_iter"
  ELSE IF ~IsB(q.be, BL(ef, LiveE(s), LAMBDA e : BndE(s, e))) THEN "be_iter"
  ELSE IF ~IsB(q.bhf, BL(s.fbu, LiveHF(s), LAMBDA h : BndHF(s, h))) THEN "bhf_iter"
  ELSE IF ~IsB(q.bf, BL(s.fbu, LiveF(s), LAMBDA f : BndF(s, f))) THEN "bf_iter"
  ELSE IF ~IsB(q.bc, BL(s.fbu, LiveC(s), LAMBDA c : BndC(s, c))) THEN "bc_iter"
  ELSE IF \E f \in LiveF(s) : s.fbu /\
            At(q.fcells, f) # <<(IF CellsOfHF(s, 2 * f) = {} THEN -1 ELSE CHOOSE c \in CellsOfHF(s, 2 * f) : TRUE),
                                (IF CellsOfHF(s, 2 * f + 1) = {} THEN -1 ELSE CHOOSE c \in CellsOfHF(s, 2 * f + 1) : TRUE)>>
       THEN "face_cells"
  ELSE IF \E h \in LiveHF(s) : s.fbu /\ At(q.incq, h) # (IF CellsOfHF(s, h) = {} THEN -1 ELSE CHOOSE c \in CellsOfHF(s, h) : TRUE)
       THEN "incident_cell"
  ELSE ""

Down(s, q) ==
  LET lhf(h) == ~At(s.fdel, Full(h))
      lf(f) == ~At(s.fdel, f)
      lc(c) == ~At(s.cdel, c)
      bh(h) == lhf(h) /\ s.fbu /\ BndHF(s, h)
  IN
  IF ~KindOK(TRUE, "seq", q.hfhe, NHF(s), lhf, LAMBDA h : HFHes(s, h)) THEN "hfhe"
  ELSE IF ~KindOK(TRUE, "seq", q.hfe, NHF(s), lhf, LAMBDA h : MapSeq(Full, HFHes(s, h))) THEN "hfe"
  ELSE IF ~KindOK(TRUE, "seq", q.hfv, NHF(s), lhf, LAMBDA h : MapSeq(LAMBDA x : From(s, x), HFHes(s, h))) THEN "hfv"
  ELSE IF ~KindOK(TRUE, "seq", q.fv, Len(s.faces), lf, LAMBDA f : MapSeq(LAMBDA x : From(s, x), At(s.faces, f))) THEN "fv"
  ELSE IF ~KindOK(TRUE, "seq", q.fhe, Len(s.faces), lf, LAMBDA f : At(s.faces, f)) THEN "fhe"
  ELSE IF ~KindOK(TRUE, "seq", q.fe, Len(s.faces), lf, LAMBDA f : MapSeq(Full, At(s.faces, f))) THEN "fe"
  ELSE IF ~KindOK(TRUE, "uset", q.cv, Len(s.cells), lc, LAMBDA c : SortedSeq(CellVerts(s, c))) THEN "cv"
  ELSE IF ~KindOK(TRUE, "bag", q.che, Len(s.cells), lc, LAMBDA c : CHESeq(s, c)) THEN "che"
  ELSE IF ~KindOK(TRUE, "uset", q.ce, Len(s.cells), lc, LAMBDA c : SortedSeq({Full(h) : h \in Rng(CHESeq(s, c))})) THEN "ce"
  ELSE IF ~KindOK(TRUE, "bag", q.chf, Len(s.cells), lc, LAMBDA c : At(s.cells, c)) THEN "chf"
  ELSE IF ~KindOK(TRUE, "bag", q.cf, Len(s.cells), lc, LAMBDA c : MapSeq(Full, At(s.cells, c))) THEN "cf"
  ELSE IF ~KindOK(TRUE, "bag", q.bhfhf, NHF(s), bh, LAMBDA h : IF s.ebu THEN BHFHFBag(s, h) ELSE <<>>) THEN "bhfhf"
  ELSE IF ~EntityIterOK(q.itv, LiveV(s)) THEN "vertices()"
  ELSE IF ~EntityIterOK(q.ite, LiveE(s)) THEN "edges()"
  ELSE IF ~EntityIterOK(q.ithe, LiveHE(s)) THEN "halfedges()"
  ELSE IF ~EntityIterOK(q.itf, LiveF(s)) THEN "faces()"
  ELSE IF ~EntityIterOK(q.ithf, LiveHF(s)) THEN "halffaces()"
  ELSE IF ~EntityIterOK(q.itc, LiveC(s)) THEN "cells()"
  ELSE ""

(* C08: the two sides of every edge / face mirror each other *)
NextIn(L, h) == IF h \in Rng(L) THEN L[(FirstPos(L, h) % Len(L)) + 1] ELSE -1
PrevIn(L, h) == IF h \in Rng(L) THEN L[((FirstPos(L, h) + Len(L) - 2) % Len(L)) + 1] ELSE -1
W1(entry) == entry[1].w
Mirror(s, q, full) ==
  IF \E h \in 0 .. (NHE(s) - 1) :
        LET r == At(q.hev, h) e == At(s.edges, Full(h))
            fr == IF Side(h) = 0 THEN e[1] ELSE e[2]
            to == IF Side(h) = 0 THEN e[2] ELSE e[1]
        IN r # <<fr, to, fr, to, Opp(h), to, fr>>
  THEN "halfedge/opposite_halfedge"
  ELSE IF \E e \in Hs(s.edges) :
        LET d == At(s.edges, e) IN At(q.conv, e) # <<d[1], d[2], 2 * e, 2 * e + 1, d[1], d[2], d[2], d[1]>>
  THEN "edge_vertices/edge_halfedges/halfedge_vertices"
  ELSE IF \E f \in Hs(s.faces) : At(q.fhfs, f) # <<2 * f, 2 * f + 1>>
  THEN "face_halffaces"
  ELSE IF \E h \in 0 .. (NHF(s) - 1) : At(q.hfhes, h) # HFHes(s, h) \/ At(q.hfopp, h) # HFHes(s, Opp(h))
  THEN "halfface/opposite_halfface"
  ELSE IF \E i \in DOMAIN q.nxt :
        LET r == q.nxt[i] L == HFHes(s, r[1]) IN r[3] # NextIn(L, r[2]) \/ r[4] # PrevIn(L, r[2])
  THEN "next/prev_halfedge_in_halfface"
  ELSE IF \E i \in DOMAIN q.nxt :   \* inverse steps along a face without repeated halfedges
        LET r == q.nxt[i] L == HFHes(s, r[1]) IN
        NoDup(L) /\ r[2] \in Rng(L) /\ PrevIn(L, r[3]) # r[2]
  THEN "prev(next)"
  ELSE IF \E f \in LiveF(s) :   \* the two sides enumerate the same cycle in opposite directions
        LET a == IF full THEN W1(At(q.hfv, 2 * f)) ELSE At(q.hfv, 2 * f)
            b == IF full THEN W1(At(q.hfv, 2 * f + 1)) ELSE At(q.hfv, 2 * f + 1)
            ha == IF full THEN W1(At(q.hfhe, 2 * f)) ELSE At(q.hfhe, 2 * f)
            hb == IF full THEN W1(At(q.hfhe, 2 * f + 1)) ELSE At(q.hfhe, 2 * f + 1)
        IN \/ hb # Rev(MapSeq(Opp, ha))
           \/ (ClosedLoop(s, At(s.faces, f)) /\ ~IsRotation(Rev(b), a))
  THEN "two sides of a face"
  ELSE ""

(* C09 second sentence: adjacent_halfface_in_cell *)
AdjExpected(s, hf, he0) ==   \* -9: outside the asserted contract
  LET cs == CellsOfHF(s, hf) IN
  IF Cardinality(cs) # 1 THEN -9 ELSE
  LET c == CHOOSE x \in cs : TRUE
      hes == HFHes(s, hf)
      has == he0 \in Rng(hes)
      hasO == Opp(he0) \in Rng(hes)
  IN IF ~ClosedSurface(s, At(s.cells, c)) THEN -9
     ELSE IF ~has /\ ~hasO THEN -9
     ELSE LET he == IF has THEN he0 ELSE Opp(he0)
              cands == {g \in Rng(At(s.cells, c)) \ {hf} : Opp(he) \in Rng(HFHes(s, g))}
          IN IF Cardinality(cands) # 1 \/ cands = {Opp(hf)} THEN -9
             ELSE CHOOSE g \in cands : TRUE
AdjOK(s, q) ==
  IF \E i \in DOMAIN q.adj :
        LET r == q.adj[i] ex == AdjExpected(s, r[1], r[2]) IN ex # -9 /\ r[3] # ex
  THEN "adjacent_halfface_in_cell"
  ELSE ""

(* C10: lookups *)
ParallelEdges(s, a, b) == Cardinality(LiveEdgesBetween(s, a, b)) > 1
HEsFromTo(s, a, b) == {h \in LiveHE(s) : From(s, h) = a /\ To(s, h) = b}
HFVerts(s, hf) == MapSeq(LAMBDA x : From(s, x), HFHes(s, hf))
Consec3(L, a, b, c) == \E i \in 1 .. Len(L) :
   L[i] = a /\ L[(i % Len(L)) + 1] = b /\ L[((i + 1) % Len(L)) + 1] = c
MatchOK(res, M) == IF M = {} THEN res = -1 ELSE res \in M
Lookups(s, q) ==
  (* per-state tables, computed once (TLC evaluates a LET constant lazily and caches it) *)
  LET LHF   == LiveHF(s)
      HES   == [hf \in LHF |-> HFHes(s, hf)]
      VTS   == [hf \in LHF |-> MapSeq(LAMBDA x : From(s, x), HES[hf])]
      LHE   == LiveHE(s)
      FR    == [h \in LHE |-> From(s, h)]
      TOV   == [h \in LHE |-> To(s, h)]
      HEFT(a, b) == {h \in LHE : FR[h] = a /\ TOV[h] = b}
      LE    == LiveE(s)
      PARS  == {<<At(s.edges, e)[1], At(s.edges, e)[2]>> : e \in
                  {e \in LE : \E f \in LE : f # e /\ (At(s.edges, f) = At(s.edges, e) \/
                                                       At(s.edges, f) = <<At(s.edges, e)[2], At(s.edges, e)[1]>>)}}
      PAR(a, b)  == <<a, b>> \in PARS \/ <<b, a>> \in PARS
      (* consecutive vertex triples of every halfface with at least two halfedges, and the inverse map *)
      TRI   == [hf \in LHF |-> IF HES[hf] = <<>> THEN {} ELSE      \* cyclically: a face of valence 1 or 2 wraps around
                  LET L == VTS[hf] n == Len(L) IN {<<L[i], L[(i % n) + 1], L[((i + 1) % n) + 1]>> : i \in 1 .. n}]
      TRIS  == UNION {TRI[hf] : hf \in LHF}
      TMAP  == [tr \in TRIS |-> {hf \in LHF : tr \in TRI[hf]}]
      C3SET(a, b, c) == IF <<a, b, c>> \in TRIS THEN TMAP[<<a, b, c>>] ELSE {}
      (* all rotations of the vertex cycle of every halfface, and the inverse map *)
      ROTS  == [hf \in LHF |-> LET L == VTS[hf] n == Len(L) IN {RotateTo(L, p) : p \in 1 .. n}]
      RALL  == UNION {ROTS[hf] : hf \in LHF}
      RMAP  == [vs \in RALL |-> {hf \in LHF : vs \in ROTS[hf]}]
      RSET(vs) == IF vs \in RALL THEN RMAP[vs] ELSE {}
      LC     == LiveC(s)
      CLOSED == [c \in LC |-> ClosedSurface(s, At(s.cells, c))]
      CEDGES == [c \in LC |-> {Full(h) : h \in Rng(CHESeq(s, c))}]
  IN
  IF "fndhe" \in DOMAIN q /\ \E i \in DOMAIN q.fndhe :
        LET r == q.fndhe[i] IN ~MatchOK(r[3], HEFT(r[1], r[2]))
  THEN "find_halfedge"
  ELSE IF "fhf3" \in DOMAIN q /\ \E i \in DOMAIN q.fhf3 :
        LET r == q.fhf3[i]
            M == C3SET(r[1], r[2], r[3])
            Mx == RSET(<<r[1], r[2], r[3]>>)
            amb == PAR(r[1], r[2]) \/ PAR(r[2], r[3])
        IN \/ (r[4] # -1 /\ r[4] \notin M) \/ (~amb /\ M # {} /\ r[4] = -1)
           \/ (r[5] # -1 /\ r[5] \notin Mx) \/ (~amb /\ Mx # {} /\ r[5] = -1)
  THEN "find_halfface(vertices) / extensive"
  ELSE IF "fhf4" \in DOMAIN q /\ \E i \in DOMAIN q.fhf4 :
        LET r == q.fhf4[i]
            M == C3SET(r[1], r[2], r[3])
            Mx == RSET(<<r[1], r[2], r[3], r[4]>>)
            amb == PAR(r[1], r[2]) \/ PAR(r[2], r[3])
        IN \/ (r[5] # -1 /\ r[5] \notin M) \/ (~amb /\ M # {} /\ r[5] = -1)
           \/ (r[6] # -1 /\ r[6] \notin Mx) \/ (~amb /\ Mx # {} /\ r[6] = -1)
  THEN "find_halfface(4 vertices) / extensive"
  ELSE IF "fhfhe" \in DOMAIN q /\ \E i \in DOMAIN q.fhfhe :
        LET r == q.fhfhe[i]
            M == {hf \in LHF : r[1] \in Rng(HES[hf]) /\ r[2] \in Rng(HES[hf])}
        IN ~MatchOK(r[3], M)
  THEN "find_halfface(halfedges)"
  ELSE IF \E i \in DOMAIN q.fhec :
        LET r == q.fhec[i]
            M == {h \in HEFT(r[2], r[3]) : Full(h) \in CEDGES[r[1]]}
        IN ~MatchOK(r[4], M)
  THEN "find_halfedge_in_cell"
  ELSE IF "fhfc" \in DOMAIN q /\ \E i \in DOMAIN q.fhfc :
        LET r == q.fhfc[i]
            closed == CLOSED[r[1]]
            M == C3SET(r[2], r[3], r[4]) \cap Rng(At(s.cells, r[1]))
        IN closed /\ ~MatchOK(r[5], M)
  THEN "find_halfface_in_cell"
  ELSE IF \E i \in DOMAIN q.ghfv :
        LET r == q.ghfv[i]
            L == HFVerts(s, r[1])
        IN \/ r[2] # L
           \/ \E k \in DOMAIN r[3] : Tail(r[3][k]) # RotateTo(L, FirstPos(L, r[3][k][1]))
           \/ \E k \in DOMAIN r[4] : Tail(r[4][k]) # RotateTo(L, FirstPos(L, From(s, r[4][k][1])))
  THEN "get_halfface_vertices"
  ELSE IF \E i \in DOMAIN q.isinc :
        LET r == q.isinc[i] IN r[3] # (\E he \in Rng(At(s.faces, r[1])) : Full(he) = r[2])
  THEN "is_incident"
  ELSE IF \E c \in LiveC(s) : At(q.nvc, c) # Cardinality({To(s, h) : h \in Rng(CHESeq(s, c))})
  THEN "n_vertices_in_cell"
  ELSE ""

(* which query groups a property's check evaluates *)
QCheck(s, q, props) ==
  LET lvl  == q.lvl
      full == Bit(lvl, 2)
      r1 == IF ("C01" \in props \/ "C05" \in props \/ "C12" \in props) /\ (Bit(lvl, 1) \/ full) THEN Up(s, q, full) ELSE ""
      r2 == IF "C01" \in props /\ Bit(lvl, 1) THEN Scalars(s, q) ELSE ""
      r3 == IF "C05" \in props /\ full THEN Down(s, q) ELSE ""
      r4 == IF "C08" \in props /\ Bit(lvl, 4) THEN Mirror(s, q, full) ELSE ""
      r5 == IF "C09" \in props /\ Bit(lvl, 8) /\ s.fbu THEN AdjOK(s, q) ELSE ""
      r6 == IF "C10" \in props /\ Bit(lvl, 16) THEN Lookups(s, q) ELSE ""
  IN IF r1 # "" THEN "Q:" \o r1 ELSE IF r2 # "" THEN "Q:" \o r2 ELSE IF r3 # "" THEN "Q:" \o r3
     ELSE IF r4 # "" THEN "Q:" \o r4 ELSE IF r5 # "" THEN "Q:" \o r5 ELSE IF r6 # "" THEN "Q:" \o r6 ELSE ""
=============================================================================
