----------------------------- MODULE OVMBMachine -----------------------------
(***************************************************************************)
(* The OVMB reader as a chunk-level state machine (role M for C18 / C06):  *)
(*     Init -> ReadingChunks -> Ok | Error                                 *)
(* The transition on a chunk is ApplyChunk of OVMB.tla and acceptance is   *)
(* Finish of OVMB.tla, i.e. exactly the operators ParseFile is built from; *)
(* here they are explored over ALL sequences of abstract chunk records up  *)
(* to MaxChunks (instead of the chunk sequences of particular files), with *)
(* a StreamFail action that may strike before any step.                    *)
(* Checked: the machine reports Ok only if the EOF chunk was seen, it was  *)
(* the last chunk and the only EOF chunk, every declared entity was        *)
(* delivered, at most one property directory was seen, and the stream      *)
(* never failed; Error is final; the phase agrees with Finish; no chunk is  *)
(* accepted before the chunks that deliver the entities it refers to       *)
(* (DependencyOrder).                                                      *)
(***************************************************************************)
EXTENDS OVMB

CONSTANTS MaxChunks

(* a small header: 2 vertices, 1 edge, 1 face, 1 cell *)
Hdr == [ok |-> TRUE, fver |-> 1, dim |-> 3, topo |-> 0, nv |-> 2, ne |-> 1, nf |-> 1, nc |-> 1]

P0 == [i \in 1 .. 24 |-> 0]
(* bytes the PROP chunks of the alphabet point into: two int32 values *)
Data == <<1, 0, 0, 0, 2, 0, 0, 0>>

Alphabet ==
  {[kind |-> "EOF"], [kind |-> "SKIP"],
   [kind |-> "BAD", why |-> "x", strict |-> TRUE], [kind |-> "BAD", why |-> "y", strict |-> FALSE]}
  \cup {[kind |-> "VERT", first |-> f, count |-> c, pos |-> [i \in 1 .. c |-> P0]] : f \in 0 .. 2, c \in 0 .. 2}
  \cup {[kind |-> "TOPO", ent |-> 1, first |-> f, count |-> 1, fixed |-> 2, hoff |-> o, items |-> <<<<0, h>>>>] : f \in 0 .. 1, o \in 0 .. 1, h \in 0 .. 2}
  \cup {[kind |-> "TOPO", ent |-> 2, first |-> f, count |-> 1, fixed |-> v, hoff |-> 0, items |-> <<[i \in 1 .. v |-> h]>>] : f \in 0 .. 1, v \in 1 .. 2, h \in 0 .. 2}
  \cup {[kind |-> "TOPO", ent |-> 3, first |-> f, count |-> c, fixed |-> 1, hoff |-> 0, items |-> [i \in 1 .. c |-> <<h>>]] : f \in 0 .. 1, c \in 1 .. 2, h \in 1 .. 2}
  \cup {[kind |-> "DIRP", entries |-> <<[k |-> "V", name |-> <<120>>, ty |-> TypeIndexOfTag("int32"), tname |-> <<105, 51, 50>>, def |-> <<9, 0, 0, 0>>]>>]}
  \cup {[kind |-> "PROP", first |-> f, count |-> c, idx |-> x, o |-> 1, n |-> 4 * c] : f \in 0 .. 1, c \in 0 .. 2, x \in 0 .. 1}

VARIABLES phase, st, failed, hist, orderOK
vars == <<phase, st, failed, hist, orderOK>>

Init == phase = "Init" /\ st = InitState(Hdr) /\ failed = FALSE /\ hist = <<>> /\ orderOK = TRUE

(* the dependency rule of the chunk order, stated independently of ApplyChunk: when a chunk is        *)
(* accepted in state s, its span continues the spans of its kind, every handle it stores names an    *)
(* entity delivered by EARLIER chunks, a PROP chunk finds its directory entry and its elements       *)
InOrder(s, c) ==
  CASE c.kind = "VERT" -> c.first = s.nvr
    [] c.kind = "TOPO" ->
         LET read  == IF c.ent = 1 THEN s.ner ELSE IF c.ent = 2 THEN s.nfr ELSE s.ncr
             bound == IF c.ent = 1 THEN s.nvr ELSE IF c.ent = 2 THEN 2 * s.ner ELSE 2 * s.nfr
         IN c.first = read /\ \A i \in DOMAIN c.items : \A j \in DOMAIN c.items[i] : c.items[i][j] + c.hoff < bound
    [] c.kind = "PROP" -> c.idx < Len(s.dir) /\ (c.count = 0 \/ c.first + c.count <= CountRead(s, s.dir[c.idx + 1].k))
    [] c.kind = "DIRP" -> ~s.dirSeen
    [] OTHER -> TRUE

ReadHeader ==
  /\ phase = "Init" /\ ~failed
  /\ phase' = "ReadingChunks" /\ UNCHANGED <<st, failed, hist, orderOK>>

ReadChunk(c) ==
  /\ phase = "ReadingChunks" /\ ~failed /\ Len(hist) < MaxChunks
  /\ st' = ApplyChunk(Data, st, c)
  /\ hist' = Append(hist, c.kind)
  /\ phase' = IF st'.bad # <<>> THEN "Error" ELSE "ReadingChunks"
  /\ orderOK' = (orderOK /\ (st'.bad # <<>> \/ (~st.eof /\ InOrder(st, c))))
  /\ UNCHANGED failed

(* the underlying stream fails: whatever was being read, the machine must end in Error *)
StreamFail ==
  /\ phase \in {"Init", "ReadingChunks"}
  /\ failed' = TRUE /\ phase' = "Error" /\ UNCHANGED <<st, hist, orderOK>>

EndOfInput ==
  /\ phase = "ReadingChunks" /\ ~failed
  /\ phase' = IF Finish(st).ok THEN "Ok" ELSE "Error"
  /\ UNCHANGED <<st, failed, hist, orderOK>>

Next == ReadHeader \/ (\E c \in Alphabet : ReadChunk(c)) \/ StreamFail \/ EndOfInput
Spec == Init /\ [][Next]_vars

Count(k) == Cardinality({i \in DOMAIN hist : hist[i] = k})

OkOnlyIf ==
  phase = "Ok" =>
     /\ ~failed
     /\ hist # <<>> /\ hist[Len(hist)] = "EOF" /\ Count("EOF") = 1
     /\ Count("DIRP") <= 1 /\ Count("BAD") = 0
     /\ st.nvr = Hdr.nv /\ st.ner = Hdr.ne /\ st.nfr = Hdr.nf /\ st.ncr = Hdr.nc
     /\ Len(st.pos) = Hdr.nv /\ Len(st.edges) = Hdr.ne /\ Len(st.faces) = Hdr.nf /\ Len(st.cells) = Hdr.nc
     /\ \A i \in DOMAIN st.edges : \A j \in DOMAIN st.edges[i] : st.edges[i][j] < Hdr.nv
     /\ \A i \in DOMAIN st.faces : \A j \in DOMAIN st.faces[i] : st.faces[i][j] < 2 * Hdr.ne
     /\ \A i \in DOMAIN st.cells : \A j \in DOMAIN st.cells[i] : st.cells[i][j] < 2 * Hdr.nf
(* no chunk is ever accepted out of dependency order (so no file with such a chunk is read as Ok) *)
DependencyOrder == orderOK
ErrorIsFinal == failed => phase = "Error"
AgreesWithFinish == (phase = "Ok" => Finish(st).ok) /\ (phase = "Error" /\ ~failed => ~Finish(st).ok \/ st.bad # <<>>)
=============================================================================
