------------------------------ MODULE OVMVecMC ------------------------------
(***************************************************************************)
(* Generation (role G) and spec-level checking (role M) for C19.           *)
(*                                                                         *)
(* TLC enumerates the integer lattice CompsA^D (pairs with CompsB^D,       *)
(* scalars Scalars, input denominators Dens) and emits one case per        *)
(* element, together with the groups of operations that are in contract    *)
(* for it.  On every enumerated case the algebraic laws below are checked  *)
(* on the DEFINITIONS of OVMVec (a typo in a definition breaks a law).     *)
(* Kind "G" enumerates integer affine images of three base solids          *)
(* (tetrahedron, cube, prism) as vertex positions for the geometry part.   *)
(***************************************************************************)
EXTENDS OVMVec, Json, SequencesExt

CONSTANTS D,          \* dimension 2..4 (3 for kind G)
          CompsA,     \* component values of the first vector, e.g. -2..2
          CompsB,     \* component values of the second vector
          Scalars,    \* scalar arguments
          Dens,       \* input denominators: {1} or {1, 2} (float/double inputs a/den)
          GenKinds,   \* subset of {"B","S","U","I","G"}
          FirstA,     \* values of the first component of the first vector (splits a big lattice over several TLC runs)
          SweepDivisors, \* divisors of the small integer sweep (kind W), e.g. 1 .. 255
          XComps, XCompsU, XDens, \* kind X: component values (signed pairs / pairs with an unsigned operand), denominators of the floating side
          Histories,  \* kind H: number of position patterns per solid for the NormalAttrib histories
          Jitters,    \* number of jittered (non-affine) position sets per solid (kind G)
          MatEntries, \* entries of the affine maps (kind G)
          Stride, Seed \* kind G: every Stride-th matrix, offset Seed % Stride

VARIABLE c

(* named values for the .cfg files (a cfg cannot hold negative numbers)    *)
Lat22 == -2 .. 2
Lat04 == 0 .. 4
LatB2 == {-1, 2}
LatB4 == {-2, -1, 1, 2}
LatB3 == {-2, 0, 1}
Lat13 == 1 .. 3
One_m2 == {-2}
One_m1 == {-1}
One_z0 == {0}
One_p1 == {1}
One_p2 == {2}
XC3 == {-3, 1, 2}
XC3U == {0, 1, 3}
XC2 == {-1, 2}
XC2U == {1, 2}
XC4 == {-3, -1, 2, 3}
XC4U == {0, 1, 2, 3}
Div255 == 1 .. 255
DivOdd == {s \in 1 .. 255 : s % 2 = 1 \/ s % 7 = 0}
Mat11 == -1 .. 1
Mat12 == -1 .. 2

Vecs(S) == [1 .. D -> S]
VecsA == {a \in Vecs(CompsA) : a[1] \in FirstA}
Tup(f)  == [i \in 1 .. D |-> f[i]]
ZeroD   == [i \in 1 .. D |-> 0]
NoZero(v) == \A i \in 1 .. D : v[i] # 0
NonNeg(v) == \A i \in 1 .. D : v[i] >= 0
Seqify(S) == SetToSeq(S)

TypesFor(a, b, s, den) == IF den # 1 THEN <<"f", "d">> ELSE <<"i", "u", "f", "d", "m">>

CaseT(k, a, b, s, den, sep, g, ty) ==
  [k |-> k, d |-> D, a |-> a, b |-> b, s |-> s, den |-> den, sep |-> sep, g |-> g, ty |-> ty,
   txt |-> ""]
Case(k, a, b, s, den, sep, g) ==
  [k |-> k, d |-> D, a |-> a, b |-> b, s |-> s, den |-> den, sep |-> sep, g |-> g,
   ty |-> TypesFor(a, b, s, den), txt |-> IF k = "I" THEN Seps[sep] \o StreamText(VOver(a, den), Seps[sep]) ELSE ""]

CasesB == IF "B" \notin GenKinds THEN {} ELSE
          { Case("B", Tup(a), Tup(b), 0, den, 0, IF NoZero(b) THEN <<"ring", "div">> ELSE <<"ring">>) :
              a \in VecsA, b \in Vecs(CompsB), den \in Dens }
CasesS == IF "S" \notin GenKinds THEN {} ELSE
          { Case("S", Tup(a), ZeroD, s, den, 0, IF s # 0 THEN <<"ring", "sdiv">> ELSE <<"ring">>) :
              a \in VecsA, s \in Scalars, den \in Dens }
GroupsU(a) == <<"ring">> \o (IF a # ZeroD THEN <<"nz">> ELSE <<>>)
                         \o (IF D = 4 /\ a[4] # 0 THEN <<"hom">> ELSE <<>>)
                         \o (IF NonNeg(a) THEN <<"cvu">> ELSE <<>>)
CasesU == IF "U" \notin GenKinds THEN {} ELSE
          { Case("U", Tup(a), ZeroD, 0, den, 0, GroupsU(Tup(a))) : a \in VecsA, den \in Dens }
CasesI == IF "I" \notin GenKinds THEN {} ELSE
          { Case("I", Tup(a), ZeroD, 0, den, sep, <<"ring">>) : a \in VecsA, den \in Dens, sep \in 1 .. Len(Seps) }


(* --------------- kind W: integer scalar division / multiplication sweep ---------------- *)
(* d = 4, int and unsigned only: every numerator 0 .. 255 (and, for int, its negative)   *)
(* against every divisor 1 .. 255, packed four numerators per vector; plus large         *)
(* operands up to 2^30.  C++ integer division truncates; TLA+ defines it directly.       *)
SweepSmall == IF "W" \notin GenKinds THEN {} ELSE
  UNION { { CaseT("S", <<n, n + 64, n + 128, n + 192>>, <<0, 0, 0, 0>>, s, 1, 0, <<"sweep", "sweepmul">>, <<"i", "u">>),
            CaseT("S", <<-n, -(n + 64), -(n + 128), -(n + 192)>>, <<0, 0, 0, 0>>, s, 1, 0, <<"sweep", "sweepmul">>, <<"i">>) }
          \cup (IF s % 7 = 0 \/ s < 16 \/ SweepDivisors = Div255       \* negative divisors: a sample, all in the full sweep
                THEN { CaseT("S", <<n, n + 64, n + 128, n + 192>>, <<0, 0, 0, 0>>, -s, 1, 0, <<"sweep", "sweepmul">>, <<"i">>) } ELSE {})
          : n \in 0 .. 63, s \in SweepDivisors }
BigNums == << <<1000, 4999, 9999, 10000>>, <<65535, 65536, 99991, 1000003>>, <<16777215, 16777216, 16777217, 123456789>>,
              <<1073741823, 1073741824, 1073741789, 536870912>>, <<2401, 4802, 9604, 117649>>, <<999, 9801, 5041, 6889>> >>
BigDivs == {1, 2, 3, 7, 10, 49, 98, 99, 100, 255, 256, 1000, 4999, 9999, 10000, 65535, 65537, 1000003, 1073741823}
SweepBig == IF "W" \notin GenKinds THEN {} ELSE
  UNION { { CaseT("S", BigNums[i], <<0, 0, 0, 0>>, s, 1, 0, <<"sweep">>, <<"i", "u">>),
            CaseT("S", [k \in 1 .. 4 |-> -BigNums[i][k]], <<0, 0, 0, 0>>, s, 1, 0, <<"sweep">>, <<"i">>) }
          : i \in 1 .. Len(BigNums), s \in BigDivs }
CasesW == IF "W" \notin GenKinds THEN {} ELSE SweepSmall \cup SweepBig

(* ------------------------------ kind G --------------------------------- *)
Shapes == {"tet", "cube", "prism", "penta", "quad"}
BaseOf(sh) ==
  CASE sh = "tet"   -> << <<0,0,0>>, <<1,0,0>>, <<0,1,0>>, <<0,0,1>> >>
    [] sh = "cube"  -> << <<0,0,0>>, <<1,0,0>>, <<1,1,0>>, <<0,1,0>>, <<0,0,1>>, <<0,1,1>>, <<1,1,1>>, <<1,0,1>> >>
    [] sh = "prism" -> << <<0,0,0>>, <<1,0,0>>, <<0,1,0>>, <<0,0,1>>, <<1,0,1>>, <<0,1,1>> >>
    [] sh = "penta" -> << <<2,2,0>>, <<1,1,0>>, <<0,2,0>>, <<0,0,0>>, <<2,0,0>> >>       \* a single non-convex pentagon, reflex corner second
    [] sh = "quad"  -> << <<0,0,0>>, <<2,0,0>>, <<2,2,1>>, <<0,2,0>> >>                   \* a single non-planar quadrilateral
MeshTypesOf(sh) == CASE sh = "tet" -> {"poly", "tet"} [] sh = "cube" -> {"poly", "hex"} [] sh = "prism" -> {"poly"}
                     [] sh = "penta" -> {"poly"} [] sh = "quad" -> {"poly"}
(* non-affine positions: every corner of 2 * base moved by a pseudo-random offset in {0,1}^3 (pattern j):   *)
(* quadrilateral faces become non-planar, so that "the first two edges of the halfface" is a real choice     *)
JBit(j, v, i) == ((((j * 131 + v * 31 + i * 7 + (Seed % 1000)) * 7919) % 10007) \div 3) % 2
JitterPos(sh, j) == [v \in 1 .. Len(BaseOf(sh)) |-> [i \in 1 .. 3 |-> 2 * BaseOf(sh)[v][i] + JBit(j, v, i)]]
CaseJ(sh, mt, vt, j) == [k |-> "G", d |-> 3, shape |-> sh, mt |-> mt, vt |-> vt, pos |-> JitterPos(sh, j)]
Row == [1 .. 3 -> MatEntries]
Det(m) == m[1][1] * (m[2][2] * m[3][3] - m[2][3] * m[3][2])
        - m[1][2] * (m[2][1] * m[3][3] - m[2][3] * m[3][1])
        + m[1][3] * (m[2][1] * m[3][2] - m[2][2] * m[3][1])
MatIndex(m) == LET e(i, j) == m[i][j] + 2 IN      \* entries in -2..2 -> a number in base 5 (below 2^21)
   ((((((((e(1,1) * 5 + e(1,2)) * 5 + e(1,3)) * 5 + e(2,1)) * 5 + e(2,2)) * 5 + e(2,3)) * 5 + e(3,1)) * 5 + e(3,2)) * 5) + e(3,3)
MatHash(m) == ((MatIndex(m) % 65521) * 32749) % 65521
Mats == IF "G" \notin GenKinds THEN {}
        ELSE { m \in [1 .. 3 -> Row] : Det(m) # 0 /\ (MatHash(m) + Seed) % Stride = 0 }
Shifts == { <<0, 0, 0>>, <<1, -2, 3>> }
Img(m, t, p) == [i \in 1 .. 3 |-> m[i][1] * p[1] + m[i][2] * p[2] + m[i][3] * p[3] + t[i]]
CaseG(sh, mt, vt, m, t) ==
  [k |-> "G", d |-> 3, shape |-> sh, mt |-> mt, vt |-> vt,
   pos |-> [v \in 1 .. Len(BaseOf(sh)) |-> Img(m, t, BaseOf(sh)[v])]]
CasesJ == IF "G" \notin GenKinds THEN {} ELSE
          UNION { { CaseJ(sh, mt, vt, j) : mt \in MeshTypesOf(sh), vt \in {"d", "f"}, j \in 1 .. Jitters } : sh \in Shapes \ {"tet"} }
CasesG == IF "G" \notin GenKinds THEN {} ELSE CasesJ \cup UNION { { CaseG(sh, mt, vt, m, t) : mt \in MeshTypesOf(sh), vt \in {"d", "f"}, m \in Mats, t \in Shifts } :
                  sh \in Shapes }

(* ------------------ kind X: operands of two different scalar types --------------------- *)
DensOf(t) == IF t \in FloatTypes THEN XDens ELSE {1}
XGroups(tl, tr, a, dl, b, dr) ==
  LET ct == CommonType(tl, tr)
      subUB == tl = "u" /\ ct \in FloatTypes /\ \E i \in 1 .. D : RTrunc(RSub(Rat(a[i], dl), Rat(b[i], dr))) < 0   \* negative double -> unsigned
  IN <<"ring">> \o (IF subUB THEN <<>> ELSE <<"sub">>) \o (IF NoZero(b) THEN <<"div">> ELSE <<>>) \o (IF b[1] # 0 THEN <<"sdiv">> ELSE <<>>)
CaseX(tl, tr, a, dl, b, dr) ==
  [k |-> "X", d |-> D, tl |-> tl, tr |-> tr, a |-> a, dl |-> dl, b |-> b, dr |-> dr, g |-> XGroups(tl, tr, a, dl, b, dr)]
CasesX == IF "X" \notin GenKinds THEN {} ELSE
  UNION { LET C == IF "u" \in {p[1], p[2]} THEN XCompsU ELSE XComps IN
          { CaseX(p[1], p[2], Tup(a), dl, Tup(b), dr) : a \in Vecs(C), b \in Vecs(C), dl \in DensOf(p[1]), dr \in DensOf(p[2]) }
          : p \in {q \in Types \X Types : q[1] # q[2]} }

(* ------------------ kind H: NormalAttrib histories on ONE attribute object -------------- *)
(* [first update; move some vertices and / or add a face; second update] with every ordering of         *)
(* update_vertex_normals (V) / update_face_normals (F); the executor logs the attribute after the       *)
(* history and, as control, a fresh attribute object updated on the final mesh.                         *)
MoveSets(sh) == { {1}, {2, 4}, 1 .. Len(BaseOf(sh)) }                     \* 1-based vertex numbers
ExtraFace(sh) == CASE sh = "cube" -> <<0, 2, 5>> [] sh = "prism" -> <<0, 1, 5>> [] OTHER -> <<>>
CaseH(sh, mt, vt, j, first, second, ms, addf) ==
  LET p1 == JitterPos(sh, j)  p2 == JitterPos(sh, j + 17) IN
  [k |-> "H", d |-> 3, shape |-> sh, mt |-> mt, vt |-> vt, pos |-> p1, first |-> first, second |-> second,
   moves |-> [i \in 1 .. Len(SetToSeq(ms)) |-> <<SetToSeq(ms)[i] - 1>> \o p2[SetToSeq(ms)[i]]],
   addface |-> IF addf /\ mt = "poly" THEN ExtraFace(sh) ELSE <<>>]
CasesH == IF "H" \notin GenKinds THEN {} ELSE
  UNION { { CaseH(sh, mt, vt, j, f, s2, ms, af) : mt \in MeshTypesOf(sh), vt \in {"d", "f"}, j \in 1 .. Histories,
            f \in {"V", "F"}, s2 \in {"V", "F"}, ms \in MoveSets(sh), af \in BOOLEAN } : sh \in {"tet", "cube", "prism"} }

Cases == CasesB \cup CasesS \cup CasesU \cup CasesI \cup CasesW \cup CasesX \cup CasesH

(* ------------- laws of the definitions (checked on every case) --------- *)
LawsB(a, b) ==
  /\ Dot(a, b) = Dot(b, a)
  /\ VAdd(CMin(a, b), CMax(a, b)) = VAdd(a, b)
  /\ ((IF LexLess(a, b) THEN 1 ELSE 0) + (IF a = b THEN 1 ELSE 0) + (IF LexLess(b, a) THEN 1 ELSE 0) = 1)   \* strict total order
  /\ RLeq(L1Norm(VAdd(a, b)), RAdd(L1Norm(a), L1Norm(b)))
  /\ RLeq(L8Norm(a), L1Norm(a)) /\ RLeq(L1Norm(a), RMul(RI(Len(a)), L8Norm(a)))
  /\ RLeq(RMul(Dot(a, b), Dot(a, b)), RMul(SqrNorm(a), SqrNorm(b)))            \* Cauchy-Schwarz
  /\ SqrNorm(VAdd(a, b)) = RAdd(RAdd(SqrNorm(a), SqrNorm(b)), RMul(RI(2), Dot(a, b)))
  /\ (Len(a) = 3 =>
        /\ Cross(a, b) = VNeg(Cross(b, a))
        /\ Dot(a, Cross(a, b)) = RI(0) /\ Dot(b, Cross(a, b)) = RI(0)
        /\ SqrNorm(Cross(a, b)) = RSub(RMul(SqrNorm(a), SqrNorm(b)), RMul(Dot(a, b), Dot(a, b))))   \* Lagrange
LawsU(a) ==
  /\ RLeq(MinC(a), Mean(a)) /\ RLeq(Mean(a), MaxC(a))
  /\ RLeq(RAbs(Mean(a)), MeanAbs(a))
  /\ MaxAbs(a) = RMax(RAbs(MaxC(a)), RAbs(MinC(a)))
  /\ RLeq(MinAbs(a), MaxAbs(a))
  /\ SqrNorm(VNeg(a)) = SqrNorm(a) /\ L1Norm(VNeg(a)) = L1Norm(a)
  /\ (IsZeroVec(a) <=> SqrNorm(a) = RI(0)) /\ (IsZeroVec(a) <=> L1Norm(a) = RI(0))
  /\ LET rt == RSqrt(SqrNorm(a)) IN rt[1] => RMul(rt[2], rt[2]) = SqrNorm(a)
LawsS(a, s) ==
  /\ SqrNorm(VScale(a, s)) = RMul(RMul(s, s), SqrNorm(a))
  /\ L1Norm(VScale(a, s)) = RMul(RAbs(s), L1Norm(a))
  /\ (s # RI(0) => VScale(VSDiv(a, s), s) = a)
Laws(cs) ==
  LET A == VOver(cs.a, cs.den)  B == VOver(cs.b, cs.den)  S == Rat(cs.s, cs.den) IN
  CASE cs.k = "B" -> LawsB(A, B)
    [] cs.k = "S" /\ Abs(cs.s) <= 4 /\ (\A i \in 1 .. Len(cs.a) : Abs(cs.a[i]) <= 4) -> LawsS(A, S)
    [] cs.k = "U" -> LawsU(A)
    [] OTHER -> TRUE
ASSUME U32(-1) = <<65535, 65535>> /\ U32(-65536) = <<65535, 0>> /\ U32(65537) = <<1, 1>> /\ U32(0) = <<0, 0>>
ASSUME TruncDiv(-7, 2) = -3 /\ TruncDiv(7, -2) = -3 /\ TruncDiv(-7, -2) = 3 /\ Rat(6, -4) = <<-3, 2>>
ASSUME RatStr(<<-3, 2>>) = "-1.5" /\ RatStr(<<1, 4>>) = "0.25" /\ RatStr(<<-2, 1>>) = "-2" /\ RatStr(<<0, 1>>) = "0"

(* ------------------------------ behaviour ------------------------------ *)
Init == c \in (Cases \cup CasesG)
Next == UNCHANGED c
Spec == Init /\ [][Next]_c

LawsHold == c.k \notin {"G", "H", "X"} => Laws(c)
EmitCase == PrintT(<<"EMIT", ToJson(c)>>)

(* the table of operations, printed once *)
OpsTable ==
  [k \in Kinds |-> [g \in GroupsOf(k) |-> [t \in Types \cup {"m", "x"} |-> Seqify(OpsFor(k, g, t, D))]]]
ASSUME PrintT(<<"OPS", ToJson([d |-> D, ops |-> OpsTable])>>)
=============================================================================
