------------------------------ MODULE OVMPropsMC ------------------------------
(***************************************************************************)
(* Model checking (role M) and behaviour generation (role G) for the       *)
(* property registry / copy model OVMProps.                                *)
(*                                                                         *)
(* Init is a SET of seed worlds, each built by folding Apply over a script *)
(* of API calls.  Next explores every history whose k-th call is taken     *)
(* from the alphabet of level k (Ops1, Ops2, OpsN for all later levels)    *)
(* with every in-contract argument tuple over the small universe, up to    *)
(* Depth calls.  Every explored step is judged by the declarative layer of *)
(* OVMProps (variable bad; a bad state is not expanded) and printed as a   *)
(* script for replay on the implementation.                                *)
(***************************************************************************)
EXTENDS OVMProps, Json

CONSTANTS NM, NS, NH,      \* meshes, storages (incl. one position storage per mesh), handle slots
          Kinds, Types, Names,   \* universe of the registry keys (Names may contain "")
          MTypes,          \* mesh types for mesh_new
          Depth, SeedIds,
          Ops1, Ops2, OpsN,
          MaxV, MaxE,      \* growth bounds per mesh
          Flavours,        \* API flavours of the creation / lookup calls (0 generic templates, 1 per-kind wrappers, ...)
          Overwrite,       \* creation calls may also assign over bound slot 1
          Check,           \* "C14" | "C13": which oracles judge a step
          Emit             \* "none" | "tree" | "sim"

VARIABLES w, path, org, bad
vars == <<w, path, org, bad>>

(* ------------------------------ call makers ---------------------------- *)
DefOf(t, s) == IF t = "int" THEN (IF s = "" THEN 7 ELSE IF s = "a" THEN 8 ELSE 9)
               ELSE (IF s = "a" THEN 1 ELSE 0)
MTIdx(ty)   == IdxOf(MTypeSeq, ty)
MNew(m, ty) == Call("mesh_new", m, 0, FALSE, <<MTIdx(ty)>>, "")
Cr(op, m, h, k, t, s) == Call(op, m, h, FALSE, <<KindIdx(k), TypeIdx(t), DefOf(t, s)>>, s)
CrF(op, m, h, k, t, s, fl) == Call(op, m, h, FALSE, <<KindIdx(k), TypeIdx(t), DefOf(t, s), fl>>, s)
Fl(op, k) == Flavours \cap ValidFlavours(op, k)
KC(op, m, a, b, l, f) == Call(op, m, 0, f, <<a, b>> \o l, "")
AddV(m)     == KC("add_vertex", m, 0, 0, <<>>, FALSE)
AddE(m, a, b) == KC("add_edge", m, a, b, <<>>, FALSE)
FaceV(m, l) == KC("add_face_v", m, 0, 0, l, FALSE)
SetV(m, v, p) == Call("set_vertex", m, 0, FALSE, <<v, p>>, "")
Wr(h, i, v) == Call("write", 0, h, FALSE, <<i, v>>, "")
HCopy(h1, h2) == Call("h_copy", 0, h1, FALSE, <<h2>>, "")
HDrop(h)    == Call("h_drop", 0, h, FALSE, <<>>, "")
SetPers(m, h, on) == Call("set_persistent", m, h, on, <<>>, "")
MCopy(d, s) == Call("mesh_copy", d, 0, FALSE, <<s>>, "")
MAssign(d, s) == Call("mesh_assign", d, 0, FALSE, <<s>>, "")

(* ------------------------------- seeds --------------------------------- *)
(* one tetrahedron on mesh m: 4 vertices with positions, 4 faces, 1 cell   *)
Tet(m) == << AddV(m), AddV(m), AddV(m), AddV(m),
             SetV(m, 0, 11), SetV(m, 1, 12), SetV(m, 2, 13), SetV(m, 3, 14),
             FaceV(m, <<0, 2, 1>>), FaceV(m, <<0, 1, 3>>), FaceV(m, <<1, 2, 3>>), FaceV(m, <<0, 3, 2>>),
             KC("add_cell", m, 0, 0, <<0, 2, 4, 6>>, TRUE) >>
(* two vertices and an edge *)
Seg(m) == << AddV(m), AddV(m), SetV(m, 0, 21), SetV(m, 1, 22), AddE(m, 0, 1) >>
(* a mix of persistent / shared / private properties with handles on mesh m, slots h, h+1, h+2 *)
Mix(m, h) == << Cr("create_persistent", m, h, "V", "int", "a"), Wr(h, 0, 1),
                Cr("create_shared", m, h + 1, "V", "int", "b"),
                Cr("create_private", m, h + 2, "HE", "bool", "") >>

(* topology of one tetrahedron without positions; a single triangle *)
TetT(m) == << AddV(m), AddV(m), AddV(m), AddV(m),
              FaceV(m, <<0, 2, 1>>), FaceV(m, <<0, 1, 3>>), FaceV(m, <<1, 2, 3>>), FaceV(m, <<0, 3, 2>>),
              KC("add_cell", m, 0, 0, <<0, 2, 4, 6>>, TRUE) >>
Tri(m)  == << AddV(m), AddV(m), AddV(m), FaceV(m, <<0, 1, 2>>) >>

SeedScript(k) ==
  CASE k = 0  -> << MNew(1, "poly") >>
    [] k = 1  -> << MNew(1, "poly"), AddV(1), Cr("create_persistent", 1, 1, "V", "int", "a"),
                    Cr("create_shared", 1, 2, "V", "int", "b"), Cr("create_private", 1, 3, "V", "int", "") >>
    [] k = 2  -> << MNew(1, "poly"), AddV(1), Cr("create_shared", 1, 1, "V", "int", "a"), HCopy(1, 2),
                    MNew(2, "tet"), Cr("create_persistent", 2, 3, "V", "int", "a") >>
    [] k = 3  -> << MNew(1, "hex"), AddV(1), Cr("create_persistent", 1, 1, "V", "int", "a"), HDrop(1),
                    Cr("create_shared", 1, 2, "V", "bool", "a") >>
    [] k = 4  -> << MNew(1, "poly"), AddV(1), Cr("create_persistent", 1, 1, "V", "int", "a"), Wr(1, 0, 1),
                    MCopy(2, 1), Cr("get_property", 2, 2, "V", "int", "a") >>
    [] k = 5  -> << MNew(1, "poly"), AddV(1), AddV(1), AddE(1, 0, 1),
                    Cr("create_shared", 1, 1, "HE", "bool", "a"), Cr("create_persistent", 1, 2, "M", "int", "b"),
                    Cr("create_private", 1, 3, "V", "bool", "a") >>
    [] k = 6  -> << MNew(1, "poly"), Cr("create_shared", 1, 1, "V", "int", "a"),
                    Cr("create_private", 1, 2, "V", "int", "b"), Cr("create_shared", 1, 3, "V", "bool", "b") >>
    (* ---- C13: source mesh 1, target mesh 2 ---- *)
    [] k = 10 -> << MNew(1, "poly") >> \o Seg(1) \o Mix(1, 1) \o << MNew(2, "poly") >>
    [] k = 11 -> << MNew(1, "poly") >> \o Seg(1) \o Mix(1, 1) \o
                 << MNew(2, "poly"), AddV(2), Cr("create_persistent", 2, 4, "V", "int", "a") >>
    [] k = 12 -> << MNew(1, "tet") >> \o Tet(1) \o
                 << KC("delete_vertex", 1, 3, 0, <<>>, FALSE), Cr("create_persistent", 1, 1, "V", "int", "a"), Wr(1, 1, 1),
                    MNew(2, "tet"), AddV(2), AddV(2), Cr("create_shared", 2, 2, "V", "int", "a"), Wr(2, 1, 1),
                    Cr("create_private", 2, 3, "V", "bool", "b") >>
    [] k = 13 -> << MNew(1, "poly") >> \o Seg(1) \o
                 << Cr("create_persistent", 1, 1, "HE", "int", "a"), Wr(1, 1, 1), HDrop(1),
                    Cr("create_persistent", 1, 1, "M", "bool", "b"),
                    MNew(2, "tet") >> \o Tet(2) \o << Cr("create_persistent", 2, 2, "HE", "int", "a"),
                    Cr("create_shared", 2, 3, "V", "int", "b") >>
    [] k = 14 -> << MNew(1, "hex") >> \o Seg(1) \o
                 << KC("enable_deferred", 1, 0, 0, <<>>, FALSE), KC("enable_ebu", 1, 0, 0, <<>>, FALSE),
                    Cr("create_persistent", 1, 1, "V", "bool", "a"), Wr(1, 0, 1),
                    MNew(2, "poly"), AddV(2), Cr("create_persistent", 2, 2, "V", "bool", "a"),
                    Cr("create_private", 2, 3, "V", "int", "a"), MNew(3, "tet") >>
    [] k = 15 -> << MNew(1, "poly") >> \o Seg(1) \o
                 << KC("delete_edge", 1, 0, 0, <<>>, FALSE), Cr("create_persistent", 1, 1, "V", "int", "a"),
                    Call("clear", 1, 0, TRUE, <<>>, ""), AddV(1), SetV(1, 0, 31),
                    Cr("create_persistent", 1, 2, "V", "int", "b"), MNew(2, "poly"), AddV(2), AddV(2), AddV(2),
                    Cr("create_shared", 2, 3, "V", "int", "b") >>
    (* ---- topology-only meshes (no position property) ---- *)
    [] k = 17 -> << MNew(1, "tpoly"), AddV(1), AddV(1), AddE(1, 0, 1) >> \o Mix(1, 1) \o
                 << MNew(2, "tpoly"), AddV(2), Cr("create_persistent", 2, 4, "V", "int", "a") >>
    [] k = 18 -> << MNew(1, "ttet"), AddV(1), AddV(1), AddV(1), AddV(1),
                    FaceV(1, <<0, 2, 1>>), FaceV(1, <<0, 1, 3>>), FaceV(1, <<1, 2, 3>>), FaceV(1, <<0, 3, 2>>),
                    KC("add_cell", 1, 0, 0, <<0, 2, 4, 6>>, TRUE), KC("delete_vertex", 1, 3, 0, <<>>, FALSE),
                    Cr("create_persistent", 1, 1, "V", "int", "a"), Wr(1, 1, 1), Cr("create_shared", 1, 2, "V", "int", "b"),
                    MNew(2, "ttet"), AddV(2), Cr("create_private", 2, 3, "V", "int", "a"),
                    MNew(3, "thex"), AddV(3), Cr("create_persistent", 3, 4, "V", "int", "a") >>
    [] k = 7  -> << MNew(1, "tpoly"), AddV(1), Cr("create_persistent", 1, 1, "V", "int", "a"),
                    Cr("create_shared", 1, 2, "V", "int", "b"), MNew(2, "thex"), Cr("create_shared", 2, 3, "V", "int", "a") >>
    (* ---- handles of EVERY entity kind held on the target (and the source) across an assignment ---- *)
    [] k = 20 -> << MNew(1, "poly") >> \o Tet(1) \o
                 << Cr("create_persistent", 1, 1, "F", "int", "a"), Wr(1, 3, 1), HDrop(1),
                    Cr("create_persistent", 1, 1, "C", "bool", "b"), Wr(1, 0, 1), HDrop(1),
                    Cr("create_persistent", 1, 1, "E", "int", "b"), Wr(1, 5, 1), HDrop(1),
                    MNew(2, "poly") >> \o Seg(2) \o
                 << Cr("create_persistent", 2, 1, "HF", "int", "a"), Cr("create_shared", 2, 2, "F", "int", "b"),
                    Cr("create_private", 2, 3, "C", "bool", ""), Cr("create_persistent", 2, 4, "E", "bool", "a") >>
    [] k = 21 -> << MNew(1, "poly") >> \o Tri(1) \o << MNew(2, "tet") >> \o Tet(2) \o
                 << Cr("create_persistent", 2, 1, "HF", "bool", "a"), Wr(1, 7, 1), Cr("create_shared", 2, 2, "HE", "int", "a"),
                    Cr("create_private", 2, 3, "HF", "int", "b"), Cr("create_persistent", 2, 4, "M", "int", "b") >>
    [] k = 22 -> << MNew(1, "tet") >> \o Tet(1) \o
                 << Cr("create_persistent", 1, 1, "HF", "int", "a"), Wr(1, 7, 1), Cr("create_shared", 1, 2, "F", "int", "b"),
                    MNew(2, "hex"), AddV(2), Cr("create_private", 2, 3, "HF", "int", ""), Cr("create_shared", 2, 4, "C", "int", "a") >>
    [] k = 23 -> << MNew(1, "poly") >> \o Tet(1) \o << KC("delete_face", 1, 0, 0, <<>>, FALSE), MNew(2, "poly") >> \o Tri(2) \o
                 << Cr("create_private", 2, 1, "V", "int", "a"), Cr("create_shared", 2, 2, "E", "int", "a"),
                    Cr("create_persistent", 2, 3, "F", "bool", "a"), Wr(3, 0, 1), Cr("create_shared", 2, 4, "HF", "int", "b"), Wr(4, 1, 1) >>
    [] k = 24 -> << MNew(1, "tpoly") >> \o TetT(1) \o << Cr("create_persistent", 1, 1, "HF", "int", "a"), Wr(1, 7, 1),
                    MNew(2, "tpoly") >> \o Tri(2) \o
                 << Cr("create_persistent", 2, 2, "HF", "int", "b"), Cr("create_private", 2, 3, "C", "int", ""),
                    Cr("create_shared", 2, 4, "F", "bool", "a") >>
    (* ---- one tetrahedron, so that every entity kind has entities: the per-kind API wrappers ---- *)
    [] k = 30 -> << MNew(1, "poly") >> \o Tet(1)
    [] k = 16 -> << MNew(1, "poly") >> \o Seg(1) \o Mix(1, 1) \o << MCopy(2, 1), Cr("get_property", 2, 4, "V", "int", "a") >>

Norm(x) == [x EXCEPT !.ret = "ok", !.busy = {}]
Run(w0, script) == FoldLeft(LAMBDA x, c : Norm(Apply(x, c)), w0, script)

(* ------------------ in-contract argument enumeration ------------------- *)
LiveIdx(del) == {i - 1 : i \in {j \in DOMAIN del : ~del[j]}}
FreeSlots(x) == {h \in DOMAIN x.slot : x.slot[h] = 0}
Targets1(x)  == (IF FreeSlots(x) = {} THEN {} ELSE {Min(FreeSlots(x))})
                \cup (IF Overwrite /\ x.slot[1] # 0 THEN {1} ELSE {})
Room(x, n)   == Cardinality(FreeIds(x)) >= n
DeadMeshes(x) == Meshes(x) \ Alive(x)
UserPers(x, m) == x.mesh[m].pers
UsedKinds(x) == {x.sto[i].kind : i \in {j \in LiveIds(x) : x.sto[j].type # PosType}}
Geo(x)       == {m \in Alive(x) : Geometric(x.mesh[m].ty)}
Attached(x)  == {h \in Bound(x) : x.sto[x.slot[h]].trk # 0}
Ends(n)      == IF n = 0 THEN {} ELSE {0, n - 1}

CallsOf(x, op) ==
  CASE op \in {"request", "create_shared", "create_persistent", "create_private"} ->
         IF ~Room(x, 1) THEN {}
         ELSE UNION {{CrF(op, y[1], y[2], y[3], y[4], y[5], fl) : fl \in Fl(op, y[3])} :
                        y \in Alive(x) \X Targets1(x) \X Kinds \X Types \X Names}
    [] op = "get_property" ->
         UNION {{CrF(op, y[1], y[2], y[3], y[4], y[5], fl) : fl \in Fl(op, y[3])} :
                   y \in Alive(x) \X Targets1(x) \X Kinds \X Types \X Names}
    [] op = "property_exists" ->
         UNION {{CrF(op, y[1], 0, y[2], y[3], y[4], fl) : fl \in Fl(op, y[2])} : y \in Alive(x) \X Kinds \X Types \X Names}
    (* lookups restricted to the entity kinds that carry a user property somewhere *)
    [] op = "get_used" ->
         UNION {{CrF("get_property", y[1], y[2], y[3], y[4], y[5], fl) : fl \in Fl("get_property", y[3])} :
                   y \in Alive(x) \X Targets1(x) \X (Kinds \cap UsedKinds(x)) \X Types \X Names}
    [] op = "exists_used" ->
         UNION {{CrF("property_exists", y[1], 0, y[2], y[3], y[4], fl) : fl \in Fl("property_exists", y[2])} :
                   y \in Alive(x) \X (Kinds \cap UsedKinds(x)) \X Types \X Names}
    [] op \in {"set_shared", "set_persistent"} ->
         {Call(op, x.sto[x.slot[h]].trk, h, on, <<>>, "") : <<h, on>> \in Attached(x) \X BOOLEAN}
    [] op = "set_name" -> {Call(op, 0, h, FALSE, <<>>, s) : <<h, s>> \in Bound(x) \X Names}
    [] op \in {"h_copy", "h_move"} ->
         {Call(op, 0, h, FALSE, <<h2>>, "") : <<h, h2>> \in {y \in Bound(x) \X DOMAIN x.slot : y[1] # y[2]}}
    [] op = "h_drop" -> {HDrop(h) : h \in Bound(x)}
    [] op = "clear_props" -> UNION {{Call(op, y[1], 0, FALSE, <<KindIdx(y[2]), fl>>, "") : fl \in Fl(op, y[2])} : y \in Alive(x) \X Kinds}
    [] op = "clear_all_props" -> {Call(op, m, 0, FALSE, <<>>, "") : m \in Alive(x)}
    [] op = "clear" -> {Call(op, m, 0, f, <<>>, "") : <<m, f>> \in Alive(x) \X BOOLEAN}
    [] op = "write" -> {Wr(h, i, 1) : <<h, i>> \in {y \in Bound(x) \X (0 .. 24) : y[2] \in Ends(Len(x.sto[x.slot[y[1]]].vals))}}
    [] op = "touch" -> {Call(op, 0, h, FALSE, <<>>, "") : h \in Bound(x)}
    [] op = "set_vertex" -> {SetV(m, v, 5) : <<m, v>> \in {y \in Geo(x) \X (0 .. 12) : y[2] \in Ends(x.mesh[y[1]].kern.nv)}}
    [] op = "persist_pos" -> {Call(op, m, 0, f, <<>>, "") : <<m, f>> \in Geo(x) \X BOOLEAN}
    [] op = "pos_handle" -> {Call(op, m, h, FALSE, <<>>, "") : <<m, h>> \in Geo(x) \X Targets1(x)}
    [] op = "mesh_new" -> IF DeadMeshes(x) = {} \/ ~Room(x, 1) THEN {}
                          ELSE {MNew(Min(DeadMeshes(x)), ty) : ty \in MTypes}
    [] op = "mesh_copy" -> IF DeadMeshes(x) = {} THEN {}
                           ELSE {MCopy(Min(DeadMeshes(x)), s) : s \in {m \in Alive(x) : Room(x, Cardinality(x.mesh[m].pers) + 1)}}
    [] op = "mesh_assign" -> {MAssign(d, s) : <<d, s>> \in {y \in Alive(x) \X Alive(x) :
                                 Assignable(x.mesh[y[1]].ty, x.mesh[y[2]].ty) /\ Room(x, Cardinality(x.mesh[y[2]].pers) + 1)}}
    [] op = "mesh_assign_other" -> {MAssign(d, s) : <<d, s>> \in {y \in Alive(x) \X Alive(x) :
                                        y[1] # y[2] /\ Assignable(x.mesh[y[1]].ty, x.mesh[y[2]].ty)
                                        /\ Room(x, Cardinality(x.mesh[y[2]].pers) + 1)}}
    [] op = "mesh_destroy" -> {Call(op, m, 0, FALSE, <<>>, "") : m \in Alive(x)}
    [] op = "teardown" -> {Call(op, 0, 0, f, <<>>, "") : f \in BOOLEAN}
    [] op = "add_vertex" -> {AddV(m) : m \in {y \in Alive(x) : x.mesh[y].kern.nv < MaxV}}
    [] op = "add_edge" ->
         {AddE(m, a, b) : <<m, a, b>> \in {y \in Alive(x) \X (0 .. MaxV) \X (0 .. MaxV) :
             LET k == x.mesh[y[1]].kern IN
             /\ Len(k.edges) < MaxE /\ y[2] < y[3] /\ y[2] \in LiveIdx(k.vdel) /\ y[3] \in LiveIdx(k.vdel)}}
    [] op = "delete_vertex" -> {KC(op, m, v, 0, <<>>, FALSE) : <<m, v>> \in {y \in Alive(x) \X (0 .. 12) : y[2] \in LiveIdx(x.mesh[y[1]].kern.vdel)}}
    [] op = "delete_edge"   -> {KC(op, m, e, 0, <<>>, FALSE) : <<m, e>> \in {y \in Alive(x) \X (0 .. 12) : y[2] \in LiveIdx(x.mesh[y[1]].kern.edel)}}
    [] op = "delete_face"   -> {KC(op, m, e, 0, <<>>, FALSE) : <<m, e>> \in {y \in Alive(x) \X (0 .. 12) : y[2] \in LiveIdx(x.mesh[y[1]].kern.fdel)}}
    [] op = "delete_cell"   -> {KC(op, m, e, 0, <<>>, FALSE) : <<m, e>> \in {y \in Alive(x) \X (0 .. 12) : y[2] \in LiveIdx(x.mesh[y[1]].kern.cdel)}}
    [] op = "collect_garbage" -> {KC(op, m, 0, 0, <<>>, FALSE) : m \in Alive(x)}
    [] op \in {"enable_deferred", "enable_fast", "enable_vbu", "enable_ebu", "enable_fbu"} ->
         {KC(op, m, 0, 0, <<>>, f) : <<m, f>> \in Alive(x) \X BOOLEAN}

Canon(c) == IF c.op = "mesh_assign_other" THEN [c EXCEPT !.op = "mesh_assign"] ELSE c
Calls(x, ops) == UNION {CallsOf(x, op) : op \in ops}

(* ----------------- the model judged by the oracles --------------------- *)
ModelCheck(pre, c, post) ==
  IF post.err # "" THEN "NoUB:" \o post.err
  ELSE LET p == Complete(pre)  q == Complete(post) IN
       IF Check = "C14"
       THEN LET i == InvC14(q) IN
            IF i # "" THEN "C14:" \o i
            ELSE IF ~RelC14(p, q, c, post.ret) THEN "C14:Rel:" \o c.op
            ELSE ""
       ELSE LET i == InvC13(q)  r == RelC13(p, q, c, post.ret) IN
            IF i # "" THEN "C13:" \o i
            ELSE IF r # "" THEN "C13:Copy:" \o r
            ELSE IF ~Independence(p, q, c) THEN "C13:Independence"
            ELSE ""

(* ------------------------------ behaviour ------------------------------ *)
Init ==
  \E k \in SeedIds :
     /\ org = [key |-> <<k>>, script |-> SeedScript(k)]
     /\ w = Run(EmptyWorld(NM, NS, NH), org.script)
     /\ path = <<>> /\ bad = ""

OpsAt(lv) == IF lv = 1 THEN Ops1 ELSE IF lv = 2 THEN Ops2 ELSE OpsN

Step(c) ==
  LET m == Apply(w, c) IN
  /\ w' = [Norm(m) EXCEPT !.err = ""]
  /\ path' = Append(path, c)
  /\ bad' = ModelCheck(w, c, m)
  /\ UNCHANGED org

Next ==
  /\ bad = "" /\ Len(path) < Depth
  /\ \E c \in Calls(w, OpsAt(Len(path) + 1)) : Step(Canon(c))

Spec == Init /\ [][Next]_vars

SimNext ==
  /\ bad = "" /\ Len(path) < Depth - 1
  /\ LET cs == Calls(w, Ops1 \cup Ops2 \cup OpsN) IN
     cs # {} /\ \E c \in {RandomElement(cs)} : Step(Canon(c))
SimSpec == Init /\ [][SimNext]_vars

(* the API flavour of the last call is part of the view: the follow-up of a    *)
(* wrapper call is explored even though its world equals the generic call's   *)
View == <<w, bad, Len(path), IF path = <<>> THEN 0 ELSE Flavour(path[Len(path)])>>

EmitStep ==
  CASE Emit = "tree" ->
         /\ (path = <<>> => PrintT(<<"ORG", ToJson([key |-> org.key, script |-> org.script])>>))
         /\ PrintT(<<"EMIT", ToJson([key |-> org.key, path |-> path', bad |-> bad'])>>)
    [] OTHER -> TRUE

SimEmit == (Emit = "sim" /\ (Len(path) = Depth - 2 \/ bad # "")) =>
              PrintT(<<"SIM", ToJson([key |-> org.key, script |-> org.script, path |-> path, bad |-> bad])>>)

(* the seeds themselves satisfy every state predicate and ran into no UB    *)
SeedOK == (path = <<>>) => (w.err = "" /\ InvC14(Complete(w)) = "" /\ InvC13(Complete(w)) = "")
=============================================================================
