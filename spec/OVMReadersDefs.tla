---------------------------- MODULE OVMReadersDefs ----------------------------
(***************************************************************************)
(* Definitions shared by the C20 modules: the mesh record as the executor  *)
(* logs it, the sequential definition Eval of a core of the const-query    *)
(* alphabet, and the alphabet itself (every const query with every         *)
(* in-contract argument over the live entities of a mesh).                 *)
(***************************************************************************)
EXTENDS Integers, Sequences, FiniteSets, TLC, SequencesExt

(* --------------------------- the mesh record --------------------------- *)
(* M is the projection logged by the executor:                             *)
(*   M.st   definitions, flags, counters, caches (harness/ovm_state.hh)     *)
(*   M.pos  integer vertex positions        M.rp  reader property vectors  *)
At(s, h) == s[h + 1]
NV(M) == M.st.nv
NE(M) == Len(M.st.edges)
NF(M) == Len(M.st.faces)
NC(M) == Len(M.st.cells)
LiveV(M) == {v \in 0 .. (NV(M) - 1) : ~At(M.st.vdel, v)}
LiveE(M) == {e \in 0 .. (NE(M) - 1) : ~At(M.st.edel, e)}
LiveF(M) == {f \in 0 .. (NF(M) - 1) : ~At(M.st.fdel, f)}
LiveC(M) == {c \in 0 .. (NC(M) - 1) : ~At(M.st.cdel, c)}
LiveHE(M) == {h \in 0 .. (2 * NE(M) - 1) : ~At(M.st.edel, h \div 2)}
LiveHF(M) == {h \in 0 .. (2 * NF(M) - 1) : ~At(M.st.fdel, h \div 2)}
Opp(h) == IF h % 2 = 0 THEN h + 1 ELSE h - 1
From(M, h) == At(M.st.edges, h \div 2)[(h % 2) + 1]
To(M, h)   == At(M.st.edges, h \div 2)[2 - (h % 2)]
Rev(s) == [i \in 1 .. Len(s) |-> s[Len(s) + 1 - i]]
HFHes(M, hf) == LET hes == At(M.st.faces, hf \div 2) IN
                IF hf % 2 = 0 THEN hes ELSE [i \in 1 .. Len(hes) |-> Opp(Rev(hes)[i])]
HFVs(M, hf) == LET hes == HFHes(M, hf) IN [i \in 1 .. Len(hes) |-> From(M, hes[i])]
Rng(s) == {s[i] : i \in 1 .. Len(s)}
CellsOf(M, hf) == {c \in LiveC(M) : hf \in Rng(At(M.st.cells, c))}
IncCell(M, hf) == IF CellsOf(M, hf) = {} THEN -1 ELSE CHOOSE c \in CellsOf(M, hf) : TRUE
Sorted(S) == SortSeq(SetToSeq(S), LAMBDA x, y : x < y)
RECURSIVE Flat(_)
Flat(ss) == IF ss = <<>> THEN <<>> ELSE Head(ss) \o Flat(Tail(ss))
RECURSIVE Times(_, _)
Times(s, n) == IF n <= 0 THEN <<>> ELSE s \o Times(s, n - 1)
B(x) == IF x THEN 1 ELSE 0
Count(s, x) == Cardinality({i \in 1 .. Len(s) : s[i] = x})

(* ------------------------------- queries ------------------------------- *)
Q(op, a, b, c, l) == [op |-> op, a |-> a, b |-> b, c |-> c, l |-> l]
Q1(op, a) == Q(op, a, 0, 0, <<>>)
Q2(op, a, b) == Q(op, a, b, 0, <<>>)

(* the sequential definition of a core of the alphabet.  An answer is a    *)
(* sequence; where the implementation documents no order the definition is *)
(* a bag, and a lookup may return any matching entity.                     *)
Sq(v) == [kind |-> "seq", val |-> v]
Bg(v) == [kind |-> "bag", val |-> v]
OneOf(S) == [kind |-> "oneof", val |-> S]
Laps(q) == IF q.b > 0 THEN q.b ELSE 1

ModelledOps ==
  {"counts", "it_v", "it_e", "it_he", "it_f", "it_hf", "it_c", "it_v2", "it_c2",
   "edge", "halfedge", "from_to", "he_verts", "face", "halfface", "opp_hf", "cell", "e_verts", "f_hfs",
   "hfhe", "hfv", "hfe", "fv", "fhe", "fe", "chf", "cf", "che", "cv", "ce",
   "voh", "vih", "vv", "ve", "hehf",
   "val_v", "val_e", "val_f", "val_c", "bnd_hf", "bnd_f", "inc_cell", "hf_verts", "n_verts_in_cell",
   "del_v", "del_e", "del_he", "del_f", "del_hf", "del_c", "find_he",
   "pos", "p_vi", "p_ed", "p_heb", "p_fs", "p_cb", "p_mi", "pc_vi", "pc_fs", "p_all_vi", "p_all_cb"}

Eval(M, q) ==
  LET S == M.st  a == q.a  op == q.op  n == Laps(q)
      EdgesOf(hes) == [i \in 1 .. Len(hes) |-> hes[i] \div 2]
      OutDef(v) == Flat([k \in 1 .. NE(M) |-> IF At(S.edel, k - 1) THEN <<>>
                          ELSE (IF S.edges[k][1] = v THEN <<2 * (k - 1)>> ELSE <<>>) \o (IF S.edges[k][2] = v THEN <<2 * (k - 1) + 1>> ELSE <<>>)])
      HFsOfHE(h) == Flat([k \in 1 .. (2 * NF(M)) |-> IF At(S.fdel, (k - 1) \div 2) THEN <<>> ELSE Times(<<k - 1>>, Count(HFHes(M, k - 1), h))])
      CellHes(c) == Flat([k \in 1 .. Len(At(S.cells, c)) |-> HFHes(M, At(S.cells, c)[k])])
  IN
  CASE op = "counts" -> Sq(<<NV(M), NE(M), 2 * NE(M), NF(M), 2 * NF(M), NC(M), NV(M) - S.ndv, NE(M) - S.nde, NF(M) - S.ndf, NC(M) - S.ndc,
                            S.genus, B(S.needs_gc)>>)
    [] op \in {"it_v", "it_v2"} -> Sq(Sorted(LiveV(M)))
    [] op = "it_e" -> Sq(Sorted(LiveE(M)))
    [] op = "it_he" -> Sq(Sorted(LiveHE(M)))
    [] op = "it_f" -> Sq(Sorted(LiveF(M)))
    [] op = "it_hf" -> Sq(Sorted(LiveHF(M)))
    [] op \in {"it_c", "it_c2"} -> Sq(Sorted(LiveC(M)))
    [] op = "edge" -> Sq(At(S.edges, a))
    [] op \in {"halfedge", "from_to", "he_verts"} -> Sq(<<From(M, a), To(M, a)>>)
    [] op = "face" -> Sq(At(S.faces, a))
    [] op = "halfface" -> Sq(HFHes(M, a))
    [] op = "opp_hf" -> Sq(HFHes(M, Opp(a)))
    [] op = "cell" -> Sq(At(S.cells, a))
    [] op = "e_verts" -> Sq(At(S.edges, a) \o <<2 * a, 2 * a + 1>>)
    [] op = "f_hfs" -> Sq(<<2 * a, 2 * a + 1, IncCell(M, 2 * a), IncCell(M, 2 * a + 1)>>)
    [] op = "hfhe" -> Sq(Times(HFHes(M, a), n))
    [] op = "hfv" -> Sq(Times(HFVs(M, a), n))
    [] op = "hfe" -> Sq(Times(EdgesOf(HFHes(M, a)), n))
    [] op = "fhe" -> Sq(Times(HFHes(M, 2 * a), n))
    [] op = "fv" -> Sq(Times(HFVs(M, 2 * a), n))
    [] op = "fe" -> Sq(Times(EdgesOf(HFHes(M, 2 * a)), n))
    [] op = "chf" -> Sq(Times(At(S.cells, a), n))
    [] op = "cf" -> Sq(Times([k \in 1 .. Len(At(S.cells, a)) |-> At(S.cells, a)[k] \div 2], n))
    [] op = "che" -> Sq(Times(CellHes(a), n))
    [] op = "cv" -> Sq(Times(Sorted({From(M, h) : h \in Rng(CellHes(a))}), n))
    [] op = "ce" -> Sq(Times(Sorted({h \div 2 : h \in Rng(CellHes(a))}), n))
    [] op = "voh" -> Bg(Times(OutDef(a), n))
    [] op = "vih" -> Bg(Times([k \in 1 .. Len(OutDef(a)) |-> Opp(OutDef(a)[k])], n))
    [] op = "vv" -> Bg(Times([k \in 1 .. Len(OutDef(a)) |-> To(M, OutDef(a)[k])], n))
    [] op = "ve" -> Bg(Times([k \in 1 .. Len(OutDef(a)) |-> OutDef(a)[k] \div 2], n))
    [] op = "hehf" -> Bg(Times(HFsOfHE(a), n))
    [] op = "val_v" -> Sq(<<Len(OutDef(a))>>)
    [] op = "val_e" -> Sq(<<Len(HFsOfHE(2 * a))>>)
    [] op = "val_f" -> Sq(<<Len(At(S.faces, a))>>)
    [] op = "val_c" -> Sq(<<Len(At(S.cells, a))>>)
    [] op = "bnd_hf" -> Sq(<<B(IncCell(M, a) = -1)>>)
    [] op = "bnd_f" -> Sq(<<B(IncCell(M, 2 * a) = -1 \/ IncCell(M, 2 * a + 1) = -1)>>)
    [] op = "inc_cell" -> Sq(<<IncCell(M, a)>>)
    [] op = "hf_verts" -> Sq(HFVs(M, a))
    [] op = "n_verts_in_cell" -> Sq(<<Cardinality({From(M, h) : h \in Rng(CellHes(a))})>>)
    [] op = "del_v" -> Sq(<<B(At(S.vdel, a)), 1>>)
    [] op = "del_e" -> Sq(<<B(At(S.edel, a)), 1>>)
    [] op = "del_he" -> Sq(<<B(At(S.edel, a \div 2))>>)
    [] op = "del_f" -> Sq(<<B(At(S.fdel, a)), 1>>)
    [] op = "del_hf" -> Sq(<<B(At(S.fdel, a \div 2))>>)
    [] op = "del_c" -> Sq(<<B(At(S.cdel, a)), 1>>)
    [] op = "find_he" -> IF S.vbu THEN OneOf({h \in LiveHE(M) : From(M, h) = q.a /\ To(M, h) = q.b})
                         ELSE Sq(<<-1>>)        \* the lookup walks the outgoing halfedges: without vertex incidences it finds nothing
    [] op = "pos" -> Sq([k \in 1 .. 3 |-> ToString(At(M.pos, a)[k])])
    [] op = "p_vi" -> Sq(<<At(M.rp.vi, a)>>)
    [] op = "p_ed" -> Sq(<<At(M.rp.ed, a)>>)
    [] op = "p_heb" -> Sq(<<At(M.rp.heb, a)>>)
    [] op = "p_fs" -> Sq(<<At(M.rp.fs, a)>>)
    [] op = "p_cb" -> Sq(<<At(M.rp.cb, a)>>)
    [] op = "p_mi" -> Sq(<<M.rp.mi[1]>>)
    [] op = "pc_vi" -> Sq(<<At(M.rp.vi, a), Len(M.rp.vi)>>)
    [] op = "pc_fs" -> Sq(<<At(M.rp.fs, a)>>)
    [] op = "p_all_vi" -> Sq(M.rp.vi)
    [] op = "p_all_cb" -> Sq(M.rp.cb)

SameBag(s, t) == Len(s) = Len(t) /\ \A x \in Rng(s) \cup Rng(t) : Count(s, x) = Count(t, x)
Matches(ans, ev) ==
  CASE ev.kind = "seq" -> ans = ev.val
    [] ev.kind = "bag" -> SameBag(ans, ev.val)
    [] ev.kind = "oneof" -> Len(ans) = 1 /\ (IF ev.val = {} THEN ans[1] = -1 ELSE ans[1] \in ev.val)

(* query kinds every mesh's alphabet must contain (all lookups, every      *)
(* circulator kind, the geometric queries that use circulators)            *)
RequiredOps ==
  {"find_he", "find_hf", "find_hf_ext", "find_hf_he", "find_he_in_cell", "find_hf_in_cell",
   "vv", "voh", "vih", "ve", "vhf", "vf", "vc", "hehf", "hef", "hec", "ehf", "ef", "ec", "hfhe", "hfe", "hfv",
   "fv", "fhe", "fe", "cv", "cv_r", "che", "ce", "chf", "cf", "cc", "bhfhf", "bary_c", "bary_f", "normal",
   "it_v", "it_e", "it_he", "it_f", "it_hf", "it_c", "bit_v", "bit_he", "bit_e", "bit_hf", "bit_f", "bit_c",
   "halfface", "opp_hf", "next_he", "prev_he", "adj_hf", "n_verts_in_cell", "hf_verts"}

(* ------------------------------ the alphabet --------------------------- *)
(* every const query with every in-contract argument over the live         *)
(* entities of M (mtype: "poly" | "tet" | "hex")                           *)
Over(S, F(_)) == LET s == Sorted(S) IN Flat([i \in 1 .. Len(s) |-> F(s[i])])
Ops1(ops, x) == [i \in 1 .. Len(ops) |-> Q1(ops[i], x)]

(* queries that need the vertex / edge / face bottom-up incidences; on a mesh with a kind disabled the  *)
(* alphabet keeps only the queries that are defined without it (entity iterators, definitions, downward    *)
(* circulators, handle algebra, flags, valence of faces / cells, geometry, property reads, and the         *)
(* lookups, which then find nothing)                                                                       *)
NeedV == {"vv", "voh", "vih", "ve", "vhf", "vf", "vc", "vc_r", "vv_r", "voh_r", "vih_r", "ve_r", "vhf_r", "vf_r", "bnd_v", "val_v", "bit_v"}
NeedE == {"vhf", "vf", "vc", "vc_r", "vhf_r", "vf_r", "hehf", "hef", "hec", "ehf", "ef", "ec", "hehf_r", "hef_r", "hec_r", "ehf_r", "ef_r", "ec_r",
          "bnd_v", "bnd_e", "bnd_he", "val_e", "bit_v", "bit_he", "bit_e", "bhfhf", "bhfhf_r", "find_hf_in_cell"}
NeedF == {"vf", "vc", "vc_r", "vf_r", "hec", "ec", "hec_r", "ec_r", "bnd_v", "bnd_e", "bnd_he", "bnd_f", "bnd_hf", "bnd_c",
          "bit_v", "bit_he", "bit_e", "bit_hf", "bit_f", "bit_c", "inc_cell", "f_hfs", "cc", "cc_r", "adj_hf", "bhfhf", "bhfhf_r", "find_hf_in_cell"}
Allowed(M, mtype, op) ==
  /\ (op \in NeedV => M.st.vbu) /\ (op \in NeedE => M.st.ebu) /\ (op \in NeedF => M.st.fbu)
  /\ (mtype # "poly" => M.st.vbu /\ M.st.ebu /\ M.st.fbu)          \* the specialised kernels need all incidences

AlphabetFull(M, mtype) ==
  LET S == M.st
      hasCell(hf) == IncCell(M, hf) # -1
      big(hf) == Len(HFHes(M, hf)) >= 3
      globals == Ops1(<<"counts", "it_v", "it_e", "it_he", "it_f", "it_hf", "it_c", "it_v2", "it_c2",
                        "bit_v", "bit_he", "bit_e", "bit_hf", "bit_f", "bit_c", "p_mi", "p_all_vi", "p_all_cb", "p_meta", "p_exists",
                        "flags", "vpos_all", "it_e2", "it_he2", "it_f2", "it_hf2", "it_c3", "it_v3", "it_e3", "it_he3", "it_f3", "it_hf3">>, 0)
      MinOf(T) == CHOOSE x \in T : \A y \in T : x <= y
      \* the range forms (begin / end pair) of the circulators, on the first live entity of each kind
      ranges == (IF LiveV(M) = {} THEN <<>> ELSE Ops1(<<"vv_r", "voh_r", "vih_r", "ve_r", "vhf_r", "vf_r", "p_get">>, MinOf(LiveV(M))))
                \o (IF LiveE(M) = {} THEN <<>> ELSE Ops1(<<"ehf_r", "ef_r", "ec_r">>, MinOf(LiveE(M))) \o Ops1(<<"hehf_r", "hef_r", "hec_r">>, 2 * MinOf(LiveE(M)) + 1))
                \o (IF LiveF(M) = {} THEN <<>> ELSE Ops1(<<"fv_r", "fhe_r", "fe_r">>, MinOf(LiveF(M))) \o Ops1(<<"hfhe_r", "hfe_r", "hfv_r">>, 2 * MinOf(LiveF(M)) + 1))
                \o (IF LiveC(M) = {} THEN <<>> ELSE Ops1(<<"che_r", "ce_r", "chf_r", "cf_r">>, MinOf(LiveC(M)))
                                                    \o (IF mtype = "tet" THEN <<Q1("tet_tv_r", MinOf(LiveC(M)))>> ELSE <<>>)
                                                    \o (IF mtype = "hex" THEN <<Q1("hex_hv_r", MinOf(LiveC(M))), Q2("hex_csc_r", MinOf(LiveC(M)), 2)>> ELSE <<>>))
                \o (LET bh == {h \in LiveHF(M) : IncCell(M, h) = -1} IN IF bh = {} THEN <<>> ELSE <<Q1("bhfhf_r", MinOf(bh))>>)
                \o (LET ih == {h \in LiveHF(M) : IncCell(M, h) # -1} IN IF mtype = "hex" /\ ih # {} THEN <<Q1("hex_hfshf_r", MinOf(ih))>> ELSE <<>>)
      perV(v) == Ops1(<<"vv", "voh", "vih", "ve", "vhf", "vf", "vc", "vc_r", "bnd_v", "val_v", "del_v", "pos", "p_vi", "pc_vi">>, v)
                 \o <<Q2("vv", v, 2), Q2("voh", v, 2), Q2("vc", v, 3)>>
                 \o <<Q2("find_he", v, v)>> \o (IF ((v + 2) % NV(M)) \in LiveV(M) THEN <<Q2("find_he", v, (v + 2) % NV(M))>> ELSE <<>>)
      perE(e) == Ops1(<<"edge", "e_verts", "ehf", "ef", "ec", "bnd_e", "val_e", "del_e", "len_e", "bary_e", "p_ed">>, e)
      perHE(h) == Ops1(<<"halfedge", "from_to", "he_verts", "opp_he", "hehf", "hef", "hec", "bnd_he", "del_he", "vec_he", "p_heb">>, h)
                  \o <<Q2("hehf", h, 2), Q2("find_he", From(M, h), To(M, h))>>
      perF(f) == Ops1(<<"face", "f_hfs", "fv", "fhe", "fe", "bnd_f", "val_f", "del_f", "bary_f", "p_fs", "pc_fs">>, f)
                 \o <<Q2("is_incident", f, HFHes(M, 2 * f)[1] \div 2), Q2("is_incident", f, 0)>>
      perHF(h) == LET hes == HFHes(M, h)  vs == HFVs(M, h) IN
                  Ops1(<<"halfface", "opp_hf", "hfhe", "hfe", "hfv", "bnd_hf", "del_hf", "inc_cell", "hf_verts", "p_hfv">>, h)
                  \o <<Q2("hfv", h, 2), Q2("next_he", hes[1], h), Q2("prev_he", hes[1], h),
                       Q2("hf_verts_v", h, vs[Len(vs)]), Q2("hf_verts_he", h, hes[Len(hes)]),
                       Q("find_hf_he", 0, 0, 0, hes)>>
                  \o (IF big(h) THEN <<Q1("normal", h), Q("find_hf", 0, 0, 0, vs), Q("find_hf_ext", 0, 0, 0, vs),
                                        Q("find_hf_ext", 0, 0, 0, <<vs[2], vs[1], vs[3]>>)>> ELSE <<>>)
                  \o (IF hasCell(h) THEN <<Q2("adj_hf", h, hes[1]), Q("find_hf_in_cell", 0, 0, IncCell(M, h), vs),
                                           Q("find_he_in_cell", From(M, hes[1]), To(M, hes[1]), IncCell(M, h), <<>>)>>
                                    ELSE <<Q1("bhfhf", h)>>)
                  \o (IF mtype = "tet" /\ hasCell(h) THEN <<Q1("tet_cv_hf", h), Q1("tet_opp_v", h), Q2("tet_cv_hf_he", h, hes[1])>> ELSE <<>>)
                  \o (IF mtype = "hex" /\ hasCell(h)
                        THEN <<Q2("hex_opp", h, IncCell(M, h)), Q2("hex_orient", h, IncCell(M, h)), Q1("hex_hfshf", h), Q2("hex_adj_sheet", h, hes[1])>>
                        ELSE <<>>)
                  \o (IF mtype = "hex" /\ ~hasCell(h) THEN <<Q2("hex_adj_surf", h, hes[1]), Q2("hex_neigh_out", h, hes[1])>> ELSE <<>>)
      perC(c) == LET hfs == At(S.cells, c)  v1 == HFVs(M, hfs[1])[1] IN
                 Ops1(<<"cell", "cv", "cv_r", "che", "ce", "chf", "cf", "cc", "cc_r", "bnd_c", "val_c", "del_c", "bary_c", "p_cb", "n_verts_in_cell">>, c)
                 \o <<Q2("chf", c, 2), Q2("cv", c, 2)>>
                 \o (IF mtype = "tet" THEN <<Q1("tet_cv", c), Q2("tet_cv_v", c, v1), Q2("tet_opp_hf", c, v1), Q1("tet_tv", c), Q2("tet_tv", c, 2)>> ELSE <<>>)
                 \o (IF mtype = "hex" THEN <<Q1("hex_dirs", c), Q1("hex_hv", c)>> \o [d \in 1 .. 6 |-> Q2("hex_csc", c, d - 1)] \o [d \in 1 .. 6 |-> Q2("hex_oriented", c, d - 1)] ELSE <<>>)
      deleted == Over((0 .. (NV(M) - 1)) \ LiveV(M), LAMBDA v : <<Q1("del_v", v)>>)
                 \o Over((0 .. (NE(M) - 1)) \ LiveE(M), LAMBDA e : <<Q1("del_e", e), Q1("del_he", 2 * e + 1)>>)
                 \o Over((0 .. (NF(M) - 1)) \ LiveF(M), LAMBDA f : <<Q1("del_f", f), Q1("del_hf", 2 * f)>>)
                 \o Over((0 .. (NC(M) - 1)) \ LiveC(M), LAMBDA c : <<Q1("del_c", c)>>)
  IN globals \o ranges \o Over(LiveV(M), perV) \o Over(LiveE(M), perE) \o Over(LiveHE(M), perHE)
     \o Over(LiveF(M), perF) \o Over(LiveHF(M), perHF) \o Over(LiveC(M), perC) \o deleted

Alphabet(M, mtype) == SelectSeq(AlphabetFull(M, mtype), LAMBDA q : Allowed(M, mtype, q.op))

=============================================================================
