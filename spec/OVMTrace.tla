------------------------------- MODULE OVMTrace -------------------------------
(***************************************************************************)
(* Trace validation (role V): consumes an ndjson trace recorded from the   *)
(* C++ implementation (harness/ovm_exec) and evaluates, at every line, the *)
(* declarative layer of OVMKernelDefs on the OBSERVED states:              *)
(*   - state predicates on every observed post state,                      *)
(*   - step relations on every observed (pre, call, post, result),         *)
(*   - and compares the observed post state with the operational model     *)
(*     Apply(pre, call) (a difference is reported as DRIFT, not as a       *)
(*     violation: the property decides, not the model).                    *)
(* The trace spec is total: it always consumes the next line; failed       *)
(* checks are printed as VXBAD lines and counted.                          *)
(* One file holds many executions, separated by {"e":"reset"} lines.       *)
(***************************************************************************)
EXTENDS OVMQueries, Json, IOUtils

CONSTANTS Props     \* the property ids whose oracles are evaluated, e.g. {"C01","C02"}

Tr == ndJsonDeserialize(IOEnv.TRACE)

VARIABLES l, nbad, ndrift, taint, nchk
tvars == <<l, nbad, ndrift, taint, nchk>>

Has(rec, f) == f \in DOMAIN rec

(* observed JSON state -> model record (ghosts set to identity)            *)
Obs(p) ==
  Tag([Empty EXCEPT
     !.nv = p.nv, !.vdel = p.vdel, !.edel = p.edel, !.fdel = p.fdel, !.cdel = p.cdel,
     !.ndv = p.ndv, !.nde = p.nde, !.ndf = p.ndf, !.ndc = p.ndc,
     !.edges = p.edges, !.faces = p.faces, !.cells = p.cells,
     !.vbu = p.vbu, !.ebu = p.ebu, !.fbu = p.fbu, !.deferred = p.deferred, !.fast = p.fast,
     !.out = IF Has(p, "out") THEN p.out ELSE <<>>,
     !.hehf = IF Has(p, "hehf") THEN p.hehf ELSE <<>>,
     !.inc = IF Has(p, "inc") THEN p.inc ELSE <<>>])

(* what the model and an observation are compared on (drift)               *)
Strip(s) == [s EXCEPT !.pV = <<>>, !.pE = <<>>, !.pHE = <<>>, !.pF = <<>>, !.pHF = <<>>, !.pC = <<>>,
                      !.gV = <<>>, !.gE = <<>>, !.gF = <<>>, !.gC = <<>>,
                      !.idV = 0, !.idE = 0, !.idF = 0, !.idC = 0, !.ret = Void, !.err = ""]

(* ---- slot map from the executor's id properties (a CANDIDATE that is    *)
(* checked, never trusted: it travels through the property system)        *)
IdVals(p, k) ==
  LET cands == {i \in DOMAIN p.props : p.props[i].k = k /\ p.props[i].t = "id"} IN
  IF cands = {} THEN <<>> ELSE p.props[CHOOSE i \in cands : TRUE].v
HintSeq(before, after) ==
  [j \in 1 .. Len(after) |->
     LET c == {i \in DOMAIN before : before[i] = after[j]} IN
     IF c = {} THEN Len(before) + j ELSE (CHOOSE i \in c : TRUE) - 1]
HintMap(pp, qp) ==
  [V |-> HintSeq(IdVals(pp, "V"), IdVals(qp, "V")), E |-> HintSeq(IdVals(pp, "E"), IdVals(qp, "E")),
   F |-> HintSeq(IdVals(pp, "F"), IdVals(qp, "F")), C |-> HintSeq(IdVals(pp, "C"), IdVals(qp, "C"))]

IsKernelOp(c) == c.op \notin {"stamp", "more_props"}
IsKernelCallKnown(c) == TRUE

(* the slot map a call induces where the property leaves it open           *)
Renumbers(pre, c) == IsDelete(c) \/ IsGC(pre, c) \/ c.op = "status_gc"

(* all tracked properties follow the map g                                 *)
PropsFollow(pre, post, pp, qp, g, allSlots) ==
  /\ Len(qp.props) = Len(pp.props)
  /\ \A i \in DOMAIN pp.props :
        LET P == pp.props[i]  Q == qp.props[i] IN
        /\ Q.k = P.k /\ Q.d = P.d
        /\ PropFollows(pre, post, g, P.k, P.v, Q.v, P.d, allSlots)

(* twin run with all incidences on: same core, handle for handle (C12)     *)
CoreOfJson(p) ==
  [nv |-> p.nv, vdel |-> p.vdel, edel |-> p.edel, fdel |-> p.fdel, cdel |-> p.cdel,
   ndv |-> p.ndv, nde |-> p.nde, ndf |-> p.ndf, ndc |-> p.ndc,
   edges |-> [i \in 1 .. Len(p.edges) |-> IF p.edel[i] THEN <<>> ELSE p.edges[i]],
   faces |-> [i \in 1 .. Len(p.faces) |-> IF p.fdel[i] THEN <<>> ELSE p.faces[i]],
   cells |-> [i \in 1 .. Len(p.cells) |-> IF p.cdel[i] THEN <<>> ELSE p.cells[i]],
   deferred |-> p.deferred, fast |-> p.fast,
   props |-> IF Has(p, "props") THEN [i \in DOMAIN p.props |-> p.props[i].v] ELSE <<>>]

(* The twin comparison (C12) is not asserted where the answer is not        *)
(* determined: add_edge / add_face(vertices) between vertices joined by     *)
(* several parallel live edges may legitimately return any of them (the     *)
(* incidence-guided and the scanning search visit them in different order), *)
(* and once the two runs have diverged this way the rest is not compared.   *)
TwinExcused(pre, c, pline) ==
  \/ (Has(pline, "tw") /\ CoreOfJson(pline.tw) # CoreOfJson(pline.post))
  \/ (c.op = "add_edge" /\ ~c.f /\ Cardinality(LiveEdgesBetween(pre, c.a, c.b)) > 1)
  \/ (c.op = "add_face_v" /\ \E i \in 1 .. Len(c.l) :
          Cardinality(LiveEdgesBetween(pre, c.l[i], c.l[(i % Len(c.l)) + 1])) > 1)

(* ----------------------------- one line -------------------------------- *)
(* returns [msg |-> "" or the first failed check, drift |-> 0/1]           *)
Want(id) == id \in Props

LineCheck(i, tainted) ==
  LET ln   == Tr[i]
      pp   == Tr[ln.pl].post
      qp   == ln.post
      c    == ln.c
      pre  == Obs(pp)
      post == Obs(qp)
      (* the specialised kernels override add_face / add_cell (valence guards, hex reordering):   *)
      (* those calls are specified in OVMTet / OVMHex, not here                                   *)
      poly == ~Has(ln, "mesh") \/ ln.mesh = "poly" \/ c.op \notin {"add_face", "add_cell", "add_face_v"}
      kern == IsKernelOp(c) /\ Sane(pre) /\ poly   \* a malformed pre state was reported at the step that produced it
      m    == IF kern THEN Apply(pre, c) ELSE pre
      gM   == ModelMap(m)
      hasP == Has(qp, "props") /\ Has(pp, "props")
      gH   == IF hasP THEN HintMap(pp, qp) ELSE gM
      relM == StepRel(pre, c, post, ln.ret, gM)
      relH == IF Renumbers(pre, c) /\ ~relM THEN StepRel(pre, c, post, ln.ret, gH) ELSE relM
      g    == IF IsSwap(c) THEN SwapMap(pre, c)
              ELSE IF Renumbers(pre, c) THEN (IF relM THEN gM ELSE gH)
              ELSE GrowMap(pre, post)
      retDrift == kern /\ Sane(post) /\ IsDelete(c) /\ ln.ret # Void /\ Strip(m) = Strip(post)
                  /\ (ln.ret # DeleteRetExpected(pre, c, post) \/ IterFrom(DelFlagsOf(m, c), m.ret) # ln.ret)
      drift == IF retDrift THEN (IF PrintT(<<"VXDIFF", i, c.op, {"ret"}>>) THEN 1 ELSE 1)
               ELSE IF kern /\ Sane(post) /\ Strip(m) # Strip(post)
               THEN (IF PrintT(<<"VXDIFF", i, c.op, {fld \in DOMAIN Strip(m) : Strip(m)[fld] # Strip(post)[fld]}>>) THEN 1 ELSE 1)
               ELSE 0
      inC  == Manifoldish(post) /\ Manifoldish(pre)
      msg ==
        IF ~Sane(pre) THEN ""
        ELSE IF ~WellFormed(post) THEN "WellFormed"
        ELSE IF Want("C02") /\ ~CountersConsistent(post) THEN "C02:CountersConsistent"
        ELSE IF Want("C02") /\ (qp.genus # GenusDef(post) \/ qp.needs_gc # NeedsGC(post)) THEN "C02:GenusOrNeedsGC"
        ELSE IF Want("C02") /\ ~post.deferred /\ NeedsGC(post) THEN "C02:PendingDeletionsInImmediateMode"
        ELSE IF Want("C02") /\ kern /\ IsDelete(c) /\ ~relH THEN "C02:DeleteRel"
        ELSE IF Want("C04") /\ kern /\ IsGC(pre, c) /\ ~relH THEN "C04:GCRel"
        ELSE IF Want("C04") /\ kern /\ c.op = "status_gc" /\ ~StatusGCRel(pre, c, post, g, ln.rl) THEN "C04:StatusGCRel"
        ELSE IF Want("C17") /\ kern /\ IsSwap(c) /\ ~relM THEN "C17:SwapRel"
        ELSE IF Want("C11") /\ kern /\ c.op \in {"add_vertex", "add_edge", "add_face", "add_cell"} /\ ~relM THEN "C11:AddRel"
        ELSE IF (Want("C08") \/ Want("C11")) /\ kern /\ c.op = "add_face_v" /\ ~relM THEN "C08:AddFaceFromVertices"
        ELSE IF Want("C08") /\ kern /\ ((c.op = "add_face" /\ c.f) \/ c.op = "add_face_v") /\ ln.ret \in LiveF(post)
                /\ ~ClosedLoop(post, At(post.faces, ln.ret)) THEN "C08:AcceptedFaceNotClosedLoop"
        ELSE IF Want("C08") /\ kern /\ c.op \notin {"set_edge", "set_face", "set_cell"} /\ ~(c.op = "add_face" /\ ~c.f)
                /\ (\A f \in LiveF(pre) : ClosedLoop(pre, At(pre.faces, f)))
                /\ ~(\A f \in LiveF(post) : ClosedLoop(post, At(post.faces, f))) THEN "C08:FaceNoLongerClosedLoop"
        ELSE IF Want("STEP") /\ kern /\ ~relH THEN "STEP:" \o c.op
        ELSE IF Want("C03") /\ hasP /\ kern /\ (relH \/ ~Renumbers(pre, c)) /\ ~PropsFollow(pre, post, pp, qp, g, IsSwap(c))
             THEN "C03:PropsFollow"
        ELSE IF Want("C01") /\ inC /\ ~CacheIsInverse(post) THEN "C01:CacheIsInverse"
        ELSE IF Want("C09") /\ inC /\ ~tainted /\ ~FanOrder(post) THEN "C09:FanOrder"
        ELSE IF Want("C12") /\ Has(ln, "tw") /\ kern /\ ~TwinExcused(pre, c, Tr[ln.pl]) /\ CoreOfJson(ln.tw) # CoreOfJson(qp) THEN "C12:TwinCore"
        ELSE IF Want("C12") /\ Has(ln, "tw") /\ kern /\ ~TwinExcused(pre, c, Tr[ln.pl]) /\ ln.tret # ln.ret THEN "C12:TwinRet"
        ELSE IF Want("C02") /\ kern /\ ~IsKernelCallKnown(c) THEN ""
        ELSE IF Want("C17") /\ kern /\ IsSwap(c) /\ Tr[ln.pl].e = "call" /\ Tr[ln.pl].c = c
                /\ CoreOfJson(Tr[Tr[ln.pl].pl].post) # CoreOfJson(qp) THEN "C17:SwapTwiceRestores"
        ELSE IF Has(ln, "q") /\ inC THEN QCheck(post, ln.q, Props)
        ELSE ""
  IN [msg |-> msg, drift |-> drift]

TInit == l = 1 /\ nbad = 0 /\ ndrift = 0 /\ taint = FALSE /\ nchk = 0

TNext ==
  /\ l <= Len(Tr)
  /\ l' = l + 1
  /\ LET ln == Tr[l] IN
     IF ln.e = "call"
     THEN LET r == IF ln.chk THEN LineCheck(l, taint) ELSE [msg |-> "", drift |-> 0] IN
          /\ nbad' = nbad + (IF r.msg = "" THEN 0
                             ELSE IF PrintT(<<"VXBAD", l, ln.x, ln.sid, r.msg>>) THEN 1 ELSE 1)
          /\ ndrift' = ndrift + (IF r.drift = 0 THEN 0
                             ELSE IF ndrift < 5 /\ PrintT(<<"VXDRIFT", l, ln.x, ln.sid, ln.c.op>>) THEN 1 ELSE 1)
          /\ taint' = (taint \/ ln.c.op \in {"set_face", "set_cell", "set_edge"})
          /\ nchk' = nchk + (IF ln.chk THEN 1 ELSE 0)
     ELSE /\ taint' = (IF ln.e = "reset" THEN FALSE ELSE taint)
          /\ UNCHANGED <<nbad, ndrift, nchk>>

TSpec == TInit /\ [][TNext]_tvars

(* acceptance: every line consumed; the counts are printed for the harness *)
Done == (l = Len(Tr) + 1) => PrintT(<<"VXDONE", Len(Tr), nchk, nbad, ndrift>>)
=============================================================================
