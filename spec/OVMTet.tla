------------------------------- MODULE OVMTet -------------------------------
(***************************************************************************)
(* Tetrahedral kernel (property C15).                                      *)
(*                                                                         *)
(* Part 1, OPERATIONAL: transcription of TetrahedralMeshTopologyKernel     *)
(* (src/OpenVolumeMesh/Mesh/TetrahedralMeshTopologyKernel.cc) where it     *)
(* differs from TopologyKernel: valence guards, add_halfedge/add_halfface  *)
(* reuse, the three add_cell forms, collapse_edge / split_edge /           *)
(* split_face as implemented, and the vertex-order queries.  Everything    *)
(* is built from the operators of OVMKernel (one mesh = one record).       *)
(*                                                                         *)
(* Part 2, DECLARATIVE: the statements of C15 as predicates over observable*)
(* state and over raw query answers (the oracles): TetShape,               *)
(* CellVertsContract, OppositeInverse, TetLabelsConsistent, LinkCondition, *)
(* CollapseRel.  Nothing in part 2 refers to part 1.                       *)
(***************************************************************************)
EXTENDS OVMKernelDefs

(* ------------------------------ reading -------------------------------- *)
HFVerts(s, hf)    == MapSeq(LAMBDA h : From(s, h), HFHes(s, hf))   \* halfface_vertices
CellVertSet(s, c) == UNION {Rng(HFVerts(s, hf)) : hf \in Rng(At(s.cells, c))}
FaceVertSet(s, f) == Rng(HFVerts(s, 2 * f))
EdgeVertSet(s, e) == {At(s.edges, e)[1], At(s.edges, e)[2]}
RotL(q, k)        == [i \in 1 .. Len(q) |-> q[((i - 1 + k) % Len(q)) + 1]]
Rots(q)           == {RotL(q, k) : k \in 0 .. (Len(q) - 1)}
FullBU(s)         == s.vbu /\ s.ebu /\ s.fbu
IdxOf(q, x)       == CHOOSE i \in DOMAIN q : q[i] = x

(***************************************************************************)
(*                        PART 1 - OPERATIONAL MODEL                       *)
(***************************************************************************)
(* valence-guarded overrides (N = 3 faces / 4 cells; the hexahedral kernel *)
(* uses the same shape with N = 4 / 6)                                     *)
ValAddFace(s, n, hes, check) ==
  IF Len(hes) # n THEN [s EXCEPT !.ret = -1] ELSE AddFace(s, hes, check)
ValAddFaceV(s, n, vs) ==
  IF Len(vs) # n THEN [s EXCEPT !.ret = -1] ELSE AddFaceV(s, vs)
TetAddFace(s, hes, check) == ValAddFace(s, 3, hes, check)
TetAddFaceV(s, vs)        == ValAddFaceV(s, 3, vs)
(* with topology check the four halffaces must span exactly four distinct   *)
(* vertices (repaired behaviour, /repo f2585d5: the generic closedness test alone *)
(* accepts both halffaces of two vertex-disjoint triangles)                  *)
TetAddCell(s, hfs, check) ==
  IF Len(hfs) # 4 THEN [s EXCEPT !.ret = -1]
  ELSE IF \E i \in 1 .. 4 : Len(At(s.faces, Full(hfs[i]))) # 3 THEN [s EXCEPT !.ret = -1]
  ELSE IF check /\ Cardinality(UNION {Rng(MapSeq(LAMBDA h : From(s, h), At(s.faces, Full(hfs[i])))) : i \in 1 .. 4}) # 4
       THEN [s EXCEPT !.ret = -1]
  ELSE AddCell(s, hfs, check)

(* find_halfedge: first outgoing halfedge of a that ends in b (needs the   *)
(* vertex cache)                                                           *)
FindHalfedge(s, a, b) ==
  LET hits == SelectSeq(At(s.out, a), LAMBDA h : To(s, h) = b) IN
  IF hits = <<>> THEN -1 ELSE hits[1]
(* find_halfface(halfedges): first halfface around hes[1] containing hes[2] *)
FindHalffaceHE(s, hes) ==
  LET hits == SelectSeq(At(s.hehf, hes[1]), LAMBDA hf : hes[2] \in Rng(HFHes(s, hf))) IN
  IF hits = <<>> THEN -1 ELSE hits[1]
(* find_halfface(vertices) *)
FindHalffaceV(s, vs) ==
  LET h0 == FindHalfedge(s, vs[1], vs[2]) IN
  IF h0 = -1 THEN -1 ELSE
  LET h1 == FindHalfedge(s, vs[2], vs[3]) IN
  IF h1 = -1 THEN -1 ELSE FindHalffaceHE(s, <<h0, h1>>)

AddHalfedge(s, a, b) ==
  IF ~s.vbu THEN SetErr([s EXCEPT !.ret = -1], "find_halfedge_without_vertex_incidences") ELSE
  LET h == FindHalfedge(s, a, b) IN
  IF h # -1 THEN [s EXCEPT !.ret = h]
  ELSE LET s2 == AddEdge(s, a, b, FALSE) IN [s2 EXCEPT !.ret = 2 * s2.ret]

AddHalffaceHE(s, hes, check) ==
  IF ~s.ebu THEN SetErr([s EXCEPT !.ret = -1], "find_halfface_without_edge_incidences") ELSE
  LET hf == FindHalffaceHE(s, hes) IN
  IF hf # -1 THEN [s EXCEPT !.ret = hf]
  ELSE LET s2 == TetAddFace(s, hes, check) IN [s2 EXCEPT !.ret = 2 * s2.ret]

AddHalffaceV(s, v0, v1, v2, check) ==
  LET s1 == AddHalfedge(s, v0, v1)
      s2 == AddHalfedge(s1, v1, v2)
      s3 == AddHalfedge(s2, v2, v0)
  IN AddHalffaceHE(s3, <<s1.ret, s2.ret, s3.ret>>, check)

(* add_cell(vh0, vh1, vh2, vh3, check) *)
TetAddCell4(s, v, check) ==
  LET s1 == AddHalffaceV(s,  v[1], v[2], v[3], FALSE)
      s2 == AddHalffaceV(s1, v[1], v[3], v[4], FALSE)
      s3 == AddHalffaceV(s2, v[1], v[4], v[2], FALSE)
      s4 == AddHalffaceV(s3, v[2], v[4], v[3], FALSE)
  IN TetAddCell(s4, <<s1.ret, s2.ret, s3.ret, s4.ret>>, check)

(* add_cell(std::vector<VertexHandle>, check): find-or-create through      *)
(* TopologyKernel::add_face(vertices); the check counts halfedges and      *)
(* edges and refuses halffaces that already have a cell -- after the       *)
(* faces were created                                                      *)
FindOrAddFaceV(s, vs) ==
  LET hf == FindHalffaceV(s, vs) IN
  IF hf # -1 THEN [s EXCEPT !.ret = hf]
  ELSE LET s2 == AddFaceV(s, vs) IN [s2 EXCEPT !.ret = 2 * s2.ret]
VCellCheckFails(s, hfs) ==
  LET hes == UNION {Rng(HFHes(s, hf)) : hf \in Rng(hfs)} IN
  \/ Cardinality(hes) # 2 * Cardinality({Full(h) : h \in hes})
  \/ s.fbu /\ \E i \in DOMAIN hfs : At(s.inc, hfs[i]) # -1
TetAddCellV(s, v, check) ==
  IF Len(v) # 4 \/ ~FullBU(s) THEN [s EXCEPT !.ret = -1] ELSE
  LET s1 == FindOrAddFaceV(s,  <<v[1], v[2], v[3]>>)
      s2 == FindOrAddFaceV(s1, <<v[1], v[3], v[4]>>)
      s3 == FindOrAddFaceV(s2, <<v[1], v[4], v[2]>>)
      s4 == FindOrAddFaceV(s3, <<v[2], v[4], v[3]>>)
      hfs == <<s1.ret, s2.ret, s3.ret, s4.ret>>
  IN IF check /\ VCellCheckFails(s4, hfs) THEN [s4 EXCEPT !.ret = -1]
     ELSE AddCell(s4, hfs, FALSE)

(* vc_iter: cells around a vertex through the three caches, ascending      *)
VCells(s, v) ==
  {At(s.inc, hf) : hf \in UNION {Rng(At(s.hehf, h)) : h \in Rng(At(s.out, v))}} \ {-1}

(* ------------------------------ queries -------------------------------- *)
GetCellVerticesHF(s, hf) ==
  LET ch == At(s.inc, hf) IN
  IF ch = -1 THEN <<>> ELSE
  LET hfs == At(s.cells, ch)
      vs  == HFVerts(s, hf)
      oth == IF hf # hfs[1] THEN hfs[1] ELSE hfs[2]
      cand == SelectSeq(HFVerts(s, oth), LAMBDA w : w \notin Rng(vs))
  IN IF cand = <<>> THEN <<>> ELSE Append(vs, cand[1])
GetCellVerticesC(s, c) == GetCellVerticesHF(s, At(s.cells, c)[1])
GetCellVerticesCV(s, c, v) ==
  LET w == GetCellVerticesC(s, c) IN
  IF w[2] = v THEN <<w[2], w[3], w[1], w[4]>>
  ELSE IF w[3] = v THEN <<w[3], w[1], w[2], w[4]>>
  ELSE IF w[4] = v THEN <<w[4], w[2], w[1], w[3]>>
  ELSE w
GetCellVerticesHFHE(s, hf, he) ==
  LET w == GetCellVerticesHF(s, hf)
      v0 == From(s, he)
  IN IF w[2] = v0 THEN <<w[2], w[3], w[1], w[4]>>
     ELSE IF w[3] = v0 THEN <<w[3], w[1], w[2], w[4]>>
     ELSE w
HalffaceOppositeVertex(s, hf) ==
  IF At(s.inc, hf) = -1 THEN -1 ELSE GetCellVerticesHF(s, hf)[4]
VertexOppositeHalfface(s, c, v) ==
  LET cand == SelectSeq(At(s.cells, c), LAMBDA hf : v \notin Rng(HFVerts(s, hf))) IN
  IF cand = <<>> THEN -1 ELSE cand[1]

(* ----------------------------- collapse_edge --------------------------- *)
(* one cell of the star of a rebuilt on b: for each of its four halffaces  *)
(* (in stored order) and each of the three halfedges, find-or-create the   *)
(* halfedge with a replaced by b, then find-or-create the halfface; the    *)
(* property elements of old and new handle are exchanged each time         *)
RebuildCell(st, ch, a, b) ==
  LET chfs == At(st.cells, ch)
      doHF(acc, i) ==
        LET hes == HFHes(acc.s, chfs[i])
            doHE(a2, j) ==
              LET h  == hes[j]
                  ns == IF From(a2.s, h) = a THEN b ELSE From(a2.s, h)
                  ne == IF To(a2.s, h) = a THEN b ELSE To(a2.s, h)
                  s2 == AddHalfedge(a2.s, ns, ne)
              IN [s |-> [s2 EXCEPT !.pHE = SwapAt(@, h, s2.ret)], hes |-> Append(a2.hes, s2.ret)]
            r  == FoldLeft(doHE, [s |-> acc.s, hes |-> <<>>], <<1, 2, 3>>)
            s3 == AddHalffaceHE(r.s, r.hes, FALSE)
        IN [s |-> [s3 EXCEPT !.pHF = SwapAt(@, chfs[i], s3.ret)], hfs |-> Append(acc.hfs, s3.ret)]
  IN FoldLeft(doHF, [s |-> st, hfs |-> <<>>], <<1, 2, 3, 4>>)

CollapseEdge(s0, he) ==
  IF ~FullBU(s0) THEN SetErr([s0 EXCEPT !.ret = -1], "collapse_edge_without_full_incidences") ELSE
  LET wasDef == s0.deferred
      s1 == IF wasDef THEN s0 ELSE EnableDeferred(s0, TRUE)
      a  == From(s1, he)
      b  == To(s1, he)
      collapsing == {At(s1.inc, hf) : hf \in Rng(At(s1.hehf, he))} \ {-1}
      incident == SortedSeq(VCells(s1, a))
      step(acc, ch) ==
        IF ch \in collapsing THEN acc
        ELSE LET r == RebuildCell(acc.s, ch, a, b)
             IN [s |-> DeleteCell(r.s, ch), nc |-> Append(acc.nc, <<ch, r.hfs>>)]
      r1 == FoldLeft(step, [s |-> s1, nc |-> <<>>], incident)
      surv == IF wasDef THEN b
              ELSE IF r1.s.fast THEN (IF b = r1.s.nv - 1 THEN a ELSE b)
              ELSE (IF a < b THEN b - 1 ELSE b)
      s2 == DeleteVertex(r1.s, a)
      addc(st, n) == LET s3 == TetAddCell(st, n[2], FALSE)
                     IN IF s3.ret = -1 THEN s3 ELSE [s3 EXCEPT !.pC = SwapAt(@, n[1], s3.ret)]
      s4 == FoldLeft(addc, s2, r1.nc)
      s5 == EnableDeferred(s4, wasDef)
  IN [s5 EXCEPT !.ret = surv]

(* ------------------------ split_edge / split_face ---------------------- *)
(* (protected in the topology kernel; reached through the geometry kernel) *)
(* a child of a split cell: add_cell(4 vertices), then copy_property_elements *)
(* (parent, child): the child's cell property values are the parent's        *)
AddChildCell(st, n) ==
  LET s3 == TetAddCell4(st, n[2], FALSE) IN
  IF s3.ret = -1 THEN s3 ELSE [s3 EXCEPT !.pC = Put(@, s3.ret, At(@, n[1]))]

SplitEdge(s0, he, v) ==
  IF ~FullBU(s0) THEN SetErr([s0 EXCEPT !.ret = Void], "split_edge_without_full_incidences") ELSE
  LET wasDef == s0.deferred
      s1 == IF wasDef THEN s0 ELSE EnableDeferred(s0, TRUE)
      hfc == SelectSeq(At(s1.hehf, he), LAMBDA hf : At(s1.inc, hf) # -1)
      SetErrAcc(acc) == [s |-> SetErr(acc.s, "split_edge_cell_vanished"), nc |-> acc.nc]
      step(acc, hf) ==
        LET ch == At(acc.s.inc, hf) IN
        IF ch = -1 THEN SetErrAcc(acc) ELSE
        LET w == GetCellVerticesHFHE(acc.s, hf, he)
        IN [s |-> DeleteCell(acc.s, ch),
            nc |-> acc.nc \o << <<ch, <<w[1], v, w[3], w[4]>> >>, <<ch, <<v, w[2], w[3], w[4]>> >> >>]
      r1 == FoldLeft(step, [s |-> s1, nc |-> <<>>], hfc)
      s2 == DeleteEdge(r1.s, Full(he))
      s3 == FoldLeft(AddChildCell, s2, r1.nc)
      s4 == EnableDeferred(s3, wasDef)
  IN [s4 EXCEPT !.ret = Void]

SplitFace(s0, f, v) ==
  IF ~FullBU(s0) THEN SetErr([s0 EXCEPT !.ret = Void], "split_face_without_full_incidences") ELSE
  LET wasDef == s0.deferred
      s1 == IF wasDef THEN s0 ELSE EnableDeferred(s0, TRUE)
      step(acc, hf) ==
        LET ch == At(acc.s.inc, hf) IN
        IF ch = -1 THEN acc ELSE
        LET w == GetCellVerticesHF(acc.s, hf)
        IN [s |-> DeleteCell(acc.s, ch),
            nc |-> acc.nc \o << <<ch, <<w[1], w[2], v, w[4]>> >>, <<ch, <<w[1], v, w[3], w[4]>> >>, <<ch, <<v, w[2], w[3], w[4]>> >> >>]
      r1 == FoldLeft(step, [s |-> s1, nc |-> <<>>], <<2 * f, 2 * f + 1>>)
      s2 == DeleteFace(r1.s, f)
      s3 == FoldLeft(AddChildCell, s2, r1.nc)
      s4 == EnableDeferred(s3, wasDef)
  IN [s4 EXCEPT !.ret = Void]

(* ------------------------------ dispatcher ----------------------------- *)
TetOps == {"add_face", "add_face_v", "add_cell", "tet_add_cell_4", "tet_add_cell_v",
           "add_halfedge", "add_halfface", "add_halfface_v", "collapse_edge", "split_edge", "split_face"}

TetApply(s0, c) ==
  IF c.op \notin TetOps THEN Apply(s0, c) ELSE
  LET s == Tag(s0) IN
  CASE c.op = "add_face"        -> TetAddFace(s, c.l, c.f)
    [] c.op = "add_face_v"      -> TetAddFaceV(s, c.l)
    [] c.op = "add_cell"        -> TetAddCell(s, c.l, c.f)
    [] c.op = "tet_add_cell_4"  -> TetAddCell4(s, c.l, c.f)
    [] c.op = "tet_add_cell_v"  -> TetAddCellV(s, c.l, c.f)
    [] c.op = "add_halfedge"    -> AddHalfedge(s, c.a, c.b)
    [] c.op = "add_halfface"    -> AddHalffaceHE(s, c.l, c.f)
    [] c.op = "add_halfface_v"  -> AddHalffaceV(s, c.l[1], c.l[2], c.l[3], c.f)
    [] c.op = "collapse_edge"   -> CollapseEdge(s, c.a)
    [] c.op = "split_edge"      -> SplitEdge(s, c.a, c.b)
    [] c.op = "split_face"      -> SplitFace(s, c.a, c.b)

(***************************************************************************)
(*                        PART 2 - DECLARATIVE LAYER                       *)
(***************************************************************************)
(* every face three edges, every cell four faces and four distinct vertices *)
TetFaceOK(s, f) == Len(At(s.faces, f)) = 3
TetCellOK(s, c) == LET hfs == At(s.cells, c) IN
                   /\ Len(hfs) = 4 /\ Cardinality({Full(h) : h \in Rng(hfs)}) = 4
                   /\ Cardinality(CellVertSet(s, c)) = 4
TetShape(s) == /\ \A f \in LiveF(s) : TetFaceOK(s, f)
               /\ \A c \in LiveC(s) : TetCellOK(s, c)

(* a closed tetrahedron: the contract of the vertex-order queries          *)
ClosedTet(s, c) == TetCellOK(s, c) /\ ClosedSurface(s, At(s.cells, c))

(* the vertex of cell c that is not on halfface hf                         *)
Apexes(s, c, hf) == CellVertSet(s, c) \ Rng(HFVerts(s, hf))
Apex(s, c, hf)   == CHOOSE w \in Apexes(s, c, hf) : TRUE

(* the twelve orientation-preserving listings of a closed tetrahedron:     *)
(* a halfface's vertices in its cyclic order from any start, then the apex *)
OrientedTet(s, c) ==
  UNION {{Append(r, Apex(s, c, hf)) : r \in Rots(HFVerts(s, hf))} : hf \in Rng(At(s.cells, c))}

IsSeqOfLen(q, n) == DOMAIN q = 1 .. n

(* get_cell_vertices, the four forms; ans is the raw answer                *)
CVC_HF(s, c, hf, ans) ==        \* (halfface)
  ans = Append(HFVerts(s, hf), Apex(s, c, hf))
CVC_C(s, c, ans) == CVC_HF(s, c, At(s.cells, c)[1], ans)     \* (cell): first halfface
CVC_HFHE(s, c, hf, he, ans) ==  \* (halfface, halfedge of it): start at the halfedge's source
  LET vs == HFVerts(s, hf) IN
  ans = Append(RotL(vs, IdxOf(vs, From(s, he)) - 1), Apex(s, c, hf))
CVC_CV(s, c, v, ans) ==         \* (cell, vertex of it)
  LET hf1 == At(s.cells, c)[1]
      vs  == HFVerts(s, hf1)
  IN IF v \in Rng(vs)
     THEN ans = Append(RotL(vs, IdxOf(vs, v) - 1), Apex(s, c, hf1))
     ELSE (* v is the apex of the first halfface: a halfface through v in   *)
          (* its cyclic order starting at v, then that halfface's apex      *)
          IsSeqOfLen(ans, 4) /\ ans[1] = v /\ ans \in OrientedTet(s, c)

(* halfface_opposite_vertex / vertex_opposite_halfface are mutually inverse *)
OppInv_HF(s, c, hf, hov, vohOfHov) ==    \* hf in c; hov = h_o_v(hf); vohOfHov = v_o_h(c, hov)
  /\ hov \in CellVertSet(s, c) /\ hov \notin Rng(HFVerts(s, hf))
  /\ vohOfHov = hf
OppInv_V(s, c, v, voh, hovOfVoh) ==      \* v in c; voh = v_o_h(c, v); hovOfVoh = h_o_v(voh)
  /\ voh \in Rng(At(s.cells, c)) /\ v \notin Rng(HFVerts(s, voh))
  /\ hovOfVoh = v

(* ---------------------- TetTopology / TriangleTopology ----------------- *)
(* A labelling T is the raw record logged by the executor:                 *)
(*   T.vh[X]   X in A..D          T.heh[XY]  the 12 ordered pairs          *)
(*   T.hfh[L]  L the 24 three-letter names plus OppX / OuterOppX           *)
(*   T.tri[L], T.trid[L]  TriangleTopology from triangle_topology<L>() and *)
(*   triangle_topology(L): [v |-> <<a,b,c>>, h |-> <<ab,bc,ca>>]           *)
(*   T.glv / T.glhe / T.glhf / T.glhfv  get_label answers, "" = nullopt    *)
(* The predicates derive everything from the NAME of a label (its         *)
(* letters), never from the numeric layout of the enums.                   *)
Letters == <<"A", "B", "C", "D">>
LIdx(x) == CHOOSE i \in 1 .. 4 : Letters[i] = x
L2 == {p \in (1 .. 4) \X (1 .. 4) : p[1] # p[2]}
L3 == {p \in (1 .. 4) \X (1 .. 4) \X (1 .. 4) : p[1] # p[2] /\ p[1] # p[3] /\ p[2] # p[3]}
N2(p) == Letters[p[1]] \o Letters[p[2]]
N3(p) == Letters[p[1]] \o Letters[p[2]] \o Letters[p[3]]
Fourth(p) == CHOOSE i \in 1 .. 4 : i \notin {p[1], p[2], p[3]}
(* parity of the arrangement (p1,p2,p3,fourth): ABC-D is the reference      *)
(* inner halfface seen from inside; a label is inner iff it is an even      *)
(* permutation of it                                                        *)
Inversions(q) == Cardinality({ij \in (1 .. 4) \X (1 .. 4) : ij[1] < ij[2] /\ q[ij[1]] > q[ij[2]]})
IsInnerName(p) == Inversions(<<p[1], p[2], p[3], Fourth(p)>>) % 2 = 0

ValidV(s, v)   == v \in LiveV(s)
ValidHE(s, h)  == h \in LiveHE(s)
ValidHF(s, h)  == h \in LiveHF(s)

TetLabelVerts(s, c, T) ==
  /\ \A i \in 1 .. 4 : ValidV(s, T.vh[Letters[i]])
  /\ {T.vh[Letters[i]] : i \in 1 .. 4} = CellVertSet(s, c)
  /\ \A i, j \in 1 .. 4 : i # j => T.vh[Letters[i]] # T.vh[Letters[j]]
TetLabelHalfedges(s, c, T) ==
  \A p \in L2 : LET h == T.heh[N2(p)] IN
     /\ ValidHE(s, h)
     /\ From(s, h) = T.vh[Letters[p[1]]] /\ To(s, h) = T.vh[Letters[p[2]]]
TetLabelHalffaces(s, c, T) ==
  /\ \A p \in L3 : LET h == T.hfh[N3(p)] IN
       /\ ValidHF(s, h)
       /\ HFVerts(s, h) \in Rots(<<T.vh[Letters[p[1]]], T.vh[Letters[p[2]]], T.vh[Letters[p[3]]]>>)
       /\ IF IsInnerName(p) THEN h \in Rng(At(s.cells, c)) ELSE Opp(h) \in Rng(At(s.cells, c))
  /\ \A i \in 1 .. 4 :
       LET hin == T.hfh["Opp" \o Letters[i]]
           hout == T.hfh["OuterOpp" \o Letters[i]]
       IN /\ ValidHF(s, hin) /\ hin \in Rng(At(s.cells, c))
          /\ T.vh[Letters[i]] \notin Rng(HFVerts(s, hin))
          /\ hout = Opp(hin)
TriOK(s, T, p, tr) ==
  /\ IsSeqOfLen(tr.v, 3) /\ IsSeqOfLen(tr.h, 3)
  /\ tr.v = <<T.vh[Letters[p[1]]], T.vh[Letters[p[2]]], T.vh[Letters[p[3]]]>>
  /\ \A i \in 1 .. 3 : /\ ValidHE(s, tr.h[i])
                       /\ From(s, tr.h[i]) = tr.v[i] /\ To(s, tr.h[i]) = tr.v[(i % 3) + 1]
TetLabelTriangles(s, c, T) ==
  \A p \in L3 : TriOK(s, T, p, T.tri[N3(p)]) /\ TriOK(s, T, p, T.trid[N3(p)])
(* get_label inverts the accessors: every accessor value is labelled with  *)
(* the label it was obtained from, and every label reported for an entity  *)
(* leads back to that entity                                               *)
GL(pairs, x) == LET hits == {i \in DOMAIN pairs : pairs[i][1] = x} IN
                IF hits = {} THEN "?" ELSE pairs[CHOOSE i \in hits : TRUE][2]
GL2(trip, x, y) == LET hits == {i \in DOMAIN trip : trip[i][1] = x /\ trip[i][2] = y} IN
                IF hits = {} THEN "?" ELSE trip[CHOOSE i \in hits : TRUE][3]
TetLabelInverse(s, c, T) ==
  /\ \A i \in 1 .. 4 : GL(T.glv, T.vh[Letters[i]]) = Letters[i]
  /\ \A p \in L2 : GL(T.glhe, T.heh[N2(p)]) = N2(p)
  /\ \A i \in 1 .. 4 : /\ GL(T.glhf, T.hfh["Opp" \o Letters[i]]) = "Opp" \o Letters[i]
                       /\ GL(T.glhf, T.hfh["OuterOpp" \o Letters[i]]) = "OuterOpp" \o Letters[i]
  /\ \A p \in L3 : GL2(T.glhfv, T.hfh[N3(p)], T.vh[Letters[p[1]]]) = N3(p)
  /\ \A k \in DOMAIN T.glv : T.glv[k][2] # "" => T.vh[T.glv[k][2]] = T.glv[k][1]
  /\ \A k \in DOMAIN T.glhe : T.glhe[k][2] # "" => T.heh[T.glhe[k][2]] = T.glhe[k][1]
  /\ \A k \in DOMAIN T.glhf : T.glhf[k][2] # "" => T.hfh[T.glhf[k][2]] = T.glhf[k][1]
  /\ \A k \in DOMAIN T.glhfv : T.glhfv[k][3] # "" =>
        /\ T.hfh[T.glhfv[k][3]] = T.glhfv[k][1]
        /\ \E p \in L3 : N3(p) = T.glhfv[k][3] /\ T.vh[Letters[p[1]]] = T.glhfv[k][2]

TetLabelsCore(s, c, T) ==      \* for every logged labelling
  TetLabelVerts(s, c, T) /\ TetLabelHalfedges(s, c, T) /\ TetLabelHalffaces(s, c, T)
TetLabelsDeep(s, c, T) ==      \* for labellings logged with triangles and get_label
  TetLabelTriangles(s, c, T) /\ TetLabelInverse(s, c, T)

(* TriangleTopology built directly from a halfface (and a start vertex)    *)
TriangleOK(s, hf, a, tr) ==
  LET vs == HFVerts(s, hf)
      st == IF a = -1 THEN vs ELSE RotL(vs, IdxOf(vs, a) - 1)
  IN /\ IsSeqOfLen(tr.v, 3) /\ IsSeqOfLen(tr.h, 3)
     /\ tr.v = st
     /\ \A i \in 1 .. 3 : /\ ValidHE(s, tr.h[i])
                          /\ From(s, tr.h[i]) = tr.v[i] /\ To(s, tr.h[i]) = tr.v[(i % 3) + 1]

(* ------------------------------ link condition ------------------------- *)
(* the simplicial complex spanned by the live entities, as vertex sets     *)
Simplices(s) ==
  {{v} : v \in LiveV(s)} \cup {EdgeVertSet(s, e) : e \in LiveE(s)}
  \cup {FaceVertSet(s, f) : f \in LiveF(s)} \cup {CellVertSet(s, c) : c \in LiveC(s)}
LinkIn(K, sg) == {t \in K : t \cap sg = {} /\ (t \cup sg) \in K}
LinkCondition(s, a, b) ==
  LET K == Simplices(s) IN LinkIn(K, {a}) \cap LinkIn(K, {b}) = LinkIn(K, {a, b})

(* the mesh is a simplicial complex of closed tetrahedra (contract of      *)
(* collapse_edge): no two entities on the same vertex set, every halfface   *)
(* in at most one cell, every simplex below a cell or face present         *)
TetComplex(s) ==
  /\ FullBU(s) /\ WellFormed(s) /\ TetShape(s) /\ Manifoldish(s)
  /\ \A e \in LiveE(s) : Cardinality(EdgeVertSet(s, e)) = 2
  /\ \A e1, e2 \in LiveE(s) : e1 # e2 => EdgeVertSet(s, e1) # EdgeVertSet(s, e2)
  /\ \A f \in LiveF(s) : ClosedLoop(s, At(s.faces, f)) /\ Cardinality(FaceVertSet(s, f)) = 3
  /\ \A f1, f2 \in LiveF(s) : f1 # f2 => FaceVertSet(s, f1) # FaceVertSet(s, f2)
  /\ \A c \in LiveC(s) : ClosedSurface(s, At(s.cells, c))
  /\ \A c1, c2 \in LiveC(s) : c1 # c2 => CellVertSet(s, c1) # CellVertSet(s, c2)

CollapseInContract(s, he) ==
  /\ TetComplex(s)
  /\ he \in LiveHE(s)
  /\ LinkCondition(s, From(s, he), To(s, he))

(* ------------------------------ CollapseRel ---------------------------- *)
(* gV: for every vertex slot of post the vertex slot of pre it came from   *)
SubstV(q, a, b) == [i \in DOMAIN q |-> IF q[i] = a THEN b ELSE q[i]]
CollapseRel(pre, he, post, ret, gV) ==
  LET a == From(pre, he)
      b == To(pre, he)
      keep == {c \in LiveC(pre) : ~({a, b} \subseteq CellVertSet(pre, c))}
      expect == {{SubstV(q, a, b) : q \in OrientedTet(pre, c)} : c \in keep}
      back(q) == [i \in DOMAIN q |-> At(gV, q[i])]
  IN /\ WellFormed(post) /\ TetShape(post)
     /\ Len(gV) = post.nv
     /\ \A c \in LiveC(post) : ClosedSurface(post, At(post.cells, c))
     /\ Cardinality(LiveC(post)) = Cardinality(keep)
     /\ {{back(q) : q \in OrientedTet(post, c)} : c \in LiveC(post)} = expect
     /\ ret \in LiveV(post) /\ At(gV, ret) = b

(* contract of the vertex-based cell constructors for AddTetRel: a simplicial  *)
(* complex, four distinct live vertices, no cell on them yet, and none of the  *)
(* four halffaces the new tetrahedron needs belongs to a cell                  *)
AddTetInContract(pre, vs) ==
  /\ TetComplex(pre) /\ IsSeqOfLen(vs, 4) /\ Cardinality(Rng(vs)) = 4 /\ Rng(vs) \subseteq LiveV(pre)
  /\ \A c \in LiveC(pre) : CellVertSet(pre, c) # Rng(vs)
  /\ \A tri \in {<<vs[1], vs[2], vs[3]>>, <<vs[1], vs[3], vs[4]>>, <<vs[1], vs[4], vs[2]>>, <<vs[2], vs[4], vs[3]>>} :
        \A hf \in LiveHF(pre) : HFVerts(pre, hf) \in Rots(tri) => CellsOfHF(pre, hf) = {}

(* ---------------- C11 on the specialised kernels (handle-based calls) --- *)
(* add_face(halfedges, check): rejected iff the valence is wrong or (with    *)
(* topology check) the list is not a closed loop; rejected => invalid handle *)
(* and nothing observable changed; accepted => exactly one face appended     *)
(* with exactly the given halfedges.  n = 3 (tet) / 4 (hex).                 *)
ValAddFaceC11(pre, n, c, post, ret) ==
  IF Len(c.l) # n \/ (c.f /\ ~ClosedLoop(pre, c.l))
  THEN ret = -1 /\ Unchanged(pre, post)
  ELSE ret = Len(pre.faces) /\ AppendRel(pre, post, "F", c.l)
(* add_halfface(halfedges, check): an invalid handle and nothing changed, or *)
(* an existing halfface that contains the first two halfedges and nothing    *)
(* changed, or exactly one triangle appended whose halfface 0 is returned    *)
AddHalffaceRel(pre, c, post, ret) ==
  IF ret < 0 THEN Unchanged(pre, post)
  ELSE IF ret < NHF(pre)
       THEN /\ Unchanged(pre, post) /\ ret \in LiveHF(pre)
            /\ {c.l[1], c.l[2]} \subseteq Rng(HFHes(pre, ret))
       ELSE /\ ret = 2 * Len(pre.faces) /\ Len(c.l) = 3 /\ (c.f => ClosedLoop(pre, c.l))
            /\ AppendRel(pre, post, "F", c.l)
(* add_cell(halffaces, check) of the tetrahedral kernel: accepted iff four   *)
(* triangles and (with topology check) a closed surface on four vertices     *)
TetAddCellC11(pre, c, post, ret) ==
  LET l == c.l
      accept == /\ Len(l) = 4 /\ \A i \in 1 .. 4 : Len(At(pre.faces, Full(l[i]))) = 3
                /\ c.f => (ClosedSurface(pre, l) /\ Cardinality(UNION {Rng(HFVerts(pre, l[i])) : i \in 1 .. 4}) = 4)
  IN IF accept THEN ret = Len(pre.cells) /\ AppendRel(pre, post, "C", l)
     ELSE ret = -1 /\ Unchanged(pre, post)

(* ------------- C03 through collapse_edge: CollapsePropsFollow ---------- *)
(* Property values stay attached through the collapse.  Asserted is only    *)
(* what the statement clearly demands; the bijections are those of          *)
(* CollapseRel (gV: post vertex slot -> pre vertex slot):                   *)
(*  V  every live vertex of post carries the values of the pre vertex it is *)
(*     (b keeps b's values, a's values disappear with a);                   *)
(*  C  every live cell of post carries the values of the pre cell it came   *)
(*     from (same oriented vertex 4-set with a replaced by b): rebuilt and   *)
(*     untouched cells alike;                                               *)
(*  E HE F HF  edges / faces of pre that do not contain a and are not the   *)
(*     target of a merge ((b,x) while (a,x) exists, (b,x,y) while (a,x,y)   *)
(*     exists) keep their values on the post entity with the same vertices, *)
(*     half-entities on the same side (direction / rotation).  Nothing is   *)
(*     asserted for entities containing a or merge targets.                 *)
(* The result is the set of pairs <<post slot, pre slot>> per kind.         *)
CollapsePropPairs(pre, he, post, gV) ==
  LET a == From(pre, he)
      b == To(pre, he)
      back(q) == [i \in DOMAIN q |-> At(gV, q[i])]
      backSet(S) == {At(gV, v) : v \in S}
      keepC == {c \in LiveC(pre) : ~({a, b} \subseteq CellVertSet(pre, c))}
      sig0 == [c \in keepC |-> {SubstV(q, a, b) : q \in OrientedTet(pre, c)}]
      moved(S) == (S \ {b}) \cup {a}
      keepE == {e \in LiveE(pre) : LET S == EdgeVertSet(pre, e) IN
                  /\ a \notin S
                  /\ ~(b \in S /\ \E e2 \in LiveE(pre) : EdgeVertSet(pre, e2) = moved(S))}
      keepF == {f \in LiveF(pre) : LET S == FaceVertSet(pre, f) IN
                  /\ a \notin S
                  /\ ~(b \in S /\ \E f2 \in LiveF(pre) : FaceVertSet(pre, f2) = moved(S))}
      ePairs == {x \in LiveE(post) \X keepE : backSet(EdgeVertSet(post, x[1])) = EdgeVertSet(pre, x[2])}
      fPairs == {x \in LiveF(post) \X keepF : backSet(FaceVertSet(post, x[1])) = FaceVertSet(pre, x[2])}
  IN [V  |-> {<<j, At(gV, j)>> : j \in LiveV(post)},
      C  |-> {x \in LiveC(post) \X keepC : {back(q) : q \in OrientedTet(post, x[1])} = sig0[x[2]]},
      E  |-> ePairs,
      HE |-> UNION {{<<2 * x[1] + sd,
                       IF At(gV, From(post, 2 * x[1] + sd)) = From(pre, 2 * x[2]) THEN 2 * x[2] ELSE 2 * x[2] + 1>> : sd \in {0, 1}} : x \in ePairs},
      F  |-> fPairs,
      HF |-> UNION {{<<2 * x[1] + sd,
                       IF back(HFVerts(post, 2 * x[1] + sd)) \in Rots(HFVerts(pre, 2 * x[2])) THEN 2 * x[2] ELSE 2 * x[2] + 1>> : sd \in {0, 1}} : x \in fPairs},
      M  |-> {}]

(* one property (P before, Q after: records with k = kind, v = values)      *)
PropSized(post, Q) == Len(Q.v) = NSlots(post, Q.k)
PropKeeps(P, Q, pairs) ==
  \A x \in pairs : /\ x[1] \in 0 .. (Len(Q.v) - 1) /\ x[2] \in 0 .. (Len(P.v) - 1)
                    /\ At(Q.v, x[1]) = At(P.v, x[2])
(* "" or the kind of the first property that does not follow                *)
CollapsePropsFollowMsg(pre, he, post, gV, pprops, qprops) ==
  IF Len(qprops) # Len(pprops) THEN "count"
  ELSE IF \E i \in DOMAIN qprops : qprops[i].k # pprops[i].k \/ ~PropSized(post, qprops[i]) THEN "sizes"
  ELSE LET pairs == CollapsePropPairs(pre, he, post, gV)
           badI  == {i \in DOMAIN qprops : ~PropKeeps(pprops[i], qprops[i], pairs[qprops[i].k])}
       IN IF badI = {} THEN "" ELSE qprops[CHOOSE i \in badI : \A k \in badI : i <= k].k
CollapsePropsFollow(pre, he, post, gV, pprops, qprops) ==
  CollapsePropsFollowMsg(pre, he, post, gV, pprops, qprops) = ""

(* ------------- C03 through split_edge / split_face: SplitPropsFollow ---- *)
(* S: vertex set of the split edge / face, n: the inserted vertex (it was    *)
(* isolated; no vertex slot moves, so vertices correspond handle for handle; *)
(* edges / faces / cells may be renumbered and correspond by vertex set).    *)
(*  V          every live vertex keeps its values;                           *)
(*  E HE F HF  every post edge / face without n corresponds to the pre       *)
(*             entity on the same vertices and keeps its values (half-       *)
(*             entities on the same side); those with n are new: default;    *)
(*  C          a post cell without n is an unsplit pre cell: same values;    *)
(*             a post cell with n is a child of the split pre cell obtained  *)
(*             by replacing n with a vertex of S: its value is the PARENT'S  *)
(*             value or the property's DEFAULT.  The statement allows both   *)
(*             readings ("new entities start with the default" / children    *)
(*             inherit); the code chooses "parent" (copy_property_elements   *)
(*             in split_edge / split_face), and so does the operational      *)
(*             model (AddChildCell).                                         *)
SplitPropPairs(pre, post) ==
  LET ePairs == {x \in LiveE(post) \X LiveE(pre) : EdgeVertSet(post, x[1]) = EdgeVertSet(pre, x[2])}
      fPairs == {x \in LiveF(post) \X LiveF(pre) : FaceVertSet(post, x[1]) = FaceVertSet(pre, x[2])}
  IN [V  |-> {<<j, j>> : j \in LiveV(post)},
      C  |-> {x \in LiveC(post) \X LiveC(pre) : CellVertSet(post, x[1]) = CellVertSet(pre, x[2])},
      E  |-> ePairs,
      HE |-> UNION {{<<2 * x[1] + sd,
                       IF From(post, 2 * x[1] + sd) = From(pre, 2 * x[2]) THEN 2 * x[2] ELSE 2 * x[2] + 1>> : sd \in {0, 1}} : x \in ePairs},
      F  |-> fPairs,
      HF |-> UNION {{<<2 * x[1] + sd,
                       IF HFVerts(post, 2 * x[1] + sd) \in Rots(HFVerts(pre, 2 * x[2])) THEN 2 * x[2] ELSE 2 * x[2] + 1>> : sd \in {0, 1}} : x \in fPairs},
      M  |-> {}]
(* slots of kind k of post that belong to entities containing the new vertex *)
SplitNewSlots(post, n, k) ==
  CASE k = "E"  -> {e \in LiveE(post) : n \in EdgeVertSet(post, e)}
    [] k = "HE" -> {h \in LiveHE(post) : n \in EdgeVertSet(post, Full(h))}
    [] k = "F"  -> {f \in LiveF(post) : n \in FaceVertSet(post, f)}
    [] k = "HF" -> {h \in LiveHF(post) : n \in FaceVertSet(post, Full(h))}
    [] OTHER    -> {}
SplitChildrenOK(pre, S, n, post, P, Q) ==
  \A cc \in LiveC(post) : n \in CellVertSet(post, cc) =>
     LET W == CellVertSet(post, cc)
         parents == {c0 \in LiveC(pre) : S \subseteq CellVertSet(pre, c0) /\
                        \E v \in S : CellVertSet(pre, c0) = (W \ {n}) \cup {v}}
     IN \/ At(Q.v, cc) = Q.d
        \/ \E c0 \in parents : c0 \in 0 .. (Len(P.v) - 1) /\ At(Q.v, cc) = At(P.v, c0)
(* "" or the kind of the first property that does not follow                *)
SplitPropsFollowMsg(pre, S, n, post, pprops, qprops) ==
  IF Len(qprops) # Len(pprops) THEN "count"
  ELSE IF \E i \in DOMAIN qprops : qprops[i].k # pprops[i].k \/ ~PropSized(post, qprops[i]) THEN "sizes"
  ELSE LET pairs == SplitPropPairs(pre, post)
           bad(i) == LET P == pprops[i]  Q == qprops[i] IN
                     \/ ~PropKeeps(P, Q, pairs[Q.k])
                     \/ \E j \in SplitNewSlots(post, n, Q.k) : At(Q.v, j) # Q.d
                     \/ Q.k = "C" /\ ~SplitChildrenOK(pre, S, n, post, P, Q)
           badI  == {i \in DOMAIN qprops : bad(i)}
       IN IF badI = {} THEN "" ELSE qprops[CHOOSE i \in badI : \A k \in badI : i <= k].k
(* contract: a simplicial complex, the inserted vertex live and isolated     *)
SplitInContract(pre, S, n) ==
  /\ TetComplex(pre) /\ n \in LiveV(pre) /\ n \notin S
  /\ \A e \in LiveE(pre) : n \notin EdgeVertSet(pre, e)

(* candidate vertex maps when none is supplied: nothing moved, or the       *)
(* survivors kept their order                                               *)
MonotoneVMap(pre, post, a) ==
  LET surv == SelectSeq([i \in 1 .. pre.nv |-> i - 1], LAMBDA v : v # a) IN
  IF post.nv = pre.nv THEN Iota(pre.nv)
  ELSE IF post.nv = pre.nv - 1 THEN surv ELSE Iota(post.nv)

(* the vertex-based cell constructors: accepted => exactly one more live    *)
(* cell, it is a closed tetrahedron listing the given vertices positively,  *)
(* nothing that lived before is gone                                       *)
AddTetRel(pre, vs, post, ret) ==
  /\ WellFormed(post) /\ TetShape(post)
  /\ post.nv = pre.nv /\ post.vdel = pre.vdel
  /\ LiveE(pre) \subseteq LiveE(post) /\ LiveF(pre) \subseteq LiveF(post) /\ LiveC(pre) \subseteq LiveC(post)
  /\ \A e \in LiveE(pre) : At(post.edges, e) = At(pre.edges, e)
  /\ \A f \in LiveF(pre) : At(post.faces, f) = At(pre.faces, f)
  /\ \A c \in LiveC(pre) : At(post.cells, c) = At(pre.cells, c)
  /\ IF ret = -1 THEN LiveC(post) = LiveC(pre)
     ELSE /\ LiveC(post) = LiveC(pre) \cup {ret} /\ ret \notin LiveC(pre)
          /\ ClosedTet(post, ret)
          /\ <<vs[1], vs[2], vs[3], vs[4]>> \in OrientedTet(post, ret)

=============================================================================
