-------------------------------- MODULE OVMB --------------------------------
(***************************************************************************)
(* Byte-level formalisation of the OVMB file format (OpenVolumeMesh        *)
(* binary), after extra/ovmb-kaitai/ovmb.ksy and                           *)
(* documentation/subpages/binary_file_format.docu.                         *)
(*                                                                         *)
(* A file is a sequence of bytes (0..255), offsets are 1-based.            *)
(*   ParseFile(b)  = [ok |-> FALSE, why |-> .., strict |-> ..]  or the     *)
(*                   decoded mesh [ok |-> TRUE, nv, ne, nf, nc, pos,       *)
(*                   edges, faces, cells, props, topo, fver]               *)
(* The reader is a chunk-level state machine: DecodeChunk turns the bytes  *)
(* of one chunk into a chunk record, ApplyChunk is the transition of the   *)
(* machine on chunk records (spans, handle ranges, directory, EOF),        *)
(* Finish is its acceptance condition.  spec/OVMBMachine.tla explores the  *)
(* same ApplyChunk / Finish over abstract chunk records with a StreamFail  *)
(* action.                                                                 *)
(*                                                                         *)
(* "strict" says whether property C18 demands rejection of such a file     *)
(* (truncation, magic, header version, reserved / padding bytes, chunk     *)
(* lengths, entity spans, encodings, handle values, chunks dropped /       *)
(* duplicated / misplaced where the description forbids it).  Where the    *)
(* description is silent (unknown flag bits, a fixed valence together      *)
(* with a valence encoding, ...) the file is "not ok, not strict": nothing *)
(* is demanded of the implementation in either direction.                  *)
(*                                                                         *)
(* Integers: TLC integers are 32 bit.  A multi-byte field is decoded into  *)
(* an integer when it fits 31 bits, otherwise into the token Huge.  All    *)
(* tests the format needs are of the kind "= expected", "<= remaining",    *)
(* "< count", for which Huge is exact.  Floating point payloads are opaque *)
(* byte tuples.                                                            *)
(***************************************************************************)
EXTENDS Integers, Sequences, FiniteSets, TLC

Huge == -1

Max2(a, c) == IF a >= c THEN a ELSE c
Min2(a, c) == IF a <= c THEN a ELSE c

(* ---------------------------- byte fields ------------------------------ *)
Slice(b, o, n) == [i \in 1 .. n |-> b[o + i - 1]]
U16(b, o) == b[o] + 256 * b[o + 1]
U32(b, o) == IF b[o + 3] >= 128 THEN Huge
             ELSE b[o] + 256 * b[o + 1] + 65536 * b[o + 2] + 16777216 * b[o + 3]
U64(b, o) == IF b[o + 4] # 0 \/ b[o + 5] # 0 \/ b[o + 6] # 0 \/ b[o + 7] # 0 THEN Huge ELSE U32(b, o)
(* integer of encoding e (1, 2, 4 bytes) *)
UE(b, o, e) == IF e = 1 THEN b[o] ELSE IF e = 2 THEN U16(b, o) ELSE U32(b, o)

Pow256 == <<1, 256, 65536, 16777216>>
Pow2   == <<1, 2, 4, 8, 16, 32, 64, 128>>
BadV   == <<-1>>                 \* marker element: "this sequence of values could not be decoded"
(* little-endian encoding of 0 <= n < 2^31 in k bytes *)
LE(n, k) == [i \in 1 .. k |-> IF i <= 4 THEN (n \div Pow256[i]) % 256 ELSE 0]

Bad(why, strict) == [ok |-> FALSE, why |-> why, strict |-> strict]

Magic   == <<79, 86, 77, 66, 10, 13, 10, 255>>
TagVERT == <<86, 69, 82, 84>>
TagTOPO == <<84, 79, 80, 79>>
TagDIRP == <<68, 73, 82, 80>>
TagPROP == <<80, 82, 79, 80>>
TagEOF  == <<69, 79, 70, 32>>
TagSKIP == <<88, 83, 75, 80>>   \* "XSKP": a chunk type no reader knows (for optional chunks)

HeaderSize == 48
ChunkHeaderSize == 16

(* property entity enumeration of the file -> kind names of the projection *)
KindOf == <<"V", "E", "F", "C", "HE", "HF", "M">>      \* index = enum value + 1
KindCode(k) == CHOOSE i \in 0 .. 6 : KindOf[i + 1] = k

(* OVMB data type names (byte strings), the value type tag the executor    *)
(* uses for the C++ type, and the encoded element size (0: bit-packed      *)
(* bool, -1: length-prefixed string)                                       *)
OvmbTypes == <<
  [n |-> <<98>>, tag |-> "bool", sz |-> 0],
  [n |-> <<117,56>>, tag |-> "uint8", sz |-> 1],
  [n |-> <<117,49,54>>, tag |-> "uint16", sz |-> 2],
  [n |-> <<117,51,50>>, tag |-> "uint32", sz |-> 4],
  [n |-> <<117,54,52>>, tag |-> "uint64", sz |-> 8],
  [n |-> <<105,56>>, tag |-> "int8", sz |-> 1],
  [n |-> <<105,49,54>>, tag |-> "int16", sz |-> 2],
  [n |-> <<105,51,50>>, tag |-> "int32", sz |-> 4],
  [n |-> <<105,54,52>>, tag |-> "int64", sz |-> 8],
  [n |-> <<102>>, tag |-> "float", sz |-> 4],
  [n |-> <<100>>, tag |-> "double", sz |-> 8],
  [n |-> <<115,51,50>>, tag |-> "string", sz |-> -1],
  [n |-> <<118,104>>, tag |-> "VH", sz |-> 4],
  [n |-> <<101,104>>, tag |-> "EH", sz |-> 4],
  [n |-> <<104,101,104>>, tag |-> "HEH", sz |-> 4],
  [n |-> <<102,104>>, tag |-> "FH", sz |-> 4],
  [n |-> <<104,102,104>>, tag |-> "HFH", sz |-> 4],
  [n |-> <<99,104>>, tag |-> "CH", sz |-> 4],
  [n |-> <<50,100>>, tag |-> "Vec2d", sz |-> 16],
  [n |-> <<50,102>>, tag |-> "Vec2f", sz |-> 8],
  [n |-> <<50,117,51,50>>, tag |-> "Vec2ui", sz |-> 8],
  [n |-> <<50,105,51,50>>, tag |-> "Vec2i", sz |-> 8],
  [n |-> <<51,100>>, tag |-> "Vec3d", sz |-> 24],
  [n |-> <<51,102>>, tag |-> "Vec3f", sz |-> 12],
  [n |-> <<51,117,51,50>>, tag |-> "Vec3ui", sz |-> 12],
  [n |-> <<51,105,51,50>>, tag |-> "Vec3i", sz |-> 12],
  [n |-> <<52,100>>, tag |-> "Vec4d", sz |-> 32],
  [n |-> <<52,102>>, tag |-> "Vec4f", sz |-> 16],
  [n |-> <<52,117,51,50>>, tag |-> "Vec4ui", sz |-> 16],
  [n |-> <<52,105,51,50>>, tag |-> "Vec4i", sz |-> 16]
>>
TypeIndex(nameBytes) ==
  LET c == {i \in DOMAIN OvmbTypes : OvmbTypes[i].n = nameBytes} IN IF c = {} THEN 0 ELSE CHOOSE i \in c : TRUE
TypeIndexOfTag(tag) ==
  LET c == {i \in DOMAIN OvmbTypes : OvmbTypes[i].tag = tag} IN IF c = {} THEN 0 ELSE CHOOSE i \in c : TRUE

(* ----------------------------- file header ----------------------------- *)
ParseHeader(b) ==
  IF Len(b) < HeaderSize THEN Bad("Truncated:FileHeader", TRUE)
  ELSE IF Slice(b, 1, 8) # Magic THEN Bad("Magic", TRUE)
  ELSE IF b[10] # 1 THEN Bad("HeaderVersion", TRUE)
  ELSE IF b[12] > 2 THEN Bad("TopoTypeEnum", TRUE)
  ELSE IF Slice(b, 13, 4) # <<0, 0, 0, 0>> THEN Bad("HeaderReserved", TRUE)
  ELSE LET nv == U64(b, 17)  ne == U64(b, 25)  nf == U64(b, 33)  nc == U64(b, 41) IN
       IF Huge \in {nv, ne, nf, nc} THEN Bad("CountExceedsHandleRange", TRUE)
       ELSE IF b[11] # 3 THEN Bad("VertexDimNot3", FALSE)
       ELSE [ok |-> TRUE, fver |-> b[9], dim |-> b[11], topo |-> b[12], nv |-> nv, ne |-> ne, nf |-> nf, nc |-> nc]

(* ------------------------- float -> double bits ------------------------ *)
(* exact widening of an IEEE-754 binary32 (4 bytes LE) to binary64 (8      *)
(* bytes LE) for zeros and normal numbers; <<>> for subnormals, infinities *)
(* and NaNs (their widening is not needed for any demanded verdict)        *)
F2D(f) ==
  LET sign == f[4] \div 128
      e8   == (f[4] % 128) * 2 + f[3] \div 128
      m23  == (f[3] % 128) * 65536 + f[2] * 256 + f[1]
  IN IF e8 = 0 /\ m23 = 0 THEN <<0, 0, 0, 0, 0, 0, 0, sign * 128>>
     ELSE IF e8 = 0 \/ e8 = 255 THEN <<>>
     ELSE LET e11 == e8 + 896
              \* 52 bit mantissa = m23 * 2^29 : bytes 0..2 zero, byte 3 = (m23 % 8) * 32,
              \* byte 4 = (m23 / 8) % 256, byte 5 = (m23 / 2048) % 256, byte 6 low nibble = m23 / 2^19
          IN <<0, 0, 0, (m23 % 8) * 32, (m23 \div 8) % 256, (m23 \div 2048) % 256,
               (e11 % 16) * 16 + m23 \div 524288, sign * 128 + e11 \div 16>>
(* exact narrowing where it exists: binary64 -> binary32, <<>> if inexact *)
D2F(d) ==
  LET sign == d[8] \div 128
      e11  == (d[8] % 128) * 16 + d[7] \div 16
  IN IF e11 = 0 /\ d[7] = 0 /\ d[6] = 0 /\ d[5] = 0 /\ d[4] = 0 /\ d[3] = 0 /\ d[2] = 0 /\ d[1] = 0
       THEN <<0, 0, 0, sign * 128>>
     ELSE IF e11 < 897 \/ e11 > 1150 \/ d[1] # 0 \/ d[2] # 0 \/ d[3] # 0 \/ d[4] % 32 # 0 THEN <<>>
     ELSE LET e8  == e11 - 896
              m23 == (d[7] % 16) * 524288 + d[6] * 2048 + d[5] * 8 + d[4] \div 32
          IN <<m23 % 256, (m23 \div 256) % 256, (e8 % 2) * 128 + m23 \div 65536, sign * 128 + e8 \div 2>>

(* --------------------------- property payloads -------------------------- *)
(* values are byte tuples: the little-endian bytes of the element (bool:   *)
(* one byte 0/1, string: its characters without the length prefix)         *)
RECURSIVE DecodeStrings(_, _, _, _)
(* c strings from offset o, exactly filling up to offset e (exclusive) *)
DecodeStrings(b, o, e, c) ==
  IF c = 0 THEN (IF o = e THEN <<>> ELSE <<BadV>>)
  ELSE IF e - o < 4 THEN <<BadV>>
  ELSE LET n == U32(b, o) IN
       IF n = Huge \/ n > e - o - 4 THEN <<BadV>>
       ELSE LET rest == DecodeStrings(b, o + 4 + n, e, c - 1) IN
            IF rest # <<>> /\ rest[Len(rest)] = BadV THEN <<BadV>> ELSE <<Slice(b, o + 4, n)>> \o rest

(* count values of type index ty from the bytes b[o .. o+n-1]; "bad" marker on size mismatch *)
DecodeValues(b, o, n, ty, count) ==
  LET sz == OvmbTypes[ty].sz IN
  IF sz > 0 THEN (IF n # count * sz THEN <<BadV>> ELSE [i \in 1 .. count |-> Slice(b, o + (i - 1) * sz, sz)])
  ELSE IF sz = 0 THEN
       (IF n # (count + 7) \div 8 THEN <<BadV>>
        ELSE [i \in 1 .. count |-> << (b[o + (i - 1) \div 8] \div Pow2[((i - 1) % 8) + 1]) % 2 >>])
  ELSE DecodeStrings(b, o, o + n, count)

IsBadSeq(s) == s # <<>> /\ s[Len(s)] = BadV

(* the serialized default of a directory entry: one value *)
DecodeDefault(d, ty) ==
  LET sz == OvmbTypes[ty].sz IN
  IF sz > 0 THEN (IF Len(d) = sz THEN <<d>> ELSE <<BadV>>)
  ELSE IF sz = 0 THEN (IF Len(d) = 1 /\ d[1] \in {0, 1} THEN <<d>> ELSE <<BadV>>)
  ELSE DecodeStrings(d, 1, Len(d) + 1, 1)

(* ------------------------------ chunk decode ---------------------------- *)
(* DIRP payload b[o .. e-1] -> sequence of entries, or "bad" marker *)
RECURSIVE DecodeDir(_, _, _)
DecodeDir(b, o, e) ==
  IF o = e THEN <<>>
  ELSE IF e - o < 13 THEN <<[bad |-> "Truncated:DirEntry", strict |-> TRUE]>>
  ELSE IF b[o] > 6 THEN <<[bad |-> "PropEntityEnum", strict |-> TRUE]>>
  ELSE LET ln == U32(b, o + 1) IN
       IF ln = Huge \/ ln > e - o - 13 THEN <<[bad |-> "Truncated:DirEntry", strict |-> TRUE]>>
       ELSE LET o2 == o + 5 + ln   lt == U32(b, o2) IN
            IF lt = Huge \/ lt > e - o2 - 8 THEN <<[bad |-> "Truncated:DirEntry", strict |-> TRUE]>>
            ELSE LET o3 == o2 + 4 + lt   ld == U32(b, o3) IN
                 IF ld = Huge \/ ld > e - o3 - 4 THEN <<[bad |-> "Truncated:DirEntry", strict |-> TRUE]>>
                 ELSE LET tn == Slice(b, o2 + 4, lt)
                          ty == TypeIndex(tn)
                          d  == Slice(b, o3 + 4, ld)
                          dv == IF ty = 0 THEN <<d>> ELSE DecodeDefault(d, ty)
                          rest == DecodeDir(b, o3 + 4 + ld, e)
                      IN IF IsBadSeq(dv) THEN <<[bad |-> "DefaultSize", strict |-> FALSE]>>
                         ELSE IF rest # <<>> /\ "bad" \in DOMAIN rest[Len(rest)] THEN <<rest[Len(rest)]>>
                         ELSE <<[k |-> KindOf[b[o] + 1], name |-> Slice(b, o + 5, ln), ty |-> ty, tname |-> tn, def |-> dv[1]]>> \o rest

IsEnc(e) == e \in {0, 1, 2, 4}

(* TOPO payload at p (length n) *)
DecodeTopo(b, p, n) ==
  IF n < 24 THEN [kind |-> "BAD", why |-> "Truncated:TopoHeader", strict |-> TRUE]
  ELSE
  LET first == U64(b, p)        count == U32(b, p + 8)
      ent   == b[p + 12]        val   == b[p + 13]
      venc  == b[p + 14]        henc  == b[p + 15]
      hoff  == U64(b, p + 16)   d     == p + 24        dn == n - 24
  IN
  IF ent \notin {1, 2, 3} THEN [kind |-> "BAD", why |-> "TopoEntityEnum", strict |-> TRUE]
  ELSE IF ~IsEnc(venc) \/ ~IsEnc(henc) THEN [kind |-> "BAD", why |-> "IntEncodingEnum", strict |-> TRUE]
  ELSE IF count = 0 THEN [kind |-> "BAD", why |-> "TopoEmptySpan", strict |-> FALSE]
  ELSE IF henc = 0 THEN [kind |-> "BAD", why |-> "HandleEncodingNone", strict |-> TRUE]
  ELSE IF val # 0 /\ venc # 0 THEN [kind |-> "BAD", why |-> "ValenceEncodingWithFixedValence", strict |-> FALSE]
  ELSE IF val = 0 /\ venc = 0 THEN [kind |-> "BAD", why |-> "ValenceEncodingNone", strict |-> TRUE]
  ELSE IF count = Huge \/ count > dn THEN [kind |-> "BAD", why |-> "TopoSize", strict |-> TRUE]
  ELSE
  LET vals  == IF val # 0 THEN [i \in 1 .. count |-> val] ELSE [i \in 1 .. count |-> UE(b, d + (i - 1) * venc, venc)]
      vbytes == IF val # 0 THEN 0 ELSE count * venc
      sane  == vbytes <= dn /\ \A i \in 1 .. count : vals[i] # Huge /\ vals[i] <= dn
      start[i \in 0 .. count] == IF i = 0 THEN 0 ELSE Min2(start[i - 1] + vals[i], dn + 1)   \* handles before item i+1 (saturating)
      startv == [i \in 0 .. count |-> IF val # 0 THEN i * val ELSE start[i]]
  IN
  IF ~sane THEN [kind |-> "BAD", why |-> "TopoSize", strict |-> TRUE]
  ELSE IF startv[count] > dn \/ vbytes + startv[count] * henc # dn THEN [kind |-> "BAD", why |-> "TopoSize", strict |-> TRUE]
  ELSE [kind |-> "TOPO", ent |-> ent, first |-> first, count |-> count, fixed |-> val, hoff |-> hoff,
        items |-> [i \in 1 .. count |->
                     [j \in 1 .. vals[i] |-> UE(b, d + vbytes + (startv[i - 1] + j - 1) * henc, henc)]]]

DecodeVert(b, p, n, dim) ==
  IF n < 16 THEN [kind |-> "BAD", why |-> "Truncated:VertHeader", strict |-> TRUE]
  ELSE
  LET first == U64(b, p)  count == U32(b, p + 8)  enc == b[p + 12]  dn == n - 16  d == p + 16 IN
  IF enc \notin {0, 1, 2} THEN [kind |-> "BAD", why |-> "VertexEncodingEnum", strict |-> TRUE]
  ELSE IF Slice(b, p + 13, 3) # <<0, 0, 0>> THEN [kind |-> "BAD", why |-> "VertReserved", strict |-> TRUE]
  ELSE IF enc = 0 THEN [kind |-> "BAD", why |-> "VertexEncodingNone", strict |-> FALSE]
  ELSE IF count = Huge \/ count > dn \/ count * dim * (4 * enc) # dn
       THEN [kind |-> "BAD", why |-> "VertSize", strict |-> TRUE]
  ELSE LET pos == IF enc = 2 THEN [i \in 1 .. count |-> Slice(b, d + (i - 1) * 24, 24)]
                  ELSE [i \in 1 .. count |->
                          F2D(Slice(b, d + (i - 1) * 12, 4)) \o F2D(Slice(b, d + (i - 1) * 12 + 4, 4))
                          \o F2D(Slice(b, d + (i - 1) * 12 + 8, 4))]
       IN IF \E i \in 1 .. count : Len(pos[i]) # 24 THEN [kind |-> "BAD", why |-> "FloatSpecialValue", strict |-> FALSE]
          ELSE [kind |-> "VERT", first |-> first, count |-> count, pos |-> pos]

DecodeProp(b, p, n) ==
  IF n < 16 THEN [kind |-> "BAD", why |-> "Truncated:PropHeader", strict |-> TRUE]
  ELSE [kind |-> "PROP", first |-> U64(b, p), count |-> U32(b, p + 8), idx |-> U32(b, p + 12), o |-> p + 16, n |-> n - 16]

(* The chunk starting at offset o of file b (hdr = parsed file header).    *)
(* Result: chunk record with field len (bytes consumed incl. header).      *)
DecodeChunk(b, o, hdr) ==
  LET rem == Len(b) - o + 1 IN
  IF rem < ChunkHeaderSize THEN [kind |-> "BAD", why |-> "Truncated:ChunkHeader", strict |-> TRUE, len |-> 0]
  ELSE
  LET type == Slice(b, o, 4)   ver == b[o + 4]   pad == b[o + 5]   comp == b[o + 6]  flags == b[o + 7]
      flen == U64(b, o + 8)    p == o + 16
  IN
  IF flen = Huge \/ flen > rem - 16 THEN [kind |-> "BAD", why |-> "Truncated:ChunkLength", strict |-> TRUE, len |-> 0]
  ELSE IF pad > flen THEN [kind |-> "BAD", why |-> "PaddingExceedsLength", strict |-> TRUE, len |-> 0]
  ELSE
  LET n == flen - pad
      c == IF \E i \in 1 .. pad : b[p + n + i - 1] # 0 THEN [kind |-> "BAD", why |-> "PaddingNotZero", strict |-> TRUE]
           ELSE IF comp # 0 THEN [kind |-> "BAD", why |-> "CompressionNotZero", strict |-> TRUE]
           ELSE IF flags > 1 THEN [kind |-> "BAD", why |-> "UnknownChunkFlags", strict |-> FALSE]
           ELSE IF ver # 0 THEN (IF flags = 1 THEN [kind |-> "BAD", why |-> "MandatoryChunkVersion", strict |-> FALSE]
                                 ELSE [kind |-> "SKIP"])
           ELSE IF type = TagEOF THEN (IF n # 0 THEN [kind |-> "BAD", why |-> "EofChunkNotEmpty", strict |-> TRUE] ELSE [kind |-> "EOF"])
           ELSE IF type = TagVERT THEN DecodeVert(b, p, n, hdr.dim)
           ELSE IF type = TagTOPO THEN DecodeTopo(b, p, n)
           ELSE IF type = TagPROP THEN DecodeProp(b, p, n)
           ELSE IF type = TagDIRP THEN
                LET es == DecodeDir(b, p, p + n) IN
                IF es # <<>> /\ "bad" \in DOMAIN es[Len(es)] THEN [kind |-> "BAD", why |-> es[Len(es)].bad, strict |-> es[Len(es)].strict]
                ELSE [kind |-> "DIRP", entries |-> es]
           ELSE IF flags = 1 THEN [kind |-> "BAD", why |-> "UnknownMandatoryChunk", strict |-> FALSE]
           ELSE [kind |-> "SKIP"]
  IN [len |-> 16 + flen] @@ c

(* ------------------------------ the machine ----------------------------- *)
InitState(hdr) ==
  [hdr |-> hdr, nvr |-> 0, ner |-> 0, nfr |-> 0, ncr |-> 0,
   pos |-> <<>>, edges |-> <<>>, faces |-> <<>>, cells |-> <<>>,
   dirSeen |-> FALSE, dir |-> <<>>, vals |-> <<>>, eof |-> FALSE, bad |-> <<>>]

Fail(st, why, strict) == [st EXCEPT !.bad = Bad(why, strict)]

(* number of elements of a property kind read so far / declared in the header *)
CountRead(st, k) ==
  CASE k = "V" -> st.nvr [] k = "E" -> st.ner [] k = "F" -> st.nfr [] k = "C" -> st.ncr
    [] k = "HE" -> 2 * st.ner [] k = "HF" -> 2 * st.nfr [] k = "M" -> 1
CountDeclared(h, k) ==
  CASE k = "V" -> h.nv [] k = "E" -> h.ne [] k = "F" -> h.nf [] k = "C" -> h.nc
    [] k = "HE" -> (IF h.ne >= 1073741824 THEN Huge ELSE 2 * h.ne)
    [] k = "HF" -> (IF h.nf >= 1073741824 THEN Huge ELSE 2 * h.nf) [] k = "M" -> 1

(* handle after adding the chunk's offset; Huge if it cannot be a valid handle *)
AddOff(raw, off) == IF raw = Huge \/ off = Huge \/ raw >= 1073741824 \/ off >= 1073741824 THEN Huge ELSE raw + off
InRange(h, bound) == h # Huge /\ h < bound

SpanOK(first, count, read, total) == first = read /\ count # Huge /\ count <= total - read

(* b is only needed to decode PROP payloads (the element type comes from the directory) *)
ApplyChunk(b, st, c) ==
  IF st.eof THEN Fail(st, "ChunkAfterEof", TRUE)
  ELSE CASE c.kind = "BAD" -> Fail(st, c.why, c.strict)
    [] c.kind = "SKIP" -> st
    [] c.kind = "EOF" -> [st EXCEPT !.eof = TRUE]
    [] c.kind = "VERT" ->
         IF ~SpanOK(c.first, c.count, st.nvr, st.hdr.nv) THEN Fail(st, "VertSpan", TRUE)
         ELSE [st EXCEPT !.nvr = @ + c.count, !.pos = @ \o c.pos]
    [] c.kind = "TOPO" ->
         LET items == [i \in 1 .. c.count |-> [j \in DOMAIN c.items[i] |-> AddOff(c.items[i][j], c.hoff)]] IN
         IF c.ent = 1 THEN
              IF ~SpanOK(c.first, c.count, st.ner, st.hdr.ne) THEN Fail(st, "EdgeSpan", TRUE)
              ELSE IF c.fixed # 2 THEN Fail(st, "EdgeValenceNot2", TRUE)
              ELSE IF c.hoff = Huge THEN Fail(st, "HandleOffsetHuge", FALSE)
              ELSE IF \E i \in 1 .. c.count : \E j \in 1 .. 2 : ~InRange(items[i][j], st.nvr) THEN Fail(st, "VertexHandleRange", TRUE)
              ELSE [st EXCEPT !.ner = @ + c.count, !.edges = @ \o items]
         ELSE IF c.ent = 2 THEN
              IF ~SpanOK(c.first, c.count, st.nfr, st.hdr.nf) THEN Fail(st, "FaceSpan", TRUE)
              ELSE IF st.hdr.topo = 1 /\ c.fixed # 3 THEN Fail(st, "TetFaceValence", FALSE)
              ELSE IF st.hdr.topo = 2 /\ c.fixed # 4 THEN Fail(st, "HexFaceValence", FALSE)
              ELSE IF c.hoff = Huge THEN Fail(st, "HandleOffsetHuge", FALSE)
              ELSE IF \E i \in 1 .. c.count : \E j \in DOMAIN items[i] : ~InRange(items[i][j], 2 * st.ner) THEN Fail(st, "HalfEdgeHandleRange", TRUE)
              ELSE [st EXCEPT !.nfr = @ + c.count, !.faces = @ \o items]
         ELSE
              IF ~SpanOK(c.first, c.count, st.ncr, st.hdr.nc) THEN Fail(st, "CellSpan", TRUE)
              ELSE IF st.hdr.topo = 1 /\ c.fixed # 4 THEN Fail(st, "TetCellValence", FALSE)
              ELSE IF st.hdr.topo = 2 /\ c.fixed # 6 THEN Fail(st, "HexCellValence", FALSE)
              ELSE IF c.hoff = Huge THEN Fail(st, "HandleOffsetHuge", FALSE)
              ELSE IF \E i \in 1 .. c.count : \E j \in DOMAIN items[i] : ~InRange(items[i][j], 2 * st.nfr) THEN Fail(st, "HalfFaceHandleRange", TRUE)
              ELSE [st EXCEPT !.ncr = @ + c.count, !.cells = @ \o items]
    [] c.kind = "DIRP" ->
         IF st.dirSeen THEN Fail(st, "SecondPropertyDirectory", TRUE)
         ELSE IF \E i, j \in DOMAIN c.entries : i < j /\ c.entries[i].k = c.entries[j].k /\ c.entries[i].name = c.entries[j].name
              THEN Fail(st, "DuplicatePropertyName", FALSE)
         ELSE [st EXCEPT !.dirSeen = TRUE, !.dir = c.entries, !.vals = [i \in DOMAIN c.entries |-> <<>>]]
    [] c.kind = "PROP" ->
         IF c.idx = Huge \/ c.idx >= Len(st.dir) THEN Fail(st, "PropIndex", TRUE)
         ELSE LET e == st.dir[c.idx + 1] IN
         IF e.ty = 0 THEN st                                            \* unknown data type: skipped
         ELSE IF c.count = 0 THEN (IF c.n = 0 THEN st ELSE Fail(st, "PropSize", TRUE))
         ELSE LET nr == CountRead(st, e.k)   nd == CountDeclared(st.hdr, e.k) IN
         IF c.first = Huge \/ c.count = Huge THEN Fail(st, "PropSpan", TRUE)
         ELSE IF nd # Huge /\ (c.first >= nd \/ c.count > nd - c.first) THEN Fail(st, "PropSpan", TRUE)
         ELSE IF c.first >= nr \/ c.count > nr - c.first THEN Fail(st, "PropSpanBeforeEntities", FALSE)
         ELSE LET vs == DecodeValues(b, c.o, c.n, e.ty, c.count) IN
         IF IsBadSeq(vs) THEN Fail(st, "PropSize", TRUE)
         ELSE LET old == st.vals[c.idx + 1]
                  new == [i \in 1 .. Max2(Len(old), c.first + c.count) |->
                            IF i > c.first /\ i <= c.first + c.count THEN vs[i - c.first]
                            ELSE IF i <= Len(old) THEN old[i] ELSE e.def]
              \* SubSeq makes the sequence explicit (TLC keeps a function constructor lazy; a chain of
              \* hundreds of PROP chunks would otherwise be re-evaluated through every earlier chunk)
              IN [st EXCEPT !.vals[c.idx + 1] = SubSeq(new, 1, Max2(Len(old), c.first + c.count))]

Complete(st) == st.nvr = st.hdr.nv /\ st.ner = st.hdr.ne /\ st.nfr = st.hdr.nf /\ st.ncr = st.hdr.nc

Finish(st) ==
  IF st.bad # <<>> THEN st.bad
  ELSE IF ~st.eof THEN Bad("NoEofChunk", TRUE)
  ELSE IF ~Complete(st) THEN Bad("EntityCountsIncomplete", TRUE)
  ELSE LET h == st.hdr
           known == {i \in DOMAIN st.dir : st.dir[i].ty # 0}
           pr(i) == LET e == st.dir[i]  n == CountRead(st, e.k)  v == st.vals[i] IN
                    [k |-> e.k, name |-> e.name, t |-> OvmbTypes[e.ty].tag, def |-> e.def,
                     vals |-> [x \in 1 .. n |-> IF x <= Len(v) THEN v[x] ELSE e.def]]
       IN [ok |-> TRUE, fver |-> h.fver, topo |-> h.topo, nv |-> h.nv, ne |-> h.ne, nf |-> h.nf, nc |-> h.nc,
           pos |-> st.pos, edges |-> st.edges, faces |-> st.faces, cells |-> st.cells,
           props |-> {pr(i) : i \in known}]

(* The run of the machine over the chunks of a file.  Written as blocks of at most 48 chunks inside   *)
(* blocks of at most 48 blocks ...: TLC extends its evaluation context with every nested call, so a  *)
(* plain recursion over thousands of chunks costs quadratic time; the nesting keeps the depth small.  *)
(* r = [o |-> next offset, st |-> state]; a run stops at the end of the file or at the first error.   *)
RunDone(b, r) == r.st.bad # <<>> \/ r.o > Len(b)
RunOne(b, r) ==
  LET c == DecodeChunk(b, r.o, r.st.hdr) IN
  IF c.kind = "BAD" THEN [o |-> r.o, st |-> ApplyChunk(b, r.st, c)] ELSE [o |-> r.o + c.len, st |-> ApplyChunk(b, r.st, c)]
RECURSIVE RunBlock1(_, _, _)
RunBlock1(b, r, k) == IF k = 0 \/ RunDone(b, r) THEN r ELSE RunBlock1(b, RunOne(b, r), k - 1)
RECURSIVE RunBlock2(_, _, _)
RunBlock2(b, r, k) == IF k = 0 \/ RunDone(b, r) THEN r ELSE RunBlock2(b, RunBlock1(b, r, 48), k - 1)
RECURSIVE RunBlock3(_, _)
RunBlock3(b, r) == IF RunDone(b, r) THEN r ELSE RunBlock3(b, RunBlock2(b, r, 48))
RunChunks(b, o, st) == RunBlock3(b, [o |-> o, st |-> st]).st

ParseFile(b) ==
  LET h == ParseHeader(b) IN
  IF ~h.ok THEN h ELSE Finish(RunChunks(b, HeaderSize + 1, InitState(h)))

(* ------------------------ mesh projections (JSON) ----------------------- *)
(* the executor's projection of a mesh -> the comparable part *)
PropSet(ps) == {[k |-> ps[i].k, name |-> ps[i].name, t |-> ps[i].t, def |-> ps[i].def, vals |-> ps[i].vals] : i \in DOMAIN ps}
(* only the properties OVMB can carry *)
OvmbPropSet(ps) == {p \in PropSet(ps) : TypeIndexOfTag(p.t) # 0}

SameTopology(P, m) ==
  /\ P.nv = m.nv /\ P.ne = m.ne /\ P.nf = m.nf /\ P.nc = m.nc
  /\ P.edges = m.edges /\ P.faces = m.faces /\ P.cells = m.cells
SameMesh(P, m) == SameTopology(P, m) /\ P.pos = m.pos /\ P.props = OvmbPropSet(m.props)

(* the hexahedral kernel, with topology check on, re-orders the halffaces of a cell that is not in  *)
(* its convention (C16): such a read is compared up to the order of the halffaces within each cell *)
SameMeshUpToCellOrder(P, m) ==
  /\ P.nv = m.nv /\ P.ne = m.ne /\ P.nf = m.nf /\ P.nc = m.nc
  /\ P.edges = m.edges /\ P.faces = m.faces /\ P.pos = m.pos /\ P.props = OvmbPropSet(m.props)
  /\ Len(P.cells) = Len(m.cells)
  /\ \A i \in DOMAIN P.cells : Len(P.cells[i]) = Len(m.cells[i])
                                /\ {P.cells[i][j] : j \in DOMAIN P.cells[i]} = {m.cells[i][j] : j \in DOMAIN m.cells[i]}

(* C07: every stored handle designates an existing entity, every property has one element per entity *)
KindCount(m, k) ==
  CASE k = "V" -> m.nv [] k = "E" -> m.ne [] k = "F" -> m.nf [] k = "C" -> m.nc
    [] k = "HE" -> 2 * m.ne [] k = "HF" -> 2 * m.nf [] k = "M" -> 1
WellFormedMesh(m) ==
  /\ Len(m.pos) = m.nv /\ Len(m.edges) = m.ne /\ Len(m.faces) = m.nf /\ Len(m.cells) = m.nc
  /\ \A i \in DOMAIN m.edges : \A j \in DOMAIN m.edges[i] : m.edges[i][j] >= 0 /\ m.edges[i][j] < m.nv
  /\ \A i \in DOMAIN m.faces : \A j \in DOMAIN m.faces[i] : m.faces[i][j] >= 0 /\ m.faces[i][j] < 2 * m.ne
  /\ \A i \in DOMAIN m.cells : \A j \in DOMAIN m.cells[i] : m.cells[i][j] >= 0 /\ m.cells[i][j] < 2 * m.nf
  /\ \A i \in DOMAIN m.props : m.props[i].sz = KindCount(m, m.props[i].k)
                               /\ (m.props[i].t # "?" => Len(m.props[i].vals) = m.props[i].sz)

(* The topology type of a mesh (0 polyhedral, 1 tetrahedral, 2 hexahedral), as the automatic     *)
(* type detection has to see it: tetrahedral iff there is at least one cell, EVERY face of the    *)
(* mesh (also one that belongs to no cell) has valence 3 and every cell valence 4; hexahedral     *)
(* iff at least one cell, every face valence 4, every cell valence 6; polyhedral otherwise (in    *)
(* particular every mesh without cells).  Only such a mesh fits the specialised mesh types.       *)
AllFaceVal(m, n) == \A i \in DOMAIN m.faces : Len(m.faces[i]) = n
AllCellVal(m, n) == \A i \in DOMAIN m.cells : Len(m.cells[i]) = n
TopoTypeOf(m) ==
  IF m.nc > 0 /\ AllFaceVal(m, 3) /\ AllCellVal(m, 4) THEN 1
  ELSE IF m.nc > 0 /\ AllFaceVal(m, 4) /\ AllCellVal(m, 6) THEN 2 ELSE 0
(* topology type the header must carry for a mesh written from mesh type mt with AutoDetect: a    *)
(* specialised mesh type fixes it, a polyhedral mesh is looked at                                  *)
DetectTopo(m, mt) == IF mt = "tet" THEN 1 ELSE IF mt = "hex" THEN 2 ELSE TopoTypeOf(m)
TopoOf(tt) == IF tt = "tet" THEN 1 ELSE IF tt = "hex" THEN 2 ELSE 0
(* a file of topology type t can be read into a mesh of type mt *)
Compatible(t, mt) == mt = "poly" \/ (mt = "tet" /\ t = 1) \/ (mt = "hex" /\ t = 2)

(* the logical content of a mesh with pending deletions: live entities,    *)
(* order preserved, references renumbered (what garbage collection without  *)
(* reordering leaves)                                                       *)
HasDeleted(m) == (\E i \in DOMAIN m.vdel : m.vdel[i]) \/ (\E i \in DOMAIN m.edel : m.edel[i])
                 \/ (\E i \in DOMAIN m.fdel : m.fdel[i]) \/ (\E i \in DOMAIN m.cdel : m.cdel[i])
(* increasing sequence of the live 1-based slots *)
Sel(del) ==
  LET live == {i \in DOMAIN del : ~del[i]} IN
  [k \in 1 .. Cardinality(live) |-> CHOOSE i \in live : Cardinality({j \in live : j < i}) = k - 1]
(* new 0-based handle of the live 0-based handle h *)
NewIdx(del, h) == Cardinality({j \in 1 .. h : ~del[j]})
Logical(m) ==
  LET sv == Sel(m.vdel)  se == Sel(m.edel)  sf == Sel(m.fdel)  sc == Sel(m.cdel)
      rv(v)  == NewIdx(m.vdel, v)
      rhe(h) == 2 * NewIdx(m.edel, h \div 2) + (h % 2)
      rhf(h) == 2 * NewIdx(m.fdel, h \div 2) + (h % 2)
      pick(p) ==
        CASE p.k = "V" -> [i \in DOMAIN sv |-> p.vals[sv[i]]]
          [] p.k = "E" -> [i \in DOMAIN se |-> p.vals[se[i]]]
          [] p.k = "F" -> [i \in DOMAIN sf |-> p.vals[sf[i]]]
          [] p.k = "C" -> [i \in DOMAIN sc |-> p.vals[sc[i]]]
          [] p.k = "HE" -> [i \in 1 .. 2 * Len(se) |-> p.vals[2 * (se[(i + 1) \div 2] - 1) + 2 - (i % 2)]]
          [] p.k = "HF" -> [i \in 1 .. 2 * Len(sf) |-> p.vals[2 * (sf[(i + 1) \div 2] - 1) + 2 - (i % 2)]]
          [] p.k = "M" -> p.vals
  IN [nv |-> Len(sv), ne |-> Len(se), nf |-> Len(sf), nc |-> Len(sc), needs_gc |-> FALSE,
      pos   |-> [i \in DOMAIN sv |-> m.pos[sv[i]]],
      edges |-> [i \in DOMAIN se |-> <<rv(m.edges[se[i]][1]), rv(m.edges[se[i]][2])>>],
      faces |-> [i \in DOMAIN sf |-> [j \in DOMAIN m.faces[sf[i]] |-> rhe(m.faces[sf[i]][j])]],
      cells |-> [i \in DOMAIN sc |-> [j \in DOMAIN m.cells[sc[i]] |-> rhf(m.cells[sc[i]][j])]],
      vdel |-> [i \in DOMAIN sv |-> FALSE], edel |-> [i \in DOMAIN se |-> FALSE],
      fdel |-> [i \in DOMAIN sf |-> FALSE], cdel |-> [i \in DOMAIN sc |-> FALSE],
      props |-> [i \in DOMAIN m.props |-> [m.props[i] EXCEPT !.vals = pick(m.props[i]), !.sz = Len(pick(m.props[i]))]]]

(* what add_face / add_cell with topology check accept (TopologyKernel):   *)
(* a face is a non-empty closed chain of halfedges; the oriented halfedges  *)
(* of a cell's halffaces are pairwise distinct and every edge is used       *)
(* exactly twice.  m is a projection or a ParseFile result.                 *)
HeFrom(m, h) == m.edges[(h \div 2) + 1][(h % 2) + 1]
HeTo(m, h)   == m.edges[(h \div 2) + 1][2 - (h % 2)]
FaceChainOK(m, f) ==
  Len(f) > 0 /\ \A i \in DOMAIN f : HeTo(m, f[i]) = HeFrom(m, f[(i % Len(f)) + 1])
Opp(h) == IF h % 2 = 0 THEN h + 1 ELSE h - 1
CellClosedOK(m, c) ==
  LET hes == [i \in DOMAIN c |-> LET f == m.faces[c[i] \div 2 + 1] IN
                                 IF c[i] % 2 = 0 THEN f ELSE [j \in DOMAIN f |-> Opp(f[j])]]
      all == UNION {{hes[i][j] : j \in DOMAIN hes[i]} : i \in DOMAIN c}
      n   == LET RECURSIVE sum(_)
                 sum(i) == IF i = 0 THEN 0 ELSE Len(hes[i]) + sum(i - 1)
             IN sum(Len(c))
  IN Len(c) > 0 /\ Cardinality(all) = n /\ n = 2 * Cardinality({h \div 2 : h \in all})
TopoCheckOK(m) ==
  /\ \A i \in DOMAIN m.faces : FaceChainOK(m, m.faces[i])
  /\ \A i \in DOMAIN m.cells : CellClosedOK(m, m.cells[i])

(* projection against projection; ignoreDef for formats that do not store defaults *)
DropDef(ps) == {[k |-> p.k, name |-> p.name, t |-> p.t, vals |-> p.vals] : p \in ps}
MeshEq(m1, m2, ignoreDef) ==
  /\ m1.nv = m2.nv /\ m1.ne = m2.ne /\ m1.nf = m2.nf /\ m1.nc = m2.nc
  /\ m1.pos = m2.pos /\ m1.edges = m2.edges /\ m1.faces = m2.faces /\ m1.cells = m2.cells
  /\ IF ignoreDef THEN DropDef(OvmbPropSet(m1.props)) = DropDef(OvmbPropSet(m2.props))
     ELSE OvmbPropSet(m1.props) = OvmbPropSet(m2.props)

(* the only sizes an OVMB reader has to allocate before seeing the data are the header counts *)
DeclaresLargeSize(b) ==
  Len(b) >= HeaderSize /\ \E o \in {17, 25, 33, 41} : LET n == U64(b, o) IN n = Huge \/ n >= 16777216
=============================================================================
