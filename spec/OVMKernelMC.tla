----------------------------- MODULE OVMKernelMC -----------------------------
(***************************************************************************)
(* Model checking (role M) and behaviour generation (role G) for the       *)
(* kernel model.                                                           *)
(*                                                                         *)
(* Init is a SET of seed meshes, each built by folding Apply over a script *)
(* of public calls, in every requested (deferred x fast) mode and          *)
(* incidence subset.  Next explores every history over HistOps up to       *)
(* Depth-1 calls followed by one call of TargetOps with all its in-        *)
(* contract argument tuples.  Every explored step is checked against the   *)
(* declarative layer (variable bad, invariant NoBad) and, when Emit is     *)
(* TRUE, printed as a complete script for replay on the implementation.    *)
(***************************************************************************)
EXTENDS OVMKernelDefs, Json

CONSTANTS Depth,        \* maximal number of calls after the seed
          SeedIds,      \* subset of 0 .. 9
          Modes,        \* set of <<deferred, fast>>
          BUSets,       \* set of <<vbu, ebu, fbu>>
          HistOps,      \* alphabet of the history
          TargetOps,    \* alphabet of the last call
          MaxList,      \* longest handle list for add_face / add_cell targets
          Emit          \* "none" | "tree" (every explored transition) | "sim" (every simulated step)

VARIABLES s, path, org, done, bad
vars == <<s, path, org, done, bad>>

K(op, a, b, l, f) == Call(op, a, b, l, f)
K0(op)        == K(op, 0, 0, <<>>, FALSE)
KF(op, f)     == K(op, 0, 0, <<>>, f)
KA(op, a)     == K(op, a, 0, <<>>, FALSE)
KL(op, l)     == K(op, 0, 0, l, FALSE)
KLF(op, l, f) == K(op, 0, 0, l, f)

(* ------------------------------- seeds --------------------------------- *)
NV(n) == <<KA("add_n_vertices", n)>>
FV(l) == KL("add_face_v", l)
(* one tetrahedron on vertices 0..3; faces 0..3, cell of halffaces 0,2,4,6 *)
TetFaces == << FV(<<0, 2, 1>>), FV(<<0, 1, 3>>), FV(<<1, 2, 3>>), FV(<<0, 3, 2>>) >>
Tet1 == NV(4) \o TetFaces \o << KLF("add_cell", <<0, 2, 4, 6>>, TRUE) >>
(* second tetrahedron 1,2,3,4 behind face 2 (uses halfface 5) *)
Tet2Faces == << FV(<<2, 3, 4>>), FV(<<1, 2, 4>>), FV(<<3, 1, 4>>) >>
Tet2 == NV(5) \o TetFaces \o Tet2Faces \o
        << KLF("add_cell", <<0, 2, 4, 6>>, TRUE), KLF("add_cell", <<5, 8, 10, 12>>, TRUE) >>
(* three tetrahedra around the edge (0,1): ring 2,3,4 *)
FanFaces == << FV(<<0, 1, 2>>), FV(<<0, 1, 3>>), FV(<<0, 1, 4>>),     \* faces 0,1,2 at the edge
               FV(<<0, 2, 3>>), FV(<<1, 3, 2>>),                       \* 3,4: tet A = 0,1,2,3
               FV(<<0, 3, 4>>), FV(<<1, 4, 3>>),                       \* 5,6: tet B = 0,1,3,4
               FV(<<0, 4, 2>>), FV(<<1, 2, 4>>) >>                     \* 7,8: tet C = 0,1,4,2
FanA == KLF("add_cell", <<1, 2, 7, 9>>, TRUE)
FanB == KLF("add_cell", <<3, 4, 11, 13>>, TRUE)
FanC == KLF("add_cell", <<5, 0, 15, 17>>, TRUE)
(* triangular prism: quads and triangles in one cell *)
Prism == NV(6) \o << FV(<<0, 2, 1>>), FV(<<0, 1, 4, 3>>), FV(<<1, 2, 5, 4>>), FV(<<2, 0, 3, 5>>), FV(<<3, 4, 5>>),
                      KLF("add_cell", <<0, 2, 4, 6, 8>>, TRUE) >>
(* a second tetrahedron 0,1,4,5 that shares only the edge (0,1) with the first *)
EdgeShare == NV(6) \o TetFaces \o << FV(<<0, 4, 1>>), FV(<<0, 1, 5>>), FV(<<1, 4, 5>>), FV(<<0, 5, 4>>),
                      KLF("add_cell", <<0, 2, 4, 6>>, TRUE), KLF("add_cell", <<8, 10, 12, 14>>, TRUE) >>
(* degenerate faces: a loop edge carrying a face of valence 1, parallel edges carrying a 2-gon, *)
(* one edge carrying a 2-gon on its two halfedges                                            *)
Degenerate == NV(3) \o << K("add_edge", 0, 0, <<>>, TRUE), KLF("add_face", <<0>>, TRUE),
                          K("add_edge", 0, 1, <<>>, FALSE), K("add_edge", 1, 0, <<>>, TRUE),
                          KLF("add_face", <<2, 4>>, TRUE), K("add_edge", 1, 2, <<>>, FALSE),
                          KLF("add_face", <<6, 7>>, TRUE) >>   \* a 2-gon on both halfedges of ONE edge: a single halfface of it is a closed surface

(* square pyramid whose base edges exist beforehand in mixed directions and order, so that the *)
(* faces use odd halfedges and edge handles are not in face order (12: with the cell, 13: faces only) *)
PyramidFaces == NV(5) \o << K("add_edge", 1, 0, <<>>, FALSE), K("add_edge", 1, 2, <<>>, FALSE),
                            K("add_edge", 3, 2, <<>>, FALSE), K("add_edge", 3, 0, <<>>, FALSE),
                            FV(<<0, 3, 2, 1>>), FV(<<0, 1, 4>>), FV(<<1, 2, 4>>), FV(<<2, 3, 4>>), FV(<<3, 0, 4>>) >>
(* a dangling triangle created FIRST, then a tetrahedron whose faces are stored inward so *)
(* that its cell lists only odd halffaces                                               *)
InwardTet == NV(7) \o << FV(<<4, 5, 6>>), FV(<<0, 1, 2>>), FV(<<0, 3, 1>>), FV(<<1, 3, 2>>), FV(<<0, 2, 3>>),
                         KLF("add_cell", <<3, 5, 7, 9>>, TRUE) >>
SeedScript(k) ==
  CASE k = 0 -> <<>>
    [] k = 1 -> Tet1
    [] k = 2 -> Tet2
    [] k = 3 -> NV(5) \o FanFaces \o <<FanA, FanB, FanC>>
    [] k = 7 -> NV(5) \o FanFaces \o <<FanB, FanA>>
    [] k = 8 -> NV(5) \o FanFaces \o <<FanC, FanA, FanB>>
    [] k = 4 -> Tet1 \o << K0("add_vertex"), K0("add_vertex"), K0("add_vertex"), K0("add_vertex"),
                           K("add_edge", 4, 5, <<>>, FALSE), K("add_edge", 0, 4, <<>>, FALSE),
                           FV(<<5, 6, 7>>) >>
    [] k = 5 -> NV(3) \o << FV(<<0, 1, 2>>), FV(<<0, 1, 2>>), KLF("add_cell", <<0, 3>>, TRUE) >>
    [] k = 12 -> PyramidFaces \o << KLF("add_cell", <<0, 2, 4, 6, 8>>, TRUE) >>
    [] k = 13 -> PyramidFaces
    [] k = 14 -> InwardTet
    [] k = 9 -> Prism
    [] k = 10 -> EdgeShare
    [] k = 11 -> Degenerate
    [] k = 6 -> NV(3) \o << K("add_edge", 0, 1, <<>>, FALSE), K("add_edge", 0, 1, <<>>, TRUE),
                            K("add_edge", 1, 0, <<>>, TRUE), K("add_edge", 1, 2, <<>>, FALSE) >>

ModeCalls(md, bu) ==
  << KF("enable_deferred", md[1]), KF("enable_fast", md[2]),
     KF("enable_vbu", bu[1]), KF("enable_ebu", bu[2]), KF("enable_fbu", bu[3]) >>

Run(s0, script) == FoldLeft(LAMBDA st, c : Tag(Apply(st, c)), s0, script)

(* ------------------ in-contract argument enumeration ------------------- *)
FreeHF(st) == {h \in LiveHF(st) : CellsOfHF(st, h) = {}}
KSub(k, S) == IF Cardinality(S) < k THEN {} ELSE kSubset(k, S)
SeqsUpTo(S, n) == UNION {[1 .. k -> S] : k \in 0 .. n}

CallsOf(st, op) ==
  CASE op = "add_vertex" -> {K0(op)}
    [] op = "add_n_vertices" -> {KA(op, 1), KA(op, 2)}
    [] op = "add_edge" -> {K(op, a, b, <<>>, d) : <<a, b, d>> \in
                              {t \in LiveV(st) \X LiveV(st) \X BOOLEAN : t[1] # t[2]}}
    [] op = "add_face_v" -> {KL(op, <<t[1], t[2], t[3]>>) : t \in
                              {t \in LiveV(st) \X LiveV(st) \X LiveV(st) :
                                  t[1] < t[2] /\ t[1] < t[3] /\ t[2] # t[3]}}
                            \cup {KL(op, <<t[1], t[2]>>) : t \in          \* 2-gons
                              {t \in LiveV(st) \X LiveV(st) : t[1] < t[2]}}
    [] op = "add_face" -> {KLF(op, l, TRUE) : l \in SeqsUpTo(LiveHE(st), MaxList)}
                          \cup {KLF(op, l, FALSE) : l \in {l \in SeqsUpTo(LiveHE(st), MaxList) : ClosedLoop(st, l)}}
    [] op = "add_cell" -> {KLF(op, l, TRUE) : l \in SeqsUpTo(FreeHF(st), MaxList)}
    [] op = "add_cell_closed" ->
          {KLF("add_cell", SortedSeq(x[1]), x[2]) : x \in
              {y \in (KSub(2, FreeHF(st)) \cup KSub(3, FreeHF(st)) \cup KSub(4, FreeHF(st))) \X BOOLEAN :
                  ClosedSurface(st, SortedSeq(y[1]))}}
    [] op = "set_edge_v" ->   \* re-target an edge that no live face uses
          {K("set_edge", e, 0, <<t[1], t[2]>>, FALSE) : <<e, t>> \in
              {x \in LiveE(st) \X (LiveV(st) \X LiveV(st)) :
                  x[2][1] # x[2][2] /\ \A f \in LiveF(st) : \A he \in Rng(At(st.faces, f)) : Full(he) # x[1]}}
    [] op = "set_face_rot" -> \* the same loop, rotated by one; the opposite loop if no cell uses the face
          {K("set_face", f, 0, Tail(At(st.faces, f)) \o <<Head(At(st.faces, f))>>, FALSE) : f \in {g \in LiveF(st) : At(st.faces, g) # <<>>}}
          \cup {K("set_face", f, 0, Rev(MapSeq(Opp, At(st.faces, f))), FALSE) :
                   f \in {g \in LiveF(st) : CellsOfHF(st, 2 * g) = {} /\ CellsOfHF(st, 2 * g + 1) = {}}}
    [] op = "set_cell_perm" -> {K("set_cell", c, 0, Rev(At(st.cells, c)), FALSE) : c \in LiveC(st)}
    [] op = "delete_vertex" -> {KA(op, v) : v \in LiveV(st)}
    [] op = "delete_edge"   -> {KA(op, e) : e \in LiveE(st)}
    [] op = "delete_face"   -> {KA(op, f) : f \in LiveF(st)}
    [] op = "delete_cell"   -> {KA(op, c) : c \in LiveC(st)}
    [] op = "collect_garbage" -> {K0(op)}
    [] op = "swap_vertices" -> {K(op, a, b, <<>>, FALSE) : <<a, b>> \in (0 .. (st.nv - 1)) \X (0 .. (st.nv - 1))}
    [] op = "swap_edges"    -> {K(op, a, b, <<>>, FALSE) : <<a, b>> \in Hs(st.edges) \X Hs(st.edges)}
    [] op = "swap_faces"    -> {K(op, a, b, <<>>, FALSE) : <<a, b>> \in Hs(st.faces) \X Hs(st.faces)}
    [] op = "swap_cells"    -> {K(op, a, b, <<>>, FALSE) : <<a, b>> \in Hs(st.cells) \X Hs(st.cells)}
    [] op \in {"enable_deferred", "enable_fast", "enable_vbu", "enable_ebu", "enable_fbu"} ->
          {KF(op, TRUE), KF(op, FALSE)}
    [] op = "clear" -> {KF(op, TRUE), KF(op, FALSE)}
    [] op = "enable_bu" -> {KF(op, TRUE), KF(op, FALSE)}
    [] op = "reorder" -> {KA(op, e) : e \in LiveE(st)}
    [] op = "reserve" -> {K(op, k, 7, <<>>, FALSE) : k \in 0 .. 3}
    [] op = "more_props" -> {K0(op)}      \* the executor creates a further family of properties (C03: mid-history)
    [] op = "status_gc" ->   \* marks: every single entity, plus some pairs; manifold flag; track all / none
          LET one(k, h) == IF k = "V" THEN <<1, h, 0, 0, 0>> ELSE IF k = "E" THEN <<0, 1, h, 0, 0>>
                           ELSE IF k = "F" THEN <<0, 0, 1, h, 0>> ELSE <<0, 0, 0, 1, h>>
              singles == {one("V", h) : h \in LiveV(st)} \cup {one("E", h) : h \in LiveE(st)}
                         \cup {one("F", h) : h \in LiveF(st)} \cup {one("C", h) : h \in LiveC(st)}
              pairs == {<<1, v, 0, 0, 1, c>> : <<v, c>> \in LiveV(st) \X LiveC(st)}
                       \cup {<<0, 1, e, 1, f, 0>> : <<e, f>> \in {x \in LiveE(st) \X LiveF(st) : x[1] % 3 = 0}}
              none == {<<0, 0, 0, 0>>}
          IN {K(op, tr, 0, l, mf) : <<tr, l, mf>> \in {0, 1} \X (singles \cup pairs \cup none) \X BOOLEAN}

Calls(st, ops) == UNION {CallsOf(st, op) : op \in ops}

(* ----------------- checks of the model against the oracles ------------- *)
AllOn(st) == EnableFBU(EnableEBU(EnableVBU(st, TRUE), TRUE), TRUE)
Core(st) == [nv |-> st.nv, vdel |-> st.vdel, edel |-> st.edel, fdel |-> st.fdel, cdel |-> st.cdel,
             ndv |-> st.ndv, nde |-> st.nde, ndf |-> st.ndf, ndc |-> st.ndc,
             edges |-> [i \in 1 .. Len(st.edges) |-> IF st.edel[i] THEN <<>> ELSE st.edges[i]],
             faces |-> [i \in 1 .. Len(st.faces) |-> IF st.fdel[i] THEN <<>> ELSE st.faces[i]],
             cells |-> [i \in 1 .. Len(st.cells) |-> IF st.cdel[i] THEN <<>> ELSE st.cells[i]],
             deferred |-> st.deferred, fast |-> st.fast,
             pV |-> st.pV, pE |-> st.pE, pHE |-> st.pHE, pF |-> st.pF, pHF |-> st.pHF, pC |-> st.pC,
             ret |-> st.ret]

SetOps == {"set_edge", "set_face", "set_cell"}
ModelCheck(pre, c, m, tainted) ==
  IF m.err # "" THEN "NoInternalError:" \o m.err
  ELSE IF ~WellFormed(m) THEN "WellFormed"
  ELSE IF ~CountersConsistent(m) THEN "CountersConsistent"
  ELSE IF ~m.deferred /\ NeedsGC(m) THEN "ImmediateModeHasNoPendingDeletions"   \* leaving deferred mode collects
  ELSE IF ~StepRel(pre, c, m, m.ret, ModelMap(m)) THEN "StepRel"
  ELSE IF IsDelete(c) /\ IterFrom(DelFlagsOf(m, c), m.ret) # DeleteRetExpected(pre, c, m) THEN "DeleteRet"
  ELSE IF ~ModelPropsAligned(pre, m) THEN "PropsAligned"
  ELSE IF Manifoldish(m) /\ ~CacheIsInverse(m) THEN "CacheIsInverse"
  ELSE IF ~tainted /\ Manifoldish(m) /\ ~FanOrder(m) THEN "FanOrder"
  ELSE IF ~(IsEnableBU(c)) /\ Core(Apply(AllOn(pre), c)) # Core(m) THEN "BUTransparent"
  ELSE ""

(* named constant values for the .cfg files *)
ModesAll     == BOOLEAN \X BOOLEAN
ModesDefault == {<<TRUE, TRUE>>}
ModesImmediate == {<<FALSE, FALSE>>, <<FALSE, TRUE>>}
ModesDeferred == {<<TRUE, FALSE>>, <<TRUE, TRUE>>}
ModesTwo     == {<<TRUE, TRUE>>, <<FALSE, FALSE>>}
BUTwo        == {<<TRUE, TRUE, TRUE>>, <<FALSE, FALSE, FALSE>>}
BUAll        == BOOLEAN \X BOOLEAN \X BOOLEAN
BUOn         == {<<TRUE, TRUE, TRUE>>}
NoOps        == {}

(* ------------------------------ behaviour ------------------------------ *)
Init ==
  \E k \in SeedIds, md \in Modes, bu \in BUSets :
     /\ org = [key |-> <<k, md[1], md[2], bu[1], bu[2], bu[3]>>,
               script |-> ModeCalls(md, bu) \o SeedScript(k)]
     /\ s = Run(Empty, org.script)
     /\ path = <<>> /\ done = FALSE /\ bad = ""

Step(c, last) ==
  LET m == Apply(s, c) IN
  /\ s' = Tag(m)
  /\ path' = Append(path, c)
  /\ done' = last
  /\ bad' = ModelCheck(s, c, m, c.op \in SetOps \/ \E i \in DOMAIN path : path[i].op \in SetOps)
  /\ UNCHANGED org

Next ==
  /\ ~done /\ bad = ""
  /\ \/ Len(path) < Depth - 1 /\ \E c \in Calls(s, HistOps) : Step(c, FALSE)
     \/ Len(path) < Depth /\ \E c \in Calls(s, TargetOps) : Step(c, TRUE)

Spec == Init /\ [][Next]_vars

(* simulation: one randomly chosen enabled call per step *)
SimNext ==
  /\ bad = "" /\ Len(path) < Depth - 1
  /\ LET cs == Calls(s, HistOps) IN
     cs # {} /\ \E c \in {RandomElement(cs)} : Step(c, FALSE)
SimSpec == Init /\ [][SimNext]_vars

View == <<s, done, bad>>
(* Two histories that end in the same model state need not end in the same  *)
(* implementation state when the code is wrong (a stale cache is invisible   *)
(* to the model).  Configurations whose point is the history itself are run  *)
(* with this view: no merging, TLC explores the full call tree.              *)
ViewTree == <<s, path, done, bad>>
NoBad == bad = ""

EmitStep ==
  CASE Emit = "tree" ->
         /\ (path = <<>> => PrintT(<<"ORG", ToJson([key |-> org.key, script |-> org.script])>>))
         /\ PrintT(<<"EMIT", ToJson([key |-> org.key, path |-> path'])>>)
    [] OTHER -> TRUE

(* simulation: the chosen behaviour is printed once, when it reaches its   *)
(* final length (an invariant is evaluated on the chosen states only)      *)
SimEmit == (Emit = "sim" /\ Len(path) = Depth - 2) =>
              PrintT(<<"SIM", ToJson([key |-> org.key, script |-> org.script, path |-> path])>>)

(* seeds are well-formed, closed where they claim to be, caches inverse *)
ExpectedCells(k) == CASE k \in {0, 6, 11, 13} -> 0 [] k \in {1, 4, 5, 9, 12, 14} -> 1 [] k \in {2, 7, 10} -> 2 [] k \in {3, 8} -> 3
SeedOK == (path = <<>>) => /\ WellFormed(s) /\ CacheIsInverse(s) /\ FanOrder(s) /\ s.err = ""
                           /\ Len(s.cells) = ExpectedCells(org.key[1])   \* every add_cell of the seed script was accepted
=============================================================================
