------------------------------ MODULE OVMReaders ------------------------------
(***************************************************************************)
(* C20: concurrent read-only use of one mesh.                              *)
(*                                                                         *)
(* N reader processes each run a program (a sequence) of CONST queries     *)
(* against one fixed mesh state.  A query is executed in two steps that    *)
(* other readers may interleave with - Begin (the query reads the mesh     *)
(* into its scratch storage: the locals of the function, the members of    *)
(* the circulator object) and End (the answer is delivered from the        *)
(* scratch storage).  Neither step changes the mesh: every step of every   *)
(* reader is a stuttering step on the mesh state (the frame condition),    *)
(* and the answer delivered equals the sequential definition Eval(mesh,q). *)
(* TLC explores ALL interleavings (OVMReadersMC.tla).                      *)
(*                                                                         *)
(* The constant Hazard selects where the scratch storage lives:            *)
(*   "none"           in the reader itself (what the implementation does:  *)
(*                    TopologyKernel.cc keeps scratch state in locals / in *)
(*                    the circulator object; nothing is computed lazily)   *)
(*   "shared_scratch" one buffer shared by all readers (a function-local   *)
(*                    static, a scratch vector kept in the mesh)           *)
(*   "lazy_cache"     a cache inside the mesh that the first query fills   *)
(* The two hazards are the ways in which a const accessor could stop being *)
(* thread-safe; TLC must REJECT them (OVMReadersMC checks that it does),   *)
(* which shows that the invariants below are not vacuous.                  *)
(*                                                                         *)
(* The module also defines, over the projection of a real mesh as the      *)
(* executor logs it, the sequential definition Eval of a core of the query *)
(* alphabet and the alphabet itself (every in-contract argument of every   *)
(* const query), from which OVMReadersGen.tla generates the programs that  *)
(* harness/readers_exec runs with 2..16 threads.                           *)
(***************************************************************************)
EXTENDS OVMReadersDefs

(* ------------------------- the reader processes ------------------------ *)
CONSTANTS Readers,     \* set of reader ids
          Mesh0,       \* the fixed mesh (a record as above)
          Hazard       \* "none" | "shared_scratch" | "lazy_cache"

VARIABLES mesh,        \* the mesh state (never changes when Hazard = "none")
          progs,       \* program of each reader (chosen in Init, then constant)
          pc,          \* index of the query a reader is about to run / is running
          phase,       \* "idle" | "mid": between Begin and End of a query
          local,       \* reader-local scratch storage
          shared,      \* scratch storage shared by all readers (used by the hazard only)
          res          \* answers delivered so far, per reader

rvars == <<mesh, progs, pc, phase, local, shared, res>>

(* what a query reads from the mesh into its scratch storage.  With the    *)
(* lazy-cache hazard the definitions are read through a cache kept in the  *)
(* mesh that is valid only after somebody filled it.                       *)
Read(m, q) ==
  IF Hazard = "lazy_cache" /\ ~m.cache_valid THEN [kind |-> "seq", val |-> <<>>]    \* a half-built cache is read as empty
  ELSE Eval(m, q)

Begin(r) ==
  /\ phase[r] = "idle" /\ pc[r] <= Len(progs[r])
  /\ LET q == progs[r][pc[r]] IN
     CASE Hazard = "none" ->
            /\ local' = [local EXCEPT ![r] = Read(mesh, q)]
            /\ UNCHANGED <<mesh, shared>>
       [] Hazard = "shared_scratch" ->
            /\ shared' = Read(mesh, q)
            /\ UNCHANGED <<mesh, local>>
       [] Hazard = "lazy_cache" ->
            /\ local' = [local EXCEPT ![r] = Read(mesh, q)]
            /\ mesh' = (IF mesh.cache_valid THEN mesh ELSE [mesh EXCEPT !.cache_valid = TRUE])   \* the first reader fills the cache
            /\ UNCHANGED shared
  /\ phase' = [phase EXCEPT ![r] = "mid"]
  /\ UNCHANGED <<progs, pc, res>>

End(r) ==
  /\ phase[r] = "mid"
  /\ res' = [res EXCEPT ![r] = Append(@, IF Hazard = "shared_scratch" THEN shared ELSE local[r])]
  /\ pc' = [pc EXCEPT ![r] = @ + 1]
  /\ phase' = [phase EXCEPT ![r] = "idle"]
  /\ UNCHANGED <<mesh, progs, local, shared>>

RNext == \E r \in Readers : Begin(r) \/ End(r)

RInit(ProgSet) ==
  /\ mesh = Mesh0
  /\ progs \in [Readers -> ProgSet]
  /\ pc = [r \in Readers |-> 1]
  /\ phase = [r \in Readers |-> "idle"]
  /\ local = [r \in Readers |-> Sq(<<>>)]
  /\ shared = Sq(<<>>)
  /\ res = [r \in Readers |-> <<>>]

(* the property *)
Frame == mesh = Mesh0                                             \* a const query is a stuttering step on the mesh
Deterministic == \A r \in Readers : \A i \in 1 .. Len(res[r]) : res[r][i] = Eval(Mesh0, progs[r][i])
MeshNeverChanges == [][mesh' = mesh]_rvars
=============================================================================
