---------------------------- MODULE OVMReadersTrace ---------------------------
(***************************************************************************)
(* Trace validation (role V) for C20.  One file = one mesh:                *)
(*   {"e":"mesh", proj}   {"e":"alpha", q}   {"e":"run", ...}*   {"e":"end"} *)
(* A run line holds the projection before (pre) and after (post) the run,  *)
(* the single-threaded answers before (seq) and after (seq2) the           *)
(* concurrent phase, the programs, and for every thread its answers in the *)
(* first and in the last repetition.                                       *)
(* Checked on every run line:                                              *)
(*   Frame        pre (the reference copy) = post (the object the threads  *)
(*                shared, after the run) = the projection logged when the  *)
(*                mesh was built (a const query is a stuttering step).     *)
(*                The shared object is built freshly for every case and is *)
(*                not queried before the threads start: the single-        *)
(*                threaded answers come from the reference copy.           *)
(*   Determinism  every answer of every thread equals the single-threaded  *)
(*                answer to the same query; the single-threaded answers    *)
(*                before and after are the same                            *)
(*   Crash        a {"e":"crash"} line: the case died in or after its      *)
(*                concurrent phase although the same programs complete on  *)
(*                one thread (the executor isolates every case in a child) *)
(* Reported as DRIFT (never a violation of C20): a single-threaded answer  *)
(* that differs from the sequential definition Eval of OVMReadersDefs -    *)
(* the model used by OVMReadersMC would then not describe this code.       *)
(***************************************************************************)
EXTENDS OVMReadersDefs, Json, IOUtils

CONSTANTS Props

Tr == ndJsonDeserialize(IOEnv.TRACE)

VARIABLES l, nbad, nchk, ndrift, cur, alph, fresh
tvars == <<l, nbad, nchk, ndrift, cur, alph, fresh>>

RunFields == {"case", "threads", "pre", "post", "seq", "seq2", "progs", "first", "last"}
Has(rec, f) == f \in DOMAIN rec

RunCheck(ln, M, A, doEval) ==
  IF ~(RunFields \subseteq DOMAIN ln) THEN [bad |-> {"C20:GarbledRecord"}, chk |-> 0, drift |-> {}] ELSE
  LET T == ln.threads
      used == UNION {Rng(ln.progs[t]) : t \in 1 .. T}
      ans(i) == ln.seq[i + 1]
      frame == ln.pre = M /\ ln.post = M
      shape == Len(ln.progs) = T /\ Len(ln.first) = T /\ Len(ln.last) = T /\ Len(ln.seq) = Len(A) /\ Len(ln.seq2) = Len(A)
      seqrep == \A i \in used : ln.seq2[i + 1] = ans(i)
      badThreads(runs) == {t \in 1 .. T : ~(Len(runs[t]) = Len(ln.progs[t]) /\ \A k \in 1 .. Len(ln.progs[t]) : runs[t][k] = ans(ln.progs[t][k]))}
      drift == IF doEval THEN {i \in used : A[i + 1].op \in ModelledOps /\ ~Matches(ans(i), Eval(M, A[i + 1]))} ELSE {}
      nans == 2 * Cardinality(used) + 2 * FoldLeft(LAMBDA acc, t : acc + Len(ln.progs[t]), 0, [t \in 1 .. T |-> t])
  IN [bad |-> (IF shape THEN {} ELSE {"MACHINERY:shape"})
              \cup (IF frame THEN {} ELSE {"C20:Frame"})
              \cup (IF ~shape \/ seqrep THEN {} ELSE {"C20:SequentialAnswerChanged"})
              \cup (IF ~shape THEN {} ELSE {"C20:Determinism first thread " \o ToString(t) : t \in badThreads(ln.first)}
                                      \cup {"C20:Determinism last thread " \o ToString(t) : t \in badThreads(ln.last)}),
      chk |-> nans, drift |-> drift]

TInit == l = 1 /\ nbad = 0 /\ nchk = 0 /\ ndrift = 0 /\ cur = 0 /\ alph = 0 /\ fresh = TRUE

TNext ==
  /\ l <= Len(Tr)
  /\ l' = l + 1
  /\ LET ln == Tr[l] IN
     CASE ln.e = "mesh" -> cur' = l /\ fresh' = TRUE /\ UNCHANGED <<nbad, nchk, ndrift, alph>>
       [] ln.e = "alpha" -> alph' = l /\ UNCHANGED <<nbad, nchk, ndrift, cur, fresh>>
       [] ln.e = "run" ->
            LET r == RunCheck(ln, Tr[cur].proj, Tr[alph].q, fresh) IN
            /\ \A b \in r.bad : PrintT(<<"VXBAD", l, ln.case, 0, b>>)
            /\ \A i \in r.drift : PrintT(<<"VXDRIFT", l, ln.case, i, Tr[alph].q[i + 1].op>>)
            /\ nbad' = nbad + Cardinality(r.bad)
            /\ nchk' = nchk + r.chk
            /\ ndrift' = ndrift + Cardinality(r.drift)
            /\ fresh' = FALSE
            /\ UNCHANGED <<cur, alph>>
       [] ln.e = "crash" /\ ~({"case", "phase", "status", "seq_replay_ok"} \subseteq DOMAIN ln) ->
            /\ PrintT(<<"VXBAD", l, IF Has(ln, "case") THEN ln.case ELSE -1, 0, "C20:GarbledRecord">>)
            /\ nbad' = nbad + 1
            /\ UNCHANGED <<nchk, ndrift, cur, alph, fresh>>
       [] ln.e = "crash" ->
            \* the forked case died.  The executor and the programs are in contract, the single-threaded
            \* reference run of the same queries had completed (phase >= 2) and the same programs run to
            \* completion on one thread: only the library under concurrent const queries can be the cause.
            \* (corrupt_output: the case ended but logged garbage - its heap was overwritten.)  A case stopped by the
            \* executor's time limit (status 1014 = SIGALRM) is not judged: on a loaded machine that proves nothing.
            LET b == IF ln.status = 1014 THEN "MACHINERY:case-timeout"
                     ELSE IF ln.phase >= 2 /\ ln.seq_replay_ok THEN "C20:CrashUnderConcurrency"
                     ELSE "MACHINERY:crash-single-threaded" IN
            /\ PrintT(<<"VXBAD", l, ln.case, 0, b>>)
            /\ nbad' = nbad + 1
            /\ UNCHANGED <<nchk, ndrift, cur, alph, fresh>>
       [] OTHER -> UNCHANGED <<nbad, nchk, ndrift, cur, alph, fresh>>

TSpec == TInit /\ [][TNext]_tvars

Done == (l = Len(Tr) + 1) => PrintT(<<"VXDONE", Len(Tr), nchk, nbad, ndrift>>)
=============================================================================
