------------------------------- MODULE OVMProps -------------------------------
(***************************************************************************)
(* Property registry, handle lifetimes, mesh copy / assignment of          *)
(* OpenVolumeMesh (ResourceManager.{hh,cc}, ResourceManagerT_impl.hh,      *)
(* Core/Properties/*.hh, Core/detail/Tracking.hh, GeometryKernel.hh).      *)
(* Properties C14 (registry) and C13 (copy / assignment).                  *)
(*                                                                         *)
(* Layer 1 - OPERATIONAL MODEL.  The whole program state is ONE record w   *)
(* ("world"); every API call is a pure operator returning the new world,   *)
(* structured like the C++ code (one operator per API call, same case      *)
(* analysis, same order of effects):                                       *)
(*   w.mesh[m]  [alive, ty, kern, trk, pers, posh]                         *)
(*        ty    "poly" | "tet" | "hex"                                     *)
(*        kern  a record of the kernel model OVMKernel (instance Kn)       *)
(*        trk   the Tracker side of the back-pointer protocol: ids of the  *)
(*              storages tracked by this mesh (all entity kinds)           *)
(*        pers  ids in the mesh's persistent sets (owning pointers)        *)
(*        posh  id of the storage behind GeometryKernel::position_         *)
(*   w.sto[i]   [live, kind, type, name, shared, pers, trk, def, vals]     *)
(*        trk   the Tracked side: mesh id or 0 (detached)                  *)
(*   w.slot[h]  user handle slot: 0 (empty) or a storage id                *)
(*   w.ret      what the call visibly returned: "ptr" (a handle), "some" /  *)
(*              "nullopt" (an optional), "threw", "ok" (void), "true" /    *)
(*              "false"                                                    *)
(*   w.err      "" or the undefined behaviour the code would run into      *)
(*   w.busy     ids in use when the current call began (bookkeeping only)  *)
(* shared_ptr ownership is exact reference counting without cycles, so a   *)
(* storage dies in the call that removes its last owner (Collect).         *)
(*                                                                         *)
(* Layer 2 - DECLARATIVE LAYER (the oracles): state predicates and step    *)
(* relations over COMPLETED worlds (Complete(w) adds what the API reports: *)
(* n_props, n_persistent_props, lookups, the handle views).  The trace     *)
(* validator builds the same completed shape from what the executor        *)
(* observed on the real library, so the very same predicates judge the     *)
(* model (role M) and the implementation (role V).                         *)
(***************************************************************************)
EXTENDS Integers, Sequences, FiniteSets, TLC, SequencesExt, FiniteSetsExt

Kn == INSTANCE OVMKernel

(* ------------------------------ universe ------------------------------- *)
(* all seven entity kinds; the first three keep the indices the scripts of  *)
(* round 1 used (1 V, 2 HE, 3 M), then 4 E, 5 F, 6 HF, 7 C                  *)
KindSeq  == <<"V", "HE", "M", "E", "F", "HF", "C">>
TypeSeq  == <<"int", "bool">>
NameSeq  == <<"a", "b">>           \* the non-empty names of the universe
MTypeSeq == <<"poly", "tet", "hex", "tpoly", "ttet", "thex">>
(* poly/tet/hex: GeometricPolyhedral/Tetrahedral/HexahedralMeshV3d; tpoly/ttet/thex: the       *)
(* topology-only meshes TopologyKernel / TetrahedralMeshTopologyKernel /                         *)
(* HexahedralMeshTopologyKernel (no position property; their defaulted operator= reaches        *)
(* ResourceManager::operator= directly, also on self assignment)                                 *)
Geometric(ty) == ty \in {"poly", "tet", "hex"}
(* which assignments compile: the GeometryKernel template operator= between any two geometric   *)
(* types, the defaulted operator= between two meshes of the same topology-only type             *)
Assignable(dty, sty) == (Geometric(dty) /\ Geometric(sty)) \/ (~Geometric(dty) /\ dty = sty)
Kinds3   == {"V", "HE", "M", "E", "F", "HF", "C"}   \* (historic name) all entity kinds
PosName  == "ovm:position"
PosType  == "vec"

IdxOf(q, x) == CHOOSE i \in DOMAIN q : q[i] = x
KindIdx(k)  == IdxOf(KindSeq, k)
TypeIdx(t)  == IdxOf(TypeSeq, t)
NKeys       == 28
KeyIdx(k, t, s) == (KindIdx(k) - 1) * 4 + (TypeIdx(t) - 1) * 2 + IdxOf(NameSeq, s)
KeyOf(x)    == LET y == x - 1 IN [k |-> KindSeq[(y \div 4) + 1], t |-> TypeSeq[((y % 4) \div 2) + 1], s |-> NameSeq[(y % 2) + 1]]

Rep(n, v)   == [i \in 1 .. n |-> v]
Resize(q, n, v) == IF n <= Len(q) THEN SubSeq(q, 1, n) ELSE q \o Rep(n - Len(q), v)
Rng(q)      == {q[i] : i \in DOMAIN q}

(* call record (one per API call; the same record is the script line of    *)
(* the executor):  a = mesh id, b = handle slot, f = flag, l = integers,   *)
(* s = property name                                                       *)
Call(op, a, b, f, l, s) == [op |-> op, a |-> a, b |-> b, f |-> f, l |-> l, s |-> s]

(* API flavour of a creation / lookup call (4th list entry; 2nd of clear_props): 0 the generic   *)
(* templates, 1 the per-kind convenience wrapper of ResourceManager.hh, 2 / 3 further variants   *)
(* (PropertyPtr constructor, const-mesh overloads; see harness/props_exec.cc).  The model and    *)
(* the relations do not look at it: a wrapper must behave exactly like the generic call of its   *)
(* kind and mode.                                                                                *)
Flavour(c) == IF c.op = "clear_props" THEN (IF Len(c.l) >= 2 THEN c.l[2] ELSE 0)
              ELSE IF Len(c.l) >= 4 THEN c.l[4] ELSE 0
ValidFlavours(op, k) ==
  CASE op = "request"                               -> {0, 1, 2}
    [] op \in {"create_shared", "create_persistent"} -> IF k = "M" THEN {0} ELSE {0, 1}
    [] op = "create_private"                        -> IF k = "M" THEN {0, 2} ELSE {0, 1, 2}
    [] op = "get_property"                          -> IF k = "M" THEN {0, 3} ELSE {0, 1, 2, 3}
    [] op = "property_exists"                       -> IF k = "M" THEN {0} ELSE {0, 1}
    [] op = "clear_props"                           -> {0, 1}
CreateOps == {"request", "create_shared", "create_persistent", "create_private", "get_property"}
KernelOps == {"add_vertex", "add_edge", "add_face_v", "add_cell", "delete_vertex", "delete_edge", "delete_face",
              "delete_cell", "collect_garbage", "enable_deferred", "enable_fast", "enable_vbu", "enable_ebu", "enable_fbu"}
(* kernel call of a world call: l = <<a, b>> \o list *)
KCall(c) == Kn!Call(c.op, c.l[1], c.l[2], SubSeq(c.l, 3, Len(c.l)), c.f)

(* ======================================================================= *)
(*                       Layer 1: operational model                        *)
(* ======================================================================= *)
DeadSto  == [live |-> FALSE, kind |-> "", type |-> "", name |-> "", shared |-> FALSE, pers |-> FALSE,
             trk |-> 0, def |-> 0, vals |-> <<>>]
DeadMesh == [alive |-> FALSE, ty |-> "", kern |-> Kn!Empty, trk |-> {}, pers |-> {}, posh |-> 0]

EmptyWorld(nm, ns, nh) ==
  [mesh |-> [m \in 1 .. nm |-> DeadMesh], sto |-> [i \in 1 .. ns |-> DeadSto], slot |-> [h \in 1 .. nh |-> 0],
   ret |-> "ok", err |-> "", busy |-> {}]

Meshes(w)   == DOMAIN w.mesh
Alive(w)    == {m \in Meshes(w) : w.mesh[m].alive}
LiveIds(w)  == {i \in DOMAIN w.sto : w.sto[i].live}
FreeIds(w)  == DOMAIN w.sto \ LiveIds(w)
(* an id that was in use when the current call began is not handed out      *)
(* again inside that call (w.busy), so "this storage is new" is visible     *)
NewId(w)    == Min(FreeIds(w) \ w.busy)
Bound(w)    == {h \in DOMAIN w.slot : w.slot[h] # 0}

(* THE SIZE RELATION, per entity kind: how many elements a property of kind *)
(* k has on a mesh with kernel state kern (one per entity slot, deleted     *)
(* slots included; two half-entities per edge / face; exactly one for Mesh) *)
NK(kern, k) == CASE k = "V"  -> kern.nv
                 [] k = "E"  -> Len(kern.edges)
                 [] k = "HE" -> 2 * Len(kern.edges)
                 [] k = "F"  -> Len(kern.faces)
                 [] k = "HF" -> 2 * Len(kern.faces)
                 [] k = "C"  -> Len(kern.cells)
                 [] k = "M"  -> 1
N(w, m, k)  == NK(w.mesh[m].kern, k)

TrackedK(w, m, k) == {i \in w.mesh[m].trk : w.sto[i].kind = k}
PersK(w, m, k)    == {i \in w.mesh[m].pers : w.sto[i].kind = k}

(* internal_find_property: shared && name && type among the tracker of the *)
(* entity kind; an empty name is never found                               *)
Lookup(w, m, k, t, s) ==
  IF s = "" THEN {}
  ELSE {i \in w.mesh[m].trk : w.sto[i].kind = k /\ w.sto[i].type = t /\ w.sto[i].shared /\ w.sto[i].name = s}
Find(w, m, k, t, s) == LET c == Lookup(w, m, k, t, s) IN IF c = {} THEN 0 ELSE Min(c)

(* owners: user handles, persistent sets, the meshes' position_ members    *)
Owned(w) == ({w.slot[h] : h \in DOMAIN w.slot} \cup UNION {w.mesh[m].pers : m \in Meshes(w)}
             \cup {w.mesh[m].posh : m \in Meshes(w)}) \ {0}
Collect(w) ==
  LET keep == Owned(w) IN
  [w EXCEPT !.sto  = [i \in DOMAIN w.sto |-> IF w.sto[i].live /\ i \notin keep THEN DeadSto ELSE w.sto[i]],
            !.mesh = [m \in Meshes(w) |-> [w.mesh[m] EXCEPT !.trk = @ \cap keep]]]

(* internal_create_property: make_shared<PropertyStorageT>(tracker, ...),   *)
(* resize(n<EntityTag>())                                                   *)
AddSto(w, i, m, k, t, s, d, sh) ==
  [w EXCEPT !.sto[i] = [live |-> TRUE, kind |-> k, type |-> t, name |-> s, shared |-> sh, pers |-> FALSE,
                        trk |-> m, def |-> d, vals |-> Rep(N(w, m, k), d)],
            !.mesh[m].trk = @ \cup {i}]

SetRet(w, r) == [w EXCEPT !.ret = r]
Bind(w, h, i) == Collect([w EXCEPT !.slot[h] = i])

MarkPers(w, m, i, on) ==
  [w EXCEPT !.sto[i].pers = on, !.mesh[m].pers = IF on THEN @ \cup {i} ELSE @ \ {i}]

Request(w, m, h, k, t, s, d) ==
  LET f == Find(w, m, k, t, s) IN
  IF f # 0 THEN SetRet(Bind(w, h, f), "ptr")
  ELSE LET i == NewId(w) IN SetRet(Bind(AddSto(w, i, m, k, t, s, d, s # ""), h, i), "ptr")

(* create_shared / create_persistent refuse an empty name (a shared property *)
(* must be named; repaired behaviour, finding P1) and duplicates             *)
CreateShared(w, m, h, k, t, s, d) ==
  IF s = "" THEN SetRet(w, "threw")
  ELSE IF Find(w, m, k, t, s) # 0 THEN SetRet(w, "nullopt")
  ELSE LET i == NewId(w) IN SetRet(Bind(AddSto(w, i, m, k, t, s, d, TRUE), h, i), "some")

CreatePersistent(w, m, h, k, t, s, d) ==
  IF s = "" THEN SetRet(w, "threw")
  ELSE IF Find(w, m, k, t, s) # 0 THEN SetRet(w, "nullopt")
  ELSE LET i == NewId(w) IN
       SetRet(Bind(MarkPers(AddSto(w, i, m, k, t, s, d, TRUE), m, i, TRUE), h, i), "some")

CreatePrivate(w, m, h, k, t, s, d) ==
  LET i == NewId(w) IN SetRet(Bind(AddSto(w, i, m, k, t, s, d, FALSE), h, i), "ptr")

GetProperty(w, m, h, k, t, s) ==
  LET f == Find(w, m, k, t, s) IN
  IF f = 0 THEN SetRet(w, "nullopt") ELSE SetRet(Bind(w, h, f), "some")

PropertyExists(w, m, k, t, s) == SetRet(w, IF Lookup(w, m, k, t, s) # {} THEN "true" ELSE "false")

(* ResourceManager::set_persistent on storage i of mesh m                  *)
SetPersistentI(w, m, i, on) ==
  LET x == w.sto[i] IN
  IF on = x.pers THEN SetRet(w, "ok")
  ELSE IF on THEN (IF ~x.shared THEN SetRet(w, "threw") ELSE SetRet(MarkPers(w, m, i, TRUE), "ok"))
  ELSE SetRet(Collect(MarkPers(w, m, i, FALSE)), "ok")
SetPersistent(w, m, h, on) == SetPersistentI(w, m, w.slot[h], on)

SetShared(w, m, h, on) ==
  LET i == w.slot[h]  x == w.sto[i] IN
  IF on = x.shared THEN SetRet(w, "ok")
  ELSE IF on THEN (IF x.name = "" THEN SetRet(w, "threw")
                   ELSE IF Find(w, m, x.kind, x.type, x.name) # 0 THEN SetRet(w, "threw")
                   ELSE SetRet([w EXCEPT !.sto[i].shared = TRUE], "ok"))
  ELSE LET w1 == IF x.pers THEN MarkPers(w, m, i, FALSE) ELSE w IN
       SetRet([w1 EXCEPT !.sto[i].shared = FALSE], "ok")

(* PropertyStoragePtr::set_name -> PropertyStorageBase::set_name (repaired  *)
(* behaviour, finding P2): a shared property refuses the empty name and,    *)
(* while attached, a name that another shared property of the same mesh,    *)
(* entity kind and value type already has; anything else is renamed         *)
SetName(w, h, s) ==
  LET i == w.slot[h]  x == w.sto[i] IN
  IF x.shared /\ s # x.name /\ (s = "" \/ (x.trk # 0 /\ Lookup(w, x.trk, x.kind, x.type, s) \ {i} # {}))
  THEN SetRet(w, "threw")
  ELSE SetRet([w EXCEPT !.sto[i].name = s], "ok")

HandleCopy(w, h1, h2) == SetRet(Bind(w, h2, w.slot[h1]), "ok")
HandleMove(w, h1, h2) == SetRet(Collect([w EXCEPT !.slot[h2] = w.slot[h1], !.slot[h1] = 0]), "ok")
HandleDrop(w, h)      == SetRet(Bind(w, h, 0), "ok")

(* clear_props<Kind>: persistent flags off, persistent set emptied, every   *)
(* tracked storage of the kind made private (no Collect yet)                *)
ClearPropsK(w, m, k) ==
  LET ps == PersK(w, m, k)  ts == TrackedK(w, m, k) IN
  [w EXCEPT !.sto = [i \in DOMAIN w.sto |->
                       IF i \in ts THEN [w.sto[i] EXCEPT !.shared = FALSE, !.pers = IF i \in ps THEN FALSE ELSE @]
                       ELSE w.sto[i]],
            !.mesh[m].pers = @ \ ps]
ClearAllK(w, m) == FoldLeft(LAMBDA x, k : ClearPropsK(x, m, k), w, KindSeq)
ClearProps(w, m, k)  == SetRet(Collect(ClearPropsK(w, m, k)), "ok")
ClearAllProps(w, m)  == SetRet(Collect(ClearAllK(w, m)), "ok")

(* resize_props<Kind>(n) for all kinds: n given per kind                    *)
ResizeTo(w, m, nf) ==
  [w EXCEPT !.sto = [i \in DOMAIN w.sto |->
      IF i \in w.mesh[m].trk THEN [w.sto[i] EXCEPT !.vals = Resize(@, nf[w.sto[i].kind], w.sto[i].def)] ELSE w.sto[i]]]
SizesOf(kern) == [k \in Kinds3 |-> NK(kern, k)]

(* TopologyKernel::clear(clearProps) (repaired: always resizes)             *)
ClearMesh(w, m, cp) ==
  LET k1 == Kn!Tag(Kn!Clear(w.mesh[m].kern, cp))
      w1 == [w EXCEPT !.mesh[m].kern = k1]
      w2 == IF cp THEN Collect(ClearAllK(w1, m)) ELSE w1
  IN SetRet(ResizeTo(w2, m, SizesOf(k1)), "ok")

(* a kernel mutator: the kernel model gives the new kernel and, in pV/pHE,  *)
(* for every new slot the old slot it came from (-1: new entity)            *)
Remap(old, map, d) == [j \in 1 .. Len(map) |-> IF map[j] = Kn!DefaultTok THEN d ELSE old[map[j] + 1]]
KernelCall(w, m, kc) ==
  LET k1 == Kn!Apply(w.mesh[m].kern, kc) IN
  [w EXCEPT !.mesh[m].kern = Kn!Tag(k1),
            !.sto = [i \in DOMAIN w.sto |->
               IF i \in w.mesh[m].trk
               THEN LET x == w.sto[i] IN
                    CASE x.kind = "V"  -> [x EXCEPT !.vals = Remap(x.vals, k1.pV, x.def)]
                      [] x.kind = "E"  -> [x EXCEPT !.vals = Remap(x.vals, k1.pE, x.def)]
                      [] x.kind = "HE" -> [x EXCEPT !.vals = Remap(x.vals, k1.pHE, x.def)]
                      [] x.kind = "F"  -> [x EXCEPT !.vals = Remap(x.vals, k1.pF, x.def)]
                      [] x.kind = "HF" -> [x EXCEPT !.vals = Remap(x.vals, k1.pHF, x.def)]
                      [] x.kind = "C"  -> [x EXCEPT !.vals = Remap(x.vals, k1.pC, x.def)]
                      [] OTHER -> x
               ELSE w.sto[i]],
            !.ret = "ok",
            !.err = IF k1.err # "" /\ w.err = "" THEN "kernel:" \o k1.err ELSE w.err]

WriteVal(w, h, idx, v) == SetRet([w EXCEPT !.sto[w.slot[h]].vals[idx + 1] = v], "ok")
SetVertex(w, m, v, p)  == SetRet([w EXCEPT !.sto[w.mesh[m].posh].vals[v + 1] = p], "ok")
PersistPos(w, m, on)   == SetPersistentI(w, m, w.mesh[m].posh, on)
(* the caller copies the handle vertex_positions() into a slot              *)
PosHandle(w, m, h)     == SetRet(Bind(w, h, w.mesh[m].posh), "ptr")

(* GeometryKernel::make_prop(): request_property("ovm:position"): a shared    *)
(* property of that name that is already registered - the clone of a source  *)
(* mesh's PERSISTENT position property - is adopted, otherwise it is created *)
(* (before the repair of finding P3 this was *create_shared_property(...),   *)
(* an empty optional dereferenced in exactly that case)                      *)
SetErr(w, e) == IF w.err = "" THEN [w EXCEPT !.err = e] ELSE w
MakeProp(w, m) ==
  LET f == Find(w, m, "V", PosType, PosName) IN
  IF f # 0 THEN Collect([w EXCEPT !.mesh[m].posh = f])
  ELSE LET i == NewId(w) IN Collect([AddSto(w, i, m, "V", PosType, PosName, 0, TRUE) EXCEPT !.mesh[m].posh = i])

MeshNew(w, m, ty) ==
  LET w1 == [w EXCEPT !.mesh[m] = [alive |-> TRUE, ty |-> ty, kern |-> Kn!Empty, trk |-> {}, pers |-> {}, posh |-> 0]]
  IN SetRet(IF Geometric(ty) THEN MakeProp(w1, m) ELSE w1, "ok")

(* clone_persistent_properties_from: clone(), set_tracker, insert           *)
CloneOne(w, i, dst) ==
  LET j == NewId(w) IN
  [w EXCEPT !.sto[j] = [w.sto[i] EXCEPT !.trk = dst],
            !.mesh[dst].trk = @ \cup {j}, !.mesh[dst].pers = @ \cup {j}]
ClonePers(w, src, dst) == FoldLeft(LAMBDA x, i : CloneOne(x, i, dst), w, SetToSortSeq(w.mesh[src].pers, <))

CopyPositions(w, dst, src) ==
  LET sv == w.sto[w.mesh[src].posh].vals  dv == w.sto[w.mesh[dst].posh].vals IN
  IF w.err # "" THEN w
  ELSE IF Len(sv) > Len(dv) THEN SetErr(w, "UB:std::copy of positions writes past the end")
  ELSE [w EXCEPT !.sto[w.mesh[dst].posh].vals = [j \in 1 .. Len(dv) |-> IF j <= Len(sv) THEN sv[j] ELSE dv[j]]]

(* copy construction (same mesh type): ResourceManager(const&) clones the   *)
(* persistent properties, TopologyKernel(const&) copies the arrays,         *)
(* GeometryKernel(const&) makes the position property and copies positions  *)
MeshCopy(w, dst, src) ==
  LET w1 == [w EXCEPT !.mesh[dst] = [alive |-> TRUE, ty |-> w.mesh[src].ty, kern |-> Kn!Empty, trk |-> {},
                                     pers |-> {}, posh |-> 0]]
      w2 == ClonePers(w1, src, dst)
      w3 == [w2 EXCEPT !.mesh[dst].kern = w.mesh[src].kern]
      w4 == MakeProp(w3, dst)
  IN SetRet(IF Geometric(w.mesh[src].ty) THEN CopyPositions(w4, dst, src) ELSE w3, "ok")

(* assignment (any pair of mesh types).  Self assignment returns early;     *)
(* otherwise ResourceManager::operator= anonymises the target's properties, *)
(* resizes what stays in use to the source's counts, clones the source's    *)
(* persistent properties; the kernel arrays are copied; position_ is        *)
(* re-made (the old position storage loses its owner) and filled            *)
(* GeometryKernel::operator= returns a GeometryKernel BY VALUE: a temporary *)
(* copy of *this is constructed and destroyed, without lasting effect       *)
ReturnByValue(w, m) == w
MeshAssign(w, dst, src) ==
  IF dst = src THEN SetRet(ReturnByValue(w, dst), "ok")   \* both guards: GeometryKernel's and ResourceManager's
  ELSE LET w1 == Collect(ClearAllK(w, dst))
           w2 == ResizeTo(w1, dst, SizesOf(w.mesh[src].kern))
           w3 == ClonePers(w2, src, dst)
           w4 == [w3 EXCEPT !.mesh[dst].kern = w.mesh[src].kern]
       IN IF Geometric(w.mesh[dst].ty)
          THEN SetRet(ReturnByValue(CopyPositions(MakeProp(w4, dst), dst, src), dst), "ok")
          ELSE SetRet(w4, "ok")

(* ~ResourceManager: the trackers go first (tracker_removed: every tracked  *)
(* storage is detached, flags and data untouched), then the persistent set, *)
(* position_ went with the derived part                                     *)
MeshDestroy(w, m) ==
  SetRet(Collect([w EXCEPT !.mesh[m] = DeadMesh,
                           !.sto = [i \in DOMAIN w.sto |-> IF w.sto[i].live /\ w.sto[i].trk = m
                                                           THEN [w.sto[i] EXCEPT !.trk = 0] ELSE w.sto[i]]]), "ok")

DestroyAll(w) == FoldLeft(LAMBDA x, m : IF x.mesh[m].alive THEN MeshDestroy(x, m) ELSE x, w,
                          SetToSortSeq(Meshes(w), <))
DropAll(w)    == FoldLeft(LAMBDA x, h : HandleDrop(x, h), w, SetToSortSeq(DOMAIN w.slot, <))
Teardown(w, meshesFirst) == IF meshesFirst THEN DropAll(DestroyAll(w)) ELSE DestroyAll(DropAll(w))

(* ------------------------------ dispatcher ----------------------------- *)
KArg(c)  == KindSeq[c.l[1]]
TArg(c)  == TypeSeq[c.l[2]]
Apply(w0, c) ==
  LET w == [w0 EXCEPT !.ret = "ok", !.busy = LiveIds(w0)] IN
  CASE c.op = "request"           -> Request(w, c.a, c.b, KArg(c), TArg(c), c.s, c.l[3])
    [] c.op = "create_shared"     -> CreateShared(w, c.a, c.b, KArg(c), TArg(c), c.s, c.l[3])
    [] c.op = "create_persistent" -> CreatePersistent(w, c.a, c.b, KArg(c), TArg(c), c.s, c.l[3])
    [] c.op = "create_private"    -> CreatePrivate(w, c.a, c.b, KArg(c), TArg(c), c.s, c.l[3])
    [] c.op = "get_property"      -> GetProperty(w, c.a, c.b, KArg(c), TArg(c), c.s)
    [] c.op = "property_exists"   -> PropertyExists(w, c.a, KArg(c), TArg(c), c.s)
    [] c.op = "set_shared"        -> SetShared(w, c.a, c.b, c.f)
    [] c.op = "set_persistent"    -> SetPersistent(w, c.a, c.b, c.f)
    [] c.op = "set_name"          -> SetName(w, c.b, c.s)
    [] c.op = "h_copy"            -> HandleCopy(w, c.b, c.l[1])
    [] c.op = "h_move"            -> HandleMove(w, c.b, c.l[1])
    [] c.op = "h_drop"            -> HandleDrop(w, c.b)
    [] c.op = "clear_props"       -> ClearProps(w, c.a, KArg(c))
    [] c.op = "clear_all_props"   -> ClearAllProps(w, c.a)
    [] c.op = "clear"             -> ClearMesh(w, c.a, c.f)
    [] c.op = "write"             -> WriteVal(w, c.b, c.l[1], c.l[2])
    [] c.op = "set_vertex"        -> SetVertex(w, c.a, c.l[1], c.l[2])
    [] c.op = "persist_pos"       -> PersistPos(w, c.a, c.f)
    [] c.op = "pos_handle"        -> PosHandle(w, c.a, c.b)
    [] c.op = "mesh_new"          -> MeshNew(w, c.a, MTypeSeq[c.l[1]])
    [] c.op = "mesh_copy"         -> MeshCopy(w, c.a, c.l[1])
    [] c.op = "mesh_assign"       -> MeshAssign(w, c.a, c.l[1])
    [] c.op = "mesh_destroy"      -> MeshDestroy(w, c.a)
    [] c.op = "teardown"          -> Teardown(w, c.f)
    [] c.op \in {"stamp", "touch"} -> w      \* touch: every element read and written back through the handle
    [] c.op \in KernelOps         -> KernelCall(w, c.a, KCall(c))

(* ======================================================================= *)
(*            completed worlds: what the API lets a caller observe         *)
(* ======================================================================= *)
DeadMeshC == [alive |-> FALSE, ty |-> "", n |-> [k \in Kinds3 |-> 0], np |-> [k \in Kinds3 |-> 0],
              npp |-> [k \in Kinds3 |-> 0], fd |-> Rep(NKeys, 0), ex |-> Rep(NKeys, FALSE),
              trk |-> {}, pers |-> {}, posh |-> 0, posv |-> <<>>, kern |-> Kn!Empty]
NoView == [ok |-> FALSE, name |-> "", shared |-> FALSE, pers |-> FALSE, size |-> 0, vals |-> <<>>, def |-> 0]

Complete(w) ==
  [mesh |-> [m \in Meshes(w) |->
       IF ~w.mesh[m].alive THEN DeadMeshC
       ELSE [alive |-> TRUE, ty |-> w.mesh[m].ty,
             n   |-> [k \in Kinds3 |-> N(w, m, k)],
             np  |-> [k \in Kinds3 |-> Cardinality(TrackedK(w, m, k))],
             npp |-> [k \in Kinds3 |-> Cardinality(PersK(w, m, k))],
             fd  |-> [x \in 1 .. NKeys |-> Find(w, m, KeyOf(x).k, KeyOf(x).t, KeyOf(x).s)],
             ex  |-> [x \in 1 .. NKeys |-> Lookup(w, m, KeyOf(x).k, KeyOf(x).t, KeyOf(x).s) # {}],
             trk |-> w.mesh[m].trk, pers |-> w.mesh[m].pers, posh |-> w.mesh[m].posh,
             posv |-> IF w.mesh[m].posh = 0 THEN <<>> ELSE w.sto[w.mesh[m].posh].vals,
             kern |-> w.mesh[m].kern]],
   sto  |-> w.sto,
   slot |-> w.slot,
   sl   |-> [h \in DOMAIN w.slot |->
               IF w.slot[h] = 0 THEN NoView
               ELSE LET x == w.sto[w.slot[h]] IN
                    [ok |-> x.trk # 0, name |-> x.name, shared |-> x.shared, pers |-> x.pers,
                     size |-> Len(x.vals), vals |-> x.vals, def |-> x.def]]]

(* ======================================================================= *)
(*                 Layer 2: declarative layer (the oracles)                *)
(*  x, p, q are completed worlds; every operator returns "" or the name    *)
(*  of the first clause that fails                                         *)
(* ======================================================================= *)
LiveC(x)    == {i \in DOMAIN x.sto : x.sto[i].live}
AliveC(x)   == {m \in DOMAIN x.mesh : x.mesh[m].alive}
TrkK(x, m, k)  == {i \in x.mesh[m].trk : i \in DOMAIN x.sto /\ x.sto[i].kind = k}
LookupC(x, m, k, t, s) ==
  IF s = "" THEN {}
  ELSE {i \in x.mesh[m].trk : i \in DOMAIN x.sto /\ x.sto[i].live /\ x.sto[i].kind = k /\ x.sto[i].type = t
                              /\ x.sto[i].shared /\ x.sto[i].name = s}
InUniverse(x, i) == x.sto[i].kind \in Kinds3 /\ x.sto[i].type \in Rng(TypeSeq) /\ x.sto[i].name \in Rng(NameSeq)

First(checks) ==   \* checks: sequence of <<name, bool>>; first failing name
  LET bad == SelectSeq(checks, LAMBDA c : ~c[2]) IN IF bad = <<>> THEN "" ELSE bad[1][1]

(* ---- C14 state predicates -------------------------------------------- *)
(* every storage id mentioned anywhere is a known, live storage            *)
RefsLive(x) ==
  /\ \A h \in DOMAIN x.slot : x.slot[h] = 0 \/ x.slot[h] \in LiveC(x)
  /\ \A m \in AliveC(x) : x.mesh[m].trk \subseteq LiveC(x) /\ x.mesh[m].pers \subseteq LiveC(x)
                          /\ (x.mesh[m].posh = 0 \/ x.mesh[m].posh \in LiveC(x))
                          /\ (x.mesh[m].posh = 0) = ~Geometric(x.mesh[m].ty)
  /\ \A m \in DOMAIN x.mesh \ AliveC(x) : x.mesh[m].trk = {} /\ x.mesh[m].pers = {}
PersImpliesShared(x)  == \A i \in LiveC(x) : x.sto[i].pers => x.sto[i].shared
SharedImpliesNamed(x) == \A i \in LiveC(x) : x.sto[i].shared => x.sto[i].name # ""
UniqueShared(x) ==
  \A m \in AliveC(x) : \A i, j \in x.mesh[m].trk :
     (i # j /\ x.sto[i].shared /\ x.sto[j].shared /\ x.sto[i].kind = x.sto[j].kind /\ x.sto[i].type = x.sto[j].type)
        => x.sto[i].name # x.sto[j].name
(* a property exists exactly as long as a handle refers to it or it is      *)
(* persistent (the mesh's own position handle counts as a handle)           *)
ExistsIff(x) ==
  LET owned == ({x.slot[h] : h \in DOMAIN x.slot} \cup UNION {x.mesh[m].pers : m \in AliveC(x)}
                \cup {x.mesh[m].posh : m \in AliveC(x)}) \ {0}
  IN LiveC(x) = owned
Counts(x) ==
  \A m \in AliveC(x) : \A k \in Kinds3 :
     /\ x.mesh[m].np[k]  = Cardinality(TrkK(x, m, k))
     /\ x.mesh[m].npp[k] = Cardinality({i \in x.mesh[m].pers : x.sto[i].kind = k})
(* back-pointer protocol: Tracker side and Tracked side agree, nothing is   *)
(* tracked by two meshes, a persistent set holds only storages of its mesh  *)
BackPointers(x) ==
  /\ \A m \in AliveC(x) : \A i \in x.mesh[m].trk : x.sto[i].trk = m
  /\ \A i \in LiveC(x) : x.sto[i].trk # 0 => (x.sto[i].trk \in AliveC(x) /\ i \in x.mesh[x.sto[i].trk].trk)
  /\ \A m1, m2 \in AliveC(x) : m1 # m2 => x.mesh[m1].trk \cap x.mesh[m2].trk = {}
PersSets(x) ==
  /\ \A m \in AliveC(x) : \A i \in x.mesh[m].pers : x.sto[i].pers /\ x.sto[i].trk = m
  /\ \A i \in LiveC(x) : (x.sto[i].pers /\ x.sto[i].trk # 0) => i \in x.mesh[x.sto[i].trk].pers
(* lookups by name answer exactly the live shared properties                *)
FindConsistent(x) ==
  \A m \in AliveC(x) : \A y \in 1 .. NKeys :
     LET L == LookupC(x, m, KeyOf(y).k, KeyOf(y).t, KeyOf(y).s) IN
     /\ x.mesh[m].ex[y] = (L # {})
     /\ IF L = {} THEN x.mesh[m].fd[y] = 0 ELSE x.mesh[m].fd[y] \in L
(* what a handle reports is what its storage holds; operator bool = attached *)
HandleViews(x) ==
  \A h \in DOMAIN x.slot : x.slot[h] # 0 =>
     LET s == x.sto[x.slot[h]]  v == x.sl[h] IN
     /\ v.ok = (s.trk # 0) /\ v.name = s.name /\ v.shared = s.shared /\ v.pers = s.pers
     /\ v.size = Len(s.vals) /\ v.vals = s.vals /\ v.def = s.def
(* every tracked storage has exactly one element per entity slot            *)
TrackedSized(x) ==
  \A m \in AliveC(x) : \A i \in x.mesh[m].trk : Len(x.sto[i].vals) = x.mesh[m].n[x.sto[i].kind]
(* the entity counts the API reports are the counts of the definitions, per  *)
(* kind: n_halfedges = 2 n_edges, n_halffaces = 2 n_faces, Mesh = 1          *)
CountsPerKind(x) ==
  \A m \in AliveC(x) : LET k == x.mesh[m].kern  n == x.mesh[m].n IN
     /\ n["V"] = k.nv /\ n["E"] = Len(k.edges) /\ n["HE"] = 2 * Len(k.edges)
     /\ n["F"] = Len(k.faces) /\ n["HF"] = 2 * Len(k.faces) /\ n["C"] = Len(k.cells) /\ n["M"] = 1
(* ... and every tracked storage has that many elements, kind by kind, also  *)
(* as seen through size() of every handle that is bound to it                *)
SizedPerKind(x) ==
  /\ \A m \in AliveC(x) : \A i \in x.mesh[m].trk : Len(x.sto[i].vals) = NK(x.mesh[m].kern, x.sto[i].kind)
  /\ \A h \in DOMAIN x.slot :
        (x.slot[h] # 0 /\ x.sto[x.slot[h]].trk # 0) =>
           x.sl[h].size = NK(x.mesh[x.sto[x.slot[h]].trk].kern, x.sto[x.slot[h]].kind)
PositionsAreTheProperty(x) ==
  \A m \in AliveC(x) : IF x.mesh[m].posh = 0 THEN x.mesh[m].posv = <<>>
                        ELSE x.mesh[m].posv = x.sto[x.mesh[m].posh].vals

InvC14(x) ==
  First(<< <<"RefsLive", RefsLive(x)>>,
           <<"PersistentImpliesShared", PersImpliesShared(x)>>,
           <<"SharedImpliesNamed", SharedImpliesNamed(x)>>,
           <<"UniqueShared", UniqueShared(x)>>,
           <<"ExistsIffHandleOrPersistent", ExistsIff(x)>>,
           <<"Counts", Counts(x)>>,
           <<"BackPointers", BackPointers(x)>>,
           <<"PersistentSets", PersSets(x)>>,
           <<"FindConsistent", FindConsistent(x)>>,
           <<"HandleViews", HandleViews(x)>>,
           <<"TrackedSized", TrackedSized(x)>>,
           <<"CountsPerKind", CountsPerKind(x)>>,
           <<"SizedPerKind", SizedPerKind(x)>>,
           <<"PositionsAreTheProperty", PositionsAreTheProperty(x)>> >>)

InvC13(x) ==
  First(<< <<"RefsLive", RefsLive(x)>>,
           <<"BackPointers", BackPointers(x)>>,
           <<"HandleViews", HandleViews(x)>>,
           <<"TrackedSized", TrackedSized(x)>>,
           <<"CountsPerKind", CountsPerKind(x)>>,
           <<"SizedPerKind", SizedPerKind(x)>>,
           <<"PositionsAreTheProperty", PositionsAreTheProperty(x)>> >>)

(* ---- step relations: frame ------------------------------------------- *)
KPart(x, m) == [alive |-> x.mesh[m].alive, ty |-> x.mesh[m].ty, n |-> x.mesh[m].n, kern |-> x.mesh[m].kern,
                posv |-> x.mesh[m].posv]
NewLive(p, q) == LiveC(q) \ LiveC(p)
StoSame(p, q, i) == i \in DOMAIN q.sto /\ q.sto[i].type = p.sto[i].type /\ q.sto[i] = p.sto[i]
StoDead(q, i)    == i \in DOMAIN q.sto /\ ~q.sto[i].live

(* the meshes outside ms keep kernel, positions, persistent set and         *)
(* position handle; storages outside mods are untouched, those in die may   *)
(* only disappear; slots outside hs keep their binding                      *)
Frame(p, q, ms, die, mods, hs) ==
  /\ \A m \in DOMAIN p.mesh \ ms :
        KPart(q, m) = KPart(p, m) /\ q.mesh[m].pers = p.mesh[m].pers /\ q.mesh[m].posh = p.mesh[m].posh
  /\ \A i \in LiveC(p) \ mods : IF i \in die THEN StoSame(p, q, i) \/ StoDead(q, i) ELSE StoSame(p, q, i)
  /\ \A h \in DOMAIN p.slot \ hs : q.slot[h] = p.slot[h]
AllSame(p, q) == Frame(p, q, {}, {}, {}, {}) /\ NewLive(p, q) = {}

MeshOf(p, i) == IF i = 0 \/ i \notin DOMAIN p.sto THEN 0 ELSE p.sto[i].trk
OldIn(p, h)  == {p.slot[h]} \ {0}

(* ---- C14 step relation ------------------------------------------------ *)
NewRec(p, m, k, t, s, d, sh, pe) ==
  [live |-> TRUE, kind |-> k, type |-> t, name |-> s, shared |-> sh, pers |-> pe, trk |-> m, def |-> d,
   vals |-> Rep(p.mesh[m].n[k], d)]

RelCreate(p, q, c, ret) ==
  LET m == c.a  h == c.b  k == KArg(c)  t == TArg(c)  s == c.s  d == c.l[3]
      L == LookupC(p, m, k, t, s)
      j == q.slot[h]
      Found(r) == /\ ret = r /\ j \in L /\ NewLive(p, q) = {}
                 /\ Frame(p, q, {}, OldIn(p, h), {}, {h})
      Created(r, sh, pe) ==
                 /\ ret = r /\ j # 0 /\ j \notin LiveC(p) /\ NewLive(p, q) = {j}
                 /\ q.sto[j] = NewRec(p, m, k, t, s, d, sh, pe)
                 /\ Frame(p, q, {m}, OldIn(p, h), {}, {h})
                 /\ KPart(q, m) = KPart(p, m) /\ q.mesh[m].posh = p.mesh[m].posh
                 /\ q.mesh[m].pers = p.mesh[m].pers \cup (IF pe THEN {j} ELSE {})
      Refused(r) == ret = r /\ AllSame(p, q)
  IN CASE c.op = "request"           -> IF L # {} THEN Found("ptr") ELSE Created("ptr", s # "", FALSE)
       [] c.op = "get_property"      -> IF L # {} THEN Found("some") ELSE Refused("nullopt")
       [] c.op = "create_private"    -> Created("ptr", FALSE, FALSE)
       [] c.op = "create_shared"     -> IF L # {} THEN Refused("nullopt")
                                        ELSE IF s = "" THEN Refused("nullopt") \/ Refused("threw")
                                        ELSE Created("some", TRUE, FALSE)
       [] c.op = "create_persistent" -> IF L # {} THEN Refused("nullopt")
                                        ELSE IF s = "" THEN Refused("nullopt") \/ Refused("threw")
                                        ELSE Created("some", TRUE, TRUE)

(* set_shared / set_persistent / set_name on storage i attached to mesh m   *)
OnlySto(p, q, m, i, rec, persSet) ==
  /\ NewLive(p, q) = {} /\ Frame(p, q, {m}, {}, {i}, {})
  /\ KPart(q, m) = KPart(p, m) /\ q.mesh[m].posh = p.mesh[m].posh
  /\ q.mesh[m].pers = persSet /\ i \in DOMAIN q.sto /\ q.sto[i] = rec

RelSetShared(p, q, m, i, on, ret) ==
  LET x == p.sto[i] IN
  IF on = x.shared THEN ret = "ok" /\ AllSame(p, q)
  ELSE IF on THEN IF x.name = "" \/ LookupC(p, m, x.kind, x.type, x.name) # {}
                  THEN ret = "threw" /\ AllSame(p, q)
                  ELSE ret = "ok" /\ OnlySto(p, q, m, i, [x EXCEPT !.shared = TRUE], p.mesh[m].pers)
  ELSE \/ ret = "ok" /\ OnlySto(p, q, m, i, [x EXCEPT !.shared = FALSE, !.pers = FALSE], p.mesh[m].pers \ {i})
       \/ x.pers /\ ret = "threw" /\ AllSame(p, q)

RelSetPersistent(p, q, m, i, on, ret) ==
  LET x == p.sto[i] IN
  IF on = x.pers THEN ret = "ok" /\ AllSame(p, q)
  ELSE IF on THEN IF ~x.shared THEN ret = "threw" /\ AllSame(p, q)
                  ELSE ret = "ok" /\ OnlySto(p, q, m, i, [x EXCEPT !.pers = TRUE], p.mesh[m].pers \cup {i})
  ELSE ret = "ok" /\ OnlySto(p, q, m, i, [x EXCEPT !.pers = FALSE], p.mesh[m].pers \ {i})

RelSetName(p, q, i, s, ret) ==
  LET x == p.sto[i]  m == x.trk
      renamed == /\ ret = "ok" /\ NewLive(p, q) = {} /\ Frame(p, q, {}, {}, {i}, {})
                 /\ i \in DOMAIN q.sto /\ q.sto[i] = [x EXCEPT !.name = s]
      refused == ret = "threw" /\ AllSame(p, q)
      breaks  == x.shared /\ m # 0 /\ s # x.name /\ (s = "" \/ LookupC(p, m, x.kind, x.type, s) \ {i} # {})
  IN IF breaks THEN refused
     ELSE IF x.shared /\ m = 0 /\ s = "" THEN renamed \/ refused
     ELSE renamed

(* clear_props / clear_all_props / clear: persistent sets of the kinds are  *)
(* emptied; what a handle still refers to survives, attached, with its      *)
(* name, default and (where the entity count did not change) values; it is  *)
(* not persistent any more.  Whether it is still findable by name is not    *)
(* asserted here.  ks: the kinds cleared, resized: kernel was cleared too   *)
RelClear(p, q, m, ks, clearedProps, resized, ret) ==
  LET ts == IF resized THEN p.mesh[m].trk ELSE {i \in p.mesh[m].trk : p.sto[i].kind \in ks}
      ps == IF clearedProps THEN {i \in p.mesh[m].pers : p.sto[i].kind \in ks} ELSE {} IN
  /\ ret = "ok" /\ NewLive(p, q) = {}
  /\ Frame(p, q, {m}, {}, ts, {})
  /\ q.mesh[m].alive /\ q.mesh[m].ty = p.mesh[m].ty /\ q.mesh[m].posh = p.mesh[m].posh
  /\ q.mesh[m].pers = p.mesh[m].pers \ ps
  /\ IF resized THEN \A k \in Kinds3 \ {"M"} : q.mesh[m].n[k] = 0
     ELSE KPart(q, m) = KPart(p, m)
  /\ \A i \in ts : /\ i \in DOMAIN q.sto
                   /\ \/ i \in ps /\ ~q.sto[i].live
                      \/ LET x == p.sto[i]  y == q.sto[i] IN
                         /\ y.live /\ y.trk = m /\ y.kind = x.kind /\ y.type = x.type /\ y.name = x.name
                         /\ y.def = x.def
                         /\ (i \in ps => ~y.pers) /\ (i \notin ps => y.pers = x.pers)
                         /\ ((~clearedProps \/ x.kind \notin ks) => y.shared = x.shared)
                         /\ IF resized /\ x.kind # "M" THEN y.vals = <<>> ELSE y.vals = x.vals

(* a kernel mutator on mesh m: the registry is unchanged - same storages,   *)
(* same names and flags, still attached; values belong to property C03      *)
RelKernel(p, q, m, ret) ==
  /\ NewLive(p, q) = {} /\ Frame(p, q, {m}, {}, p.mesh[m].trk, {})
  /\ q.mesh[m].alive /\ q.mesh[m].ty = p.mesh[m].ty /\ q.mesh[m].posh = p.mesh[m].posh
  /\ q.mesh[m].pers = p.mesh[m].pers
  /\ \A i \in p.mesh[m].trk :
        i \in DOMAIN q.sto /\ q.sto[i].type = p.sto[i].type /\ [q.sto[i] EXCEPT !.vals = p.sto[i].vals] = p.sto[i]

RelWrite(p, q, i, idx, v, ret) ==
  /\ ret = "ok" /\ NewLive(p, q) = {}
  /\ Frame(p, q, {MeshOf(p, i)}, {}, {i}, {})
  /\ i \in DOMAIN q.sto /\ q.sto[i] = [p.sto[i] EXCEPT !.vals[idx + 1] = v]
  /\ LET m == MeshOf(p, i) IN
     m # 0 => /\ q.mesh[m].pers = p.mesh[m].pers /\ q.mesh[m].posh = p.mesh[m].posh
              /\ [KPart(q, m) EXCEPT !.posv = <<>>] = [KPart(p, m) EXCEPT !.posv = <<>>]

RelMeshNew(p, q, m, ty, ret) ==
  LET j == q.mesh[m].posh IN
  /\ ret = "ok" /\ Frame(p, q, {m}, {}, {}, {})
  /\ q.mesh[m].alive /\ q.mesh[m].ty = ty /\ q.mesh[m].pers = {}
  /\ \A k \in Kinds3 \ {"M"} : q.mesh[m].n[k] = 0
  /\ IF Geometric(ty)
     THEN /\ j \notin LiveC(p) /\ NewLive(p, q) = {j}
          /\ q.sto[j] = [live |-> TRUE, kind |-> "V", type |-> PosType, name |-> PosName, shared |-> TRUE, pers |-> FALSE,
                         trk |-> m, def |-> 0, vals |-> <<>>]
     ELSE j = 0 /\ NewLive(p, q) = {}

(* a handle that outlives its mesh keeps its data but reports being detached *)
RelMeshDestroy(p, q, m, ret) ==
  LET ts == {i \in LiveC(p) : p.sto[i].trk = m} IN
  /\ ret = "ok" /\ NewLive(p, q) = {}
  /\ Frame(p, q, {m}, {}, ts, {})
  /\ ~q.mesh[m].alive
  /\ \A i \in ts : i \in DOMAIN q.sto /\ (~q.sto[i].live \/ q.sto[i] = [p.sto[i] EXCEPT !.trk = 0])

RelHandle(p, q, c, ret) ==
  LET h == c.b IN
  CASE c.op = "h_copy" -> LET h2 == c.l[1] IN
                          /\ ret = "ok" /\ NewLive(p, q) = {} /\ q.slot[h2] = p.slot[h]
                          /\ Frame(p, q, {}, OldIn(p, h2), {}, {h2})
    [] c.op = "h_move" -> LET h2 == c.l[1] IN
                          /\ ret = "ok" /\ NewLive(p, q) = {} /\ q.slot[h2] = p.slot[h] /\ q.slot[h] = 0
                          /\ Frame(p, q, {}, OldIn(p, h2), {}, {h, h2})
    [] c.op = "h_drop" -> /\ ret = "ok" /\ NewLive(p, q) = {} /\ q.slot[h] = 0
                          /\ Frame(p, q, {}, OldIn(p, h), {}, {h})

RelTeardown(p, q, ret) ==
  /\ ret = "ok" /\ AliveC(q) = {} /\ LiveC(q) = {} /\ \A h \in DOMAIN q.slot : q.slot[h] = 0

(* copies inside C14 histories: only that nobody else is touched (the copy  *)
(* relation itself is property C13)                                         *)
RelCopyFrameOnly(p, q, dst, src, ret) ==
  /\ ret = "ok"
  /\ IF dst = src THEN AllSame(p, q)
     ELSE Frame(p, q, {dst}, p.mesh[dst].pers \cup {p.mesh[dst].posh}, p.mesh[dst].trk, {})

RelC14(p, q, c, ret) ==
  CASE c.op \in CreateOps         -> RelCreate(p, q, c, ret)
    [] c.op = "property_exists"   -> /\ ret = (IF LookupC(p, c.a, KArg(c), TArg(c), c.s) # {} THEN "true" ELSE "false")
                                     /\ AllSame(p, q)
    [] c.op = "set_shared"        -> RelSetShared(p, q, c.a, p.slot[c.b], c.f, ret)
    [] c.op = "set_persistent"    -> RelSetPersistent(p, q, c.a, p.slot[c.b], c.f, ret)
    [] c.op = "persist_pos"       -> RelSetPersistent(p, q, c.a, p.mesh[c.a].posh, c.f, ret)
    [] c.op = "set_name"          -> RelSetName(p, q, p.slot[c.b], c.s, ret)
    [] c.op = "pos_handle"        -> /\ ret = "ptr" /\ NewLive(p, q) = {} /\ q.slot[c.b] = p.mesh[c.a].posh
                                     /\ Frame(p, q, {}, OldIn(p, c.b), {}, {c.b})
    [] c.op \in {"h_copy", "h_move", "h_drop"} -> RelHandle(p, q, c, ret)
    [] c.op = "clear_props"       -> RelClear(p, q, c.a, {KArg(c)}, TRUE, FALSE, ret)
    [] c.op = "clear_all_props"   -> RelClear(p, q, c.a, Kinds3, TRUE, FALSE, ret)
    [] c.op = "clear"             -> RelClear(p, q, c.a, Kinds3, c.f, TRUE, ret)
    [] c.op = "write"             -> RelWrite(p, q, p.slot[c.b], c.l[1], c.l[2], ret)
    [] c.op = "set_vertex"        -> RelWrite(p, q, p.mesh[c.a].posh, c.l[1], c.l[2], ret)
    [] c.op = "mesh_new"          -> RelMeshNew(p, q, c.a, MTypeSeq[c.l[1]], ret)
    [] c.op = "mesh_destroy"      -> RelMeshDestroy(p, q, c.a, ret)
    [] c.op \in {"mesh_copy", "mesh_assign"} -> RelCopyFrameOnly(p, q, c.a, c.l[1], ret)
    [] c.op = "teardown"          -> RelTeardown(p, q, ret)
    [] c.op \in KernelOps         -> ret = "ok" /\ RelKernel(p, q, c.a, ret)
    [] c.op = "touch"             -> ret = "ok" /\ AllSame(p, q)
    [] c.op = "stamp"             -> TRUE

(* ---- C13: copy relation and independence ------------------------------ *)
(* what "the same entities, definitions, deletion state, mode and incidence *)
(* settings" compares                                                       *)
KProj(k) == [nv |-> k.nv, vdel |-> k.vdel, edel |-> k.edel, fdel |-> k.fdel, cdel |-> k.cdel,
             ndv |-> k.ndv, nde |-> k.nde, ndf |-> k.ndf, ndc |-> k.ndc,
             edges |-> k.edges, faces |-> k.faces, cells |-> k.cells,
             deferred |-> k.deferred, fast |-> k.fast, vbu |-> k.vbu, ebu |-> k.ebu, fbu |-> k.fbu]
Content(s) == [kind |-> s.kind, type |-> s.type, name |-> s.name, def |-> s.def, vals |-> s.vals]

CopyRelNamed(p, q, dst, src, isAssign) ==
  LET sp    == p.mesh[src].pers
      dp    == q.mesh[dst].pers
      oldH  == IF isAssign THEN {h \in DOMAIN p.slot : p.slot[h] # 0 /\ p.sto[p.slot[h]].trk = dst} ELSE {}
      oldT  == IF isAssign THEN p.mesh[dst].trk ELSE {}
      (* the position property is the mesh's own: it is compared through    *)
      (* vertex(), not as a user property                                   *)
      spU   == {i \in sp : p.sto[i].type # PosType}
      dpU   == {j \in dp : q.sto[j].type # PosType}
  IN First(<<
     <<"SourceUntouched", Frame(p, q, {dst}, oldT, oldT, {})>>,
     <<"TargetAliveSameType", q.mesh[dst].alive /\ (isAssign => q.mesh[dst].ty = p.mesh[dst].ty)
                              /\ (~isAssign => q.mesh[dst].ty = p.mesh[src].ty)>>,
     <<"SameEntitiesAndSettings", KProj(q.mesh[dst].kern) = KProj(p.mesh[src].kern) /\ q.mesh[dst].n = p.mesh[src].n>>,
     <<"SamePositions", q.mesh[dst].posv = p.mesh[src].posv>>,
     <<"PersistentCloned",
        /\ Cardinality(dpU) = Cardinality(spU)
        /\ \A i \in spU : \E j \in dpU : /\ Content(q.sto[j]) = Content(p.sto[i])
                                         /\ q.sto[j].shared /\ q.sto[j].pers /\ q.sto[j].trk = dst>>,
     <<"ClonesAreNewStorages", dp \cap LiveC(p) = {} /\ q.mesh[dst].trk \cap p.mesh[src].trk = {}>>,
     <<"NonPersistentNotCarried",
        \A y \in 1 .. NKeys : (q.mesh[dst].ex[y] => q.mesh[dst].fd[y] \in dp) /\ (q.mesh[dst].fd[y] # 0 => q.mesh[dst].ex[y])>>,
     <<"OldHandlesUsable",
        \A h \in oldH : LET i == p.slot[h] IN
           /\ q.slot[h] = i /\ i \in DOMAIN q.sto /\ q.sto[i].live
           /\ q.sto[i].trk = dst
           /\ Len(q.sto[i].vals) = NK(p.mesh[src].kern, q.sto[i].kind)      \* the SOURCE's count of that kind
           /\ Len(q.sto[i].vals) = q.mesh[dst].n[q.sto[i].kind]           \* = what the target now reports
           /\ q.sl[h].size = Len(q.sto[i].vals) /\ q.sl[h].ok>>,
     <<"OldHandlesNotFindable",
        \A h \in oldH : LET i == p.slot[h] IN
           /\ ~q.sto[i].shared /\ ~q.sto[i].pers /\ i \notin dp
           /\ \A y \in 1 .. NKeys : q.mesh[dst].fd[y] # i>> >>)

RelC13(p, q, c, ret) ==
  CASE c.op = "mesh_copy"   -> CopyRelNamed(p, q, c.a, c.l[1], FALSE)
    [] c.op = "mesh_assign" -> IF c.a = c.l[1] THEN (IF AllSame(p, q) THEN "" ELSE "SelfAssignChangesNothing")
                               ELSE CopyRelNamed(p, q, c.a, c.l[1], TRUE)
    [] OTHER -> ""

(* independence: a call on one mesh (or through a handle of one mesh)       *)
(* leaves every other mesh - kernel, positions, persistent set, and every   *)
(* storage it tracks - exactly as it was                                    *)
Targets(p, c) ==
  CASE c.op \in {"h_copy", "h_move"} -> {MeshOf(p, p.slot[c.l[1]])}
    [] c.op \in {"h_drop", "write", "set_name", "touch"} -> {MeshOf(p, p.slot[c.b])}
    [] c.op \in CreateOps \cup {"pos_handle"} -> {c.a, MeshOf(p, p.slot[c.b])}
    [] c.op = "teardown"  -> DOMAIN p.mesh
    [] OTHER -> {c.a}
Independence(p, q, c) ==
  LET ts == Targets(p, c) IN
  \A m \in AliveC(p) \ ts :
     /\ q.mesh[m] = p.mesh[m]
     /\ \A i \in p.mesh[m].trk : StoSame(p, q, i)
=============================================================================
