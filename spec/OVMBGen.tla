------------------------------- MODULE OVMBGen -------------------------------
(***************************************************************************)
(* Generation from the OVMB format specification (TLC role G) and the      *)
(* codec theorems checked while generating (role M):                       *)
(*                                                                         *)
(*  Encode(m, ch)   the file the description permits for mesh m under the  *)
(*                  encoding choices ch (span splits, integer widths,      *)
(*                  fixed / variable valence, handle offsets, float vs.    *)
(*                  double positions where exact, extra padding, optional  *)
(*                  skippable chunks, directory placement)                 *)
(*  Encodings(m)    the set of such files for all single choices and all   *)
(*                  pairs of choices                                       *)
(*  Layout(b)       field table of a valid file: header / chunk-header /   *)
(*                  sub-header byte regions and numeric fields             *)
(*  Mutants(b)      field-aware corruptions: every truncation, every       *)
(*                  header byte and every padding byte replaced by boundary *)
(*                  values (padding also all bytes at once), every numeric *)
(*                  field replaced by {0,1,n-1,n+1,n+100,2^31-1,2^31,      *)
(*                  2^32-1,2^32,2^63-1,2^63,2^64-100,2^64-1},              *)
(*                  chunks dropped / duplicated / swapped / EOF moved      *)
(*                                                                         *)
(* Theorems evaluated by TLC for every generated file:                     *)
(*   EncodeDecodes : ParseFile(Encode(m, ch)) is ok and equals m           *)
(*   PrefixInvalid : every strict prefix of a valid file is invalid with a *)
(*                   reason C18 lists (strict)                             *)
(* Input: the "write" records of the executor (IOEnv.CORPUS), i.e. meshes  *)
(* of the real library and the bytes its writer produced for them.         *)
(***************************************************************************)
EXTENDS OVMB, Json, IOUtils

CONSTANTS Mode,        \* "enc" (encodings), "mut" (mutants), "chunks" (chunk-level edits only), "thm" (theorems only)
          MaxPrefixLen, \* files up to this length get the exhaustive prefix theorem
          Pairs         \* TRUE: all pairs of choices, FALSE: single choices only

Corpus == ndJsonDeserialize(IOEnv.CORPUS)

(* ------------------------------ encoding -------------------------------- *)
(* concatenation of a sequence of sequences, by halving (shallow recursion, see RunChunks in OVMB.tla) *)
RECURSIVE FlatR(_, _, _)
FlatR(ss, lo, hi) ==
  IF lo > hi THEN <<>> ELSE IF lo = hi THEN ss[lo]
  ELSE LET mid == (lo + hi) \div 2 IN FlatR(ss, lo, mid) \o FlatR(ss, mid + 1, hi)
Flat(ss) == FlatR(ss, 1, Len(ss))

LE64(n) == LE(n, 8)
PadTo8(n) == (8 - (n % 8)) % 8

Chunk(type, ver, flags, payload, extraPad) ==
  LET n == Len(payload)  pad == PadTo8(n) + extraPad IN
  type \o <<ver, pad, 0, flags>> \o LE64(n + pad) \o payload \o [i \in 1 .. pad |-> 0]

(* spans: split 0..n-1 into chunks of size k (k = 0: one span) *)
Spans(n, k) ==
  IF n = 0 THEN <<>>
  ELSE IF k <= 0 \/ k >= n THEN <<[first |-> 0, count |-> n]>>
  ELSE [i \in 1 .. ((n + k - 1) \div k) |-> [first |-> (i - 1) * k, count |-> Min2(k, n - (i - 1) * k)]]

(* Integer widths.  A width has to hold the largest VALUE stored with it: for the handles of a chunk   *)
(* that is the largest handle (bounded by the COUNT of the referenced kind: vertices, halfedges =     *)
(* 2 * edges, halffaces = 2 * faces - not by the count of edges or faces), for the valences of a      *)
(* variable-valence chunk it is the largest valence itself (255 fits one byte, a valence of 256 does  *)
(* not, although "256 entities" have handles 0..255 that do).  Encode chooses both independently.     *)
MinEnc(maxv) == IF maxv <= 255 THEN 1 ELSE IF maxv <= 65535 THEN 2 ELSE 4
SeqMax(s) == IF s = <<>> THEN 0 ELSE CHOOSE x \in {s[i] : i \in DOMAIN s} : \A i \in DOMAIN s : s[i] <= x
SeqMin(s) == IF s = <<>> THEN 0 ELSE CHOOSE x \in {s[i] : i \in DOMAIN s} : \A i \in DOMAIN s : s[i] >= x

PosExactFloat(m) == \A i \in DOMAIN m.pos : \A c \in 0 .. 2 : D2F(Slice(m.pos[i], 8 * c + 1, 8)) # <<>>

VertChunk(m, sp, enc, xp) ==
  Chunk(TagVERT, 0, 1,
        LE64(sp.first) \o LE(sp.count, 4) \o <<enc, 0, 0, 0>> \o
        Flat([i \in 1 .. sp.count |->
                IF enc = 2 THEN m.pos[sp.first + i]
                ELSE Flat([c \in 1 .. 3 |-> D2F(Slice(m.pos[sp.first + i], 8 * (c - 1) + 1, 8))])]), xp)

(* items: sequence of handle sequences; variable: store valences; widen: added to minimal widths *)
TopoChunk(ent, items, sp, variable, venc, henc, useOff, xp) ==
  LET its  == [i \in 1 .. sp.count |-> items[sp.first + i]]
      allh == Flat(its)
      off  == IF useOff THEN SeqMin(allh) ELSE 0
      lens == [i \in 1 .. sp.count |-> Len(its[i])]
      uniform == \A i \in 1 .. sp.count : lens[i] = lens[1]
      var  == variable \/ ~uniform \/ lens[1] = 0 \/ lens[1] > 255
      ve   == IF var THEN Max2(venc, MinEnc(SeqMax(lens))) ELSE 0
      he   == Max2(henc, MinEnc(SeqMax(allh) - off))
  IN Chunk(TagTOPO, 0, 1,
           LE64(sp.first) \o LE(sp.count, 4) \o <<ent, IF var THEN 0 ELSE lens[1], ve, he>> \o LE64(off)
           \o (IF var THEN Flat([i \in 1 .. sp.count |-> LE(lens[i], ve)]) ELSE <<>>)
           \o Flat([i \in DOMAIN allh |-> LE(allh[i] - off, he)]), xp)

EncodeValue(ty, v) ==
  LET sz == OvmbTypes[ty].sz IN IF sz = -1 THEN LE(Len(v), 4) \o v ELSE v
EncodeValues(ty, vs) ==
  IF OvmbTypes[ty].sz = 0
  THEN [k \in 1 .. ((Len(vs) + 7) \div 8) |->
          LET bit(j) == IF 8 * (k - 1) + j + 1 <= Len(vs) THEN vs[8 * (k - 1) + j + 1][1] * Pow2[j + 1] ELSE 0
          IN bit(0) + bit(1) + bit(2) + bit(3) + bit(4) + bit(5) + bit(6) + bit(7)]
  ELSE Flat([i \in DOMAIN vs |-> EncodeValue(ty, vs[i])])

(* the properties OVMB can carry, in the order of the projection *)
OvmbProps(m) == SelectSeq(m.props, LAMBDA p : TypeIndexOfTag(p.t) # 0)

DirChunk(ps, xp) ==
  Chunk(TagDIRP, 0, 1,
        Flat([i \in DOMAIN ps |->
                LET ty == TypeIndexOfTag(ps[i].t)  tn == OvmbTypes[ty].n  d == EncodeValue(ty, ps[i].def) IN
                <<KindCode(ps[i].k)>> \o LE(Len(ps[i].name), 4) \o ps[i].name \o LE(Len(tn), 4) \o tn \o LE(Len(d), 4) \o d]), xp)

PropChunk(p, idx, sp, xp) ==
  LET ty == TypeIndexOfTag(p.t) IN
  Chunk(TagPROP, 0, 1,
        LE64(sp.first) \o LE(sp.count, 4) \o LE(idx, 4)
        \o EncodeValues(ty, [i \in 1 .. sp.count |-> p.vals[sp.first + i]]), xp)

BaseChoice ==
  [vsp |-> 0, venc |-> 2, esp |-> 0, ehe |-> 1, eoff |-> FALSE,
   fsp |-> 0, fvar |-> FALSE, fve |-> 1, fhe |-> 1, foff |-> FALSE,
   csp |-> 0, cvar |-> FALSE, cve |-> 1, che |-> 1, coff |-> FALSE,
   psp |-> 0, pad |-> 0, skip |-> 0, skipver |-> 0, dirlate |-> FALSE, propsearly |-> FALSE, polyhdr |-> FALSE]

(* an optional chunk of a type no reader knows (flags = 0), or of a known   *)
(* type in a version no reader knows: both must be skipped                   *)
SkipChunk(ver) == Chunk(IF ver = 0 THEN TagSKIP ELSE TagVERT, ver, 0, <<1, 2, 3, 4, 5>>, 0)

Encode(m, ch) ==
  LET ps    == OvmbProps(m)
      venc  == IF ch.venc = 1 /\ PosExactFloat(m) THEN 1 ELSE 2
      topo  == IF ch.polyhdr THEN 0 ELSE DetectTopo(m, "poly")
      hdr   == Magic \o <<1, 1, 3, topo>> \o <<0, 0, 0, 0>> \o LE64(m.nv) \o LE64(m.ne) \o LE64(m.nf) \o LE64(m.nc)
      dir   == IF ps = <<>> THEN <<>> ELSE <<DirChunk(ps, ch.pad)>>
      propChunks(kinds) ==
        Flat([i \in DOMAIN ps |->
                IF ps[i].k \in kinds THEN [s \in DOMAIN Spans(Len(ps[i].vals), ch.psp) |-> PropChunk(ps[i], i - 1, Spans(Len(ps[i].vals), ch.psp)[s], ch.pad)]
                ELSE <<>>])
      vs    == [s \in DOMAIN Spans(m.nv, ch.vsp) |-> VertChunk(m, Spans(m.nv, ch.vsp)[s], venc, ch.pad)]
      es    == [s \in DOMAIN Spans(m.ne, ch.esp) |-> TopoChunk(1, m.edges, Spans(m.ne, ch.esp)[s], FALSE, 0, ch.ehe, ch.eoff, ch.pad)]
      fs    == [s \in DOMAIN Spans(m.nf, ch.fsp) |-> TopoChunk(2, m.faces, Spans(m.nf, ch.fsp)[s], ch.fvar /\ topo = 0, ch.fve, ch.fhe, ch.foff, ch.pad)]
      cs    == [s \in DOMAIN Spans(m.nc, ch.csp) |-> TopoChunk(3, m.cells, Spans(m.nc, ch.csp)[s], ch.cvar /\ topo = 0, ch.cve, ch.che, ch.coff, ch.pad)]
      early == ch.propsearly /\ ~ch.dirlate
      body  == (IF ch.dirlate THEN <<>> ELSE dir)
               \o vs \o (IF early THEN propChunks({"V", "M"}) ELSE <<>>)
               \o es \o (IF early THEN propChunks({"E", "HE"}) ELSE <<>>)
               \o fs \o (IF early THEN propChunks({"F", "HF"}) ELSE <<>>)
               \o cs \o (IF early THEN propChunks({"C"}) ELSE <<>>)
               \o (IF ch.dirlate THEN dir ELSE <<>>)
               \o (IF early THEN <<>> ELSE propChunks({"V", "E", "F", "C", "HE", "HF", "M"}))
      withSkip == IF ch.skip = 0 THEN body
                  ELSE LET k == Min2(ch.skip - 1, Len(body)) IN
                       SubSeq(body, 1, k) \o <<SkipChunk(ch.skipver)>> \o SubSeq(body, k + 1, Len(body))
  IN hdr \o Flat(withSkip) \o Chunk(TagEOF, 0, 1, <<>>, ch.pad)

(* single deviations from the writer-like base choice *)
Deviations ==
  { <<"vsp", 1>>, <<"vsp", 2>>, <<"venc", 1>>,
    <<"esp", 1>>, <<"esp", 2>>, <<"ehe", 2>>, <<"ehe", 4>>, <<"eoff", TRUE>>,
    <<"fsp", 1>>, <<"fsp", 2>>, <<"fvar", TRUE>>, <<"fve", 2>>, <<"fve", 4>>, <<"fhe", 2>>, <<"fhe", 4>>, <<"foff", TRUE>>,
    <<"csp", 1>>, <<"cvar", TRUE>>, <<"cve", 4>>, <<"che", 2>>, <<"che", 4>>, <<"coff", TRUE>>,
    <<"psp", 1>>, <<"psp", 3>>, <<"pad", 8>>, <<"pad", 3>>, <<"skip", 1>>, <<"skip", 3>>, <<"skip", 99>>,
    <<"dirlate", TRUE>>, <<"propsearly", TRUE>>, <<"polyhdr", TRUE>> }
ApplyDev(ch, d) == [ch EXCEPT ![d[1]] = d[2]]
Choices ==
  {BaseChoice} \cup {ApplyDev(BaseChoice, d) : d \in Deviations}
  \cup {ApplyDev(ApplyDev(BaseChoice, <<"skip", 2>>), <<"skipver", 7>>)}
  \cup (IF Pairs THEN {ApplyDev(ApplyDev(BaseChoice, d1), d2) : d1 \in Deviations, d2 \in {d \in Deviations : d[1] = "fvar" \/ d[1] = "cvar" \/ d[1] = "fsp" \/ d[1] = "esp" \/ d[1] = "pad" \/ d[1] = "psp"}}
        ELSE {})

(* distinct files with one witness choice each *)
Encodings(m) ==
  LET files == {Encode(m, ch) : ch \in Choices} IN
  {[bytes |-> f, ch |-> CHOOSE ch \in Choices : Encode(m, ch) = f] : f \in files}

(* ------------------------------ field table ----------------------------- *)
(* regions: byte ranges substituted byte by byte; nums: numeric fields      *)
RECURSIVE DirLayout(_, _, _)
DirLayout(b, o, e) ==
  IF o >= e THEN [regions |-> <<>>, nums |-> <<>>]
  ELSE LET ln == U32(b, o + 1)  o2 == o + 5 + ln  lt == U32(b, o2)  o3 == o2 + 4 + lt  ld == U32(b, o3)
           rest == DirLayout(b, o3 + 4 + ld, e)
       IN [regions |-> <<[o |-> o, n |-> 5], [o |-> o2, n |-> 4], [o |-> o3, n |-> 4]>> \o rest.regions,
           nums |-> <<[o |-> o, n |-> 1], [o |-> o + 1, n |-> 4], [o |-> o2, n |-> 4], [o |-> o3, n |-> 4]>> \o rest.nums]

RECURSIVE StringLens(_, _, _)
StringLens(b, o, e) == IF o + 4 > e THEN <<>> ELSE <<[o |-> o, n |-> 4]>> \o StringLens(b, o + 4 + U32(b, o), e)

(* chunk extents of a valid file: sequence of [o, len, type] *)
RECURSIVE ChunkExtents(_, _)
ChunkExtents(b, o) ==
  IF o > Len(b) THEN <<>>
  ELSE LET flen == U64(b, o + 8) IN <<[o |-> o, len |-> 16 + flen, type |-> Slice(b, o, 4)]>> \o ChunkExtents(b, o + 16 + flen)

ChunkLayout(b, x, dirTypes) ==
  LET o == x.o  p == o + 16  n == U64(b, o + 8) - b[o + 5]
      pad == b[o + 5]
      \* the chunk header and, byte by byte, the padding behind the payload
      base == [regions |-> <<[o |-> o, n |-> 16]>> \o (IF pad > 0 THEN <<[o |-> p + n, n |-> pad]>> ELSE <<>>),
               nums |-> <<[o |-> o + 5, n |-> 1], [o |-> o + 8, n |-> 8]>>]
  IN IF x.type = TagVERT THEN
          [regions |-> base.regions \o <<[o |-> p, n |-> 16]>>, nums |-> base.nums \o <<[o |-> p, n |-> 8], [o |-> p + 8, n |-> 4]>>]
     ELSE IF x.type = TagTOPO THEN
          LET count == U32(b, p + 8)  val == b[p + 13]  venc == b[p + 14]  henc == b[p + 15]
              vb == IF val = 0 THEN count * venc ELSE 0
              nh == (n - 24 - vb) \div henc
          IN [regions |-> base.regions \o <<[o |-> p, n |-> 24]>>,
              nums |-> base.nums \o <<[o |-> p, n |-> 8], [o |-> p + 8, n |-> 4], [o |-> p + 13, n |-> 1], [o |-> p + 16, n |-> 8]>>
                       \o (IF val = 0 THEN [i \in 1 .. count |-> [o |-> p + 24 + (i - 1) * venc, n |-> venc]] ELSE <<>>)
                       \o [i \in 1 .. nh |-> [o |-> p + 24 + vb + (i - 1) * henc, n |-> henc]]]
     ELSE IF x.type = TagPROP THEN
          LET idx == U32(b, p + 12)
              isStr == idx + 1 \in DOMAIN dirTypes /\ dirTypes[idx + 1] # 0 /\ OvmbTypes[dirTypes[idx + 1]].sz = -1
          IN [regions |-> base.regions \o <<[o |-> p, n |-> 16]>>,
              nums |-> base.nums \o <<[o |-> p, n |-> 8], [o |-> p + 8, n |-> 4], [o |-> p + 12, n |-> 4]>>
                       \o (IF isStr THEN StringLens(b, p + 16, p + n) ELSE <<>>)]
     ELSE IF x.type = TagDIRP THEN
          LET d == DirLayout(b, p, p + n) IN [regions |-> base.regions \o d.regions, nums |-> base.nums \o d.nums]
     ELSE base

Layout(b) ==
  LET xs == ChunkExtents(b, HeaderSize + 1)
      dirs == {i \in DOMAIN xs : xs[i].type = TagDIRP}
      dirTypes == IF dirs = {} THEN <<>>
                  ELSE LET x == xs[CHOOSE i \in dirs : TRUE]
                           es == DecodeDir(b, x.o + 16, x.o + 16 + U64(b, x.o + 8) - b[x.o + 5])
                       IN [i \in DOMAIN es |-> es[i].ty]
      ls == [i \in DOMAIN xs |-> ChunkLayout(b, xs[i], dirTypes)]
  IN [chunks |-> xs,
      regions |-> <<[o |-> 1, n |-> 48]>> \o Flat([i \in DOMAIN ls |-> ls[i].regions]),
      nums |-> <<[o |-> 17, n |-> 8], [o |-> 25, n |-> 8], [o |-> 33, n |-> 8], [o |-> 41, n |-> 8]>> \o Flat([i \in DOMAIN ls |-> ls[i].nums])]

(* ------------------------------- mutants -------------------------------- *)
(* a mutant is an edit [k, at, del, ins]: delete del bytes at 1-based offset at, insert ins there *)
ApplyEdit(b, e) == SubSeq(b, 1, e.at - 1) \o e.ins \o SubSeq(b, e.at + e.del, Len(b))

ByteValues(orig) == ({0, 1, 127, 128, 255, orig + 1, orig - 1} \cap (0 .. 255)) \ {orig}

FF(n) == [i \in 1 .. n |-> 255]
NumValues(b, f) ==
  LET cur == IF f.n = 1 THEN b[f.o] ELSE IF f.n = 2 THEN U16(b, f.o) ELSE IF f.n = 4 THEN U32(b, f.o) ELSE U64(b, f.o)
      small == {0, 1} \cup (IF cur = Huge THEN {} ELSE {cur + 1, cur + 100} \cup (IF cur > 0 THEN {cur - 1} ELSE {}))
      fits(v) == f.n >= 4 \/ (f.n = 1 /\ v <= 255) \/ (f.n = 2 /\ v <= 65535)
      consts == CASE f.n = 1 -> {<<127>>, <<128>>, <<255>>}
                  [] f.n = 2 -> {<<255, 127>>, <<255, 255>>, <<0, 1>>}
                  [] f.n = 4 -> {<<255, 255, 255, 127>>, <<0, 0, 0, 128>>, FF(4), <<0, 1, 0, 0>>}
                  [] f.n = 8 -> {<<255, 255, 255, 127, 0, 0, 0, 0>>, <<0, 0, 0, 128, 0, 0, 0, 0>>, <<255, 255, 255, 255, 0, 0, 0, 0>>,
                                 <<0, 0, 0, 0, 1, 0, 0, 0>>, <<255, 255, 255, 255, 255, 255, 255, 127>>,
                                 <<0, 0, 0, 0, 0, 0, 0, 128>>, <<156, 255, 255, 255, 255, 255, 255, 255>>, FF(8)}
  IN ({LE(v, f.n) : v \in {x \in small : fits(x)}} \cup consts) \ {Slice(b, f.o, f.n)}

(* chunk-level edits: every chunk dropped, duplicated, swapped with its successor, moved in front of  *)
(* every other chunk (or behind the last one), the EOF chunk inserted before every earlier chunk.    *)
(* Which orders are legal is decided by the reader machine of OVMB.tla (ApplyChunk): a VERT / TOPO   *)
(* span must continue where the last span of its kind ended, an edge may only name vertices, a face  *)
(* only halfedges, a cell only halffaces that EARLIER chunks delivered, a PROP chunk needs the        *)
(* directory before it, nothing follows the EOF chunk; everything else may be interleaved freely.    *)
ChunkMutants(b) ==
  LET xs == ChunkExtents(b, HeaderSize + 1)
      nx == Len(xs)
      chunkBytes(i) == Slice(b, xs[i].o, xs[i].len)
      range(lo, hi) == IF lo > hi THEN <<>> ELSE Slice(b, xs[lo].o, xs[hi].o + xs[hi].len - xs[lo].o)
      eofs == {i \in DOMAIN xs : xs[i].type = TagEOF}
  IN    {[k |-> "drop", at |-> xs[i].o, del |-> xs[i].len, ins |-> <<>>] : i \in DOMAIN xs}
   \cup {[k |-> "dup", at |-> xs[i].o, del |-> 0, ins |-> chunkBytes(i)] : i \in DOMAIN xs}
   \cup {[k |-> "swap", at |-> xs[i].o, del |-> xs[i].len + xs[i + 1].len, ins |-> chunkBytes(i + 1) \o chunkBytes(i)] : i \in 1 .. nx - 1}
   \cup UNION {{[k |-> "move", at |-> xs[j].o, del |-> Len(range(j, i)), ins |-> chunkBytes(i) \o range(j, i - 1)] : j \in 1 .. i - 2} : i \in DOMAIN xs}
   \cup UNION {{[k |-> "move", at |-> xs[i].o, del |-> Len(range(i, j)), ins |-> range(i + 1, j) \o chunkBytes(i)] : j \in i + 2 .. nx} : i \in DOMAIN xs}
   \cup UNION {{[k |-> "eofmove", at |-> xs[j].o, del |-> 0, ins |-> chunkBytes(i)] : j \in 1 .. i - 1} : i \in eofs}

Mutants(b) ==
  LET L == Layout(b)
      n == Len(b)
  IN    {[k |-> "trunc", at |-> t + 1, del |-> n - t, ins |-> <<>>] : t \in 0 .. n - 1}
   \cup UNION {UNION {{[k |-> "byte", at |-> o, del |-> 1, ins |-> <<v>>] : v \in ByteValues(b[o])}
                      : o \in L.regions[r].o .. L.regions[r].o + L.regions[r].n - 1} : r \in DOMAIN L.regions}
   \cup UNION {{[k |-> "num", at |-> L.nums[f].o, del |-> L.nums[f].n, ins |-> v] : v \in NumValues(b, L.nums[f])} : f \in DOMAIN L.nums}
   \cup UNION {{[k |-> "padall", at |-> L.chunks[i].o + L.chunks[i].len - b[L.chunks[i].o + 5], del |-> b[L.chunks[i].o + 5],
                  ins |-> [j \in 1 .. b[L.chunks[i].o + 5] |-> v]] : v \in {1, 128, 255}}
               : i \in {x \in DOMAIN L.chunks : b[L.chunks[x].o + 5] > 0}}
   \cup ChunkMutants(b)
   \cup {[k |-> "append", at |-> n + 1, del |-> 0, ins |-> v] : v \in {<<0>>, FF(16), Slice(b, 1, Min2(n, 48))}}

(* ------------------------------ theorems -------------------------------- *)
EncodeDecodes(m, e) == LET P == ParseFile(e) IN P.ok /\ SameMesh(P, m) /\ P.topo \in {0, DetectTopo(m, "poly")}

PrefixInvalid(b) == \A t \in 0 .. Len(b) - 1 : LET P == ParseFile(SubSeq(b, 1, t)) IN ~P.ok /\ P.strict

(* ------------------------------ driver ---------------------------------- *)
VARIABLES i
IsSource(ln) == ln.e = "write" /\ ln.fmt = "ovmb" /\ "died" \notin DOMAIN ln /\ ln.res = "Ok" /\ ln.good /\ ~ln.mesh.needs_gc

GenEnc(k) ==
  LET ln == Corpus[k]  m == ln.mesh  E == Encodings(m) IN
  /\ \A e \in E :
        /\ PrintT(<<"ENC", ToJson([src |-> k, j |-> ln.j, ch |-> e.ch, bytes |-> e.bytes])>>)
        /\ (EncodeDecodes(m, e.bytes) \/ PrintT(<<"GENBAD", k, "EncodeDecodes", ToJson(e.ch)>>))
  /\ PrintT(<<"GENSTAT", k, "encodings", Cardinality(E)>>)

GenMut(k) ==
  LET ln == Corpus[k]  b == ln.bytes  M == Mutants(b) IN
  /\ \A e \in M : PrintT(<<"MUT", ToJson([src |-> k, j |-> ln.j] @@ e)>>)
  /\ PrintT(<<"GENSTAT", k, "mutants", Cardinality(M)>>)

GenChunks(k) ==
  LET ln == Corpus[k]  b == ln.bytes  M == ChunkMutants(b) IN
  /\ \A e \in M : PrintT(<<"MUT", ToJson([src |-> k, j |-> ln.j] @@ e)>>)
  /\ PrintT(<<"GENSTAT", k, "mutants", Cardinality(M)>>)

GenThm(k) ==
  LET ln == Corpus[k]  b == ln.bytes IN
  /\ (ParseFile(b).ok \/ PrintT(<<"GENBAD", k, "WriterFileInvalid", ParseFile(b).why>>))
  /\ IF Len(b) <= MaxPrefixLen
     THEN /\ (PrefixInvalid(b) \/ PrintT(<<"GENBAD", k, "PrefixInvalid", "">>))
          /\ PrintT(<<"GENSTAT", k, "prefixes", Len(b)>>)
     ELSE TRUE

Init == i = 1
Next ==
  /\ i <= Len(Corpus)
  /\ i' = i + 1
  /\ IF IsSource(Corpus[i])
     THEN CASE Mode = "enc" -> GenEnc(i) [] Mode = "mut" -> GenMut(i) [] Mode = "chunks" -> GenChunks(i) [] OTHER -> GenThm(i)
     ELSE TRUE
Spec == Init /\ [][Next]_i
Done == (i = Len(Corpus) + 1) => PrintT(<<"GENDONE", Len(Corpus)>>)
=============================================================================
