SPECIFICATION Spec
CONSTANTS
  Depth = 1
  SeedIds = {0,1,2,3,4,5,6,7,8}
  Modes <- ModesDefault
  BUSets <- BUOn
  HistOps <- NoOps
  TargetOps = {"add_vertex"}
  MaxList = 3
  Emit = "none"
INVARIANT NoBad
INVARIANT SeedOK
VIEW View
ACTION_CONSTRAINT EmitStep
CHECK_DEADLOCK FALSE
