// Stand-alone reproduction (no verification machinery involved).
//
// TetrahedralMeshTopologyKernel::add_cell(halffaces, /*topologyCheck=*/true) accepted
// the list {f.0, f.1, g.0, g.1}: both halffaces of two vertex-disjoint triangles.
// Each pair is a closed surface for the generic test of TopologyKernel::add_cell
// (no halfedge twice, every edge in both directions), the valence guards of the
// tetrahedral kernel pass (4 halffaces of valence 3), and the result was a "tetrahedron"
// with 2 faces and 6 vertices (C15: every cell has four faces and four distinct
// vertices after any sequence of additions, including rejected ones).  On such a cell
// get_cell_vertices() returns {} and halfface_opposite_vertex() indexes [3] of that
// empty vector (undefined behaviour; libstdc++ assertion with -D_GLIBCXX_ASSERTIONS).
//
// Build and run:
//   g++ -std=c++17 -O1 -g -DNDEBUG -D_GLIBCXX_ASSERTIONS -I/repo/src -I/verif/.build/plain/ovm/src \
//       C15_tet_add_cell_accepts_two_pillows.cc /verif/.build/plain/ovm/src/libOpenVolumeMesh.a -o repro && ./repro
// Expected (fixed): "add_cell -> -1", exit code 0.  Before the fix: add_cell -> 0, 6 vertices, exit code 1
// (and an abort if the commented call below is enabled).
#include <OpenVolumeMesh/Mesh/TetrahedralMesh.hh>
#include <iostream>
using namespace OpenVolumeMesh;
int main() {
    TetrahedralMeshTopologyKernel m;
    std::vector<VertexHandle> v;
    for (int i = 0; i < 6; ++i) v.push_back(m.add_vertex());
    FaceHandle f = m.add_face(std::vector<VertexHandle>{v[0], v[1], v[2]});
    FaceHandle g = m.add_face(std::vector<VertexHandle>{v[3], v[4], v[5]});
    std::vector<HalfFaceHandle> hfs{m.halfface_handle(f, 0), m.halfface_handle(f, 1), m.halfface_handle(g, 0), m.halfface_handle(g, 1)};
    CellHandle c = m.add_cell(hfs, true);
    std::cout << "add_cell -> " << c.idx() << ", n_cells = " << m.n_cells() << std::endl;
    if (!c.is_valid()) return 0;
    std::cout << "vertices of the 'tetrahedron': " << m.n_vertices_in_cell(c)
              << ", get_cell_vertices(c).size() = " << m.get_cell_vertices(c).size() << std::endl;
    // m.halfface_opposite_vertex(hfs[0]);   // get_cell_vertices(hfh)[3] on an empty vector
    return 1;
}
