// C14, finding P1: create_shared_property / create_persistent_property accept an EMPTY name and
// return a property that is shared (and persistent) but has no name: "persistent implies shared
// implies named-and-unique" is broken by a create_* call that neither throws nor returns nullopt.
// Found by bin/check C14 (model level: SharedImpliesNamed after create_shared / create_persistent
// with name ""; same relation on the replayed implementation step).
// build: g++ -std=c++17 -D_GLIBCXX_ASSERTIONS -I/repo/src -I/verif/.build/plain/ovm/src P1_create_shared_empty_name.cc /verif/.build/plain/ovm/src/libOpenVolumeMesh.a -o /tmp/p1 && /tmp/p1
#include <OpenVolumeMesh/Mesh/PolyhedralMesh.hh>
#include <iostream>
using namespace OpenVolumeMesh;
int main() {
    GeometricPolyhedralMeshV3d m;
    m.add_vertex();
    int bad = 0;
    try {
        auto p = m.create_shared_property<int, Entity::Vertex>("", 7);
        if (p) { std::cout << "create_shared_property(\"\"): shared=" << p->shared() << " anonymous=" << p->anonymous() << "\n"; bad += p->shared() && p->anonymous(); }
        else std::cout << "create_shared_property(\"\"): nullopt\n";
    } catch (std::exception const &e) { std::cout << "create_shared_property(\"\") threw: " << e.what() << "\n"; }
    try {
        auto q = m.create_persistent_property<int, Entity::Vertex>("", 7);
        if (q) { std::cout << "create_persistent_property(\"\"): persistent=" << q->persistent() << " shared=" << q->shared() << " anonymous=" << q->anonymous()
                           << " n_persistent_props=" << m.n_persistent_props<Entity::Vertex>() << "\n"; bad += q->shared() && q->anonymous(); }
        else std::cout << "create_persistent_property(\"\"): nullopt\n";
    } catch (std::exception const &e) { std::cout << "create_persistent_property(\"\") threw: " << e.what() << "\n"; }
    std::cout << (bad ? "DEFECT: shared property without a name\n" : "ok\n");
    return bad ? 1 : 0;
}
