// C13, finding P3 (DESIGN.md defect candidate 12): copying or assigning a mesh whose position
// property was made persistent - even SELF-assignment, because GeometryKernel::operator= returns a
// copy by value - clones "ovm:position" with the persistent properties and then make_prop() calls
// create_shared_property("ovm:position") again: the optional is empty and is dereferenced
// (libstdc++ assertion with -D_GLIBCXX_ASSERTIONS, undefined behaviour without).
// Found by bin/check C13 (model level: NoUB make_prop; crash of the replayed mesh_copy / mesh_assign).
// build: g++ -std=c++17 -D_GLIBCXX_ASSERTIONS -I/repo/src -I/verif/.build/plain/ovm/src P3_copy_with_persistent_positions.cc /verif/.build/plain/ovm/src/libOpenVolumeMesh.a -o /tmp/p3 && /tmp/p3
#include <OpenVolumeMesh/Mesh/PolyhedralMesh.hh>
#include <iostream>
using namespace OpenVolumeMesh;
int main(int argc, char **) {
    GeometricPolyhedralMeshV3d m;
    m.add_vertex(Geometry::Vec3d(1, 2, 3));
    m.set_persistent(m.vertex_positions(), true);
    if (argc > 1) { m = m; std::cout << "self-assignment survived\n"; }
    GeometricPolyhedralMeshV3d c(m);   // aborts here on the unrepaired tree
    std::cout << "copy: n_vertices=" << c.n_vertices() << " position=" << c.vertex(VertexHandle(0))
              << " n_persistent_props<Vertex>=" << c.n_persistent_props<Entity::Vertex>() << "\n";
    GeometricPolyhedralMeshV3d d;
    d = m;
    std::cout << "assigned: position=" << d.vertex(VertexHandle(0)) << "\n";
    return 0;
}
