// C14, finding P2 (DESIGN.md defect candidate 11): PropertyPtr::set_name on a SHARED property checks
// neither emptiness nor uniqueness: (a) a shared property can be renamed to "", (b) two shared int
// vertex properties named "a" coexist on one mesh (get_property then returns whichever comes first
// in pointer order).  set_shared() throws in exactly these two situations.
// Found by bin/check C14 (SharedImpliesNamed / UniqueShared after set_name).
// build: g++ -std=c++17 -D_GLIBCXX_ASSERTIONS -I/repo/src -I/verif/.build/plain/ovm/src P2_set_name_on_shared_property.cc /verif/.build/plain/ovm/src/libOpenVolumeMesh.a -o /tmp/p2 && /tmp/p2
#include <OpenVolumeMesh/Mesh/PolyhedralMesh.hh>
#include <iostream>
using namespace OpenVolumeMesh;
int main() {
    GeometricPolyhedralMeshV3d m;
    m.add_vertex();
    auto a = *m.create_shared_property<int, Entity::Vertex>("a", 1);
    auto b = *m.create_shared_property<int, Entity::Vertex>("b", 2);
    int bad = 0;
    try { b.set_name("a"); } catch (std::exception const &e) { std::cout << "set_name(\"a\") threw: " << e.what() << "\n"; }
    if (a.shared() && b.shared() && a.name() == b.name()) { std::cout << "two shared int vertex properties named '" << a.name() << "'\n"; ++bad; }
    try { a.set_name(""); } catch (std::exception const &e) { std::cout << "set_name(\"\") threw: " << e.what() << "\n"; }
    if (a.shared() && a.anonymous()) { std::cout << "a shared property without a name\n"; ++bad; }
    std::cout << (bad ? "DEFECT\n" : "ok\n");
    return bad ? 1 : 0;
}
