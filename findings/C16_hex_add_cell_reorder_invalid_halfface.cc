// Stand-alone reproduction (no verification machinery involved).
//
// HexahedralMeshTopologyKernel::add_cell(halffaces, /*topologyCheck=*/true) with an
// INVALID list (one halfface of a cube missing, another one given twice) must
// reject the list and leave the mesh unchanged (property C16 / C11).  Before
// the fix the automatic re-ordering skipped a missing neighbour with `continue`,
// left InvalidHalfFaceHandle (-1) in the re-ordered list and passed it on:
//   * TopologyKernel::add_cell reads the handle -1 as "opposite halfface of face
//     0"; when the missing halfface IS halfface 1 the surface looks closed, the
//     cell [..., -1] is stored and incident_cell_per_hf_[-1] is written:
//     out-of-bounds write (SIGSEGV in a plain build, libstdc++ assertion
//     `__n < this->size()` with -D_GLIBCXX_ASSERTIONS);
//   * when the first halfedge of the first halfface has no neighbour in the
//     list, next_halfedge_in_halfface() is called with an invalid halfface.
//
// Build and run (library built from /repo, e.g. the harness build):
//   g++ -std=c++17 -O1 -g -DNDEBUG -D_GLIBCXX_ASSERTIONS -I/repo/src -I/verif/.build/plain/ovm/src \
//       C16_hex_add_cell_reorder_invalid_halfface.cc /verif/.build/plain/ovm/src/libOpenVolumeMesh.a -o repro && ./repro
// Expected (fixed): every call prints "-> -1", cells stay 1, exit code 0.
// Before the fix: abort / segmentation fault at the first call.
#include <OpenVolumeMesh/Mesh/HexahedralMesh.hh>
#include <iostream>
using namespace OpenVolumeMesh;
int main() {
    HexahedralMeshTopologyKernel m;
    std::vector<VertexHandle> v;
    for (int i = 0; i < 8; ++i) v.push_back(m.add_vertex());
    CellHandle c = m.add_cell(std::vector<VertexHandle>{v[0], v[1], v[2], v[3], v[4], v[5], v[6], v[7]}, true);
    std::cout << "cube: cell " << c.idx() << ", halffaces";
    for (auto hf : m.cell(c).halffaces()) std::cout << ' ' << hf.idx();
    std::cout << std::endl;
    // The outside halffaces 1,3,5,7,9,11 form a closed surface (a valid list).
    // Invalid variants: halfface 1 left out, another one doubled / a foreign one inserted.
    int rc = 0;
    for (auto l : std::vector<std::vector<int>>{{11, 3, 5, 7, 9, 11}, {5, 3, 5, 7, 9, 11}, {7, 5, 3, 0, 11, 9}, {0, 3, 5, 7, 9, 11}}) {
        std::vector<HalfFaceHandle> hfs;
        for (int x : l) hfs.emplace_back(x);
        CellHandle r = m.add_cell(hfs, true);
        std::cout << "add_cell({";
        for (int x : l) std::cout << x << ' ';
        std::cout << "}, true) -> " << r.idx() << ", n_cells = " << m.n_cells() << std::endl;
        if (r.is_valid() || m.n_cells() != 1) rc = 1;
    }
    return rc;
}
