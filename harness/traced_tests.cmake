# Trace source T: the repository's own unit tests, re-built against the hooked
# library and linked with the tracer.
if(EXISTS /usr/src/googletest/CMakeLists.txt AND NOT VERIF_SAN)
  set(INSTALL_GTEST OFF CACHE BOOL "" FORCE)
  set(BUILD_GMOCK OFF CACHE BOOL "" FORCE)
  add_subdirectory(/usr/src/googletest gtest EXCLUDE_FROM_ALL)
  file(GLOB VERIF_UT_SOURCES CONFIGURE_DEPENDS ${OVM_REPO}/src/Unittests/*.cc)
  add_executable(unittests_traced EXCLUDE_FROM_ALL ${VERIF_UT_SOURCES} tracer.cc)
  target_link_libraries(unittests_traced OpenVolumeMesh::OpenVolumeMesh gtest)
endif()
