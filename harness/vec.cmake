# executor of the vector-algebra / geometry check (C19): spec/OVMVec*.tla, bin/vecread_check.py
add_executable(vec_exec ${CMAKE_CURRENT_LIST_DIR}/vec_exec.cc)
target_link_libraries(vec_exec OpenVolumeMesh::OpenVolumeMesh)
