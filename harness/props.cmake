# executor of the property registry / mesh copy module (C13, C14): see spec/OVMProps.tla, docs/props.md
add_executable(props_exec props_exec.cc)
target_link_libraries(props_exec OpenVolumeMesh::OpenVolumeMesh)
