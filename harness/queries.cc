// Query recorder: raw answers of the read-only API of TopologyKernel for every
// argument over the (small) mesh.  No interpretation, no expected values; the
// only decisions taken here are contract guards (a query whose documented
// precondition is "incidence kind X enabled" is only called when X is enabled).
//
// level bits: 1 upward queries (C01)   2 iterator / circulator protocol (C05)
//             4 mirror / orientation (C08)   8 in-cell adjacency (C09)
//            16 lookups (C10)
#include "queries.hh"
#include <set>

using namespace OpenVolumeMesh;
using vx::Json;

namespace vq {

static const size_t CAP = 80;   // walks are cut here (a sentinel -99 is appended)

template <class It> static void fwd(Json &j, It it) {
    j.begin_arr();
    size_t n = 0;
    while (it.valid() && n < CAP) { j.val((*it).idx()); ++it; ++n; }
    if (n >= CAP) j.val(-99);
    j.end_arr();
}

// protocol record of one circulator (begin, end) pair for a given max_laps:
//   w   forward walk while valid()
//   rf  the same through begin != end
//   bk  k steps forward then k steps backward from begin: handles and laps after every step
//   eq  begin advanced |w| times == end
template <class Pair> static void proto(Json &j, Pair pr, int laps) {
    auto b = pr.first; auto e = pr.second;
    j.begin_obj();
    j.kv("laps", laps);
    j.kv("v0", (bool)b.valid());
    j.key("w"); fwd(j, b);
    j.key("rf"); { j.begin_arr(); size_t n = 0; for (auto it = b; it != e && n < CAP; ++it, ++n) j.val((*it).idx()); if (n >= CAP) j.val(-99); j.end_arr(); }
    size_t len = 0; { auto it = b; while (it.valid() && len < CAP) { ++it; ++len; } }
    if (b.valid() && len < CAP) {
        { auto it = b; for (size_t i = 0; i < len; ++i) ++it; j.kv("eq", (bool)(it == e)); }
        // forward k = min(len-1, n1+1) steps, then back the same number
        size_t n1 = len / (size_t)laps;
        size_t k = std::min(len - 1, n1 + 1);
        j.key("bk"); j.begin_arr();
        auto it = b;
        j.begin_arr(); j.val((*it).idx()); j.val(it.lap()); j.val((bool)it.valid()); j.end_arr();
        for (size_t i = 0; i < k; ++i) { ++it; j.begin_arr(); j.val((*it).idx()); j.val(it.lap()); j.val((bool)it.valid()); j.end_arr(); }
        for (size_t i = 0; i < k; ++i) { --it; j.begin_arr(); j.val((*it).idx()); j.val(it.lap()); j.val((bool)it.valid()); j.end_arr(); }
        j.end_arr();
    }
    j.end_obj();
}

#define CIRC(NAME, HT, N, DELTEST, ITER, RANGE)                                             \
    do {                                                                                     \
        j.key(NAME); j.begin_arr();                                                          \
        for (int i = 0; i < (int)(N); ++i) {                                                 \
            HT h(i);                                                                         \
            if (DELTEST) { j.begin_arr(); j.val(-1); j.end_arr(); continue; }                \
            if (level & 2) {                                                                 \
                j.begin_arr();                                                               \
                for (int laps = 1; laps <= 3; ++laps) proto(j, m.RANGE(h, laps), laps);       \
                j.end_arr();                                                                 \
            } else {                                                                         \
                fwd(j, m.ITER(h, 1));                                                        \
            }                                                                                \
        }                                                                                    \
        j.end_arr();                                                                         \
    } while (0)

template <class It> static void entity_proto(Json &j, std::pair<It, It> pr, It viaiter) {
    j.begin_obj();
    j.key("w"); fwd(j, viaiter);
    j.key("rf"); { j.begin_arr(); size_t n = 0; for (auto it = pr.first; it != pr.second && n < CAP * 4; ++it, ++n) j.val((*it).idx()); j.end_arr(); }
    // backward from end: as many steps as the forward walk has entries (the valid flag
    // is documented not to be restored by --, so positions are compared, not the flag)
    size_t len = 0; { auto it = pr.first; while (it != pr.second && len < CAP * 4) { ++it; ++len; } }
    j.key("bk"); { j.begin_arr(); auto it = pr.second; for (size_t n = 0; n < len; ++n) { --it; j.val((*it).idx()); } j.end_arr(); }
    // backward with the valid() protocol from a VALID iterator: go to the last entity, then step
    // back while valid() (must visit the remaining entities in reverse and then become invalid)
    j.key("bk2"); { j.begin_arr(); if (len > 0) { auto it = pr.first; for (size_t n = 0; n + 1 < len; ++n) ++it;
        size_t n = 0; --it; while (it.valid() && n < CAP * 4) { j.val((*it).idx()); --it; ++n; } } j.end_arr(); }
    j.kv("v0", (bool)pr.first.valid());
    j.end_obj();
}

template <class It> static void bnd_walk(Json &j, It it) {
    j.begin_arr();
    size_t n = 0;
    while (it.valid() && n < CAP * 4) { j.val((*it).idx()); ++it; ++n; }
    j.end_arr();
}

void dump_queries(Json &j, const TopologyKernel &m, int level) {
    const int nv = (int)m.n_vertices(), ne = (int)m.n_edges(), nf = (int)m.n_faces(), nc = (int)m.n_cells();
    const bool vbu = m.has_vertex_bottom_up_incidences(), ebu = m.has_edge_bottom_up_incidences(), fbu = m.has_face_bottom_up_incidences();
    j.begin_obj();
    j.kv("lvl", level);
    if (level & 3) {
        // upward circulators (safe to construct with disabled incidences: must then be invalid)
        CIRC("voh", VertexHandle, nv, m.is_deleted(h), voh_iter, outgoing_halfedges);
        CIRC("vih", VertexHandle, nv, m.is_deleted(h), vih_iter, incoming_halfedges);
        CIRC("vv", VertexHandle, nv, m.is_deleted(h), vv_iter, vertex_vertices);
        CIRC("ve", VertexHandle, nv, m.is_deleted(h), ve_iter, vertex_edges);
        CIRC("vhf", VertexHandle, nv, m.is_deleted(h), vhf_iter, vertex_halffaces);
        CIRC("vf", VertexHandle, nv, m.is_deleted(h), vf_iter, vertex_faces);
        CIRC("vc", VertexHandle, nv, m.is_deleted(h), vc_iter, vertex_cells);
        CIRC("hehf", HalfEdgeHandle, 2 * ne, m.is_deleted(h), hehf_iter, halfedge_halffaces);
        CIRC("hef", HalfEdgeHandle, 2 * ne, m.is_deleted(h), hef_iter, halfedge_faces);
        CIRC("hec", HalfEdgeHandle, 2 * ne, m.is_deleted(h), hec_iter, halfedge_cells);
        CIRC("ehf", EdgeHandle, ne, m.is_deleted(h), ehf_iter, edge_halffaces);
        CIRC("ef", EdgeHandle, ne, m.is_deleted(h), ef_iter, edge_faces);
        CIRC("ec", EdgeHandle, ne, m.is_deleted(h), ec_iter, edge_cells);
        CIRC("cc", CellHandle, nc, m.is_deleted(h), cc_iter, cell_cells);
    }
    if (level & 1) {
        // valences and boundary predicates, only inside their documented preconditions
        j.key("valv"); j.begin_arr(); for (int i = 0; i < nv; ++i) j.val((long long)((vbu && !m.is_deleted(VertexHandle(i))) ? (long long)m.valence(VertexHandle(i)) : -1)); j.end_arr();
        j.key("vale"); j.begin_arr(); for (int i = 0; i < ne; ++i) j.val((long long)((ebu && !m.is_deleted(EdgeHandle(i))) ? (long long)m.valence(EdgeHandle(i)) : -1)); j.end_arr();
        auto tri = [&](bool can, bool del, auto f) { return (long long)((can && !del) ? (f() ? 1 : 0) : -1); };
        j.key("bndhf"); j.begin_arr(); for (int i = 0; i < 2 * nf; ++i) { HalfFaceHandle h(i); j.val(tri(fbu, m.is_deleted(h), [&] { return m.is_boundary(h); })); } j.end_arr();
        j.key("bndf"); j.begin_arr(); for (int i = 0; i < nf; ++i) { FaceHandle h(i); j.val(tri(fbu, m.is_deleted(h), [&] { return m.is_boundary(h); })); } j.end_arr();
        j.key("bndhe"); j.begin_arr(); for (int i = 0; i < 2 * ne; ++i) { HalfEdgeHandle h(i); j.val(tri(fbu && ebu, m.is_deleted(h), [&] { return m.is_boundary(h); })); } j.end_arr();
        j.key("bnde"); j.begin_arr(); for (int i = 0; i < ne; ++i) { EdgeHandle h(i); j.val(tri(fbu && ebu, m.is_deleted(h), [&] { return m.is_boundary(h); })); } j.end_arr();
        j.key("bndv"); j.begin_arr(); for (int i = 0; i < nv; ++i) { VertexHandle h(i); j.val(tri(fbu && ebu && vbu, m.is_deleted(h), [&] { return m.is_boundary(h); })); } j.end_arr();
        j.key("bndc"); j.begin_arr(); for (int i = 0; i < nc; ++i) { CellHandle h(i); j.val(tri(fbu, m.is_deleted(h), [&] { return m.is_boundary(h); })); } j.end_arr();
        j.key("bv"); bnd_walk(j, m.bv_iter());
        j.key("bhe"); bnd_walk(j, m.bhe_iter());
        j.key("be"); bnd_walk(j, m.be_iter());
        j.key("bhf"); bnd_walk(j, m.bhf_iter());
        j.key("bf"); bnd_walk(j, m.bf_iter());
        j.key("bc"); bnd_walk(j, m.bc_iter());
        j.key("fcells"); j.begin_arr(); for (int i = 0; i < nf; ++i) { FaceHandle h(i); j.begin_arr(); if (fbu && !m.is_deleted(h)) { auto fc = m.face_cells(h); j.val(fc[0].idx()); j.val(fc[1].idx()); } j.end_arr(); } j.end_arr();
        j.key("incq"); j.begin_arr(); for (int i = 0; i < 2 * nf; ++i) { HalfFaceHandle h(i); j.val((long long)((fbu && !m.is_deleted(h)) ? m.incident_cell(h).idx() : -9)); } j.end_arr();
    }
    if (level & 2) {
        // downward circulators and entity iterators
        CIRC("hfhe", HalfFaceHandle, 2 * nf, m.is_deleted(h), hfhe_iter, halfface_halfedges);
        CIRC("hfe", HalfFaceHandle, 2 * nf, m.is_deleted(h), hfe_iter, halfface_edges);
        CIRC("hfv", HalfFaceHandle, 2 * nf, m.is_deleted(h), hfv_iter, halfface_vertices);
        CIRC("fv", FaceHandle, nf, m.is_deleted(h), fv_iter, face_vertices);
        CIRC("fhe", FaceHandle, nf, m.is_deleted(h), fhe_iter, face_halfedges);
        CIRC("fe", FaceHandle, nf, m.is_deleted(h), fe_iter, face_edges);
        CIRC("cv", CellHandle, nc, m.is_deleted(h), cv_iter, cell_vertices);
        CIRC("che", CellHandle, nc, m.is_deleted(h), che_iter, cell_halfedges);
        CIRC("ce", CellHandle, nc, m.is_deleted(h), ce_iter, cell_edges);
        CIRC("chf", CellHandle, nc, m.is_deleted(h), chf_iter, cell_halffaces);
        CIRC("cf", CellHandle, nc, m.is_deleted(h), cf_iter, cell_faces);
        CIRC("bhfhf", HalfFaceHandle, 2 * nf, (m.is_deleted(h) || !fbu || !m.is_boundary(h)), bhfhf_iter, boundary_halfface_halffaces);
        j.key("itv"); entity_proto(j, m.vertices(), m.v_iter());
        j.key("ite"); entity_proto(j, m.edges(), m.e_iter());
        j.key("ithe"); entity_proto(j, m.halfedges(), m.he_iter());
        j.key("itf"); entity_proto(j, m.faces(), m.f_iter());
        j.key("ithf"); entity_proto(j, m.halffaces(), m.hf_iter());
        j.key("itc"); entity_proto(j, m.cells(), m.c_iter());
    }
    if (level & 4) {
        // orientation algebra as the API reports it
        j.key("hev"); j.begin_arr();
        for (int i = 0; i < 2 * ne; ++i) { HalfEdgeHandle h(i); auto e = m.halfedge(h); j.begin_arr(); j.val(e.from_vertex().idx()); j.val(e.to_vertex().idx());
            j.val(m.from_vertex_handle(h).idx()); j.val(m.to_vertex_handle(h).idx()); j.val(m.opposite_halfedge_handle(h).idx());
            auto o = m.opposite_halfedge(h); j.val(o.from_vertex().idx()); j.val(o.to_vertex().idx()); j.end_arr(); }
        j.end_arr();
        j.key("conv"); j.begin_arr();   // convenience accessors: halfedge_vertices, edge_vertices, edge_halfedges
        for (int i = 0; i < ne; ++i) { EdgeHandle e(i); auto ev = m.edge_vertices(e); auto eh = m.edge_halfedges(e);
            auto h0 = m.halfedge_vertices(HalfEdgeHandle(2 * i)); auto h1 = m.halfedge_vertices(HalfEdgeHandle(2 * i + 1));
            j.begin_arr(); j.val(ev[0].idx()); j.val(ev[1].idx()); j.val(eh[0].idx()); j.val(eh[1].idx());
            j.val(h0[0].idx()); j.val(h0[1].idx()); j.val(h1[0].idx()); j.val(h1[1].idx()); j.end_arr(); }
        j.end_arr();
        j.key("fhfs"); j.begin_arr(); for (int i = 0; i < nf; ++i) { auto x = m.face_halffaces(FaceHandle(i)); j.begin_arr(); j.val(x[0].idx()); j.val(x[1].idx()); j.end_arr(); } j.end_arr();
        j.key("hfhes"); j.begin_arr();
        for (int i = 0; i < 2 * nf; ++i) { HalfFaceHandle h(i); j.begin_arr(); for (auto x : m.halfface(h).halfedges()) j.val(x.idx()); j.end_arr(); }
        j.end_arr();
        j.key("hfopp"); j.begin_arr();
        for (int i = 0; i < 2 * nf; ++i) { HalfFaceHandle h(i); j.begin_arr(); for (auto x : m.opposite_halfface(h).halfedges()) j.val(x.idx()); j.end_arr(); }
        j.end_arr();
        // next / prev inside a halfface, for every halfedge of the mesh
        j.key("nxt"); j.begin_arr();
        for (int i = 0; i < 2 * nf; ++i) { HalfFaceHandle hf(i); if (m.is_deleted(hf)) continue;
            for (int k = 0; k < 2 * ne; ++k) { HalfEdgeHandle he(k); if (m.is_deleted(he)) continue;
                j.begin_arr(); j.val(i); j.val(k); j.val(m.next_halfedge_in_halfface(he, hf).idx()); j.val(m.prev_halfedge_in_halfface(he, hf).idx()); j.end_arr(); } }
        j.end_arr();
        if (!(level & 2)) {
            CIRC("hfhe", HalfFaceHandle, 2 * nf, m.is_deleted(h), hfhe_iter, halfface_halfedges);
            CIRC("hfe", HalfFaceHandle, 2 * nf, m.is_deleted(h), hfe_iter, halfface_edges);
            CIRC("hfv", HalfFaceHandle, 2 * nf, m.is_deleted(h), hfv_iter, halfface_vertices);
        }
    }
    if ((level & 8) && fbu) {
        // adjacent_halfface_in_cell for every (halfface with a cell, live halfedge)
        j.key("adj"); j.begin_arr();
        for (int i = 0; i < 2 * nf; ++i) { HalfFaceHandle hf(i); if (m.is_deleted(hf)) continue;
            if (!m.incident_cell(hf).is_valid()) continue;
            for (int k = 0; k < 2 * ne; ++k) { HalfEdgeHandle he(k); if (m.is_deleted(he)) continue;
                j.begin_arr(); j.val(i); j.val(k); j.val(m.adjacent_halfface_in_cell(hf, he).idx()); j.end_arr(); } }
        j.end_arr();
    }
    if (level & 16) {
        // lookups over every argument tuple; the incidence-based ones only with their kinds enabled
        std::vector<int> lv; for (int i = 0; i < nv; ++i) if (!m.is_deleted(VertexHandle(i))) lv.push_back(i);
        std::vector<int> lhe; for (int i = 0; i < 2 * ne; ++i) if (!m.is_deleted(HalfEdgeHandle(i))) lhe.push_back(i);
        if (vbu) {
            j.key("fndhe"); j.begin_arr();
            for (int a : lv) for (int b : lv) { j.begin_arr(); j.val(a); j.val(b); j.val(m.find_halfedge(VertexHandle(a), VertexHandle(b)).idx()); j.end_arr(); }
            j.end_arr();
        }
        if (vbu && ebu) {
            j.key("fhf3"); j.begin_arr();   // find_halfface(vertices) and find_halfface_extensive on triples
            for (int a : lv) for (int b : lv) for (int c : lv) {
                std::vector<VertexHandle> vs{VertexHandle(a), VertexHandle(b), VertexHandle(c)};
                j.begin_arr(); j.val(a); j.val(b); j.val(c); j.val(m.find_halfface(vs).idx()); j.val(m.find_halfface_extensive(vs).idx()); j.end_arr(); }
            j.end_arr();
            if (lv.size() <= 6) {
                j.key("fhf4"); j.begin_arr();
                for (int a : lv) for (int b : lv) for (int c : lv) for (int d : lv) {
                    std::vector<VertexHandle> vs{VertexHandle(a), VertexHandle(b), VertexHandle(c), VertexHandle(d)};
                    j.begin_arr(); j.val(a); j.val(b); j.val(c); j.val(d); j.val(m.find_halfface(vs).idx()); j.val(m.find_halfface_extensive(vs).idx()); j.end_arr(); }
                j.end_arr();
            }
        }
        if (ebu) {
            j.key("fhfhe"); j.begin_arr();
            for (int a : lhe) for (int b : lhe) { std::vector<HalfEdgeHandle> hs{HalfEdgeHandle(a), HalfEdgeHandle(b)};
                j.begin_arr(); j.val(a); j.val(b); j.val(m.find_halfface(hs).idx()); j.end_arr(); }
            j.end_arr();
        }
        j.key("fhec"); j.begin_arr();   // find_halfedge_in_cell
        for (int c = 0; c < nc; ++c) { if (m.is_deleted(CellHandle(c))) continue;
            for (int a : lv) for (int b : lv) { j.begin_arr(); j.val(c); j.val(a); j.val(b); j.val(m.find_halfedge_in_cell(VertexHandle(a), VertexHandle(b), CellHandle(c)).idx()); j.end_arr(); } }
        j.end_arr();
        if (fbu) {
            j.key("fhfc"); j.begin_arr();   // find_halfface_in_cell on triples
            for (int c = 0; c < nc; ++c) { if (m.is_deleted(CellHandle(c))) continue;
                for (int a : lv) for (int b : lv) for (int d : lv) { std::vector<VertexHandle> vs{VertexHandle(a), VertexHandle(b), VertexHandle(d)};
                    j.begin_arr(); j.val(c); j.val(a); j.val(b); j.val(d); j.val(m.find_halfface_in_cell(vs, CellHandle(c)).idx()); j.end_arr(); } }
            j.end_arr();
        }
        j.key("ghfv"); j.begin_arr();   // get_halfface_vertices, three forms
        for (int i = 0; i < 2 * nf; ++i) { HalfFaceHandle hf(i); if (m.is_deleted(hf)) continue;
            j.begin_arr(); j.val(i);
            { j.begin_arr(); for (auto v : m.get_halfface_vertices(hf)) j.val(v.idx()); j.end_arr(); }
            j.begin_arr();
            for (auto v : m.halfface(hf).halfedges()) { (void)v; }
            { std::set<int> seen; for (auto he : m.halfface(hf).halfedges()) { int v = m.from_vertex_handle(he).idx(); if (!seen.insert(v).second) continue;
                j.begin_arr(); j.val(v); for (auto x : m.get_halfface_vertices(hf, VertexHandle(v))) j.val(x.idx()); j.end_arr(); } }
            j.end_arr();
            j.begin_arr();
            for (auto he : m.halfface(hf).halfedges()) { j.begin_arr(); j.val(he.idx()); for (auto x : m.get_halfface_vertices(hf, he)) j.val(x.idx()); j.end_arr(); }
            j.end_arr();
            j.end_arr(); }
        j.end_arr();
        j.key("isinc"); j.begin_arr();
        for (int f = 0; f < nf; ++f) { if (m.is_deleted(FaceHandle(f))) continue;
            for (int e = 0; e < ne; ++e) { if (m.is_deleted(EdgeHandle(e))) continue;
                j.begin_arr(); j.val(f); j.val(e); j.val(m.is_incident(FaceHandle(f), EdgeHandle(e))); j.end_arr(); } }
        j.end_arr();
        j.key("nvc"); j.begin_arr(); for (int c = 0; c < nc; ++c) j.val((long long)(m.is_deleted(CellHandle(c)) ? -1 : (long long)m.n_vertices_in_cell(CellHandle(c)))); j.end_arr();
    }
    j.end_obj();
}

} // namespace vq
