#include "queries.hh"
namespace vq {
void dump_queries(vx::Json &j, const OpenVolumeMesh::TopologyKernel &m, int level) {
    (void)m; (void)level;
    j.begin_obj(); j.end_obj();
}
}
