// tethex_exec: executor for the tetrahedral / hexahedral kernels (C15, C16).
// Performs call scripts (format: exec_common.hh) on GeometricTetrahedralMeshV3d
// / GeometricHexahedralMeshV3d and records, after every call, the full
// projected state (ovm_state.hh) and -- on request (R option q=<level>) -- the
// RAW answers of the specialised queries for every argument.
// No expected values, no oracle logic: every verdict is taken by TLC from
// spec/OVMTet.tla, spec/OVMHex.tla via spec/OVMTetHexTrace.tla.
#include "ovm_state.hh"
#include <OpenVolumeMesh/Unstable/Topology/TetTopology.hh>
#include <OpenVolumeMesh/Unstable/Topology/TriangleTopology.hh>
#include <csignal>
#include <algorithm>
#include <set>
#include <sys/wait.h>
#if defined(__has_feature)
#  if __has_feature(address_sanitizer)
#    define VX_ASAN 1
#  endif
#endif
#if defined(__SANITIZE_ADDRESS__)
#  define VX_ASAN 1
#endif
#ifdef VX_ASAN
extern "C" void __sanitizer_set_death_callback(void (*)(void));
#endif

typedef TetrahedralMeshTopologyKernel TetK;
typedef HexahedralMeshTopologyKernel HexK;
typedef TetTopology TT;

// ------------------------------------------------------------- specialised calls
struct TetAcc : TetK {
    using TetK::split_edge;
    using TetK::split_face;
};

static long long do_tet_call(TetK &t, const CallRec &c, bool *known) {
    *known = true;
    const std::string &op = c.op;
    auto V = [&](size_t i) { return VertexHandle(c.l.at(i)); };
    if (op == "tet_add_cell_4") return t.add_cell(V(0), V(1), V(2), V(3), c.f).idx();
    if (op == "tet_add_cell_v") return t.add_cell(vs_of(c.l), c.f).idx();
    if (op == "add_halfedge") return t.add_halfedge(VertexHandle((int)c.a), VertexHandle((int)c.b)).idx();
    if (op == "add_halfface") return t.add_halfface(hes_of(c.l), c.f).idx();
    if (op == "add_halfface_v") return t.add_halfface(V(0), V(1), V(2), c.f).idx();
    if (op == "collapse_edge") return t.collapse_edge(HalfEdgeHandle((int)c.a)).idx();
    if (op == "split_edge") { (t.*(&TetAcc::split_edge))(HalfEdgeHandle((int)c.a), VertexHandle((int)c.b)); return VOID; }
    if (op == "split_face") { (t.*(&TetAcc::split_face))(FaceHandle((int)c.a), VertexHandle((int)c.b)); return VOID; }
    *known = false;
    return VOID;
}

static long long do_hex_call(HexK &h, const CallRec &c, bool *known) {
    *known = true;
    if (c.op == "hex_add_cell_v") return h.add_cell(vs_of(c.l), c.f).idx();
    *known = false;
    return VOID;
}

// ------------------------------------------------------------- tet queries
template <class V> static void put_handles(Json &j, const V &v) { j.begin_arr(); for (auto const &h : v) j.val((long long)h.idx()); j.end_arr(); }

#define VX_VL(X) X(A) X(B) X(C) X(D)
#define VX_HEL(X) X(AB) X(BC) X(CA) X(CD) X(AD) X(BD) X(BA) X(CB) X(AC) X(DC) X(DA) X(DB)
#define VX_HFL_START(X) \
    X(BDC) X(CBD) X(DCB) X(ACD) X(CDA) X(DAC) X(ADB) X(BAD) X(DBA) X(ABC) X(BCA) X(CAB) \
    X(BCD) X(CDB) X(DBC) X(ADC) X(CAD) X(DCA) X(ABD) X(BDA) X(DAB) X(ACB) X(BAC) X(CBA)
#define VX_HFL_OPP(X) X(OppA) X(OppB) X(OppC) X(OppD) X(OuterOppA) X(OuterOppB) X(OuterOppC) X(OuterOppD)

static const char *vl_name(TT::VertexLabel l) {
    switch (l) {
#define X(n) case TT::n: return #n;
        VX_VL(X)
#undef X
    }
    return "?";
}
static const char *hel_name(TT::HalfEdgeLabel l) {
    switch (l) {
#define X(n) case TT::n: return #n;
        VX_HEL(X)
#undef X
    }
    return "?";
}
static const char *hfl_name(TT::HalfFaceLabel l) {
    switch (l) {
#define X(n) case TT::n: return #n;
        VX_HFL_START(X) VX_HFL_OPP(X)
#undef X
    }
    return "?";
}

static void put_tri(Json &j, const TriangleTopology &t) {
    j.begin_obj();
    j.key("v"); j.begin_arr(); j.val(t.a().idx()); j.val(t.b().idx()); j.val(t.c().idx()); j.end_arr();
    j.key("h"); j.begin_arr(); j.val(t.ab().idx()); j.val(t.bc().idx()); j.val(t.ca().idx()); j.end_arr();
    j.end_obj();
}

static void dump_topo(Json &j, const TetK &m, const TT &t, CellHandle c, const char *form, int hf, int a, bool deep) {
    j.begin_obj();
    j.kv("c", c.idx()); j.kv("form", form); j.kv("hf", hf); j.kv("a", a); j.kv("deep", deep);
    j.key("vh"); j.begin_obj();
#define X(n) j.kv(#n, t.vh<TT::n>().idx());
    VX_VL(X)
#undef X
    j.end_obj();
    j.key("heh"); j.begin_obj();
#define X(n) j.kv(#n, t.heh<TT::n>().idx());
    VX_HEL(X)
#undef X
    j.end_obj();
    j.key("hfh"); j.begin_obj();
#define X(n) j.kv(#n, t.hfh<TT::n>().idx());
    VX_HFL_START(X) VX_HFL_OPP(X)
#undef X
    j.end_obj();
    j.key("inner"); j.begin_obj();
#define X(n) j.kv(#n, (bool)TT::is_inner(TT::n));
    VX_HFL_START(X) VX_HFL_OPP(X)
#undef X
    j.end_obj();
    if (deep) {
        j.key("tri"); j.begin_obj();
#define X(n) j.key(#n); put_tri(j, t.triangle_topology<TT::n>());
        VX_HFL_START(X)
#undef X
        j.end_obj();
        j.key("trid"); j.begin_obj();
#define X(n) j.key(#n); put_tri(j, t.triangle_topology(TT::n));
        VX_HFL_START(X)
#undef X
        j.end_obj();
        // get_label for every live vertex / halfedge / halfface of the mesh
        j.key("glv"); j.begin_arr();
        for (auto v : m.vertices()) { auto l = t.get_label(v); j.begin_arr(); j.val(v.idx()); j.val(l ? vl_name(*l) : ""); j.end_arr(); }
        j.end_arr();
        j.key("glhe"); j.begin_arr();
        for (auto h : m.halfedges()) { auto l = t.get_label(h); j.begin_arr(); j.val(h.idx()); j.val(l ? hel_name(*l) : ""); j.end_arr(); }
        j.end_arr();
        j.key("glhf"); j.begin_arr();
        for (auto h : m.halffaces()) { auto l = t.get_label(h); j.begin_arr(); j.val(h.idx()); j.val(l ? hfl_name(*l) : ""); j.end_arr(); }
        j.end_arr();
        // get_label(halfface, first vertex): the cell's halffaces and their opposites x the cell's vertices
        j.key("glhfv"); j.begin_arr();
        std::set<VertexHandle> cvs;
        for (auto hfh : m.cell(c).halffaces()) for (auto v : m.get_halfface_vertices(hfh)) cvs.insert(v);
        for (auto hfh : m.cell(c).halffaces())
            for (int side = 0; side < 2; ++side) {
                HalfFaceHandle g = side ? hfh.opposite_handle() : hfh;
                for (auto v : cvs) {
                    auto l = t.get_label(g, v);
                    j.begin_arr(); j.val(g.idx()); j.val(v.idx()); j.val(l ? hfl_name(*l) : ""); j.end_arr();
                }
            }
        j.end_arr();
    }
    j.end_obj();
}

static void dump_tet_queries(Json &j, const TetK &m, int level) {
    j.begin_obj();
    j.key("cells"); j.begin_arr();
    for (auto c : m.cells()) {
        auto const &hfs = m.cell(c).halffaces();
        bool shaped = hfs.size() == 4;
        for (auto hfh : hfs) if (m.valence(hfh.face_handle()) != 3) shaped = false;
        if (!shaped) continue;
        std::set<VertexHandle> cvs;
        for (auto hfh : hfs) for (auto v : m.get_halfface_vertices(hfh)) cvs.insert(v);
        j.begin_obj();
        j.kv("c", c.idx());
        auto g0 = m.get_cell_vertices(c);
        j.key("gcv"); put_handles(j, g0);
        if (g0.size() == 4) {
            j.key("gcv_v"); j.begin_arr();
            for (auto v : cvs) { j.begin_arr(); j.val(v.idx()); put_handles(j, m.get_cell_vertices(c, v)); j.end_arr(); }
            j.end_arr();
        }
        j.key("gcv_hf"); j.begin_arr();
        for (auto hfh : hfs) { j.begin_arr(); j.val(hfh.idx()); put_handles(j, m.get_cell_vertices(hfh)); j.end_arr(); }
        j.end_arr();
        j.key("gcv_hfhe"); j.begin_arr();
        for (auto hfh : hfs) {
            if (m.get_cell_vertices(hfh).size() != 4) continue;
            for (auto heh : m.halfface(hfh).halfedges()) {
                j.begin_arr(); j.val(hfh.idx()); j.val(heh.idx()); put_handles(j, m.get_cell_vertices(hfh, heh)); j.end_arr();
            }
        }
        j.end_arr();
        j.key("voh"); j.begin_arr();
        for (auto v : cvs) { j.begin_arr(); j.val(v.idx()); j.val(m.vertex_opposite_halfface(c, v).idx()); j.end_arr(); }
        j.end_arr();
        if (g0.size() == 4) {
            j.key("tv"); j.begin_arr();
            for (auto it = m.tv_iter(c); it.valid(); ++it) j.val((*it).idx());
            j.end_arr();
            j.key("tv2"); j.begin_arr();
            for (auto it = m.tv_iter(c, 2); it.valid(); ++it) j.val((*it).idx());
            j.end_arr();
            j.key("tvr"); j.begin_arr();
            { auto pr = m.tet_vertices(c); for (auto it = pr.first; it != pr.second; ++it) j.val((*it).idx()); }
            j.end_arr();
        }
        j.end_obj();
    }
    j.end_arr();
    j.key("hov"); j.begin_arr();
    if (m.has_face_bottom_up_incidences())
        for (auto hfh : m.halffaces()) {
            if (m.valence(hfh.face_handle()) != 3) continue;
            // halfface_opposite_vertex indexes get_cell_vertices(hfh)[3]: only for halffaces of a cell with a fourth vertex
            if (!m.is_boundary(hfh) && m.get_cell_vertices(hfh).size() != 4) continue;
            j.begin_arr(); j.val(hfh.idx()); j.val(m.halfface_opposite_vertex(hfh).idx()); j.end_arr();
        }
    j.end_arr();
    if (level >= 2) {
        j.key("topo"); j.begin_arr();
        for (auto c : m.cells()) {
            if (m.get_cell_vertices(c).size() != 4) continue;
            auto const &hfs = m.cell(c).halffaces();
            std::set<VertexHandle> cvs;
            for (auto hfh : hfs) for (auto v : m.get_halfface_vertices(hfh)) cvs.insert(v);
            bool deep = level >= 3;
            dump_topo(j, m, TT(m, c), c, "c", -1, -1, deep);
            for (auto v : cvs) dump_topo(j, m, TT(m, c, v), c, "ca", -1, v.idx(), false);
            for (auto hfh : hfs) {
                dump_topo(j, m, TT(m, hfh), c, "h", hfh.idx(), -1, false);
                dump_topo(j, m, TT(m, c, hfh), c, "ch", hfh.idx(), -1, false);
                for (auto v : m.get_halfface_vertices(hfh)) {
                    dump_topo(j, m, TT(m, hfh, v), c, "ha", hfh.idx(), v.idx(), deep);
                    dump_topo(j, m, TT(m, c, hfh, v), c, "cha", hfh.idx(), v.idx(), false);
                }
            }
        }
        j.end_arr();
        j.key("tris"); j.begin_arr();
        for (auto hfh : m.halffaces()) {
            if (m.valence(hfh.face_handle()) != 3) continue;
            j.begin_obj(); j.kv("hf", hfh.idx()); j.kv("a", -1); j.key("t"); put_tri(j, TriangleTopology(m, hfh)); j.end_obj();
            for (auto v : m.get_halfface_vertices(hfh)) {
                j.begin_obj(); j.kv("hf", hfh.idx()); j.kv("a", v.idx()); j.key("t"); put_tri(j, TriangleTopology(m, hfh, v)); j.end_obj();
            }
        }
        j.end_arr();
    }
    j.end_obj();
}

// ------------------------------------------------------------- hex queries
static void dump_hex_queries(Json &j, const HexK &m, int level) {
    j.begin_obj();
    j.key("cells"); j.begin_arr();
    for (auto c : m.cells()) {
        auto const &hfs = m.cell(c).halffaces();
        bool shaped = hfs.size() == 6;
        for (auto hfh : hfs) if (m.valence(hfh.face_handle()) != 4) shaped = false;
        if (!shaped) continue;
        j.begin_obj();
        j.kv("c", c.idx());
        std::vector<HalfFaceHandle> args(hfs.begin(), hfs.end());
        for (auto hfh : hfs) args.push_back(hfh.opposite_handle());
        j.key("ori"); j.begin_arr();
        for (auto g : args) { j.begin_arr(); j.val(g.idx()); j.val((int)m.orientation(g, c)); j.end_arr(); }
        j.end_arr();
        j.key("opp"); j.begin_arr();
        for (auto g : args) { j.begin_arr(); j.val(g.idx()); j.val(m.opposite_halfface_handle_in_cell(g, c).idx()); j.end_arr(); }
        j.end_arr();
        j.kv("xf", m.xfront_halfface(c).idx()); j.kv("xb", m.xback_halfface(c).idx());
        j.kv("yf", m.yfront_halfface(c).idx()); j.kv("yb", m.yback_halfface(c).idx());
        j.kv("zf", m.zfront_halfface(c).idx()); j.kv("zb", m.zback_halfface(c).idx());
        j.key("goh"); j.begin_arr();
        for (unsigned char o = 0; o < 6; ++o) j.val(m.get_oriented_halfface(o, c).idx());
        j.end_arr();
        j.key("hv"); j.begin_arr();
        for (auto it = m.hv_iter(c); it.valid(); ++it) j.val((*it).idx());
        j.end_arr();
        j.key("hvr"); j.begin_arr();
        { auto pr = m.hex_vertices(c); for (auto it = pr.first; it != pr.second; ++it) j.val((*it).idx()); }
        j.end_arr();
        j.key("csc"); j.begin_arr();
        for (unsigned char d = 0; d < 6; ++d) {
            j.begin_arr();
            for (auto it = m.csc_iter(c, d); it.valid(); ++it) j.val((*it).idx());
            j.end_arr();
        }
        j.end_arr();
        j.end_obj();
    }
    j.end_arr();
    j.key("hfshf"); j.begin_arr();
    for (auto hfh : m.halffaces()) {
        j.begin_arr(); j.val(hfh.idx());
        j.begin_arr();
        for (auto it = m.hfshf_iter(hfh); it.valid(); ++it) j.val((*it).idx());
        j.end_arr();
        j.end_arr();
    }
    j.end_arr();
    j.key("orth"); j.begin_arr();
    for (unsigned char a = 0; a < 6; ++a) {
        j.begin_arr();
        for (unsigned char b = 0; b < 6; ++b) j.val((int)HexK::orthogonal_orientation(a, b));
        j.end_arr();
    }
    j.end_arr();
    j.key("oppo"); j.begin_arr();
    for (unsigned char a = 0; a < 6; ++a) j.val((int)HexK::opposite_orientation(a));
    j.end_arr();
    if (level >= 2) {
        j.key("adj"); j.begin_arr();
        for (auto hfh : m.halffaces())
            for (auto heh : m.halfface(hfh).halfedges()) {
                j.begin_arr(); j.val(hfh.idx()); j.val(heh.idx());
                j.val(m.adjacent_halfface_on_sheet(hfh, heh).idx());
                j.val(m.adjacent_halfface_on_surface(hfh, heh).idx());
                j.val(m.neighboring_outside_halfface(hfh, heh).idx());
                j.end_arr();
            }
        j.end_arr();
    }
    j.end_obj();
}

// ------------------------------------------------------------- circulator protocol (C05)
// Same record as harness/queries.cc (proto): for one (begin, end) pair and max_laps
//   v0  begin.valid()          w   forward walk while valid()
//   rf  the same through begin != end
//   eq  begin advanced |w| times == end
//   bk  k steps forward then k steps backward: handle, lap, valid after every step
static const size_t PCAP = 120;
template <class Pair> static void proto(Json &j, Pair pr, int laps) {
    auto b = pr.first; auto e = pr.second;
    j.begin_obj();
    j.kv("laps", laps);
    j.kv("v0", (bool)b.valid());
    j.key("w"); { j.begin_arr(); size_t n = 0; for (auto it = b; it.valid() && n < PCAP; ++it, ++n) j.val((*it).idx()); if (n >= PCAP) j.val(-99); j.end_arr(); }
    j.key("rf"); { j.begin_arr(); size_t n = 0; for (auto it = b; it != e && n < PCAP; ++it, ++n) j.val((*it).idx()); if (n >= PCAP) j.val(-99); j.end_arr(); }
    size_t len = 0; { auto it = b; while (it.valid() && len < PCAP) { ++it; ++len; } }
    if (b.valid() && len < PCAP) {
        { auto it = b; for (size_t i = 0; i < len; ++i) ++it; j.kv("eq", (bool)(it == e)); }
        size_t n1 = len / (size_t)laps;
        size_t k = std::min(len - 1, n1 + 1);
        j.key("bk"); j.begin_arr();
        auto it = b;
        j.begin_arr(); j.val((*it).idx()); j.val(it.lap()); j.val((bool)it.valid()); j.end_arr();
        for (size_t i = 0; i < k; ++i) { ++it; j.begin_arr(); j.val((*it).idx()); j.val(it.lap()); j.val((bool)it.valid()); j.end_arr(); }
        for (size_t i = 0; i < k; ++i) { --it; j.begin_arr(); j.val((*it).idx()); j.val(it.lap()); j.val((bool)it.valid()); j.end_arr(); }
        j.end_arr();
    }
    j.end_obj();
}
#define VX_PROTO3(RANGE_EXPR) do { j.begin_arr(); for (int laps = 1; laps <= 3; ++laps) proto(j, RANGE_EXPR, laps); j.end_arr(); } while (0)

// every specialised circulator of Mesh/TetrahedralMeshIterators.hh (TetVertexIter) for every live cell
static void dump_tet_proto(Json &j, const TetK &m) {
    j.begin_obj();
    j.key("tv"); j.begin_arr();
    for (auto c : m.cells()) {
        if (m.cell(c).halffaces().size() != 4 || m.get_cell_vertices(c).size() != 4) continue;
        j.begin_arr(); j.val(c.idx()); VX_PROTO3(m.tet_vertices(c, laps)); j.end_arr();
    }
    j.end_arr();
    j.end_obj();
}
// ... and of Mesh/HexahedralMeshIterators.hh (HexVertexIter, CellSheetCellIter for the six
// directions, HalfFaceSheetHalfFaceIter for every live halfface incl. boundary ones)
static void dump_hex_proto(Json &j, const HexK &m) {
    j.begin_obj();
    j.key("hv"); j.begin_arr();
    for (auto c : m.cells()) {
        auto const &hfs = m.cell(c).halffaces();
        bool shaped = hfs.size() == 6;
        for (auto hfh : hfs) if (m.valence(hfh.face_handle()) != 4) shaped = false;
        if (!shaped) continue;
        j.begin_arr(); j.val(c.idx()); VX_PROTO3(m.hex_vertices(c, laps)); j.end_arr();
    }
    j.end_arr();
    j.key("csc"); j.begin_arr();
    for (auto c : m.cells()) {
        if (m.cell(c).halffaces().size() != 6) continue;
        for (unsigned char d = 0; d < 6; ++d) {
            j.begin_arr(); j.val(c.idx()); j.val((int)d); VX_PROTO3(m.cell_sheet_cells(c, d, laps)); j.end_arr();
        }
    }
    j.end_arr();
    j.key("hfshf"); j.begin_arr();
    for (auto hfh : m.halffaces()) {
        j.begin_arr(); j.val(hfh.idx()); VX_PROTO3(m.halfface_sheet_halffaces(hfh, laps)); j.end_arr();
    }
    j.end_arr();
    j.end_obj();
}

// ---------------------------------------------------------------- main loop
// (same protocol as ovm_exec.cc: tree scripts, one fork per branch, every
// logged line carries sid / psid; a crash inside a branch ends that branch only)
static long g_exec = -1, g_sid = -1, g_cur = -1;
static void crash_line(int sig) {
    char buf[200];
    int n = snprintf(buf, sizeof buf, "{\"e\":\"crash\",\"sig\":%d,\"x\":%ld,\"sid\":%ld,\"psid\":%ld}\n", sig, g_exec, g_sid, g_cur);
    if (n > 0) { ssize_t w = write(1, buf, (size_t)n); (void)w; }
}
static void on_fatal(int sig) { crash_line(sig); _exit(70); }
static void on_death() { crash_line(-2); }

struct Runner {
    std::vector<vx::ScriptItem> items;
    std::unique_ptr<MeshBox> box;
    TetK *tet = nullptr; HexK *hex = nullptr;
    int qlevel = 0; bool with_props = false; bool with_proto = false;
    long skip = 0;

    void reset(const vx::ScriptItem &it, long sid) {
        ++g_exec;
        box.reset(); tet = nullptr; hex = nullptr;
        if (g_exec < skip) return;
        box.reset(new MeshBox());
        box->type = it.meshtype; box->owner = make_mesh(it.meshtype); box->m = box->owner.get();
        tet = dynamic_cast<TetK *>(box->m);
        hex = dynamic_cast<HexK *>(box->m);
        int plevel = 0; qlevel = 0; with_proto = false;
        for (auto &kv : it.opts) {
            if (kv.first == "props") plevel = atoi(kv.second.c_str());
            if (kv.first == "q") qlevel = atoi(kv.second.c_str());
            if (kv.first == "proto") with_proto = atoi(kv.second.c_str()) != 0;
        }
        with_props = plevel > 0;
        box->setup_props(plevel);
        log_state("reset", sid, false);
        g_cur = sid;
    }
    void put_queries(Json &j) {
        if (qlevel > 0) {
            j.key("q");
            if (tet) dump_tet_queries(j, *tet, qlevel);
            else if (hex) dump_hex_queries(j, *hex, qlevel);
            else { j.begin_obj(); j.end_obj(); }
        }
        if (with_proto) {
            j.key("proto");
            if (tet) dump_tet_proto(j, *tet);
            else if (hex) dump_hex_proto(j, *hex);
            else { j.begin_obj(); j.end_obj(); }
        }
    }
    void log_state(const char *e, long sid, bool with_q) {
        g_sid = sid;
        Json j; j.begin_obj(); j.kv("e", e); j.kv("x", (long long)g_exec); j.kv("sid", (long long)sid);
        j.kv("mesh", box->type);
        j.key("post"); dump_state(j, *box, true, with_props);
        if (with_q && (qlevel > 0 || with_proto)) put_queries(j);
        j.end_obj(); vx::emit(j);
        g_sid = -1;
    }
    void call(const CallRec &c, long sid) {
        g_sid = sid;
        long long ret = VOID;
        bool known = true;
        if (c.op == "stamp") ret = (long long)box->stamp();
        else if (c.op == "more_props") box->add_more_props(std::to_string(++box->propcount));
        else {
            known = false;
            if (tet) ret = do_tet_call(*tet, c, &known);
            if (!known && hex) ret = do_hex_call(*hex, c, &known);
            if (!known) ret = do_kernel_call(*box->m, c, &known);
            if (!known) { fprintf(stderr, "unknown op %s\n", c.op.c_str()); exit(3); }
        }
        if (c.chk != 0) {
            Json j; j.begin_obj(); j.kv("e", "call"); j.kv("x", (long long)g_exec);
            j.kv("sid", (long long)sid); j.kv("psid", (long long)g_cur);
            j.kv("chk", c.chk == 1);
            j.kv("mesh", box->type);
            vx::write_call(j, c);
            j.kv("ret", ret);
            j.key("post"); dump_state(j, *box, true, with_props);
            if ((qlevel > 0 || with_proto) && c.chk == 1) put_queries(j);
            j.end_obj(); vx::emit(j);
            g_cur = sid;
        }
        g_sid = -1;
    }
    size_t match_end(size_t b) const {
        int depth = 0;
        for (size_t k = b; k < items.size(); ++k) {
            if (items[k].tag == 'B') ++depth;
            else if (items[k].tag == 'E') { if (--depth == 0) return k; }
            else if (items[k].tag == 'R' && k > b) break;
        }
        fprintf(stderr, "unbalanced B at script line %zu\n", b); exit(3);
    }
    void run(size_t lo, size_t hi) {
        for (size_t k = lo; k < hi; ++k) {
            const vx::ScriptItem &it = items[k];
            if (it.tag == 'R') { reset(it, (long)k); continue; }
            if (g_exec < skip || !box) continue;
            if (it.tag == 'P') {
                // the state line is written by this process; the queries on it run in a
                // child (a second 'pre' line), so that a crash inside a query is contained
                log_state("pre", (long)k, false); g_cur = (long)k;
                if (qlevel > 0 || with_proto) {
                    fflush(stdout);
                    pid_t pid = fork();
                    if (pid < 0) { perror("fork"); exit(3); }
                    if (pid == 0) { log_state("pre", (long)k, true); fflush(stdout); _exit(0); }
                    int st = 0; waitpid(pid, &st, 0);
                    if (!(WIFEXITED(st) && WEXITSTATUS(st) == 0)) {
                        Json j; j.begin_obj(); j.kv("e", "branch_died"); j.kv("x", (long long)g_exec);
                        j.kv("sid", (long long)k); j.kv("psid", (long long)g_cur);
                        j.kv("status", (long long)(WIFEXITED(st) ? WEXITSTATUS(st) : 1000 + WTERMSIG(st)));
                        j.end_obj(); vx::emit(j);
                    }
                }
                continue;
            }
            if (it.tag == 'C') { call(it.call, (long)k); continue; }
            if (it.tag == 'E') continue;
            if (it.tag == 'B') {
                size_t e = match_end(k);
                fflush(stdout);
                pid_t pid = fork();
                if (pid < 0) { perror("fork"); exit(3); }
                if (pid == 0) { run(k + 1, e); fflush(stdout); _exit(0); }
                int st = 0; waitpid(pid, &st, 0);
                bool clean = WIFEXITED(st) && WEXITSTATUS(st) == 0;
                if (!clean) {
                    Json j; j.begin_obj(); j.kv("e", "branch_died"); j.kv("x", (long long)g_exec);
                    j.kv("sid", (long long)k); j.kv("psid", (long long)g_cur);
                    j.kv("status", (long long)(WIFEXITED(st) ? WEXITSTATUS(st) : 1000 + WTERMSIG(st)));
                    j.end_obj(); vx::emit(j);
                }
                k = e;
            }
        }
    }
};

int main(int argc, char **argv) {
    const char *path = nullptr;
    Runner r;
    for (int i = 1; i < argc; ++i) {
        if (!strcmp(argv[i], "--skip") && i + 1 < argc) r.skip = atol(argv[++i]);
        else path = argv[i];
    }
    if (!path) { fprintf(stderr, "usage: tethex_exec [--skip N] script.txt\n"); return 2; }
    std::ifstream in(path);
    if (!in) { fprintf(stderr, "cannot open %s\n", path); return 2; }
    std::set_terminate([] { on_fatal(-1); });
    signal(SIGABRT, on_fatal); signal(SIGSEGV, on_fatal); signal(SIGFPE, on_fatal); signal(SIGBUS, on_fatal);
#ifdef VX_ASAN
    __sanitizer_set_death_callback(on_death);
#endif
    (void)on_death;
    vx::ScriptItem it;
    while (vx::read_item(in, it)) r.items.push_back(it);
    r.run(0, r.items.size());
    Json j; j.begin_obj(); j.kv("e", "end"); j.kv("x", (long long)g_exec); j.end_obj(); vx::emit(j);
    return 0;
}
