# executor of the file-format checks (C06 C07 C18), see bin/io_check.py
add_executable(io_exec ${CMAKE_CURRENT_SOURCE_DIR}/io_exec.cc)
target_link_libraries(io_exec OpenVolumeMesh::OpenVolumeMesh)
