// Tracer for trace source T: linked into the repository's own unit tests
// (target unittests_traced).  It installs the OVM_VERIF_TRACE callback and
// writes, for every outermost mutator call on a small mesh, the full projected
// state before and after the call as ndjson (same format as ovm_exec).  It
// contains no expected values: the lines are validated by OVMTrace.tla.
#include "ovm_state.hh"
#include <OpenVolumeMesh/Core/VerifTrace.hh>
#include <OpenVolumeMesh/Mesh/TetrahedralMeshTopologyKernel.hh>
#include <OpenVolumeMesh/Mesh/HexahedralMeshTopologyKernel.hh>

#ifdef OVM_VERIF_TRACE
namespace {
FILE *g_out = nullptr;
long long g_sid = 0;
bool g_logged_pre = false;
const size_t MAXN = 48;   // larger meshes (loaded test files) are not recorded

bool small(const TopologyKernel &m) {
    return m.n_vertices() <= MAXN && m.n_edges() <= MAXN && m.n_faces() <= MAXN && m.n_cells() <= MAXN;
}
const char *mesh_type(const TopologyKernel *m) {
    if (dynamic_cast<const TetrahedralMeshTopologyKernel *>(m)) return "tet";
    if (dynamic_cast<const HexahedralMeshTopologyKernel *>(m)) return "hex";
    return "poly";
}
void write_line(const Json &j) { fwrite(j.s.data(), 1, j.s.size(), g_out); fputc('\n', g_out); fflush(g_out); }

void on_call(int phase, const OpenVolumeMesh::verif::CallInfo &ci) {
    if (!g_out) return;
    MeshBox b; b.m = const_cast<TopologyKernel *>(ci.mesh);
    if (phase == 0) {
        g_logged_pre = small(*ci.mesh);
        if (!g_logged_pre) return;
        Json j; j.begin_obj(); j.kv("e", "pre"); j.kv("x", 0); j.kv("sid", ++g_sid); j.kv("mesh", mesh_type(ci.mesh));
        j.key("post"); dump_state(j, b, true, false); j.end_obj(); write_line(j);
    } else {
        if (!g_logged_pre) return;
        g_logged_pre = false;
        long long pre = g_sid;
        CallRec c; c.op = ci.op; c.a = ci.a; c.b = ci.b; c.f = ci.f; c.l = ci.l;
        Json j; j.begin_obj(); j.kv("e", "call"); j.kv("x", 0); j.kv("sid", ++g_sid); j.kv("psid", pre);
        j.kv("chk", small(*ci.mesh)); j.kv("mesh", mesh_type(ci.mesh));
        vx::write_call(j, c); j.kv("ret", VOID);
        j.key("post"); dump_state(j, b, true, false); j.end_obj(); write_line(j);
    }
}
struct Install {
    Install() {
        const char *p = getenv("VERIF_TRACE_OUT");
        if (!p) return;
        g_out = fopen(p, "w");
        if (g_out) OpenVolumeMesh::verif::hook = &on_call;
    }
    ~Install() { if (g_out) { fputs("{\"e\":\"end\",\"x\":0}\n", g_out); fclose(g_out); g_out = nullptr; OpenVolumeMesh::verif::hook = nullptr; } }
} g_install;
}
#endif
