// handles_exec: evaluates the C++ handle conversions (member and static forms)
// on EVERY index of [0, 2^30) and writes, per block of 2^20 indices, residue
// sums of every function's outputs (mod 32749) and the number of indices at
// which each round-trip identity of the API does not hold.  The sums are
// compared by TLC with the closed forms that follow from the specification
// (spec/OVMHandles.tla); the executor knows no closed form.
#include "exec_common.hh"
#include <OpenVolumeMesh/Core/TopologyKernel.hh>
using namespace OpenVolumeMesh;
using TK = TopologyKernel;
static const long long P = 32749;

int main(int argc, char **argv) {
    long long nblocks = argc > 1 ? atoll(argv[1]) : 1024;   // blocks of 2^20
    long long first = argc > 2 ? atoll(argv[2]) : 0;
    const long long B = 1 << 20;
    for (long long b = first; b < first + nblocks; ++b) {
        long long lo = b * B, hi = lo + B;
        long long s_he0 = 0, s_he1 = 0, s_hf0 = 0, s_hf1 = 0, s_eh = 0, s_fh = 0, s_sub = 0, s_oh = 0, s_of = 0;
        long long f_rt = 0, f_side = 0, f_re = 0, f_opp2 = 0, f_oppfull = 0, f_oppside = 0, f_static = 0, f_face = 0;
        for (long long x = lo; x < hi; ++x) {
            EdgeHandle e((int)x); FaceHandle f((int)x);
            HalfEdgeHandle h0 = e.halfedge_handle(0), h1 = e.halfedge_handle(1);
            HalfFaceHandle g0 = f.halfface_handle(0), g1 = f.halfface_handle(1);
            s_he0 = (s_he0 + h0.idx() % P) % P; s_he1 = (s_he1 + h1.idx() % P) % P;
            s_hf0 = (s_hf0 + g0.idx() % P) % P; s_hf1 = (s_hf1 + g1.idx() % P) % P;
            // static forms agree with member forms
            if (TK::halfedge_handle(e, 0) != h0 || TK::halfedge_handle(e, 1) != h1 ||
                TK::halfface_handle(f, 0) != g0 || TK::halfface_handle(f, 1) != g1) ++f_static;
            // full(half(e,s)) = e, side(half(e,s)) = s
            if (h0.edge_handle() != e || h1.edge_handle() != e || TK::edge_handle(h0) != e || TK::edge_handle(h1) != e) ++f_rt;
            if (h0.subidx() != 0 || h1.subidx() != 1) ++f_side;
            if (g0.face_handle() != f || g1.face_handle() != f || TK::face_handle(g0) != f || g0.subidx() != 0 || g1.subidx() != 1) ++f_face;
            // x as a half-entity handle
            HalfEdgeHandle h((int)x); HalfFaceHandle g((int)x);
            s_eh = (s_eh + h.edge_handle().idx() % P) % P;
            s_fh = (s_fh + g.face_handle().idx() % P) % P;
            s_sub = (s_sub + h.subidx()) % P;
            HalfEdgeHandle oh = h.opposite_handle(); HalfFaceHandle og = g.opposite_handle();
            s_oh = (s_oh + oh.idx() % P) % P; s_of = (s_of + og.idx() % P) % P;
            if (h.edge_handle().halfedge_handle(h.subidx()) != h || g.face_handle().halfface_handle(g.subidx()) != g) ++f_re;
            if (oh.opposite_handle() != h || og.opposite_handle() != g || TK::opposite_halfedge_handle(h) != oh || TK::opposite_halfface_handle(g) != og) ++f_opp2;
            if (oh.edge_handle() != h.edge_handle() || og.face_handle() != g.face_handle()) ++f_oppfull;
            if (oh.subidx() != 1 - h.subidx() || og.subidx() != 1 - g.subidx()) ++f_oppside;
        }
        vx::Json j; j.begin_obj(); j.kv("e", "block"); j.kv("b", b); j.kv("lo", lo); j.kv("hi", hi);
        j.kv("he0", s_he0); j.kv("he1", s_he1); j.kv("hf0", s_hf0); j.kv("hf1", s_hf1);
        j.kv("eh", s_eh); j.kv("fh", s_fh); j.kv("sub", s_sub); j.kv("oh", s_oh); j.kv("of", s_of);
        j.kv("f_static", f_static); j.kv("f_rt", f_rt); j.kv("f_side", f_side); j.kv("f_face", f_face);
        j.kv("f_re", f_re); j.kv("f_opp2", f_opp2); j.kv("f_oppfull", f_oppfull); j.kv("f_oppside", f_oppside);
        j.end_obj(); vx::emit(j);
    }
    return 0;
}
