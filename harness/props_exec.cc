// props_exec: performs scripted property-registry / handle / mesh-lifetime /
// mesh-copy calls on real OpenVolumeMesh meshes and PropertyPtr objects held in
// numbered slots, and records after every call everything that is observable,
// as one ndjson line.  No expected values, no oracle logic: every verdict is
// taken by TLC from spec/OVMProps.tla via spec/OVMPropsTrace.tla.
//
// World: 3 mesh slots (GeometricPolyhedralMeshV3d / ...TetrahedralMeshV3d /
// ...HexahedralMeshV3d, or the topology-only TopologicPolyhedralMesh /
// TopologicTetrahedralMesh / TopologicHexahedralMesh), 4 handle slots (PropertyPtr<int|bool, Vertex|HalfEdge|
// Mesh>), and a table of every property storage ever seen (weak_ptr; the index
// in the table is the storage's identity in the trace).
//
// Script format: see exec_common.hh ("C <chk> <op> <a> <b> <f> <n> <l...> [| name]").
//   a = mesh (1..3), b = handle slot (1..4), f = flag, l = integers, name = property name
//   request|create_shared|create_persistent|create_private|get_property  a b l=[kind,type,def] name
//   property_exists a l=[kind,type,def] name        (kind 1 V, 2 HE, 3 M, 4 E, 5 F, 6 HF, 7 C; type 1 int, 2 bool)
//   API flavour (4th list entry of the creation / lookup calls, 2nd of clear_props; absent = 0):
//     0 the generic templates  request_property<T,ET> create_{shared,persistent,private}_property<T,ET>
//       get_property<T,ET> property_exists<T,ET> clear_props<ET>
//     1 the per-kind convenience wrapper of ResourceManager.hh  request_<kind>_property<T>
//       create_{shared,persistent,private}_<kind>_property<T> get_<kind>_property<T> <kind>_property_exists<T>
//       clear_<kind>_props()   (the Mesh kind only has request_mesh_property and clear_mesh_props)
//     2 request: the constructor PropertyPtr<T,ET>(&mesh, name, def); get_property: the per-kind wrapper on a
//       const mesh; create_private: the generic template on a const mesh
//     3 get_property: the generic template on a const mesh
//   every state dump additionally logs n_<kind>_props() ("npw") and the <kind>_props_begin()/end() iteration ("perw")
//   touch b        every element read and written back through the handle, for every entity index of its mesh
//   set_shared|set_persistent a b f                 set_name b name
//   h_copy|h_move b l=[target slot]                 h_drop b
//   clear_props a l=[kind]   clear_all_props a   clear a f
//   write b l=[index,value]  set_vertex a l=[vertex,p]   persist_pos a f   pos_handle a b (slot := vertex_positions())
//   mesh_new a l=[type 1 poly 2 tet 3 hex 4 tpoly 5 ttet 6 thex (topology-only)]  mesh_copy a l=[source]  mesh_assign a l=[source]
//   mesh_destroy a   teardown f (f: meshes first)
//   kernel calls on mesh a: add_vertex add_edge add_face_v add_cell delete_* collect_garbage
//   enable_* with l=[ka,kb,list...] and f
#include "exec_common.hh"

#include <OpenVolumeMesh/Mesh/PolyhedralMesh.hh>
#include <OpenVolumeMesh/Mesh/TetrahedralMesh.hh>
#include <OpenVolumeMesh/Mesh/HexahedralMesh.hh>

#include <csignal>
#include <cmath>
#include <memory>
#include <sys/wait.h>

#if defined(__has_feature)
#  if __has_feature(address_sanitizer)
#    define VX_ASAN 1
#  endif
#endif
#if defined(__SANITIZE_ADDRESS__)
#  define VX_ASAN 1
#endif
#ifdef VX_ASAN
extern "C" void __sanitizer_set_death_callback(void (*)(void));
#endif

using namespace OpenVolumeMesh;
using vx::Json; using vx::CallRec;
using Vec3d = OpenVolumeMesh::Geometry::Vec3d;
using PolyM = GeometricPolyhedralMeshV3d;
using TetM = GeometricTetrahedralMeshV3d;
using HexM = GeometricHexahedralMeshV3d;
using TPolyM = TopologicPolyhedralMesh;      // = TopologyKernel
using TTetM = TopologicTetrahedralMesh;      // = TetrahedralMeshTopologyKernel
using THexM = TopologicHexahedralMesh;       // = HexahedralMeshTopologyKernel

static const int NMESH = 3, NSLOT = 4, NKIND = 7;

// ---------------------------------------------------------------- access to protected state (read only)
struct Acc : TopologyKernel {
    static auto const &out(TopologyKernel const &m) { return m.*(&Acc::outgoing_hes_per_vertex_); }
    static auto const &hehf(TopologyKernel const &m) { return m.*(&Acc::incident_hfs_per_he_); }
    static auto const &inc(TopologyKernel const &m) { return m.*(&Acc::incident_cell_per_hf_); }
    static detail::Tracker<PropertyStorageBase> const &tracker(TopologyKernel const &m, EntityType t) {
        return (m.*(&Acc::storage_trackers_)).get(t);
    }
};
template <class T, class Tag> struct Peek : PropertyPtr<T, Tag> {
    explicit Peek(const PropertyPtr<T, Tag> &p) : PropertyPtr<T, Tag>(p) {}
    std::shared_ptr<PropertyStorageBase> sp() const { return this->PropertyStoragePtr<T>::storage(); }
};
template <class T, class Tag> std::shared_ptr<PropertyStorageBase> storage_of(const PropertyPtr<T, Tag> &p) {
    return Peek<T, Tag>(p).sp();
}

// ---------------------------------------------------------------- storage identities
struct StoTable {
    std::vector<std::weak_ptr<PropertyStorageBase>> known;
    int id_of(const std::shared_ptr<PropertyStorageBase> &sp) {
        if (!sp) return 0;
        for (size_t i = 0; i < known.size(); ++i) {
            if (known[i].expired()) continue;
            if (known[i].lock().get() == sp.get()) return (int)i + 1;
        }
        known.emplace_back(sp);
        return (int)known.size();
    }
};

// ---------------------------------------------------------------- value conversion
static long long vec_code(const Vec3d &v) {
    double x = v[0];
    if (v[1] == x && v[2] == x && std::floor(x) == x && std::fabs(x) < 1e9) return (long long)x;
    return -999999;   // not a uniform integral vector (scripts only write uniform integral vectors)
}
static const char *kind_str(EntityType t) {
    switch (t) {
    case EntityType::Vertex: return "V"; case EntityType::Edge: return "E"; case EntityType::HalfEdge: return "HE";
    case EntityType::Face: return "F"; case EntityType::HalfFace: return "HF"; case EntityType::Cell: return "C";
    case EntityType::Mesh: return "M";
    }
    return "?";
}

// type-erased read of a storage
static void dump_storage_fields(Json &j, PropertyStorageBase &s) {
    j.kv("k", kind_str(s.entity_type()));
    const std::string &tn = s.internal_type_name();
    const char *t = "?";
    if (tn == detail::internal_type_name<int>()) t = "int";
    else if (tn == detail::internal_type_name<bool>()) t = "bool";
    else if (tn == detail::internal_type_name<Vec3d>()) t = "vec";
    j.kv("t", t);
    j.kv("s", s.name());
    j.kv("sh", s.shared());
    j.kv("pe", s.persistent());
    if (!strcmp(t, "int")) {
        auto *st = s.cast_to_StorageT<int>();
        j.kv("d", (long long)st->def()); j.key("v"); j.begin_arr(); for (int x : st->data_vector()) j.val((long long)x); j.end_arr();
    } else if (!strcmp(t, "bool")) {
        auto *st = s.cast_to_StorageT<bool>();
        j.kv("d", (long long)(st->def() ? 1 : 0)); j.key("v"); j.begin_arr(); for (bool x : st->data_vector()) j.val((long long)(x ? 1 : 0)); j.end_arr();
    } else if (!strcmp(t, "vec")) {
        auto *st = s.cast_to_StorageT<Vec3d>();
        j.kv("d", vec_code(st->def())); j.key("v"); j.begin_arr(); for (auto const &x : st->data_vector()) j.val(vec_code(x)); j.end_arr();
    } else {
        j.kv("d", (long long)0); j.key("v"); j.begin_arr(); j.end_arr();
    }
}

// ---------------------------------------------------------------- meshes
struct MeshSlot {
    int ty = 0;   // 0 none, 1 poly, 2 tet, 3 hex (geometric), 4 tpoly, 5 ttet, 6 thex (topology-only)
    std::unique_ptr<PolyM> poly; std::unique_ptr<TetM> tet; std::unique_ptr<HexM> hex;
    std::unique_ptr<TPolyM> tpoly; std::unique_ptr<TTetM> ttet; std::unique_ptr<THexM> thex;
    bool alive() const { return ty != 0; }
    bool geometric() const { return ty >= 1 && ty <= 3; }
    TopologyKernel *tk() const {
        switch (ty) {
        case 1: return poly.get(); case 2: return tet.get(); case 3: return hex.get();
        case 4: return tpoly.get(); case 5: return ttet.get(); case 6: return thex.get();
        }
        return nullptr;
    }
    void destroy() { poly.reset(); tet.reset(); hex.reset(); tpoly.reset(); ttet.reset(); thex.reset(); ty = 0; }
    // geometric meshes only
    template <class F> auto visit(F f) const {
        if (!geometric()) { fprintf(stderr, "mesh type %d has no geometry\n", ty); exit(3); }
        if (ty == 1) return f(*poly);
        if (ty == 2) return f(*tet);
        return f(*hex);
    }
};
static const char *mtype_str(int ty) {
    static const char *n[7] = {"", "poly", "tet", "hex", "tpoly", "ttet", "thex"};
    return ty >= 0 && ty <= 6 ? n[ty] : "";
}

// ---------------------------------------------------------------- handle slots
struct HBase {
    int kind = 0, type = 0;   // 1 V 2 HE 3 M ; 1 int 2 bool
    virtual ~HBase() = default;
    virtual std::unique_ptr<HBase> clone() const = 0;
    virtual bool assign_from(const HBase &o) = 0;         // PropertyPtr::operator= if same static type
    virtual std::shared_ptr<PropertyStorageBase> sp() const = 0;
    virtual void dump_view(Json &j) const = 0;
    virtual void write(size_t idx, long long v) = 0;
    virtual void touch(size_t n) = 0;                      // p[h] read and written back for h = 0 .. n-1
    virtual void set_name(const std::string &s) = 0;
    virtual void set_shared(TopologyKernel &m, bool on) = 0;
    virtual void set_persistent(TopologyKernel &m, bool on) = 0;
};
template <class T> struct Val {
    static long long code(const T &v) { return (long long)v; }
    static T make(long long v) { return (T)v; }
};
template <> struct Val<Vec3d> {
    static long long code(const Vec3d &v) { return vec_code(v); }
    static Vec3d make(long long v) { return Vec3d((double)v, (double)v, (double)v); }
};
template <class T, class Tag> struct H : HBase {
    PropertyPtr<T, Tag> p;
    H(PropertyPtr<T, Tag> pp, int k, int t) : p(std::move(pp)) { kind = k; type = t; }
    std::unique_ptr<HBase> clone() const override { return std::unique_ptr<HBase>(new H<T, Tag>(p, kind, type)); }
    bool assign_from(const HBase &o) override {
        auto *oo = dynamic_cast<const H<T, Tag> *>(&o);
        if (!oo) return false;
        p = oo->p;
        return true;
    }
    std::shared_ptr<PropertyStorageBase> sp() const override { return storage_of(p); }
    void dump_view(Json &j) const override {
        j.kv("ok", (bool)p);
        j.kv("s", p.name());
        j.kv("sh", p.shared());
        j.kv("pe", p.persistent());
        j.kv("sz", p.size());
        j.kv("d", Val<T>::code(p.def()));
        j.key("v"); j.begin_arr(); for (auto it = p.begin(); it != p.end(); ++it) j.val(Val<T>::code((T)*it)); j.end_arr();
    }
    void write(size_t idx, long long v) override { p[HandleT<Tag>((int)idx)] = Val<T>::make(v); }
    void touch(size_t n) override {
        for (size_t i = 0; i < n; ++i) { HandleT<Tag> h((int)i); T v = p[h]; p[h] = v; }
    }
    void set_name(const std::string &s) override { p.set_name(s); }
    void set_shared(TopologyKernel &m, bool on) override { m.set_shared(p, on); }
    void set_persistent(TopologyKernel &m, bool on) override { m.set_persistent(p, on); }
};

template <class F> static void with_kt(int kind, int type, F f) {
    auto on_kind = [&](auto tval) {
        using T = decltype(tval);
        if (kind == 1) f(T(), Entity::Vertex());
        else if (kind == 2) f(T(), Entity::HalfEdge());
        else if (kind == 3) f(T(), Entity::Mesh());
        else if (kind == 4) f(T(), Entity::Edge());
        else if (kind == 5) f(T(), Entity::Face());
        else if (kind == 6) f(T(), Entity::HalfFace());
        else if (kind == 7) f(T(), Entity::Cell());
        else { fprintf(stderr, "bad kind %d\n", kind); exit(3); }
    };
    if (type == 1) on_kind(int());
    else if (type == 2) on_kind(bool());
    else { fprintf(stderr, "bad type %d\n", type); exit(3); }
}

// ---------------------------------------------------------------- the per-kind convenience API of ResourceManager.hh
[[noreturn]] static void nowrap(const char *what) { fprintf(stderr, "the Mesh kind has no per-kind wrapper %s\n", what); exit(3); }
template <class Tag> struct Wrap;
#define VX_WRAP(TAG, K) \
template <> struct Wrap<Entity::TAG> { \
    using E = Entity::TAG; \
    template <class T> static std::optional<PropertyPtr<T, E>> create_shared(TopologyKernel &m, const std::string &n, const T &d) { return m.create_shared_##K##_property<T>(n, d); } \
    template <class T> static std::optional<PropertyPtr<T, E>> create_persistent(TopologyKernel &m, const std::string &n, const T &d) { return m.create_persistent_##K##_property<T>(n, d); } \
    template <class T> static PropertyPtr<T, E> create_private(const TopologyKernel &m, const std::string &n, const T &d) { return m.create_private_##K##_property<T>(n, d); } \
    template <class T> static std::optional<PropertyPtr<T, E>> get(TopologyKernel &m, const std::string &n) { return m.get_##K##_property<T>(n); } \
    template <class T> static std::optional<PropertyPtr<T, E>> get_const(const TopologyKernel &m, const std::string &n) { \
        auto o = m.get_##K##_property<T>(n); if (!o) return {}; return PropertyPtr<T, E>(*o); } \
    template <class T> static bool exists(const TopologyKernel &m, const std::string &n) { return m.K##_property_exists<T>(n); } \
    template <class T> static PropertyPtr<T, E> request(TopologyKernel &m, const std::string &n, const T &d) { return m.request_##K##_property<T>(n, d); } \
    static size_t n_props(const TopologyKernel &m) { return m.n_##K##_props(); } \
    template <class F> static void each_persistent(const TopologyKernel &m, F f) { for (auto it = m.K##_props_begin(); it != m.K##_props_end(); ++it) f(*it); } \
    static void clear(TopologyKernel &m) { m.clear_##K##_props(); } \
};
VX_WRAP(Vertex, vertex) VX_WRAP(Edge, edge) VX_WRAP(HalfEdge, halfedge) VX_WRAP(Face, face) VX_WRAP(HalfFace, halfface) VX_WRAP(Cell, cell)
#undef VX_WRAP
template <> struct Wrap<Entity::Mesh> {
    using E = Entity::Mesh;
    template <class T> static std::optional<PropertyPtr<T, E>> create_shared(TopologyKernel &, const std::string &, const T &) { nowrap("create_shared_mesh_property"); }
    template <class T> static std::optional<PropertyPtr<T, E>> create_persistent(TopologyKernel &, const std::string &, const T &) { nowrap("create_persistent_mesh_property"); }
    template <class T> static PropertyPtr<T, E> create_private(const TopologyKernel &, const std::string &, const T &) { nowrap("create_private_mesh_property"); }
    template <class T> static std::optional<PropertyPtr<T, E>> get(TopologyKernel &, const std::string &) { nowrap("get_mesh_property"); }
    template <class T> static std::optional<PropertyPtr<T, E>> get_const(const TopologyKernel &, const std::string &) { nowrap("get_mesh_property const"); }
    template <class T> static bool exists(const TopologyKernel &, const std::string &) { nowrap("mesh_property_exists"); }
    template <class T> static PropertyPtr<T, E> request(TopologyKernel &m, const std::string &n, const T &d) { return m.request_mesh_property<T>(n, d); }
    static size_t n_props(const TopologyKernel &m) { return m.n_props<E>(); }      // no n_mesh_props()
    template <class F> static void each_persistent(const TopologyKernel &m, F f) { for (auto it = m.persistent_props_begin<E>(); it != m.persistent_props_end<E>(); ++it) f(*it); }
    static void clear(TopologyKernel &m) { m.clear_mesh_props(); }
};

// ---------------------------------------------------------------- the world
struct World {
    MeshSlot mesh[NMESH];
    std::unique_ptr<HBase> slot[NSLOT];
    StoTable sto;

    MeshSlot &M(long long a) {
        if (a < 1 || a > NMESH) { fprintf(stderr, "bad mesh id %lld\n", a); exit(3); }
        return mesh[a - 1];
    }
    TopologyKernel &live(long long a) {
        MeshSlot &m = M(a);
        if (!m.alive()) { fprintf(stderr, "mesh %lld is not alive\n", a); exit(3); }
        return *m.tk();
    }
    std::unique_ptr<HBase> &S(long long b) {
        if (b < 1 || b > NSLOT) { fprintf(stderr, "bad slot %lld\n", b); exit(3); }
        return slot[b - 1];
    }
    HBase &bound(long long b) {
        auto &s = S(b);
        if (!s) { fprintf(stderr, "slot %lld is empty\n", b); exit(3); }
        return *s;
    }
    // slot := handle (assignment over a bound slot of the same static type, else a fresh object)
    void put(long long b, std::unique_ptr<HBase> h) {
        auto &s = S(b);
        if (s && s->assign_from(*h)) return;
        s = std::move(h);
    }
};

static std::string do_call(World &w, const CallRec &c) {
    const std::string &op = c.op;
    auto L = [&](size_t i) -> long long {
        if (i >= c.l.size()) { fprintf(stderr, "op %s: missing list argument %zu\n", op.c_str(), i); exit(3); }
        return c.l[i];
    };
    try {
        if (op == "stamp") return "ok";
        if (op == "request" || op == "create_shared" || op == "create_persistent" || op == "create_private" ||
            op == "get_property" || op == "property_exists") {
            TopologyKernel &m = w.live(c.a);
            int kind = (int)L(0), type = (int)L(1); long long d = L(2);
            std::string ret;
            int fl = c.l.size() > 3 ? c.l[3] : 0;
            auto badfl = [&]() { fprintf(stderr, "op %s: no API flavour %d\n", op.c_str(), fl); exit(3); };
            with_kt(kind, type, [&](auto tval, auto tag) {
                using T = decltype(tval); using Tag = decltype(tag);
                T def = (T)d;
                const TopologyKernel &cm = m;
                if (op == "property_exists") {
                    bool e = false;
                    if (fl == 0) e = m.property_exists<T, Tag>(c.sarg); else if (fl == 1) e = Wrap<Tag>::template exists<T>(cm, c.sarg); else badfl();
                    ret = e ? "true" : "false"; return;
                }
                if (op == "request") {
                    if (fl == 2) {
                        PropertyPtr<T, Tag> p(&m, c.sarg, def);
                        w.put(c.b, std::unique_ptr<HBase>(new H<T, Tag>(p, kind, type))); ret = "ptr"; return;
                    }
                    if (fl != 0 && fl != 1) badfl();
                    auto p = fl == 0 ? m.request_property<T, Tag>(c.sarg, def) : Wrap<Tag>::template request<T>(m, c.sarg, def);
                    w.put(c.b, std::unique_ptr<HBase>(new H<T, Tag>(p, kind, type))); ret = "ptr"; return;
                }
                if (op == "create_private") {
                    if (fl < 0 || fl > 2) badfl();
                    auto p = fl == 0 ? m.create_private_property<T, Tag>(c.sarg, def)
                           : fl == 1 ? Wrap<Tag>::template create_private<T>(cm, c.sarg, def)
                                     : cm.create_private_property<T, Tag>(c.sarg, def);
                    w.put(c.b, std::unique_ptr<HBase>(new H<T, Tag>(p, kind, type))); ret = "ptr"; return;
                }
                std::optional<PropertyPtr<T, Tag>> o;
                if (op == "create_shared") {
                    if (fl == 0) o = m.create_shared_property<T, Tag>(c.sarg, def); else if (fl == 1) o = Wrap<Tag>::template create_shared<T>(m, c.sarg, def); else badfl();
                } else if (op == "create_persistent") {
                    if (fl == 0) o = m.create_persistent_property<T, Tag>(c.sarg, def); else if (fl == 1) o = Wrap<Tag>::template create_persistent<T>(m, c.sarg, def); else badfl();
                } else {
                    if (fl == 0) o = m.get_property<T, Tag>(c.sarg);
                    else if (fl == 1) o = Wrap<Tag>::template get<T>(m, c.sarg);
                    else if (fl == 2) o = Wrap<Tag>::template get_const<T>(cm, c.sarg);
                    else if (fl == 3) { auto oc = cm.get_property<T, Tag>(c.sarg); if (oc) o = PropertyPtr<T, Tag>(*oc); }
                    else badfl();
                }
                if (!o) { ret = "nullopt"; return; }
                w.put(c.b, std::unique_ptr<HBase>(new H<T, Tag>(*o, kind, type))); ret = "some";
            });
            return ret;
        }
        if (op == "set_shared") { w.bound(c.b).set_shared(w.live(c.a), c.f); return "ok"; }
        if (op == "set_persistent") { w.bound(c.b).set_persistent(w.live(c.a), c.f); return "ok"; }
        if (op == "set_name") { w.bound(c.b).set_name(c.sarg); return "ok"; }
        if (op == "h_copy") { w.put(L(0), w.bound(c.b).clone()); return "ok"; }
        if (op == "h_move") {
            // the user moves the handle and lets the source go out of scope
            std::unique_ptr<HBase> src = std::move(w.S(c.b));
            if (!src) { fprintf(stderr, "slot %lld is empty\n", c.b); exit(3); }
            w.put(L(0), std::move(src));
            w.S(c.b).reset();
            return "ok";
        }
        if (op == "h_drop") { w.bound(c.b); w.S(c.b).reset(); return "ok"; }
        if (op == "clear_props") {
            TopologyKernel &m = w.live(c.a);
            int k = (int)L(0);
            int fl = c.l.size() > 1 ? c.l[1] : 0;
            with_kt(k, 1, [&](auto, auto tag) { if (fl == 1) Wrap<decltype(tag)>::clear(m); else m.clear_props<decltype(tag)>(); });
            return "ok";
        }
        if (op == "clear_all_props") { w.live(c.a).clear_all_props(); return "ok"; }
        if (op == "clear") { w.live(c.a).clear(c.f); return "ok"; }
        if (op == "write") { w.bound(c.b).write((size_t)L(0), L(1)); return "ok"; }
        if (op == "touch") {
            // the caller indexes the property with every entity handle of the mesh it belongs to
            HBase &h = w.bound(c.b);
            auto sp = h.sp();
            size_t n = sp->size();
            for (auto &ms : w.mesh) {
                if (!ms.alive()) continue;
                TopologyKernel &m = *ms.tk();
                bool mine = false;
                for (PropertyStorageBase *q : Acc::tracker(m, sp->entity_type())) if (q == sp.get()) mine = true;
                if (!mine) continue;
                switch (sp->entity_type()) {
                case EntityType::Vertex: n = m.n_vertices(); break; case EntityType::Edge: n = m.n_edges(); break;
                case EntityType::HalfEdge: n = m.n_halfedges(); break; case EntityType::Face: n = m.n_faces(); break;
                case EntityType::HalfFace: n = m.n_halffaces(); break; case EntityType::Cell: n = m.n_cells(); break;
                case EntityType::Mesh: n = 1; break;
                }
            }
            h.touch(n);
            return "ok";
        }
        if (op == "set_vertex") {
            w.live(c.a);
            double p = (double)L(1);
            w.M(c.a).visit([&](auto &mm) { mm.set_vertex(VertexHandle((int)L(0)), Vec3d(p, p, p)); return 0; });
            return "ok";
        }
        if (op == "persist_pos") {
            w.live(c.a);
            w.M(c.a).visit([&](auto &mm) { mm.set_persistent(mm.vertex_positions(), c.f); return 0; });
            return "ok";
        }
        if (op == "pos_handle") {
            w.live(c.a);
            w.M(c.a).visit([&](auto &mm) {
                w.put(c.b, std::unique_ptr<HBase>(new H<Vec3d, Entity::Vertex>(mm.vertex_positions(), 1, 3))); return 0; });
            return "ptr";
        }
        if (op == "mesh_new") {
            MeshSlot &m = w.M(c.a);
            if (m.alive()) { fprintf(stderr, "mesh %lld already alive\n", c.a); exit(3); }
            int ty = (int)L(0);
            switch (ty) {
            case 1: m.poly.reset(new PolyM()); break; case 2: m.tet.reset(new TetM()); break; case 3: m.hex.reset(new HexM()); break;
            case 4: m.tpoly.reset(new TPolyM()); break; case 5: m.ttet.reset(new TTetM()); break; case 6: m.thex.reset(new THexM()); break;
            default: fprintf(stderr, "bad mesh type %d\n", ty); exit(3);
            }
            m.ty = ty;
            return "ok";
        }
        if (op == "mesh_copy") {
            MeshSlot &d = w.M(c.a); w.live(L(0)); MeshSlot &s = w.M(L(0));
            if (d.alive()) { fprintf(stderr, "mesh %lld already alive\n", c.a); exit(3); }
            switch (s.ty) {
            case 1: d.poly.reset(new PolyM(*s.poly)); break; case 2: d.tet.reset(new TetM(*s.tet)); break; case 3: d.hex.reset(new HexM(*s.hex)); break;
            case 4: d.tpoly.reset(new TPolyM(*s.tpoly)); break; case 5: d.ttet.reset(new TTetM(*s.ttet)); break; case 6: d.thex.reset(new THexM(*s.thex)); break;
            }
            d.ty = s.ty;
            return "ok";
        }
        if (op == "mesh_assign") {
            w.live(c.a); w.live(L(0));
            MeshSlot &d = w.M(c.a); MeshSlot &s = w.M(L(0));
            if (d.geometric() && s.geometric()) {
                d.visit([&](auto &dm) { s.visit([&](auto &sm) { dm = sm; return 0; }); return 0; });
            } else if (d.ty == s.ty) {
                // topology-only meshes: the defaulted operator= of the same type (source taken through a
                // reference, so that self assignment is an ordinary call)
                if (d.ty == 4) { const TPolyM &src = *s.tpoly; *d.tpoly = src; }
                else if (d.ty == 5) { const TTetM &src = *s.ttet; *d.ttet = src; }
                else { const THexM &src = *s.thex; *d.thex = src; }
            } else { fprintf(stderr, "mesh_assign between mesh types %d and %d does not compile\n", d.ty, s.ty); exit(3); }
            return "ok";
        }
        if (op == "mesh_destroy") { w.live(c.a); w.M(c.a).destroy(); return "ok"; }
        if (op == "teardown") {
            if (c.f) { for (auto &m : w.mesh) m.destroy(); for (auto &s : w.slot) s.reset(); }
            else     { for (auto &s : w.slot) s.reset(); for (auto &m : w.mesh) m.destroy(); }
            return "ok";
        }
        // kernel calls: l = [ka, kb, list...]
        {
            TopologyKernel &m = w.live(c.a);
            int ka = (int)L(0), kb = (int)L(1);
            std::vector<int> kl(c.l.begin() + 2, c.l.end());
            if (op == "add_vertex") { m.add_vertex(); return "ok"; }
            if (op == "add_edge") { m.add_edge(VertexHandle(ka), VertexHandle(kb), c.f); return "ok"; }
            if (op == "add_face_v") { std::vector<VertexHandle> vs; for (int x : kl) vs.emplace_back(x); m.add_face(vs); return "ok"; }
            if (op == "add_cell") { std::vector<HalfFaceHandle> hs; for (int x : kl) hs.emplace_back(x); m.add_cell(hs, c.f); return "ok"; }
            if (op == "delete_vertex") { m.delete_vertex(VertexHandle(ka)); return "ok"; }
            if (op == "delete_edge") { m.delete_edge(EdgeHandle(ka)); return "ok"; }
            if (op == "delete_face") { m.delete_face(FaceHandle(ka)); return "ok"; }
            if (op == "delete_cell") { m.delete_cell(CellHandle(ka)); return "ok"; }
            if (op == "collect_garbage") { m.collect_garbage(); return "ok"; }
            if (op == "enable_deferred") { m.enable_deferred_deletion(c.f); return "ok"; }
            if (op == "enable_fast") { m.enable_fast_deletion(c.f); return "ok"; }
            if (op == "enable_vbu") { m.enable_vertex_bottom_up_incidences(c.f); return "ok"; }
            if (op == "enable_ebu") { m.enable_edge_bottom_up_incidences(c.f); return "ok"; }
            if (op == "enable_fbu") { m.enable_face_bottom_up_incidences(c.f); return "ok"; }
        }
        fprintf(stderr, "unknown op %s\n", op.c_str()); exit(3);
    } catch (const std::exception &) {
        return "threw";
    }
}

// ---------------------------------------------------------------- projection
static const EntityType ALLK[7] = {EntityType::Vertex, EntityType::Edge, EntityType::HalfEdge, EntityType::Face,
                                   EntityType::HalfFace, EntityType::Cell, EntityType::Mesh};

static void dump_kernel(Json &j, const TopologyKernel &m) {
    j.begin_obj();
    j.kv("nv", m.n_vertices());
    auto flags = [&](const char *k, size_t n, auto mk) {
        j.key(k); j.begin_arr();
        for (size_t i = 0; i < n; ++i) j.val((bool)m.is_deleted(mk((int)i)));
        j.end_arr();
    };
    flags("vdel", m.n_vertices(), [](int i) { return VertexHandle(i); });
    flags("edel", m.n_edges(), [](int i) { return EdgeHandle(i); });
    flags("fdel", m.n_faces(), [](int i) { return FaceHandle(i); });
    flags("cdel", m.n_cells(), [](int i) { return CellHandle(i); });
    j.kv("ndv", m.n_vertices() - m.n_logical_vertices());
    j.kv("nde", m.n_edges() - m.n_logical_edges());
    j.kv("ndf", m.n_faces() - m.n_logical_faces());
    j.kv("ndc", m.n_cells() - m.n_logical_cells());
    j.key("edges"); j.begin_arr();
    for (size_t i = 0; i < m.n_edges(); ++i) {
        auto const &e = m.edge(EdgeHandle((int)i));
        j.begin_arr(); j.val(e.from_vertex().idx()); j.val(e.to_vertex().idx()); j.end_arr();
    }
    j.end_arr();
    j.key("faces"); j.begin_arr();
    for (size_t i = 0; i < m.n_faces(); ++i) { j.begin_arr(); for (auto h : m.face(FaceHandle((int)i)).halfedges()) j.val(h.idx()); j.end_arr(); }
    j.end_arr();
    j.key("cells"); j.begin_arr();
    for (size_t i = 0; i < m.n_cells(); ++i) { j.begin_arr(); for (auto h : m.cell(CellHandle((int)i)).halffaces()) j.val(h.idx()); j.end_arr(); }
    j.end_arr();
    j.kv("vbu", m.has_vertex_bottom_up_incidences());
    j.kv("ebu", m.has_edge_bottom_up_incidences());
    j.kv("fbu", m.has_face_bottom_up_incidences());
    j.kv("deferred", m.deferred_deletion_enabled());
    j.kv("fast", m.fast_deletion_enabled());
    j.key("out"); j.begin_arr();
    for (auto const &row : Acc::out(m)) { j.begin_arr(); for (auto h : row) j.val(h.idx()); j.end_arr(); }
    j.end_arr();
    j.key("hehf"); j.begin_arr();
    for (auto const &row : Acc::hehf(m)) { j.begin_arr(); for (auto h : row) j.val(h.idx()); j.end_arr(); }
    j.end_arr();
    j.key("inc"); j.begin_arr(); for (auto c : Acc::inc(m)) j.val(c.idx()); j.end_arr();
    j.end_obj();
}

static void dump_world(Json &j, World &w) {
    // 1. discover storages: slots, then trackers and persistent sets of the live meshes, then the position handles
    int slot_id[NSLOT];
    for (int h = 0; h < NSLOT; ++h) slot_id[h] = w.slot[h] ? w.sto.id_of(w.slot[h]->sp()) : 0;
    std::vector<int> trk[NMESH], per[NMESH]; int posh[NMESH];
    for (int i = 0; i < NMESH; ++i) {
        posh[i] = 0;
        if (!w.mesh[i].alive()) continue;
        TopologyKernel &m = *w.mesh[i].tk();
        for (EntityType t : ALLK)
            for (PropertyStorageBase *p : Acc::tracker(m, t)) trk[i].push_back(w.sto.id_of(p->shared_from_this()));
        auto pers = [&](auto tag) {
            using Tag = decltype(tag);
            for (auto it = m.persistent_props_begin<Tag>(); it != m.persistent_props_end<Tag>(); ++it)
                per[i].push_back(w.sto.id_of((*it)->shared_from_this()));
        };
        for_each_entity(pers);
        if (w.mesh[i].geometric())
            posh[i] = w.mesh[i].visit([&](auto &mm) { return w.sto.id_of(storage_of(mm.vertex_positions())); });
    }
    j.begin_obj();
    // 2. meshes
    j.key("M"); j.begin_arr();
    for (int i = 0; i < NMESH; ++i) {
        j.begin_obj();
        j.kv("al", w.mesh[i].alive());
        if (w.mesh[i].alive()) {
            TopologyKernel &m = *w.mesh[i].tk();
            j.kv("ty", mtype_str(w.mesh[i].ty));
            // per kind, in the order of the kind indices 1..7 = V HE M E F HF C
            j.key("n"); j.begin_arr(); j.val(m.n_vertices()); j.val(m.n_halfedges()); j.val((long long)1);
            j.val(m.n_edges()); j.val(m.n_faces()); j.val(m.n_halffaces()); j.val(m.n_cells()); j.end_arr();
            j.key("np"); j.begin_arr();
            for (int k = 1; k <= NKIND; ++k) with_kt(k, 1, [&](auto, auto tag) { j.val(m.n_props<decltype(tag)>()); });
            j.end_arr();
            j.key("npp"); j.begin_arr();
            for (int k = 1; k <= NKIND; ++k) with_kt(k, 1, [&](auto, auto tag) { j.val(m.n_persistent_props<decltype(tag)>()); });
            j.end_arr();
            // lookups for every key of the universe: kinds V HE M x types int bool x names a b
            std::vector<int> fd; std::vector<int> ex;
            for (int k = 1; k <= NKIND; ++k) for (int t = 1; t <= 2; ++t) for (const char *nm : {"a", "b"})
                with_kt(k, t, [&](auto tval, auto tag) {
                    using T = decltype(tval); using Tag = decltype(tag);
                    auto o = m.get_property<T, Tag>(nm);
                    fd.push_back(o ? w.sto.id_of(storage_of(*o)) : 0);
                    ex.push_back(m.property_exists<T, Tag>(nm) ? 1 : 0);
                });
            j.kint_arr("fd", fd); j.kint_arr("ex", ex);
            j.kint_arr("trk", trk[i]); j.kint_arr("per", per[i]);
            // the same through the per-kind convenience API
            j.key("npw"); j.begin_arr();
            for (int k = 1; k <= NKIND; ++k) with_kt(k, 1, [&](auto, auto tag) { j.val(Wrap<decltype(tag)>::n_props(m)); });
            j.end_arr();
            std::vector<int> perw;
            for (int k = 1; k <= NKIND; ++k) with_kt(k, 1, [&](auto, auto tag) {
                Wrap<decltype(tag)>::each_persistent(m, [&](PropertyStorageBase *p) { perw.push_back(w.sto.id_of(p->shared_from_this())); }); });
            j.kint_arr("perw", perw);
            j.kv("posh", (long long)posh[i]);
            j.key("posv"); j.begin_arr();
            if (w.mesh[i].geometric())
                w.mesh[i].visit([&](auto &mm) { for (size_t v = 0; v < mm.n_vertices(); ++v) j.val(vec_code(mm.vertex(VertexHandle((int)v)))); return 0; });
            j.end_arr();
            j.key("kern"); dump_kernel(j, m);
        }
        j.end_obj();
    }
    j.end_arr();
    // 3. storages (every storage ever seen)
    j.key("S"); j.begin_arr();
    for (size_t i = 0; i < w.sto.known.size(); ++i) {
        auto sp = w.sto.known[i].lock();
        j.begin_obj();
        j.kv("lv", (bool)sp);
        if (sp) {
            dump_storage_fields(j, *sp);
            int tr = 0;
            for (int mi = 0; mi < NMESH; ++mi) for (int id : trk[mi]) if (id == (int)i + 1) tr = mi + 1;
            j.kv("tr", (long long)tr);
            j.kv("att", (bool)*sp);
        }
        j.end_obj();
    }
    j.end_arr();
    // 4. handle slots
    j.key("H"); j.begin_arr();
    for (int h = 0; h < NSLOT; ++h) {
        j.begin_obj();
        j.kv("st", (long long)slot_id[h]);
        if (w.slot[h]) w.slot[h]->dump_view(j);
        j.end_obj();
    }
    j.end_arr();
    j.end_obj();
}

// ---------------------------------------------------------------- main loop (fork per branch, as ovm_exec)
static long g_exec = -1, g_sid = -1, g_cur = -1;
static void crash_line(int sig) {
    char buf[200];
    int n = snprintf(buf, sizeof buf, "{\"e\":\"crash\",\"sig\":%d,\"x\":%ld,\"sid\":%ld,\"psid\":%ld}\n", sig, g_exec, g_sid, g_cur);
    if (n > 0) { ssize_t wr = write(1, buf, (size_t)n); (void)wr; }
}
static void on_fatal(int sig) { crash_line(sig); _exit(70); }
static void on_death() { crash_line(-2); }

struct Runner {
    std::vector<vx::ScriptItem> items;
    std::unique_ptr<World> world;
    long skip = 0;

    void log_state(const char *e, long sid) {
        Json j; j.begin_obj(); j.kv("e", e); j.kv("x", (long long)g_exec); j.kv("sid", (long long)sid);
        j.key("post"); dump_world(j, *world);
        j.end_obj(); vx::emit(j);
    }
    void reset(long sid) {
        ++g_exec;
        // the previous execution's world is abandoned without running destructors in a fixed order:
        // destruction orders are scripted explicitly (teardown, mesh_destroy, h_drop)
        (void)world.release();
        if (g_exec < skip) return;
        world.reset(new World());
        log_state("reset", sid);
        g_cur = sid;
    }
    void call(const CallRec &c, long sid) {
        g_sid = sid;
        std::string ret = do_call(*world, c);
        if (c.chk != 0) {
            Json j; j.begin_obj(); j.kv("e", "call"); j.kv("x", (long long)g_exec);
            j.kv("sid", (long long)sid); j.kv("psid", (long long)g_cur);
            j.kv("chk", c.chk == 1);
            j.key("c"); j.begin_obj();
            j.kv("op", c.op); j.kv("a", c.a); j.kv("b", c.b); j.kv("f", c.f); j.kint_arr("l", c.l); j.kv("s", c.sarg);
            j.end_obj();
            j.kv("ret", ret);
            j.key("post"); dump_world(j, *world);
            j.end_obj(); vx::emit(j);
            g_cur = sid;
        }
        g_sid = -1;
    }
    size_t match_end(size_t b) const {
        int depth = 0;
        for (size_t k = b; k < items.size(); ++k) {
            if (items[k].tag == 'B') ++depth;
            else if (items[k].tag == 'E') { if (--depth == 0) return k; }
            else if (items[k].tag == 'R' && k > b) break;
        }
        fprintf(stderr, "unbalanced B at script line %zu\n", b); exit(3);
    }
    void run(size_t lo, size_t hi) {
        for (size_t k = lo; k < hi; ++k) {
            const vx::ScriptItem &it = items[k];
            if (it.tag == 'R') { reset((long)k); continue; }
            if (g_exec < skip || !world) continue;
            if (it.tag == 'P') { log_state("pre", (long)k); g_cur = (long)k; continue; }
            if (it.tag == 'C') { call(it.call, (long)k); continue; }
            if (it.tag == 'E') continue;
            if (it.tag == 'B') {
                size_t e = match_end(k);
                fflush(stdout);
                pid_t pid = fork();
                if (pid < 0) { perror("fork"); exit(3); }
                if (pid == 0) { run(k + 1, e); fflush(stdout); _exit(0); }
                int st = 0; waitpid(pid, &st, 0);
                bool clean = WIFEXITED(st) && WEXITSTATUS(st) == 0;
                if (!clean) {
                    Json j; j.begin_obj(); j.kv("e", "branch_died"); j.kv("x", (long long)g_exec);
                    j.kv("sid", (long long)k); j.kv("psid", (long long)g_cur);
                    j.kv("status", (long long)(WIFEXITED(st) ? WEXITSTATUS(st) : 1000 + WTERMSIG(st)));
                    j.end_obj(); vx::emit(j);
                }
                k = e;
            }
        }
    }
};

int main(int argc, char **argv) {
    const char *path = nullptr;
    Runner r;
    for (int i = 1; i < argc; ++i) {
        if (!strcmp(argv[i], "--skip") && i + 1 < argc) r.skip = atol(argv[++i]);
        else path = argv[i];
    }
    if (!path) { fprintf(stderr, "usage: props_exec [--skip N] script.txt\n"); return 2; }
    std::ifstream in(path);
    if (!in) { fprintf(stderr, "cannot open %s\n", path); return 2; }
    std::set_terminate([] { on_fatal(-1); });
    signal(SIGABRT, on_fatal); signal(SIGSEGV, on_fatal); signal(SIGFPE, on_fatal); signal(SIGBUS, on_fatal);
#ifdef VX_ASAN
    __sanitizer_set_death_callback(on_death);
#endif
    (void)on_death;
    vx::ScriptItem it;
    while (vx::read_item(in, it)) r.items.push_back(it);
    r.run(0, r.items.size());
    Json j; j.begin_obj(); j.kv("e", "end"); j.kv("x", (long long)g_exec); j.end_obj(); vx::emit(j);
    fflush(stdout);
    _exit(0);
}
