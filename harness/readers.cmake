# executor of the concurrent-readers check (C20): spec/OVMReaders*.tla, bin/vecread_check.py
find_package(Threads REQUIRED)
add_executable(readers_exec ${CMAKE_CURRENT_LIST_DIR}/readers_exec.cc)
target_link_libraries(readers_exec OpenVolumeMesh::OpenVolumeMesh Threads::Threads)
