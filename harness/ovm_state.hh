// Mesh box, tracked properties, state projection and kernel call dispatch shared
// by the executors.  No expected values, no oracle logic.
#pragma once
#include "exec_common.hh"

#include <OpenVolumeMesh/Mesh/PolyhedralMesh.hh>
#include <OpenVolumeMesh/Mesh/TetrahedralMesh.hh>
#include <OpenVolumeMesh/Mesh/HexahedralMesh.hh>
#include <OpenVolumeMesh/Attribs/StatusAttrib.hh>

#include <memory>
#include <map>

using namespace OpenVolumeMesh;
using vx::Json; using vx::CallRec;

// ---------------------------------------------------------------- properties
// A tracked property of the executor: created through the public registry,
// values are a function of the entity's stamp id so that any mis-permutation
// is visible.  "default" slots are stamped by the explicit pseudo call "stamp".
struct PropBase {
    std::string kind, name, type, flavour;
    virtual ~PropBase() = default;
    virtual size_t size() const = 0;
    virtual void dump_vals(Json &j) const = 0;
    virtual void dump_def(Json &j) const = 0;
    virtual void set_from_id(size_t slot, long long id) = 0;
    virtual bool valid() const = 0;
};

template <class T> struct Conv;
template <> struct Conv<int> {
    static int from_id(long long id) { return (int)(id * 7 + 3); }
    static int def() { return -7; }
    static void put(Json &j, int v) { j.val((long long)v); }
    static const char *name() { return "int"; }
};
template <> struct Conv<bool> {
    static bool from_id(long long id) { unsigned long long x = (unsigned long long)id * 0x9E3779B97F4A7C15ull; return (x >> 40) & 1; }
    static bool def() { return false; }
    static void put(Json &j, bool v) { j.val((long long)(v ? 1 : 0)); }
    static const char *name() { return "bool"; }
};
template <> struct Conv<double> {
    static double from_id(long long id) { return (double)id + 0.25; }
    static double def() { return -0.5; }
    static void put(Json &j, double v) { char b[64]; snprintf(b, sizeof b, "%.17g", v); j.val(std::string(b)); }
    static const char *name() { return "double"; }
};
template <> struct Conv<std::string> {
    static std::string from_id(long long id) { return "s" + std::to_string(id); }
    static std::string def() { return "dflt"; }
    static void put(Json &j, const std::string &v) { j.val(v); }
    static const char *name() { return "string"; }
};
template <> struct Conv<Vec3d> {
    static Vec3d from_id(long long id) { return Vec3d((double)id, 2.0 * id + 0.5, -1.0 * id); }
    static Vec3d def() { return Vec3d(9.0, 9.0, 9.0); }
    static void put(Json &j, const Vec3d &v) { char b[128]; snprintf(b, sizeof b, "%.17g %.17g %.17g", v[0], v[1], v[2]); j.val(std::string(b)); }
    static const char *name() { return "vec3d"; }
};

// the id property: value is the stamp id itself, default -1
struct IdTag {};

template <class T, class Tag, bool IsId = false>
struct PropT : PropBase {
    PropertyPtr<T, Tag> p;
    explicit PropT(PropertyPtr<T, Tag> pp) : p(std::move(pp)) {}
    size_t size() const override { return p.size(); }
    bool valid() const override { return (bool)p; }
    void dump_vals(Json &j) const override {
        j.begin_arr();
        auto const &v = p.data_vector();
        for (size_t i = 0; i < v.size(); ++i) Conv<T>::put(j, (T)v[i]);
        j.end_arr();
    }
    void dump_def(Json &j) const override { Conv<T>::put(j, p.def()); }
    void set_from_id(size_t slot, long long id) override {
        HandleT<Tag> h((int)slot);
        if constexpr (IsId) p.at(h) = (T)id; else p.at(h) = Conv<T>::from_id(id);
    }
};

template <class Tag> const char *kind_name();
template <> inline const char *kind_name<Entity::Vertex>() { return "V"; }
template <> inline const char *kind_name<Entity::Edge>() { return "E"; }
template <> inline const char *kind_name<Entity::HalfEdge>() { return "HE"; }
template <> inline const char *kind_name<Entity::Face>() { return "F"; }
template <> inline const char *kind_name<Entity::HalfFace>() { return "HF"; }
template <> inline const char *kind_name<Entity::Cell>() { return "C"; }
template <> inline const char *kind_name<Entity::Mesh>() { return "M"; }

// ---------------------------------------------------------------- one mesh
struct Acc : TopologyKernel {
    static auto const &out(TopologyKernel const &m) { return m.*(&Acc::outgoing_hes_per_vertex_); }
    static auto const &hehf(TopologyKernel const &m) { return m.*(&Acc::incident_hfs_per_he_); }
    static auto const &inc(TopologyKernel const &m) { return m.*(&Acc::incident_cell_per_hf_); }
};

struct MeshBox {
    std::string type;
    std::unique_ptr<TopologyKernel> owner;
    TopologyKernel *m = nullptr;
    std::vector<std::unique_ptr<PropBase>> props;
    // the id properties, by kind index 0..5 = V E HE F HF C
    PropertyPtr<int, Entity::Vertex> *idV = nullptr;
    PropertyPtr<int, Entity::Edge> *idE = nullptr;
    PropertyPtr<int, Entity::HalfEdge> *idHE = nullptr;
    PropertyPtr<int, Entity::Face> *idF = nullptr;
    PropertyPtr<int, Entity::HalfFace> *idHF = nullptr;
    PropertyPtr<int, Entity::Cell> *idC = nullptr;
    long long nextV = 0, nextE = 0, nextF = 0, nextC = 0;
    int propcount = 0;

    template <class T, class Tag, bool IsId = false>
    PropT<T, Tag, IsId> *add_prop(const std::string &flavour, const std::string &name, T def) {
        std::unique_ptr<PropT<T, Tag, IsId>> pb;
        if (flavour == "shared")
            pb.reset(new PropT<T, Tag, IsId>(m->request_property<T, Tag>(name, def)));
        else if (flavour == "private")
            pb.reset(new PropT<T, Tag, IsId>(m->create_private_property<T, Tag>(name, def)));
        else {
            auto o = m->create_persistent_property<T, Tag>(name, def);
            if (!o) { fprintf(stderr, "cannot create persistent property %s\n", name.c_str()); exit(3); }
            pb.reset(new PropT<T, Tag, IsId>(*o));
        }
        pb->kind = kind_name<Tag>(); pb->name = name; pb->type = IsId ? "id" : Conv<T>::name(); pb->flavour = flavour;
        auto *raw = pb.get();
        props.emplace_back(std::move(pb));
        return raw;
    }

    template <class Tag> void add_id_prop(PropertyPtr<int, Tag> *&slot) {
        auto *p = add_prop<int, Tag, true>("shared", std::string("vx:id:") + kind_name<Tag>(), -1);
        slot = &p->p;
    }

    void setup_props(int level) {
        if (level <= 0) return;
        add_id_prop<Entity::Vertex>(idV); add_id_prop<Entity::Edge>(idE); add_id_prop<Entity::HalfEdge>(idHE);
        add_id_prop<Entity::Face>(idF); add_id_prop<Entity::HalfFace>(idHF); add_id_prop<Entity::Cell>(idC);
        if (level >= 2) { add_more_props("a"); add_position_prop(); }
    }
    // vertex positions are a property as well (C03: "vertex positions follow the same rule")
    void add_position_prop() {
        PropertyPtr<Vec3d, Entity::Vertex> *pp = nullptr;
        if (auto *g = dynamic_cast<GeometricPolyhedralMeshV3d *>(m)) pp = &g->vertex_positions();
        else if (auto *g2 = dynamic_cast<GeometricTetrahedralMeshV3d *>(m)) pp = &g2->vertex_positions();
        else if (auto *g3 = dynamic_cast<GeometricHexahedralMeshV3d *>(m)) pp = &g3->vertex_positions();
        if (!pp) return;
        std::unique_ptr<PropT<Vec3d, Entity::Vertex>> pb(new PropT<Vec3d, Entity::Vertex>(*pp));
        pb->kind = "V"; pb->name = "ovm:position"; pb->type = "vec3d"; pb->flavour = "position";
        props.emplace_back(std::move(pb));
    }
    // a mixed family of value types / flavours on all seven kinds
    void add_more_props(const std::string &sfx) {
        add_prop<bool, Entity::Vertex>("private", "", Conv<bool>::def());
        add_prop<std::string, Entity::Vertex>("persistent", "vs" + sfx, Conv<std::string>::def());
        add_prop<double, Entity::Edge>("shared", "ed" + sfx, Conv<double>::def());
        add_prop<bool, Entity::Edge>("persistent", "eb" + sfx, Conv<bool>::def());
        add_prop<bool, Entity::HalfEdge>("shared", "heb" + sfx, Conv<bool>::def());
        add_prop<std::string, Entity::HalfEdge>("private", "", Conv<std::string>::def());
        add_prop<Vec3d, Entity::Face>("shared", "fv" + sfx, Conv<Vec3d>::def());
        add_prop<bool, Entity::Face>("private", "", Conv<bool>::def());
        add_prop<int, Entity::HalfFace>("persistent", "hfi" + sfx, Conv<int>::def());
        add_prop<bool, Entity::HalfFace>("shared", "hfb" + sfx, Conv<bool>::def());
        add_prop<double, Entity::Cell>("private", "", Conv<double>::def());
        add_prop<bool, Entity::Cell>("shared", "cb" + sfx, Conv<bool>::def());
        add_prop<int, Entity::Mesh>("shared", "mi" + sfx, Conv<int>::def());
        // value types whose copy differs from their move (copy_property_elements, swaps, erases)
        add_prop<std::string, Entity::Cell>("shared", "cs" + sfx, Conv<std::string>::def());
        add_prop<std::string, Entity::HalfFace>("shared", "hfs" + sfx, Conv<std::string>::def());
        add_prop<std::string, Entity::Edge>("private", "", Conv<std::string>::def());
    }

    // give every slot that still carries the default id a fresh id and set all
    // property values of that slot from the id; returns number of stamped slots
    template <class Tag, class FullTag>
    size_t stamp_kind(PropertyPtr<int, Tag> *idp, PropertyPtr<int, FullTag> *fullid, long long *next) {
        if (!idp) return 0;
        size_t n = 0;
        const char *kn = kind_name<Tag>();
        for (size_t i = 0; i < idp->size(); ++i) {
            if (idp->data_vector()[i] != -1) continue;
            long long id;
            if (next) id = (*next)++;
            else { long long fid = fullid->data_vector()[i / 2]; if (fid == -1) continue; id = 2 * fid + (long long)(i % 2); }
            for (auto &p : props) if (p->kind == kn && p->size() > i) p->set_from_id(i, id);
            ++n;
        }
        return n;
    }
    // give the values of properties created in the middle of a history the value that
    // belongs to each already stamped slot (ids are read from the id properties)
    template <class Tag> void refill_kind(PropertyPtr<int, Tag> *idp, size_t first_new) {
        if (!idp) return;
        const char *kn = kind_name<Tag>();
        for (size_t i = 0; i < idp->size(); ++i) {
            long long id = idp->data_vector()[i];
            if (id == -1) continue;
            for (size_t k = first_new; k < props.size(); ++k)
                if (props[k]->kind == kn && props[k]->size() > i) props[k]->set_from_id(i, id);
        }
    }
    void refill(size_t first_new) {
        refill_kind<Entity::Vertex>(idV, first_new); refill_kind<Entity::Edge>(idE, first_new);
        refill_kind<Entity::HalfEdge>(idHE, first_new); refill_kind<Entity::Face>(idF, first_new);
        refill_kind<Entity::HalfFace>(idHF, first_new); refill_kind<Entity::Cell>(idC, first_new);
    }
    size_t stamp() {
        size_t n = 0;
        n += stamp_kind<Entity::Vertex, Entity::Vertex>(idV, nullptr, &nextV);
        n += stamp_kind<Entity::Edge, Entity::Edge>(idE, nullptr, &nextE);
        n += stamp_kind<Entity::HalfEdge, Entity::Edge>(idHE, idE, nullptr);
        n += stamp_kind<Entity::Face, Entity::Face>(idF, nullptr, &nextF);
        n += stamp_kind<Entity::HalfFace, Entity::Face>(idHF, idF, nullptr);
        n += stamp_kind<Entity::Cell, Entity::Cell>(idC, nullptr, &nextC);
        return n;
    }
};

inline std::unique_ptr<TopologyKernel> make_mesh(const std::string &t) {
    if (t == "poly") return std::unique_ptr<TopologyKernel>(new GeometricPolyhedralMeshV3d());
    if (t == "tet") return std::unique_ptr<TopologyKernel>(new GeometricTetrahedralMeshV3d());
    if (t == "hex") return std::unique_ptr<TopologyKernel>(new GeometricHexahedralMeshV3d());
    if (t == "topo") return std::unique_ptr<TopologyKernel>(new TopologyKernel());
    fprintf(stderr, "unknown mesh type %s\n", t.c_str()); exit(3);
}

// ---------------------------------------------------------------- projection
inline void dump_state(Json &j, const MeshBox &b, bool with_caches, bool with_props) {
    const TopologyKernel &m = *b.m;
    j.begin_obj();
    j.kv("nv", m.n_vertices());
    auto flags = [&](const char *k, size_t n, auto mk) {
        j.key(k); j.begin_arr();
        for (size_t i = 0; i < n; ++i) j.val((bool)m.is_deleted(mk((int)i)));
        j.end_arr();
    };
    flags("vdel", m.n_vertices(), [](int i) { return VertexHandle(i); });
    flags("edel", m.n_edges(), [](int i) { return EdgeHandle(i); });
    flags("fdel", m.n_faces(), [](int i) { return FaceHandle(i); });
    flags("cdel", m.n_cells(), [](int i) { return CellHandle(i); });
    j.kv("ndv", m.n_vertices() - m.n_logical_vertices());
    j.kv("nde", m.n_edges() - m.n_logical_edges());
    j.kv("ndf", m.n_faces() - m.n_logical_faces());
    j.kv("ndc", m.n_cells() - m.n_logical_cells());
    j.key("edges"); j.begin_arr();
    for (size_t i = 0; i < m.n_edges(); ++i) {
        auto const &e = m.edge(EdgeHandle((int)i));
        j.begin_arr(); j.val(e.from_vertex().idx()); j.val(e.to_vertex().idx()); j.end_arr();
    }
    j.end_arr();
    j.key("faces"); j.begin_arr();
    for (size_t i = 0; i < m.n_faces(); ++i) {
        j.begin_arr(); for (auto h : m.face(FaceHandle((int)i)).halfedges()) j.val(h.idx()); j.end_arr();
    }
    j.end_arr();
    j.key("cells"); j.begin_arr();
    for (size_t i = 0; i < m.n_cells(); ++i) {
        j.begin_arr(); for (auto h : m.cell(CellHandle((int)i)).halffaces()) j.val(h.idx()); j.end_arr();
    }
    j.end_arr();
    j.kv("vbu", m.has_vertex_bottom_up_incidences());
    j.kv("ebu", m.has_edge_bottom_up_incidences());
    j.kv("fbu", m.has_face_bottom_up_incidences());
    j.kv("deferred", m.deferred_deletion_enabled());
    j.kv("fast", m.fast_deletion_enabled());
    if (with_caches) {
        j.key("out"); j.begin_arr();
        for (auto const &row : Acc::out(m)) { j.begin_arr(); for (auto h : row) j.val(h.idx()); j.end_arr(); }
        j.end_arr();
        j.key("hehf"); j.begin_arr();
        for (auto const &row : Acc::hehf(m)) { j.begin_arr(); for (auto h : row) j.val(h.idx()); j.end_arr(); }
        j.end_arr();
        j.key("inc"); j.begin_arr();
        for (auto c : Acc::inc(m)) j.val(c.idx());
        j.end_arr();
    }
    // derived counters the API reports
    j.kv("genus", m.genus());
    j.kv("needs_gc", m.needs_garbage_collection());
    if (with_props) {
        j.key("props"); j.begin_arr();
        for (auto const &p : b.props) {
            j.begin_obj();
            j.kv("k", p->kind); j.kv("t", p->type);
            j.key("d"); p->dump_def(j);
            j.key("v"); p->dump_vals(j);
            j.end_obj();
        }
        j.end_arr();
    }
    j.end_obj();
}

// ---------------------------------------------------------------- calls
inline std::vector<HalfEdgeHandle> hes_of(const std::vector<int> &l) { std::vector<HalfEdgeHandle> r; for (int x : l) r.emplace_back(x); return r; }
inline std::vector<HalfFaceHandle> hfs_of(const std::vector<int> &l) { std::vector<HalfFaceHandle> r; for (int x : l) r.emplace_back(x); return r; }
inline std::vector<VertexHandle> vs_of(const std::vector<int> &l) { std::vector<VertexHandle> r; for (int x : l) r.emplace_back(x); return r; }

inline const long long VOID = -2;

// list-valued result of the last call (e.g. the tracked handles after status_gc)
inline std::vector<int> &last_list() { static std::vector<int> v; return v; }

// StatusAttrib::garbage_collection: marks flat in c.l (<<nV, v.., nE, e.., nF, f.., nC, c..>>),
// c.f = preserve manifoldness, c.a = 1: hand in EVERY vertex / halfedge / halfface / cell handle for tracking
inline void do_status_gc(TopologyKernel &m, const CallRec &c) {
    StatusAttrib st(m);
    size_t p = 0;
    auto take = [&](auto mark) { int n = c.l.at(p++); for (int i = 0; i < n; ++i) mark(c.l.at(p++)); };
    take([&](int h) { st[VertexHandle(h)].set_deleted(true); });
    take([&](int h) { st[EdgeHandle(h)].set_deleted(true); });
    take([&](int h) { st[FaceHandle(h)].set_deleted(true); });
    take([&](int h) { st[CellHandle(h)].set_deleted(true); });
    auto &out = last_list(); out.clear();
    if (c.a == 1) {
        std::vector<VertexHandle> vh; std::vector<HalfEdgeHandle> hh; std::vector<HalfFaceHandle> hfh; std::vector<CellHandle> ch;
        for (int i = 0; i < (int)m.n_vertices(); ++i) vh.emplace_back(i);
        for (int i = 0; i < (int)m.n_halfedges(); ++i) hh.emplace_back(i);
        for (int i = 0; i < (int)m.n_halffaces(); ++i) hfh.emplace_back(i);
        for (int i = 0; i < (int)m.n_cells(); ++i) ch.emplace_back(i);
        std::vector<VertexHandle *> vp; std::vector<HalfEdgeHandle *> hp; std::vector<HalfFaceHandle *> hfp; std::vector<CellHandle *> cp;
        for (auto &x : vh) vp.push_back(&x);
        for (auto &x : hh) hp.push_back(&x);
        for (auto &x : hfh) hfp.push_back(&x);
        for (auto &x : ch) cp.push_back(&x);
        st.garbage_collection(vp, hp, hfp, cp, c.f);
        for (auto &x : vh) out.push_back(x.idx());
        for (auto &x : hh) out.push_back(x.idx());
        for (auto &x : hfh) out.push_back(x.idx());
        for (auto &x : ch) out.push_back(x.idx());
    } else {
        st.garbage_collection(c.f);
    }
}

// returns the call's result; *known = false if the op is not a kernel call
inline long long do_kernel_call(TopologyKernel &m, const CallRec &c, bool *known) {
    *known = true;
    const std::string &op = c.op;
    if (op == "add_vertex") return m.add_vertex().idx();
    if (op == "add_n_vertices") { m.add_n_vertices((size_t)c.a); return VOID; }
    if (op == "add_edge") return m.add_edge(VertexHandle((int)c.a), VertexHandle((int)c.b), c.f).idx();
    if (op == "add_face") return m.add_face(hes_of(c.l), c.f).idx();
    if (op == "add_face_v") return m.add_face(vs_of(c.l)).idx();
    if (op == "add_cell") return m.add_cell(hfs_of(c.l), c.f).idx();
    if (op == "set_edge") { m.set_edge(EdgeHandle((int)c.a), VertexHandle(c.l.at(0)), VertexHandle(c.l.at(1))); return VOID; }
    if (op == "set_face") { m.set_face(FaceHandle((int)c.a), hes_of(c.l)); return VOID; }
    if (op == "set_cell") { m.set_cell(CellHandle((int)c.a), hfs_of(c.l)); return VOID; }
    if (op == "delete_vertex") { auto it = m.delete_vertex(VertexHandle((int)c.a)); return it.valid() ? (long long)it->idx() : -1; }
    if (op == "delete_edge") { auto it = m.delete_edge(EdgeHandle((int)c.a)); return it.valid() ? (long long)it->idx() : -1; }
    if (op == "delete_face") { auto it = m.delete_face(FaceHandle((int)c.a)); return it.valid() ? (long long)it->idx() : -1; }
    if (op == "delete_cell") { auto it = m.delete_cell(CellHandle((int)c.a)); return it.valid() ? (long long)it->idx() : -1; }
    if (op == "collect_garbage") { m.collect_garbage(); return VOID; }
    if (op == "swap_vertices") { m.swap_vertex_indices(VertexHandle((int)c.a), VertexHandle((int)c.b)); return VOID; }
    if (op == "swap_edges") { m.swap_edge_indices(EdgeHandle((int)c.a), EdgeHandle((int)c.b)); return VOID; }
    if (op == "swap_faces") { m.swap_face_indices(FaceHandle((int)c.a), FaceHandle((int)c.b)); return VOID; }
    if (op == "swap_cells") { m.swap_cell_indices(CellHandle((int)c.a), CellHandle((int)c.b)); return VOID; }
    if (op == "enable_deferred") { m.enable_deferred_deletion(c.f); return VOID; }
    if (op == "enable_fast") { m.enable_fast_deletion(c.f); return VOID; }
    if (op == "enable_vbu") { m.enable_vertex_bottom_up_incidences(c.f); return VOID; }
    if (op == "enable_ebu") { m.enable_edge_bottom_up_incidences(c.f); return VOID; }
    if (op == "enable_fbu") { m.enable_face_bottom_up_incidences(c.f); return VOID; }
    if (op == "enable_bu") { m.enable_bottom_up_incidences(c.f); return VOID; }
    if (op == "reorder") { m.reorder_incident_halffaces(EdgeHandle(c.a)); return VOID; }
    if (op == "reserve") {
        size_t n = (size_t)c.b;
        if (c.a == 0) m.reserve_vertices(m.n_vertices() + n); else if (c.a == 1) m.reserve_edges(m.n_edges() + n);
        else if (c.a == 2) m.reserve_faces(m.n_faces() + n); else m.reserve_cells(m.n_cells() + n);
        return VOID;
    }
    if (op == "clear") { m.clear(c.f); return VOID; }
    if (op == "status_gc") { do_status_gc(m, c); return VOID; }
    *known = false;
    return VOID;
}

inline bool is_bu_toggle(const std::string &op) { return op == "enable_vbu" || op == "enable_ebu" || op == "enable_fbu" || op == "enable_bu"; }

