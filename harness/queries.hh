// Query recorder: raw answers of the read-only API for every argument, no
// interpretation.  (Filled in by queries.cc-style code below.)
#pragma once
#include "exec_common.hh"
#include <OpenVolumeMesh/Core/TopologyKernel.hh>
namespace vq {
void dump_queries(vx::Json &j, const OpenVolumeMesh::TopologyKernel &m, int level);
}
