// io_exec: executor of the file-format checks (C06 C07 C18).
//
// Reads a job file, builds meshes from descriptions, writes / reads them with
// the real OVMB and OVM-ASCII code of the library and records what happened:
// raw bytes as JSON int arrays, results as the library names them, and the
// projection of every mesh involved.  NO expected values and NO oracle logic:
// every verdict is taken by TLC from spec/OVMB.tla, spec/OVMAscii.tla through
// spec/OVMIOTrace.tla.
//
// Every job runs in a forked child: a crash (signal, sanitizer report,
// libstdc++ assertion), a timeout (ITIMER_REAL) or an allocation failure ends
// that job only and is recorded as such.  Allocation is capped (RLIMIT_AS in
// plain builds, max_allocation_size_mb under ASan; operator new is replaced so
// that a failed allocation throws std::bad_alloc under ASan as well).
//
// Job file (text, one item per line; <hex> = byte string in hex, "-" = empty):
//   M <name> <poly|tet|hex>          begin mesh description
//     v <x16> <y16> <z16>            add_vertex, coordinates as IEEE-754 bit patterns
//     e <a> <b>                      add_edge(a, b, allow duplicates)
//     f <n> <he>*n                   add_face(halfedges, no topology check)
//     c <n> <hf>*n                   add_cell(halffaces, no topology check)
//     t <v0> <v1> <v2> <v3>          tet meshes: add_cell(v0..v3)
//     x <v0> .. <v7>                 hex meshes: add_cell(8 vertices)
//     p <kind> <type> <name> <def> <n> <val>*n   persistent property (hex fields)
//     D <V|E|F|C> <idx>              delete (deferred deletion is switched on)
//     G                              collect_garbage
//   .                                end of mesh description
//   W <job> <mesh> <ovmb|ascii> <auto|poly|tet|hex> <failat> <failmode>
//   R <job> <ovmb|ascii> <poly|tet|hex> <tc> <bu> <failat> <failmode> <hex bytes>
//   T <job> <mesh> <ovmb|ascii> <poly|tet|hex> <tc> <bu>      write/read/write/read/write
//   O <key>=<value>                  options: timeout_ms, as_mb
#include "exec_common.hh"

#include <OpenVolumeMesh/Mesh/PolyhedralMesh.hh>
#include <OpenVolumeMesh/Mesh/TetrahedralMesh.hh>
#include <OpenVolumeMesh/Mesh/HexahedralMesh.hh>
#include <OpenVolumeMesh/IO/ovmb_read.hh>
#include <OpenVolumeMesh/IO/ovmb_write.hh>
#include <OpenVolumeMesh/FileManager/FileManager.hh>
#include <OpenVolumeMesh/FileManager/TypeNames.hh>
#include <OpenVolumeMesh/Core/EntityUtils.hh>

#include <csignal>
#include <map>
#include <memory>
#include <new>
#include <streambuf>
#include <sys/mman.h>
#include <sys/resource.h>
#include <sys/time.h>
#include <sys/wait.h>
#include <fcntl.h>

#if defined(__has_feature)
#  if __has_feature(address_sanitizer)
#    define VX_ASAN 1
#  endif
#endif
#if defined(__SANITIZE_ADDRESS__)
#  define VX_ASAN 1
#endif

using namespace OpenVolumeMesh;
using vx::Json;
typedef std::vector<uint8_t> Bytes;

// ------------------------------------------------------------ allocation
// Under ASan a failed operator new aborts the process instead of throwing.
// Route new/delete through malloc/free (still instrumented) so that "declared
// size cannot be allocated" is observable as std::bad_alloc in both builds.
#ifdef VX_ASAN
extern "C" const char *__asan_default_options() {
    return "detect_leaks=0:allocator_may_return_null=1:max_allocation_size_mb=1024:abort_on_error=0:exitcode=77:"
           "alloc_dealloc_mismatch=0:new_delete_type_mismatch=0:handle_abort=0";
}
extern "C" const char *__ubsan_default_options() { return "print_stacktrace=1:halt_on_error=1:exitcode=78"; }
void *operator new(size_t n) { void *p = malloc(n ? n : 1); if (!p) throw std::bad_alloc(); return p; }
void *operator new[](size_t n) { void *p = malloc(n ? n : 1); if (!p) throw std::bad_alloc(); return p; }
void *operator new(size_t n, const std::nothrow_t &) noexcept { return malloc(n ? n : 1); }
void *operator new[](size_t n, const std::nothrow_t &) noexcept { return malloc(n ? n : 1); }
void operator delete(void *p) noexcept { free(p); }
void operator delete[](void *p) noexcept { free(p); }
void operator delete(void *p, size_t) noexcept { free(p); }
void operator delete[](void *p, size_t) noexcept { free(p); }
#endif

// ------------------------------------------------------------ hex helpers
static int hexval(char c) { return c <= '9' ? c - '0' : (c | 32) - 'a' + 10; }
static Bytes unhex(const std::string &s) {
    Bytes b;
    if (s == "-") return b;
    b.reserve(s.size() / 2);
    for (size_t i = 0; i + 1 < s.size(); i += 2) b.push_back((uint8_t)(hexval(s[i]) * 16 + hexval(s[i + 1])));
    return b;
}
static void put_bytes(Json &j, const uint8_t *p, size_t n) {
    j.comma(); j.s += '[';
    char buf[8];
    for (size_t i = 0; i < n; ++i) {
        int k = snprintf(buf, sizeof buf, i ? ",%u" : "%u", (unsigned)p[i]);
        j.s.append(buf, (size_t)k);
    }
    j.s += ']'; j.need_comma = true;
}
static void put_bytes(Json &j, const Bytes &b) { put_bytes(j, b.data(), b.size()); }
static void put_bytes(Json &j, const std::string &b) { put_bytes(j, (const uint8_t *)b.data(), b.size()); }

// ------------------------------------------------------------ canonical value bytes
// The projection writes every property value as the bytes of its in-memory
// representation (little endian machine): integers/floats by memcpy, bool as
// one byte, strings as their characters, handles as their int index, vectors
// component by component, std::vector/std::map with a 4 byte element count.
template <class T, class = void> struct Canon;
template <class T> struct Canon<T, std::enable_if_t<std::is_arithmetic_v<T> && !std::is_same_v<T, bool>>> {
    static void put(Bytes &b, const T &v) { uint8_t t[sizeof(T)]; memcpy(t, &v, sizeof(T)); b.insert(b.end(), t, t + sizeof(T)); }
    static bool get(const uint8_t *&p, const uint8_t *e, T &v) { if ((size_t)(e - p) < sizeof(T)) return false; memcpy(&v, p, sizeof(T)); p += sizeof(T); return true; }
};
template <> struct Canon<bool> {
    static void put(Bytes &b, bool v) { b.push_back(v ? 1 : 0); }
    static bool get(const uint8_t *&p, const uint8_t *e, bool &v) { if (p >= e) return false; v = *p++ != 0; return true; }
};
template <> struct Canon<std::string> {
    static void put(Bytes &b, const std::string &v) { b.insert(b.end(), v.begin(), v.end()); }
    static bool get(const uint8_t *&p, const uint8_t *e, std::string &v) { v.assign((const char *)p, (size_t)(e - p)); p = e; return true; }
};
template <class T> struct Canon<T, std::enable_if_t<is_handle_v<T>>> {
    static void put(Bytes &b, const T &v) { Canon<int>::put(b, v.idx()); }
    static bool get(const uint8_t *&p, const uint8_t *e, T &v) { int i; if (!Canon<int>::get(p, e, i)) return false; v = T(i); return true; }
};
template <class S, int N> struct Canon<Geometry::VectorT<S, N>> {
    typedef Geometry::VectorT<S, N> V;
    static void put(Bytes &b, const V &v) { for (int i = 0; i < N; ++i) Canon<S>::put(b, v[i]); }
    static bool get(const uint8_t *&p, const uint8_t *e, V &v) { for (int i = 0; i < N; ++i) { S s; if (!Canon<S>::get(p, e, s)) return false; v[i] = s; } return true; }
};
template <class E> struct Canon<std::vector<E>> {
    static void put(Bytes &b, const std::vector<E> &v) { Canon<uint32_t>::put(b, (uint32_t)v.size()); for (auto const &x : v) Canon<E>::put(b, x); }
    static bool get(const uint8_t *&p, const uint8_t *e, std::vector<E> &v) {
        uint32_t n; if (!Canon<uint32_t>::get(p, e, n)) return false;
        v.clear();
        for (uint32_t i = 0; i < n; ++i) { E x; if (!Canon<E>::get(p, e, x)) return false; v.push_back(x); }
        return true;
    }
};
template <class K, class V> struct Canon<std::map<K, V>> {
    static void put(Bytes &b, const std::map<K, V> &m) { Canon<uint32_t>::put(b, (uint32_t)m.size()); for (auto const &x : m) { Canon<K>::put(b, x.first); Canon<V>::put(b, x.second); } }
    static bool get(const uint8_t *&p, const uint8_t *e, std::map<K, V> &m) {
        uint32_t n; if (!Canon<uint32_t>::get(p, e, n)) return false;
        m.clear();
        for (uint32_t i = 0; i < n; ++i) { K k; V v; if (!Canon<K>::get(p, e, k) || !Canon<V>::get(p, e, v)) return false; m[k] = v; }
        return true;
    }
};

// the C++ value types the executor can create and recognise, with a tag that
// names the C++ type (the file-format names of these types live in the spec)
#define VX_TYPES(X) \
    X(bool, "bool") X(char, "char") X(signed char, "int8") X(unsigned char, "uint8") \
    X(short, "int16") X(unsigned short, "uint16") X(int, "int32") X(unsigned int, "uint32") \
    X(long, "int64") X(unsigned long, "uint64") X(float, "float") X(double, "double") X(std::string, "string") \
    X(VH, "VH") X(EH, "EH") X(HEH, "HEH") X(FH, "FH") X(HFH, "HFH") X(CH, "CH") \
    X(Geometry::Vec2d, "Vec2d") X(Geometry::Vec3d, "Vec3d") X(Geometry::Vec4d, "Vec4d") \
    X(Geometry::Vec2f, "Vec2f") X(Geometry::Vec3f, "Vec3f") X(Geometry::Vec4f, "Vec4f") \
    X(Geometry::Vec2ui, "Vec2ui") X(Geometry::Vec3ui, "Vec3ui") X(Geometry::Vec4ui, "Vec4ui") \
    X(Geometry::Vec2i, "Vec2i") X(Geometry::Vec3i, "Vec3i") X(Geometry::Vec4i, "Vec4i") \
    X(std::vector<double>, "vector_double") X(std::vector<VH>, "vector_VH") X(std::vector<HFH>, "vector_HFH") \
    X(std::vector<std::vector<HFH>>, "vector_vector_HFH")

// std::map<HEH,int> needs operator< on handles; it is handled separately below
typedef std::map<HEH, int> MapHehInt;

static const char *kind_name(EntityType t) {
    switch (t) {
    case EntityType::Vertex: return "V"; case EntityType::Edge: return "E"; case EntityType::HalfEdge: return "HE";
    case EntityType::Face: return "F"; case EntityType::HalfFace: return "HF"; case EntityType::Cell: return "C";
    case EntityType::Mesh: return "M";
    }
    return "?";
}
static bool kind_from(const std::string &s, EntityType &t) {
    static const std::pair<const char *, EntityType> tab[] = {{"V", EntityType::Vertex}, {"E", EntityType::Edge}, {"HE", EntityType::HalfEdge},
        {"F", EntityType::Face}, {"HF", EntityType::HalfFace}, {"C", EntityType::Cell}, {"M", EntityType::Mesh}};
    for (auto &p : tab) if (s == p.first) { t = p.second; return true; }
    return false;
}

// ------------------------------------------------------------ mesh descriptions
struct PropDef { EntityType kind; std::string type; Bytes name, def; std::vector<Bytes> vals; };
struct Step { char op; std::vector<long long> a; std::vector<uint64_t> bits; PropDef prop; };
struct MeshDef { std::string name, type; std::vector<Step> steps; };

typedef GeometricPolyhedralMeshV3d PolyM;
typedef GeometricTetrahedralMeshV3d TetM;
typedef GeometricHexahedralMeshV3d HexM;

template <class T, class MeshT> static bool add_prop_t(MeshT &m, const PropDef &p) {
    return entitytag_dispatch(p.kind, [&](auto tag) {
        typedef decltype(tag) Tag;
        T def{};
        const uint8_t *q = p.def.data();
        if (!p.def.empty() || std::is_same_v<T, std::string>) Canon<T>::get(q, q + p.def.size(), def);
        auto prop = m.template request_property<T, Tag>(std::string(p.name.begin(), p.name.end()), def);
        size_t n = prop.size();
        for (size_t i = 0; i < p.vals.size() && i < n; ++i) {
            T v{};
            const uint8_t *r = p.vals[i].data();
            Canon<T>::get(r, r + p.vals[i].size(), v);
            prop[HandleT<Tag>((int)i)] = v;
        }
        m.set_persistent(prop);
        return true;
    });
}
template <class MeshT> static bool add_prop(MeshT &m, const PropDef &p) {
#define X(T, TAG) if (p.type == TAG) return add_prop_t<T>(m, p);
    VX_TYPES(X)
#undef X
    if (p.type == "map_HEH_int") return add_prop_t<MapHehInt>(m, p);
    fprintf(stderr, "io_exec: unknown property type %s\n", p.type.c_str());
    exit(3);
}

template <class MeshT> static void build(MeshT &m, const MeshDef &d) {
    for (auto const &s : d.steps) {
        switch (s.op) {
        case 'v': { double c[3]; memcpy(c, s.bits.data(), sizeof c); m.add_vertex(typename MeshT::PointT(c[0], c[1], c[2])); break; }
        case 'e': m.add_edge(VH((int)s.a[0]), VH((int)s.a[1]), true); break;
        case 'f': { std::vector<HEH> h; for (size_t i = 1; i < s.a.size(); ++i) h.push_back(HEH((int)s.a[i])); m.add_face(h, false); break; }
        case 'c': { std::vector<HFH> h; for (size_t i = 1; i < s.a.size(); ++i) h.push_back(HFH((int)s.a[i])); m.add_cell(h, false); break; }
        case 't': if constexpr (std::is_same_v<MeshT, TetM>) m.add_cell(VH((int)s.a[0]), VH((int)s.a[1]), VH((int)s.a[2]), VH((int)s.a[3])); break;
        case 'x': if constexpr (std::is_same_v<MeshT, HexM>) { std::vector<VH> v; for (auto x : s.a) v.push_back(VH((int)x)); m.add_cell(v); } break;
        case 'p': add_prop(m, s.prop); break;
        case 'D':
            m.enable_deferred_deletion(true);
            switch ((char)s.a[0]) {
            case 'V': m.delete_vertex(VH((int)s.a[1])); break;
            case 'E': m.delete_edge(EH((int)s.a[1])); break;
            case 'F': m.delete_face(FH((int)s.a[1])); break;
            case 'C': m.delete_cell(CH((int)s.a[1])); break;
            }
            break;
        case 'G': m.collect_garbage(); break;
        }
    }
}

// ------------------------------------------------------------ projection
template <class T> static void dump_prop_t(Json &j, const PropertyStorageBase *pb) {
    const PropertyStorageT<T> *p = pb->cast_to_StorageT<T>();
    Bytes b;
    Canon<T>::put(b, p->def());
    j.key("def"); put_bytes(j, b);
    j.key("vals"); j.begin_arr();
    auto const &v = p->data_vector();
    bool cut = false;
    for (size_t i = 0; i < v.size(); ++i) {
        b.clear();
        if constexpr (std::is_same_v<T, std::string>) {
            // a value of absurd size (only fuzzed text files produce one) is logged by its first 64 KiB
            const std::string &x = v[i];
            size_t n = std::min<size_t>(x.size(), 65536);
            cut = cut || n < x.size();
            b.assign(x.begin(), x.begin() + (long)n);
        } else { T x = v[i]; Canon<T>::put(b, x); }
        put_bytes(j, b);
    }
    j.end_arr();
    if (cut) j.kv("cut", true);
}
static void dump_prop(Json &j, const PropertyStorageBase *pb) {
    j.begin_obj();
    j.kv("k", kind_name(pb->entity_type()));
    j.key("name"); put_bytes(j, pb->name());
    j.kv("sz", pb->size());
    const std::string &itn = pb->internal_type_name();
    bool known = false;
#define X(T, TAG) if (!known && itn == OpenVolumeMesh::detail::internal_type_name<T>()) { known = true; j.kv("t", TAG); dump_prop_t<T>(j, pb); }
    VX_TYPES(X)
#undef X
    if (!known && itn == OpenVolumeMesh::detail::internal_type_name<MapHehInt>()) { known = true; j.kv("t", "map_HEH_int"); dump_prop_t<MapHehInt>(j, pb); }
    if (!known) { j.kv("t", "?"); j.key("def"); j.begin_arr(); j.end_arr(); j.key("vals"); j.begin_arr(); j.end_arr(); }
    j.end_obj();
}

template <class MeshT> static void dump_mesh(Json &j, const MeshT &m) {
    j.begin_obj();
    j.kv("nv", m.n_vertices()); j.kv("ne", m.n_edges()); j.kv("nf", m.n_faces()); j.kv("nc", m.n_cells());
    j.kv("needs_gc", m.needs_garbage_collection());
    j.key("pos"); j.begin_arr();
    for (size_t i = 0; i < m.n_vertices(); ++i) {
        auto p = m.vertex(VH((int)i));
        double c[3] = {p[0], p[1], p[2]};
        uint8_t t[24]; memcpy(t, c, 24);
        put_bytes(j, t, 24);
    }
    j.end_arr();
    j.key("edges"); j.begin_arr();
    for (size_t i = 0; i < m.n_edges(); ++i) {
        auto const &e = m.edge(EH((int)i));
        j.begin_arr(); j.val((long long)e.from_vertex().idx()); j.val((long long)e.to_vertex().idx()); j.end_arr();
    }
    j.end_arr();
    j.key("faces"); j.begin_arr();
    for (size_t i = 0; i < m.n_faces(); ++i) {
        j.begin_arr();
        for (auto h : m.face(FH((int)i)).halfedges()) j.val((long long)h.idx());
        j.end_arr();
    }
    j.end_arr();
    j.key("cells"); j.begin_arr();
    for (size_t i = 0; i < m.n_cells(); ++i) {
        j.begin_arr();
        for (auto h : m.cell(CH((int)i)).halffaces()) j.val((long long)h.idx());
        j.end_arr();
    }
    j.end_arr();
    j.key("vdel"); j.begin_arr(); for (size_t i = 0; i < m.n_vertices(); ++i) j.val(m.is_deleted(VH((int)i))); j.end_arr();
    j.key("edel"); j.begin_arr(); for (size_t i = 0; i < m.n_edges(); ++i) j.val(m.is_deleted(EH((int)i))); j.end_arr();
    j.key("fdel"); j.begin_arr(); for (size_t i = 0; i < m.n_faces(); ++i) j.val(m.is_deleted(FH((int)i))); j.end_arr();
    j.key("cdel"); j.begin_arr(); for (size_t i = 0; i < m.n_cells(); ++i) j.val(m.is_deleted(CH((int)i))); j.end_arr();
    j.key("props"); j.begin_arr();
    for_each_entity([&](auto tag) {
        typedef decltype(tag) Tag;
        for (auto it = m.template persistent_props_begin<Tag>(); it != m.template persistent_props_end<Tag>(); ++it) {
            const PropertyStorageBase *pb = *it;
            dump_prop(j, pb);
        }
    });
    j.end_arr();
    j.end_obj();
}

// ------------------------------------------------------------ failing streams
// Input: the stream reports its full size through seeking but delivers only the
// first `limit` bytes; after that reads come back short (mode 0) or the buffer
// throws (mode 1: the istream turns that into badbit).
class FailIn : public std::streambuf {
    const Bytes &d_; size_t pos_ = 0, limit_; int mode_;
    bool dead() { if (pos_ >= d_.size()) return true; if (pos_ >= limit_) { if (mode_ == 1) throw std::ios_base::failure("vx: injected read failure"); return true; } return false; }
public:
    FailIn(const Bytes &d, size_t limit, int mode) : d_(d), limit_(limit), mode_(mode) {}
protected:
    int_type underflow() override { if (dead()) return traits_type::eof(); return traits_type::to_int_type((char)d_[pos_]); }
    int_type uflow() override { if (dead()) return traits_type::eof(); return traits_type::to_int_type((char)d_[pos_++]); }
    std::streamsize xsgetn(char *s, std::streamsize n) override {
        size_t lim = std::min(limit_, d_.size());
        size_t k = pos_ < lim ? std::min((size_t)n, lim - pos_) : 0;
        if (k) memcpy(s, d_.data() + pos_, k);
        pos_ += k;
        if ((std::streamsize)k < n && pos_ < d_.size() && mode_ == 1) throw std::ios_base::failure("vx: injected read failure");
        return (std::streamsize)k;
    }
    pos_type seekoff(off_type off, std::ios_base::seekdir dir, std::ios_base::openmode) override {
        long long base = dir == std::ios_base::beg ? 0 : dir == std::ios_base::cur ? (long long)pos_ : (long long)d_.size();
        long long np = base + off;
        if (np < 0 || np > (long long)d_.size()) return pos_type(off_type(-1));
        pos_ = (size_t)np;
        return pos_type((off_type)np);
    }
    pos_type seekpos(pos_type p, std::ios_base::openmode m) override { return seekoff(off_type(p), std::ios_base::beg, m); }
};
// Output: accepts `limit` bytes, then fails.
class FailOut : public std::streambuf {
    Bytes &d_; size_t limit_; int mode_;
public:
    FailOut(Bytes &d, size_t limit, int mode) : d_(d), limit_(limit), mode_(mode) {}
protected:
    int_type overflow(int_type c) override {
        if (traits_type::eq_int_type(c, traits_type::eof())) return traits_type::not_eof(c);
        if (d_.size() >= limit_) { if (mode_ == 1) throw std::ios_base::failure("vx: injected write failure"); return traits_type::eof(); }
        d_.push_back((uint8_t)traits_type::to_char_type(c));
        return c;
    }
    std::streamsize xsputn(const char *s, std::streamsize n) override {
        size_t room = d_.size() < limit_ ? limit_ - d_.size() : 0;
        size_t k = std::min((size_t)n, room);
        d_.insert(d_.end(), s, s + k);
        if ((std::streamsize)k < n && mode_ == 1) throw std::ios_base::failure("vx: injected write failure");
        return (std::streamsize)k;
    }
};

// ------------------------------------------------------------ the calls
struct Shared { volatile int phase; };
static Shared *g_sh = nullptr;

template <class MeshT> static std::string do_write(const MeshT &m, const std::string &fmt, const std::string &tt,
                                                    long long failat, int failmode, Bytes &out, bool &good) {
    FailOut buf(out, failat < 0 ? (size_t)-1 : (size_t)failat, failmode);
    std::ostream os(&buf);
    std::string res;
    try {
        if (fmt == "ovmb") {
            IO::WriteOptions o;
            if (tt == "poly") o.topology_type = IO::WriteOptions::TopologyType::Polyhedral;
            else if (tt == "tet") o.topology_type = IO::WriteOptions::TopologyType::Tetrahedral;
            else if (tt == "hex") o.topology_type = IO::WriteOptions::TopologyType::Hexahedral;
            res = IO::to_string(IO::ovmb_write(os, m, o));
        } else {
            IO::FileManager fm;
            fm.setVerbosityLevel(0);
            fm.writeStream(os, m);
            os.flush();
            res = os.good() ? "Ok" : "Error";
        }
    } catch (std::bad_alloc &) { res = "Exception:bad_alloc";
    } catch (std::length_error &) { res = "Exception:length_error";
    } catch (std::exception &e) { res = std::string("Exception:other:") + e.what();
    } catch (...) { res = "Exception:unknown"; }
    good = os.good();
    return res;
}

template <class MeshT> static std::string do_read(MeshT &m, const std::string &fmt, bool tc, bool bu,
                                                   const Bytes &in, long long failat, int failmode) {
    FailIn buf(in, failat < 0 ? (size_t)-1 : (size_t)failat, failmode);
    std::istream is(&buf);
    try {
        if (fmt == "ovmb") {
            IO::ReadOptions o; o.topology_check = tc; o.bottom_up_incidences = bu;
            return IO::to_string(IO::ovmb_read(is, m, o));
        } else {
            IO::FileManager fm;
            fm.setVerbosityLevel(0);
            return fm.readStream(is, m, tc, bu) ? "Ok" : "False";
        }
    } catch (std::bad_alloc &) { return "Exception:bad_alloc";
    } catch (std::length_error &) { return "Exception:length_error";
    } catch (std::exception &e) { return std::string("Exception:other:") + e.what();
    } catch (...) { return "Exception:unknown"; }
}

template <class F> static auto with_mesh(const std::string &type, F f) {
    if (type == "tet") { TetM m; return f(m); }
    if (type == "hex") { HexM m; return f(m); }
    PolyM m; return f(m);
}

struct Job {
    char kind; long long id; std::string mesh, fmt, mt, tt; bool tc = false, bu = false; long long failat = -1; int failmode = 0; Bytes bytes;
};

static void job_header(Json &j, const char *e, const Job &jb) {
    j.begin_obj(); j.kv("e", e); j.kv("j", jb.id); j.kv("fmt", jb.fmt); j.kv("mt", jb.mt);
    j.kv("tc", jb.tc); j.kv("bu", jb.bu); j.kv("failat", jb.failat); j.kv("failmode", jb.failmode);
}

static void run_job(const Job &jb, const std::map<std::string, MeshDef> &meshes) {
    Json j;
    if (jb.kind == 'R') {
        with_mesh(jb.mt, [&](auto &m) {
            g_sh->phase = 1;
            std::string res = do_read(m, jb.fmt, jb.tc, jb.bu, jb.bytes, jb.failat, jb.failmode);
            g_sh->phase = 2;
            job_header(j, "read", jb);
            j.kv("res", res);
            if (res == "Ok") { j.key("mesh"); dump_mesh(j, m); }
            j.key("bytes"); put_bytes(j, jb.bytes);
            j.end_obj();
            return 0;
        });
    } else if (jb.kind == 'W') {
        const MeshDef &d = meshes.at(jb.mesh);
        with_mesh(d.type, [&](auto &m) {
            build(m, d);
            Job h = jb; h.mt = d.type;
            job_header(j, "write", h);
            j.kv("tt", jb.tt);
            j.key("mesh"); dump_mesh(j, m);
            g_sh->phase = 1;
            Bytes out; bool good = false;
            std::string res = do_write(m, jb.fmt, jb.tt, jb.failat, jb.failmode, out, good);
            g_sh->phase = 2;
            j.kv("res", res); j.kv("good", good);
            if (jb.failat < 0 && good) {
                // what the library's own type queries say about the file just written
                if (jb.fmt == "ovmb") {
                    FailIn buf(out, (size_t)-1, 0);
                    std::istream is(&buf);
                    auto rd = IO::make_ovmb_reader(is, IO::ReadOptions(), IO::g_default_property_codecs);
                    auto tt = rd->topo_type();
                    j.kv("rtt", tt.has_value() ? (long long)static_cast<uint8_t>(*tt) : -1LL);
                } else {
                    char path[64]; snprintf(path, sizeof path, "/tmp/io_exec.%d.ovm", (int)getpid());
                    { std::ofstream f(path, std::ios::binary); f.write((const char *)out.data(), (std::streamsize)out.size()); }
                    IO::FileManager fm; fm.setVerbosityLevel(0);
                    j.kv("ishex", fm.isHexahedralMesh(path)); j.kv("istet", fm.isTetrahedralMesh(path));
                    unlink(path);
                }
            }
            j.key("bytes"); put_bytes(j, out);
            j.end_obj();
            return 0;
        });
    } else if (jb.kind == 'T') {
        const MeshDef &d = meshes.at(jb.mesh);
        with_mesh(d.type, [&](auto &m1) {
            build(m1, d);
            {   // the source mesh goes out first: it is on record even if a later step dies
                Json pre; job_header(pre, "tripm", jb); pre.kv("mt1", d.type); pre.key("m1"); dump_mesh(pre, m1); pre.end_obj();
                pre.s += '\n';
                ssize_t w = write(1, pre.s.data(), pre.s.size()); (void)w;
            }
            job_header(j, "trip", jb);
            j.kv("mt1", d.type);
            j.key("m1"); dump_mesh(j, m1);
            g_sh->phase = 1;
            Bytes b1; bool good = false;
            std::string w1 = do_write(m1, jb.fmt, "auto", -1, 0, b1, good);
            j.kv("w1", w1); j.key("b1"); put_bytes(j, b1);
            if (w1 != "Ok") { j.end_obj(); return 0; }
            with_mesh(jb.mt, [&](auto &m2) {
                g_sh->phase = 3;
                std::string r1 = do_read(m2, jb.fmt, jb.tc, jb.bu, b1, -1, 0);
                j.kv("r1", r1);
                if (r1 != "Ok") return 0;
                g_sh->phase = 4;
                j.key("m2"); dump_mesh(j, m2);
                Bytes b2;
                std::string w2 = do_write(m2, jb.fmt, "auto", -1, 0, b2, good);
                j.kv("w2", w2); j.key("b2"); put_bytes(j, b2);
                if (w2 != "Ok") return 0;
                with_mesh(jb.mt, [&](auto &m3) {
                    g_sh->phase = 5;
                    std::string r2 = do_read(m3, jb.fmt, jb.tc, jb.bu, b2, -1, 0);
                    j.kv("r2", r2);
                    if (r2 != "Ok") return 0;
                    g_sh->phase = 6;
                    j.key("m3"); dump_mesh(j, m3);
                    Bytes b3;
                    std::string w3 = do_write(m3, jb.fmt, "auto", -1, 0, b3, good);
                    j.kv("w3", w3); j.key("b3"); put_bytes(j, b3);
                    return 0;
                });
                return 0;
            });
            j.end_obj();
            return 0;
        });
    }
    j.s += '\n';
    size_t off = 0;
    while (off < j.s.size()) {
        ssize_t w = write(1, j.s.data() + off, j.s.size() - off);
        if (w <= 0) _exit(4);
        off += (size_t)w;
    }
}

// ------------------------------------------------------------ main loop
static long g_timeout_ms = 10000, g_as_mb = 2048;

static std::string read_tail(const char *path, size_t n) {
    std::ifstream f(path, std::ios::binary);
    if (!f) return "";
    std::string s((std::istreambuf_iterator<char>(f)), std::istreambuf_iterator<char>());
    // the head names the error, the tail holds the frames nearest to main
    if (s.size() > n) s = s.substr(0, n / 2) + "\n...\n" + s.substr(s.size() - n / 2);
    return s;
}

int main(int argc, char **argv) {
    if (argc < 2) { fprintf(stderr, "usage: io_exec jobs.txt\n"); return 2; }
    std::ifstream in(argv[1]);
    if (!in) { fprintf(stderr, "cannot open %s\n", argv[1]); return 2; }
    g_sh = (Shared *)mmap(nullptr, sizeof(Shared), PROT_READ | PROT_WRITE, MAP_SHARED | MAP_ANONYMOUS, -1, 0);
    char errpath[64]; snprintf(errpath, sizeof errpath, "/tmp/io_exec.%d.err", (int)getpid());
    std::map<std::string, MeshDef> meshes;
    MeshDef *cur = nullptr;
    std::string line;
    long njobs = 0;
    while (std::getline(in, line)) {
        if (line.empty() || line[0] == '#') continue;
        std::istringstream ss(line);
        std::string tag; ss >> tag;
        if (cur) {
            if (tag == ".") { cur = nullptr; continue; }
            Step s; s.op = tag[0];
            if (s.op == 'v') { for (int i = 0; i < 3; ++i) { std::string h; ss >> h; s.bits.push_back(strtoull(h.c_str(), nullptr, 16)); } }
            else if (s.op == 'p') {
                std::string k, nm, df; size_t n = 0;
                ss >> k >> s.prop.type >> nm >> df >> n;
                if (!kind_from(k, s.prop.kind)) { fprintf(stderr, "bad kind %s\n", k.c_str()); return 3; }
                s.prop.name = unhex(nm); s.prop.def = unhex(df);
                for (size_t i = 0; i < n; ++i) { std::string v; ss >> v; s.prop.vals.push_back(unhex(v)); }
            } else if (s.op == 'D') { std::string k; long long i; ss >> k >> i; s.a.push_back(k[0]); s.a.push_back(i); }
            else { long long x; while (ss >> x) s.a.push_back(x); }
            cur->steps.push_back(std::move(s));
            continue;
        }
        if (tag == "M") { std::string n, t; ss >> n >> t; meshes[n] = MeshDef{n, t, {}}; cur = &meshes[n]; continue; }
        if (tag == "O") { std::string kv; ss >> kv; auto eq = kv.find('=');
            if (eq != std::string::npos) { std::string k = kv.substr(0, eq); long v = atol(kv.c_str() + eq + 1);
                if (k == "timeout_ms") g_timeout_ms = v; else if (k == "as_mb") g_as_mb = v; }
            continue; }
        Job jb; jb.kind = tag[0];
        int tc = 0, bu = 0;
        if (tag == "W") { ss >> jb.id >> jb.mesh >> jb.fmt >> jb.tt >> jb.failat >> jb.failmode; }
        else if (tag == "R") { std::string hex; ss >> jb.id >> jb.fmt >> jb.mt >> tc >> bu >> jb.failat >> jb.failmode >> hex; jb.bytes = unhex(hex); }
        else if (tag == "T") { ss >> jb.id >> jb.mesh >> jb.fmt >> jb.mt >> tc >> bu; }
        else { fprintf(stderr, "io_exec: bad line: %s\n", line.c_str()); return 3; }
        jb.tc = tc != 0; jb.bu = bu != 0;
        if ((jb.kind == 'W' || jb.kind == 'T') && !meshes.count(jb.mesh)) { fprintf(stderr, "io_exec: unknown mesh %s\n", jb.mesh.c_str()); return 3; }
        ++njobs;
        g_sh->phase = 0;
        fflush(stdout);
        pid_t pid = fork();
        if (pid < 0) { perror("fork"); return 3; }
        if (pid == 0) {
            int fd = open(errpath, O_WRONLY | O_CREAT | O_TRUNC, 0600);
            if (fd >= 0) { dup2(fd, 2); close(fd); }
#ifndef VX_ASAN
            struct rlimit rl; rl.rlim_cur = rl.rlim_max = (rlim_t)g_as_mb << 20; setrlimit(RLIMIT_AS, &rl);
#endif
            struct itimerval tv; memset(&tv, 0, sizeof tv);
            tv.it_value.tv_sec = g_timeout_ms / 1000; tv.it_value.tv_usec = (g_timeout_ms % 1000) * 1000;
            setitimer(ITIMER_REAL, &tv, nullptr);
            run_job(jb, meshes);
            _exit(0);
        }
        int st = 0;
        waitpid(pid, &st, 0);
        bool clean = WIFEXITED(st) && WEXITSTATUS(st) == 0;
        if (!clean) {
            bool timeout = WIFSIGNALED(st) && WTERMSIG(st) == SIGALRM;
            std::string tail = read_tail(errpath, 2400);
            Json j;
            if (jb.kind == 'W' || jb.kind == 'T') jb.mt = meshes.at(jb.mesh).type;
            job_header(j, jb.kind == 'R' ? "read" : jb.kind == 'W' ? "write" : "trip", jb);
            j.kv("res", timeout ? "Timeout" : "Crash");
            j.kv("died", true);
            j.kv("status", (long long)(WIFEXITED(st) ? WEXITSTATUS(st) : 1000 + WTERMSIG(st)));
            j.kv("phase", (long long)g_sh->phase);
            j.kv("stderr", tail);
            if (jb.kind == 'R') { j.key("bytes"); put_bytes(j, jb.bytes); }
            else j.kv("meshname", jb.mesh);
            j.end_obj(); vx::emit(j);
        }
    }
    if (!getenv("VX_KEEP_ERR")) unlink(errpath);
    Json j; j.begin_obj(); j.kv("e", "end"); j.kv("jobs", (long long)njobs); j.end_obj(); vx::emit(j);
    return 0;
}
