// readers_exec: runs TLC-generated programs of CONST queries against one fixed
// mesh, single-threaded and with N concurrent std::threads, and records every
// answer of every thread plus the full projection of the mesh before and
// after.  No expected values, no oracle logic: spec/OVMReadersTrace.tla decides
// (determinism: every concurrent answer equals the single-threaded answer;
// frame condition: the projection is unchanged).  Built also with
// -fsanitize=thread (variant 'tsan') so that a data race between const
// queries is observed while the spec-generated programs run.
//
// Script (text, produced from TLC's JSON by bin/vecread_check.py, pure reformatting):
//   M <meshname>                       build the mesh of the catalogue, log {"e":"mesh",...}
//   Q <op> <a> <b> <c> <n> <l1..ln>    append a query to the alphabet of the current mesh
//   T <caseid> <nthreads> <reps> <free|lock>   run a case; followed by <nthreads> lines
//   P <len> <i1..ilen>                 program of one thread: indices into the alphabet
// Every case runs in a forked child, so that a crash of the library under
// concurrent const queries (heap corruption by a racing scratch buffer, ...)
// ends that case only and is RECORDED ({"e":"crash",...}, with the phase it
// happened in and whether the same programs run to completion when replayed
// on one thread); the remaining cases still run.
// Every query is evaluated through a `const MeshT &` (and const property
// handles): the compiler guarantees that only const members are called.
#include "ovm_state.hh"

#include <array>
#include <atomic>
#include <cctype>
#include <csignal>
#include <sys/mman.h>
#include <sys/wait.h>
#include <optional>
#include <thread>
#include <set>

// ------------------------------------------------------------------ answers
// an answer is the text of a JSON array of integers / strings
struct Out {
    std::string s = "[";
    bool first = true;
    void sep() { if (!first) s += ','; first = false; }
    void i(long long v) { sep(); s += std::to_string(v); }
    void b(bool v) { i(v ? 1 : 0); }
    void d(double v) { char buf[40]; snprintf(buf, sizeof buf, "\"%.17g\"", v); sep(); s += buf; }
    void str(const std::string &v) { sep(); s += '"'; for (char c : v) { if (c == '"' || c == '\\') s += '\\'; s += c; } s += '"'; }
    template <class V> void vec(const V &v) { for (size_t k = 0; k < v.size(); ++k) d((double)v[k]); }
    std::string done() { return s + "]"; }
};

struct Query { std::string op; int a = 0, b = 0, c = 0; std::vector<int> l; };

struct ICtx {
    std::string name, type;
    std::vector<Query> alpha;
    virtual ~ICtx() = default;
    virtual std::string eval(const Query &q) const = 0;
    virtual void dump(Json &j) const = 0;
};

template <class H> static std::vector<H> hs(const std::vector<int> &l) { std::vector<H> r; for (int x : l) r.emplace_back(x); return r; }

// ------------------------------------------------------------------ one mesh
template <class MeshT>
struct Ctx : ICtx {
    MeshBox box;                 // owns the mesh (type-erased) for the shared projection code
    MeshT *mesh = nullptr;
    std::optional<PropertyPtr<int, Entity::Vertex>> p_vi;
    std::optional<PropertyPtr<double, Entity::Edge>> p_ed;
    std::optional<PropertyPtr<bool, Entity::HalfEdge>> p_heb;
    std::optional<PropertyPtr<std::string, Entity::Face>> p_fs;
    std::optional<PropertyPtr<Vec3d, Entity::HalfFace>> p_hfv;
    std::optional<PropertyPtr<bool, Entity::Cell>> p_cb;
    std::optional<PropertyPtr<int, Entity::Mesh>> p_mi;

    static constexpr bool is_tet = std::is_base_of<TetrahedralMeshTopologyKernel, MeshT>::value;
    static constexpr bool is_hex = std::is_base_of<HexahedralMeshTopologyKernel, MeshT>::value;

    Ctx() {
        auto *m = new MeshT();
        box.owner.reset(m); box.m = m; mesh = m;
    }
    void make_props() {
        MeshT &m = *mesh;
        p_vi = m.template request_property<int, Entity::Vertex>("rd:vi", -1);
        p_ed = m.template request_property<double, Entity::Edge>("rd:ed", -0.5);
        p_heb = m.template request_property<bool, Entity::HalfEdge>("rd:heb", false);
        p_fs = m.template request_property<std::string, Entity::Face>("rd:fs", "dflt");
        p_hfv = m.template request_property<Vec3d, Entity::HalfFace>("rd:hfv", Vec3d(9, 9, 9));
        p_cb = m.template request_property<bool, Entity::Cell>("rd:cb", false);
        p_mi = m.template request_property<int, Entity::Mesh>("rd:mi", 0);
        for (size_t i = 0; i < m.n_vertices(); ++i) (*p_vi)[VertexHandle((int)i)] = (int)(7 * i + 3);
        for (size_t i = 0; i < m.n_edges(); ++i) (*p_ed)[EdgeHandle((int)i)] = (double)i + 0.25;
        for (size_t i = 0; i < m.n_halfedges(); ++i) (*p_heb)[HalfEdgeHandle((int)i)] = (i * 2654435761u >> 7) & 1;
        for (size_t i = 0; i < m.n_faces(); ++i) (*p_fs)[FaceHandle((int)i)] = "f" + std::to_string(i * i);
        for (size_t i = 0; i < m.n_halffaces(); ++i) (*p_hfv)[HalfFaceHandle((int)i)] = Vec3d((double)i, 0.5 * (double)i, -(double)i);
        for (size_t i = 0; i < m.n_cells(); ++i) (*p_cb)[CellHandle((int)i)] = (i % 3) != 1;
        (*p_mi)[MeshHandle(0)] = 4711;
    }

    // ---- the full projection: shared state dump + positions + the reader properties
    void dump(Json &j) const override {
        const MeshT &m = *mesh;
        j.begin_obj();
        j.key("st"); dump_state(j, box, true, false);
        j.key("pos"); j.begin_arr();
        for (size_t i = 0; i < m.n_vertices(); ++i) { auto const &p = m.vertex(VertexHandle((int)i)); j.begin_arr(); for (int k = 0; k < 3; ++k) j.val((long long)p[(size_t)k]); j.end_arr(); }
        j.end_arr();
        // one upward circulator per incidence kind: valid at construction?  (a const query must not change that)
        j.key("up"); j.begin_arr();
        j.val(m.n_vertices() > 0 ? (bool)m.voh_iter(VertexHandle(0)).valid() : false);
        j.val(m.n_halfedges() > 0 ? (bool)m.hehf_iter(HalfEdgeHandle(0)).valid() : false);
        j.val(m.n_cells() > 0 ? (bool)m.cc_iter(CellHandle(0)).valid() : false);
        j.end_arr();
        j.key("rp"); j.begin_obj();
        j.key("vi"); j.begin_arr(); for (auto x : p_vi->data_vector()) j.val((long long)x); j.end_arr();
        j.key("ed"); j.begin_arr(); for (auto x : p_ed->data_vector()) { char b[40]; snprintf(b, sizeof b, "%.17g", x); j.val(std::string(b)); } j.end_arr();
        j.key("heb"); j.begin_arr(); for (bool x : p_heb->data_vector()) j.val((long long)(x ? 1 : 0)); j.end_arr();
        j.key("fs"); j.begin_arr(); for (auto const &x : p_fs->data_vector()) j.val(x); j.end_arr();
        j.key("hfv"); j.begin_arr(); for (auto const &x : p_hfv->data_vector()) { char b[100]; snprintf(b, sizeof b, "%.17g %.17g %.17g", x[0], x[1], x[2]); j.val(std::string(b)); } j.end_arr();
        j.key("cb"); j.begin_arr(); for (bool x : p_cb->data_vector()) j.val((long long)(x ? 1 : 0)); j.end_arr();
        j.key("mi"); j.begin_arr(); for (auto x : p_mi->data_vector()) j.val((long long)x); j.end_arr();
        j.end_obj();
        j.end_obj();
    }

    template <class It> static void walk(Out &o, It it) { for (; it.valid(); ++it) o.i((*it).idx()); }
    template <class Range> static void range(Out &o, const Range &r) { for (auto it = r.first; it != r.second; ++it) o.i((*it).idx()); }

    std::string eval(const Query &q) const override {
        const MeshT &m = *mesh;                       // const access only
        const std::string &op = q.op;
        Out o;
        const VertexHandle v(q.a); const EdgeHandle e(q.a); const HalfEdgeHandle he(q.a);
        const FaceHandle f(q.a); const HalfFaceHandle hf(q.a); const CellHandle c(q.a);
        const int laps = q.b > 0 ? q.b : 1;
        // ---- counts
        if (op == "counts") { o.i((long long)m.n_vertices()); o.i((long long)m.n_edges()); o.i((long long)m.n_halfedges()); o.i((long long)m.n_faces()); o.i((long long)m.n_halffaces()); o.i((long long)m.n_cells());
                              o.i((long long)m.n_logical_vertices()); o.i((long long)m.n_logical_edges()); o.i((long long)m.n_logical_faces()); o.i((long long)m.n_logical_cells());
                              o.i(m.genus()); o.b(m.needs_garbage_collection()); return o.done(); }
        // ---- entity iterators
        if (op == "it_v") { for (auto x : m.vertices()) o.i(x.idx()); return o.done(); }
        if (op == "it_e") { for (auto x : m.edges()) o.i(x.idx()); return o.done(); }
        if (op == "it_he") { for (auto x : m.halfedges()) o.i(x.idx()); return o.done(); }
        if (op == "it_f") { for (auto x : m.faces()) o.i(x.idx()); return o.done(); }
        if (op == "it_hf") { for (auto x : m.halffaces()) o.i(x.idx()); return o.done(); }
        if (op == "it_c") { for (auto x : m.cells()) o.i(x.idx()); return o.done(); }
        if (op == "it_e2") { for (auto it = m.edges_begin(); it != m.edges_end(); ++it) o.i((*it).idx()); return o.done(); }
        if (op == "it_he2") { for (auto it = m.halfedges_begin(); it != m.halfedges_end(); ++it) o.i((*it).idx()); return o.done(); }
        if (op == "it_f2") { for (auto it = m.faces_begin(); it != m.faces_end(); ++it) o.i((*it).idx()); return o.done(); }
        if (op == "it_hf2") { for (auto it = m.halffaces_begin(); it != m.halffaces_end(); ++it) o.i((*it).idx()); return o.done(); }
        if (op == "it_c3") { for (auto it = m.cells_begin(); it != m.cells_end(); ++it) o.i((*it).idx()); return o.done(); }
        if (op == "it_v3") { walk(o, m.v_iter()); return o.done(); }
        if (op == "it_e3") { walk(o, m.e_iter()); return o.done(); }
        if (op == "it_he3") { walk(o, m.he_iter()); return o.done(); }
        if (op == "it_f3") { walk(o, m.f_iter()); return o.done(); }
        if (op == "it_hf3") { walk(o, m.hf_iter()); return o.done(); }
        if (op == "it_v2") { for (auto it = m.vertices_begin(); it != m.vertices_end(); ++it) o.i((*it).idx()); return o.done(); }
        if (op == "it_c2") { for (auto it = m.c_iter(); it.valid(); ++it) o.i((*it).idx()); return o.done(); }
        if (op == "bit_v") { walk(o, m.bv_iter()); return o.done(); }
        if (op == "bit_he") { walk(o, m.bhe_iter()); return o.done(); }
        if (op == "bit_e") { walk(o, m.be_iter()); return o.done(); }
        if (op == "bit_hf") { walk(o, m.bhf_iter()); return o.done(); }
        if (op == "bit_f") { walk(o, m.bf_iter()); return o.done(); }
        if (op == "bit_c") { walk(o, m.bc_iter()); return o.done(); }
        // ---- circulators
        if (op == "vv") { walk(o, m.vv_iter(v, laps)); return o.done(); }
        if (op == "voh") { walk(o, m.voh_iter(v, laps)); return o.done(); }
        if (op == "vih") { walk(o, m.vih_iter(v, laps)); return o.done(); }
        if (op == "ve") { walk(o, m.ve_iter(v, laps)); return o.done(); }
        if (op == "vhf") { walk(o, m.vhf_iter(v, laps)); return o.done(); }
        if (op == "vf") { walk(o, m.vf_iter(v, laps)); return o.done(); }
        if (op == "vc") { walk(o, m.vc_iter(v, laps)); return o.done(); }
        if (op == "vc_r") { range(o, m.vertex_cells(v)); return o.done(); }
        // the range forms (pair of begin / end circulator)
        if (op == "vv_r") { range(o, m.vertex_vertices(v)); return o.done(); }
        if (op == "voh_r") { range(o, m.outgoing_halfedges(v)); return o.done(); }
        if (op == "vih_r") { range(o, m.incoming_halfedges(v)); return o.done(); }
        if (op == "ve_r") { range(o, m.vertex_edges(v)); return o.done(); }
        if (op == "vhf_r") { range(o, m.vertex_halffaces(v)); return o.done(); }
        if (op == "vf_r") { range(o, m.vertex_faces(v)); return o.done(); }
        if (op == "hehf_r") { range(o, m.halfedge_halffaces(he)); return o.done(); }
        if (op == "hef_r") { range(o, m.halfedge_faces(he)); return o.done(); }
        if (op == "hec_r") { range(o, m.halfedge_cells(he)); return o.done(); }
        if (op == "ehf_r") { range(o, m.edge_halffaces(e)); return o.done(); }
        if (op == "ef_r") { range(o, m.edge_faces(e)); return o.done(); }
        if (op == "ec_r") { range(o, m.edge_cells(e)); return o.done(); }
        if (op == "hfhe_r") { range(o, m.halfface_halfedges(hf)); return o.done(); }
        if (op == "hfe_r") { range(o, m.halfface_edges(hf)); return o.done(); }
        if (op == "hfv_r") { range(o, m.halfface_vertices(hf)); return o.done(); }
        if (op == "fv_r") { range(o, m.face_vertices(f)); return o.done(); }
        if (op == "fhe_r") { range(o, m.face_halfedges(f)); return o.done(); }
        if (op == "fe_r") { range(o, m.face_edges(f)); return o.done(); }
        if (op == "che_r") { range(o, m.cell_halfedges(c)); return o.done(); }
        if (op == "ce_r") { range(o, m.cell_edges(c)); return o.done(); }
        if (op == "chf_r") { range(o, m.cell_halffaces(c)); return o.done(); }
        if (op == "cf_r") { range(o, m.cell_faces(c)); return o.done(); }
        if (op == "bhfhf_r") { range(o, m.boundary_halfface_halffaces(hf)); return o.done(); }
        if (op == "hehf") { walk(o, m.hehf_iter(he, laps)); return o.done(); }
        if (op == "hef") { walk(o, m.hef_iter(he, laps)); return o.done(); }
        if (op == "hec") { walk(o, m.hec_iter(he, laps)); return o.done(); }
        if (op == "ehf") { walk(o, m.ehf_iter(e, laps)); return o.done(); }
        if (op == "ef") { walk(o, m.ef_iter(e, laps)); return o.done(); }
        if (op == "ec") { walk(o, m.ec_iter(e, laps)); return o.done(); }
        if (op == "hfhe") { walk(o, m.hfhe_iter(hf, laps)); return o.done(); }
        if (op == "hfe") { walk(o, m.hfe_iter(hf, laps)); return o.done(); }
        if (op == "hfv") { walk(o, m.hfv_iter(hf, laps)); return o.done(); }
        if (op == "fv") { walk(o, m.fv_iter(f, laps)); return o.done(); }
        if (op == "fhe") { walk(o, m.fhe_iter(f, laps)); return o.done(); }
        if (op == "fe") { walk(o, m.fe_iter(f, laps)); return o.done(); }
        if (op == "cv") { walk(o, m.cv_iter(c, laps)); return o.done(); }
        if (op == "che") { walk(o, m.che_iter(c, laps)); return o.done(); }
        if (op == "ce") { walk(o, m.ce_iter(c, laps)); return o.done(); }
        if (op == "chf") { walk(o, m.chf_iter(c, laps)); return o.done(); }
        if (op == "cf") { walk(o, m.cf_iter(c, laps)); return o.done(); }
        if (op == "cc") { walk(o, m.cc_iter(c, laps)); return o.done(); }
        if (op == "cc_r") { range(o, m.cell_cells(c)); return o.done(); }
        if (op == "cv_r") { range(o, m.cell_vertices(c)); return o.done(); }
        if (op == "bhfhf") { walk(o, m.bhfhf_iter(hf, laps)); return o.done(); }
        // ---- definitions
        if (op == "edge") { auto const &x = m.edge(e); o.i(x.from_vertex().idx()); o.i(x.to_vertex().idx()); return o.done(); }
        if (op == "halfedge") { auto x = m.halfedge(he); o.i(x.from_vertex().idx()); o.i(x.to_vertex().idx()); return o.done(); }
        if (op == "from_to") { o.i(m.from_vertex_handle(he).idx()); o.i(m.to_vertex_handle(he).idx()); return o.done(); }
        if (op == "face") { for (auto h : m.face(f).halfedges()) o.i(h.idx()); return o.done(); }
        if (op == "halfface") { for (auto h : m.halfface(hf).halfedges()) o.i(h.idx()); return o.done(); }
        if (op == "opp_hf") { for (auto h : m.opposite_halfface(hf).halfedges()) o.i(h.idx()); return o.done(); }
        if (op == "cell") { for (auto h : m.cell(c).halffaces()) o.i(h.idx()); return o.done(); }
        if (op == "e_verts") { for (auto x : m.edge_vertices(e)) o.i(x.idx()); for (auto x : m.edge_halfedges(e)) o.i(x.idx()); return o.done(); }
        if (op == "he_verts") { for (auto x : m.halfedge_vertices(he)) o.i(x.idx()); return o.done(); }
        if (op == "f_hfs") { for (auto x : m.face_halffaces(f)) o.i(x.idx()); for (auto x : m.face_cells(f)) o.i(x.idx()); return o.done(); }
        // ---- lookups
        if (op == "find_he") { o.i(m.find_halfedge(VertexHandle(q.a), VertexHandle(q.b)).idx()); return o.done(); }
        if (op == "find_hf") { o.i(m.find_halfface(hs<VertexHandle>(q.l)).idx()); return o.done(); }
        if (op == "find_hf_ext") { o.i(m.find_halfface_extensive(hs<VertexHandle>(q.l)).idx()); return o.done(); }
        if (op == "find_hf_he") { o.i(m.find_halfface(hs<HalfEdgeHandle>(q.l)).idx()); return o.done(); }
        if (op == "find_he_in_cell") { o.i(m.find_halfedge_in_cell(VertexHandle(q.a), VertexHandle(q.b), CellHandle(q.c)).idx()); return o.done(); }
        if (op == "find_hf_in_cell") { o.i(m.find_halfface_in_cell(hs<VertexHandle>(q.l), CellHandle(q.c)).idx()); return o.done(); }
        if (op == "next_he") { o.i(m.next_halfedge_in_halfface(HalfEdgeHandle(q.a), HalfFaceHandle(q.b)).idx()); return o.done(); }
        if (op == "prev_he") { o.i(m.prev_halfedge_in_halfface(HalfEdgeHandle(q.a), HalfFaceHandle(q.b)).idx()); return o.done(); }
        if (op == "adj_hf") { o.i(m.adjacent_halfface_in_cell(HalfFaceHandle(q.a), HalfEdgeHandle(q.b)).idx()); return o.done(); }
        if (op == "inc_cell") { o.i(m.incident_cell(hf).idx()); return o.done(); }
        if (op == "hf_verts") { for (auto x : m.get_halfface_vertices(hf)) o.i(x.idx()); return o.done(); }
        if (op == "hf_verts_v") { for (auto x : m.get_halfface_vertices(HalfFaceHandle(q.a), VertexHandle(q.b))) o.i(x.idx()); return o.done(); }
        if (op == "hf_verts_he") { for (auto x : m.get_halfface_vertices(HalfFaceHandle(q.a), HalfEdgeHandle(q.b))) o.i(x.idx()); return o.done(); }
        if (op == "is_incident") { o.b(m.is_incident(FaceHandle(q.a), EdgeHandle(q.b))); return o.done(); }
        if (op == "opp_he") { auto x = m.opposite_halfedge(he); o.i(x.from_vertex().idx()); o.i(x.to_vertex().idx()); o.i(m.opposite_halfedge_handle(he).idx()); return o.done(); }
        if (op == "flags") { o.b(m.has_vertex_bottom_up_incidences()); o.b(m.has_edge_bottom_up_incidences()); o.b(m.has_face_bottom_up_incidences());
                             o.b(m.has_full_bottom_up_incidences()); o.b(m.deferred_deletion_enabled()); o.b(m.fast_deletion_enabled()); return o.done(); }
        if (op == "vpos_all") { for (auto const &p : m.vertex_positions()) o.vec(p); return o.done(); }
        if (op == "n_verts_in_cell") { o.i((long long)m.n_vertices_in_cell(c)); return o.done(); }
        // ---- boundary, valence, flags
        if (op == "bnd_v") { o.b(m.is_boundary(v)); return o.done(); }
        if (op == "bnd_e") { o.b(m.is_boundary(e)); return o.done(); }
        if (op == "bnd_he") { o.b(m.is_boundary(he)); return o.done(); }
        if (op == "bnd_f") { o.b(m.is_boundary(f)); return o.done(); }
        if (op == "bnd_hf") { o.b(m.is_boundary(hf)); return o.done(); }
        if (op == "bnd_c") { o.b(m.is_boundary(c)); return o.done(); }
        if (op == "val_v") { o.i((long long)m.valence(v)); return o.done(); }
        if (op == "val_e") { o.i((long long)m.valence(e)); return o.done(); }
        if (op == "val_f") { o.i((long long)m.valence(f)); return o.done(); }
        if (op == "val_c") { o.i((long long)m.valence(c)); return o.done(); }
        if (op == "del_v") { o.b(m.is_deleted(v)); o.b(m.is_valid(v)); return o.done(); }
        if (op == "del_e") { o.b(m.is_deleted(e)); o.b(m.is_valid(e)); return o.done(); }
        if (op == "del_he") { o.b(m.is_deleted(he)); return o.done(); }
        if (op == "del_f") { o.b(m.is_deleted(f)); o.b(m.is_valid(f)); return o.done(); }
        if (op == "del_hf") { o.b(m.is_deleted(hf)); return o.done(); }
        if (op == "del_c") { o.b(m.is_deleted(c)); o.b(m.is_valid(c)); return o.done(); }
        // ---- positions and geometry
        if (op == "pos") { o.vec(m.vertex(v)); return o.done(); }
        if (op == "vec_he") { o.vec(m.vector(he)); o.d(m.length(he)); return o.done(); }
        if (op == "len_e") { o.d(m.length(e)); o.vec(m.vector(e)); return o.done(); }
        if (op == "bary_e") { o.vec(m.barycenter(e)); return o.done(); }
        if (op == "bary_f") { o.vec(m.barycenter(f)); return o.done(); }
        if (op == "bary_c") { o.vec(m.barycenter(c)); return o.done(); }
        if (op == "normal") { o.vec(m.normal(hf)); return o.done(); }
        // ---- property values through existing handles
        if (op == "p_vi") { const auto &p = *p_vi; o.i(p[v]); return o.done(); }
        if (op == "p_ed") { const auto &p = *p_ed; o.d(p[e]); return o.done(); }
        if (op == "p_heb") { const auto &p = *p_heb; o.b(p[he]); return o.done(); }
        if (op == "p_fs") { const auto &p = *p_fs; o.str(p[f]); return o.done(); }
        if (op == "p_hfv") { const auto &p = *p_hfv; Vec3d x = p[hf]; o.vec(x); return o.done(); }
        if (op == "p_cb") { const auto &p = *p_cb; o.b(p[c]); return o.done(); }
        if (op == "p_mi") { const auto &p = *p_mi; o.i(p[MeshHandle(0)]); return o.done(); }
        if (op == "pc_vi") { PropertyPtr<int, Entity::Vertex> cp = *p_vi; const auto &ccp = cp; o.i(ccp[v]); o.i((long long)ccp.size()); return o.done(); }   // copy of the handle
        if (op == "pc_fs") { PropertyPtr<std::string, Entity::Face> cp = *p_fs; const auto &ccp = cp; std::string val = ccp[f]; o.str(val); return o.done(); }
        if (op == "p_all_vi") { const auto &p = *p_vi; for (auto it = p.begin(); it != p.end(); ++it) o.i(*it); return o.done(); }
        if (op == "p_all_cb") { const auto &p = *p_cb; for (bool x : p.data_vector()) o.b(x); return o.done(); }
        if (op == "p_get") { auto g = m.template get_property<int, Entity::Vertex>("rd:vi"); o.b(g.has_value()); if (g) { const auto &p = *g; o.i(p[v]); } return o.done(); }
        if (op == "p_meta") { const auto &p = *p_ed; o.str(p.name()); o.i((long long)p.size()); o.b(p.persistent()); o.b(p.shared()); o.d(p.def()); o.b((bool)p); return o.done(); }
        if (op == "p_exists") { o.b(m.template property_exists<int, Entity::Vertex>("rd:vi")); o.b(m.template property_exists<int, Entity::Vertex>("rd:none"));
                                o.i((long long)m.template n_props<Entity::Vertex>()); o.i((long long)m.template n_persistent_props<Entity::Vertex>()); return o.done(); }
        // ---- specialised kernels
        if constexpr (is_tet) {
            if (op == "tet_cv") { for (auto x : m.get_cell_vertices(c)) o.i(x.idx()); return o.done(); }
            if (op == "tet_cv_v") { for (auto x : m.get_cell_vertices(CellHandle(q.a), VertexHandle(q.b))) o.i(x.idx()); return o.done(); }
            if (op == "tet_cv_hf") { for (auto x : m.get_cell_vertices(hf)) o.i(x.idx()); return o.done(); }
            if (op == "tet_opp_v") { o.i(m.halfface_opposite_vertex(hf).idx()); return o.done(); }
            if (op == "tet_opp_hf") { o.i(m.vertex_opposite_halfface(CellHandle(q.a), VertexHandle(q.b)).idx()); return o.done(); }
            if (op == "tet_cv_hf_he") { for (auto x : m.get_cell_vertices(HalfFaceHandle(q.a), HalfEdgeHandle(q.b))) o.i(x.idx()); return o.done(); }
            if (op == "tet_tv_r") { range(o, m.tet_vertices(c)); return o.done(); }
            if (op == "tet_tv") { walk(o, m.tv_iter(c, laps)); return o.done(); }
        }
        if constexpr (is_hex) {
            if (op == "hex_opp") { o.i(m.opposite_halfface_handle_in_cell(HalfFaceHandle(q.a), CellHandle(q.b)).idx()); return o.done(); }
            if (op == "hex_orient") { o.i((long long)m.orientation(HalfFaceHandle(q.a), CellHandle(q.b))); return o.done(); }
            if (op == "hex_dirs") { o.i(m.xfront_halfface(c).idx()); o.i(m.xback_halfface(c).idx()); o.i(m.yfront_halfface(c).idx()); o.i(m.yback_halfface(c).idx()); o.i(m.zfront_halfface(c).idx()); o.i(m.zback_halfface(c).idx()); return o.done(); }
            if (op == "hex_oriented") { o.i(m.get_oriented_halfface((unsigned char)q.b, CellHandle(q.a)).idx()); return o.done(); }
            if (op == "hex_neigh_out") { o.i(m.neighboring_outside_halfface(HalfFaceHandle(q.a), HalfEdgeHandle(q.b)).idx()); return o.done(); }
            if (op == "hex_hv_r") { range(o, m.hex_vertices(c)); return o.done(); }
            if (op == "hex_csc_r") { range(o, m.cell_sheet_cells(CellHandle(q.a), (unsigned char)q.b)); return o.done(); }
            if (op == "hex_hfshf_r") { range(o, m.halfface_sheet_halffaces(hf)); return o.done(); }
            if (op == "hex_hv") { walk(o, m.hv_iter(c, laps)); return o.done(); }
            if (op == "hex_csc") { walk(o, m.csc_iter(CellHandle(q.a), (unsigned char)q.b)); return o.done(); }
            if (op == "hex_hfshf") { walk(o, m.hfshf_iter(hf)); return o.done(); }
            if (op == "hex_adj_sheet") { o.i(m.adjacent_halfface_on_sheet(HalfFaceHandle(q.a), HalfEdgeHandle(q.b)).idx()); return o.done(); }
            if (op == "hex_adj_surf") { o.i(m.adjacent_halfface_on_surface(HalfFaceHandle(q.a), HalfEdgeHandle(q.b)).idx()); return o.done(); }
        }
        fprintf(stderr, "readers_exec: query '%s' is not implemented for mesh type %s\n", op.c_str(), type.c_str());
        _exit(3);
    }
};

// ------------------------------------------------------------------ catalogue
static std::vector<VertexHandle> vl(std::initializer_list<int> l) { std::vector<VertexHandle> r; for (int x : l) r.emplace_back(x); return r; }
[[noreturn]] static void build_failed(const std::string &n, const char *what) { fprintf(stderr, "readers_exec: building mesh %s failed: %s\n", n.c_str(), what); exit(3); }

template <class MeshT> static void add_tetfan(MeshT &m, const std::string &n) {
    using P = typename MeshT::PointT;
    const int pts[7][3] = {{0, 0, 0}, {0, 0, 2}, {2, 0, 1}, {0, 2, 1}, {-2, 0, 1}, {0, -2, 1}, {3, 3, 1}};
    for (auto &p : pts) m.add_vertex(P(p[0], p[1], p[2]));
    const int tets[5][4] = {{0, 1, 2, 3}, {0, 1, 3, 4}, {0, 1, 4, 5}, {0, 1, 5, 2}, {1, 2, 3, 6}};
    for (auto &t : tets) {
        CellHandle c;
        if constexpr (std::is_base_of<TetrahedralMeshTopologyKernel, MeshT>::value) c = m.add_cell(VertexHandle(t[0]), VertexHandle(t[1]), VertexHandle(t[2]), VertexHandle(t[3]), true);
        else {
            // faces (a,b,c) -> reuse an existing halfface where there is one
            const int fs[4][3] = {{t[0], t[1], t[2]}, {t[0], t[2], t[3]}, {t[0], t[3], t[1]}, {t[1], t[3], t[2]}};
            std::vector<HalfFaceHandle> hfs;
            for (auto &f : fs) {
                auto vs = vl({f[0], f[1], f[2]});
                HalfFaceHandle h = m.find_halfface(vs);
                if (!h.is_valid()) h = m.halfface_handle(m.add_face(vs), 0);
                hfs.push_back(h);
            }
            c = m.add_cell(hfs, true);
        }
        if (!c.is_valid()) build_failed(n, "add_cell returned an invalid handle");
    }
}

template <class MeshT> static void add_hexblock(MeshT &m, const std::string &n, int nx, int ny, int nz) {
    using P = typename MeshT::PointT;
    auto vid = [&](int i, int j, int k) { return (k * (ny + 1) + j) * (nx + 1) + i; };
    for (int k = 0; k <= nz; ++k) for (int j = 0; j <= ny; ++j) for (int i = 0; i <= nx; ++i) m.add_vertex(P(i, j, 2 * k));
    for (int k = 0; k < nz; ++k) for (int j = 0; j < ny; ++j) for (int i = 0; i < nx; ++i) {
        auto c = m.add_cell(vl({vid(i, j, k), vid(i + 1, j, k), vid(i + 1, j + 1, k), vid(i, j + 1, k),
                                vid(i, j, k + 1), vid(i, j + 1, k + 1), vid(i + 1, j + 1, k + 1), vid(i + 1, j, k + 1)}), true);
        if (!c.is_valid()) build_failed(n, "hex add_cell returned an invalid handle");
    }
}

template <class MeshT> static void add_polymix(MeshT &m, const std::string &n) {
    using P = typename MeshT::PointT;
    const int pts[14][3] = {{0, 0, 0}, {2, 0, 0}, {2, 2, 0}, {0, 2, 0}, {0, 0, 2}, {0, 2, 2}, {2, 2, 2}, {2, 0, 2}, {1, 1, 4},
                            {5, 0, 0}, {6, 0, 0}, {5, 1, 1}, {7, 2, 2}, {-3, -3, -3}};
    for (auto &p : pts) m.add_vertex(P(p[0], p[1], p[2]));
    std::vector<HalfFaceHandle> cube;
    for (auto f : {vl({3, 2, 1, 0}), vl({7, 6, 5, 4}), vl({1, 2, 6, 7}), vl({4, 5, 3, 0}), vl({1, 7, 4, 0}), vl({2, 3, 5, 6})}) cube.push_back(m.halfface_handle(m.add_face(f), 0));
    if (!m.add_cell(cube, true).is_valid()) build_failed(n, "cube");
    std::vector<HalfFaceHandle> pyr{m.opposite_halfface_handle(cube[1])};
    for (auto f : {vl({5, 4, 8}), vl({6, 5, 8}), vl({7, 6, 8}), vl({4, 7, 8})}) pyr.push_back(m.halfface_handle(m.add_face(f), 0));
    if (!m.add_cell(pyr, true).is_valid()) build_failed(n, "pyramid");
    m.add_face(vl({9, 10, 11}));                  // dangling face
    m.add_edge(VertexHandle(11), VertexHandle(12)); // dangling edge; vertex 13 is isolated
}

// "<base>#<v><e><f>": the base mesh with the bottom-up incidence kinds whose digit is 0 disabled before any reader starts
std::unique_ptr<ICtx> make_ctx(const std::string &fullname) {
    std::unique_ptr<ICtx> r;
    std::string name = fullname, cfg = "111";
    auto hash = fullname.find('#');
    if (hash != std::string::npos) { name = fullname.substr(0, hash); cfg = fullname.substr(hash + 1); }
    if (cfg.size() != 3) { fprintf(stderr, "readers_exec: bad incidence configuration in %s\n", fullname.c_str()); exit(3); }
    auto finish = [&](auto *c, const char *type) {
        c->name = fullname; c->type = type; c->box.type = type; c->make_props();
        if (cfg[0] == '0') c->mesh->enable_vertex_bottom_up_incidences(false);
        if (cfg[1] == '0') c->mesh->enable_edge_bottom_up_incidences(false);
        if (cfg[2] == '0') c->mesh->enable_face_bottom_up_incidences(false);
        r.reset(c); };
    if (name == "tet1") { auto *c = new Ctx<GeometricTetrahedralMeshV3d>(); auto &m = *c->mesh; using P = Vec3d;
        m.add_vertex(P(0, 0, 0)); m.add_vertex(P(2, 0, 0)); m.add_vertex(P(0, 2, 0)); m.add_vertex(P(0, 0, 2));
        if (!m.add_cell(VertexHandle(0), VertexHandle(1), VertexHandle(2), VertexHandle(3), true).is_valid()) build_failed(name, "add_cell");
        finish(c, "tet"); }
    else if (name == "tetfan") { auto *c = new Ctx<GeometricTetrahedralMeshV3d>(); add_tetfan(*c->mesh, name); finish(c, "tet"); }
    else if (name == "polyfan") { auto *c = new Ctx<GeometricPolyhedralMeshV3d>(); add_tetfan(*c->mesh, name); finish(c, "poly"); }
    else if (name == "polydel") { auto *c = new Ctx<GeometricPolyhedralMeshV3d>(); add_tetfan(*c->mesh, name);
        // pending (deferred) deletions: the mesh is in a state that needs garbage collection
        c->mesh->enable_deferred_deletion(true); c->mesh->delete_cell(CellHandle(4)); c->mesh->delete_face(FaceHandle(1));
        finish(c, "poly"); }
    else if (name == "polymix") { auto *c = new Ctx<GeometricPolyhedralMeshV3d>(); add_polymix(*c->mesh, name); finish(c, "poly"); }
    else if (name == "hex1") { auto *c = new Ctx<GeometricHexahedralMeshV3d>(); add_hexblock(*c->mesh, name, 1, 1, 1); finish(c, "hex"); }
    else if (name.rfind("hexblock", 0) == 0 && name.size() == 11) { auto *c = new Ctx<GeometricHexahedralMeshV3d>();
        add_hexblock(*c->mesh, name, name[8] - '0', name[9] - '0', name[10] - '0'); finish(c, "hex"); }
    else { fprintf(stderr, "readers_exec: unknown mesh %s\n", name.c_str()); exit(3); }
    return r;
}

// ------------------------------------------------------------------ running a case
static void put_proj(Json &j, const char *key, const ICtx &c) { j.key(key); c.dump(j); }

// progress of the current case, shared between the forked child and the parent:
// 1 single-threaded reference, 2 concurrent phase, 3 single-threaded again, 4 logged
static volatile int *g_phase = nullptr;
static void set_phase(int p) { if (g_phase) *g_phase = p; }

// the programs of a case, one after the other on ONE thread (same repetitions)
std::unique_ptr<ICtx> make_ctx(const std::string &name);
static void run_sequential_replay(const ICtx &ref, int reps, const std::vector<std::vector<int>> &progs) {
    std::unique_ptr<ICtx> fresh = make_ctx(ref.name);       // a fresh object, like the one the threads shared
    fresh->alpha = ref.alpha;
    const ICtx &ctx = *fresh;
    size_t sink = 0;
    for (auto const &p : progs)
        for (int r = 0; r < reps; ++r)
            for (int i : p) sink += ctx.eval(ctx.alpha[(size_t)i]).size();
    if (sink == (size_t)-1) fputs("", stderr);
}

std::unique_ptr<ICtx> make_ctx(const std::string &name);

// One case.  `ref` is the REFERENCE copy of the mesh (the parent's object, already used for the projection and
// for nothing the threads share); the object the reader threads share is built here, freshly, by the same
// construction code, and is NOT touched by any const query before the threads start: the first call of every
// query on that object comes from the concurrent threads (a lazily filled cache must show).
//   lockstep = false: threads run freely after a common start
//   lockstep = true : all threads (same program) meet at a barrier before every query, so that the first calls
//                     of one query on the shared object overlap
static void run_case(const ICtx &ref, long caseid, int reps, bool lockstep, const std::vector<std::vector<int>> &progs) {
    const size_t T = progs.size();
    std::set<int> used; for (auto const &p : progs) for (int i : p) used.insert(i);
    for (int i : used) if (i < 0 || (size_t)i >= ref.alpha.size()) { fprintf(stderr, "readers_exec: program index %d outside the alphabet\n", i); exit(3); }
    if (lockstep) for (auto const &p : progs) if (p.size() != progs[0].size()) { fprintf(stderr, "readers_exec: lockstep needs programs of equal length\n"); exit(3); }
    std::unique_ptr<ICtx> shared_owner = make_ctx(ref.name);
    const ICtx &shared = *shared_owner;
    const std::vector<Query> &alpha = ref.alpha;
    Json j; j.begin_obj(); j.kv("e", "run"); j.kv("case", (long long)caseid); j.kv("mesh", ref.name);
    j.kv("threads", (long long)T); j.kv("reps", (long long)reps); j.kv("lockstep", lockstep);
    put_proj(j, "pre", ref);                      // projection of the reference copy
    set_phase(1);
    // single-threaded reference answers, taken on the REFERENCE copy
    // (one entry per query of the alphabet; 0 for a query no thread of this case uses)
    auto put_seq = [&](const char *key, const ICtx &on) {
        j.key(key); j.begin_arr();
        for (size_t i = 0; i < alpha.size(); ++i) {
            j.comma();
            if (used.count((int)i)) j.raw(on.eval(alpha[i])); else j.raw("0");
            j.need_comma = true;
        }
        j.end_arr();
    };
    put_seq("seq", ref);
    // concurrent phase on the fresh shared object: all threads start together and run their program `reps`
    // times; the answers of the first and of the last repetition are kept
    set_phase(2);
    std::vector<std::vector<std::string>> first(T), last(T);
    std::atomic<size_t> ready{0}; std::atomic<bool> go{false};
    std::atomic<size_t> arrived{0}; std::atomic<size_t> generation{0};
    auto barrier = [&] {
        const size_t gen = generation.load(std::memory_order_acquire);
        if (arrived.fetch_add(1, std::memory_order_acq_rel) + 1 == T) { arrived.store(0, std::memory_order_relaxed); generation.store(gen + 1, std::memory_order_release); }
        else while (generation.load(std::memory_order_acquire) == gen) std::this_thread::yield();
    };
    std::vector<std::thread> th;
    for (size_t t = 0; t < T; ++t) {
        th.emplace_back([&, t] {
            std::vector<std::string> f, l;
            f.reserve(progs[t].size()); l.reserve(progs[t].size());
            ready.fetch_add(1);
            while (!go.load(std::memory_order_acquire)) std::this_thread::yield();
            for (int r = 0; r < reps; ++r) {
                const bool keep_f = r == 0, keep_l = r == reps - 1;
                if (keep_l) l.clear();
                for (int i : progs[t]) {
                    if (lockstep) barrier();
                    std::string a = shared.eval(alpha[(size_t)i]);
                    if (keep_f) f.push_back(a);
                    if (keep_l) l.push_back(std::move(a));
                }
            }
            first[t] = std::move(f); last[t] = std::move(l);
        });
    }
    while (ready.load() < T) std::this_thread::yield();
    go.store(true, std::memory_order_release);
    for (auto &x : th) x.join();
    j.key("progs"); j.begin_arr(); for (auto const &p : progs) j.int_arr(p); j.end_arr();
    auto put_runs = [&](const char *key, const std::vector<std::vector<std::string>> &runs) {
        j.key(key); j.begin_arr();
        for (auto const &r : runs) { j.begin_arr(); for (auto const &a : r) { j.comma(); j.raw(a); j.need_comma = true; } j.end_arr(); }
        j.end_arr();
    };
    put_runs("first", first); put_runs("last", last);
    // single-threaded again, on the shared object after the concurrent phase, and its projection
    set_phase(3);
    put_seq("seq2", shared);
    put_proj(j, "post", shared);
    j.end_obj(); vx::emit(j);
    set_phase(4);
}

// strict JSON syntax check of one ndjson line produced by a child (printable ASCII only).  A child whose heap was
// overwritten by racing library code can produce garbage; that must not reach the trace as a line TLC cannot parse.
struct JsonSyntax {
    const std::string &t; size_t i = 0; int depth = 0;
    explicit JsonSyntax(const std::string &s) : t(s) {}
    bool lit(const char *w) { size_t n = strlen(w); if (t.compare(i, n, w) != 0) return false; i += n; return true; }
    bool str() {
        if (t[i] != '"') return false;
        for (++i; i < t.size(); ++i) {
            const unsigned char c = (unsigned char)t[i];
            if (c < 0x20 || c >= 0x7f) return false;
            if (c == '\\') { ++i; if (i >= t.size() || !strchr("\"\\/bfnrtu", t[i])) return false; continue; }
            if (c == '"') { ++i; return true; }
        }
        return false;
    }
    bool num() {
        size_t s = i; if (t[i] == '-') ++i;
        size_t d = i; while (i < t.size() && isdigit((unsigned char)t[i])) ++i;
        if (i == d || i - d > 18) return false;
        if (i < t.size() && t[i] == '.') { ++i; size_t f = i; while (i < t.size() && isdigit((unsigned char)t[i])) ++i; if (i == f) return false; }
        return i > s;
    }
    bool val() {
        if (i >= t.size() || ++depth > 64) return false;
        bool ok;
        const char c = t[i];
        if (c == '{') {
            ++i; ok = true;
            if (t[i] == '}') ++i;
            else for (;;) { if (!str() || i >= t.size() || t[i] != ':') { ok = false; break; } ++i; if (!val()) { ok = false; break; }
                            if (t[i] == ',') { ++i; continue; } if (t[i] == '}') { ++i; break; } ok = false; break; }
        } else if (c == '[') {
            ++i; ok = true;
            if (t[i] == ']') ++i;
            else for (;;) { if (!val()) { ok = false; break; } if (t[i] == ',') { ++i; continue; } if (t[i] == ']') { ++i; break; } ok = false; break; }
        } else if (c == '"') ok = str();
        else if (c == 't') ok = lit("true"); else if (c == 'f') ok = lit("false");
        else ok = num();
        --depth;
        return ok;
    }
};
static bool well_formed_line(const std::string &t) {
    if (t.size() < 3 || t[0] != '{' || t[t.size() - 1] != '\n') return false;
    if (t.compare(0, 10, "{\"e\":\"run\"") != 0) return false;
    JsonSyntax p(t);
    return p.val() && p.i + 1 == t.size();
}

// run `body` in a forked child under a time limit, its stdout captured through a pipe;
// returns the wait status (0 = clean exit) and the captured text
template <class F> static int in_child(F body, std::string &captured) {
    fflush(stdout); fflush(stderr);
    int fd[2];
    if (pipe(fd) != 0) { perror("pipe"); exit(3); }
    pid_t pid = fork();
    if (pid < 0) { perror("fork"); exit(3); }
    if (pid == 0) {
        close(fd[0]); dup2(fd[1], 1); close(fd[1]);
        const char *lim = getenv("READERS_CASE_TIMEOUT");
        alarm(lim ? (unsigned)atoi(lim) : 900u);
        body();
        fflush(stdout); fflush(stderr);
        _exit(0);
    }
    close(fd[1]);
    captured.clear();
    char buf[65536]; ssize_t n;
    while ((n = read(fd[0], buf, sizeof buf)) > 0) captured.append(buf, (size_t)n);
    close(fd[0]);
    int st = 0; waitpid(pid, &st, 0);
    if (WIFEXITED(st)) return WEXITSTATUS(st);
    return 1000 + (WIFSIGNALED(st) ? WTERMSIG(st) : 0);
}

int main(int argc, char **argv) {
    if (argc < 2) { fprintf(stderr, "usage: readers_exec script.txt\n"); return 2; }
    g_phase = (volatile int *)mmap(nullptr, sizeof(int), PROT_READ | PROT_WRITE, MAP_SHARED | MAP_ANONYMOUS, -1, 0);
    if (g_phase == MAP_FAILED) { perror("mmap"); return 3; }
    std::ifstream in(argv[1]);
    if (!in) { fprintf(stderr, "cannot open %s\n", argv[1]); return 2; }
    std::unique_ptr<ICtx> ctx;
    std::string line; long nruns = 0; bool alpha_out = false;
    auto need = [&] { if (!ctx) { fprintf(stderr, "readers_exec: no mesh selected\n"); exit(3); } };
    while (std::getline(in, line)) {
        if (line.empty() || line[0] == '#') continue;
        std::istringstream ss(line);
        std::string tag; ss >> tag;
        if (tag == "M") {
            std::string name; ss >> name;
            ctx = make_ctx(name); alpha_out = false;
            Json j; j.begin_obj(); j.kv("e", "mesh"); j.kv("name", ctx->name); j.kv("type", ctx->type);
            put_proj(j, "proj", *ctx);
            j.end_obj(); vx::emit(j);
        } else if (tag == "Q") {
            need();
            Query q; int n; ss >> q.op >> q.a >> q.b >> q.c >> n; q.l.resize((size_t)n); for (auto &x : q.l) ss >> x;
            if (!ss) { fprintf(stderr, "readers_exec: malformed query line: %s\n", line.c_str()); return 3; }
            ctx->alpha.push_back(q);
        } else if (tag == "T") {
            need();
            long caseid; int T, reps; std::string mode; ss >> caseid >> T >> reps >> mode;
            if (mode != "free" && mode != "lock") { fprintf(stderr, "readers_exec: T line needs a mode (free|lock)\n"); return 3; }
            const bool lockstep = mode == "lock";
            std::vector<std::vector<int>> progs((size_t)T);
            for (auto &p : progs) {
                if (!std::getline(in, line)) { fprintf(stderr, "readers_exec: missing program line\n"); return 3; }
                std::istringstream ps(line); std::string pt; int len; ps >> pt >> len;
                if (pt != "P") { fprintf(stderr, "readers_exec: expected a P line\n"); return 3; }
                p.resize((size_t)len); for (auto &x : p) ps >> x;
                if (!ps) { fprintf(stderr, "readers_exec: malformed program line\n"); return 3; }
            }
            if (!alpha_out) { alpha_out = true;  // the alphabet, once, so that the trace is self-contained
                Json j; j.begin_obj(); j.kv("e", "alpha"); j.kv("mesh", ctx->name); j.key("q"); j.begin_arr();
                for (auto const &q : ctx->alpha) { j.begin_obj(); j.kv("op", q.op); j.kv("a", q.a); j.kv("b", q.b); j.kv("c", q.c); j.kint_arr("l", q.l); j.end_obj(); }
                j.end_arr(); j.end_obj(); vx::emit(j);
            }
            *g_phase = 0;
            std::string text, ignored;
            const int st = in_child([&] { run_case(*ctx, caseid, reps, lockstep, progs); }, text);
            const bool corrupt = st == 0 && *g_phase == 4 && !well_formed_line(text);
            if (st == 0 && *g_phase == 4 && !corrupt) {
                fwrite(text.data(), 1, text.size(), stdout); fflush(stdout);
            } else {
                // the case died (or logged garbage): in which phase, and do the same programs complete on one thread?
                const int phase = *g_phase;
                int st2 = -1;
                if (phase >= 2) st2 = in_child([&] { run_sequential_replay(*ctx, reps, progs); }, ignored);
                Json j; j.begin_obj(); j.kv("e", "crash"); j.kv("case", (long long)caseid); j.kv("mesh", ctx->name);
                j.kv("threads", (long long)T); j.kv("reps", (long long)reps); j.kv("lockstep", lockstep); j.kv("phase", (long long)phase);
                j.kv("status", (long long)st); j.kv("corrupt_output", corrupt); j.kv("seq_replay_ok", st2 == 0);
                j.end_obj(); vx::emit(j);
            }
            ++nruns;
        } else { fprintf(stderr, "readers_exec: unknown script tag %s\n", tag.c_str()); return 3; }
    }
    Json j; j.begin_obj(); j.kv("e", "end"); j.kv("runs", (long long)nruns); j.end_obj(); vx::emit(j);
    return 0;
}
