# executor of the tetrahedral / hexahedral kernel checks (C15, C16)
add_executable(tethex_exec ${CMAKE_CURRENT_LIST_DIR}/tethex_exec.cc)
target_link_libraries(tethex_exec OpenVolumeMesh::OpenVolumeMesh)
