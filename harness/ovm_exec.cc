// ovm_exec: performs call scripts on real OpenVolumeMesh meshes and records,
// after every call, the full observable state as one ndjson line.
// No expected values, no oracle logic (see exec_common.hh).
#include "ovm_state.hh"
#include "queries.hh"
#include <OpenVolumeMesh/Attribs/StatusAttrib.hh>
#include <csignal>

// ---------------------------------------------------------------- main loop
// Scripts are trees: "B" forks a child that executes up to the matching "E"
// while the parent skips the block, so every branch starts from exactly the
// same in-memory state without re-execution, and a crash inside a branch
// (sanitizer report, libstdc++ assertion, signal) ends that branch only.
// Every logged line carries "sid" (its script line) and "psid" (the script line
// whose post state is this call's pre state).
#include <sys/wait.h>
#if defined(__has_feature)
#  if __has_feature(address_sanitizer)
#    define VX_ASAN 1
#  endif
#endif
#if defined(__SANITIZE_ADDRESS__)
#  define VX_ASAN 1
#endif
#ifdef VX_ASAN
extern "C" void __sanitizer_set_death_callback(void (*)(void));
#endif

static long g_exec = -1, g_sid = -1, g_cur = -1;
static void crash_line(int sig) {
    char buf[200];
    int n = snprintf(buf, sizeof buf, "{\"e\":\"crash\",\"sig\":%d,\"x\":%ld,\"sid\":%ld,\"psid\":%ld}\n", sig, g_exec, g_sid, g_cur);
    if (n > 0) { ssize_t w = write(1, buf, (size_t)n); (void)w; }
}
static void on_fatal(int sig) { crash_line(sig); _exit(70); }
static void on_death() { crash_line(-2); }

struct Runner {
    std::vector<vx::ScriptItem> items;
    std::unique_ptr<MeshBox> box, twin;
    int qlevel = 0; bool with_props = false;
    long skip = 0;

    void reset(const vx::ScriptItem &it, long sid) {
        ++g_exec;
        box.reset(); twin.reset();
        if (g_exec < skip) return;
        box.reset(new MeshBox());
        box->type = it.meshtype; box->owner = make_mesh(it.meshtype); box->m = box->owner.get();
        int plevel = 0; bool want_twin = false; qlevel = 0;
        for (auto &kv : it.opts) {
            if (kv.first == "props") plevel = atoi(kv.second.c_str());
            if (kv.first == "twin") want_twin = atoi(kv.second.c_str()) != 0;
            if (kv.first == "q") qlevel = atoi(kv.second.c_str());
        }
        with_props = plevel > 0;
        box->setup_props(plevel);
        if (want_twin) {
            twin.reset(new MeshBox());
            twin->type = it.meshtype; twin->owner = make_mesh(it.meshtype); twin->m = twin->owner.get();
            twin->setup_props(plevel);
        }
        log_state("reset", sid);
        g_cur = sid;
    }
    static bool twin_core_equal(const TopologyKernel &a, const TopologyKernel &b) {
        if (a.n_vertices() != b.n_vertices() || a.n_edges() != b.n_edges() ||
            a.n_faces() != b.n_faces() || a.n_cells() != b.n_cells()) return false;
        for (int i = 0; i < (int)a.n_vertices(); ++i)
            if (a.is_deleted(VertexHandle(i)) != b.is_deleted(VertexHandle(i))) return false;
        for (int i = 0; i < (int)a.n_edges(); ++i) {
            EdgeHandle h(i);
            if (a.is_deleted(h) != b.is_deleted(h)) return false;
            if (a.is_deleted(h)) continue;
            if (a.edge(h).from_vertex() != b.edge(h).from_vertex() ||
                a.edge(h).to_vertex() != b.edge(h).to_vertex()) return false;
        }
        for (int i = 0; i < (int)a.n_faces(); ++i) {
            FaceHandle h(i);
            if (a.is_deleted(h) != b.is_deleted(h)) return false;
            if (a.is_deleted(h)) continue;
            if (a.face(h).halfedges() != b.face(h).halfedges()) return false;
        }
        for (int i = 0; i < (int)a.n_cells(); ++i) {
            CellHandle h(i);
            if (a.is_deleted(h) != b.is_deleted(h)) return false;
            if (a.is_deleted(h)) continue;
            if (a.cell(h).halffaces() != b.cell(h).halffaces()) return false;
        }
        return true;
    }
    void log_state(const char *e, long sid) {
        Json j; j.begin_obj(); j.kv("e", e); j.kv("x", (long long)g_exec); j.kv("sid", (long long)sid);
        j.kv("mesh", box->type);
        j.key("post"); dump_state(j, *box, true, with_props);
        j.end_obj(); vx::emit(j);
    }
    void call(const CallRec &c, long sid) {
        g_sid = sid;
        long long ret = VOID, tret = VOID;
        bool known = true;
        std::vector<int> rl_main;
        if (c.op == "stamp") {
            ret = (long long)box->stamp();
            if (twin) tret = (long long)twin->stamp();
        } else if (c.op == "more_props") {
            { size_t n0 = box->props.size(); box->add_more_props(std::to_string(++box->propcount)); box->refill(n0); }
            if (twin) { size_t n0 = twin->props.size(); twin->add_more_props(std::to_string(++twin->propcount)); twin->refill(n0); }
        } else {
            last_list().clear();
            ret = do_kernel_call(*box->m, c, &known);
            rl_main = last_list();
            if (!known) { fprintf(stderr, "unknown op %s\n", c.op.c_str()); exit(3); }
            if (twin && !is_bu_toggle(c.op)) tret = do_kernel_call(*twin->m, c, &known);
        }
        if (c.chk != 0) {
            Json j; j.begin_obj(); j.kv("e", "call"); j.kv("x", (long long)g_exec);
            j.kv("sid", (long long)sid); j.kv("psid", (long long)g_cur);
            j.kv("chk", c.chk == 1);
            vx::write_call(j, c);
            j.kv("ret", ret);
            if (c.op == "status_gc") j.kint_arr("rl", rl_main);
            j.key("post"); dump_state(j, *box, true, with_props);
            if (twin) { j.kv("tret", tret); j.key("tw"); dump_state(j, *twin, false, with_props); }
            if (qlevel > 0 && c.chk == 1) { j.key("q"); vq::dump_queries(j, *box->m, qlevel); }
            j.end_obj(); vx::emit(j);
            g_cur = sid;
        // Once the two runs have legitimately diverged (parallel edges: the
        // incidence-guided and the scanning search may pick different ones) the
        // history is no longer in contract for the twin: stop driving it.  The
        // diverging line itself has been emitted, so the validator still sees it.
            if (twin && !twin_core_equal(*box->m, *twin->m)) twin.reset();
        }
        g_sid = -1;
    }
    size_t match_end(size_t b) const {
        int depth = 0;
        for (size_t k = b; k < items.size(); ++k) {
            if (items[k].tag == 'B') ++depth;
            else if (items[k].tag == 'E') { if (--depth == 0) return k; }
            else if (items[k].tag == 'R' && k > b) break;
        }
        fprintf(stderr, "unbalanced B at script line %zu\n", b); exit(3);
    }
    // execute items [lo, hi)
    void run(size_t lo, size_t hi) {
        for (size_t k = lo; k < hi; ++k) {
            const vx::ScriptItem &it = items[k];
            if (it.tag == 'R') { reset(it, (long)k); continue; }
            if (g_exec < skip || !box) continue;
            if (it.tag == 'P') { log_state("pre", (long)k); g_cur = (long)k; continue; }
            if (it.tag == 'C') { call(it.call, (long)k); continue; }
            if (it.tag == 'E') continue;
            if (it.tag == 'B') {
                size_t e = match_end(k);
                fflush(stdout);
                pid_t pid = fork();
                if (pid < 0) { perror("fork"); exit(3); }
                if (pid == 0) { run(k + 1, e); fflush(stdout); _exit(0); }
                int st = 0; waitpid(pid, &st, 0);
                bool clean = WIFEXITED(st) && WEXITSTATUS(st) == 0;
                if (!clean) {
                    Json j; j.begin_obj(); j.kv("e", "branch_died"); j.kv("x", (long long)g_exec);
                    j.kv("sid", (long long)k); j.kv("psid", (long long)g_cur);
                    j.kv("status", (long long)(WIFEXITED(st) ? WEXITSTATUS(st) : 1000 + WTERMSIG(st)));
                    j.end_obj(); vx::emit(j);
                }
                k = e;
            }
        }
    }
};

int main(int argc, char **argv) {
    const char *path = nullptr;
    Runner r;
    for (int i = 1; i < argc; ++i) {
        if (!strcmp(argv[i], "--skip") && i + 1 < argc) r.skip = atol(argv[++i]);
        else path = argv[i];
    }
    if (!path) { fprintf(stderr, "usage: ovm_exec [--skip N] script.txt\n"); return 2; }
    std::ifstream in(path);
    if (!in) { fprintf(stderr, "cannot open %s\n", path); return 2; }
    std::set_terminate([] { on_fatal(-1); });
    signal(SIGABRT, on_fatal); signal(SIGSEGV, on_fatal); signal(SIGFPE, on_fatal); signal(SIGBUS, on_fatal);
#ifdef VX_ASAN
    __sanitizer_set_death_callback(on_death);
#endif
    (void)on_death;
    vx::ScriptItem it;
    while (vx::read_item(in, it)) r.items.push_back(it);
    r.run(0, r.items.size());
    Json j; j.begin_obj(); j.kv("e", "end"); j.kv("x", (long long)g_exec); j.end_obj(); vx::emit(j);
    return 0;
}
