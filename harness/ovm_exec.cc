// ovm_exec: performs call scripts on real OpenVolumeMesh meshes and records,
// after every call, the full observable state as one ndjson line.
// No expected values, no oracle logic (see exec_common.hh).
#include "exec_common.hh"
#include "queries.hh"

#include <OpenVolumeMesh/Mesh/PolyhedralMesh.hh>
#include <OpenVolumeMesh/Mesh/TetrahedralMesh.hh>
#include <OpenVolumeMesh/Mesh/HexahedralMesh.hh>
#include <OpenVolumeMesh/Attribs/StatusAttrib.hh>

#include <memory>
#include <map>
#include <csignal>

using namespace OpenVolumeMesh;
using vx::Json; using vx::CallRec;

// ---------------------------------------------------------------- properties
// A tracked property of the executor: created through the public registry,
// values are a function of the entity's stamp id so that any mis-permutation
// is visible.  "default" slots are stamped by the explicit pseudo call "stamp".
struct PropBase {
    std::string kind, name, type, flavour;
    virtual ~PropBase() = default;
    virtual size_t size() const = 0;
    virtual void dump_vals(Json &j) const = 0;
    virtual void dump_def(Json &j) const = 0;
    virtual void set_from_id(size_t slot, long long id) = 0;
    virtual bool valid() const = 0;
};

template <class T> struct Conv;
template <> struct Conv<int> {
    static int from_id(long long id) { return (int)(id * 7 + 3); }
    static int def() { return -7; }
    static void put(Json &j, int v) { j.val((long long)v); }
    static const char *name() { return "int"; }
};
template <> struct Conv<bool> {
    static bool from_id(long long id) { unsigned long long x = (unsigned long long)id * 0x9E3779B97F4A7C15ull; return (x >> 40) & 1; }
    static bool def() { return false; }
    static void put(Json &j, bool v) { j.val((long long)(v ? 1 : 0)); }
    static const char *name() { return "bool"; }
};
template <> struct Conv<double> {
    static double from_id(long long id) { return (double)id + 0.25; }
    static double def() { return -0.5; }
    static void put(Json &j, double v) { char b[64]; snprintf(b, sizeof b, "%.17g", v); j.val(std::string(b)); }
    static const char *name() { return "double"; }
};
template <> struct Conv<std::string> {
    static std::string from_id(long long id) { return "s" + std::to_string(id); }
    static std::string def() { return "dflt"; }
    static void put(Json &j, const std::string &v) { j.val(v); }
    static const char *name() { return "string"; }
};
template <> struct Conv<Vec3d> {
    static Vec3d from_id(long long id) { return Vec3d((double)id, 2.0 * id + 0.5, -1.0 * id); }
    static Vec3d def() { return Vec3d(9.0, 9.0, 9.0); }
    static void put(Json &j, const Vec3d &v) { char b[128]; snprintf(b, sizeof b, "%.17g %.17g %.17g", v[0], v[1], v[2]); j.val(std::string(b)); }
    static const char *name() { return "vec3d"; }
};

// the id property: value is the stamp id itself, default -1
struct IdTag {};

template <class T, class Tag, bool IsId = false>
struct PropT : PropBase {
    PropertyPtr<T, Tag> p;
    explicit PropT(PropertyPtr<T, Tag> pp) : p(std::move(pp)) {}
    size_t size() const override { return p.size(); }
    bool valid() const override { return (bool)p; }
    void dump_vals(Json &j) const override {
        j.begin_arr();
        auto const &v = p.data_vector();
        for (size_t i = 0; i < v.size(); ++i) Conv<T>::put(j, (T)v[i]);
        j.end_arr();
    }
    void dump_def(Json &j) const override { Conv<T>::put(j, p.def()); }
    void set_from_id(size_t slot, long long id) override {
        HandleT<Tag> h((int)slot);
        if constexpr (IsId) p.at(h) = (T)id; else p.at(h) = Conv<T>::from_id(id);
    }
};

template <class Tag> const char *kind_name();
template <> const char *kind_name<Entity::Vertex>() { return "V"; }
template <> const char *kind_name<Entity::Edge>() { return "E"; }
template <> const char *kind_name<Entity::HalfEdge>() { return "HE"; }
template <> const char *kind_name<Entity::Face>() { return "F"; }
template <> const char *kind_name<Entity::HalfFace>() { return "HF"; }
template <> const char *kind_name<Entity::Cell>() { return "C"; }
template <> const char *kind_name<Entity::Mesh>() { return "M"; }

// ---------------------------------------------------------------- one mesh
struct Acc : TopologyKernel {
    static auto const &out(TopologyKernel const &m) { return m.*(&Acc::outgoing_hes_per_vertex_); }
    static auto const &hehf(TopologyKernel const &m) { return m.*(&Acc::incident_hfs_per_he_); }
    static auto const &inc(TopologyKernel const &m) { return m.*(&Acc::incident_cell_per_hf_); }
};

struct MeshBox {
    std::string type;
    std::unique_ptr<TopologyKernel> owner;
    TopologyKernel *m = nullptr;
    std::vector<std::unique_ptr<PropBase>> props;
    // the id properties, by kind index 0..5 = V E HE F HF C
    PropertyPtr<int, Entity::Vertex> *idV = nullptr;
    PropertyPtr<int, Entity::Edge> *idE = nullptr;
    PropertyPtr<int, Entity::HalfEdge> *idHE = nullptr;
    PropertyPtr<int, Entity::Face> *idF = nullptr;
    PropertyPtr<int, Entity::HalfFace> *idHF = nullptr;
    PropertyPtr<int, Entity::Cell> *idC = nullptr;
    long long nextV = 0, nextE = 0, nextF = 0, nextC = 0;
    int propcount = 0;

    template <class T, class Tag, bool IsId = false>
    PropT<T, Tag, IsId> *add_prop(const std::string &flavour, const std::string &name, T def) {
        std::unique_ptr<PropT<T, Tag, IsId>> pb;
        if (flavour == "shared")
            pb.reset(new PropT<T, Tag, IsId>(m->request_property<T, Tag>(name, def)));
        else if (flavour == "private")
            pb.reset(new PropT<T, Tag, IsId>(m->create_private_property<T, Tag>(name, def)));
        else {
            auto o = m->create_persistent_property<T, Tag>(name, def);
            if (!o) { fprintf(stderr, "cannot create persistent property %s\n", name.c_str()); exit(3); }
            pb.reset(new PropT<T, Tag, IsId>(*o));
        }
        pb->kind = kind_name<Tag>(); pb->name = name; pb->type = IsId ? "id" : Conv<T>::name(); pb->flavour = flavour;
        auto *raw = pb.get();
        props.emplace_back(std::move(pb));
        return raw;
    }

    template <class Tag> void add_id_prop(PropertyPtr<int, Tag> *&slot) {
        auto *p = add_prop<int, Tag, true>("shared", std::string("vx:id:") + kind_name<Tag>(), -1);
        slot = &p->p;
    }

    void setup_props(int level) {
        if (level <= 0) return;
        add_id_prop<Entity::Vertex>(idV); add_id_prop<Entity::Edge>(idE); add_id_prop<Entity::HalfEdge>(idHE);
        add_id_prop<Entity::Face>(idF); add_id_prop<Entity::HalfFace>(idHF); add_id_prop<Entity::Cell>(idC);
        if (level >= 2) add_more_props("a");
    }
    // a mixed family of value types / flavours on all seven kinds
    void add_more_props(const std::string &sfx) {
        add_prop<bool, Entity::Vertex>("private", "", Conv<bool>::def());
        add_prop<std::string, Entity::Vertex>("persistent", "vs" + sfx, Conv<std::string>::def());
        add_prop<double, Entity::Edge>("shared", "ed" + sfx, Conv<double>::def());
        add_prop<bool, Entity::Edge>("persistent", "eb" + sfx, Conv<bool>::def());
        add_prop<bool, Entity::HalfEdge>("shared", "heb" + sfx, Conv<bool>::def());
        add_prop<std::string, Entity::HalfEdge>("private", "", Conv<std::string>::def());
        add_prop<Vec3d, Entity::Face>("shared", "fv" + sfx, Conv<Vec3d>::def());
        add_prop<bool, Entity::Face>("private", "", Conv<bool>::def());
        add_prop<int, Entity::HalfFace>("persistent", "hfi" + sfx, Conv<int>::def());
        add_prop<bool, Entity::HalfFace>("shared", "hfb" + sfx, Conv<bool>::def());
        add_prop<double, Entity::Cell>("private", "", Conv<double>::def());
        add_prop<bool, Entity::Cell>("shared", "cb" + sfx, Conv<bool>::def());
        add_prop<int, Entity::Mesh>("shared", "mi" + sfx, Conv<int>::def());
    }

    // give every slot that still carries the default id a fresh id and set all
    // property values of that slot from the id; returns number of stamped slots
    template <class Tag, class FullTag>
    size_t stamp_kind(PropertyPtr<int, Tag> *idp, PropertyPtr<int, FullTag> *fullid, long long *next) {
        if (!idp) return 0;
        size_t n = 0;
        const char *kn = kind_name<Tag>();
        for (size_t i = 0; i < idp->size(); ++i) {
            if (idp->data_vector()[i] != -1) continue;
            long long id;
            if (next) id = (*next)++;
            else { long long fid = fullid->data_vector()[i / 2]; if (fid == -1) continue; id = 2 * fid + (long long)(i % 2); }
            for (auto &p : props) if (p->kind == kn && p->size() > i) p->set_from_id(i, id);
            ++n;
        }
        return n;
    }
    size_t stamp() {
        size_t n = 0;
        n += stamp_kind<Entity::Vertex, Entity::Vertex>(idV, nullptr, &nextV);
        n += stamp_kind<Entity::Edge, Entity::Edge>(idE, nullptr, &nextE);
        n += stamp_kind<Entity::HalfEdge, Entity::Edge>(idHE, idE, nullptr);
        n += stamp_kind<Entity::Face, Entity::Face>(idF, nullptr, &nextF);
        n += stamp_kind<Entity::HalfFace, Entity::Face>(idHF, idF, nullptr);
        n += stamp_kind<Entity::Cell, Entity::Cell>(idC, nullptr, &nextC);
        return n;
    }
};

static std::unique_ptr<TopologyKernel> make_mesh(const std::string &t) {
    if (t == "poly") return std::unique_ptr<TopologyKernel>(new GeometricPolyhedralMeshV3d());
    if (t == "tet") return std::unique_ptr<TopologyKernel>(new GeometricTetrahedralMeshV3d());
    if (t == "hex") return std::unique_ptr<TopologyKernel>(new GeometricHexahedralMeshV3d());
    if (t == "topo") return std::unique_ptr<TopologyKernel>(new TopologyKernel());
    fprintf(stderr, "unknown mesh type %s\n", t.c_str()); exit(3);
}

// ---------------------------------------------------------------- projection
static void dump_state(Json &j, const MeshBox &b, bool with_caches, bool with_props) {
    const TopologyKernel &m = *b.m;
    j.begin_obj();
    j.kv("nv", m.n_vertices());
    auto flags = [&](const char *k, size_t n, auto mk) {
        j.key(k); j.begin_arr();
        for (size_t i = 0; i < n; ++i) j.val((bool)m.is_deleted(mk((int)i)));
        j.end_arr();
    };
    flags("vdel", m.n_vertices(), [](int i) { return VertexHandle(i); });
    flags("edel", m.n_edges(), [](int i) { return EdgeHandle(i); });
    flags("fdel", m.n_faces(), [](int i) { return FaceHandle(i); });
    flags("cdel", m.n_cells(), [](int i) { return CellHandle(i); });
    j.kv("ndv", m.n_vertices() - m.n_logical_vertices());
    j.kv("nde", m.n_edges() - m.n_logical_edges());
    j.kv("ndf", m.n_faces() - m.n_logical_faces());
    j.kv("ndc", m.n_cells() - m.n_logical_cells());
    j.key("edges"); j.begin_arr();
    for (size_t i = 0; i < m.n_edges(); ++i) {
        auto const &e = m.edge(EdgeHandle((int)i));
        j.begin_arr(); j.val(e.from_vertex().idx()); j.val(e.to_vertex().idx()); j.end_arr();
    }
    j.end_arr();
    j.key("faces"); j.begin_arr();
    for (size_t i = 0; i < m.n_faces(); ++i) {
        j.begin_arr(); for (auto h : m.face(FaceHandle((int)i)).halfedges()) j.val(h.idx()); j.end_arr();
    }
    j.end_arr();
    j.key("cells"); j.begin_arr();
    for (size_t i = 0; i < m.n_cells(); ++i) {
        j.begin_arr(); for (auto h : m.cell(CellHandle((int)i)).halffaces()) j.val(h.idx()); j.end_arr();
    }
    j.end_arr();
    j.kv("vbu", m.has_vertex_bottom_up_incidences());
    j.kv("ebu", m.has_edge_bottom_up_incidences());
    j.kv("fbu", m.has_face_bottom_up_incidences());
    j.kv("deferred", m.deferred_deletion_enabled());
    j.kv("fast", m.fast_deletion_enabled());
    if (with_caches) {
        j.key("out"); j.begin_arr();
        for (auto const &row : Acc::out(m)) { j.begin_arr(); for (auto h : row) j.val(h.idx()); j.end_arr(); }
        j.end_arr();
        j.key("hehf"); j.begin_arr();
        for (auto const &row : Acc::hehf(m)) { j.begin_arr(); for (auto h : row) j.val(h.idx()); j.end_arr(); }
        j.end_arr();
        j.key("inc"); j.begin_arr();
        for (auto c : Acc::inc(m)) j.val(c.idx());
        j.end_arr();
    }
    // derived counters the API reports
    j.kv("genus", m.genus());
    j.kv("needs_gc", m.needs_garbage_collection());
    if (with_props) {
        j.key("props"); j.begin_arr();
        for (auto const &p : b.props) {
            j.begin_obj();
            j.kv("k", p->kind); j.kv("t", p->type);
            j.key("d"); p->dump_def(j);
            j.key("v"); p->dump_vals(j);
            j.end_obj();
        }
        j.end_arr();
    }
    j.end_obj();
}

// ---------------------------------------------------------------- calls
static std::vector<HalfEdgeHandle> hes_of(const std::vector<int> &l) { std::vector<HalfEdgeHandle> r; for (int x : l) r.emplace_back(x); return r; }
static std::vector<HalfFaceHandle> hfs_of(const std::vector<int> &l) { std::vector<HalfFaceHandle> r; for (int x : l) r.emplace_back(x); return r; }
static std::vector<VertexHandle> vs_of(const std::vector<int> &l) { std::vector<VertexHandle> r; for (int x : l) r.emplace_back(x); return r; }

static const long long VOID = -2;

// returns the call's result; *known = false if the op is not a kernel call
static long long do_kernel_call(TopologyKernel &m, const CallRec &c, bool *known) {
    *known = true;
    const std::string &op = c.op;
    if (op == "add_vertex") return m.add_vertex().idx();
    if (op == "add_n_vertices") { m.add_n_vertices((size_t)c.a); return VOID; }
    if (op == "add_edge") return m.add_edge(VertexHandle((int)c.a), VertexHandle((int)c.b), c.f).idx();
    if (op == "add_face") return m.add_face(hes_of(c.l), c.f).idx();
    if (op == "add_face_v") return m.add_face(vs_of(c.l)).idx();
    if (op == "add_cell") return m.add_cell(hfs_of(c.l), c.f).idx();
    if (op == "set_edge") { m.set_edge(EdgeHandle((int)c.a), VertexHandle(c.l.at(0)), VertexHandle(c.l.at(1))); return VOID; }
    if (op == "set_face") { m.set_face(FaceHandle((int)c.a), hes_of(c.l)); return VOID; }
    if (op == "set_cell") { m.set_cell(CellHandle((int)c.a), hfs_of(c.l)); return VOID; }
    if (op == "delete_vertex") { m.delete_vertex(VertexHandle((int)c.a)); return VOID; }
    if (op == "delete_edge") { m.delete_edge(EdgeHandle((int)c.a)); return VOID; }
    if (op == "delete_face") { m.delete_face(FaceHandle((int)c.a)); return VOID; }
    if (op == "delete_cell") { m.delete_cell(CellHandle((int)c.a)); return VOID; }
    if (op == "collect_garbage") { m.collect_garbage(); return VOID; }
    if (op == "swap_vertices") { m.swap_vertex_indices(VertexHandle((int)c.a), VertexHandle((int)c.b)); return VOID; }
    if (op == "swap_edges") { m.swap_edge_indices(EdgeHandle((int)c.a), EdgeHandle((int)c.b)); return VOID; }
    if (op == "swap_faces") { m.swap_face_indices(FaceHandle((int)c.a), FaceHandle((int)c.b)); return VOID; }
    if (op == "swap_cells") { m.swap_cell_indices(CellHandle((int)c.a), CellHandle((int)c.b)); return VOID; }
    if (op == "enable_deferred") { m.enable_deferred_deletion(c.f); return VOID; }
    if (op == "enable_fast") { m.enable_fast_deletion(c.f); return VOID; }
    if (op == "enable_vbu") { m.enable_vertex_bottom_up_incidences(c.f); return VOID; }
    if (op == "enable_ebu") { m.enable_edge_bottom_up_incidences(c.f); return VOID; }
    if (op == "enable_fbu") { m.enable_face_bottom_up_incidences(c.f); return VOID; }
    if (op == "clear") { m.clear(c.f); return VOID; }
    *known = false;
    return VOID;
}

static bool is_bu_toggle(const std::string &op) { return op == "enable_vbu" || op == "enable_ebu" || op == "enable_fbu"; }

// ---------------------------------------------------------------- main loop
// Scripts are trees: "B" forks a child that executes up to the matching "E"
// while the parent skips the block, so every branch starts from exactly the
// same in-memory state without re-execution, and a crash inside a branch
// (sanitizer report, libstdc++ assertion, signal) ends that branch only.
// Every logged line carries "sid" (its script line) and "psid" (the script line
// whose post state is this call's pre state).
#include <sys/wait.h>
#if defined(__has_feature)
#  if __has_feature(address_sanitizer)
#    define VX_ASAN 1
#  endif
#endif
#if defined(__SANITIZE_ADDRESS__)
#  define VX_ASAN 1
#endif
#ifdef VX_ASAN
extern "C" void __sanitizer_set_death_callback(void (*)(void));
#endif

static long g_exec = -1, g_sid = -1, g_cur = -1;
static void crash_line(int sig) {
    char buf[200];
    int n = snprintf(buf, sizeof buf, "{\"e\":\"crash\",\"sig\":%d,\"x\":%ld,\"sid\":%ld,\"psid\":%ld}\n", sig, g_exec, g_sid, g_cur);
    if (n > 0) { ssize_t w = write(1, buf, (size_t)n); (void)w; }
}
static void on_fatal(int sig) { crash_line(sig); _exit(70); }
static void on_death() { crash_line(-2); }

struct Runner {
    std::vector<vx::ScriptItem> items;
    std::unique_ptr<MeshBox> box, twin;
    int qlevel = 0; bool with_props = false;
    long skip = 0;

    void reset(const vx::ScriptItem &it, long sid) {
        ++g_exec;
        box.reset(); twin.reset();
        if (g_exec < skip) return;
        box.reset(new MeshBox());
        box->type = it.meshtype; box->owner = make_mesh(it.meshtype); box->m = box->owner.get();
        int plevel = 0; bool want_twin = false; qlevel = 0;
        for (auto &kv : it.opts) {
            if (kv.first == "props") plevel = atoi(kv.second.c_str());
            if (kv.first == "twin") want_twin = atoi(kv.second.c_str()) != 0;
            if (kv.first == "q") qlevel = atoi(kv.second.c_str());
        }
        with_props = plevel > 0;
        box->setup_props(plevel);
        if (want_twin) {
            twin.reset(new MeshBox());
            twin->type = it.meshtype; twin->owner = make_mesh(it.meshtype); twin->m = twin->owner.get();
            twin->setup_props(plevel);
        }
        log_state("reset", sid);
        g_cur = sid;
    }
    void log_state(const char *e, long sid) {
        Json j; j.begin_obj(); j.kv("e", e); j.kv("x", (long long)g_exec); j.kv("sid", (long long)sid);
        j.kv("mesh", box->type);
        j.key("post"); dump_state(j, *box, true, with_props);
        j.end_obj(); vx::emit(j);
    }
    void call(const CallRec &c, long sid) {
        g_sid = sid;
        long long ret = VOID, tret = VOID;
        bool known = true;
        if (c.op == "stamp") {
            ret = (long long)box->stamp();
            if (twin) tret = (long long)twin->stamp();
        } else if (c.op == "more_props") {
            box->add_more_props(std::to_string(++box->propcount));
            if (twin) twin->add_more_props(std::to_string(++twin->propcount));
        } else {
            ret = do_kernel_call(*box->m, c, &known);
            if (!known) { fprintf(stderr, "unknown op %s\n", c.op.c_str()); exit(3); }
            if (twin && !is_bu_toggle(c.op)) tret = do_kernel_call(*twin->m, c, &known);
        }
        if (c.chk != 0) {
            Json j; j.begin_obj(); j.kv("e", "call"); j.kv("x", (long long)g_exec);
            j.kv("sid", (long long)sid); j.kv("psid", (long long)g_cur);
            j.kv("chk", c.chk == 1);
            vx::write_call(j, c);
            j.kv("ret", ret);
            j.key("post"); dump_state(j, *box, true, with_props);
            if (twin) { j.kv("tret", tret); j.key("tw"); dump_state(j, *twin, false, with_props); }
            if (qlevel > 0 && c.chk == 1) { j.key("q"); vq::dump_queries(j, *box->m, qlevel); }
            j.end_obj(); vx::emit(j);
            g_cur = sid;
        }
        g_sid = -1;
    }
    size_t match_end(size_t b) const {
        int depth = 0;
        for (size_t k = b; k < items.size(); ++k) {
            if (items[k].tag == 'B') ++depth;
            else if (items[k].tag == 'E') { if (--depth == 0) return k; }
            else if (items[k].tag == 'R' && k > b) break;
        }
        fprintf(stderr, "unbalanced B at script line %zu\n", b); exit(3);
    }
    // execute items [lo, hi)
    void run(size_t lo, size_t hi) {
        for (size_t k = lo; k < hi; ++k) {
            const vx::ScriptItem &it = items[k];
            if (it.tag == 'R') { reset(it, (long)k); continue; }
            if (g_exec < skip || !box) continue;
            if (it.tag == 'P') { log_state("pre", (long)k); g_cur = (long)k; continue; }
            if (it.tag == 'C') { call(it.call, (long)k); continue; }
            if (it.tag == 'E') continue;
            if (it.tag == 'B') {
                size_t e = match_end(k);
                fflush(stdout);
                pid_t pid = fork();
                if (pid < 0) { perror("fork"); exit(3); }
                if (pid == 0) { run(k + 1, e); fflush(stdout); _exit(0); }
                int st = 0; waitpid(pid, &st, 0);
                bool clean = WIFEXITED(st) && WEXITSTATUS(st) == 0;
                if (!clean) {
                    Json j; j.begin_obj(); j.kv("e", "branch_died"); j.kv("x", (long long)g_exec);
                    j.kv("sid", (long long)k); j.kv("psid", (long long)g_cur);
                    j.kv("status", (long long)(WIFEXITED(st) ? WEXITSTATUS(st) : 1000 + WTERMSIG(st)));
                    j.end_obj(); vx::emit(j);
                }
                k = e;
            }
        }
    }
};

int main(int argc, char **argv) {
    const char *path = nullptr;
    Runner r;
    for (int i = 1; i < argc; ++i) {
        if (!strcmp(argv[i], "--skip") && i + 1 < argc) r.skip = atol(argv[++i]);
        else path = argv[i];
    }
    if (!path) { fprintf(stderr, "usage: ovm_exec [--skip N] script.txt\n"); return 2; }
    std::ifstream in(path);
    if (!in) { fprintf(stderr, "cannot open %s\n", path); return 2; }
    std::set_terminate([] { on_fatal(-1); });
    signal(SIGABRT, on_fatal); signal(SIGSEGV, on_fatal); signal(SIGFPE, on_fatal); signal(SIGBUS, on_fatal);
#ifdef VX_ASAN
    __sanitizer_set_death_callback(on_death);
#endif
    (void)on_death;
    vx::ScriptItem it;
    while (vx::read_item(in, it)) r.items.push_back(it);
    r.run(0, r.items.size());
    Json j; j.begin_obj(); j.kv("e", "end"); j.kv("x", (long long)g_exec); j.end_obj(); vx::emit(j);
    return 0;
}
