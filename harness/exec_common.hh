// Shared helpers of the executors: a tiny JSON writer and the script reader.
// The executors contain NO expected values and NO oracle logic: they perform
// the calls of a script on real OpenVolumeMesh objects and write down what is
// observable afterwards.  Every verdict is taken by TLC from the TLA+ spec.
#pragma once
#include <cstdio>
#include <cstdlib>
#include <cstring>
#include <sstream>
#include <string>
#include <vector>
#include <iostream>
#include <fstream>
#include <unistd.h>

namespace vx {

struct Json {
    std::string s;
    bool need_comma = false;
    void raw(const std::string &x) { s += x; }
    void comma() { if (need_comma) s += ','; need_comma = false; }
    void key(const char *k) { comma(); s += '"'; s += k; s += "\":"; }
    void begin_obj() { comma(); s += '{'; need_comma = false; }
    void end_obj() { s += '}'; need_comma = true; }
    void begin_arr() { comma(); s += '['; need_comma = false; }
    void end_arr() { s += ']'; need_comma = true; }
    void val(long long v) { comma(); s += std::to_string(v); need_comma = true; }
    void val(int v) { val((long long)v); }
    void val(size_t v) { val((long long)v); }
    void val(bool v) { comma(); s += v ? "true" : "false"; need_comma = true; }
    void val(const std::string &v) {
        comma(); s += '"';
        for (unsigned char c : v) {
            if (c == '"' || c == '\\') { s += '\\'; s += (char)c; }
            else if (c < 0x20 || c >= 0x7f) { char b[8]; snprintf(b, sizeof b, "\\u%04x", c); s += b; }
            else s += (char)c;
        }
        s += '"'; need_comma = true;
    }
    void val(const char *v) { val(std::string(v)); }
    template <class T> void kv(const char *k, const T &v) { key(k); val(v); }
    template <class V> void int_arr(const V &v) { begin_arr(); for (auto const &x : v) val((long long)x); end_arr(); }
    template <class V> void kint_arr(const char *k, const V &v) { key(k); int_arr(v); }
};

// one call of a script:  op a b f l...
struct CallRec {
    std::string op;
    long long a = 0, b = 0;
    bool f = false;
    std::vector<int> l;
    int chk = 1;           // 0 silent, 1 logged and checked, 2 logged only
    std::string sarg;      // optional string argument (file names, property names)
};

inline void write_call(Json &j, const CallRec &c) {
    j.key("c"); j.begin_obj();
    j.kv("op", c.op); j.kv("a", c.a); j.kv("b", c.b); j.kv("f", c.f);
    j.kint_arr("l", c.l);
    if (!c.sarg.empty()) j.kv("s", c.sarg);
    j.end_obj();
}

// Script format (text, one item per line):
//   R <meshtype> [opt=val ...]      reset: start a new execution
//   C <chk> <op> <a> <b> <f> <n> <l1> ... <ln> [| string argument]
struct ScriptItem {
    bool is_reset = false;
    char tag = 'C';        // R reset, C call, B begin branch (fork), E end branch, P log state
    std::string meshtype;
    std::vector<std::pair<std::string, std::string>> opts;
    CallRec call;
};

inline bool read_item(std::istream &in, ScriptItem &it) {
    std::string line;
    while (std::getline(in, line)) {
        if (line.empty() || line[0] == '#') continue;
        std::string sarg;
        auto bar = line.find(" | ");
        if (bar != std::string::npos) { sarg = line.substr(bar + 3); line = line.substr(0, bar); }
        std::istringstream ss(line);
        std::string tag; ss >> tag;
        it = ScriptItem();
        if (tag == "R") {
            it.is_reset = true; it.tag = 'R'; ss >> it.meshtype;
            std::string kv;
            while (ss >> kv) {
                auto eq = kv.find('=');
                if (eq == std::string::npos) it.opts.emplace_back(kv, "1");
                else it.opts.emplace_back(kv.substr(0, eq), kv.substr(eq + 1));
            }
            return true;
        } else if (tag == "B" || tag == "E" || tag == "P") {
            it.tag = tag[0];
            return true;
        } else if (tag == "C") {
            int chk, f, n; ss >> chk >> it.call.op >> it.call.a >> it.call.b >> f >> n;
            it.call.chk = chk; it.call.f = f != 0;
            it.call.l.resize(n);
            for (int i = 0; i < n; ++i) ss >> it.call.l[i];
            it.call.sarg = sarg;
            return true;
        }
    }
    return false;
}

inline void emit(const Json &j) {
    fwrite(j.s.data(), 1, j.s.size(), stdout);
    fputc('\n', stdout);
    fflush(stdout);
}

} // namespace vx
